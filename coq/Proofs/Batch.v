(* Proofs/Batch.v — wn._add._batch: the batches concatenate to the original sequence. *)
From Coq Require Import ZArith List Lia.
Import ListNotations.
Require Import WnV.Base.Sx WnV.Gen.Constants.
Local Open Scope Z_scope.
(* _batch(): the batches concatenate to the sequence, for the BATCH_SIZE the source has now *)
Fixpoint batch_fuel (fuel : nat) (n : nat) {T} (xs : list T) : list (list T) :=
  match fuel with
  | O => []
  | S f => match xs with
           | [] => []
           | _ => firstn n xs :: batch_fuel f n (skipn n xs)
           end
  end.
Definition batch {T} (n : nat) (xs : list T) : list (list T) := batch_fuel (S (length xs)) n xs.
Lemma batch_fuel_concat : forall fuel n T (xs : list T),
    (0 < n)%nat -> (length xs < fuel)%nat -> concat (batch_fuel fuel n xs) = xs.
Proof.
  induction fuel as [|f IH]; intros n T xs Hn Hl; [lia|].
  destruct xs as [|x xs']; [reflexivity|].
  cbn [batch_fuel concat]. rewrite IH.
  - apply firstn_skipn.
  - exact Hn.
  - rewrite skipn_length. cbn [length] in Hl.
    destruct n as [|n']; [lia|]. cbn [length]. lia.
Qed.
Lemma batches_concat : forall T (xs : list T),
    concat (batch (Z.to_nat BATCH_SIZE) xs) = xs.
Proof.
  intros T xs. apply batch_fuel_concat; [|lia].
  assert (H : (0 < BATCH_SIZE)%Z) by (vm_compute; reflexivity).
  lia.
Qed.
Lemma batches_nonempty : forall fuel n T (xs : list T) b,
    (0 < n)%nat -> In b (batch_fuel fuel n xs) -> b <> [].
Proof.
  induction fuel as [|f IH]; intros n T xs b Hn Hin; [contradiction|].
  destruct xs as [|x xs']; [contradiction|].
  cbn [batch_fuel] in Hin. destruct Hin as [<-|Hin].
  - destruct n as [|n']; [lia|]. discriminate.
  - eapply IH; eassumption.
Qed.
