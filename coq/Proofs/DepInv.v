(* DepInv.v — the dependency links of installed lexicons are resolved exactly.

   lexicon_dependencies(dependent_rowid, provider_id, provider_version, provider_url, provider_rowid):
   in every database reached by add_lexical_resource / remove from a database satisfying the
   invariant, provider_rowid is the rowid of the installed lexicon (provider_id, provider_version)
   when there is one, and NULL otherwise. *)
From Coq Require Import ZArith List Bool Lia.
Import ListNotations.
Require Import WnV.Base.Sx WnV.Gen.Schema WnV.Gen.Constants WnV.Model.Spec WnV.Model.Val.
Require Import WnV.Model.Rel WnV.Model.Add.
Require Import WnV.Proofs.AddProofs WnV.Proofs.AddContent WnV.Proofs.AddRemove.
From Coq Require Import String.
Import ListNotations.
Local Open Scope Z_scope.
Local Open Scope string_scope.

(* ====================================================================== *)
(* Definitions                                                             *)
(* ====================================================================== *)
(* the lexicons row l carries the pair (pid, pver); SQL equality: never true on NULL *)
Definition lex_match (pid pver : cell) (l : row) : bool :=
  sql_eq (col "lexicons" "id" l) pid && sql_eq (col "lexicons" "version" l) pver.
(* two lexicons rows agree on the UNIQUE key (id, version) *)
Definition lex_same (l1 l2 : row) : bool :=
  sql_eq (col "lexicons" "id" l1) (col "lexicons" "id" l2)
  && sql_eq (col "lexicons" "version" l1) (col "lexicons" "version" l2).

(* (SELECT rowid FROM lexicons WHERE id = pid AND version = pver), on a table *)
Definition resolve_in (lex : table) (pid pver : cell) : cell :=
  match find (lex_match pid pver) lex with
  | Some l => CInt (rowid_of l)
  | None => CNull
  end.
Definition resolve (d : db) (pid pver : cell) : cell := resolve_in (get_table d "lexicons") pid pver.

Definition unique_tbl (lex : table) : Prop :=
  forall l1 l2, In l1 lex -> In l2 lex -> lex_same l1 l2 = true -> l1 = l2.
Definition wf_tbl (deps : table) : Prop := forall r, In r deps -> List.length r = 6%nat.
Definition resolved_tbl (lex deps : table) : Prop :=
  forall r, In r deps ->
    col "lexicon_dependencies" "provider_rowid" r
    = resolve_in lex (col "lexicon_dependencies" "provider_id" r)
                     (col "lexicon_dependencies" "provider_version" r).

(* (id, version) is a key of the lexicons table *)
Definition lexicons_unique (d : db) : Prop := unique_tbl (get_table d "lexicons").
(* the rows of lexicon_dependencies have their six cells (rowid and five columns) *)
Definition deps_wf (d : db) : Prop := wf_tbl (get_table d "lexicon_dependencies").
(* THE INVARIANT: provider_rowid = the rowid of the lexicons row (provider_id, provider_version),
   NULL when there is none *)
Definition deps_resolved (d : db) : Prop :=
  resolved_tbl (get_table d "lexicons") (get_table d "lexicon_dependencies").
Definition dep_inv (d : db) : Prop := lexicons_unique d /\ deps_wf d /\ deps_resolved d.

Lemma deps_resolved_unfold : forall d,
    deps_resolved d <->
    forall r, In r (get_table d "lexicon_dependencies") ->
      col "lexicon_dependencies" "provider_rowid" r
      = match filter (lex_match (col "lexicon_dependencies" "provider_id" r)
                                (col "lexicon_dependencies" "provider_version" r))
                     (get_table d "lexicons") with
        | [] => CNull
        | l :: _ => CInt (rowid_of l)
        end.
Proof.
  intro d. unfold deps_resolved, resolved_tbl, resolve_in.
  assert (forall p (lex : table),
             match find p lex with Some l => CInt (rowid_of l) | None => CNull end
             = match filter p lex with [] => CNull | l :: _ => CInt (rowid_of l) end) as E.
  { intros p lex. induction lex as [|a lex IH]; simpl; [reflexivity|]. destruct (p a); [reflexivity|exact IH]. }
  split; intros H r Hr; specialize (H r Hr); [rewrite <- E|rewrite E]; exact H.
Qed.

Lemma dep_inv_ext : forall d d',
    get_table d' "lexicons" = get_table d "lexicons" ->
    get_table d' "lexicon_dependencies" = get_table d "lexicon_dependencies" ->
    dep_inv d -> dep_inv d'.
Proof.
  intros d d' E1 E2 H. unfold dep_inv, lexicons_unique, deps_wf, deps_resolved in *.
  rewrite E1, E2. exact H.
Qed.

(* ---------- column positions ---------- *)
Lemma colD_prov : forall r, col "lexicon_dependencies" "provider_rowid" r = cell_at prov_idx r.
Proof. reflexivity. Qed.
Lemma colD_pid : forall r, col "lexicon_dependencies" "provider_id" r = cell_at 2 r.
Proof. reflexivity. Qed.
Lemma colD_pver : forall r, col "lexicon_dependencies" "provider_version" r = cell_at 3 r.
Proof. reflexivity. Qed.
Lemma prov_idx_5 : prov_idx = 5%nat.
Proof. reflexivity. Qed.
Lemma colL_id : forall l, col "lexicons" "id" l = cell_at 1 l.
Proof. reflexivity. Qed.
Lemma colL_ver : forall l, col "lexicons" "version" l = cell_at 6 l.
Proof. reflexivity. Qed.

(* ---------- SQL equality ---------- *)
Lemma lex_same_sym : forall a b, lex_same a b = lex_same b a.
Proof.
  intros a b. unfold lex_same.
  rewrite (sql_eq_sym (col "lexicons" "id" a)), (sql_eq_sym (col "lexicons" "version" a)). reflexivity.
Qed.
Lemma match_same : forall p v l1 l2, lex_match p v l1 = true -> lex_match p v l2 = true -> lex_same l1 l2 = true.
Proof.
  intros p v l1 l2 H1 H2. unfold lex_match, lex_same in *.
  apply andb_true_iff in H1. destruct H1 as [A1 B1]. apply andb_true_iff in H2. destruct H2 as [A2 B2].
  rewrite sql_eq_sym in A2. rewrite sql_eq_sym in B2.
  rewrite (sql_eq_trans _ _ _ A1 A2), (sql_eq_trans _ _ _ B1 B2). reflexivity.
Qed.
Lemma same_match : forall p v l1 l2, lex_same l1 l2 = true -> lex_match p v l2 = true -> lex_match p v l1 = true.
Proof.
  intros p v l1 l2 H1 H2. unfold lex_match, lex_same in *.
  apply andb_true_iff in H1. destruct H1 as [A1 B1]. apply andb_true_iff in H2. destruct H2 as [A2 B2].
  rewrite (sql_eq_trans _ _ _ A1 A2), (sql_eq_trans _ _ _ B1 B2). reflexivity.
Qed.

Lemma find_none_intro : forall {T} (p : T -> bool) l, (forall x, In x l -> p x = false) -> find p l = None.
Proof.
  intros T p l H. induction l as [|a l IH]; simpl; [reflexivity|].
  rewrite (H a (or_introl eq_refl)). apply IH. intros x Hx. apply H. right. exact Hx.
Qed.

(* with the key, the first match is the only match *)
Lemma resolve_in_spec : forall lex p v l,
    unique_tbl lex -> In l lex -> lex_match p v l = true -> resolve_in lex p v = CInt (rowid_of l).
Proof.
  intros lex p v l Hu Hl Hm. unfold resolve_in.
  destruct (find (lex_match p v) lex) as [l2|] eqn:E.
  - apply find_some in E. destruct E as [Hl2 Hm2].
    rewrite (Hu l l2 Hl Hl2 (match_same _ _ _ _ Hm Hm2)). reflexivity.
  - rewrite (find_none _ _ E l Hl) in Hm. discriminate.
Qed.
Lemma resolve_in_none : forall lex p v,
    (forall l, In l lex -> lex_match p v l = false) -> resolve_in lex p v = CNull.
Proof. intros lex p v H. unfold resolve_in. rewrite (find_none_intro _ _ H). reflexivity. Qed.
Lemma resolve_in_cases : forall lex p v,
    (resolve_in lex p v = CNull /\ forall l, In l lex -> lex_match p v l = false)
    \/ exists l, In l lex /\ lex_match p v l = true /\ resolve_in lex p v = CInt (rowid_of l).
Proof.
  intros lex p v. unfold resolve_in. destruct (find (lex_match p v) lex) as [l|] eqn:E.
  - right. apply find_some in E. exists l. split; [apply E|]. split; [apply E|reflexivity].
  - left. split; [reflexivity|]. exact (find_none _ _ E).
Qed.

(* the reading asked for: under the key, provider_rowid = k  <->  k is the rowid of a lexicons row
   with that id and version; and NULL exactly when there is no such row *)
Theorem deps_resolved_iff : forall d r,
    lexicons_unique d -> deps_resolved d -> In r (get_table d "lexicon_dependencies") ->
    (forall k, col "lexicon_dependencies" "provider_rowid" r = CInt k
               <-> exists l, In l (get_table d "lexicons") /\ rowid_of l = k
                             /\ lex_match (col "lexicon_dependencies" "provider_id" r)
                                          (col "lexicon_dependencies" "provider_version" r) l = true)
    /\ (col "lexicon_dependencies" "provider_rowid" r = CNull
        <-> forall l, In l (get_table d "lexicons") ->
                      lex_match (col "lexicon_dependencies" "provider_id" r)
                                (col "lexicon_dependencies" "provider_version" r) l = false).
Proof.
  intros d r Hu Hres Hr. rewrite (Hres r Hr).
  set (p := col "lexicon_dependencies" "provider_id" r). set (v := col "lexicon_dependencies" "provider_version" r).
  split.
  - intro k. split.
    + intro E. destruct (resolve_in_cases (get_table d "lexicons") p v) as [[E0 _]|(l & Hl & Hm & E1)].
      * rewrite E0 in E. discriminate.
      * rewrite E1 in E. injection E as E. exists l. auto.
    + intros (l & Hl & <- & Hm). apply resolve_in_spec; assumption.
  - split.
    + intro E. destruct (resolve_in_cases (get_table d "lexicons") p v) as [[_ Hn]|(l & _ & _ & E1)];
        [exact Hn|rewrite E1 in E; discriminate].
    + apply resolve_in_none.
Qed.

(* ====================================================================== *)
(* 1. _insert_lexicon                                                      *)
(* ====================================================================== *)
(* INSERT INTO lexicons: the new row is appended, and UNIQUE (id, version) held *)
Lemma insert_lexicons_inv : forall d vals d1 lexid,
    insert_rowid d "lexicons" vals = Ok (d1, lexid) ->
    let L := CInt lexid :: coerce_all (data_columns "lexicons") vals in
    d1 = set_table d "lexicons" (get_table d "lexicons" ++ [L])%list
    /\ forall l, In l (get_table d "lexicons") -> lex_same L l = false.
Proof.
  intros d vals d1 lexid H L. unfold insert_rowid, try_insert in H. cbv zeta in H.
  destruct (negb (row_checks_ok "lexicons" (data_columns "lexicons") (coerce_all (data_columns "lexicons") vals)));
    [discriminate|].
  destruct (unique_conflict "lexicons" (get_table d "lexicons") _) eqn:Eu; [discriminate|].
  injection H as <- <-. split; [reflexivity|].
  intros l Hl. unfold unique_conflict in Eu.
  change (table_uniques "lexicons") with [["id"; "version"]] in Eu. cbn [existsb] in Eu.
  rewrite orb_false_r in Eu. pose proof (existsb_false_forall _ _ Eu l Hl) as Hf. cbv beta in Hf.
  unfold Rel.same_key in Hf. cbn [forallb] in Hf. rewrite andb_true_r in Hf. exact Hf.
Qed.

Lemma unique_tbl_snoc : forall lex L,
    unique_tbl lex -> (forall l, In l lex -> lex_same L l = false) -> unique_tbl (lex ++ [L])%list.
Proof.
  intros lex L Hu Hn l1 l2 H1 H2 Hs. apply in_app_or in H1. apply in_app_or in H2.
  destruct H1 as [H1|[<-|[]]]; destruct H2 as [H2|[<-|[]]].
  - apply Hu; assumption.
  - rewrite lex_same_sym, (Hn l1 H1) in Hs. discriminate.
  - rewrite (Hn l2 H2) in Hs. discriminate.
  - reflexivity.
Qed.

(* back-fill: after the new lexicons row L and the UPDATE of the matching dependency rows *)
Definition backfill (ida va : cell) (lexid : Z) (r : row) : row :=
  if sql_eq (cell_at 2 r) ida && sql_eq (cell_at 3 r) va then set_nth prov_idx (CInt lexid) r else r.

Lemma resolved_backfill : forall lex deps L,
    resolved_tbl lex deps -> wf_tbl deps -> (forall l, In l lex -> lex_same L l = false) ->
    resolved_tbl (lex ++ [L])%list
                 (map (backfill (col "lexicons" "id" L) (col "lexicons" "version" L) (rowid_of L)) deps).
Proof.
  intros lex deps L Hres Hwf Hn r' Hr'. apply in_map_iff in Hr'. destruct Hr' as [r [<- Hr]].
  specialize (Hres r Hr). specialize (Hwf r Hr).
  rewrite colD_prov, colD_pid, colD_pver in *. unfold backfill.
  destruct (sql_eq (cell_at 2 r) (col "lexicons" "id" L) && sql_eq (cell_at 3 r) (col "lexicons" "version" L)) eqn:Em.
  - (* a row naming the new lexicon: it was unresolved, it now points to L *)
    rewrite cell_at_set_nth_same by (rewrite Hwf, prov_idx_5; lia).
    rewrite !cell_at_set_nth_other by (rewrite prov_idx_5; discriminate).
    assert (lex_match (cell_at 2 r) (cell_at 3 r) L = true) as HmL.
    { unfold lex_match. rewrite (sql_eq_sym (col "lexicons" "id" L)), (sql_eq_sym (col "lexicons" "version" L)).
      exact Em. }
    unfold resolve_in. rewrite find_app_none.
    + simpl. rewrite HmL. reflexivity.
    + apply find_none_intro. intros l Hl. destruct (lex_match (cell_at 2 r) (cell_at 3 r) l) eqn:E; [|reflexivity].
      pose proof (Hn l Hl) as Hnl. rewrite (match_same _ _ _ _ HmL E) in Hnl. discriminate.
  - (* any other row: L does not match it *)
    rewrite Hres. unfold resolve_in.
    destruct (find (lex_match (cell_at 2 r) (cell_at 3 r)) lex) as [l|] eqn:Ef.
    + rewrite (find_app_some _ _ _ _ Ef). reflexivity.
    + rewrite (find_app_none _ _ _ Ef). simpl.
      assert (lex_match (cell_at 2 r) (cell_at 3 r) L = false) as ->; [|reflexivity].
      unfold lex_match. rewrite (sql_eq_sym (col "lexicons" "id" L)), (sql_eq_sym (col "lexicons" "version" L)).
      exact Em.
Qed.

Lemma wf_backfill : forall deps a b n, wf_tbl deps -> wf_tbl (map (backfill a b n) deps).
Proof.
  intros deps a b n H r' Hr'. apply in_map_iff in Hr'. destruct Hr' as [r [<- Hr]]. unfold backfill.
  destruct (_ && _); [rewrite length_set_nth|]; apply H; exact Hr.
Qed.

(* the cells of a new dependency row *)
Lemma coerce_all_deps : forall a b c e f,
    coerce_all (data_columns "lexicon_dependencies") [a; b; c; e; f]
    = [coerce "INTEGER" a; as_text b; as_text c; as_text e; coerce "INTEGER" f].
Proof. reflexivity. Qed.
Lemma LEXICON_QUERY_resolve : forall d idc vc,
    LEXICON_QUERY d idc vc = resolve d (as_text idc) (as_text vc).
Proof. reflexivity. Qed.

(* one INSERT INTO lexicon_dependencies of _insert_lexicon *)
Lemma dep_inv_insert_link : forall d lexid dep d',
    dep_inv d -> insert_lexicon_link d "lexicon_dependencies" lexid dep = Ok d' -> dep_inv d'.
Proof.
  intros d lexid dep d' (Hu & Hwf & Hres) H. unfold insert_lexicon_link in H.
  destruct dep; try discriminate.
  apply bind_ok in H. destruct H as [idc [_ H]]. apply bind_ok in H. destruct H as [vc [_ H]].
  apply bind_ok in H. destruct H as [url [_ H]]. apply insert_inv in H. subst d'.
  rewrite coerce_all_deps, !coerce_int_id, LEXICON_QUERY_resolve.
  unfold dep_inv, lexicons_unique, deps_wf, deps_resolved.
  rewrite get_set_same, get_set_other by discriminate.
  split; [exact Hu|]. split.
  - intros r Hr. apply in_app_or in Hr. destruct Hr as [Hr|[<-|[]]]; [apply Hwf; exact Hr|reflexivity].
  - intros r Hr. apply in_app_or in Hr. destruct Hr as [Hr|[<-|[]]]; [apply Hres; exact Hr|reflexivity].
Qed.

(* item 1: one _insert_lexicon step.  The premise "the new (id, version) is not installed" is not
   needed as a hypothesis: the INSERT INTO lexicons succeeded, so the UNIQUE (id, version)
   constraint of the schema held (insert_lexicons_inv). *)
Theorem insert_lexicon_deps_resolved : forall lexicon d d' lexid extid,
    lexicons_unique d -> deps_wf d -> deps_resolved d ->
    _insert_lexicon lexicon d = Ok (d', lexid, extid) ->
    lexicons_unique d' /\ deps_wf d' /\ deps_resolved d'.
Proof.
  intros lexicon d d' lexid extid Hu Hwf Hres H. unfold _insert_lexicon in H. cbv zeta in H.
  apply bind_ok in H. destruct H as [idc [_ H]].
  do 4 (apply bind_ok in H; destruct H as [? [_ H]]).
  apply bind_ok in H. destruct H as [vc [_ H]].
  do 4 (apply bind_ok in H; destruct H as [? [_ H]]).
  apply bind_ok in H. destruct H as [[d1 lexid1] [Hins H]]. cbv beta iota in H.
  apply bind_ok in H. destruct H as [d2 [Hupd H]].
  (* the lexicons row and the back-fill *)
  assert (dep_inv d2) as Hp2.
  { destruct (insert_lexicons_inv _ _ _ _ Hins) as [-> Hn].
    match type of Hn with forall l, _ -> lex_same ?row l = false => set (L := row) in * end.
    unfold update in Hupd. apply bind_ok in Hupd. destruct Hupd as [rows [Hu2 Hd2]]. injection Hd2 as <-.
    apply update_go_map in Hu2. destruct Hu2 as [-> _]. cbn [rev app].
    rewrite get_set_other by discriminate.
    unfold dep_inv, lexicons_unique, deps_wf, deps_resolved.
    rewrite get_set_same, get_set_other, get_set_same by discriminate.
    assert (map (fun r => if sql_eq (cell_at (col_index "lexicon_dependencies" "provider_id") r) (as_text idc)
                             && sql_eq (cell_at (col_index "lexicon_dependencies" "provider_version") r) (as_text vc)
                          then apply_sets "lexicon_dependencies" [("provider_rowid", CInt lexid1)] r else r)
                (get_table d "lexicon_dependencies")
            = map (backfill (col "lexicons" "id" L) (col "lexicons" "version" L) (rowid_of L))
                  (get_table d "lexicon_dependencies")) as ->.
    { apply map_ext. intro r. reflexivity. }
    split; [apply unique_tbl_snoc; assumption|].
    split; [apply wf_backfill; exact Hwf|apply resolved_backfill; assumption]. }
  (* the dependencies of the new lexicon *)
  apply bind_ok in H. destruct H as [d3 [Hdeps H]].
  assert (dep_inv d3) as Hp3.
  { revert Hdeps. apply foldM_inv; [|exact Hp2]. intros s dep s1 Hs Hstep.
    eapply dep_inv_insert_link; eassumption. }
  destruct (vtruthy (vgetk lexicon "extends")).
  - apply bind_ok in H. destruct H as [d4 [Hext H]].
    assert (dep_inv d4) as Hp4.
    { unfold insert_lexicon_link in Hext. destruct (vgetk lexicon "extends"); try discriminate.
      apply bind_ok in Hext. destruct Hext as [? [_ Hext]]. apply bind_ok in Hext. destruct Hext as [? [_ Hext]].
      apply bind_ok in Hext. destruct Hext as [? [_ Hext]]. apply insert_inv in Hext. subst d4.
      eapply dep_inv_ext; [| |exact Hp3]; apply get_set_other; discriminate. }
    repeat mstep. exact Hp4.
  - injection H as <- <- <-. exact Hp3.
Qed.

(* the natural unit of AddProofs: one lexicon of the resource with all its content *)
Theorem add_one_lexicon_deps_resolved : forall nt L d d',
    dep_inv d -> add_one_lexicon nt L d = Ok d' -> dep_inv d'.
Proof.
  intros nt L d d' Hp H.
  destruct (add_one_lexicon_inv _ _ _ _ H)
    as (d1 & sb & d2 & lexid & extid & m & d3 & d4 & d5 & d6 & d7 & d8 & d9 & d10 & d11 & d12 & d13
        & d14 & d15 & H1 & _ & H2 & _ & H3 & H4 & H5 & H6 & H7 & H8 & H9 & H10 & H11 & H12 & H13
        & H14 & H15 & H16).
  assert (dep_inv d1) as Hp1.
  { apply oc_update_lookup_tables in H1.
    eapply dep_inv_ext; [| |exact Hp]; apply (oc_get _ _ _ _ H1); not_in. }
  assert (dep_inv d2) as Hp2.
  { destruct Hp1 as (A & B & C). exact (insert_lexicon_deps_resolved _ _ _ _ _ A B C H2). }
  clear H1 H2. oc_facts.
  eapply dep_inv_ext; [| |exact Hp2].
  - tbl_eq "lexicons". reflexivity.
  - tbl_eq "lexicon_dependencies". reflexivity.
Qed.

(* item 2: add_lexical_resource, any number of lexicons in the resource *)
Theorem add_lexical_resource_deps_resolved : forall d r nt d',
    lexicons_unique d -> deps_wf d -> deps_resolved d ->
    add_lexical_resource d r nt = Ok d' ->
    lexicons_unique d' /\ deps_wf d' /\ deps_resolved d'.
Proof.
  intros d r nt d' Hu Hwf Hres H. assert (dep_inv d) as Hp by (split; [|split]; assumption).
  unfold add_lexical_resource in H.
  apply bind_ok in H. destruct H as [lexicons [Hr H]].
  destruct (negb (vtruthy lexicons)); [injection H as <-; exact Hp|].
  apply bind_ok in H. destruct H as [skipmap [_ H]].
  destruct (forallb (fun kv : val * bool => snd kv) skipmap); [injection H as <-; exact Hp|].
  rewrite add_lexical_resource_unfold, Hr in H. unfold bind at 1 in H. cbv beta iota in H.
  revert H. apply (foldM_inv _ dep_inv); [|exact Hp].
  intros s x s' Hs Hstep. destruct (lex_step_cases _ _ _ _ _ Hstep) as [[_ ->]|[_ Hadd]]; [exact Hs|].
  eapply add_one_lexicon_deps_resolved; eassumption.
Qed.

(* why no "not installed" premise appears above: a successful _insert_lexicon implies it (the
   UNIQUE (id, version) constraint enforces, at insertion time, what _precheck checked at the start
   of the call; it also covers two lexicons with the same id and version inside one resource) *)
Lemma insert_lexicon_not_installed : forall lexicon d d' lexid extid,
    _insert_lexicon lexicon d = Ok (d', lexid, extid) ->
    exists idc vc, preq lexicon "id" = Ok idc /\ preq lexicon "version" = Ok vc
                   /\ LEXICON_QUERY d idc vc = CNull.
Proof.
  intros lexicon d d' lexid extid H. unfold _insert_lexicon in H. cbv zeta in H.
  apply bind_ok in H. destruct H as [idc [Hid H]].
  do 4 (apply bind_ok in H; destruct H as [? [_ H]]).
  apply bind_ok in H. destruct H as [vc [Hv H]].
  do 4 (apply bind_ok in H; destruct H as [? [_ H]]).
  apply bind_ok in H. destruct H as [[d1 lexid1] [Hins _]].
  exists idc, vc. split; [exact Hid|]. split; [exact Hv|].
  destruct (insert_lexicons_inv _ _ _ _ Hins) as [_ Hn].
  rewrite LEXICON_QUERY_resolve. apply resolve_in_none. intros l Hl.
  specialize (Hn l Hl). rewrite lex_same_sym in Hn. exact Hn.
Qed.

(* ====================================================================== *)
(* 3. remove                                                               *)
(* ====================================================================== *)
(* nothing cascades into lexicons: the only doomed lexicons row is the deleted one *)
Lemma doomed_lexicons_root : forall d rid n, doomed d (root1 "lexicons" rid) "lexicons" n -> n = rid.
Proof.
  intros d rid n H. inversion H as [t0 n0 [_ E]|p m child c r _ Href _ _]; subst.
  - reflexivity.
  - exfalso. exact (never_child_lexicons _ _ _ Href).
Qed.

Lemma unique_tbl_filter : forall g lex, unique_tbl lex -> unique_tbl (filter g lex).
Proof.
  intros g lex Hu l1 l2 H1 H2. apply filter_In in H1. apply filter_In in H2. apply Hu; [apply H1|apply H2].
Qed.

(* DELETE FROM lexicons WHERE rowid = rid, with ON DELETE SET NULL on provider_rowid and
   ON DELETE CASCADE on dependent_rowid *)
Lemma delete_row_dep_inv : forall fuel d rid d',
    dep_inv d -> delete_row fuel d "lexicons" rid = Ok d' -> dep_inv d'.
Proof.
  intros fuel d rid d' (Hu & Hwf & Hres) H.
  pose proof (delete_row_lexicons _ _ _ _ H) as Elex.
  pose proof (delete_row_struct _ _ _ _ _ H "lexicon_dependencies") as Hsub.
  destruct (delete_row_summary _ _ _ _ _ H) as (lg & (_ & _ & Hnr) & _ & [[_ ->]|[Hlg _]]);
    [split; [|split]; assumption|].
  assert (norefer d' "lexicon_dependencies" "provider_rowid" [rid]) as Hno.
  { apply (Hnr "lexicons" [rid] Hlg "lexicon_dependencies" "provider_rowid" "SET NULL").
    rewrite references_to_lexicons. simpl. tauto. }
  unfold dep_inv, lexicons_unique, deps_wf, deps_resolved in *. rewrite Elex.
  set (lex := get_table d "lexicons") in *.
  set (keep := fun r : row => negb (zmem_z (rowid_of r) [rid])).
  assert (forall l, In l (filter keep lex) <-> In l lex /\ rowid_of l <> rid) as Hkeep.
  { intro l. rewrite filter_In. unfold keep. simpl. rewrite orb_false_r, negb_true_iff, Z.eqb_neq. tauto. }
  split; [apply unique_tbl_filter; exact Hu|].
  assert (forall r', In r' (get_table d' "lexicon_dependencies") ->
            exists r, In r (get_table d "lexicon_dependencies")
                      /\ (r' = r \/ (r' = set_nth prov_idx CNull r /\ cell_at prov_idx r = CInt rid))) as Hrows.
  { intros r' Hr'. destruct (tbl_sub_in _ _ _ _ r' Hsub Hr') as [r [Hr Hn]]. exists r. split; [exact Hr|].
    destruct (nulls_deps _ _ _ Hn) as [E|[E [n [Hc Hd]]]]; [left; exact E|right].
    split; [exact E|]. rewrite Hc, (doomed_lexicons_root _ _ _ Hd). reflexivity. }
  split.
  - intros r' Hr'. destruct (Hrows r' Hr') as [r [Hr [->|[-> _]]]]; [|rewrite length_set_nth]; apply Hwf; exact Hr.
  - intros r' Hr'. pose proof (Hno r' Hr') as Hnr'. destruct (Hrows r' Hr') as [r [Hr Hcase]].
    pose proof (Hres r Hr) as Hr0. rewrite colD_prov, colD_pid, colD_pver in *.
    destruct Hcase as [->|[-> Hc]].
    + (* the row is as it was: its link, if any, is to a lexicon that stays *)
      rewrite Hr0.
      destruct (resolve_in_cases lex (cell_at 2 r) (cell_at 3 r)) as [[E0 Hnone]|(l & Hl & Hm & E1)].
      * rewrite E0. symmetry. apply resolve_in_none. intros l Hl. apply Hnone. apply Hkeep in Hl. apply Hl.
      * rewrite E1. symmetry. apply resolve_in_spec; [apply unique_tbl_filter; exact Hu| |exact Hm].
        apply Hkeep. split; [exact Hl|]. intros E. unfold refers in Hnr'.
        change (col_index "lexicon_dependencies" "provider_rowid") with prov_idx in Hnr'.
        rewrite Hr0, E1, E in Hnr'. simpl in Hnr'. rewrite Z.eqb_refl in Hnr'. discriminate.
    + (* the link to the deleted lexicon was reset: no other lexicon has that id and version *)
      rewrite cell_at_set_nth_null. rewrite !cell_at_set_nth_other by (rewrite prov_idx_5; discriminate).
      symmetry. apply resolve_in_none. intros l2 Hl2. apply Hkeep in Hl2. destruct Hl2 as [Hl2 Hne].
      destruct (lex_match (cell_at 2 r) (cell_at 3 r) l2) eqn:Em2; [|reflexivity]. exfalso. apply Hne.
      rewrite (resolve_in_spec lex _ _ l2 Hu Hl2 Em2), Hc in Hr0. injection Hr0 as Hr0. congruence.
Qed.

Lemma delete_seq_dep_inv : forall rids d d', dep_inv d -> delete_seq d rids = Ok d' -> dep_inv d'.
Proof.
  intros rids d d' Hp H. unfold delete_seq in H. revert H. apply (foldM_inv _ dep_inv); [|exact Hp].
  intros s x s' Hs Hstep. eapply delete_row_dep_inv; eassumption.
Qed.

(* item 3 *)
Theorem remove_deps_resolved : forall d spec d',
    lexicons_unique d -> deps_wf d -> deps_resolved d ->
    remove d spec = Ok d' ->
    lexicons_unique d' /\ deps_wf d' /\ deps_resolved d'.
Proof.
  intros d spec d' Hu Hwf Hres H. destruct (remove_seq _ _ _ H) as [rids Hseq].
  apply (delete_seq_dep_inv rids d d'); [split; [|split]; assumption|exact Hseq].
Qed.

(* ====================================================================== *)
(* 4. Non-vacuity                                                          *)
(* ====================================================================== *)
(* a database without lexicons satisfies the invariant trivially *)
Lemma dep_inv_no_lexicons : forall d,
    get_table d "lexicons" = [] -> get_table d "lexicon_dependencies" = [] -> dep_inv d.
Proof.
  intros d E1 E2. unfold dep_inv, lexicons_unique, deps_wf, deps_resolved. rewrite E1, E2.
  split; [intros l1 l2 []|]. split; intros r [].
Qed.

(* ex_db2 (AddProofs): lexicon "ba" (rowid 1), then "bb" (rowid 2) requiring ba:1 *)
Example ex_db2_dep_inv : lexicons_unique ex_db2 /\ deps_wf ex_db2 /\ deps_resolved ex_db2.
Proof.
  split; [|split].
  - intros l1 l2 H1 H2 Hs. vm_compute in H1, H2.
    destruct H1 as [<-|[<-|[]]]; destruct H2 as [<-|[<-|[]]];
      first [reflexivity | vm_compute in Hs; discriminate Hs].
  - intros r Hr. vm_compute in Hr. destruct Hr as [<-|[]]. reflexivity.
  - intros r Hr. vm_compute in Hr. destruct Hr as [<-|[]]. vm_compute. reflexivity.
Qed.
(* ... and the invariant is not vacuous there: there is a dependency row and it is resolved *)
Example ex_db2_link :
  map (fun r => (col "lexicon_dependencies" "dependent_rowid" r, col "lexicon_dependencies" "provider_id" r,
                 col "lexicon_dependencies" "provider_version" r, col "lexicon_dependencies" "provider_rowid" r))
      (get_table ex_db2 "lexicon_dependencies")
  = [(CInt 2, CText (k "ba"), CText (k "1"), CInt 1)]
  /\ resolve ex_db2 (CText (k "ba")) (CText (k "1")) = CInt 1
  /\ resolve ex_db2 (CText (k "zz")) (CText (k "1")) = CNull.
Proof. vm_compute. repeat split. Qed.

(* the two concrete resources *)
Definition ex_provider : val := ex_resource [ex_lexicon "ba" []].
Definition ex_dependent : val :=
  ex_resource [ex_lexicon "bb" [("requires", VList [vd [("id", vs "ba"); ("version", vs "1")]])]].
Definition prov_links (d : db) : list (cell * cell) :=
  map (fun r => (col "lexicon_dependencies" "dependent_rowid" r, col "lexicon_dependencies" "provider_rowid" r))
      (get_table d "lexicon_dependencies").
Definition lexicon_ids (d : db) : list (Z * cell) :=
  map (fun r => (rowid_of r, col "lexicons" "id" r)) (get_table d "lexicons").

(* history A: add the dependent while its provider is missing (NULL), then the provider (back-fill) *)
Example history_dependent_then_provider :
  match add_lexical_resource ex_db ex_dependent [] with
  | Ok d1 =>
      lexicon_ids d1 = [(1, CText (k "bb"))] /\ prov_links d1 = [(CInt 1, CNull)]
      /\ match add_lexical_resource d1 ex_provider [] with
         | Ok d2 => lexicon_ids d2 = [(1, CText (k "bb")); (2, CText (k "ba"))]
                    /\ prov_links d2 = [(CInt 1, CInt 2)]
         | _ => False
         end
  | _ => False
  end.
Proof. vm_compute. repeat split. Qed.

(* history B: provider, dependent (resolved at insertion), remove the provider (SET NULL),
   add the provider again (back-fill with the new rowid), remove the dependent (CASCADE) *)
Example history_provider_dependent_remove :
  match add_lexical_resource ex_db ex_provider [] with
  | Ok d1 =>
      prov_links d1 = []
      /\ match add_lexical_resource d1 ex_dependent [] with
         | Ok d2 =>
             lexicon_ids d2 = [(1, CText (k "ba")); (2, CText (k "bb"))] /\ prov_links d2 = [(CInt 2, CInt 1)]
             /\ match remove d2 (k "ba:1") with
                | Ok d3 =>
                    lexicon_ids d3 = [(2, CText (k "bb"))] /\ prov_links d3 = [(CInt 2, CNull)]
                    /\ match add_lexical_resource d3 ex_provider [] with
                       | Ok d4 =>
                           lexicon_ids d4 = [(2, CText (k "bb")); (3, CText (k "ba"))]
                           /\ prov_links d4 = [(CInt 2, CInt 3)]
                           /\ match remove d4 (k "bb") with
                              | Ok d5 => lexicon_ids d5 = [(3, CText (k "ba"))] /\ prov_links d5 = []
                              | _ => False
                              end
                       | _ => False
                       end
                | _ => False
                end
         | _ => False
         end
  | _ => False
  end.
Proof. vm_compute. repeat split. Qed.

(* the theorems apply along these histories: every database reached from ex_db satisfies the invariant *)
Example ex_db_dep_inv : lexicons_unique ex_db /\ deps_wf ex_db /\ deps_resolved ex_db.
Proof. apply dep_inv_no_lexicons; reflexivity. Qed.
Example history_invariant : forall d1 d2 d3,
    add_lexical_resource ex_db ex_provider [] = Ok d1 ->
    add_lexical_resource d1 ex_dependent [] = Ok d2 ->
    remove d2 (k "ba:1") = Ok d3 ->
    (lexicons_unique d2 /\ deps_wf d2 /\ deps_resolved d2)
    /\ (lexicons_unique d3 /\ deps_wf d3 /\ deps_resolved d3).
Proof.
  intros d1 d2 d3 H1 H2 H3. destruct ex_db_dep_inv as (A & B & C).
  destruct (add_lexical_resource_deps_resolved _ _ _ _ A B C H1) as (A1 & B1 & C1).
  destruct (add_lexical_resource_deps_resolved _ _ _ _ A1 B1 C1 H2) as (A2 & B2 & C2).
  split; [split; [|split]; assumption|]. exact (remove_deps_resolved _ _ _ A2 B2 C2 H3).
Qed.

(* the key hypothesis of remove_deps_resolved is needed: with two lexicons rows (a, v) — which the
   UNIQUE constraint of the schema forbids, and which add_lexical_resource never produces —
   deleting the one a link points to resets the link although the other row still matches *)
Definition ex_dup : db :=
  [(tn "lexicons", [[CInt 1; CText (k "a"); CNull; CNull; CNull; CNull; CText (k "v")];
                    [CInt 2; CText (k "a"); CNull; CNull; CNull; CNull; CText (k "v")]]);
   (tn "lexicon_dependencies", [[CInt 1; CInt 9; CText (k "a"); CText (k "v"); CNull; CInt 1]])].
Example delete_needs_lexicons_unique :
  (forall r, In r (get_table ex_dup "lexicon_dependencies") ->
             col "lexicon_dependencies" "provider_rowid" r
             = resolve ex_dup (col "lexicon_dependencies" "provider_id" r)
                              (col "lexicon_dependencies" "provider_version" r))
  /\ match delete_row delete_fuel ex_dup "lexicons" 1 with
     | Ok d' => prov_links d' = [(CInt 9, CNull)]
                /\ resolve d' (CText (k "a")) (CText (k "v")) = CInt 2
     | _ => False
     end.
Proof.
  split.
  - intros r Hr. vm_compute in Hr. destruct Hr as [<-|[]]. vm_compute. reflexivity.
  - vm_compute. split; reflexivity.
Qed.

Print Assumptions deps_resolved_unfold.
Print Assumptions deps_resolved_iff.
Print Assumptions insert_lexicon_deps_resolved.
Print Assumptions add_one_lexicon_deps_resolved.
Print Assumptions add_lexical_resource_deps_resolved.
Print Assumptions insert_lexicon_not_installed.
Print Assumptions delete_seq_dep_inv.
Print Assumptions remove_deps_resolved.
Print Assumptions ex_db2_dep_inv.
Print Assumptions ex_db2_link.
Print Assumptions history_dependent_then_provider.
Print Assumptions history_provider_dependent_remove.
Print Assumptions ex_db_dep_inv.
Print Assumptions history_invariant.
Print Assumptions delete_needs_lexicons_unique.
