(* F14Witness.v — a machine-checked witness of known finding F14.
   find_entries / find_senses / find_synsets match word forms through the forms table without looking at the
   lexicon that contributed the form row (fm_lexicon_rowid): a form that an UNSELECTED lexicon extension adds to
   an entry of the selected base lexicon makes a search restricted to the base lexicon find the base entry (and
   its senses and synsets).
     f14_db0 : lexicon 1 "base": entry 1 "e1" with lemma form "run" (form row 1, lexicon 1, rank 0),
               sense 1 "s1" (lexicon 1): entry 1 -> synset 1 "ss1" (lexicon 1).
     f14_db  = f14_db0 plus rows of lexicon 2 only: the lexicon row 2 "ext", its lexicon_extensions row, and
               form row 2 "runned" attached to entry 1 (fm_entry_rowid = 1, fm_lexicon_rowid = 2, rank 1).
   The selected lexicons are ids = [1] throughout. *)
From Coq Require Import ZArith List Bool Lia String.
Import ListNotations.
Require Import WnV.Base.Sx WnV.Model.Spec WnV.Model.Tables WnV.Model.Query WnV.Model.Core.
Require Import WnV.Proofs.CoreLemmas WnV.Proofs.QueryFacts WnV.Proofs.RelProofs WnV.Proofs.FrameProofs
               WnV.Proofs.SynsetFormFrame.
Local Open Scope Z_scope.

Definition f14_form (r lex e : Z) (form : string) (rank : Z) : form_row :=
  {| fm_rowid := r; fm_id := None; fm_lexicon_rowid := lex; fm_entry_rowid := e; fm_form := S_ form;
     fm_normalized_form := None; fm_script := None; fm_rank := Some rank |}.
Definition f14_ext : lexicon_extension_row :=
  {| le_rowid := 1; le_extension_rowid := 2; le_base_id := S_ "base"; le_base_version := S_ "1";
     le_base_url := None; le_base_rowid := Some 1 |}.
Definition f14_mk (lexs : list lexicon_row) (exts : list lexicon_extension_row) (fs : list form_row) : db :=
  {| t_ilis := []; t_proposed_ilis := []; t_lexicons := lexs; t_lexicon_dependencies := [];
     t_lexicon_extensions := exts; t_entries := [ex_entry 1 1 "e1"]; t_forms := fs; t_pronunciations := [];
     t_tags := []; t_synsets := [ex_synset 1 1 "ss1"]; t_synset_relations := []; t_definitions := [];
     t_synset_examples := []; t_senses := [ex_sense 1 1 1 1 "s1"]; t_sense_relations := [];
     t_sense_synset_relations := []; t_adjpositions := []; t_sense_examples := []; t_counts := [];
     t_syntactic_behaviours := []; t_syntactic_behaviour_senses := []; t_relation_types := [];
     t_ili_statuses := []; t_lexfiles := [] |}.
Definition f14_db0 : db := f14_mk [ex_lex 1 "base"] [] [f14_form 1 1 1 "run" 0].
Definition f14_db : db :=
  f14_mk [ex_lex 1 "base"; ex_lex 2 "ext"] [f14_ext] [f14_form 1 1 1 "run" 0; f14_form 2 2 1 "runned" 1].

(* the rows of lexicon 1 are the same in both databases, in every table that carries searchable content *)
Definition f14_same_lexicon1_rows (da dx : db) : Prop :=
  filter (fun e => Z.eqb (en_lexicon_rowid e) 1) (t_entries da) = filter (fun e => Z.eqb (en_lexicon_rowid e) 1) (t_entries dx)
  /\ filter (fun f => Z.eqb (fm_lexicon_rowid f) 1) (t_forms da) = filter (fun f => Z.eqb (fm_lexicon_rowid f) 1) (t_forms dx)
  /\ filter (fun s => Z.eqb (se_lexicon_rowid s) 1) (t_senses da) = filter (fun s => Z.eqb (se_lexicon_rowid s) 1) (t_senses dx)
  /\ filter (fun ss => Z.eqb (sy_lexicon_rowid ss) 1) (t_synsets da) = filter (fun ss => Z.eqb (sy_lexicon_rowid ss) 1) (t_synsets dx).

Example f14_same_rows : f14_same_lexicon1_rows f14_db0 f14_db.
Proof. repeat split; vm_compute; reflexivity. Qed.

(* what f14_db has in addition belongs to lexicon 2 only (entries, senses and synsets are literally the same) *)
Example f14_extra_rows :
  t_entries f14_db = t_entries f14_db0 /\ t_senses f14_db = t_senses f14_db0 /\ t_synsets f14_db = t_synsets f14_db0
  /\ filter (fun f => negb (Z.eqb (fm_lexicon_rowid f) 1)) (t_forms f14_db) = [f14_form 2 2 1 "runned" 1]
  /\ t_forms f14_db0 = [f14_form 1 1 1 "run" 0].
Proof. repeat split; vm_compute; reflexivity. Qed.

(* 1 *)
Example f14_db_ok : db_ok f14_db = true /\ db_ok f14_db0 = true.
Proof. split; vm_compute; reflexivity. Qed.

(* 2. entries: the search for "runned" restricted to lexicon 1 returns entry 1 of lexicon 1 (listing the foreign
   form among its forms) on f14_db, nothing on f14_db0 *)
Example f14_find_entries_leak :
  find_entries f14_db None [S_ "runned"] None [1] false true
    = [ {| qw_id := S_ "e1"; qw_pos := S_ "n";
           qw_forms := [ {| qf_form := S_ "run"; qf_id := None; qf_script := None; qf_rowid := 1 |};
                         {| qf_form := S_ "runned"; qf_id := None; qf_script := None; qf_rowid := 2 |} ];
           qw_lexid := 1; qw_rowid := 1 |} ]
  /\ find_entries f14_db None [S_ "runned"] None [1] false true <> []
  /\ find_entries f14_db0 None [S_ "runned"] None [1] false true = []
  /\ f14_same_lexicon1_rows f14_db0 f14_db.
Proof.
  split; [vm_compute; reflexivity|]. split; [vm_compute; discriminate|]. split; [vm_compute; reflexivity|].
  exact f14_same_rows.
Qed.

(* 3. the same for senses and synsets *)
Example f14_find_senses_leak :
  find_senses f14_db None [S_ "runned"] None [1] false true
    = [ {| qs_id := S_ "s1"; qs_entry_id := S_ "e1"; qs_synset_id := S_ "ss1"; qs_lexid := 1; qs_rowid := 1 |} ]
  /\ find_senses f14_db None [S_ "runned"] None [1] false true <> []
  /\ find_senses f14_db0 None [S_ "runned"] None [1] false true = []
  /\ f14_same_lexicon1_rows f14_db0 f14_db.
Proof.
  split; [vm_compute; reflexivity|]. split; [vm_compute; discriminate|]. split; [vm_compute; reflexivity|].
  exact f14_same_rows.
Qed.

Example f14_find_synsets_leak :
  find_synsets f14_db None [S_ "runned"] None None [1] false true
    = [ {| qy_id := S_ "ss1"; qy_pos := Some (S_ "n"); qy_ili := None; qy_lexid := 1; qy_rowid := 1 |} ]
  /\ find_synsets f14_db None [S_ "runned"] None None [1] false true <> []
  /\ find_synsets f14_db0 None [S_ "runned"] None None [1] false true = []
  /\ f14_same_lexicon1_rows f14_db0 f14_db.
Proof.
  split; [vm_compute; reflexivity|]. split; [vm_compute; discriminate|]. split; [vm_compute; reflexivity|].
  exact f14_same_rows.
Qed.

(* 4. lemmas only (search_all_forms = false): the extension's form has rank 1, nothing is found *)
Example f14_lemma_only_no_leak :
  find_entries f14_db None [S_ "runned"] None [1] false false = []
  /\ find_senses f14_db None [S_ "runned"] None [1] false false = []
  /\ find_synsets f14_db None [S_ "runned"] None None [1] false false = [].
Proof. repeat split; vm_compute; reflexivity. Qed.

(* 5. this is exactly the hypothesis of find_senses_frame / find_synsets_forms_frame that fails: the selected
   sense 1 points to entry 1, whose form rows differ in the two databases.  The other hypotheses of those
   theorems hold. *)
Example f14_frame_hypothesis_fails : ~ agree_sense_forms f14_db0 f14_db [1].
Proof.
  intro H. specialize (H (ex_sense 1 1 1 1 "s1") (or_introl eq_refl) eq_refl).
  vm_compute in H. discriminate H.
Qed.

Example f14_other_frame_hypotheses_hold :
  [1] <> [] /\ agree_senses f14_db0 f14_db [1] /\ agree_synsets f14_db0 f14_db [1].
Proof.
  split; [discriminate|]. split.
  - split; [vm_compute; reflexivity|]. intros s Hin _. simpl in Hin. destruct Hin as [<-|[]]. vm_compute. reflexivity.
  - split; vm_compute; reflexivity.
Qed.

Print Assumptions f14_db_ok.
Print Assumptions f14_same_rows.
Print Assumptions f14_extra_rows.
Print Assumptions f14_find_entries_leak.
Print Assumptions f14_find_senses_leak.
Print Assumptions f14_find_synsets_leak.
Print Assumptions f14_lemma_only_no_leak.
Print Assumptions f14_frame_hypothesis_fails.
Print Assumptions f14_other_frame_hypotheses_hold.
