(* Proofs/IcConserve.v — conservation of corpus counts by wn.ic.compute
   (model: Model/Ic.v): with distribute_weight a word's count is split over its
   synsets without loss, without it every synset gets the whole count, and when
   every corpus word is known and all its synsets lie in one IC part of speech
   the class total is the smoothing value plus the sum of the counts. *)
From Coq Require Import ZArith QArith List Bool Lia Lqa.
Import ListNotations.
Require Import WnV.Base.Sx WnV.Model.Taxonomy WnV.Model.Ic WnV.Proofs.TaxSpec WnV.Proofs.IcProofs.

Lemma sumQ_const : forall (A : Type) (l : list A) (q : Q),
    sumQ (map (fun _ => q) l) == inject_Z (Z.of_nat (length l)) * q.
Proof.
  intros A l q. induction l as [|a l IH].
  - simpl. unfold sumQ. simpl. ring.
  - change (sumQ (map (fun _ => q) (a :: l))) with (q + sumQ (map (fun _ => q) l)).
    rewrite IH. change (length (a :: l)) with (S (length l)).
    rewrite Nat2Z.inj_succ. unfold Z.succ. rewrite inject_Z_plus. ring.
Qed.

Lemma sumQ_app' : forall l1 l2, sumQ (l1 ++ l2) == sumQ l1 + sumQ l2.
Proof.
  induction l1 as [|a l1 IH]; intros l2.
  - unfold sumQ. simpl. ring.
  - change (sumQ ((a :: l1) ++ l2)) with (a + sumQ (l1 ++ l2)).
    change (sumQ (a :: l1)) with (a + sumQ l1). rewrite IH. ring.
Qed.

(* distribute_weight=True: the shares of one word add up to its count *)
Lemma weight_distributes : forall w,
    cw_synsets w <> [] ->
    sumQ (map (fun _ => weight true w) (cw_synsets w)) == inject_Z (cw_count w).
Proof.
  intros w Hne. rewrite sumQ_const. unfold weight.
  assert (Hlen : ~ inject_Z (Z.of_nat (length (cw_synsets w))) == 0).
  { destruct (cw_synsets w) as [|a l]; [congruence|].
    change (length (a :: l)) with (S (length l)). rewrite Nat2Z.inj_succ.
    unfold Qeq. simpl. lia. }
  field. exact Hlen.
Qed.

(* distribute_weight=False: every synset of the word receives the whole count *)
Lemma weight_undistributed : forall w,
    sumQ (map (fun _ => weight false w) (cw_synsets w))
    == inject_Z (Z.of_nat (length (cw_synsets w))) * inject_Z (cw_count w).
Proof. intros w. rewrite sumQ_const. unfold weight. reflexivity. Qed.

(* the closed form of a class total when all synsets of every word are of class k *)
Lemma total_one_class_sum : forall (cls : node -> Z) distribute k corpus,
    (forall w s, In w corpus -> In s (cw_synsets w) -> cls s = k) ->
    sumQ (flat_map (fun w => map (fun s => if Z.eqb (cls s) k
                                           then weight distribute w else 0)
                                 (cw_synsets w)) corpus)
    == sumQ (map (fun w => sumQ (map (fun _ => weight distribute w) (cw_synsets w))) corpus).
Proof.
  intros cls distribute k corpus. induction corpus as [|w corpus IH]; intros Hall.
  - reflexivity.
  - cbn [flat_map map]. rewrite sumQ_app'.
    change (sumQ (?a :: ?l)) with (a + sumQ l).
    rewrite IH by (intros w' s Hw Hs; apply (Hall w' s); [right; exact Hw | exact Hs]).
    apply Qplus_inj_r.
    assert (Hw : forall s, In s (cw_synsets w) -> cls s = k)
      by (intros s Hs; apply (Hall w s); [left; reflexivity | exact Hs]).
    induction (cw_synsets w) as [|s ss IHs].
    + reflexivity.
    + cbn [map]. change (sumQ (?a :: ?l)) with (a + sumQ l).
      rewrite IHs by (intros s' Hs'; apply Hw; right; exact Hs').
      rewrite (Hw s (or_introl eq_refl)). rewrite Z.eqb_refl. reflexivity.
Qed.

(* conservation: every word known, all its synsets in IC class k, weights distributed:
   Total k = smoothing + the sum of the corpus counts — nothing lost, nothing counted twice *)
Theorem total_conserved : forall hyp cls fuel corpus ev smoothing k,
    compute_events hyp cls fuel true corpus = Ok ev -> (0 <= k)%Z ->
    (forall w, In w corpus -> cw_synsets w <> []) ->
    (forall w s, In w corpus -> In s (cw_synsets w) -> cls s = k) ->
    entry smoothing ev (Total k) == smoothing + sumQ (map (fun w => inject_Z (cw_count w)) corpus).
Proof.
  intros hyp cls fuel corpus ev smoothing k H Hk Hne Hall.
  rewrite (compute_total_entry hyp cls fuel true corpus ev smoothing k H Hk).
  rewrite (total_one_class_sum cls true k corpus Hall).
  apply Qplus_inj_l.
  clear H Hall. induction corpus as [|w corpus IH].
  - reflexivity.
  - cbn [map]. change (sumQ (?a :: ?l)) with (a + sumQ l).
    rewrite IH by (intros w' Hw'; apply Hne; right; exact Hw').
    rewrite (weight_distributes w (Hne w (or_introl eq_refl))). reflexivity.
Qed.

(* without distribution every synset of every word adds the whole count *)
Theorem total_undistributed : forall hyp cls fuel corpus ev smoothing k,
    compute_events hyp cls fuel false corpus = Ok ev -> (0 <= k)%Z ->
    (forall w s, In w corpus -> In s (cw_synsets w) -> cls s = k) ->
    entry smoothing ev (Total k)
    == smoothing + sumQ (map (fun w => inject_Z (Z.of_nat (length (cw_synsets w)))
                                       * inject_Z (cw_count w)) corpus).
Proof.
  intros hyp cls fuel corpus ev smoothing k H Hk Hall.
  rewrite (compute_total_entry hyp cls fuel false corpus ev smoothing k H Hk).
  rewrite (total_one_class_sum cls false k corpus Hall).
  apply Qplus_inj_l.
  clear H Hall. induction corpus as [|w corpus IH].
  - reflexivity.
  - cbn [map]. change (sumQ (?a :: ?l)) with (a + sumQ l).
    rewrite IH. rewrite (weight_undistributed w). reflexivity.
Qed.

(* unknown words (wordnet.synsets(word) empty) are ignored: the run equals the run over the
   corpus without them, outcome included *)
Definition known (w : cword) : bool :=
  match cw_synsets w with [] => false | _ => true end.

Theorem unknown_words_ignored : forall hyp cls fuel d corpus,
    compute_events hyp cls fuel d corpus = compute_events hyp cls fuel d (filter known corpus).
Proof.
  intros hyp cls fuel d. induction corpus as [|w corpus IH].
  - reflexivity.
  - cbn [filter]. unfold known at 1. cbn [compute_events].
    destruct (cw_synsets w) as [|s ss] eqn:Hs.
    + exact IH.
    + cbn [compute_events]. rewrite Hs. rewrite IH. reflexivity.
Qed.

(* the order in which Counter lists the corpus words does not matter *)
Require Import Coq.Sorting.Permutation.

Lemma sumQ_perm : forall l l', Permutation l l' -> sumQ l == sumQ l'.
Proof.
  intros l l' H. induction H as [|x l l' H IH|x y l|l l' l'' H1 IH1 H2 IH2].
  - reflexivity.
  - change (sumQ (?a :: ?m)) with (a + sumQ m). rewrite IH. reflexivity.
  - change (sumQ (y :: x :: l)) with (y + (x + sumQ l)).
    change (sumQ (x :: y :: l)) with (x + (y + sumQ l)). ring.
  - rewrite IH1. exact IH2.
Qed.

Theorem corpus_order_irrelevant_syn : forall hyp cls fuel d corpus corpus' ev ev' smoothing t,
    compute_events hyp cls fuel d corpus = Ok ev ->
    compute_events hyp cls fuel d corpus' = Ok ev' ->
    Permutation corpus corpus' ->
    entry smoothing ev (Syn t) == entry smoothing ev' (Syn t).
Proof.
  intros hyp cls fuel d corpus corpus' ev ev' smoothing t H H' HP.
  rewrite (compute_synset_entry hyp cls fuel d corpus ev smoothing t H).
  rewrite (compute_synset_entry hyp cls fuel d corpus' ev' smoothing t H').
  apply Qplus_inj_l. apply sumQ_perm. apply Permutation_flat_map. exact HP.
Qed.

Theorem corpus_order_irrelevant_total : forall hyp cls fuel d corpus corpus' ev ev' smoothing k,
    compute_events hyp cls fuel d corpus = Ok ev ->
    compute_events hyp cls fuel d corpus' = Ok ev' ->
    Permutation corpus corpus' -> (0 <= k)%Z ->
    entry smoothing ev (Total k) == entry smoothing ev' (Total k).
Proof.
  intros hyp cls fuel d corpus corpus' ev ev' smoothing k H H' HP Hk.
  rewrite (compute_total_entry hyp cls fuel d corpus ev smoothing k H Hk).
  rewrite (compute_total_entry hyp cls fuel d corpus' ev' smoothing k H' Hk).
  apply Qplus_inj_l. apply sumQ_perm. apply Permutation_flat_map. exact HP.
Qed.
