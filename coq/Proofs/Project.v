(* Proofs/Project.v — every supply route yields the same single resource (Model/Project.v). *)
From Coq Require Import String.
From Coq Require Import ZArith List Bool Lia.
Import ListNotations.
Require Import WnV.Base.Sx WnV.Model.Project.
Local Open Scope Z_scope.

Section ProjectProofs.
  Variable header_ok : list Z -> bool.
  Notation is_lmf := (is_lmf header_ok).
  Notation rft := (resource_file_type header_ok).
  Notation iterp := (iterpackages header_ok).

  Lemma rft_lmf : forall b, is_lmf b = true -> rft (File (Raw b)) = Some WORDNET.
  Proof. intros b H. unfold resource_file_type. simpl. rewrite H. reflexivity. Qed.

  (* plain file, gzip, xz *)
  Theorem route_file : forall f b, is_lmf b = true ->
      iterp (S f) (File (Raw b)) = Ok [Pkg WORDNET b]
      /\ iterp (S f) (File (Gz (Raw b))) = Ok [Pkg WORDNET b]
      /\ iterp (S f) (File (Xz (Raw b))) = Ok [Pkg WORDNET b].
  Proof. intros f b H. simpl. unfold resource_only. rewrite H. auto. Qed.

  (* a package directory: exactly one resource file among any other files and sub-directories *)
  Definition other (n : node) : Prop := rft n = None.

  Lemma pdt_others : forall es, Forall (fun e => other (snd e)) es ->
      package_directory_types header_ok (Dir es) = [].
  Proof.
    intros es H. simpl. induction H as [|e es He _ IH]; simpl; [reflexivity|].
    unfold other in He. rewrite He. exact IH.
  Qed.

  Lemma pdt_package : forall pre post name b,
      is_lmf b = true ->
      Forall (fun e => other (snd e)) pre -> Forall (fun e => other (snd e)) post ->
      package_directory_types header_ok (Dir (pre ++ (name, File (Raw b)) :: post))
      = [(File (Raw b), WORDNET)].
  Proof.
    intros pre post name b Hb Hpre Hpost. simpl. rewrite flat_map_app. simpl.
    rewrite (rft_lmf b Hb).
    pose proof (pdt_others pre Hpre) as H1. pose proof (pdt_others post Hpost) as H2.
    simpl in H1, H2. rewrite H1, H2. reflexivity.
  Qed.

  Theorem route_package_dir : forall f pre post name b,
      is_lmf b = true ->
      Forall (fun e => other (snd e)) pre -> Forall (fun e => other (snd e)) post ->
      iterp (S f) (Dir (pre ++ (name, File (Raw b)) :: post)) = Ok [Pkg WORDNET b].
  Proof.
    intros f pre post name b Hb Hpre Hpost.
    assert (Hp := pdt_package pre post name b Hb Hpre Hpost).
    cbn [iterpackages]. unfold is_package_directory, package. rewrite Hp. reflexivity.
  Qed.

  (* a (compressed) tar archive of anything behaves as its single member *)
  Theorem route_tar : forall f name m,
      iterp (S f) (File (Tar [(name, m)])) = iterp f m
      /\ iterp (S f) (File (Gz (Tar [(name, m)]))) = iterp f m
      /\ iterp (S f) (File (Xz (Tar [(name, m)]))) = iterp f m.
  Proof. intros f name m. simpl. auto. Qed.

  Theorem tar_needs_one_member : forall f ms,
      length ms <> 1%nat -> iterp (S f) (File (Tar ms)) = WnError.
  Proof.
    intros f ms H. simpl. destruct ms as [|[n m] [|x xs]]; simpl in *; try reflexivity. lia.
  Qed.

  (* the eleven routes of the property for one resource: all give exactly [b] *)
  Definition routes (b : list Z) (extras : list (str * node)) (nm : str) : list node :=
    let file := File (Raw b) in
    let pkg := Dir (extras ++ [(nm, file)]) in
    [ file; File (Gz (Raw b)); File (Xz (Raw b)); pkg;
      File (Tar [(nm, file)]); File (Gz (Tar [(nm, file)])); File (Xz (Tar [(nm, file)]));
      File (Tar [(nm, pkg)]); File (Gz (Tar [(nm, pkg)])); File (Xz (Tar [(nm, pkg)]));
      File (Tar [(nm, File (Gz (Raw b)))]) ].

  Theorem all_routes_same : forall f b extras nm r,
      is_lmf b = true -> Forall (fun e => other (snd e)) extras ->
      In r (routes b extras nm) -> iterp (S (S f)) r = Ok [Pkg WORDNET b].
  Proof.
    intros f b extras nm r Hb Hex Hin.
    assert (Hpk : forall g, iterp (S g) (Dir (extras ++ [(nm, File (Raw b))])) = Ok [Pkg WORDNET b]).
    { intro g. apply route_package_dir; auto. }
    assert (Hf : forall g, iterp (S g) (File (Raw b)) = Ok [Pkg WORDNET b]) by (intro g; apply route_file; exact Hb).
    assert (Hg : forall g, iterp (S g) (File (Gz (Raw b))) = Ok [Pkg WORDNET b]) by (intro g; apply route_file; exact Hb).
    assert (Hx : forall g, iterp (S g) (File (Xz (Raw b))) = Ok [Pkg WORDNET b]) by (intro g; apply route_file; exact Hb).
    unfold routes in Hin. simpl in Hin.
    repeat (destruct Hin as [<-|Hin]; [first [ apply Hf | apply Hg | apply Hx | apply Hpk
      | (destruct (route_tar (S f) nm (File (Raw b))) as [A [B C]]; first [rewrite A | rewrite B | rewrite C]; apply Hf)
      | (destruct (route_tar (S f) nm (Dir (extras ++ [(nm, File (Raw b))]))) as [A [B C]]; first [rewrite A | rewrite B | rewrite C]; apply Hpk)
      | (destruct (route_tar (S f) nm (File (Gz (Raw b)))) as [A [B C]]; rewrite A; apply Hg) ] |]).
    contradiction.
  Qed.

  (* a collection yields the packages of exactly its package directories, in listing order *)
  Theorem route_collection : forall f es,
      is_package_directory header_ok (Dir es) = false ->
      is_collection_directory header_ok (Dir es) = true ->
      iterp (S f) (Dir es)
      = seq_res (map (package header_ok) (filter (is_package_directory header_ok) (map snd es))).
  Proof. intros f es H1 H2. cbn [iterpackages]. rewrite H1, H2. reflexivity. Qed.

  (* something that is neither is rejected *)
  Theorem not_a_resource : forall f b,
      is_lmf b = false -> is_ili b = false -> iterp (S f) (File (Raw b)) = WnError.
  Proof. intros f b H1 H2. simpl. unfold resource_only. rewrite H1, H2. reflexivity. Qed.
End ProjectProofs.
