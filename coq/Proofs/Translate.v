(* Translate.v — completeness, symmetry and exact characterisation of Synset.translate (C10, N5). *)
From Coq Require Import ZArith List Bool Lia.
Import ListNotations.
Require Import WnV.Base.Sx WnV.Model.Spec WnV.Model.Tables WnV.Model.Query WnV.Model.Core.
Require Import WnV.Proofs.CoreLemmas WnV.Proofs.QueryFacts WnV.Proofs.ScopeProofs WnV.Proofs.SearchProofs
               WnV.Proofs.NavProofs.
Local Open Scope Z_scope.

Section Translate.
Variable d : db.

(* the ILI filter of synset_conditions holds for a row whose ILI column (the subselect of
   synset_columns) is the requested, truthy, ILI id.  No uniqueness of ILI ids or rowids is needed:
   [ili_id_of] finds a row of [ilis] with that rowid and that id, which is all the IN-list asks for. *)
Lemma ili_filter_of_column : forall ss ili,
  truthy ili = true -> ili_id_of d (sy_ili_rowid ss) = ili ->
  oz_in (sy_ili_rowid ss) (map il_rowid (filter (fun i => ostr_eqb (Some (il_id i)) ili) (t_ilis d))) = true.
Proof.
  intros ss ili T E. unfold ili_id_of, ofind_by in E.
  destruct (sy_ili_rowid ss) as [z|]; [|subst ili; discriminate T].
  destruct (find_by il_rowid z (t_ilis d)) as [i|] eqn:F; [|subst ili; discriminate T].
  apply find_by_Some in F. destruct F as [Hi Ez].
  apply oz_in_In. exists z. split; [reflexivity|]. apply in_map_iff. exists i. split; [exact Ez|].
  apply filter_In. split; [exact Hi|]. apply ostr_eqb_eq. exact E.
Qed.

(* what Wordnet.synsets(ili=...) (no form, no pos) contains *)
Lemma Wordnet_synsets_ili_complete : forall w ili ss,
  truthy ili = true -> In ss (t_synsets d) -> in_selection w (sy_lexicon_rowid ss) ->
  ili_id_of d (sy_ili_rowid ss) = ili ->
  In (mk_Synset w (synset_columns d ss)) (Wordnet_synsets d w None None ili).
Proof.
  intros w ili ss T Hss Hsel E. unfold Wordnet_synsets, _find_helper.
  apply in_map. apply find_synsets_iff. exists ss. split; [exact Hss|]. split; [reflexivity|].
  split; [|intro C; contradiction].
  unfold synset_conditions. rewrite T. simpl truthy. cbv iota.
  rewrite (ili_filter_of_column ss ili T E), (in_selection_cond _ _ Hsel). reflexivity.
Qed.

(* ------------------------------------------------------------------ 1: completeness *)
(* [db_ok d] is not needed for this direction (see ili_filter_of_column). *)
Theorem Synset_translate_complete : forall y lexicon lang w' ss,
  truthy (ss_ili y) = true ->
  Wordnet_init d lexicon lang None true (wn_norm_table (ss_wordnet y)) None true = Ok w' ->
  In ss (t_synsets d) ->
  in_selection w' (sy_lexicon_rowid ss) ->
  ili_id_of d (sy_ili_rowid ss) = ss_ili y ->
  exists ts, Synset_translate d y lexicon lang = Ok ts
    /\ exists t, In t ts /\ ss__id t = sy_rowid ss.
Proof.
  intros y lexicon lang w' ss T Hw Hss Hsel E.
  rewrite (Synset_translate_ili d y lexicon lang T), Hw. simpl.
  eexists. split; [reflexivity|].
  exists (mk_Synset w' (synset_columns d ss)). split; [|reflexivity].
  apply Wordnet_synsets_ili_complete; assumption.
Qed.

(* the same, naming the translation: it is the synset object of the row in the target Wordnet *)
Theorem Synset_translate_complete_obj : forall y lexicon lang w' ss,
  truthy (ss_ili y) = true ->
  Wordnet_init d lexicon lang None true (wn_norm_table (ss_wordnet y)) None true = Ok w' ->
  In ss (t_synsets d) ->
  in_selection w' (sy_lexicon_rowid ss) ->
  ili_id_of d (sy_ili_rowid ss) = ss_ili y ->
  exists ts, Synset_translate d y lexicon lang = Ok ts
    /\ In (mk_Synset w' (synset_columns d ss)) ts.
Proof.
  intros y lexicon lang w' ss T Hw Hss Hsel E.
  rewrite (Synset_translate_ili d y lexicon lang T), Hw. simpl.
  eexists. split; [reflexivity|]. apply Wordnet_synsets_ili_complete; assumption.
Qed.

(* ------------------------------------------------------------------ 2: symmetry *)
Theorem Synset_translate_symmetric : forall (a b : synset_row) (w0a w0b : Wordnet)
                                            (la_lexicon la_lang lb_lexicon lb_lang : option str) (wa wb : Wordnet),
  In a (t_synsets d) -> In b (t_synsets d) ->
  truthy (ili_id_of d (sy_ili_rowid a)) = true ->
  ili_id_of d (sy_ili_rowid a) = ili_id_of d (sy_ili_rowid b) ->
  (* target selection la, built when translating the object of b; it selects the lexicon of a *)
  Wordnet_init d la_lexicon la_lang None true (wn_norm_table w0b) None true = Ok wa ->
  in_selection wa (sy_lexicon_rowid a) ->
  (* target selection lb, built when translating the object of a; it selects the lexicon of b *)
  Wordnet_init d lb_lexicon lb_lang None true (wn_norm_table w0a) None true = Ok wb ->
  in_selection wb (sy_lexicon_rowid b) ->
  (exists ts, Synset_translate d (mk_Synset w0a (synset_columns d a)) lb_lexicon lb_lang = Ok ts
     /\ exists t, In t ts /\ ss__id t = sy_rowid b)
  /\ (exists ts, Synset_translate d (mk_Synset w0b (synset_columns d b)) la_lexicon la_lang = Ok ts
     /\ exists t, In t ts /\ ss__id t = sy_rowid a).
Proof.
  intros a b w0a w0b la_lexicon la_lang lb_lexicon lb_lang wa wb Ha Hb T E Hwa Hsa Hwb Hsb. split.
  - apply (Synset_translate_complete (mk_Synset w0a (synset_columns d a)) lb_lexicon lb_lang wb b); simpl;
      [exact T | exact Hwb | exact Hb | exact Hsb | symmetry; exact E].
  - apply (Synset_translate_complete (mk_Synset w0b (synset_columns d b)) la_lexicon la_lang wa a); simpl;
      [rewrite <- E; exact T | exact Hwa | exact Ha | exact Hsa | exact E].
Qed.

(* ------------------------------------------------------------------ 3: exact characterisation *)
(* with an ILI and a target selection that exists, translate succeeds and the rowids of its results are
   exactly the rowids of the synset rows of the selected target lexicons whose ILI id is that of y *)
Theorem Synset_translate_exact : forall y lexicon lang w',
  db_ok d = true -> t_lexicons d <> [] ->
  truthy (ss_ili y) = true ->
  Wordnet_init d lexicon lang None true (wn_norm_table (ss_wordnet y)) None true = Ok w' ->
  exists ts, Synset_translate d y lexicon lang = Ok ts
    /\ forall r, (exists t, In t ts /\ ss__id t = r) <->
                 (exists ss, In ss (t_synsets d) /\ sy_rowid ss = r
                             /\ In (sy_lexicon_rowid ss) (wn_lexicon_ids w')
                             /\ ili_id_of d (sy_ili_rowid ss) = ss_ili y).
Proof.
  intros y lexicon lang w' Hok Hlex T Hw.
  assert (Hts : Synset_translate d y lexicon lang = Ok (Wordnet_synsets d w' None None (ss_ili y))).
  { rewrite (Synset_translate_ili d y lexicon lang T), Hw. reflexivity. }
  eexists. split; [exact Hts|]. intro r. split.
  - intros [t [Hin Er]].
    destruct (Synset_translate_sound d y lexicon lang _ t Hok Hlex Hts Hin)
      as [w'' [Hw'' [_ [Hl [Ei [ss [Hss Et]]]]]]].
    rewrite Hw in Hw''. injection Hw'' as <-. subst t. simpl in *.
    exists ss. repeat split; assumption.
  - intros [ss [Hss [Er [Hl E]]]].
    exists (mk_Synset w' (synset_columns d ss)). split; [|exact Er].
    apply Wordnet_synsets_ili_complete; [exact T | exact Hss | right; exact Hl | exact E].
Qed.

End Translate.

Print Assumptions Synset_translate_complete.
Print Assumptions Synset_translate_complete_obj.
Print Assumptions Synset_translate_symmetric.
Print Assumptions Synset_translate_exact.
