(* XmlTextProofs.v — STAGE 1: what the writer's escapers produce is read back
   unchanged by an XML parser (the parser being modelled by xml_attr_value /
   xml_char_data of Model/XmlText.v, which were cross-checked against expat). *)
From Coq Require Import String.
From Coq Require Import ZArith List Bool Lia.
Import ListNotations.
Require Import WnV.Base.Sx WnV.Model.XmlText.
Require WnV.Model.Spec.
Local Open Scope Z_scope.

Local Notation s_ := str_of_string.

(* ---------------------------------------------------------------------- *)
(* The characters XML 1.0 can carry at all (production [2] Char):          *)
(*   #x9 | #xA | #xD | [#x20-#xD7FF] | [#xE000-#xFFFD] | [#x10000-#x10FFFF] *)
(* i.e. everything except the C0 controls other than TAB/LF/CR, the         *)
(* surrogates, U+FFFE/U+FFFF and non code points.                           *)
(* ---------------------------------------------------------------------- *)
Definition xml_char (c : Z) : bool :=
  Z.eqb c 9 || Z.eqb c 10 || Z.eqb c 13 || in_range 32 55295 c
  || in_range 57344 65533 c || in_range 65536 1114111 c.
Definition xml_chars (s : str) : bool := forallb xml_char s.

Example xml_chars_ex :
  xml_chars ([9; 10; 13; 32; 34; 38; 39; 60; 62; 233; 8195; 128512] ++ s_ "a&amp;b <x y=""z""> it's") = true.
Proof. vm_compute. reflexivity. Qed.

(* ---------------------------------------------------------------------- *)
(* generic facts                                                          *)
(* ---------------------------------------------------------------------- *)
Lemma zin_cons : forall x c r, zin x (c :: r) = Z.eqb x c || zin x r.
Proof. reflexivity. Qed.
Lemma zin_single_neq : forall x c, c <> x -> zin x [c] = false.
Proof.
  intros x c H. rewrite zin_cons. apply Z.eqb_neq in H. rewrite Z.eqb_sym in H. rewrite H. reflexivity.
Qed.
Lemma zin_app : forall x a b, zin x (a ++ b) = zin x a || zin x b.
Proof. intros x a b. unfold zin. apply existsb_app. Qed.

Lemma zin_flat_map_In : forall x (g : Z -> str) s,
  (forall c, In c s -> zin x (g c) = false) -> zin x (flat_map g s) = false.
Proof.
  intros x g s. induction s as [|c s IH]; intro H; simpl.
  - reflexivity.
  - rewrite zin_app. rewrite (H c (or_introl eq_refl)). simpl.
    apply IH. intros d Hd. apply H. right. exact Hd.
Qed.

Lemma zin_flat_map : forall x (g : Z -> str) s,
  (forall c, zin x (g c) = false) -> zin x (flat_map g s) = false.
Proof. intros x g s H. apply zin_flat_map_In. intros c _. apply H. Qed.

Lemma zin_In : forall x s, zin x s = true <-> In x s.
Proof.
  intros x s. unfold zin. rewrite existsb_exists. split.
  - intros [y [Hy He]]. apply Z.eqb_eq in He. subst. exact Hy.
  - intro H. exists x. split; [exact H | apply Z.eqb_refl].
Qed.

Lemma flat_map_flat_map : forall (f g : Z -> str) s,
  flat_map g (flat_map f s) = flat_map (fun c => flat_map g (f c)) s.
Proof.
  intros f g s. induction s as [|c s IH]; simpl.
  - reflexivity.
  - rewrite flat_map_app. rewrite IH. reflexivity.
Qed.

(* a string without CR is not touched by the end-of-line normalisation *)
Lemma normalize_eol_id : forall t, zin c_cr t = false -> normalize_eol t = t.
Proof.
  induction t as [|c r IH]; intro H; simpl.
  - reflexivity.
  - rewrite zin_cons in H. apply orb_false_iff in H. destruct H as [H1 H2].
    rewrite Z.eqb_sym in H1. rewrite H1. rewrite (IH H2). reflexivity.
Qed.

(* ---------------------------------------------------------------------- *)
(* decoding one reference                                                 *)
(* ---------------------------------------------------------------------- *)
Lemma decode_aux_none : forall lit c r,
  decode_aux lit None (c :: r) =
  if Z.eqb c c_amp then decode_aux lit (Some []) r else lit c :: decode_aux lit None r.
Proof. reflexivity. Qed.
Lemma decode_aux_some : forall lit buf c r,
  decode_aux lit (Some buf) (c :: r) =
  if Z.eqb c c_semi then
    match decode_ref (rev buf) with
    | Some d => d :: decode_aux lit None r
    | None => map lit (c_amp :: rev buf ++ [c_semi]) ++ decode_aux lit None r
    end
  else if Z.eqb c c_amp then map lit (c_amp :: rev buf) ++ decode_aux lit (Some []) r
  else decode_aux lit (Some (c :: buf)) r.
Proof. reflexivity. Qed.

Lemma decode_pending : forall lit body buf rest,
  zin c_amp body = false -> zin c_semi body = false ->
  decode_aux lit (Some buf) (body ++ c_semi :: rest) =
  match decode_ref (rev buf ++ body) with
  | Some d => d :: decode_aux lit None rest
  | None => map lit (c_amp :: (rev buf ++ body) ++ [c_semi]) ++ decode_aux lit None rest
  end.
Proof.
  intros lit body. induction body as [|c b IH]; intros buf rest Ha Hs.
  - rewrite app_nil_l. rewrite decode_aux_some. rewrite Z.eqb_refl. rewrite app_nil_r. reflexivity.
  - rewrite zin_cons in Ha, Hs.
    apply orb_false_iff in Ha. destruct Ha as [Ha1 Ha2].
    apply orb_false_iff in Hs. destruct Hs as [Hs1 Hs2].
    rewrite Z.eqb_sym in Ha1. rewrite Z.eqb_sym in Hs1.
    rewrite <- app_comm_cons. rewrite decode_aux_some. rewrite Hs1. rewrite Ha1.
    etransitivity; [exact (IH (c :: buf) rest Ha2 Hs2)|].
    replace (rev (c :: buf) ++ b) with (rev buf ++ c :: b)
      by (simpl; rewrite <- app_assoc; reflexivity).
    reflexivity.
Qed.

Lemma decode_entity : forall lit ent body d rest,
  ent = c_amp :: body ++ [c_semi] ->
  zin c_amp body = false -> zin c_semi body = false ->
  decode_ref body = Some d ->
  decode_aux lit None (ent ++ rest) = d :: decode_aux lit None rest.
Proof.
  intros lit ent body d rest He Ha Hs Hd. subst ent.
  rewrite <- app_comm_cons. rewrite decode_aux_none. rewrite Z.eqb_refl.
  rewrite <- app_assoc. change ([c_semi] ++ rest) with (c_semi :: rest).
  etransitivity; [exact (decode_pending lit body [] rest Ha Hs)|].
  rewrite app_nil_l. rewrite Hd. reflexivity.
Qed.

Lemma decode_flat_map : forall lit (g : Z -> str),
  (forall c rest, decode_aux lit None (g c ++ rest) = c :: decode_aux lit None rest) ->
  forall s, decode_aux lit None (flat_map g s) = s.
Proof.
  intros lit g H s. induction s as [|c s IH]; simpl.
  - reflexivity.
  - rewrite H. rewrite IH. reflexivity.
Qed.

(* a literal character that is neither the ampersand nor changed by [lit] *)
Lemma decode_literal : forall lit c rest,
  c <> c_amp -> lit c = c ->
  decode_aux lit None ([c] ++ rest) = c :: decode_aux lit None rest.
Proof.
  intros lit c rest Hc Hl. change ([c] ++ rest) with (c :: rest). rewrite decode_aux_none.
  destruct (Z.eqb_spec c c_amp) as [E|_]; [contradiction|]. rewrite Hl. reflexivity.
Qed.

(* the [lit] functions of decode_attr and decode_text *)
Definition attr_lit (c : Z) : Z := if zin c [c_tab; c_nl; c_cr] then c_sp else c.
Lemma decode_attr_eq : forall s, decode_attr s = decode_aux attr_lit None s.
Proof. reflexivity. Qed.
Lemma decode_text_eq : forall s, decode_text s = decode_aux (fun c => c) None s.
Proof. reflexivity. Qed.

Lemma attr_lit_id : forall c, c <> 9 -> c <> 10 -> c <> 13 -> attr_lit c = c.
Proof.
  intros c H9 H10 H13. unfold attr_lit, zin. simpl.
  apply Z.eqb_neq in H9. apply Z.eqb_neq in H10. apply Z.eqb_neq in H13.
  unfold c_tab, c_nl, c_cr. rewrite H9, H10, H13. reflexivity.
Qed.

(* case analysis on all comparisons [Z.eqb c k] in the goal *)
Ltac dz c :=
  repeat match goal with
         | |- context [Z.eqb c ?k] =>
             let E := fresh "E" in
             destruct (Z.eqb_spec c k) as [E|E]
         end.

(* ====================================================================== *)
(* (1a) ElementTree attribute values                                      *)
(* ====================================================================== *)
Definition ea_f (c : Z) : str :=
  if Z.eqb c c_amp then s_ "&amp;"
  else if Z.eqb c c_lt then s_ "&lt;"
  else if Z.eqb c c_gt then s_ "&gt;"
  else if Z.eqb c c_quot then s_ "&quot;"
  else if Z.eqb c c_cr then s_ "&#13;"
  else if Z.eqb c c_nl then s_ "&#10;"
  else if Z.eqb c c_tab then s_ "&#09;"
  else [c].
Lemma escape_attrib_eq : forall s, escape_attrib s = flat_map ea_f s.
Proof. reflexivity. Qed.

Lemma ea_f_decode : forall c rest,
  decode_aux attr_lit None (ea_f c ++ rest) = c :: decode_aux attr_lit None rest.
Proof.
  intros c rest. unfold ea_f, c_amp, c_lt, c_gt, c_quot, c_cr, c_nl, c_tab. dz c.
  - subst c. apply decode_entity with (body := s_ "amp"); reflexivity.
  - subst c. apply decode_entity with (body := s_ "lt"); reflexivity.
  - subst c. apply decode_entity with (body := s_ "gt"); reflexivity.
  - subst c. apply decode_entity with (body := s_ "quot"); reflexivity.
  - subst c. apply decode_entity with (body := s_ "#13"); reflexivity.
  - subst c. apply decode_entity with (body := s_ "#10"); reflexivity.
  - subst c. apply decode_entity with (body := s_ "#09"); reflexivity.
  - apply decode_literal; [exact E | apply attr_lit_id; assumption].
Qed.

Lemma ea_f_no_cr : forall c, zin c_cr (ea_f c) = false.
Proof.
  intro c. unfold ea_f, c_amp, c_lt, c_gt, c_quot, c_cr, c_nl, c_tab. dz c;
    try reflexivity.
  apply zin_single_neq; assumption.
Qed.

Lemma ea_f_no_lt_quot : forall c, zin c_lt (ea_f c) = false /\ zin c_quot (ea_f c) = false.
Proof.
  intro c. unfold ea_f, c_amp, c_lt, c_gt, c_quot, c_cr, c_nl, c_tab. dz c;
    try (split; reflexivity).
  split; apply zin_single_neq; assumption.
Qed.

(* The round trip holds for EVERY string: no restriction is needed, not even on
   CR, because _escape_attrib writes TAB, LF and CR as character references,
   which the end-of-line and attribute-value normalisations do not touch. *)
Theorem attr_roundtrip_ET_all : forall s, xml_attr_value (escape_attrib s) = s.
Proof.
  intro s. unfold xml_attr_value. rewrite escape_attrib_eq.
  rewrite normalize_eol_id by (apply zin_flat_map; apply ea_f_no_cr).
  rewrite decode_attr_eq. apply decode_flat_map. apply ea_f_decode.
Qed.

(* the requested statement (xml_chars only delimits the strings for which a real
   document exists; the model equation does not depend on it) *)
Theorem attr_roundtrip_ET : forall s, xml_chars s = true -> xml_attr_value (escape_attrib s) = s.
Proof. intros s _. apply attr_roundtrip_ET_all. Qed.

(* what is written between the double quotes is a well-formed attribute value:
   no double quote and no "<" *)
Theorem escape_attrib_wellformed : forall s,
  zin c_quot (escape_attrib s) = false /\ zin c_lt (escape_attrib s) = false.
Proof.
  intro s. rewrite escape_attrib_eq. split; apply zin_flat_map; intro c; apply ea_f_no_lt_quot.
Qed.

(* ====================================================================== *)
(* (1b) xml.sax.saxutils.quoteattr                                        *)
(* ====================================================================== *)
(* the value inside the quotes: the first character is a quote character, the
   last one the same, and the text in between does not contain it *)
Definition unquote (t : str) : option str :=
  match t with
  | q :: r =>
      if Z.eqb q c_quot || Z.eqb q c_apos then
        match rev r with
        | q' :: ri => let inner := rev ri in
                      if Z.eqb q' q && negb (zin q inner) then Some inner else None
        | [] => None
        end
      else None
  | [] => None
  end.

Lemma unquote_intro : forall q inner,
  q = c_quot \/ q = c_apos -> zin q inner = false -> unquote ([q] ++ inner ++ [q]) = Some inner.
Proof.
  intros q inner Hq Hz. simpl.
  assert (Hb : Z.eqb q c_quot || Z.eqb q c_apos = true).
  { destruct Hq as [-> | ->]; reflexivity. }
  rewrite Hb. rewrite rev_unit. rewrite rev_involutive. rewrite Z.eqb_refl. rewrite Hz.
  reflexivity.
Qed.

Definition sax_f (c : Z) : str :=
  if Z.eqb c c_amp then s_ "&amp;"
  else if Z.eqb c c_gt then s_ "&gt;"
  else if Z.eqb c c_lt then s_ "&lt;"
  else if Z.eqb c c_nl then s_ "&#10;"
  else if Z.eqb c c_cr then s_ "&#13;"
  else if Z.eqb c c_tab then s_ "&#9;"
  else [c].
Lemma sax_escape_eq : forall s, sax_escape s = flat_map sax_f s.
Proof. reflexivity. Qed.
Definition quot_h (c : Z) : str := if Z.eqb c c_quot then s_ "&quot;" else [c].
(* sax_f followed by the replacement of the double quote *)
Definition saxq_f (c : Z) : str := if Z.eqb c c_quot then s_ "&quot;" else sax_f c.

Lemma quoteattr_eq : forall s,
  quoteattr s =
  let d := flat_map sax_f s in
  if zin c_quot d then
    if zin c_apos d then [c_quot] ++ flat_map quot_h d ++ [c_quot]
    else [c_apos] ++ d ++ [c_apos]
  else [c_quot] ++ d ++ [c_quot].
Proof. reflexivity. Qed.

Lemma saxq_f_eq : forall c, flat_map quot_h (sax_f c) = saxq_f c.
Proof.
  intro c. unfold saxq_f, sax_f, quot_h, c_amp, c_lt, c_gt, c_quot, c_cr, c_nl, c_tab.
  destruct (Z.eqb_spec c 34) as [E34|E34].
  - subst c. reflexivity.
  - dz c; try (subst c; reflexivity).
    simpl. apply Z.eqb_neq in E34. rewrite E34. reflexivity.
Qed.

Lemma sax_f_decode : forall c rest,
  decode_aux attr_lit None (sax_f c ++ rest) = c :: decode_aux attr_lit None rest.
Proof.
  intros c rest. unfold sax_f, c_amp, c_lt, c_gt, c_cr, c_nl, c_tab. dz c.
  - subst c. apply decode_entity with (body := s_ "amp"); reflexivity.
  - subst c. apply decode_entity with (body := s_ "gt"); reflexivity.
  - subst c. apply decode_entity with (body := s_ "lt"); reflexivity.
  - subst c. apply decode_entity with (body := s_ "#10"); reflexivity.
  - subst c. apply decode_entity with (body := s_ "#13"); reflexivity.
  - subst c. apply decode_entity with (body := s_ "#9"); reflexivity.
  - apply decode_literal; [exact E | apply attr_lit_id; assumption].
Qed.

Lemma saxq_f_decode : forall c rest,
  decode_aux attr_lit None (saxq_f c ++ rest) = c :: decode_aux attr_lit None rest.
Proof.
  intros c rest. unfold saxq_f, c_quot. destruct (Z.eqb_spec c 34) as [E|E].
  - subst c. apply decode_entity with (body := s_ "quot"); reflexivity.
  - apply sax_f_decode.
Qed.

Lemma sax_f_no_cr_lt : forall c, zin c_cr (sax_f c) = false /\ zin c_lt (sax_f c) = false.
Proof.
  intro c. unfold sax_f, c_amp, c_lt, c_gt, c_cr, c_nl, c_tab. dz c;
    try (split; reflexivity).
  split; apply zin_single_neq; assumption.
Qed.

Lemma saxq_f_no_cr_lt_quot : forall c,
  zin c_cr (saxq_f c) = false /\ zin c_lt (saxq_f c) = false /\ zin c_quot (saxq_f c) = false.
Proof.
  intro c. unfold saxq_f. destruct (Z.eqb_spec c c_quot) as [E|E].
  - repeat split; reflexivity.
  - destruct (sax_f_no_cr_lt c) as [H1 H2]. repeat split; try assumption.
    unfold c_quot in E. unfold sax_f, c_amp, c_lt, c_gt, c_cr, c_nl, c_tab, c_quot. dz c; try reflexivity.
    apply zin_single_neq; assumption.
Qed.

Lemma sax_inner_value : forall s, xml_attr_value (flat_map sax_f s) = s.
Proof.
  intro s. unfold xml_attr_value.
  rewrite normalize_eol_id by (apply zin_flat_map; intro c; apply sax_f_no_cr_lt).
  rewrite decode_attr_eq. apply decode_flat_map. apply sax_f_decode.
Qed.
Lemma saxq_inner_value : forall s, xml_attr_value (flat_map saxq_f s) = s.
Proof.
  intro s. unfold xml_attr_value.
  rewrite normalize_eol_id by (apply zin_flat_map; intro c; apply saxq_f_no_cr_lt_quot).
  rewrite decode_attr_eq. apply decode_flat_map. apply saxq_f_decode.
Qed.

(* quoteattr produces a well-quoted value (the delimiter does not occur inside,
   nor does "<"), and the parser reads the original string back — again for every
   string, whatever mix of quotes, angle brackets, ampersands, tabs, newlines or
   carriage returns it contains. *)
Theorem attr_roundtrip_quoteattr_all : forall s,
  exists inner, unquote (quoteattr s) = Some inner
                /\ zin c_lt inner = false
                /\ xml_attr_value inner = s.
Proof.
  intro s. rewrite quoteattr_eq. cbv zeta.
  destruct (zin c_quot (flat_map sax_f s)) eqn:Hq.
  - destruct (zin c_apos (flat_map sax_f s)) eqn:Ha.
    + (* both kinds of quotes: double quotes, with &quot; inside *)
      exists (flat_map saxq_f s).
      assert (Heq : flat_map quot_h (flat_map sax_f s) = flat_map saxq_f s).
      { rewrite flat_map_flat_map. apply flat_map_ext. apply saxq_f_eq. }
      rewrite Heq. split; [|split].
      * apply unquote_intro; [left; reflexivity|].
        apply zin_flat_map. intro c. apply saxq_f_no_cr_lt_quot.
      * apply zin_flat_map. intro c. apply saxq_f_no_cr_lt_quot.
      * apply saxq_inner_value.
    + (* only double quotes: delimited by apostrophes *)
      exists (flat_map sax_f s). split; [|split].
      * apply unquote_intro; [right; reflexivity | exact Ha].
      * apply zin_flat_map. intro c. apply sax_f_no_cr_lt.
      * apply sax_inner_value.
  - exists (flat_map sax_f s). split; [|split].
    + apply unquote_intro; [left; reflexivity | exact Hq].
    + apply zin_flat_map. intro c. apply sax_f_no_cr_lt.
    + apply sax_inner_value.
Qed.

Theorem attr_roundtrip_quoteattr : forall s, xml_chars s = true ->
  exists inner, unquote (quoteattr s) = Some inner
                /\ zin c_lt inner = false
                /\ xml_attr_value inner = s.
Proof. intros s _. apply attr_roundtrip_quoteattr_all. Qed.

(* ====================================================================== *)
(* (1c) character data and whitespace normalisation                       *)
(* ====================================================================== *)
Definition NonSp (w : str) : Prop := Forall (fun c => Spec.is_space c = false) w.
Definition good_word (w : str) : Prop := w <> [] /\ NonSp w.

Lemma split_aux_end : forall cur, cur <> [] -> Spec.split_ws_aux cur [] = [rev cur].
Proof. intros cur H. destruct cur as [|c cur]; [contradiction | reflexivity]. Qed.

Lemma split_aux_space : forall cur c s, cur <> [] -> Spec.is_space c = true ->
  Spec.split_ws_aux cur (c :: s) = rev cur :: Spec.split_ws_aux [] s.
Proof.
  intros cur c s H Hc. simpl. rewrite Hc. destruct cur as [|d cur]; [contradiction | reflexivity].
Qed.

Lemma split_aux_word : forall w cur rest, NonSp w ->
  Spec.split_ws_aux cur (w ++ rest) = Spec.split_ws_aux (rev w ++ cur) rest.
Proof.
  induction w as [|c w IH]; intros cur rest Hw.
  - reflexivity.
  - inversion Hw as [|c' w' Hc Hw' E]. subst. simpl. rewrite Hc.
    rewrite (IH (c :: cur) rest Hw'). rewrite <- app_assoc. reflexivity.
Qed.

Lemma split_words : forall s cur, NonSp cur -> Forall good_word (Spec.split_ws_aux cur s).
Proof.
  induction s as [|c s IH]; intros cur Hcur.
  - destruct cur as [|d cur]; simpl.
    + constructor.
    + constructor; [|constructor]. split.
      * intro E. apply app_eq_nil in E. destruct E as [_ E]. discriminate.
      * apply (Forall_rev Hcur).
  - simpl. destruct (Spec.is_space c) eqn:Hc.
    + destruct cur as [|d cur].
      * apply IH. constructor.
      * constructor.
        -- split.
           ++ intro E. simpl in E. apply app_eq_nil in E. destruct E as [_ E]. discriminate.
           ++ apply (Forall_rev Hcur).
        -- apply IH. constructor.
    + apply IH. constructor; assumption.
Qed.

Lemma rev_not_nil : forall (w : str), w <> [] -> rev w <> [].
Proof.
  intros w H E. apply H. rewrite <- (rev_involutive w). rewrite E. reflexivity.
Qed.

Lemma split_join : forall ws, Forall good_word ws -> Spec.split_ws (join [c_sp] ws) = ws.
Proof.
  unfold Spec.split_ws.
  induction ws as [|w r IH]; intro H.
  - reflexivity.
  - inversion H as [|w' r' [Hne Hns] Hr E]. subst.
    destruct r as [|w2 r'].
    + simpl. rewrite <- (app_nil_r w) at 1.
      rewrite (split_aux_word w [] [] Hns). rewrite app_nil_r.
      rewrite split_aux_end by (apply rev_not_nil; exact Hne).
      rewrite rev_involutive. reflexivity.
    + change (join [c_sp] (w :: w2 :: r')) with (w ++ [c_sp] ++ join [c_sp] (w2 :: r')).
      rewrite (split_aux_word w [] _ Hns). rewrite app_nil_r.
      change ([c_sp] ++ join [c_sp] (w2 :: r')) with (c_sp :: join [c_sp] (w2 :: r')).
      rewrite split_aux_space; [| apply rev_not_nil; exact Hne | reflexivity].
      rewrite rev_involutive. rewrite (IH Hr). reflexivity.
Qed.

Lemma norm_ws_eq : forall s, norm_ws s = join [c_sp] (Spec.split_ws s).
Proof. reflexivity. Qed.

Theorem norm_ws_idempotent : forall s, norm_ws (norm_ws s) = norm_ws s.
Proof.
  intro s. rewrite !norm_ws_eq. rewrite split_join; [reflexivity|].
  apply split_words. constructor.
Qed.

(* in a normalised string the only whitespace character is the space *)
Lemma join_space : forall ws, Forall good_word ws ->
  forall c, In c (join [c_sp] ws) -> Spec.is_space c = true -> c = c_sp.
Proof.
  induction ws as [|w r IH]; intros H c Hin Hc.
  - simpl in Hin. contradiction.
  - inversion H as [|w' r' [Hne Hns] Hr E]. subst.
    assert (Hw : In c w -> c = c_sp).
    { intro Hi. unfold NonSp in Hns. rewrite Forall_forall in Hns.
      rewrite (Hns c Hi) in Hc. discriminate. }
    destruct r as [|w2 r'].
    + simpl in Hin. apply Hw. exact Hin.
    + change (join [c_sp] (w :: w2 :: r')) with (w ++ [c_sp] ++ join [c_sp] (w2 :: r')) in Hin.
      apply in_app_or in Hin. destruct Hin as [Hin|Hin]; [apply Hw; exact Hin|].
      apply in_app_or in Hin. destruct Hin as [Hin|Hin].
      * simpl in Hin. destruct Hin as [Hin|[]]. symmetry. exact Hin.
      * apply (IH Hr c Hin Hc).
Qed.

Lemma normalised_no_cr : forall s, norm_ws s = s -> zin c_cr s = false.
Proof.
  intros s H. destruct (zin c_cr s) eqn:Hz; [|reflexivity].
  apply zin_In in Hz. rewrite <- H in Hz. rewrite norm_ws_eq in Hz.
  assert (E : c_cr = c_sp).
  { apply (join_space (Spec.split_ws s)); [apply split_words; constructor | exact Hz | reflexivity]. }
  discriminate E.
Qed.

Definition cd_f (c : Z) : str :=
  if Z.eqb c c_amp then s_ "&amp;"
  else if Z.eqb c c_lt then s_ "&lt;"
  else if Z.eqb c c_gt then s_ "&gt;"
  else [c].
Lemma escape_cdata_eq : forall s, escape_cdata s = flat_map cd_f s.
Proof. reflexivity. Qed.

Lemma cd_f_decode : forall c rest,
  decode_aux (fun c => c) None (cd_f c ++ rest) = c :: decode_aux (fun c => c) None rest.
Proof.
  intros c rest. unfold cd_f, c_amp, c_lt, c_gt. dz c.
  - subst c. apply decode_entity with (body := s_ "amp"); reflexivity.
  - subst c. apply decode_entity with (body := s_ "lt"); reflexivity.
  - subst c. apply decode_entity with (body := s_ "gt"); reflexivity.
  - apply decode_literal; [exact E | reflexivity].
Qed.

Lemma cd_f_no_cr : forall c, c <> c_cr -> zin c_cr (cd_f c) = false.
Proof.
  intros c Hc. unfold cd_f, c_amp, c_lt, c_gt. dz c; try reflexivity.
  apply zin_single_neq; assumption.
Qed.

Lemma cd_f_no_lt : forall c, zin c_lt (cd_f c) = false.
Proof.
  intro c. unfold cd_f, c_amp, c_lt, c_gt. dz c; try reflexivity.
  apply zin_single_neq; assumption.
Qed.

(* Character data: _escape_cdata does NOT escape CR, and a parser turns a literal
   CR (or CR LF) into LF.  So the exact round trip needs "no CR in s": *)
Theorem text_roundtrip_exact : forall s, zin c_cr s = false -> xml_char_data (escape_cdata s) = s.
Proof.
  intros s Hcr. unfold xml_char_data. rewrite escape_cdata_eq.
  rewrite normalize_eol_id.
  - rewrite decode_text_eq. apply decode_flat_map. apply cd_f_decode.
  - apply zin_flat_map_In. intros c Hc. apply cd_f_no_cr.
    intro E. subst c. apply zin_In in Hc. rewrite Hc in Hcr. discriminate.
Qed.
(* ... and that restriction is exact: a string made of one CR comes back as LF *)
Example text_roundtrip_cr_counterexample : xml_char_data (escape_cdata [c_cr]) = [c_nl].
Proof. vm_compute. reflexivity. Qed.

(* the reader normalises whitespace (unless xml:space = preserve); a normalised
   text contains no CR, so it survives exactly *)
Theorem text_roundtrip : forall s, xml_chars s = true -> norm_ws s = s ->
  norm_ws (xml_char_data (escape_cdata s)) = s.
Proof.
  intros s _ Hn. rewrite text_roundtrip_exact by (apply normalised_no_cr; exact Hn). exact Hn.
Qed.

(* the character data written never contains "<" *)
Theorem escape_cdata_wellformed : forall s, zin c_lt (escape_cdata s) = false.
Proof. intro s. rewrite escape_cdata_eq. apply zin_flat_map. apply cd_f_no_lt. Qed.

(* ---------------------------------------------------------------------- *)
(* The general, unconditional statement: what comes back is the           *)
(* end-of-line normalised text, and whitespace normalisation cannot tell    *)
(* the difference.                                                          *)
(* ---------------------------------------------------------------------- *)
Lemma list_ind2 : forall (P : str -> Prop),
  P [] -> (forall a, P [a]) -> (forall a b l, P (b :: l) -> P l -> P (a :: b :: l)) ->
  forall l, P l.
Proof.
  intros P H0 H1 H2 l.
  assert (H : P l /\ forall a, P (a :: l)).
  { induction l as [|b l [IHa IHb]].
    - split; [exact H0 | exact H1].
    - split; [apply IHb | intro a; apply H2; [apply IHb | exact IHa]]. }
  apply H.
Qed.

Lemma normalize_eol_cons : forall c r,
  normalize_eol (c :: r) =
  if Z.eqb c c_cr then
    c_nl :: match r with
            | d :: r' => if Z.eqb d c_nl then normalize_eol r' else normalize_eol r
            | [] => []
            end
  else c :: normalize_eol r.
Proof. reflexivity. Qed.

Lemma normalize_eol_app : forall w t, zin c_cr w = false ->
  normalize_eol (w ++ t) = w ++ normalize_eol t.
Proof.
  induction w as [|c w IH]; intros t H.
  - reflexivity.
  - rewrite zin_cons in H. apply orb_false_iff in H. destruct H as [H1 H2].
    rewrite Z.eqb_sym in H1. rewrite <- app_comm_cons. rewrite normalize_eol_cons.
    rewrite H1. rewrite (IH t H2). reflexivity.
Qed.

Lemma cd_f_head : forall b, b <> c_nl -> exists x w, cd_f b = x :: w /\ x <> c_nl.
Proof.
  intros b Hb. unfold cd_f, c_amp, c_lt, c_gt. dz b.
  - exists 38, (s_ "amp;"). split; [reflexivity | discriminate].
  - exists 38, (s_ "lt;"). split; [reflexivity | discriminate].
  - exists 38, (s_ "gt;"). split; [reflexivity | discriminate].
  - exists b, []. split; [reflexivity | exact Hb].
Qed.

Lemma normalize_eol_escape_cdata : forall s,
  normalize_eol (flat_map cd_f s) = flat_map cd_f (normalize_eol s).
Proof.
  apply list_ind2.
  - reflexivity.
  - intro a. destruct (Z.eqb_spec a c_cr) as [E|E].
    + subst a. reflexivity.
    + simpl flat_map. rewrite app_nil_r.
      rewrite normalize_eol_id by (apply cd_f_no_cr; exact E).
      apply Z.eqb_neq in E. rewrite E. simpl. rewrite app_nil_r. reflexivity.
  - intros a b l IHbl IHl. destruct (Z.eqb_spec a c_cr) as [E|E].
    + subst a. destruct (Z.eqb_spec b c_nl) as [Eb|Eb].
      * subst b. change (flat_map cd_f (c_cr :: c_nl :: l)) with (c_cr :: c_nl :: flat_map cd_f l).
        rewrite !normalize_eol_cons. rewrite !Z.eqb_refl.
        change (flat_map cd_f (c_nl :: normalize_eol l)) with (c_nl :: flat_map cd_f (normalize_eol l)).
        rewrite IHl. reflexivity.
      * rewrite (normalize_eol_cons c_cr (b :: l)). rewrite Z.eqb_refl.
        apply Z.eqb_neq in Eb. rewrite Eb.
        change (flat_map cd_f (c_nl :: normalize_eol (b :: l)))
          with (c_nl :: flat_map cd_f (normalize_eol (b :: l))).
        rewrite <- IHbl.
        change (flat_map cd_f (c_cr :: b :: l)) with (c_cr :: flat_map cd_f (b :: l)).
        apply Z.eqb_neq in Eb. destruct (cd_f_head b Eb) as [x [w [Hx Hn]]].
        change (flat_map cd_f (b :: l)) with (cd_f b ++ flat_map cd_f l).
        rewrite Hx. rewrite <- app_comm_cons.
        rewrite (normalize_eol_cons c_cr). rewrite Z.eqb_refl.
        apply Z.eqb_neq in Hn. rewrite Hn. reflexivity.
    + change (flat_map cd_f (a :: b :: l)) with (cd_f a ++ flat_map cd_f (b :: l)).
      rewrite normalize_eol_app by (apply cd_f_no_cr; exact E).
      rewrite IHbl. rewrite (normalize_eol_cons a). apply Z.eqb_neq in E. rewrite E. reflexivity.
Qed.

(* what the parser reports for the character data the writer wrote: the text with
   its line ends normalised — for every string *)
Theorem text_roundtrip_eol : forall s, xml_char_data (escape_cdata s) = normalize_eol s.
Proof.
  intro s. unfold xml_char_data. rewrite escape_cdata_eq. rewrite normalize_eol_escape_cdata.
  rewrite decode_text_eq. apply decode_flat_map. apply cd_f_decode.
Qed.

Lemma split_aux_cons : forall cur c s,
  Spec.split_ws_aux cur (c :: s) =
  if Spec.is_space c
  then match cur with [] => Spec.split_ws_aux [] s | _ => rev cur :: Spec.split_ws_aux [] s end
  else Spec.split_ws_aux (c :: cur) s.
Proof. reflexivity. Qed.

Lemma is_space_cr : Spec.is_space c_cr = true. Proof. reflexivity. Qed.
Lemma is_space_nl : Spec.is_space c_nl = true. Proof. reflexivity. Qed.

Lemma split_normalize_eol : forall s cur,
  Spec.split_ws_aux cur (normalize_eol s) = Spec.split_ws_aux cur s.
Proof.
  apply (list_ind2 (fun s => forall cur,
           Spec.split_ws_aux cur (normalize_eol s) = Spec.split_ws_aux cur s)).
  - reflexivity.
  - intros a cur. rewrite normalize_eol_cons. destruct (Z.eqb_spec a c_cr) as [E|E].
    + subst a. rewrite !split_aux_cons. rewrite is_space_cr, is_space_nl. reflexivity.
    + reflexivity.
  - intros a b l IHbl IHl cur. rewrite normalize_eol_cons. destruct (Z.eqb_spec a c_cr) as [E|E].
    + subst a. destruct (Z.eqb_spec b c_nl) as [Eb|Eb].
      * subst b. rewrite !split_aux_cons. rewrite is_space_cr, is_space_nl.
        rewrite IHl. reflexivity.
      * rewrite !split_aux_cons. rewrite is_space_cr, is_space_nl. rewrite IHbl. reflexivity.
    + rewrite !(split_aux_cons cur a). rewrite !IHbl. reflexivity.
Qed.

Theorem norm_ws_normalize_eol : forall s, norm_ws (normalize_eol s) = norm_ws s.
Proof.
  intro s. rewrite !norm_ws_eq. unfold Spec.split_ws. rewrite split_normalize_eol. reflexivity.
Qed.

(* default mode (no xml:space = preserve): the loaded text is the normalised text
   of what was dumped, whatever it contains *)
Theorem text_roundtrip_all : forall s, norm_ws (xml_char_data (escape_cdata s)) = norm_ws s.
Proof. intro s. rewrite text_roundtrip_eol. apply norm_ws_normalize_eol. Qed.

Print Assumptions attr_roundtrip_ET_all.
Print Assumptions text_roundtrip_eol.
Print Assumptions text_roundtrip_all.
Print Assumptions attr_roundtrip_ET.
Print Assumptions escape_attrib_wellformed.
Print Assumptions attr_roundtrip_quoteattr_all.
Print Assumptions attr_roundtrip_quoteattr.
Print Assumptions norm_ws_idempotent.
Print Assumptions text_roundtrip_exact.
Print Assumptions text_roundtrip.
Print Assumptions escape_cdata_wellformed.
