From Coq Require Import ZArith List Bool Lia.
Import ListNotations.
Require Import WnV.Base.Sx WnV.Model.Spec.
Local Open Scope Z_scope.

(* a string without glob metacharacters *)
Definition plain (s : str) : Prop := has_meta s = false.
Definition no_colon (s : str) : Prop := zmem c_colon s = false.
(* identifiers and versions as WN-LMF allows them: no ':' and no glob metacharacter *)
Definition ids_plain (lexs : list lexrow) : Prop :=
  forall l, In l lexs -> plain (lx_id l) /\ no_colon (lx_id l) /\ plain (lx_version l) /\ no_colon (lx_version l).

(* ------------------------------------------------------------------ *)
(* helpers: zmem, plain, no_colon                                      *)
(* ------------------------------------------------------------------ *)
Lemma zmem_cons : forall c d l, zmem c (d :: l) = Z.eqb c d || zmem c l.
Proof. reflexivity. Qed.

Lemma zmem_app : forall c a b, zmem c (a ++ b) = zmem c a || zmem c b.
Proof. intros c a b. unfold zmem. apply existsb_app. Qed.

Lemma zmem_nil : forall c, zmem c [] = false.
Proof. reflexivity. Qed.

Lemma has_meta_cons : forall c p,
    has_meta (c :: p) = false <->
    (Z.eqb c c_star = false /\ Z.eqb c c_qm = false /\ Z.eqb c c_lbr = false /\ has_meta p = false).
Proof.
  intros c p. unfold has_meta. rewrite !zmem_cons.
  rewrite (Z.eqb_sym c_star c), (Z.eqb_sym c_qm c), (Z.eqb_sym c_lbr c).
  rewrite !orb_false_iff. tauto.
Qed.

Lemma has_meta_app : forall a b, has_meta (a ++ b) = false <-> (has_meta a = false /\ has_meta b = false).
Proof.
  intros a b. unfold has_meta. rewrite !zmem_app. rewrite !orb_false_iff. tauto.
Qed.

Lemma plain_nil : plain [].
Proof. reflexivity. Qed.

Lemma plain_colon : plain [c_colon].
Proof. reflexivity. Qed.

Lemma plain_app : forall a b, plain a -> plain b -> plain (a ++ b).
Proof. intros a b Ha Hb. apply has_meta_app. split; assumption. Qed.

Lemma no_colon_cons : forall c s, no_colon (c :: s) <-> (Z.eqb c c_colon = false /\ no_colon s).
Proof.
  intros c s. unfold no_colon. rewrite zmem_cons, (Z.eqb_sym c_colon c), orb_false_iff. tauto.
Qed.

Lemma colon_in_mid : forall a b, zmem c_colon (a ++ c_colon :: b) = true.
Proof.
  intros a b. rewrite zmem_app, zmem_cons, Z.eqb_refl. simpl. apply orb_true_r.
Qed.

(* ------------------------------------------------------------------ *)
(* helpers: the matcher                                                *)
(* ------------------------------------------------------------------ *)
Lemma glob_nil : forall s, glob [] s = true <-> s = [].
Proof. intros [|d s]; simpl; split; intro H; try reflexivity; discriminate. Qed.

Lemma glob_star_cons : forall p s,
    glob (c_star :: p) s = glob p s || match s with [] => false | _ :: s' => glob (c_star :: p) s' end.
Proof. intros p [|d s]; reflexivity. Qed.

(* the star case *)
Lemma glob_star_iff : forall p s,
    glob (c_star :: p) s = true <-> exists s1 s2, s = s1 ++ s2 /\ glob p s2 = true.
Proof.
  intros p s. induction s as [|d s IH].
  - rewrite glob_star_cons, orb_false_r. split.
    + intro H. exists [], []. split; [reflexivity | exact H].
    + intros [s1 [s2 [E H]]]. symmetry in E. apply app_eq_nil in E. destruct E as [_ E2].
      subst s2. exact H.
  - rewrite glob_star_cons, orb_true_iff, IH. split.
    + intros [H | [s1 [s2 [E H]]]].
      * exists [], (d :: s). split; [reflexivity | exact H].
      * exists (d :: s1), s2. split; [simpl; rewrite E; reflexivity | exact H].
    + intros [s1 [s2 [E H]]]. destruct s1 as [|x s1].
      * left. simpl in E. rewrite E. exact H.
      * right. simpl in E. injection E as Ex Es. exists s1, s2. split; assumption.
Qed.

(* with character classes in the matcher, '[' is a metacharacter too: the former
   statement (without the third hypothesis) fails for c = '[':
   glob [c_lbr] [c_lbr] = false (an unterminated class), not true *)
Lemma glob_cons_nonmeta : forall c p s,
    Z.eqb c c_star = false -> Z.eqb c c_qm = false -> Z.eqb c c_lbr = false ->
    glob (c :: p) s = match s with [] => false | d :: s' => Z.eqb c d && glob p s' end.
Proof.
  intros c p s Hs Hq Hb. destruct s as [|d s]; cbn [glob]; rewrite Hs; [reflexivity|].
  rewrite Hb, Hq. reflexivity.
Qed.

(* a plain prefix of the pattern is matched literally *)
Lemma glob_plain_app : forall p q s, plain p ->
    (glob (p ++ q) s = true <-> exists t, s = p ++ t /\ glob q t = true).
Proof.
  induction p as [|c p IH]; intros q s Hp.
  - simpl. split.
    + intro H. exists s. split; [reflexivity | exact H].
    + intros [t [E H]]. subst t. exact H.
  - apply has_meta_cons in Hp. destruct Hp as [Hs [Hq [Hb Hp]]].
    change ((c :: p) ++ q) with (c :: (p ++ q)).
    rewrite glob_cons_nonmeta by assumption.
    destruct s as [|d s].
    + split; [discriminate|]. intros [t [E _]]. discriminate.
    + rewrite andb_true_iff, (IH q s Hp), Z.eqb_eq. split.
      * intros [Ec [t [E H]]]. subst d s. exists t. split; [reflexivity | exact H].
      * intros [t [E H]]. simpl in E. injection E as Ed Es. split; [symmetry; exact Ed|].
        exists t. split; assumption.
Qed.

(* ------------------------------------------------------------------ *)
(* helpers: splitting at a colon                                       *)
(* ------------------------------------------------------------------ *)
Lemma split_first_colon : forall a a' b b',
    no_colon a -> no_colon a' -> a ++ c_colon :: b = a' ++ c_colon :: b' -> a = a' /\ b = b'.
Proof.
  induction a as [|x a IH]; intros a' b b' Ha Ha' E; destruct a' as [|y a'].
  - simpl in E. injection E as E. split; [reflexivity | exact E].
  - simpl in E. injection E as Ey E. apply no_colon_cons in Ha'. destruct Ha' as [Hy _].
    subst y. rewrite Z.eqb_refl in Hy. discriminate.
  - simpl in E. injection E as Ex E. apply no_colon_cons in Ha. destruct Ha as [Hx _].
    subst x. rewrite Z.eqb_refl in Hx. discriminate.
  - simpl in E. injection E as Ex E. apply no_colon_cons in Ha. apply no_colon_cons in Ha'.
    destruct Ha as [_ Ha]. destruct Ha' as [_ Ha'].
    destruct (IH a' b b' Ha Ha' E) as [E1 E2]. subst. split; reflexivity.
Qed.

Lemma split_last_colon : forall a a' b b',
    no_colon b -> no_colon b' -> a ++ c_colon :: b = a' ++ c_colon :: b' -> a = a' /\ b = b'.
Proof.
  induction a as [|x a IH]; intros a' b b' Hb Hb' E; destruct a' as [|y a'].
  - simpl in E. injection E as E. split; [reflexivity | exact E].
  - simpl in E. injection E as Ey E. subst b. unfold no_colon in Hb.
    rewrite colon_in_mid in Hb. discriminate.
  - simpl in E. injection E as Ex E. subst b'. unfold no_colon in Hb'.
    rewrite colon_in_mid in Hb'. discriminate.
  - simpl in E. injection E as Ex E.
    destruct (IH a' b b' Hb Hb' E) as [E1 E2]. subst. split; reflexivity.
Qed.

(* ------------------------------------------------------------------ *)
(* the matcher                                                         *)
(* ------------------------------------------------------------------ *)
Theorem glob_literal : forall p s, plain p -> (glob p s = true <-> s = p).
Proof.
  intros p s Hp. rewrite <- (app_nil_r p) at 1. rewrite (glob_plain_app p [] s Hp). split.
  - intros [t [E H]]. apply glob_nil in H. subst t. rewrite app_nil_r in E. exact E.
  - intro E. exists []. split; [rewrite app_nil_r; exact E | reflexivity].
Qed.

Theorem glob_star_all : forall s, glob [c_star] s = true.
Proof.
  intro s. apply glob_star_iff. exists s, []. split; [rewrite app_nil_r; reflexivity | reflexivity].
Qed.

Theorem glob_prefix_star : forall p s, plain p -> (glob (p ++ [c_star]) s = true <-> exists t, s = p ++ t).
Proof.
  intros p s Hp. rewrite (glob_plain_app p [c_star] s Hp). split.
  - intros [t [E _]]. exists t. exact E.
  - intros [t E]. exists t. split; [exact E | apply glob_star_all].
Qed.

Theorem glob_star_suffix : forall p s, plain p -> (glob (c_star :: p) s = true <-> exists t, s = t ++ p).
Proof.
  intros p s Hp. rewrite glob_star_iff. split.
  - intros [s1 [s2 [E H]]]. apply (glob_literal p s2 Hp) in H. subst s2. exists s1. exact E.
  - intros [t E]. exists t, p. split; [exact E | apply (glob_literal p p Hp); reflexivity].
Qed.

(* id:*  matches exactly the specifiers of that id *)
Theorem glob_id_star : forall i i' v', plain i -> no_colon i' -> no_colon i ->
    (glob (i ++ [c_colon; c_star]) (i' ++ [c_colon] ++ v') = true <-> i' = i).
Proof.
  intros i i' v' Hp Hi' Hi.
  change (i ++ [c_colon; c_star]) with (i ++ [c_colon] ++ [c_star]).
  rewrite app_assoc.
  rewrite (glob_prefix_star (i ++ [c_colon]) _ (plain_app _ _ Hp plain_colon)). split.
  - intros [t E]. rewrite <- app_assoc in E. simpl in E.
    destruct (split_first_colon i' i v' t Hi' Hi E) as [E1 _]. exact E1.
  - intro E. subst i'. exists v'. rewrite <- app_assoc. reflexivity.
Qed.

(* *:version matches exactly the specifiers with that version *)
Theorem glob_star_version : forall v i' v', plain v -> no_colon v -> no_colon v' ->
    (glob ([c_star; c_colon] ++ v) (i' ++ [c_colon] ++ v') = true <-> v' = v).
Proof.
  intros v i' v' Hp Hv Hv'.
  change ([c_star; c_colon] ++ v) with (c_star :: (c_colon :: v)).
  assert (Hpc : plain (c_colon :: v)) by (apply (plain_app [c_colon] v plain_colon Hp)).
  rewrite (glob_star_suffix (c_colon :: v) _ Hpc). split.
  - intros [t E]. simpl in E.
    destruct (split_last_colon i' t v' v Hv' Hv E) as [_ E2]. exact E2.
  - intro E. subst v'. exists i'. reflexivity.
Qed.

(* id:version matches exactly that specifier *)
Theorem glob_id_version : forall i v i' v', plain i -> plain v -> no_colon i -> no_colon i' ->
    (glob (i ++ [c_colon] ++ v) (i' ++ [c_colon] ++ v') = true <-> (i' = i /\ v' = v)).
Proof.
  intros i v i' v' Hpi Hpv Hi Hi'.
  assert (Hp : plain (i ++ [c_colon] ++ v))
    by (apply plain_app; [exact Hpi | apply plain_app; [exact plain_colon | exact Hpv]]).
  rewrite (glob_literal _ _ Hp). split.
  - intro E. simpl in E. apply (split_first_colon i' i v' v Hi' Hi E).
  - intros [E1 E2]. subst. reflexivity.
Qed.

(* ------------------------------------------------------------------ *)
(* helpers: split_colon, select_one, latest                            *)
(* ------------------------------------------------------------------ *)
Lemma split_colon_some : forall s i v,
    split_colon s = Some (i, v) -> s = i ++ c_colon :: v /\ no_colon i.
Proof.
  induction s as [|c s IH]; intros i v H; simpl in H; [discriminate|].
  destruct (Z.eqb c c_colon) eqn:Ec.
  - injection H as Ei Ev. subst i v. apply Z.eqb_eq in Ec. subst c.
    split; reflexivity.
  - destruct (split_colon s) as [[a b]|] eqn:Es; [|discriminate].
    injection H as Ei Ev. subst i v. destruct (IH a b eq_refl) as [E Ha]. subst s.
    split; [reflexivity|]. apply no_colon_cons. split; assumption.
Qed.

Lemma split_colon_none : forall s, split_colon s = None -> zmem c_colon s = false.
Proof.
  induction s as [|c s IH]; intro H; simpl in H; [reflexivity|].
  destruct (Z.eqb c c_colon) eqn:Ec; [discriminate|].
  destruct (split_colon s) as [[a b]|] eqn:Es; [discriminate|].
  apply no_colon_cons. split; [exact Ec | apply IH; reflexivity].
Qed.

(* the pattern that select_one hands to GLOB *)
Definition pat_of (spec : str) : str :=
  if zmem c_colon spec then spec else spec ++ [c_colon; c_star].

Lemma select_one_nonbare : forall lexs lang spec,
    zmem c_colon spec = true \/ has_meta spec = true ->
    select_one lexs lang spec
    = filter (fun l => glob (pat_of spec) (spec_of l) && lang_ok lang l) lexs.
Proof.
  intros lexs lang spec H. unfold select_one, pat_of. cbv zeta.
  destruct H as [H | H]; rewrite H; simpl; [reflexivity|].
  rewrite andb_false_r. reflexivity.
Qed.

Lemma select_one_bare : forall lexs lang spec,
    zmem c_colon spec = false -> has_meta spec = false ->
    select_one lexs lang spec
    = latest (filter (fun l => glob (spec ++ [c_colon; c_star]) (spec_of l) && lang_ok lang l) lexs).
Proof.
  intros lexs lang spec Hc Hm. unfold select_one, latest. cbv zeta.
  rewrite Hc, Hm. reflexivity.
Qed.

Lemma latest_In : forall ls l, In l (latest ls) -> In l ls.
Proof.
  intros ls l H. unfold latest in H. destruct (rev ls) as [|r rs] eqn:E; [contradiction|].
  destruct H as [H | []]. subst r. apply in_rev. rewrite E. left. reflexivity.
Qed.

Lemma select_one_sub : forall lexs lang spec l,
    In l (select_one lexs lang spec) ->
    In l (filter (fun l => glob (pat_of spec) (spec_of l) && lang_ok lang l) lexs).
Proof.
  intros lexs lang spec l H. unfold select_one in H. cbv zeta in H. fold (pat_of spec) in H.
  destruct (negb (zmem c_colon spec) && negb (has_meta spec)).
  - apply latest_In. exact H.
  - exact H.
Qed.

Lemma latest_split : forall (f : lexrow -> bool) xs l,
    In l (latest (filter f xs)) ->
    f l = true /\ exists pre post, xs = pre ++ l :: post /\ forall r, In r post -> f r = false.
Proof.
  intros f xs. induction xs as [|x ys IH] using rev_ind; intros l H.
  - contradiction.
  - rewrite filter_app in H. simpl in H. destruct (f x) eqn:Ex.
    + unfold latest in H. rewrite rev_app_distr in H. simpl in H.
      destruct H as [H | []]. subst x. split; [exact Ex|].
      exists ys, []. split; [reflexivity|]. intros r [].
    + rewrite app_nil_r in H. destruct (IH l H) as [Hl [pre [post [E Hpost]]]].
      split; [exact Hl|]. exists pre, (post ++ [x]). split.
      * rewrite E. rewrite <- app_assoc. reflexivity.
      * intros r Hr. apply in_app_or in Hr. destruct Hr as [Hr | [Hr | []]].
        -- apply Hpost. exact Hr.
        -- subst r. exact Ex.
Qed.

Lemma glob_star_colon_star : forall l, glob [c_star; c_colon; c_star] (spec_of l) = true.
Proof.
  intro l. apply glob_star_iff. exists (lx_id l), ([c_colon] ++ lx_version l).
  split; [reflexivity|].
  apply (glob_prefix_star [c_colon] _ plain_colon). exists (lx_version l). reflexivity.
Qed.

(* documented_one, for every form except the bare id, selects exactly the rows
   whose specifier the pattern matches *)
Lemma documented_one_glob : forall lexs spec l,
    ids_plain lexs -> (zmem c_colon spec = true \/ has_meta spec = true) ->
    (In l (documented_one lexs spec) <-> In l lexs /\ glob (pat_of spec) (spec_of l) = true).
Proof.
  intros lexs spec l Hids Hnb. unfold documented_one.
  destruct (str_eqb spec [c_star]) eqn:Es.
  { apply str_eqb_eq in Es. subst spec.
    change (pat_of [c_star]) with [c_star; c_colon; c_star].
    rewrite glob_star_colon_star. tauto. }
  destruct (split_colon spec) as [[i v]|] eqn:Esc.
  - destruct (split_colon_some spec i v Esc) as [E Hi]. subst spec.
    assert (Hpat : pat_of (i ++ c_colon :: v) = i ++ [c_colon] ++ v).
    { unfold pat_of. rewrite colon_in_mid. reflexivity. }
    rewrite Hpat. unfold spec_of.
    destruct (negb (has_meta i) && negb (has_meta v) && negb (zmem c_colon v)) eqn:C1.
    { apply andb_true_iff in C1. destruct C1 as [C1 C1c].
      apply andb_true_iff in C1. destruct C1 as [C1i C1v].
      apply negb_true_iff in C1i, C1v, C1c.
      rewrite filter_In. split.
      - intros [Hin H]. split; [exact Hin|].
        apply andb_true_iff in H. destruct H as [H1 H2].
        apply str_eqb_eq in H1, H2. destruct (Hids l Hin) as [_ [Hnl _]].
        apply (glob_id_version i v (lx_id l) (lx_version l) C1i C1v Hi Hnl).
        split; assumption.
      - intros [Hin H]. split; [exact Hin|]. destruct (Hids l Hin) as [_ [Hnl _]].
        apply (glob_id_version i v (lx_id l) (lx_version l) C1i C1v Hi Hnl) in H.
        destruct H as [H1 H2]. rewrite H1, H2, !str_eqb_refl. reflexivity. }
    destruct (negb (has_meta i) && str_eqb v [c_star]) eqn:C2.
    { apply andb_true_iff in C2. destruct C2 as [C2i C2v].
      apply negb_true_iff in C2i. apply str_eqb_eq in C2v. subst v.
      change (i ++ [c_colon] ++ [c_star]) with (i ++ [c_colon; c_star]).
      rewrite filter_In. split.
      - intros [Hin H]. split; [exact Hin|]. apply str_eqb_eq in H.
        destruct (Hids l Hin) as [_ [Hnl _]].
        apply (glob_id_star i (lx_id l) (lx_version l) C2i Hnl Hi). exact H.
      - intros [Hin H]. split; [exact Hin|]. destruct (Hids l Hin) as [_ [Hnl _]].
        apply (glob_id_star i (lx_id l) (lx_version l) C2i Hnl Hi) in H.
        rewrite H. apply str_eqb_refl. }
    destruct (str_eqb i [c_star] && negb (has_meta v) && negb (zmem c_colon v)) eqn:C3.
    { apply andb_true_iff in C3. destruct C3 as [C3 C3c].
      apply andb_true_iff in C3. destruct C3 as [C3i C3v].
      apply negb_true_iff in C3v, C3c. apply str_eqb_eq in C3i. subst i.
      change ([c_star] ++ [c_colon] ++ v) with ([c_star; c_colon] ++ v).
      rewrite filter_In. split.
      - intros [Hin H]. split; [exact Hin|]. apply str_eqb_eq in H.
        destruct (Hids l Hin) as [_ [_ [_ Hnv]]].
        apply (glob_star_version v (lx_id l) (lx_version l) C3v C3c Hnv). exact H.
      - intros [Hin H]. split; [exact Hin|]. destruct (Hids l Hin) as [_ [_ [_ Hnv]]].
        apply (glob_star_version v (lx_id l) (lx_version l) C3v C3c Hnv) in H.
        rewrite H. apply str_eqb_refl. }
    rewrite filter_In. change (i ++ c_colon :: v) with (i ++ [c_colon] ++ v). tauto.
  - pose proof (split_colon_none spec Esc) as Hc.
    destruct Hnb as [Hnb | Hm]; [rewrite Hc in Hnb; discriminate|].
    rewrite Hm. unfold pat_of. rewrite Hc. rewrite filter_In. tauto.
Qed.

Lemma flat_map_nil : forall (A B : Type) (f : A -> list B) (xs : list A),
    flat_map f xs = [] <-> (forall x, In x xs -> f x = []).
Proof.
  intros A B f xs. induction xs as [|x xs IH]; simpl.
  - split; [intros _ y [] | reflexivity].
  - split.
    + intro H. apply app_eq_nil in H. destruct H as [H1 H2].
      intros y [Hy | Hy]; [subst y; exact H1 | apply IH; assumption].
    + intro H. rewrite (H x (or_introl eq_refl)). simpl. apply IH.
      intros y Hy. apply H. right. exact Hy.
Qed.

Lemma find_lexicons_some : forall lexs lexicon lang rows,
    find_lexicons lexs lexicon lang = Some rows ->
    rows = flat_map (select_one lexs lang) (split_ws lexicon).
Proof.
  intros lexs lexicon lang rows H. unfold find_lexicons in H. cbv zeta in H.
  destruct (flat_map (select_one lexs lang) (split_ws lexicon)) as [|r rs].
  - destruct (negb (str_eqb lexicon [c_star]) || match lang with Some _ => true | None => false end);
      [discriminate|]. injection H as H. symmetry. exact H.
  - injection H as H. symmetry. exact H.
Qed.

(* ------------------------------------------------------------------ *)
(* the selection equals the documented one, as sets                    *)
(* ------------------------------------------------------------------ *)
(* the clean form of select_one_documented: every specifier that is not a bare id *)
Theorem select_one_documented_nonbare : forall lexs lang spec l,
    ids_plain lexs -> (zmem c_colon spec = true \/ has_meta spec = true) ->
    (In l (select_one lexs lang spec) <->
     In l (filter (lang_ok lang) (documented_one lexs spec))).
Proof.
  intros lexs lang spec l Hids Hnb.
  rewrite (select_one_nonbare lexs lang spec Hnb), !filter_In.
  rewrite (documented_one_glob lexs spec l Hids Hnb), andb_true_iff. tauto.
Qed.

Theorem select_one_documented : forall lexs lang spec l,
    ids_plain lexs -> spec <> [] ->
    (In l (select_one lexs lang spec) <->
     In l (filter (lang_ok lang) (documented_one lexs spec)))
    \/ (* the only place where the language filter and "most recently added" interact *)
       (zmem c_colon spec = false /\ has_meta spec = false).
Proof.
  intros lexs lang spec l Hids _.
  destruct (zmem c_colon spec) eqn:Hc.
  - left. apply select_one_documented_nonbare; [exact Hids | left; exact Hc].
  - destruct (has_meta spec) eqn:Hm.
    + left. apply select_one_documented_nonbare; [exact Hids | right; exact Hm].
    + right. split; reflexivity.
Qed.

Theorem select_one_bare_id : forall lexs lang spec l,
    zmem c_colon spec = false -> has_meta spec = false -> ids_plain lexs ->
    (In l (select_one lexs lang spec) <->
     In l (latest (filter (fun r => str_eqb (lx_id r) spec && lang_ok lang r) lexs))).
Proof.
  intros lexs lang spec l Hc Hm Hids.
  rewrite (select_one_bare lexs lang spec Hc Hm).
  rewrite (filter_ext_in
             (fun r => glob (spec ++ [c_colon; c_star]) (spec_of r) && lang_ok lang r)
             (fun r => str_eqb (lx_id r) spec && lang_ok lang r) lexs).
  - tauto.
  - intros r Hr. f_equal. apply eq_true_iff_eq. destruct (Hids r Hr) as [_ [Hnr _]].
    unfold spec_of. rewrite (glob_id_star spec (lx_id r) (lx_version r) Hm Hnr Hc).
    apply iff_sym. apply str_eqb_eq.
Qed.

Theorem find_lexicons_documented : forall lexs lexicon lang rows l,
    ids_plain lexs ->
    (forall s, In s (split_ws lexicon) -> zmem c_colon s = true \/ has_meta s = true) ->
    find_lexicons lexs lexicon lang = Some rows ->
    (In l rows <-> In l (documented lexs lexicon lang)).
Proof.
  intros lexs lexicon lang rows l Hids Hnb Hf.
  rewrite (find_lexicons_some lexs lexicon lang rows Hf).
  unfold documented. rewrite filter_In, !in_flat_map. split.
  - intros [s [Hs Hl]].
    apply (select_one_documented_nonbare lexs lang s l Hids (Hnb s Hs)) in Hl.
    apply filter_In in Hl. destruct Hl as [Hl Hlang].
    split; [exists s; split; assumption | exact Hlang].
  - intros [[s [Hs Hl]] Hlang]. exists s. split; [exact Hs|].
    apply (select_one_documented_nonbare lexs lang s l Hids (Hnb s Hs)).
    apply filter_In. split; assumption.
Qed.

(* ------------------------------------------------------------------ *)
(* never a lexicon that no specifier matches; errors                   *)
(* ------------------------------------------------------------------ *)
Theorem find_lexicons_matched : forall lexs lexicon lang rows l,
    find_lexicons lexs lexicon lang = Some rows -> In l rows ->
    In l lexs /\ lang_ok lang l = true
    /\ exists s, In s (split_ws lexicon)
                 /\ glob (if zmem c_colon s then s else s ++ [c_colon; c_star]) (spec_of l) = true.
Proof.
  intros lexs lexicon lang rows l Hf Hl.
  rewrite (find_lexicons_some lexs lexicon lang rows Hf) in Hl.
  apply in_flat_map in Hl. destruct Hl as [s [Hs Hl]].
  apply select_one_sub in Hl. apply filter_In in Hl. destruct Hl as [Hin H].
  apply andb_true_iff in H. destruct H as [Hg Hlang].
  split; [exact Hin|]. split; [exact Hlang|]. exists s. split; [exact Hs | exact Hg].
Qed.

Theorem find_lexicons_error_iff : forall lexs lexicon lang,
    find_lexicons lexs lexicon lang = None <->
    ((forall s, In s (split_ws lexicon) -> select_one lexs lang s = [])
     /\ (lexicon <> [c_star] \/ lang <> None)).
Proof.
  intros lexs lexicon lang. rewrite <- flat_map_nil.
  unfold find_lexicons. cbv zeta.
  destruct (flat_map (select_one lexs lang) (split_ws lexicon)) as [|r rs].
  - destruct (str_eqb lexicon [c_star]) eqn:Es.
    + apply str_eqb_eq in Es. destruct lang as [g|]; simpl.
      * split; [|reflexivity]. intros _. split; [reflexivity|]. right. discriminate.
      * split; [discriminate|]. intros [_ [H | H]]; contradiction.
    + simpl. split; [|reflexivity]. intros _. split; [reflexivity|]. left.
      intro E. subst lexicon. rewrite str_eqb_refl in Es. discriminate.
  - split; [discriminate|]. intros [H _]. discriminate.
Qed.

Theorem wn_lexicons_never_fails : forall lexs lexicon lang,
    wordnet_lexicons lexs lexicon lang = None -> wn_lexicons lexs lexicon lang = [].
Proof.
  intros lexs lexicon lang H. unfold wn_lexicons. rewrite H. reflexivity.
Qed.

(* the most recently added lexicon with an id: the last row with that id *)
Theorem bare_id_is_latest : forall lexs spec l,
    zmem c_colon spec = false -> has_meta spec = false -> ids_plain lexs ->
    In l (select_one lexs None spec) ->
    lx_id l = spec /\ forall l', In l' lexs -> lx_id l' = spec ->
      exists pre post, lexs = pre ++ l :: post /\ ~ (exists r, In r post /\ lx_id r = spec).
Proof.
  intros lexs spec l Hc Hm Hids Hl.
  apply (select_one_bare_id lexs None spec l Hc Hm Hids) in Hl.
  apply latest_split in Hl. destruct Hl as [Hfl [pre [post [E Hpost]]]].
  simpl in Hfl. rewrite andb_true_r in Hfl. apply str_eqb_eq in Hfl.
  split; [exact Hfl|]. intros l' _ _. exists pre, post. split; [exact E|].
  intros [r [Hr Hid]]. specialize (Hpost r Hr). simpl in Hpost.
  rewrite andb_true_r in Hpost. rewrite Hid, str_eqb_refl in Hpost. discriminate.
Qed.

Print Assumptions glob_literal.
Print Assumptions glob_star_all.
Print Assumptions glob_prefix_star.
Print Assumptions glob_star_suffix.
Print Assumptions glob_id_star.
Print Assumptions glob_star_version.
Print Assumptions glob_id_version.
Print Assumptions select_one_documented_nonbare.
Print Assumptions select_one_documented.
Print Assumptions select_one_bare_id.
Print Assumptions find_lexicons_documented.
Print Assumptions find_lexicons_matched.
Print Assumptions find_lexicons_error_iff.
Print Assumptions wn_lexicons_never_fails.
Print Assumptions bare_id_is_latest.
