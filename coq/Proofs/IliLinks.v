(* Proofs/IliLinks.v — adding an ILI index leaves the links from synsets to ILIs, the proposed ILIs
   and all the lexicon content as they were (property C19). *)
From Coq Require Import ZArith List Bool Lia.
Import ListNotations.
Require Import WnV.Base.Sx WnV.Gen.Schema WnV.Gen.Constants WnV.Model.Spec WnV.Model.Val.
Require Import WnV.Model.Rel WnV.Model.Add.
Require Import WnV.Proofs.AddProofs WnV.Proofs.AddRemove.
From Coq Require Import String.
Import ListNotations.
Local Open Scope Z_scope.
Local Open Scope string_scope.

(* in a well-formed ilis table a rowid identifies its row *)
Lemma ilis_ok_rowid_unique : forall T r1 r2,
    ilis_ok T = true -> In r1 T -> In r2 T -> rowid_of r1 = rowid_of r2 -> r1 = r2.
Proof.
  induction T as [|a T IH]; intros r1 r2 Hok H1 H2 E; [destruct H1|].
  simpl in Hok. apply andb_true_iff in Hok. destruct Hok as [Hok H3].
  apply andb_true_iff in Hok. destruct Hok as [_ Hd]. rewrite forallb_forall in Hd.
  assert (forall r, In r T -> rowid_of a = rowid_of r -> False) as Hno.
  { intros r Hr Er. specialize (Hd r Hr). apply andb_true_iff in Hd. destruct Hd as [Hd _].
    rewrite Er, Z.eqb_refl in Hd. discriminate. }
  destruct H1 as [<-|H1]; destruct H2 as [<-|H2].
  - reflexivity.
  - exfalso. eapply Hno; eassumption.
  - exfalso. eapply Hno; [exact H1|symmetry; exact E].
  - eapply IH; eassumption.
Qed.

(* (G1) the synsets table is unchanged, and every ILI row that a synset points to is still there,
   with the same rowid and the same id (only its status and definition may have changed) *)
Theorem synset_keeps_ili : forall d lines d',
    ilis_ok (get_table d "ilis") = true -> add_ili d lines = Ok d' ->
    forall r, In r (get_table d "synsets") ->
      In r (get_table d' "synsets")
      /\ forall k i, col "synsets" "ili_rowid" r = CInt k ->
           (exists ir, In ir (get_table d "ilis") /\ rowid_of ir = k /\ col "ilis" "id" ir = CText i) ->
           (exists ir', In ir' (get_table d' "ilis") /\ rowid_of ir' = k /\ col "ilis" "id" ir' = CText i
                        /\ col "ilis" "metadata" ir' = col "ilis" "metadata"
                             (match find (fun x => Z.eqb (rowid_of x) k) (get_table d "ilis") with
                              | Some x => x | None => [] end))
           (* and it is the only ILI row with that rowid: the synset points to no other id *)
           /\ (forall ir', In ir' (get_table d' "ilis") -> rowid_of ir' = k -> col "ilis" "id" ir' = CText i).
Proof.
  intros d lines d' Hok H r Hr.
  split; [rewrite (add_ili_touches_only_ili_tables d lines d' H "synsets") by discriminate; exact Hr|].
  intros k i _ (ir & Hir & Hk & Hid).
  destruct (add_ili_char d lines d' Hok H) as (infos & l & Hl & _ & _).
  destruct (add_ili_unlisted d lines d' infos Hok H Hl) as (f & news & E & Hcells & Hrow & _ & _).
  pose proof (add_ili_ilis_ok d lines d' Hok H) as Hok'.
  assert (In (f ir) (get_table d' "ilis")) as Hin by (rewrite E; apply in_or_app; left; apply in_map; exact Hir).
  assert (rowid_of (f ir) = k) as Hk' by (rewrite (proj1 (Hrow ir)); exact Hk).
  assert (col "ilis" "id" (f ir) = CText i) as Hid'.
  { unfold col in *. rewrite Hcells; [exact Hid| |]; vm_compute; discriminate. }
  split.
  - exists (f ir). split; [exact Hin|]. split; [exact Hk'|]. split; [exact Hid'|].
    assert (find (fun x => Z.eqb (rowid_of x) k) (get_table d "ilis") = Some ir) as ->.
    { destruct (find (fun x => Z.eqb (rowid_of x) k) (get_table d "ilis")) as [x|] eqn:Ef.
      - apply find_some in Ef. destruct Ef as [Hx Ex]. apply Z.eqb_eq in Ex. f_equal.
        apply (ilis_ok_rowid_unique _ _ _ Hok Hx Hir). congruence.
      - pose proof (find_none _ _ Ef ir Hir) as Hf. cbv beta in Hf. rewrite Hk, Z.eqb_refl in Hf. discriminate. }
    unfold col. apply Hcells; vm_compute; discriminate.
  - intros ir' Hir' Hk''. rewrite (ilis_ok_rowid_unique _ _ _ Hok' Hir' Hin); [exact Hid'|congruence].
Qed.

(* (G2) proposed ILIs and all the lexicon content: every table other than ilis and ili_statuses *)
Example ili_tables_are_lookup_tables :
  existsb (String.eqb "ilis") content_tables = false /\ existsb (String.eqb "ili_statuses") content_tables = false
  /\ existsb (String.eqb "proposed_ilis") content_tables = true.
Proof. vm_compute. repeat split. Qed.
Theorem lexicon_content_unchanged : forall d lines d',
    add_ili d lines = Ok d' -> forall t, In t content_tables -> get_table d' t = get_table d t.
Proof.
  intros d lines d' H t Ht. unfold content_tables in Ht. simpl in Ht.
  repeat (destruct Ht as [<-|Ht]); try contradiction;
    apply (add_ili_touches_only_ili_tables d lines d' H); discriminate.
Qed.
Corollary proposed_ilis_unchanged : forall d lines d',
    add_ili d lines = Ok d' -> get_table d' "proposed_ilis" = get_table d "proposed_ilis".
Proof. intros d lines d' H. apply (add_ili_touches_only_ili_tables d lines d' H); discriminate. Qed.
(* the two remaining lookup tables are not touched either *)
Corollary other_lookup_tables_unchanged : forall d lines d',
    add_ili d lines = Ok d' ->
    get_table d' "relation_types" = get_table d "relation_types"
    /\ get_table d' "lexfiles" = get_table d "lexfiles".
Proof. intros d lines d' H. split; apply (add_ili_touches_only_ili_tables d lines d' H); discriminate. Qed.

(* (G3) on the example database: both synsets of ex_db2 point to ILI rowid 1 (i1); an index file gives i1
   a new status and definition *)
Definition ex_lines3 : list (list str) :=
  [[k "ili"; k "status"; k "definition"]; [k "i1"; k "retired"; k "a new definition"]; [k "i77"; k "active"]].
Example ex_ili_links :
  ilis_ok (get_table ex_db2 "ilis") = true
  /\ match add_ili ex_db2 ex_lines3 with
     | Ok d' =>
         map (col "synsets" "ili_rowid") (get_table ex_db2 "synsets") = [CInt 1; CInt 1]
         /\ get_table d' "synsets" = get_table ex_db2 "synsets"
         /\ hd [] (get_table ex_db2 "ilis") = [CInt 1; CText (k "i1"); CInt 2; CText (k "changed"); CNull]
         /\ hd [] (get_table d' "ilis") = [CInt 1; CText (k "i1"); CInt 4; CText (k "a new definition"); CNull]
         /\ map (fun r => (rowid_of r, col "ili_statuses" "status" r)) (get_table d' "ili_statuses")
            = [(1, CText (k "active")); (2, CText (k "deprecated")); (3, CText (k "weird")); (4, CText (k "retired"))]
         /\ List.length (get_table d' "ilis") = 5%nat
         /\ forallb (fun t => sx_eqb (sx_of_db [(tn t, get_table d' t)]) (sx_of_db [(tn t, get_table ex_db2 t)]))
                    content_tables = true
     | _ => False
     end.
Proof. vm_compute. repeat split. Qed.

Print Assumptions synset_keeps_ili.
Print Assumptions lexicon_content_unchanged.
Print Assumptions proposed_ilis_unchanged.
