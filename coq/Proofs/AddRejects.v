(* Proofs/AddRejects.v — faulty documents are rejected by add (properties C06 / C18):
   an unresolvable synset (E204), an unresolvable relation target (E401), a duplicate entry id.
   [add_lexical_resource] returns no database on an error (by its type), so "unchanged" needs no proof;
   what is proved here is that these faults DO make the model return an error. *)
From Coq Require Import ZArith List Bool Lia.
Import ListNotations.
Require Import WnV.Base.Sx WnV.Gen.Schema WnV.Gen.Constants WnV.Model.Spec WnV.Model.Val.
Require Import WnV.Model.Rel WnV.Model.Add.
Require Import WnV.Proofs.AddProofs WnV.Proofs.AddContent WnV.Proofs.AddRemove.
From Coq Require Import String.
Import ListNotations.
Local Open Scope Z_scope.
Local Open Scope string_scope.

(* ====================================================================== *)
(* NOT NULL, cell by cell                                                  *)
(* ====================================================================== *)
Lemma checks_nth : forall t cols vals k c,
    row_checks_ok t cols vals = true -> nth_error cols k = Some c -> col_notnull c = true ->
    exists v, nth_error vals k = Some v /\ is_null v = false.
Proof.
  intros t cols. induction cols as [|c0 cols IH]; intros vals k c H Hk Hn; [destruct k; simpl in Hk; discriminate|].
  destruct vals as [|v0 vals]; [simpl in H; discriminate|]. simpl in H.
  apply andb_true_iff in H. destruct H as [H Hrest]. apply andb_true_iff in H. destruct H as [H1 _].
  destruct k as [|k]; simpl in Hk.
  - injection Hk as ->. exists v0. split; [reflexivity|]. rewrite Hn in H1. simpl in H1.
    apply negb_true_iff in H1. exact H1.
  - simpl. eapply IH; eassumption.
Qed.

Lemma In_enumerate : forall {T} (l : list T) x n, In x l -> exists i, In (i, x) (enumerate_from n l).
Proof.
  intros T l. induction l as [|a l IH]; intros x n H; [destruct H|]. simpl. destruct H as [->|H].
  - exists n. left. reflexivity.
  - destruct (IH x (n + 1) H) as [i Hi]. exists i. right. exact Hi.
Qed.

(* ====================================================================== *)
(* Looking up a synset that the document does not define                   *)
(* ====================================================================== *)
(* the synset id [yc] is the id of a local synset of L *)
Definition synset_defined (L : val) (yc : cell) : bool :=
  existsb (fun ss => sql_eq (as_text (pcell (preq ss "id"))) (as_text yc)) (_local_synsets (_synsets L)).
(* ... or of a synset already in the database *)
Definition synset_in_db (d : db) (yc : cell) : bool :=
  existsb (fun r => sql_eq (cell_at 1 r) (as_text yc)) (get_table d "synsets").

Lemma lookup_undefined : forall d d' L lexid yc lid,
    App "synsets" d d' (map (synset_row d' lexid) (_local_synsets (_synsets L))) ->
    synset_defined L yc = false ->
    (forall r, In r (get_table d "synsets") ->
               sql_eq (cell_at 1 r) (as_text yc) && sql_eq (cell_at 2 r) lid = false) ->
    SYNSET_QUERY d' yc lid = CNull.
Proof.
  intros d d' L lexid yc lid HA Hdef Hold. unfold SYNSET_QUERY. cbv zeta. unfold select_rowid.
  match goal with |- match find ?p ?T with _ => _ end = _ => destruct (find p T) as [r|] eqn:Ef end; [|reflexivity].
  exfalso. apply find_some in Ef. destruct Ef as [Hr Hp].
  change (col_index "synsets" "id") with 1%nat in Hp. change (col_index "synsets" "lexicon_rowid") with 2%nat in Hp.
  unfold App in HA. rewrite HA in Hr. apply in_app_or in Hr. destruct Hr as [Hr|Hr].
  - rewrite (Hold r Hr) in Hp. discriminate.
  - apply in_number_from_inv in Hr. destruct Hr as (k0 & vs & -> & Hvs). apply in_map_iff in Hvs.
    destruct Hvs as [ss [<- Hss]]. destruct (synset_row_key d' lexid ss k0) as [K1 _]. rewrite K1 in Hp.
    apply andb_true_iff in Hp. destruct Hp as [Hp _].
    unfold synset_defined in Hdef. pose proof (existsb_false_forall _ _ Hdef ss Hss) as Hf. cbv beta in Hf.
    unfold as_text in Hf at 1. congruence.
Qed.

(* ====================================================================== *)
(* (F1) a sense naming a synset that nothing defines (E204)                *)
(* ====================================================================== *)
Lemma sense_row_synset_cell : forall d lexid m sr e i s,
    nth_error (sense_row d lexid m sr e (i, s)) 4
    = Some (coerce "INTEGER" (SYNSET_QUERY d (pcell (preq s "synset"))
                                           (lexidmap_get m (pv (vreq s "synset")) lexid))).
Proof. reflexivity. Qed.

Lemma sense_synset_found_gen : forall (L : val) d d' lexid m sr e s,
    Wf d' ->
    App "senses" d d' (flat_map (entry_sense_rows d' lexid m sr) (_entries L)) ->
    In e (_entries L) -> In s (_local_senses (_senses e)) ->
    SYNSET_QUERY d' (pcell (preq s "synset")) (lexidmap_get m (pv (vreq s "synset")) lexid) <> CNull.
Proof.
  intros L d d' lexid m sr e s Hwf' HA He Hs.
  destruct (In_enumerate _ s 0 Hs) as [i Hi].
  assert (In (sense_row d' lexid m sr e (i, s)) (flat_map (entry_sense_rows d' lexid m sr) (_entries L))) as Hvs.
  { apply in_flat_map. exists e. split; [exact He|]. unfold entry_sense_rows. apply in_map. exact Hi. }
  destruct (In_number_from _ _ (next_rowid (get_table d "senses")) Hvs) as [k0 Hk0].
  assert (In (CInt k0 :: sense_row d' lexid m sr e (i, s)) (get_table d' "senses")) as Hin
      by (unfold App in HA; rewrite HA; apply in_or_app; right; exact Hk0).
  destruct (in_schema "senses" eq_refl) as (cols & fks & uqs & Hsch).
  pose proof (Wf_cell_notnull _ _ _ _ _ _ Hwf' Hsch Hin) as Hc. cbn [tl] in Hc.
  destruct (checks_nth _ _ _ 4 ("synset_rowid", "INTEGER", true, false) Hc eq_refl eq_refl) as [v [Hv Hnn]].
  rewrite sense_row_synset_cell in Hv. injection Hv as <-. rewrite coerce_int_id in Hnn.
  intro E. rewrite E in Hnn. discriminate.
Qed.
Lemma sense_synset_found : forall nt L d d' e s,
    Wf d -> add_one_lexicon nt L d = Ok d' ->
    In e (_entries L) -> In s (_local_senses (_senses e)) ->
    exists lexid extid m,
      lexid = next_rowid (get_table d "lexicons") /\ _build_lexid_map L lexid extid = Ok m
      /\ SYNSET_QUERY d' (pcell (preq s "synset")) (lexidmap_get m (pv (vreq s "synset")) lexid) <> CNull.
Proof.
  intros nt L d d' e s Hwf H He Hs. pose proof (Wf_add_one_lexicon _ _ _ _ Hwf H) as Hwf'.
  destruct (one_lexicon_senses _ _ _ _ H) as (lexid & extid & m & Hlex & Hm & HA).
  exists lexid, extid, m. split; [exact Hlex|]. split; [exact Hm|].
  eapply sense_synset_found_gen; eassumption.
Qed.

Theorem unknown_synset_rejected : forall nt L d e s,
    Wf d -> In e (_entries L) -> In s (_local_senses (_senses e)) ->
    synset_defined L (pcell (preq s "synset")) = false ->        (* not a local synset of L *)
    synset_in_db d (pcell (preq s "synset")) = false ->          (* nor the id of any synset of d *)
    forall d', add_one_lexicon nt L d <> Ok d'.
Proof.
  intros nt L d e s Hwf He Hs Hdef Hdb d' H.
  destruct (sense_synset_found nt L d d' e s Hwf H He Hs) as (lexid & extid & m & Hlex & _ & Hnn).
  apply Hnn. destruct (one_lexicon_synsets _ _ _ _ H) as [HA _]. cbv zeta in HA. rewrite <- Hlex in HA.
  eapply lookup_undefined; [exact HA|exact Hdef|].
  intros r Hr. unfold synset_in_db in Hdb. rewrite (existsb_false_forall _ _ Hdb r Hr). reflexivity.
Qed.

(* for a lexicon that is not an extension the lookups are restricted to the new lexicon:
   a synset of another lexicon with the same id does not help *)
Lemma nonext_senses : forall nt L d d',
    add_one_lexicon nt L d = Ok d' -> vtruthy (vgetk L "extends") = false ->
    App "senses" d d'
        (flat_map (entry_sense_rows d' (next_rowid (get_table d "lexicons")) [] (ssrank_of (_synsets L)))
                  (_entries L)).
Proof.
  intros nt L d d' H Hne. one_inv H.
  destruct (app_insert_lexicon _ _ _ _ _ H2) as [_ Hlex].
  pose proof (insert_lexicon_nonext _ _ _ _ _ H2 Hne) as ->.
  apply build_lexid_map_same in Hm. subst m.
  destruct (ins_insert_senses _ _ _ _ _ _ H8) as [HA _]. oc_facts.
  assert (lexid = next_rowid (get_table d "lexicons")) as <- by (rewrite Hlex; tbl_eq "lexicons"; reflexivity).
  rewrite (flat_map_ext _ (entry_sense_rows d7 lexid [] (ssrank_of (_synsets L)))).
  - unfold App in *. tbl_eq "senses". rewrite HA. tbl_eq "senses". reflexivity.
  - intro e. apply entry_sense_rows_ext; [tbl_eq "entries"|tbl_eq "synsets"]; reflexivity.
Qed.

(* the synsets of d belong to lexicons of d: none has the fresh lexicon rowid *)
Lemma old_synsets_other_lexicon : forall d r,
    fk_ok d = true -> In r (get_table d "synsets") ->
    sql_eq (cell_at 2 r) (CInt (next_rowid (get_table d "lexicons"))) = false.
Proof.
  intros d r Hok Hr. destruct (in_schema "synsets" eq_refl) as (cols & fks & uqs & Hsch).
  assert (In ("lexicon_rowid", "lexicons", "rowid", "CASCADE") fks) as Hfk
      by (rewrite <- (schema_find_in _ _ _ _ Hsch); in_concrete).
  rewrite fk_ok_iff in Hok. specialize (Hok _ _ _ _ Hsch _ _ _ _ Hfk r Hr). unfold col in Hok.
  change (col_index "synsets" "lexicon_rowid") with 2%nat in Hok.
  destruct (cell_at 2 r) as [|n|s|v]; try reflexivity. simpl in Hok. apply zmem_z_In in Hok.
  unfold rowids in Hok. apply in_map_iff in Hok. destruct Hok as [r0 [E Hr0]].
  pose proof (next_rowid_fresh _ _ Hr0) as Hf. simpl. apply Z.eqb_neq. lia.
Qed.

Theorem unknown_synset_rejected_nonext : forall nt L d e s,
    fk_ok d = true -> Wf d -> vtruthy (vgetk L "extends") = false ->
    In e (_entries L) -> In s (_local_senses (_senses e)) ->
    synset_defined L (pcell (preq s "synset")) = false ->
    forall d', add_one_lexicon nt L d <> Ok d'.
Proof.
  intros nt L d e s Hok Hwf Hne He Hs Hdef d' H.
  pose proof (Wf_add_one_lexicon _ _ _ _ Hwf H) as Hwf'.
  apply (sense_synset_found_gen L d d' _ [] _ e s Hwf' (nonext_senses _ _ _ _ H Hne) He Hs).
  change (lexidmap_get [] (pv (vreq s "synset")) (next_rowid (get_table d "lexicons")))
    with (CInt (next_rowid (get_table d "lexicons"))).
  destruct (one_lexicon_synsets _ _ _ _ H) as [HA _]. cbv zeta in HA.
  eapply lookup_undefined; [exact HA|exact Hdef|].
  intros r Hr. rewrite (old_synsets_other_lexicon d r Hok Hr). apply andb_false_r.
Qed.

(* ====================================================================== *)
(* (F2) relation targets that nothing defines (E401)                       *)
(* ====================================================================== *)
(* ---------- synset relations: NOT NULL on synset_relations.target_rowid ---------- *)
Lemma synset_relation_target_cell : forall d lexid m ss rel,
    nth_error (synset_relation_row d lexid m ss rel) 2
    = Some (coerce "INTEGER" (SYNSET_QUERY d (pcell (preq rel "target"))
                                           (lexidmap_get m (pv (vreq rel "target")) lexid))).
Proof. reflexivity. Qed.

Lemma synset_relation_target_found : forall (L : val) d d' lexid m ss rel,
    Wf d' ->
    App "synset_relations" d d' (flat_map (synset_relation_rows d' lexid m) (_synsets L)) ->
    In ss (_synsets L) -> In rel (vlistk ss "relations") ->
    SYNSET_QUERY d' (pcell (preq rel "target")) (lexidmap_get m (pv (vreq rel "target")) lexid) <> CNull.
Proof.
  intros L d d' lexid m ss rel Hwf' HA Hss Hrel.
  assert (In (synset_relation_row d' lexid m ss rel) (flat_map (synset_relation_rows d' lexid m) (_synsets L))) as Hvs.
  { apply in_flat_map. exists ss. split; [exact Hss|]. unfold synset_relation_rows. apply in_map. exact Hrel. }
  destruct (In_number_from _ _ (next_rowid (get_table d "synset_relations")) Hvs) as [k0 Hk0].
  assert (In (CInt k0 :: synset_relation_row d' lexid m ss rel) (get_table d' "synset_relations")) as Hin
      by (unfold App in HA; rewrite HA; apply in_or_app; right; exact Hk0).
  destruct (in_schema "synset_relations" eq_refl) as (cols & fks & uqs & Hsch).
  pose proof (Wf_cell_notnull _ _ _ _ _ _ Hwf' Hsch Hin) as Hc. cbn [tl] in Hc.
  destruct (checks_nth _ _ _ 2 ("target_rowid", "INTEGER", true, false) Hc eq_refl eq_refl) as [v [Hv Hnn]].
  rewrite synset_relation_target_cell in Hv. injection Hv as <-. rewrite coerce_int_id in Hnn.
  intro E. rewrite E in Hnn. discriminate.
Qed.

Theorem unknown_synset_relation_target_rejected : forall nt L d ss rel,
    Wf d -> In ss (_synsets L) -> In rel (vlistk ss "relations") ->
    synset_defined L (pcell (preq rel "target")) = false ->
    synset_in_db d (pcell (preq rel "target")) = false ->
    forall d', add_one_lexicon nt L d <> Ok d'.
Proof.
  intros nt L d ss rel Hwf Hss Hrel Hdef Hdb d' H.
  pose proof (Wf_add_one_lexicon _ _ _ _ Hwf H) as Hwf'.
  destruct (one_lexicon_children _ _ _ _ H)
    as (lexid & extid & m & sb & Hlex & _ & _ & _ & _ & _ & _ & _ & Asr & _).
  apply (synset_relation_target_found L d d' lexid m ss rel Hwf' Asr Hss Hrel).
  destruct (one_lexicon_synsets _ _ _ _ H) as [HA _]. cbv zeta in HA. rewrite <- Hlex in HA.
  eapply lookup_undefined; [exact HA|exact Hdef|].
  intros r Hr. unfold synset_in_db in Hdb. rewrite (existsb_false_forall _ _ Hdb r Hr). reflexivity.
Qed.

Lemma nonext_synset_relations : forall nt L d d',
    add_one_lexicon nt L d = Ok d' -> vtruthy (vgetk L "extends") = false ->
    App "synset_relations" d d'
        (flat_map (synset_relation_rows d' (next_rowid (get_table d "lexicons")) []) (_synsets L)).
Proof.
  intros nt L d d' H Hne. one_inv H.
  destruct (app_insert_lexicon _ _ _ _ _ H2) as [_ Hlex].
  pose proof (insert_lexicon_nonext _ _ _ _ _ H2 Hne) as ->.
  apply build_lexid_map_same in Hm. subst m.
  destruct (ins_insert_synset_relations _ _ _ _ _ H12) as [HA _]. oc_facts.
  assert (lexid = next_rowid (get_table d "lexicons")) as <- by (rewrite Hlex; tbl_eq "lexicons"; reflexivity).
  rewrite (flat_map_ext _ (synset_relation_rows d11 lexid [])).
  - unfold App in *. tbl_eq "synset_relations". rewrite HA. tbl_eq "synset_relations". reflexivity.
  - intro s. unfold synset_relation_rows. apply map_ext. intro rel.
    apply synset_relation_row_ext; [tbl_eq "synsets"|tbl_eq "relation_types"]; reflexivity.
Qed.
Theorem unknown_synset_relation_target_rejected_nonext : forall nt L d ss rel,
    fk_ok d = true -> Wf d -> vtruthy (vgetk L "extends") = false ->
    In ss (_synsets L) -> In rel (vlistk ss "relations") ->
    synset_defined L (pcell (preq rel "target")) = false ->
    forall d', add_one_lexicon nt L d <> Ok d'.
Proof.
  intros nt L d ss rel Hok Hwf Hne Hss Hrel Hdef d' H.
  pose proof (Wf_add_one_lexicon _ _ _ _ Hwf H) as Hwf'.
  apply (synset_relation_target_found L d d' _ [] ss rel Hwf' (nonext_synset_relations _ _ _ _ H Hne) Hss Hrel).
  change (lexidmap_get [] (pv (vreq rel "target")) (next_rowid (get_table d "lexicons")))
    with (CInt (next_rowid (get_table d "lexicons"))).
  destruct (one_lexicon_synsets _ _ _ _ H) as [HA _]. cbv zeta in HA.
  eapply lookup_undefined; [exact HA|exact Hdef|].
  intros r Hr. rewrite (old_synsets_other_lexicon d r Hok Hr). apply andb_false_r.
Qed.

(* ---------- sense relations: wn.Error "relation target is not a known sense or synset" ---------- *)
Definition synset_ids_of (L : val) : list val :=
  match mapM (fun ss => vreq ss "id") (_synsets L) with Ok l => l | _ => [] end.
(* the target is the id of a sense or of a synset of the document (local or external) *)
Definition target_known (L : val) (tg : val) : bool :=
  existsb (val_eqb tg) (sense_ids_of L) || existsb (val_eqb tg) (synset_ids_of L).

Lemma classify_rels_known : forall lexid m sids ssids sid slid rels acc acc',
    foldM (classify_rel lexid m sids ssids sid slid) rels acc = Ok acc' ->
    forall r tg, In r rels -> vreq r "target" = Ok tg ->
                 existsb (val_eqb tg) sids || existsb (val_eqb tg) ssids = true.
Proof.
  intros lexid m sids ssids sid slid rels. induction rels as [|r0 rels IH]; intros acc acc' H r tg Hr Htg.
  - destruct Hr.
  - simpl in H. apply bind_ok in H. destruct H as [acc1 [H1 H2]]. destruct Hr as [<-|Hr].
    + unfold classify_rel in H1. rewrite Htg in H1. cbn [bind] in H1. cbv zeta in H1.
      destruct (existsb (val_eqb tg) sids); [reflexivity|].
      destruct (existsb (val_eqb tg) ssids); [reflexivity|discriminate].
    + eapply IH; eassumption.
Qed.

Theorem unknown_sense_relation_target_rejected : forall L e s rel tg,
    In e (_entries L) -> In s (_senses e) -> In rel (vlistk s "relations") ->
    vreq rel "target" = Ok tg -> target_known L tg = false ->
    forall lexid m d d', _insert_sense_relations L lexid m d <> Ok d'.
Proof.
  intros L e s rel tg He Hs Hrel Htg Hunk lexid m d d' H.
  unfold _insert_sense_relations in H. cbv zeta in H.
  apply bind_ok in H. destruct H as [ssids [Hss H]]. apply bind_ok in H. destruct H as [sids [Hsi H]].
  apply bind_ok in H. destruct H as [[s_s s_ss] [Hcl _]].
  assert (sense_ids_of L = sids) as Es by (unfold sense_ids_of; rewrite Hsi; reflexivity).
  assert (synset_ids_of L = ssids) as Ess by (unfold synset_ids_of; rewrite Hss; reflexivity).
  unfold target_known in Hunk. rewrite Es, Ess in Hunk.
  assert (forall es acc acc',
             foldM (fun (acc : list senserel * list senserel) entry =>
                      foldM (fun (acc : list senserel * list senserel) sense =>
                               sid <- vreq sense "id" ;;
                               let slid := lexidmap_get m sid lexid in
                               foldM (classify_rel lexid m sids ssids sid slid) (vlistk sense "relations") acc)
                            (_senses entry) acc) es acc = Ok acc' ->
             In e es -> existsb (val_eqb tg) sids || existsb (val_eqb tg) ssids = true) as Hgen.
  { induction es as [|e0 es IHe]; intros acc acc' Hf Hin; [destruct Hin|].
    simpl in Hf. apply bind_ok in Hf. destruct Hf as [acc1 [He0 Hf]].
    destruct Hin as [->|Hin]; [|eapply IHe; eassumption].
    clear - He0 Hs Hrel Htg. revert acc acc1 He0 Hs. generalize (_senses e) as ss.
    induction ss as [|s0 ss IHs]; intros acc acc1 He0 Hs; [destruct Hs|].
    simpl in He0. apply bind_ok in He0. destruct He0 as [acc2 [Hs0 He0]].
    destruct Hs as [->|Hs]; [|eapply IHs; eassumption].
    apply bind_ok in Hs0. destruct Hs0 as [sid [_ Hs0]]. cbv zeta in Hs0.
    eapply classify_rels_known; eassumption. }
  rewrite (Hgen _ _ _ Hcl He) in Hunk. discriminate.
Qed.

Corollary unknown_sense_relation_target_rejected_add : forall nt L d e s rel tg,
    In e (_entries L) -> In s (_senses e) -> In rel (vlistk s "relations") ->
    vreq rel "target" = Ok tg -> target_known L tg = false ->
    forall d', add_one_lexicon nt L d <> Ok d'.
Proof.
  intros nt L d e s rel tg He Hs Hrel Htg Hunk d' H. one_inv H.
  exact (unknown_sense_relation_target_rejected L e s rel tg He Hs Hrel Htg Hunk _ _ _ _ H13).
Qed.

(* ====================================================================== *)
(* (F3) duplicate identifiers: the UNIQUE indexes                          *)
(* ====================================================================== *)
(* the rows of a table satisfy its UNIQUE constraints: each row, when it came, conflicted with none before *)
Inductive Uq (t : string) : table -> Prop :=
| Uq_nil : Uq t []
| Uq_snoc : forall rows r, Uq t rows -> unique_conflict t rows r = false -> Uq t (rows ++ [r])%list.
Definition UqDb (d : db) : Prop :=
  forall t cols fks uqs, In (t, cols, fks, uqs) schema -> Uq t (get_table d t).

Lemma Uq_no_uniques : forall t rows, table_uniques t = [] -> Uq t rows.
Proof.
  intros t rows H. induction rows as [|r rows IH] using rev_ind; [constructor|].
  constructor; [exact IH|]. unfold unique_conflict. rewrite H. reflexivity.
Qed.

(* two rows at different positions never agree on a UNIQUE key *)
Lemma Uq_no_dup : forall t T a r1 b r2 c key,
    Uq t T -> T = (a ++ r1 :: b ++ r2 :: c)%list -> In key (table_uniques t) ->
    Rel.same_key t key r2 r1 = true -> False.
Proof.
  intros t T a r1 b r2 c key H. revert a r1 b r2 c. induction H as [|rows r HU IH Hc]; intros a r1 b r2 c E Hk Hs.
  - destruct a; discriminate.
  - destruct c as [|x c] using rev_ind.
    + (* r2 is the last row *)
      replace (a ++ r1 :: b ++ [r2])%list with ((a ++ r1 :: b) ++ [r2])%list in E
        by (rewrite <- app_assoc; reflexivity).
      apply app_inj_tail in E. destruct E as [-> ->].
      unfold unique_conflict in Hc.
      assert (existsb (fun key0 => existsb (Rel.same_key t key0 r2) (a ++ r1 :: b)) (table_uniques t) = true) as Ht.
      { apply existsb_exists. exists key. split; [exact Hk|]. apply existsb_exists. exists r1.
        split; [apply in_or_app; right; left; reflexivity|exact Hs]. }
      congruence.
    + clear IHc.
      replace (a ++ r1 :: b ++ r2 :: c ++ [x])%list with ((a ++ r1 :: b ++ r2 :: c) ++ [x])%list in E
        by (rewrite <- !app_assoc; simpl; rewrite <- !app_assoc; reflexivity).
      apply app_inj_tail in E. destruct E as [-> _]. eapply IH; [reflexivity|exact Hk|exact Hs].
Qed.

Lemma UqDb_snoc : forall d t vals,
    UqDb d ->
    unique_conflict t (get_table d t) (CInt (next_rowid (get_table d t)) :: coerce_all (data_columns t) vals) = false ->
    UqDb (set_table d t (get_table d t ++ [CInt (next_rowid (get_table d t))
                                            :: coerce_all (data_columns t) vals])%list).
Proof.
  intros d t vals Hu Hc t0 cols fks uqs Hin. destruct (string_dec t t0) as [<-|Hne].
  - rewrite get_set_same. constructor; [eapply Hu; exact Hin|exact Hc].
  - rewrite get_set_other by exact Hne. eapply Hu. exact Hin.
Qed.
Lemma try_insert_unique : forall d t vals d' rid,
    try_insert d t vals = Inserted d' rid ->
    unique_conflict t (get_table d t) (CInt (next_rowid (get_table d t)) :: coerce_all (data_columns t) vals) = false.
Proof.
  intros d t vals d' rid H. unfold try_insert in H. cbv zeta in H.
  destruct (negb (row_checks_ok t (data_columns t) (coerce_all (data_columns t) vals))); [discriminate|].
  destruct (unique_conflict t (get_table d t) _) eqn:E; [discriminate|reflexivity].
Qed.
Lemma UqDb_insert : forall d t vals d', UqDb d -> insert d t vals = Ok d' -> UqDb d'.
Proof.
  intros d t vals d' Hu H. unfold insert in H. destruct (try_insert d t vals) as [d1 rid|] eqn:E; [|discriminate].
  injection H as <-. pose proof (try_insert_unique _ _ _ _ _ E) as Hc.
  destruct (try_insert_inv _ _ _ _ _ E) as [-> ->]. apply UqDb_snoc; assumption.
Qed.
Lemma UqDb_insert_rowid : forall d t vals d' rid, UqDb d -> insert_rowid d t vals = Ok (d', rid) -> UqDb d'.
Proof.
  intros d t vals d' rid Hu H. unfold insert_rowid in H.
  destruct (try_insert d t vals) as [d1 r1|] eqn:E; [|discriminate].
  injection H as <- <-. pose proof (try_insert_unique _ _ _ _ _ E) as Hc.
  destruct (try_insert_inv _ _ _ _ _ E) as [-> ->]. apply UqDb_snoc; assumption.
Qed.
Lemma UqDb_ioi : forall d t vals d', UqDb d -> insert_or_ignore d t vals = d' -> UqDb d'.
Proof.
  intros d t vals d' Hu <-. unfold insert_or_ignore.
  destruct (try_insert d t vals) as [d1 rid|] eqn:E; [|exact Hu].
  pose proof (try_insert_unique _ _ _ _ _ E) as Hc.
  destruct (try_insert_inv _ _ _ _ _ E) as [-> ->]. apply UqDb_snoc; assumption.
Qed.
Lemma UqDb_update_prov : forall d p c d',
    UqDb d -> update d "lexicon_dependencies" p [("provider_rowid", c)] = Ok d' -> UqDb d'.
Proof.
  intros d p c d' Hu H. apply update_inv in H. destruct H as [rows ->].
  intros t0 cols fks uqs Hin. destruct (string_dec "lexicon_dependencies" t0) as [<-|Hne].
  - apply Uq_no_uniques. reflexivity.
  - rewrite get_set_other by exact Hne. eapply Hu. exact Hin.
Qed.

Ltac uq_fact :=
  match goal with
  | Hp : UqDb ?d, H : insert ?d _ _ = Ok ?d' |- _ =>
      assert (UqDb d') by (eapply UqDb_insert; [exact Hp|exact H]); clear H
  | Hp : UqDb ?d, H : insert_rowid ?d _ _ = Ok (?d', _) |- _ =>
      assert (UqDb d') by (eapply UqDb_insert_rowid; [exact Hp|exact H]); clear H
  | Hp : UqDb ?d, H : insert_or_ignore ?d _ _ = ?d' |- _ =>
      assert (UqDb d') by (eapply UqDb_ioi; [exact Hp|exact H]); clear H
  | Hp : UqDb ?d, H : update ?d "lexicon_dependencies" _ [("provider_rowid", _)] = Ok ?d' |- _ =>
      assert (UqDb d') by (eapply UqDb_update_prov; [exact Hp|exact H]); clear H
  | Hp : UqDb ?d, H : @foldM _ db _ _ ?d = Ok ?d' |- _ =>
      assert (UqDb d')
        by (revert H; apply foldM_inv; [|exact Hp]; clear;
            let s := fresh "s" in let x := fresh "x" in let s' := fresh "s'" in
            let Hp' := fresh "Hp" in let Hs := fresh "Hs" in
            intros s x s' Hp' Hs; cbv beta in Hs; uq_all);
      clear H
  end
with uq_all := repeat mstep2; repeat uq_fact; assumption.

Lemma UqDb_add_one_lexicon : forall nt L d d', UqDb d -> add_one_lexicon nt L d = Ok d' -> UqDb d'.
Proof.
  intros nt L d d' Hp H.
  unfold add_one_lexicon, _update_lookup_tables, _insert_lexicon, insert_lexicon_link, _insert_synsets,
    _insert_entries, _insert_forms, _insert_pronunciations, insert_pronunciation, _insert_tags, insert_tag,
    _insert_senses, _insert_adjpositions, _insert_counts, _insert_syntactic_behaviours,
    _insert_synset_relations, _insert_sense_relations, _insert_synset_definitions, _insert_examples in H.
  cbv zeta in H. uq_all.
Qed.

Lemma number_from_split : forall a x b n,
    number_from n (a ++ x :: b)%list
    = (number_from n a ++ (CInt (n + Z.of_nat (List.length a)) :: x)
                       :: number_from (n + Z.of_nat (List.length a) + 1) b)%list.
Proof. intros. rewrite number_from_app. reflexivity. Qed.

(* two local entries with the same (string) id: UNIQUE (id, lexicon_rowid) on entries *)
Theorem duplicate_entry_rejected : forall nt L d l1 e1 l2 e2 l3 x,
    UqDb d ->
    _local_entries (_entries L) = (l1 ++ e1 :: l2 ++ e2 :: l3)%list ->
    vreq e1 "id" = Ok (VStr x) -> vreq e2 "id" = Ok (VStr x) ->
    forall d', add_one_lexicon nt L d <> Ok d'.
Proof.
  intros nt L d l1 e1 l2 e2 l3 x Hu Hsplit H1 H2 d' H.
  pose proof (UqDb_add_one_lexicon _ _ _ _ Hu H) as Hu'.
  pose proof (one_lexicon_entries _ _ _ _ H) as HA. unfold App in HA. rewrite Hsplit in HA.
  set (lexid := next_rowid (get_table d "lexicons")) in *.
  rewrite map_app in HA. simpl map in HA. rewrite map_app in HA. simpl map in HA.
  rewrite number_from_split in HA. rewrite number_from_split in HA.
  destruct (in_schema "entries" eq_refl) as (cols & fks & uqs & Hsch).
  rewrite app_assoc in HA.
  eapply (Uq_no_dup "entries" _ _ _ _ _ _ ["id"; "lexicon_rowid"] (Hu' _ _ _ _ Hsch) HA).
  - left. reflexivity.
  - assert (preq e1 "id" = Ok (CText x)) as P1 by (unfold preq; rewrite H1; reflexivity).
    assert (preq e2 "id" = Ok (CText x)) as P2 by (unfold preq; rewrite H2; reflexivity).
    unfold Rel.same_key, entry_row, entry_cells. rewrite P1, P2. simpl.
    rewrite str_eqb_refl, Z.eqb_refl. reflexivity.
Qed.

(* ====================================================================== *)
(* (F4) / (F5) at the level of add_lexical_resource                        *)
(* ====================================================================== *)
(* a resource with one lexicon, which is not skipped *)
Theorem reject_single : forall d r nt L skipmap,
    vreq r "lexicons" = Ok (VList [L]) ->
    _precheck [L] d = Ok skipmap -> not_skipped skipmap L = true ->
    (forall d', add_one_lexicon nt L d <> Ok d') ->
    forall d', add_lexical_resource d r nt <> Ok d'.
Proof.
  intros d r nt L skipmap Hr Hp Hns Hrej d' H.
  destruct (add_single_lexicon d r nt d' L H Hr) as [sk [Hp' Hone]].
  rewrite Hp in Hp'. injection Hp' as <-. exact (Hrej d' (Hone Hns)).
Qed.
(* any resource: a lexicon that is not skipped and is rejected in the database reached after the
   lexicons before it makes the whole call fail (there is no partial result) *)
Theorem reject_multi : forall d r nt pre L post skipmap d1,
    vreq r "lexicons" = Ok (VList (pre ++ L :: post)%list) ->
    _precheck (pre ++ L :: post)%list d = Ok skipmap -> not_skipped skipmap L = true ->
    foldM (lex_step nt skipmap) pre d = Ok d1 ->
    (forall d2, add_one_lexicon nt L d1 <> Ok d2) ->
    forall d', add_lexical_resource d r nt <> Ok d'.
Proof.
  intros d r nt pre L post skipmap d1 Hr Hp Hns Hpre Hrej d' H.
  destruct (add_resource_lexicon d r nt d' pre L post H Hr) as [sk [Hp' Hs]].
  rewrite Hp in Hp'. injection Hp' as <-. destruct (Hs Hns) as (d1' & d2 & _ & Hadd & _ & Hpre' & _).
  rewrite Hpre in Hpre'. injection Hpre' as <-. exact (Hrej d2 Hadd).
Qed.
Corollary reject_multi_any_db : forall d r nt pre L post skipmap,
    vreq r "lexicons" = Ok (VList (pre ++ L :: post)%list) ->
    _precheck (pre ++ L :: post)%list d = Ok skipmap -> not_skipped skipmap L = true ->
    (forall d1 d2, add_one_lexicon nt L d1 <> Ok d2) ->
    forall d', add_lexical_resource d r nt <> Ok d'.
Proof.
  intros d r nt pre L post skipmap Hr Hp Hns Hrej d' H.
  destruct (add_resource_lexicon d r nt d' pre L post H Hr) as [sk [Hp' Hs]].
  rewrite Hp in Hp'. injection Hp' as <-. destruct (Hs Hns) as (d1' & d2 & _ & Hadd & _).
  exact (Hrej d1' d2 Hadd).
Qed.

(* the outcome is an error: no database is returned (the caller's database is what it was) *)
Lemma not_ok_is_error : forall (x : result db), (forall d', x <> Ok d') -> x = WnError \/ x = OtherError.
Proof. intros [d'| |] H; [exfalso; apply (H d'); reflexivity|left; reflexivity|right; reflexivity]. Qed.

(* ---------- boolean form of the UNIQUE invariant ---------- *)
Fixpoint uq_rows_b (t : string) (acc rows : table) : bool :=
  match rows with
  | [] => true
  | r :: rest => negb (unique_conflict t acc r) && uq_rows_b t (acc ++ [r])%list rest
  end.
Lemma uq_rows_b_ok : forall t rows acc, Uq t acc -> uq_rows_b t acc rows = true -> Uq t (acc ++ rows)%list.
Proof.
  intros t rows. induction rows as [|r rows IH]; intros acc Ha H; simpl in H.
  - rewrite app_nil_r. exact Ha.
  - apply andb_true_iff in H. destruct H as [H1 H2]. apply negb_true_iff in H1.
    replace (acc ++ r :: rows)%list with ((acc ++ [r]) ++ rows)%list by (rewrite <- app_assoc; reflexivity).
    apply IH; [constructor; assumption|exact H2].
Qed.
Definition UqDbb (d : db) : bool :=
  forallb (fun e : string * columns_t * fkeys_t * uniques_t =>
             uq_rows_b (fst (fst (fst e))) [] (get_table d (fst (fst (fst e))))) schema.
Lemma UqDbb_UqDb : forall d, UqDbb d = true -> UqDb d.
Proof.
  intros d H t cols fks uqs Hin. unfold UqDbb in H. rewrite forallb_forall in H. specialize (H _ Hin).
  cbn [fst] in H. apply (uq_rows_b_ok t _ [] (Uq_nil t) H).
Qed.

(* ====================================================================== *)
(* Witnesses                                                               *)
(* ====================================================================== *)
Definition lx (id : string) (entries synsets : list val) : val :=
  vd [("id", vs id); ("label", vs "L"); ("language", vs "en"); ("email", vs "e"); ("license", vs "l");
      ("version", vs "1"); ("meta", VNone); ("entries", VList entries); ("synsets", VList synsets)].
Definition ent (id : string) (senses : list val) : val :=
  vd [("id", vs id); ("lemma", vd [("writtenForm", vs "w"); ("partOfSpeech", vs "n")]); ("meta", VNone);
      ("senses", VList senses)].
Definition sen (id ss : string) (more : list (string * val)) : val :=
  vd ([("id", vs id); ("synset", vs ss); ("meta", VNone)] ++ more)%list.
Definition syn (id ili : string) (more : list (string * val)) : val :=
  vd ([("id", vs id); ("ili", vs ili); ("partOfSpeech", vs "n"); ("meta", VNone)] ++ more)%list.
Definition rel (t ty : string) : val := vd [("target", vs t); ("relType", vs ty); ("meta", VNone)].
(* 1 = Ok, -1 = wn.Error, -5 = any other exception, as on the wire *)
Definition verdict (L : val) : Z :=
  match add_lexical_resource ex_db2 (ex_resource [L]) [] with Ok _ => 1 | WnError => -1 | OtherError => -5 end.

Example ex_db2_wf : fk_ok ex_db2 = true /\ Wfb ex_db2 = true /\ UqDbb ex_db2 = true.
Proof. vm_compute. repeat split. Qed.
(* the faults that are rejected, with the class of the error *)
Example ex_unknown_synset :          (* IntegrityError: NOT NULL on senses.synset_rowid *)
  verdict (lx "q1" [ent "e" [sen "s" "nosuch" []]] [syn "y" "" []]) = -5.
Proof. vm_compute. reflexivity. Qed.
Example ex_synset_of_other_lexicon : (* "ss1" is a synset of the installed lexicon ba: it does not count *)
  verdict (lx "q8" [ent "e" [sen "s" "ss1" []]] [syn "y" "" []]) = -5.
Proof. vm_compute. reflexivity. Qed.
Example ex_unknown_sense_relation_target :   (* wn.Error *)
  verdict (lx "q2" [ent "e" [sen "s" "y" [("relations", VList [rel "nowhere" "also"])]]] [syn "y" "" []]) = -1.
Proof. vm_compute. reflexivity. Qed.
Example ex_unknown_synset_relation_target :  (* IntegrityError: NOT NULL on synset_relations.target_rowid *)
  verdict (lx "q3" [ent "e" [sen "s" "y" []]] [syn "y" "" [("relations", VList [rel "nowhere" "hypernym"])]]) = -5.
Proof. vm_compute. reflexivity. Qed.
Example ex_duplicate_entry :                 (* IntegrityError: UNIQUE (id, lexicon_rowid) on entries *)
  verdict (lx "q4" [ent "e" [sen "s" "y" []]; ent "e" [sen "s2" "y" []]] [syn "y" "" []]) = -5.
Proof. vm_compute. reflexivity. Qed.
(* the faults that are NOT rejected: synsets and senses have no UNIQUE index on their id *)
Example ex_duplicate_synset_tolerated :
  verdict (lx "q5" [ent "e" [sen "s" "y" []]] [syn "y" "" []; syn "y" "" []]) = 1
  /\ table_uniques "synsets" = [] /\ table_uniques "senses" = [].
Proof. vm_compute. repeat split. Qed.
Example ex_duplicate_sense_tolerated :
  verdict (lx "q6" [ent "e" [sen "s" "y" []; sen "s" "y" []]] [syn "y" "" []]) = 1.
Proof. vm_compute. reflexivity. Qed.
(* ... unless both duplicate synsets propose an ILI: UNIQUE (synset_rowid) on proposed_ilis *)
Example ex_duplicate_in_synsets_rejected :
  verdict (lx "q7" [ent "e" [sen "s" "y" []]] [syn "y" "in" []; syn "y" "in" []]) = -5.
Proof. vm_compute. reflexivity. Qed.
(* the same duplicate entry id in ANOTHER lexicon is no fault: the index includes the lexicon rowid *)
Example ex_same_entry_id_other_lexicon :
  verdict (lx "q9" [ent "e1" [sen "s" "y" []]] [syn "y" "" []]) = 1.
Proof. vm_compute. reflexivity. Qed.

(* (F4) spelled out for two of the faults, for a one-lexicon resource whose lexicon is new *)
Corollary add_unknown_synset_fails : forall d r nt L i v e s,
    vreq r "lexicons" = Ok (VList [L]) -> vreq L "id" = Ok (VStr i) -> vreq L "version" = Ok (VStr v) ->
    vtruthy (vgetk L "extends") = false -> is_null (LEXICON_QUERY d (CText i) (CText v)) = true ->
    fk_ok d = true -> Wfb d = true ->
    In e (_entries L) -> In s (_local_senses (_senses e)) ->
    synset_defined L (pcell (preq s "synset")) = false ->
    forall d', add_lexical_resource d r nt <> Ok d'.
Proof.
  intros d r nt L i v e s Hr Hi Hv Hne Hq Hok Hwfb He Hs Hdef.
  destruct (precheck_single d L i v Hi Hv Hne Hq) as [skipmap [Hp Hns]].
  eapply reject_single; try eassumption.
  eapply unknown_synset_rejected_nonext; try eassumption. apply Wfb_Wf. exact Hwfb.
Qed.
Corollary add_duplicate_entry_fails : forall d r nt L i v l1 e1 l2 e2 l3 x,
    vreq r "lexicons" = Ok (VList [L]) -> vreq L "id" = Ok (VStr i) -> vreq L "version" = Ok (VStr v) ->
    vtruthy (vgetk L "extends") = false -> is_null (LEXICON_QUERY d (CText i) (CText v)) = true ->
    UqDbb d = true ->
    _local_entries (_entries L) = (l1 ++ e1 :: l2 ++ e2 :: l3)%list ->
    vreq e1 "id" = Ok (VStr x) -> vreq e2 "id" = Ok (VStr x) ->
    forall d', add_lexical_resource d r nt <> Ok d'.
Proof.
  intros d r nt L i v l1 e1 l2 e2 l3 x Hr Hi Hv Hne Hq Hu Hsplit H1 H2.
  destruct (precheck_single d L i v Hi Hv Hne Hq) as [skipmap [Hp Hns]].
  eapply reject_single; try eassumption.
  eapply duplicate_entry_rejected; try eassumption. apply UqDbb_UqDb. exact Hu.
Qed.

Print Assumptions add_unknown_synset_fails.
Print Assumptions add_duplicate_entry_fails.
Print Assumptions unknown_synset_rejected.
Print Assumptions unknown_synset_rejected_nonext.
Print Assumptions unknown_synset_relation_target_rejected.
Print Assumptions unknown_synset_relation_target_rejected_nonext.
Print Assumptions unknown_sense_relation_target_rejected.
Print Assumptions unknown_sense_relation_target_rejected_add.
Print Assumptions duplicate_entry_rejected.
Print Assumptions reject_single.
Print Assumptions reject_multi.
Print Assumptions reject_multi_any_db.
