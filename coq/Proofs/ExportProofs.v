(* ExportProofs.v — C03 theorems about the export model (Export.v). *)
From Coq Require Import ZArith List Bool String Lia.
Import ListNotations.
Require Import WnV.Base.Sx.
Require Import WnV.Model.Tables WnV.Model.Query WnV.Model.Val.
Require Import WnV.Model.Export.
Local Open Scope Z_scope.

(* ================================================================== generic lemmas *)
Lemma bind_Ok : forall {T U} (r : res T) (f : T -> res U) (y : U),
  bind r f = Ok y -> exists x, r = Ok x /\ f x = Ok y.
Proof.
  intros T U r f y H. destruct r as [x| | |]; simpl in H; try discriminate.
  exists x. split; [reflexivity | exact H].
Qed.

Lemma mapM_Forall2 : forall {T U} (f : T -> res U) (l : list T) (ys : list U),
  mapM f l = Ok ys -> Forall2 (fun x y => f x = Ok y) l ys.
Proof.
  intros T U f l. induction l as [|x l IH]; intros ys H; simpl in H.
  - injection H as <-. constructor.
  - apply bind_Ok in H. destruct H as [y [Hy H]].
    apply bind_Ok in H. destruct H as [ys' [Hys H]].
    injection H as <-. constructor; [exact Hy | apply IH; exact Hys].
Qed.

Lemma Forall2_map_l : forall {A B C} (g : A -> B) (R : B -> C -> Prop) (l : list A) (l' : list C),
  Forall2 R (map g l) l' <-> Forall2 (fun x y => R (g x) y) l l'.
Proof.
  intros A B C g R l. induction l as [|x l IH]; intros l'; simpl; split; intro H.
  - inversion H; subst. constructor.
  - inversion H; subst. constructor.
  - inversion H as [|b c lb lc Hbc Hrest]; subst. constructor; [exact Hbc | apply IH; exact Hrest].
  - inversion H as [|b c lb lc Hbc Hrest]; subst. constructor; [exact Hbc | apply IH; exact Hrest].
Qed.

Lemma Forall2_impl : forall {A B} (R R' : A -> B -> Prop) (l : list A) (l' : list B),
  (forall x y, In x l -> In y l' -> R x y -> R' x y) -> Forall2 R l l' -> Forall2 R' l l'.
Proof.
  intros A B R R' l l' Himp H. induction H as [|x y l l' Hxy Hrest IH].
  - constructor.
  - constructor.
    + apply Himp; [left; reflexivity | left; reflexivity | exact Hxy].
    + apply IH. intros x' y' Hx' Hy' Hr. apply Himp; [right; exact Hx' | right; exact Hy' | exact Hr].
Qed.

Lemma Forall2_map_eq : forall {A B C} (f : A -> C) (g : B -> C) (l : list A) (l' : list B),
  Forall2 (fun x y => g y = f x) l l' -> map g l' = map f l.
Proof.
  intros A B C f g l l' H. induction H as [|x y l l' Hxy Hrest IH]; simpl.
  - reflexivity.
  - rewrite Hxy, IH. reflexivity.
Qed.

Lemma filter_true : forall {T} (p : T -> bool) (l : list T),
  forallb p l = true -> filter p l = l.
Proof.
  intros T p l. induction l as [|x l IH]; simpl; intro H.
  - reflexivity.
  - apply andb_true_iff in H. destruct H as [Hx Hl]. rewrite Hx, (IH Hl). reflexivity.
Qed.

(* ---------- insertion sort *)
Lemma In_insert_sorted : forall {T} (le : T -> T -> bool) (x y : T) (l : list T),
  In y (insert_sorted le x l) <-> y = x \/ In y l.
Proof.
  intros T le x y l. induction l as [|z l IH]; simpl.
  - intuition (subst; auto).
  - destruct (le x z); simpl.
    + intuition (subst; auto).
    + rewrite IH. intuition (subst; auto).
Qed.

Lemma In_stable_sort : forall {T} (le : T -> T -> bool) (y : T) (l : list T),
  In y (stable_sort le l) <-> In y l.
Proof.
  intros T le y l. induction l as [|x l IH]; simpl.
  - tauto.
  - rewrite In_insert_sorted, IH. intuition (subst; auto).
Qed.

Lemma insert_sorted_app : forall {T} (le : T -> T -> bool) (x : T) (a b : list T),
  (forall y, In y b -> le x y = true) ->
  insert_sorted le x (a ++ b) = insert_sorted le x a ++ b.
Proof.
  intros T le x a b Hb. induction a as [|z a IH]; simpl.
  - destruct b as [|y b]; simpl; [reflexivity|].
    rewrite (Hb y (or_introl eq_refl)). reflexivity.
  - destruct (le x z); simpl; [reflexivity|]. rewrite IH. reflexivity.
Qed.

Lemma stable_sort_app : forall {T} (le : T -> T -> bool) (a b : list T),
  (forall x y, In x a -> In y b -> le x y = true) ->
  stable_sort le (a ++ b) = stable_sort le a ++ stable_sort le b.
Proof.
  intros T le a b. induction a as [|x a IH]; intro H; simpl.
  - reflexivity.
  - rewrite IH.
    + apply insert_sorted_app. intros y Hy. apply In_stable_sort in Hy.
      apply H; [left; reflexivity | exact Hy].
    + intros x' y Hx' Hy. apply H; [right; exact Hx' | exact Hy].
Qed.

Lemma insert_sorted_map : forall {A B} (g : A -> B) (le : A -> A -> bool) (le' : B -> B -> bool)
  (x : A) (l : list A),
  (forall a b, le' (g a) (g b) = le a b) ->
  insert_sorted le' (g x) (map g l) = map g (insert_sorted le x l).
Proof.
  intros A B g le le' x l H. induction l as [|y l IH]; simpl.
  - reflexivity.
  - rewrite H. destruct (le x y); simpl; [reflexivity|]. rewrite IH. reflexivity.
Qed.

Lemma stable_sort_map : forall {A B} (g : A -> B) (le : A -> A -> bool) (le' : B -> B -> bool)
  (l : list A),
  (forall a b, le' (g a) (g b) = le a b) ->
  stable_sort le' (map g l) = map g (stable_sort le l).
Proof.
  intros A B g le le' l H. induction l as [|x l IH]; simpl.
  - reflexivity.
  - rewrite IH. apply insert_sorted_map. exact H.
Qed.

(* ---------- strictly increasing keys (tables are dumped in rowid order; rowid is a key) *)
Fixpoint incrb (l : list Z) : bool :=
  match l with
  | [] => true
  | x :: r => forallb (Z.ltb x) r && incrb r
  end.
Fixpoint incr (l : list Z) : Prop :=
  match l with
  | [] => True
  | x :: r => (forall y, In y r -> x < y) /\ incr r
  end.
Lemma incrb_incr : forall l, incrb l = true -> incr l.
Proof.
  induction l as [|x l IH]; simpl; intro H.
  - exact I.
  - apply andb_true_iff in H. destruct H as [H1 H2]. split.
    + intros y Hy. rewrite forallb_forall in H1. apply Z.ltb_lt. apply H1. exact Hy.
    + apply IH. exact H2.
Qed.
Lemma incr_filter : forall {T} (key : T -> Z) (p : T -> bool) (l : list T),
  incr (map key l) -> incr (map key (filter p l)).
Proof.
  intros T key p l. induction l as [|x l IH]; simpl; intro H.
  - exact I.
  - destruct H as [H1 H2]. destruct (p x); simpl.
    + split.
      * intros y Hy. apply H1. apply in_map_iff in Hy. destruct Hy as [z [Hz Hin]].
        apply filter_In in Hin. apply in_map_iff. exists z. split; [exact Hz | apply Hin].
      * apply IH. exact H2.
    + apply IH. exact H2.
Qed.
Lemma incr_NoDup : forall l, incr l -> NoDup l.
Proof.
  induction l as [|x l IH]; simpl; intro H.
  - constructor.
  - destruct H as [H1 H2]. constructor.
    + intro Hin. specialize (H1 x Hin). lia.
    + apply IH. exact H2.
Qed.

(* ---------- first-occurrence de-duplication is the identity on rows with distinct keys *)
Lemma dedup_aux_key_id : forall {T} (eqb : T -> T -> bool) (key : T -> Z),
  (forall x y, eqb x y = true -> key x = key y) ->
  forall (l seen : list T),
    NoDup (map key l) ->
    (forall x y, In x l -> In y seen -> key x <> key y) ->
    dedup_aux eqb seen l = l.
Proof.
  intros T eqb key Hk l. induction l as [|x l IH]; intros seen Hnd Hseen; simpl.
  - reflexivity.
  - simpl in Hnd. inversion Hnd as [|k ks Hnotin Hnd']; subst.
    destruct (existsb (eqb x) seen) eqn:Hex.
    + apply existsb_exists in Hex. destruct Hex as [y [Hy Hxy]].
      exfalso. apply (Hseen x y); [left; reflexivity | exact Hy | apply Hk; exact Hxy].
    + f_equal. apply IH; [exact Hnd'|].
      intros x' y Hx' [Hy|Hy].
      * subst y. intro Heq. apply Hnotin. rewrite <- Heq. apply in_map. exact Hx'.
      * apply Hseen; [right; exact Hx' | exact Hy].
Qed.
Lemma dedup_key_id : forall {T} (eqb : T -> T -> bool) (key : T -> Z) (l : list T),
  (forall x y, eqb x y = true -> key x = key y) ->
  NoDup (map key l) -> dedup eqb l = l.
Proof.
  intros T eqb key l Hk Hnd. unfold dedup. apply (dedup_aux_key_id eqb key Hk); [exact Hnd|].
  intros x y _ Hy. destruct Hy.
Qed.

Lemma In_dedup_aux : forall {T} (eqb : T -> T -> bool),
  (forall x y, eqb x y = true -> x = y) ->
  forall (l seen : list T) (x : T), In x (dedup_aux eqb seen l) -> In x l.
Proof.
  intros T eqb Heq l. induction l as [|y l IH]; intros seen x H; simpl in H.
  - exact H.
  - destruct (existsb (eqb y) seen).
    + right. apply (IH _ _ H).
    + destruct H as [H|H]; [left; exact H | right; apply (IH _ _ H)].
Qed.
Lemma dedup_aux_In : forall {T} (eqb : T -> T -> bool),
  (forall x y, eqb x y = true -> x = y) ->
  forall (l seen : list T) (x : T), In x l -> In x seen \/ In x (dedup_aux eqb seen l).
Proof.
  intros T eqb Heq l. induction l as [|y l IH]; intros seen x H; simpl.
  - destruct H.
  - destruct H as [H|H].
    + subst y. destruct (existsb (eqb x) seen) eqn:Hex.
      * left. apply existsb_exists in Hex. destruct Hex as [z [Hz Hxz]].
        apply Heq in Hxz. subst z. exact Hz.
      * right. left. reflexivity.
    + destruct (existsb (eqb y) seen) eqn:Hex.
      * apply IH. exact H.
      * destruct (IH (y :: seen) x H) as [[Hs|Hs]|Hd].
        -- right. left. exact Hs.
        -- left. exact Hs.
        -- right. right. exact Hd.
Qed.
Lemma In_dedup : forall {T} (eqb : T -> T -> bool) (l : list T) (x : T),
  (forall x y, eqb x y = true -> x = y) ->
  In x (dedup eqb l) <-> In x l.
Proof.
  intros T eqb l x Heq. unfold dedup. split; intro H.
  - apply (In_dedup_aux eqb Heq _ _ _ H).
  - destruct (dedup_aux_In eqb Heq l [] x H) as [Hs|Hd]; [destruct Hs | exact Hd].
Qed.

(* ---------- strings *)
Lemma ostr_eqb_eq : forall a b, ostr_eqb a b = true -> a = b.
Proof.
  intros [a|] [b|]; simpl; intro H; try discriminate; try reflexivity.
  apply str_eqb_eq in H. subst. reflexivity.
Qed.
Lemma str_leb_refl : forall a, str_leb a a = true.
Proof.
  induction a as [|x a IH]; simpl; [reflexivity|]. rewrite Z.ltb_irrefl. exact IH.
Qed.
Lemma str_ltb_irrefl : forall a, str_ltb a a = false.
Proof. intro a. unfold str_ltb. rewrite str_leb_refl. reflexivity. Qed.

Lemma z_in_single : forall x r, z_in x [r] = Z.eqb x r.
Proof. intros x r. unfold z_in. simpl. apply orb_false_r. Qed.

(* ================================================================== E1: _precheck *)
Definition disjoint (a b : list str) : Prop := forall s, In s a -> ~ In s b.
Fixpoint pairwise_disjoint (ls : list (list str)) : Prop :=
  match ls with
  | [] => True
  | x :: r => Forall (disjoint x) r /\ pairwise_disjoint r
  end.

Lemma intersects_false : forall a b, intersects a b = false <-> disjoint a b.
Proof.
  intros a b. unfold intersects, disjoint. split.
  - intros H s Hs Hb. apply not_true_iff_false in H. apply H.
    apply existsb_exists. exists s. split; [exact Hs | apply str_mem_In; exact Hb].
  - intro H. apply not_true_iff_false. intro Hex. apply existsb_exists in Hex.
    destruct Hex as [s [Hs Hm]]. apply str_mem_In in Hm. exact (H s Hs Hm).
Qed.

Lemma precheck_from_spec : forall d lexs acc,
  precheck_from d acc lexs = Ok tt <->
  Forall (disjoint acc) (map (lexicon_idset d) lexs)
  /\ pairwise_disjoint (map (lexicon_idset d) lexs).
Proof.
  intros d lexs. induction lexs as [|lex rest IH]; intros acc; simpl.
  - split; [intros _; split; [constructor | exact I] | reflexivity].
  - destruct (intersects acc (lexicon_idset d lex)) eqn:Hi.
    + split; [discriminate|]. intros [Hf _]. inversion Hf as [|x l Hd Hr]; subst.
      apply intersects_false in Hd. rewrite Hd in Hi. discriminate.
    + apply intersects_false in Hi. rewrite IH. split.
      * intros [Hf Hp]. split; [|split].
        -- constructor; [exact Hi|]. rewrite Forall_forall in *. intros y Hy s Hs.
           apply (Hf y Hy). apply in_or_app. left. exact Hs.
        -- rewrite Forall_forall in *. intros y Hy s Hs.
           apply (Hf y Hy). apply in_or_app. right. exact Hs.
        -- exact Hp.
      * intros [Hf [Hf2 Hp]]. split; [|exact Hp].
        inversion Hf as [|x l Hd Hr]; subst.
        rewrite Forall_forall in *. intros y Hy s Hs. apply in_app_or in Hs.
        destruct Hs as [Hs|Hs]; [apply (Hr y Hy s Hs) | apply (Hf2 y Hy s Hs)].
Qed.

Lemma precheck_from_outcome : forall d lexs acc,
  precheck_from d acc lexs = Ok tt \/ precheck_from d acc lexs = WnError.
Proof.
  intros d lexs. induction lexs as [|lex rest IH]; intros acc; simpl.
  - left. reflexivity.
  - destruct (intersects acc (lexicon_idset d lex)); [right; reflexivity | apply IH].
Qed.

(* ================================================================== find_entries for one lexicon *)
Definition forms_of (d : db) (e : entry_row) : list form_row :=
  filter (fun f => Z.eqb (fm_entry_rowid f) (en_rowid e)) (t_forms d).
(* the forms of an entry in rank order (NULL ranks first, ties in rowid order) *)
Definition entry_forms (d : db) (e : entry_row) : list form_row :=
  sort_by_oz fm_rank (forms_of d e).
Definition word_of (e : entry_row) (fs : list form_row) : q_word :=
  {| qw_id := en_id e; qw_pos := en_pos e; qw_forms := map form_columns fs;
     qw_lexid := en_lexicon_rowid e; qw_rowid := en_rowid e |}.
Definition lexicon_entries (d : db) (r : Z) : list entry_row :=
  filter (fun e => Z.eqb (en_lexicon_rowid e) r) (t_entries d).
(* the entry rows export sees: those of the lexicon with at least one form *)
Definition exported_entries (d : db) (r : Z) : list entry_row :=
  filter (fun e => nonempty (entry_forms d e)) (lexicon_entries d r).

Lemma entry_key_eqb_refl : forall e, entry_key_eqb e e = true.
Proof.
  intro e. unfold entry_key_eqb. rewrite !Z.eqb_refl, !str_eqb_refl. reflexivity.
Qed.
Lemma entry_key_eqb_rowid : forall e e', entry_key_eqb e e' = true -> en_rowid e = en_rowid e'.
Proof.
  intros e e' H. unfold entry_key_eqb in H.
  apply andb_true_iff in H. destruct H as [H _].
  apply andb_true_iff in H. destruct H as [H _].
  apply andb_true_iff in H. destruct H as [_ H]. apply Z.eqb_eq. exact H.
Qed.

Lemma entry_form_le_same : forall e f1 f2,
  entry_form_le (e, f1) (e, f2) = oz_leb (fm_rank f1) (fm_rank f2).
Proof.
  intros e f1 f2. unfold entry_form_le. rewrite Z.ltb_irrefl, str_ltb_irrefl. reflexivity.
Qed.
Lemma entry_form_le_lt : forall e f e' f',
  en_rowid e < en_rowid e' -> entry_form_le (e, f) (e', f') = true.
Proof.
  intros e f e' f' H. unfold entry_form_le. apply Z.ltb_lt in H. rewrite H. reflexivity.
Qed.

Lemma sort_entry_rows : forall (F : entry_row -> list form_row) (es : list entry_row),
  incr (map en_rowid es) ->
  stable_sort entry_form_le (flat_map (fun e => map (fun f => (e, f)) (F e)) es)
  = flat_map (fun e => map (fun f => (e, f)) (sort_by_oz fm_rank (F e))) es.
Proof.
  intros F es. induction es as [|e es IH]; simpl; intro H.
  - reflexivity.
  - destruct H as [H1 H2]. rewrite stable_sort_app.
    + rewrite (IH H2). f_equal. unfold sort_by_oz.
      apply stable_sort_map. intros a b. apply entry_form_le_same.
    + intros x y Hx Hy. apply in_map_iff in Hx. destruct Hx as [f [<- _]].
      apply in_flat_map in Hy. destruct Hy as [e' [He' Hy]].
      apply in_map_iff in Hy. destruct Hy as [f' [<- _]].
      apply entry_form_le_lt. apply H1. apply in_map. exact He'.
Qed.

Lemma group_block : forall e fs rest,
  fs <> [] ->
  (forall e' f', In (e', f') rest -> entry_key_eqb e e' = false) ->
  group_entries (map (fun f => (e, f)) fs ++ rest) = word_of e fs :: group_entries rest.
Proof.
  intros e fs rest. induction fs as [|f fs IH]; intros Hne Hrest.
  - exfalso. apply Hne. reflexivity.
  - destruct fs as [|f2 fs'].
    + change (map (fun f0 => (e, f0)) [f] ++ rest) with ((e, f) :: rest).
      change (group_entries ((e, f) :: rest)) with
        (let gs := group_entries rest in
         match hd_opt rest, gs with
         | Some (e', _), w :: ws =>
             if entry_key_eqb e e'
             then {| qw_id := qw_id w; qw_pos := qw_pos w; qw_forms := form_columns f :: qw_forms w;
                     qw_lexid := qw_lexid w; qw_rowid := qw_rowid w |} :: ws
             else new_group e f :: w :: ws
         | _, _ => new_group e f :: gs
         end).
      cbv zeta. destruct rest as [|[e' f'] rest']; simpl hd_opt.
      * reflexivity.
      * destruct (group_entries ((e', f') :: rest')); [reflexivity|].
        rewrite (Hrest e' f' (or_introl eq_refl)). reflexivity.
    + assert (Hne' : f2 :: fs' <> []) by discriminate.
      specialize (IH Hne' Hrest).
      change (map (fun f0 => (e, f0)) (f :: f2 :: fs') ++ rest)
        with ((e, f) :: (map (fun f0 => (e, f0)) (f2 :: fs') ++ rest)).
      remember (map (fun f0 => (e, f0)) (f2 :: fs') ++ rest) as tail eqn:Htail.
      change (group_entries ((e, f) :: tail)) with
        (let gs := group_entries tail in
         match hd_opt tail, gs with
         | Some (e', _), w :: ws =>
             if entry_key_eqb e e'
             then {| qw_id := qw_id w; qw_pos := qw_pos w; qw_forms := form_columns f :: qw_forms w;
                     qw_lexid := qw_lexid w; qw_rowid := qw_rowid w |} :: ws
             else new_group e f :: w :: ws
         | _, _ => new_group e f :: gs
         end).
      cbv zeta. rewrite IH. rewrite Htail. simpl hd_opt. cbv iota beta.
      rewrite entry_key_eqb_refl. reflexivity.
Qed.

Lemma group_entry_rows : forall (F : entry_row -> list form_row) (es : list entry_row),
  incr (map en_rowid es) ->
  group_entries (flat_map (fun e => map (fun f => (e, f)) (F e)) es)
  = map (fun e => word_of e (F e)) (filter (fun e => nonempty (F e)) es).
Proof.
  intros F es. induction es as [|e es IH]; intro H.
  - reflexivity.
  - destruct H as [H1 H2].
    change (flat_map (fun e0 => map (fun f => (e0, f)) (F e0)) (e :: es))
      with (map (fun f => (e, f)) (F e) ++ flat_map (fun e0 => map (fun f => (e0, f)) (F e0)) es).
    simpl filter. destruct (F e) as [|f fs] eqn:HF.
    + simpl. apply IH. exact H2.
    + simpl nonempty. cbv iota. rewrite group_block.
      * rewrite (IH H2). simpl. rewrite HF. reflexivity.
      * discriminate.
      * intros e' f' Hin. apply in_flat_map in Hin. destruct Hin as [e'' [He'' Hin]].
        apply in_map_iff in Hin. destruct Hin as [f'' [Heq _]]. injection Heq as -> _.
        destruct (entry_key_eqb e e') eqn:Hk; [|reflexivity].
        apply entry_key_eqb_rowid in Hk. specialize (H1 (en_rowid e') (in_map en_rowid _ _ He'')). lia.
Qed.

(* find_entries(lexicon_rowids=(r,)) on a database whose entries table is in rowid order *)
Lemma find_entries_lexicon : forall d r,
  incr (map en_rowid (t_entries d)) ->
  find_entries d None [] None [r] false false
  = map (fun e => word_of e (entry_forms d e)) (exported_entries d r).
Proof.
  intros d r H. unfold find_entries. simpl truthy. simpl nonempty. cbv iota.
  assert (Hf : filter (fun e : entry_row => true && true && true && z_in (en_lexicon_rowid e) [r])
                      (t_entries d) = lexicon_entries d r).
  { unfold lexicon_entries. apply filter_ext. intro e. simpl. apply z_in_single. }
  rewrite Hf.
  assert (Hi : incr (map en_rowid (lexicon_entries d r))) by (apply incr_filter; exact H).
  change (flat_map (fun e => map (fun f => (e, f))
                      (filter (fun f' => Z.eqb (fm_entry_rowid f') (en_rowid e)) (t_forms d)))
                   (lexicon_entries d r))
    with (flat_map (fun e => map (fun f => (e, f)) (forms_of d e)) (lexicon_entries d r)).
  rewrite (sort_entry_rows (forms_of d) _ Hi).
  change (fun e => map (fun f => (e, f)) (sort_by_oz fm_rank (forms_of d e)))
    with (fun e => map (fun f => (e, f)) (entry_forms d e)).
  rewrite (group_entry_rows (entry_forms d) _ Hi). reflexivity.
Qed.

(* ================================================================== find_synsets / find_senses for one lexicon *)
Definition lexicon_synsets (d : db) (r : Z) : list synset_row :=
  filter (fun ss => Z.eqb (sy_lexicon_rowid ss) r) (t_synsets d).

Lemma q_synset_eqb_eq : forall a b, q_synset_eqb a b = true -> a = b.
Proof.
  intros [i1 p1 l1 x1 r1] [i2 p2 l2 x2 r2]. unfold q_synset_eqb. simpl. intro H.
  repeat (apply andb_true_iff in H; let H' := fresh "H" in destruct H as [H H']).
  apply str_eqb_eq in H. apply ostr_eqb_eq in H3. apply ostr_eqb_eq in H2.
  apply Z.eqb_eq in H1. apply Z.eqb_eq in H0. subst. reflexivity.
Qed.
Lemma q_sense_eqb_eq : forall a b, q_sense_eqb a b = true -> a = b.
Proof.
  intros [i1 p1 l1 x1 r1] [i2 p2 l2 x2 r2]. unfold q_sense_eqb. simpl. intro H.
  repeat (apply andb_true_iff in H; let H' := fresh "H" in destruct H as [H H']).
  apply str_eqb_eq in H. apply str_eqb_eq in H3. apply str_eqb_eq in H2.
  apply Z.eqb_eq in H1. apply Z.eqb_eq in H0. subst. reflexivity.
Qed.

Lemma synset_conditions_lexicon : forall d r ss,
  synset_conditions d None None None [r] ss = Z.eqb (sy_lexicon_rowid ss) r.
Proof. intros d r ss. unfold synset_conditions. simpl. apply z_in_single. Qed.

Lemma find_synsets_lexicon_In : forall d r q,
  In q (find_synsets d None [] None None [r] false false)
  <-> exists ss, In ss (lexicon_synsets d r) /\ q = synset_columns d ss.
Proof.
  intros d r q. unfold find_synsets. simpl nonempty. cbv iota.
  rewrite (In_dedup q_synset_eqb _ _ q_synset_eqb_eq). rewrite in_map_iff.
  unfold lexicon_synsets.
  rewrite (filter_ext _ _ (synset_conditions_lexicon d r)).
  split; intros [ss [H1 H2]]; exists ss; split; auto.
Qed.

(* on a synsets table in rowid order, DISTINCT drops nothing *)
Lemma find_synsets_lexicon : forall d r,
  incr (map sy_rowid (t_synsets d)) ->
  find_synsets d None [] None None [r] false false = map (synset_columns d) (lexicon_synsets d r).
Proof.
  intros d r H. unfold find_synsets. simpl nonempty. cbv iota.
  rewrite (filter_ext _ _ (synset_conditions_lexicon d r)).
  apply (dedup_key_id q_synset_eqb qy_rowid).
  - intros x y Hxy. apply q_synset_eqb_eq in Hxy. subst. reflexivity.
  - rewrite map_map. simpl. apply incr_NoDup. apply incr_filter. exact H.
Qed.

(* a sense row takes part in the joins of the sense queries iff its entry and synset rows exist *)
Definition sense_ok (d : db) (s : sense_row) : bool :=
  match sense_columns d s with Some _ => true | None => false end.

Lemma sense_columns_id : forall d s q e ss,
  sense_columns d s = Some (q, e, ss) -> qs_id q = se_id s /\ qs_rowid q = se_rowid s.
Proof.
  intros d s q e ss H. unfold sense_columns in H.
  destruct (find_by en_rowid (se_entry_rowid s) (t_entries d)); [|discriminate].
  destruct (find_by sy_rowid (se_synset_rowid s) (t_synsets d)); [|discriminate].
  injection H as <- _ _. split; reflexivity.
Qed.

Lemma find_senses_lexicon_In : forall d r x,
  In x (map qs_id (find_senses d None [] None [r] false false))
  <-> exists s, In s (t_senses d) /\ se_lexicon_rowid s = r /\ sense_ok d s = true /\ se_id s = x.
Proof.
  intros d r x. unfold find_senses. simpl truthy. simpl nonempty. cbv iota.
  rewrite in_map_iff. split.
  - intros [q [Hq Hin]]. rewrite (In_dedup q_sense_eqb _ _ q_sense_eqb_eq) in Hin.
    apply in_flat_map in Hin. destruct Hin as [s [Hs Hin]]. exists s.
    unfold sense_ok. destruct (sense_columns d s) as [[[q' e] ss]|] eqn:Hc; [|destruct Hin].
    cbn [andb] in Hin. rewrite z_in_single in Hin.
    destruct (Z.eqb (se_lexicon_rowid s) r) eqn:Hl; [|destruct Hin].
    destruct Hin as [Hin|[]]. subst q'. apply Z.eqb_eq in Hl.
    apply sense_columns_id in Hc. destruct Hc as [Hc _].
    repeat split; auto. congruence.
  - intros [s [Hs [Hl [Hok Hx]]]]. unfold sense_ok in Hok.
    destruct (sense_columns d s) as [[[q e] ss]|] eqn:Hc; [|discriminate].
    exists q. split.
    + apply sense_columns_id in Hc. destruct Hc as [Hc _]. congruence.
    + apply (In_dedup q_sense_eqb _ _ q_sense_eqb_eq). apply in_flat_map. exists s.
      split; [exact Hs|]. rewrite Hc. cbn [andb]. rewrite z_in_single.
      apply Z.eqb_eq in Hl. rewrite Hl. left. reflexivity.
Qed.

(* the identifier set _precheck builds for a lexicon, in terms of table rows *)
Lemma lexicon_idset_spec : forall d lex x,
  incr (map en_rowid (t_entries d)) ->
  In x (lexicon_idset d lex)
  <-> x = lex_id lex
      \/ (exists e, In e (exported_entries d (lex_rowid lex)) /\ en_id e = x)
      \/ (exists s, In s (t_senses d) /\ se_lexicon_rowid s = lex_rowid lex
                    /\ sense_ok d s = true /\ se_id s = x)
      \/ (exists ss, In ss (lexicon_synsets d (lex_rowid lex)) /\ sy_id ss = x).
Proof.
  intros d lex x Hi. unfold lexicon_idset. simpl In. rewrite !in_app_iff.
  rewrite (find_entries_lexicon d _ Hi). rewrite map_map. simpl.
  rewrite find_senses_lexicon_In. rewrite !in_map_iff.
  split.
  - intros [H|[H|[H|H]]].
    + left. auto.
    + right. left. destruct H as [e [H1 H2]]. exists e. auto.
    + right. right. left. exact H.
    + right. right. right. destruct H as [q [H1 H2]].
      apply find_synsets_lexicon_In in H2. destruct H2 as [ss [H2 H3]]. subst q.
      exists ss. auto.
  - intros [H|[H|[H|H]]].
    + left. auto.
    + right. left. destruct H as [e [H1 H2]]. exists e. auto.
    + right. right. left. exact H.
    + right. right. right. destruct H as [ss [H1 H2]].
      exists (synset_columns d ss). split; [exact H2|].
      apply find_synsets_lexicon_In. exists ss. auto.
Qed.

(* ================================================================== the shape of the exported values *)
Ltac binds H :=
  repeat (apply bind_Ok in H;
          let x := fresh "x" in let Hx := fresh "Hx" in destruct H as [x [Hx H]]).

Lemma export_lexicon_parts : forall d mt lex ver v,
  _export_lexicon d mt lex ver = Ok v ->
  let lexids := [lex_rowid lex] in
  let sbmap := make_sbmap (find_syntactic_behaviours d lexids) in
  _export_lexical_entries d mt lexids sbmap (ge_1_1 ver) = Ok (vlist v (K "entries"))
  /\ _export_synsets d mt lexids (ge_1_1 ver) = Ok (vlist v (K "synsets"))
  /\ vget v (K "id") = VStr (lex_id lex).
Proof.
  intros d mt lex ver v H. unfold _export_lexicon in H. cbv zeta in H. binds H.
  injection H as <-. cbv zeta. split; [|split].
  - rewrite Hx. reflexivity.
  - rewrite Hx0. reflexivity.
  - reflexivity.
Qed.

Lemma export_sense_fields : forall d mt lexids sbmap v11 q sv,
  _export_sense d mt lexids sbmap v11 q = Ok sv ->
  vget sv (K "id") = VStr (qs_id q)
  /\ vget sv (K "synset") = VStr (qs_synset_id q)
  /\ vlist sv (K "subcat") = (if v11 then map VStr (subcat_of sbmap (qs_id q)) else []).
Proof.
  intros d mt lexids sbmap v11 q sv H. unfold _export_sense in H. cbv zeta in H. binds H.
  injection H as <-. split; [reflexivity | split; [reflexivity|]].
  destruct v11; [|reflexivity].
  destruct (sbmap_has sbmap (qs_id q)) eqn:Hhas; [reflexivity|].
  (* id not in sbmap: sbmap.get(id, []) is empty, so would be the subcat *)
  assert (Hget : sbmap_get sbmap (qs_id q) = []).
  { unfold sbmap_get. unfold sbmap_has in Hhas.
    induction sbmap as [|kv m IHm]; [reflexivity|]. simpl in *.
    apply orb_false_iff in Hhas. destruct Hhas as [H1 H2]. rewrite H1. apply IHm. exact H2. }
  unfold subcat_of. rewrite Hget. reflexivity.
Qed.

Lemma sense_val_id_exported : forall d mt lexids sbmap v11 q sv,
  _export_sense d mt lexids sbmap v11 q = Ok sv -> sense_val_id sv = qs_id q.
Proof.
  intros d mt lexids sbmap v11 q sv H. apply export_sense_fields in H.
  destruct H as [H _]. unfold sense_val_id. rewrite H. reflexivity.
Qed.

Lemma export_entry_fields : forall d mt lexids sbmap v11 w ev,
  _export_entry d mt lexids sbmap v11 w = Ok ev ->
  qw_forms w <> []
  /\ vget ev (K "id") = VStr (qw_id w)
  /\ vget (vget ev (K "lemma")) (K "partOfSpeech") = VStr (qw_pos w)
  /\ vget (vget ev (K "lemma")) (K "writtenForm")
     :: map (fun f => vget f (K "writtenForm")) (vlist ev (K "forms"))
     = map (fun f => VStr (qf_form f)) (qw_forms w)
  /\ _export_senses d mt (qw_rowid w) lexids sbmap v11 = Ok (vlist ev (K "senses"))
  /\ vlist ev (K "frames")
     = (if v11 then []
        else _export_syntactic_behaviours_1_0 (map sense_val_id (vlist ev (K "senses"))) sbmap).
Proof.
  intros d mt lexids sbmap v11 w ev H. unfold _export_entry in H.
  destruct (qw_forms w) as [|f0 others] eqn:Hforms; [discriminate|].
  binds H. injection H as <-.
  split; [discriminate|]. split; [reflexivity|]. split; [reflexivity|].
  split; [|split].
  - change (vlist _ (K "forms")) with (map (form_val d v11) others).
    change (map (fun f => VStr (qf_form f)) (f0 :: others))
      with (VStr (qf_form f0) :: map (fun f => VStr (qf_form f)) others).
    f_equal. rewrite map_map. apply map_ext. intro f. reflexivity.
  - rewrite Hx. reflexivity.
  - destruct v11; reflexivity.
Qed.

Lemma export_synset_fields : forall d mt lexids v11 q sv,
  _export_synset d mt lexids v11 q = Ok sv ->
  vget sv (K "id") = VStr (qy_id q)
  /\ vget sv (K "ili") = VStr (synset_ili d q)
  /\ vget sv (K "partOfSpeech") = vos (qy_pos q)
  /\ vlist sv (K "members")
     = (if v11 then map (fun m => VStr (qs_id m)) (get_synset_members d (qy_rowid q) lexids) else []).
Proof.
  intros d mt lexids v11 q sv H. unfold _export_synset in H. cbv zeta in H. binds H.
  injection H as <-. split; [reflexivity|]. split; [reflexivity|]. split; [reflexivity|].
  destruct x as [ilidef|]; destruct v11; reflexivity.
Qed.

(* ================================================================== senses of an entry / of a synset *)
(* the sense rows with [src s = rowid] of lexicon r in [rank] order that take part in the join *)
Definition senses_by (d : db) (r : Z) (src : sense_row -> Z) (rank : sense_row -> option Z) (rowid : Z)
  : list sense_row :=
  filter (sense_ok d)
    (sort_by_oz rank
       (filter (fun s => Z.eqb (src s) rowid && Z.eqb (se_lexicon_rowid s) r) (t_senses d))).
Definition entry_senses (d : db) (r : Z) (e : entry_row) : list sense_row :=
  senses_by d r se_entry_rowid se_entry_rank (en_rowid e).
Definition synset_members (d : db) (r : Z) (ss : synset_row) : list sense_row :=
  senses_by d r se_synset_rowid se_synset_rank (sy_rowid ss).

Lemma senses_join : forall d (l : list sense_row),
  map qs_id (flat_map (fun s => match sense_columns d s with Some (q, _, _) => [q] | None => [] end) l)
  = map se_id (filter (sense_ok d) l).
Proof.
  intros d l. induction l as [|s l IH]; [reflexivity|].
  simpl. unfold sense_ok at 1. destruct (sense_columns d s) as [[[q e] ss]|] eqn:Hc.
  - simpl. apply sense_columns_id in Hc. destruct Hc as [Hc _]. rewrite Hc, IH. reflexivity.
  - simpl. exact IH.
Qed.

Lemma get_entry_senses_ids : forall d r e,
  map qs_id (get_entry_senses d (en_rowid e) [r]) = map se_id (entry_senses d r e).
Proof.
  intros d r e. unfold get_entry_senses, _get_senses, entry_senses, senses_by.
  rewrite senses_join. do 3 f_equal. apply filter_ext. intro s. rewrite z_in_single. reflexivity.
Qed.
Lemma get_synset_members_ids : forall d r ss,
  map qs_id (get_synset_members d (sy_rowid ss) [r]) = map se_id (synset_members d r ss).
Proof.
  intros d r ss. unfold get_synset_members, _get_senses, synset_members, senses_by.
  rewrite senses_join. do 3 f_equal. apply filter_ext. intro s. rewrite z_in_single. reflexivity.
Qed.

Lemma export_senses_ids : forall d mt rowid lexids sbmap v11 senses,
  _export_senses d mt rowid lexids sbmap v11 = Ok senses ->
  map (fun s => vget s (K "id")) senses
  = map (fun q => VStr (qs_id q)) (get_entry_senses d rowid lexids)
  /\ map sense_val_id senses = map qs_id (get_entry_senses d rowid lexids).
Proof.
  intros d mt rowid lexids sbmap v11 senses H. unfold _export_senses in H.
  apply mapM_Forall2 in H. split.
  - apply Forall2_map_eq. apply (Forall2_impl _ _ _ _ (fun q sv _ _ Hq => proj1 (export_sense_fields _ _ _ _ _ _ _ Hq)) H).
  - apply Forall2_map_eq. apply (Forall2_impl _ _ _ _ (fun q sv _ _ Hq => sense_val_id_exported _ _ _ _ _ _ _ Hq) H).
Qed.

(* ================================================================== well-formedness (boolean) *)
(* the tables are in rowid order with distinct rowids (INTEGER PRIMARY KEY; the dump is ORDER BY rowid) *)
Definition wf_entry_rowids (d : db) : bool := incrb (map en_rowid (t_entries d)).
Definition wf_synset_rowids (d : db) : bool := incrb (map sy_rowid (t_synsets d)).
(* every entry has at least one form (add() always inserts the lemma) *)
Definition wf_entry_forms (d : db) : bool := forallb (fun e => nonempty (entry_forms d e)) (t_entries d).
(* senses.entry_rowid and senses.synset_rowid resolve (foreign keys) *)
Definition wf_sense_refs (d : db) : bool := forallb (sense_ok d) (t_senses d).
(* the senses of lexicon r belong to entries of lexicon r *)
Definition wf_sense_entries (d : db) (r : Z) : bool :=
  forallb (fun s => negb (Z.eqb (se_lexicon_rowid s) r)
                    || match find_by en_rowid (se_entry_rowid s) (t_entries d) with
                       | Some e => Z.eqb (en_lexicon_rowid e) r
                       | None => false
                       end) (t_senses d).

(* ================================================================== E2 *)
Definition entry_rel (d : db) (r : Z) (e : entry_row) (ev : val) : Prop :=
  vget ev (K "id") = VStr (en_id e)
  /\ vget (vget ev (K "lemma")) (K "partOfSpeech") = VStr (en_pos e)
  /\ vget (vget ev (K "lemma")) (K "writtenForm")
     :: map (fun f => vget f (K "writtenForm")) (vlist ev (K "forms"))
     = map (fun f => VStr (fm_form f)) (entry_forms d e)
  /\ map (fun s => vget s (K "id")) (vlist ev (K "senses"))
     = map (fun s => VStr (se_id s)) (entry_senses d r e).

Lemma exported_entries_Forall2 : forall d mt lex ver v,
  wf_entry_rowids d = true ->
  _export_lexicon d mt lex ver = Ok v ->
  Forall2 (fun e ev =>
             _export_entry d mt [lex_rowid lex]
               (make_sbmap (find_syntactic_behaviours d [lex_rowid lex])) (ge_1_1 ver)
               (word_of e (entry_forms d e)) = Ok ev)
          (exported_entries d (lex_rowid lex)) (vlist v (K "entries")).
Proof.
  intros d mt lex ver v Hwf H. apply export_lexicon_parts in H. cbv zeta in H.
  destruct H as [He _]. unfold _export_lexical_entries in He.
  rewrite (find_entries_lexicon d _ (incrb_incr _ Hwf)) in He.
  apply mapM_Forall2 in He. apply Forall2_map_l in He. exact He.
Qed.

Theorem E2_entries : forall d mt lex ver v,
  wf_entry_rowids d = true ->
  _export_lexicon d mt lex ver = Ok v ->
  Forall2 (entry_rel d (lex_rowid lex)) (exported_entries d (lex_rowid lex)) (vlist v (K "entries")).
Proof.
  intros d mt lex ver v Hwf H.
  pose proof (exported_entries_Forall2 d mt lex ver v Hwf H) as HF.
  apply (Forall2_impl (fun e ev =>
             _export_entry d mt [lex_rowid lex]
               (make_sbmap (find_syntactic_behaviours d [lex_rowid lex])) (ge_1_1 ver)
               (word_of e (entry_forms d e)) = Ok ev)); [|exact HF].
  intros e ev _ _ He. apply export_entry_fields in He.
  destruct He as [_ [Hid [Hpos [Hforms [Hsenses _]]]]].
  unfold entry_rel. split; [exact Hid|]. split; [exact Hpos|]. split.
  - rewrite Hforms. simpl qw_forms. rewrite map_map. reflexivity.
  - simpl qw_rowid in Hsenses. apply export_senses_ids in Hsenses. destruct Hsenses as [Hs _].
    rewrite Hs. rewrite <- (map_map qs_id VStr), get_entry_senses_ids, map_map. reflexivity.
Qed.

Lemma find_by_In : forall {T} (key : T -> Z) (k : Z) (l : list T) (x : T),
  find_by key k l = Some x -> In x l /\ key x = k.
Proof.
  intros T key k l x. induction l as [|y l IH]; simpl; intro H; [discriminate|].
  destruct (Z.eqb (key y) k) eqn:Hk.
  - injection H as <-. split; [left; reflexivity | apply Z.eqb_eq; exact Hk].
  - destruct (IH H) as [H1 H2]. split; [right; exact H1 | exact H2].
Qed.

Lemma filter_id : forall {T} (p : T -> bool) (l : list T),
  (forall x, In x l -> p x = true) -> filter p l = l.
Proof.
  intros T p l H. apply filter_true. apply forallb_forall. exact H.
Qed.

Lemma Forall2_In_l : forall {A B} (R : A -> B -> Prop) (l : list A) (l' : list B) (x : A),
  Forall2 R l l' -> In x l -> exists y, In y l' /\ R x y.
Proof.
  intros A B R l l' x H. induction H as [|a b l l' Hab Hrest IH]; intro Hin.
  - destruct Hin.
  - destruct Hin as [Hin|Hin].
    + subst a. exists b. split; [left; reflexivity | exact Hab].
    + destruct (IH Hin) as [y [Hy HR]]. exists y. split; [right; exact Hy | exact HR].
Qed.
Lemma Forall2_In_r : forall {A B} (R : A -> B -> Prop) (l : list A) (l' : list B) (y : B),
  Forall2 R l l' -> In y l' -> exists x, In x l /\ R x y.
Proof.
  intros A B R l l' y H. induction H as [|a b l l' Hab Hrest IH]; intro Hin.
  - destruct Hin.
  - destruct Hin as [Hin|Hin].
    + subst b. exists a. split; [left; reflexivity | exact Hab].
    + destruct (IH Hin) as [x [Hx HR]]. exists x. split; [right; exact Hx | exact HR].
Qed.

(* with the foreign keys in place the join drops no sense *)
Lemma senses_by_all : forall d r src rank rowid,
  wf_sense_refs d = true ->
  senses_by d r src rank rowid
  = sort_by_oz rank (filter (fun s => Z.eqb (src s) rowid && Z.eqb (se_lexicon_rowid s) r) (t_senses d)).
Proof.
  intros d r src rank rowid Hwf. unfold senses_by. apply filter_id. intros s Hs.
  unfold sort_by_oz in Hs. apply In_stable_sort in Hs. apply filter_In in Hs. destruct Hs as [Hs _].
  unfold wf_sense_refs in Hwf. rewrite forallb_forall in Hwf. apply Hwf. exact Hs.
Qed.

(* every entry row of the lexicon is exported when every entry has a form *)
Theorem E2_entries_all : forall d r,
  wf_entry_forms d = true -> exported_entries d r = lexicon_entries d r.
Proof.
  intros d r Hwf. unfold exported_entries. apply filter_id. intros e He.
  unfold lexicon_entries in He. apply filter_In in He. destruct He as [He _].
  unfold wf_entry_forms in Hwf. rewrite forallb_forall in Hwf. apply Hwf. exact He.
Qed.

(* nothing lost: every sense row of the lexicon is exported under its entry *)
Theorem E2_senses_all : forall d mt lex ver v s,
  wf_entry_rowids d = true -> wf_entry_forms d = true -> wf_sense_refs d = true ->
  wf_sense_entries d (lex_rowid lex) = true ->
  _export_lexicon d mt lex ver = Ok v ->
  In s (t_senses d) -> se_lexicon_rowid s = lex_rowid lex ->
  exists e ev, In e (lexicon_entries d (lex_rowid lex)) /\ en_rowid e = se_entry_rowid s
               /\ In ev (vlist v (K "entries")) /\ vget ev (K "id") = VStr (en_id e)
               /\ In (VStr (se_id s)) (map (fun sv => vget sv (K "id")) (vlist ev (K "senses"))).
Proof.
  intros d mt lex ver v s Hw1 Hw2 Hw3 Hw4 H Hs Hlex.
  pose proof (E2_entries d mt lex ver v Hw1 H) as HF.
  rewrite (E2_entries_all d _ Hw2) in HF.
  unfold wf_sense_entries in Hw4. rewrite forallb_forall in Hw4. specialize (Hw4 s Hs).
  rewrite Hlex, Z.eqb_refl in Hw4. simpl in Hw4.
  destruct (find_by en_rowid (se_entry_rowid s) (t_entries d)) as [e|] eqn:Hfind; [|discriminate].
  apply find_by_In in Hfind. destruct Hfind as [Hein Hekey].
  assert (Hel : In e (lexicon_entries d (lex_rowid lex))).
  { unfold lexicon_entries. apply filter_In. split; assumption. }
  destruct (Forall2_In_l _ _ _ e HF Hel) as [ev [Hev Hrel]].
  exists e, ev. destruct Hrel as [Hid [_ [_ Hsenses]]].
  split; [exact Hel|]. split; [exact Hekey|]. split; [exact Hev|]. split; [exact Hid|].
  rewrite Hsenses. apply in_map_iff. exists s. split; [reflexivity|].
  unfold entry_senses. rewrite (senses_by_all d _ _ _ _ Hw3).
  unfold sort_by_oz. apply In_stable_sort. apply filter_In. split; [exact Hs|].
  rewrite Hekey, Hlex, !Z.eqb_refl. reflexivity.
Qed.

(* nothing invented: an exported sense is a sense row of the lexicon attached to that entry *)
Theorem E2_senses_only : forall d r e s,
  In s (entry_senses d r e) ->
  In s (t_senses d) /\ se_lexicon_rowid s = r /\ se_entry_rowid s = en_rowid e.
Proof.
  intros d r e s H. unfold entry_senses, senses_by in H. apply filter_In in H. destruct H as [H _].
  unfold sort_by_oz in H. apply In_stable_sort in H. apply filter_In in H. destruct H as [H1 H2].
  apply andb_true_iff in H2. destruct H2 as [H2 H3]. apply Z.eqb_eq in H2. apply Z.eqb_eq in H3. auto.
Qed.

(* ================================================================== E2 (synsets), E4, E5 *)
Lemma exported_synsets_Forall2 : forall d mt lex ver v,
  wf_synset_rowids d = true ->
  _export_lexicon d mt lex ver = Ok v ->
  Forall2 (fun ss sv => _export_synset d mt [lex_rowid lex] (ge_1_1 ver) (synset_columns d ss) = Ok sv)
          (lexicon_synsets d (lex_rowid lex)) (vlist v (K "synsets")).
Proof.
  intros d mt lex ver v Hwf H. apply export_lexicon_parts in H. cbv zeta in H.
  destruct H as [_ [Hs _]]. unfold _export_synsets in Hs.
  rewrite (find_synsets_lexicon d _ (incrb_incr _ Hwf)) in Hs.
  apply mapM_Forall2 in Hs. apply Forall2_map_l in Hs. exact Hs.
Qed.

(* every synset row of the lexicon exactly once, in rowid order, with its id and pos *)
Theorem E2_synsets : forall d mt lex ver v,
  wf_synset_rowids d = true ->
  _export_lexicon d mt lex ver = Ok v ->
  Forall2 (fun ss sv => vget sv (K "id") = VStr (sy_id ss) /\ vget sv (K "partOfSpeech") = vos (sy_pos ss))
          (lexicon_synsets d (lex_rowid lex)) (vlist v (K "synsets")).
Proof.
  intros d mt lex ver v Hwf H.
  apply (Forall2_impl _ _ _ _ (fun ss sv _ _ Hq =>
           let F := export_synset_fields _ _ _ _ _ _ Hq in conj (proj1 F) (proj1 (proj2 (proj2 F))))
           (exported_synsets_Forall2 d mt lex ver v Hwf H)).
Qed.

(* --- E4 *)
Definition ili_row_of (d : db) (ss : synset_row) : option ili_row :=
  ofind_by il_rowid (sy_ili_rowid ss) (t_ilis d).
Definition has_proposed (d : db) (ss : synset_row) : bool :=
  existsb (fun p => oz_is (pi_synset_rowid p) (sy_rowid ss)) (t_proposed_ilis d).
(* what the implementation computes *)
Definition ili_spec (d : db) (ss : synset_row) : str :=
  match ili_row_of d ss with
  | Some i => if nonempty (il_id i) then il_id i
              else if has_proposed d ss then K "in" else []
  | None => if has_proposed d ss then K "in" else []
  end.

Lemma nonempty_map_filter : forall {A B} (f : A -> B) (p : A -> bool) (l : list A),
  nonempty (map f (filter p l)) = existsb p l.
Proof.
  intros A B f p l. induction l as [|x l IH]; simpl; [reflexivity|].
  destruct (p x); simpl; [reflexivity | exact IH].
Qed.

Lemma synset_ili_spec : forall d ss, synset_ili d (synset_columns d ss) = ili_spec d ss.
Proof.
  intros d ss. unfold synset_ili, ili_spec, ili_row_of. simpl qy_ili. simpl qy_rowid.
  unfold find_proposed_ilis. rewrite nonempty_map_filter.
  assert (Hex : existsb (fun p => oz_is (pi_synset_rowid p) (sy_rowid ss)
                                  && (if nonempty (@nil Z) then oz_in (pi_synset_rowid p)
                                        (map sy_rowid (filter (fun ss0 => z_in (sy_lexicon_rowid ss0) []) (t_synsets d)))
                                      else true))
                        (t_proposed_ilis d)
                = has_proposed d ss).
  { unfold has_proposed. induction (t_proposed_ilis d) as [|p l IHl]; [reflexivity|].
    simpl. rewrite andb_true_r. f_equal. exact IHl. }
  rewrite Hex. unfold ili_id_of.
  destruct (ofind_by il_rowid (sy_ili_rowid ss) (t_ilis d)) as [i|].
  - destruct (il_id i) as [|c s] eqn:Hid.
    + simpl. destruct (has_proposed d ss); reflexivity.
    + reflexivity.
  - simpl. destruct (has_proposed d ss); reflexivity.
Qed.

(* E4, as a function: the exported ili of every synset of the lexicon *)
Theorem E4_spec : forall d mt lex ver v,
  wf_synset_rowids d = true ->
  _export_lexicon d mt lex ver = Ok v ->
  Forall2 (fun ss sv => vget sv (K "ili") = VStr (ili_spec d ss))
          (lexicon_synsets d (lex_rowid lex)) (vlist v (K "synsets")).
Proof.
  intros d mt lex ver v Hwf H.
  apply (Forall2_impl (fun ss sv => _export_synset d mt [lex_rowid lex] (ge_1_1 ver) (synset_columns d ss) = Ok sv));
    [|exact (exported_synsets_Forall2 d mt lex ver v Hwf H)].
  intros ss sv _ _ Hq. apply export_synset_fields in Hq. destruct Hq as [_ [Hili _]].
  rewrite Hili, synset_ili_spec. reflexivity.
Qed.

(* no ILI is called "" or "in" *)
Definition ili_ids_ok (d : db) : bool :=
  forallb (fun i => nonempty (il_id i) && negb (str_eqb (il_id i) (K "in"))) (t_ilis d).

Definition ili_rel (d : db) (ss : synset_row) (sv : val) : Prop :=
  (vget sv (K "ili") = VStr (K "in") <-> ili_row_of d ss = None /\ has_proposed d ss = true)
  /\ (forall x, x <> K "in" -> x <> [] ->
        (vget sv (K "ili") = VStr x <-> exists i, ili_row_of d ss = Some i /\ il_id i = x))
  /\ (vget sv (K "ili") = VStr [] <-> ili_row_of d ss = None /\ has_proposed d ss = false).

Lemma VStr_inj : forall a b, VStr a = VStr b -> a = b.
Proof. intros a b H. injection H as H. exact H. Qed.

Lemma ili_spec_rel : forall d ss sv,
  ili_ids_ok d = true -> vget sv (K "ili") = VStr (ili_spec d ss) -> ili_rel d ss sv.
Proof.
  intros d ss sv Hok Hv. unfold ili_rel. rewrite Hv. unfold ili_spec.
  destruct (ili_row_of d ss) as [i|] eqn:Hrow.
  - assert (Hi : nonempty (il_id i) = true /\ il_id i <> K "in").
    { unfold ili_row_of, ofind_by in Hrow. destruct (sy_ili_rowid ss) as [z|]; [|discriminate].
      apply find_by_In in Hrow. destruct Hrow as [Hin _].
      unfold ili_ids_ok in Hok. rewrite forallb_forall in Hok. specialize (Hok i Hin).
      apply andb_true_iff in Hok. destruct Hok as [H1 H2]. split; [exact H1|].
      intro Heq. rewrite Heq, str_eqb_refl in H2. discriminate. }
    destruct Hi as [Hne Hnin]. rewrite Hne.
    split; [|split].
    + split; [intro H; apply VStr_inj in H; contradiction | intros [H _]; discriminate].
    + intros x Hx1 Hx2. split.
      * intro H. apply VStr_inj in H. exists i. split; [reflexivity | exact H].
      * intros [i' [H1 H2]]. injection H1 as <-. rewrite H2. reflexivity.
    + split; [|intros [H _]; discriminate].
      intro H. apply VStr_inj in H. rewrite H in Hne. discriminate.
  - destruct (has_proposed d ss).
    + split; [|split].
      * split; [intros _; split; reflexivity | intros _; reflexivity].
      * intros x Hx1 Hx2. split; [intro H; apply VStr_inj in H; congruence | intros [i [H _]]; discriminate].
      * split; [intro H; discriminate | intros [_ H]; discriminate].
    + split; [|split].
      * split; [intro H; discriminate | intros [_ H]; discriminate].
      * intros x Hx1 Hx2. split; [intro H; apply VStr_inj in H; congruence | intros [i [H _]]; discriminate].
      * split; [intros _; split; reflexivity | intros _; reflexivity].
Qed.

(* E4: ili = "in" iff no ILI row and a proposed_ilis row; ili = the ILI id iff ili_rowid resolves; else "" *)
Theorem E4 : forall d mt lex ver v,
  wf_synset_rowids d = true -> ili_ids_ok d = true ->
  _export_lexicon d mt lex ver = Ok v ->
  Forall2 (ili_rel d) (lexicon_synsets d (lex_rowid lex)) (vlist v (K "synsets")).
Proof.
  intros d mt lex ver v Hwf Hok H.
  apply (Forall2_impl _ _ _ _ (fun ss sv _ _ Hq => ili_spec_rel d ss sv Hok Hq) (E4_spec d mt lex ver v Hwf H)).
Qed.

(* --- E5 *)
Theorem E5 : forall d mt lex ver v,
  wf_synset_rowids d = true -> ge_1_1 ver = true ->
  _export_lexicon d mt lex ver = Ok v ->
  Forall2 (fun ss sv => vlist sv (K "members")
                        = map (fun s => VStr (se_id s)) (synset_members d (lex_rowid lex) ss))
          (lexicon_synsets d (lex_rowid lex)) (vlist v (K "synsets")).
Proof.
  intros d mt lex ver v Hwf Hv H.
  apply (Forall2_impl (fun ss sv => _export_synset d mt [lex_rowid lex] (ge_1_1 ver) (synset_columns d ss) = Ok sv));
    [|exact (exported_synsets_Forall2 d mt lex ver v Hwf H)].
  intros ss sv _ _ Hq. apply export_synset_fields in Hq. destruct Hq as [_ [_ [_ Hm]]].
  rewrite Hm, Hv. simpl qy_rowid.
  rewrite <- (map_map qs_id VStr), get_synset_members_ids, map_map. reflexivity.
Qed.

(* ================================================================== E3: syntactic behaviours *)
(* a syntactic_behaviour_senses row l links behaviour sb of lexicon r to a sense whose id is sid *)
Definition sb_link (d : db) (r : Z) (sid : str) (sbid : option str) (frame : str) : Prop :=
  exists sb l s,
    In sb (t_syntactic_behaviours d) /\ sb_lexicon_rowid sb = r
    /\ In l (t_syntactic_behaviour_senses d) /\ sbs_syntactic_behaviour_rowid l = sb_rowid sb
    /\ find_by se_rowid (sbs_sense_rowid l) (t_senses d) = Some s /\ se_id s = sid
    /\ sb_id sb = sbid /\ sb_frame sb = frame.

Lemma sorted_zvalues_single : forall r, sorted_zvalues [r] = [r].
Proof. intro r. reflexivity. Qed.

Lemma flat_map_single : forall {A B} (f : A -> list B) (x : A), flat_map f [x] = f x.
Proof. intros A B f x. simpl. apply app_nil_r. Qed.

Lemma sb_raw_rows_In : forall d r i f sid,
  In (i, f, sid) (sb_raw_rows d [r]) <-> sb_link d r sid i f.
Proof.
  intros d r i f sid. unfold sb_raw_rows. simpl nonempty. cbv iota.
  rewrite sorted_zvalues_single. rewrite flat_map_single.
  unfold sb_link. split.
  - intro H. apply in_flat_map in H. destruct H as [sb [Hsb H]].
    apply In_stable_sort in Hsb. apply filter_In in Hsb. destruct Hsb as [Hsb Hlex].
    apply in_flat_map in H. destruct H as [l [Hl H]].
    apply filter_In in Hl. destruct Hl as [Hl Hrow].
    destruct (find_by se_rowid (sbs_sense_rowid l) (t_senses d)) as [s|] eqn:Hfind; [|destruct H].
    destruct H as [H|[]]. injection H as H1 H2 H3.
    exists sb, l, s. apply Z.eqb_eq in Hlex. apply Z.eqb_eq in Hrow.
    repeat split; assumption.
  - intros [sb [l [s [Hsb [Hlex [Hl [Hrow [Hfind [Hsid [Hi Hf]]]]]]]]]].
    apply in_flat_map. exists sb. split.
    + apply In_stable_sort. apply filter_In. split; [exact Hsb | apply Z.eqb_eq; exact Hlex].
    + apply in_flat_map. exists l. split.
      * apply filter_In. split; [exact Hl | apply Z.eqb_eq; exact Hrow].
      * rewrite Hfind. left. subst. reflexivity.
Qed.

Lemma make_sbmap_group : forall rows,
  make_sbmap (group_sb rows) = map (fun row => match row with (i, f, s) => (s, (i, f)) end) rows.
Proof.
  induction rows as [|[[i f] s] rest IH]; [reflexivity|].
  simpl group_sb. destruct (group_sb rest) as [|[[i' f'] ss] gs] eqn:Hg.
  - simpl in IH. simpl. rewrite <- IH. reflexivity.
  - destruct (ostr_eqb i i' && str_eqb f f') eqn:Heq.
    + apply andb_true_iff in Heq. destruct Heq as [H1 H2].
      apply ostr_eqb_eq in H1. apply str_eqb_eq in H2. subst i' f'.
      simpl. simpl in IH. rewrite <- IH. reflexivity.
    + simpl. simpl in IH. rewrite <- IH. reflexivity.
Qed.

Lemma sbmap_get_In : forall d r sid i f,
  In (i, f) (sbmap_get (make_sbmap (find_syntactic_behaviours d [r])) sid) <-> sb_link d r sid i f.
Proof.
  intros d r sid i f. unfold find_syntactic_behaviours. rewrite make_sbmap_group.
  rewrite <- sb_raw_rows_In. unfold sbmap_get. rewrite in_map_iff. split.
  - intros [[s' [i' f']] [Heq Hin]]. simpl in Heq. injection Heq as -> ->.
    apply filter_In in Hin. destruct Hin as [Hin Hs]. simpl in Hs. apply str_eqb_eq in Hs. subst s'.
    apply in_map_iff in Hin. destruct Hin as [[[i2 f2] s2] [Heq Hin]]. injection Heq as -> -> ->.
    exact Hin.
  - intro H. exists (sid, (i, f)). split; [reflexivity|]. apply filter_In. split.
    + apply in_map_iff. exists (i, f, sid). split; [reflexivity | exact H].
    + simpl. apply str_eqb_refl.
Qed.

Lemma In_VStr_map : forall x l, In (VStr x) (map VStr l) <-> In x l.
Proof.
  intros x l. rewrite in_map_iff. split.
  - intros [y [Hy Hin]]. apply VStr_inj in Hy. subst. exact Hin.
  - intro H. exists x. split; [reflexivity | exact H].
Qed.

(* the ids of the behaviours linked to a sense id: what subcat must contain *)
Lemma subcat_of_In : forall d r sid x,
  In x (subcat_of (make_sbmap (find_syntactic_behaviours d [r])) sid)
  <-> x <> [] /\ exists f, sb_link d r sid (Some x) f.
Proof.
  intros d r sid x. unfold subcat_of. rewrite In_stable_sort. rewrite in_flat_map. split.
  - intros [[i f] [Hin Hx]]. simpl in Hx. destruct i as [[|c s]|]; try (destruct Hx; fail).
    destruct Hx as [Hx|[]]. subst x. split; [discriminate|]. exists f.
    apply sbmap_get_In. exact Hin.
  - intros [Hne [f Hl]]. exists (Some x, f). split; [apply sbmap_get_In; exact Hl|].
    simpl. destruct x as [|c s]; [contradiction | left; reflexivity].
Qed.

(* every exported entry / sense comes from the export of some query row *)
Lemma exported_entry_origin : forall d mt lex ver v ev,
  _export_lexicon d mt lex ver = Ok v -> In ev (vlist v (K "entries")) ->
  exists w, _export_entry d mt [lex_rowid lex]
              (make_sbmap (find_syntactic_behaviours d [lex_rowid lex])) (ge_1_1 ver) w = Ok ev.
Proof.
  intros d mt lex ver v ev H Hin. apply export_lexicon_parts in H. cbv zeta in H.
  destruct H as [He _]. unfold _export_lexical_entries in He. apply mapM_Forall2 in He.
  destruct (Forall2_In_r _ _ _ ev He Hin) as [w [_ Hw]]. exists w. exact Hw.
Qed.

(* E3 for version >= 1.1: the subcat of an exported sense holds exactly the (non-empty) ids of the
   behaviours of the lexicon linked to that sense id *)
Theorem E3_subcat : forall d mt lex ver v ev sv x,
  ge_1_1 ver = true ->
  _export_lexicon d mt lex ver = Ok v ->
  In ev (vlist v (K "entries")) -> In sv (vlist ev (K "senses")) ->
  (In (VStr x) (vlist sv (K "subcat"))
   <-> x <> [] /\ exists f, sb_link d (lex_rowid lex) (sense_val_id sv) (Some x) f).
Proof.
  intros d mt lex ver v ev sv x Hv H Hev Hsv.
  destruct (exported_entry_origin d mt lex ver v ev H Hev) as [w Hw].
  apply export_entry_fields in Hw. destruct Hw as [_ [_ [_ [_ [Hsenses _]]]]].
  unfold _export_senses in Hsenses. apply mapM_Forall2 in Hsenses.
  destruct (Forall2_In_r _ _ _ sv Hsenses Hsv) as [q [_ Hq]].
  pose proof (sense_val_id_exported _ _ _ _ _ _ _ Hq) as Hid.
  apply export_sense_fields in Hq. destruct Hq as [_ [_ Hsub]].
  rewrite Hsub, Hv, Hid. rewrite In_VStr_map. apply subcat_of_In.
Qed.

(* E3 for version 1.0: the frames of an exported entry list exactly the (frame, sense id) pairs
   linked through syntactic_behaviour_senses, for the senses of that entry *)
Theorem E3_frames_1_0 : forall d mt lex ver v ev fr sid,
  ge_1_1 ver = false ->
  _export_lexicon d mt lex ver = Ok v ->
  In ev (vlist v (K "entries")) ->
  ((exists fv, In fv (vlist ev (K "frames"))
               /\ vget fv (K "subcategorizationFrame") = VStr fr
               /\ In (VStr sid) (vlist fv (K "senses")))
   <-> (exists sv, In sv (vlist ev (K "senses")) /\ sense_val_id sv = sid)
       /\ exists i, sb_link d (lex_rowid lex) sid i fr).
Proof.
  intros d mt lex ver v ev fr sid Hv H Hev.
  destruct (exported_entry_origin d mt lex ver v ev H Hev) as [w Hw].
  apply export_entry_fields in Hw. destruct Hw as [_ [_ [_ [_ [_ Hframes]]]]].
  rewrite Hv in Hframes. rewrite Hframes. clear Hframes.
  unfold _export_syntactic_behaviours_1_0.
  set (sbmap := make_sbmap (find_syntactic_behaviours d [lex_rowid lex])).
  set (ids := map sense_val_id (vlist ev (K "senses"))).
  set (pairs := flat_map (fun sid0 => map (fun p => (snd p, sid0)) (sbmap_get sbmap sid0)) ids).
  assert (Hpairs : forall fr0 sid0, In (fr0, sid0) pairs
                     <-> In sid0 ids /\ exists i, sb_link d (lex_rowid lex) sid0 i fr0).
  { intros fr0 sid0. unfold pairs. rewrite in_flat_map. split.
    - intros [s1 [Hs1 Hin]]. apply in_map_iff in Hin. destruct Hin as [[i f] [Heq Hin]].
      simpl in Heq. injection Heq as -> ->. split; [exact Hs1|]. exists i.
      apply sbmap_get_In. exact Hin.
    - intros [Hs1 [i Hl]]. exists sid0. split; [exact Hs1|]. apply in_map_iff.
      exists (i, fr0). split; [reflexivity | apply sbmap_get_In; exact Hl]. }
  assert (Hids : In sid ids <-> exists sv, In sv (vlist ev (K "senses")) /\ sense_val_id sv = sid).
  { unfold ids. rewrite in_map_iff. split; intros [sv [H1 H2]]; exists sv; auto. }
  rewrite <- Hids, <- Hpairs. split.
  - intros [fv [Hfv [Hfr Hsid]]]. apply in_map_iff in Hfv. destruct Hfv as [frame [<- Hframe]].
    change (vget _ (K "subcategorizationFrame")) with (VStr frame) in Hfr.
    apply VStr_inj in Hfr. subst frame.
    change (vlist _ (K "senses"))
      with (map VStr (sorted_values (map snd (filter (fun p => str_eqb (fst p) fr) pairs)))) in Hsid.
    apply In_VStr_map in Hsid. unfold sorted_values in Hsid. apply In_stable_sort in Hsid.
    rewrite (In_dedup str_eqb) in Hsid; [|intros a b Hab; apply str_eqb_eq; exact Hab].
    apply in_map_iff in Hsid. destruct Hsid as [[f0 s0] [Heq Hin]]. simpl in Heq. subst s0.
    apply filter_In in Hin. destruct Hin as [Hin Hf0]. simpl in Hf0. apply str_eqb_eq in Hf0. subst f0.
    exact Hin.
  - intro Hin.
    exists (VDict [(K "subcategorizationFrame", VStr fr);
                   (K "senses",
                    VList (map VStr (sorted_values
                                       (map snd (filter (fun p => str_eqb (fst p) fr) pairs)))))]).
    split; [|split].
    + apply in_map_iff. exists fr. split; [reflexivity|].
      apply (In_dedup str_eqb); [intros a b Hab; apply str_eqb_eq; exact Hab|].
      apply in_map_iff. exists (fr, sid). split; [reflexivity | exact Hin].
    + reflexivity.
    + change (vlist _ (K "senses"))
        with (map VStr (sorted_values (map snd (filter (fun p => str_eqb (fst p) fr) pairs)))).
      apply In_VStr_map. unfold sorted_values. apply In_stable_sort.
      apply (In_dedup str_eqb); [intros a b Hab; apply str_eqb_eq; exact Hab|].
      apply in_map_iff. exists (fr, sid). split; [reflexivity|].
      apply filter_In. split; [exact Hin | simpl; apply str_eqb_refl].
Qed.

(* ================================================================== E2: the lemma is the rank-0 form *)
Lemma oz_leb_refl : forall a, oz_leb a a = true.
Proof. intros [a|]; simpl; [apply Z.leb_refl | reflexivity]. Qed.
Lemma oz_leb_trans : forall a b c, oz_leb a b = true -> oz_leb b c = true -> oz_leb a c = true.
Proof.
  intros [a|] [b|] [c|]; simpl; intros H1 H2; try reflexivity; try discriminate.
  apply Z.leb_le in H1. apply Z.leb_le in H2. apply Z.leb_le. lia.
Qed.
Lemma oz_leb_total : forall a b, oz_leb a b = false -> oz_leb b a = true.
Proof.
  intros [a|] [b|]; simpl; intro H; try reflexivity; try discriminate.
  apply Z.leb_gt in H. apply Z.leb_le. lia.
Qed.

(* the head of the sorted list is a minimum *)
Lemma sort_by_oz_hd : forall {T} (key : T -> option Z) (l : list T) (h : T) (t : list T),
  sort_by_oz key l = h :: t -> forall x, In x l -> oz_leb (key h) (key x) = true.
Proof.
  intros T key l. unfold sort_by_oz. induction l as [|y l IH]; intros h t Hs x Hx.
  - destruct Hx.
  - simpl in Hs. destruct (stable_sort (fun a b => oz_leb (key a) (key b)) l) as [|h' t'] eqn:Hsl.
    + simpl in Hs. injection Hs as <- _. destruct Hx as [Hx|Hx].
      * subst x. apply oz_leb_refl.
      * assert (Hin : In x (stable_sort (fun a b => oz_leb (key a) (key b)) l))
          by (apply In_stable_sort; exact Hx).
        rewrite Hsl in Hin. destruct Hin.
    + simpl in Hs. destruct (oz_leb (key y) (key h')) eqn:Hle.
      * injection Hs as <- _. destruct Hx as [Hx|Hx].
        -- subst x. apply oz_leb_refl.
        -- apply (oz_leb_trans _ (key h')); [exact Hle | apply (IH h' t' eq_refl x Hx)].
      * injection Hs as <- _. destruct Hx as [Hx|Hx].
        -- subst x. apply oz_leb_total. exact Hle.
        -- apply (IH h' t' eq_refl x Hx).
Qed.

(* every entry has a form of rank 0 and no form with a NULL or negative rank *)
Definition wf_form_ranks (d : db) : bool :=
  forallb (fun e => existsb (fun f => oz_is (fm_rank f) 0) (forms_of d e)
                    && forallb (fun f => match fm_rank f with Some z => Z.leb 0 z | None => false end)
                               (forms_of d e)) (t_entries d).

Lemma entry_forms_hd_rank0 : forall d e h t,
  wf_form_ranks d = true -> In e (t_entries d) ->
  entry_forms d e = h :: t -> In h (forms_of d e) /\ fm_rank h = Some 0.
Proof.
  intros d e h t Hwf He Hs. unfold wf_form_ranks in Hwf. rewrite forallb_forall in Hwf.
  specialize (Hwf e He). apply andb_true_iff in Hwf. destruct Hwf as [Hex Hall].
  assert (Hh : In h (forms_of d e)).
  { unfold entry_forms, sort_by_oz in Hs.
    apply (In_stable_sort (fun a b => oz_leb (fm_rank a) (fm_rank b))). rewrite Hs. left. reflexivity. }
  split; [exact Hh|].
  apply existsb_exists in Hex. destruct Hex as [f0 [Hf0 Hr0]].
  pose proof (sort_by_oz_hd fm_rank (forms_of d e) h t Hs f0 Hf0) as Hmin.
  rewrite forallb_forall in Hall. specialize (Hall h Hh).
  destruct (fm_rank h) as [z|]; [|discriminate].
  destruct (fm_rank f0) as [z0|]; [|discriminate]. simpl in Hr0, Hmin.
  apply Z.eqb_eq in Hr0. subst z0. apply Z.leb_le in Hmin. apply Z.leb_le in Hall.
  f_equal. lia.
Qed.

(* for a pair (entry row, exported entry) related as in E2_entries *)
Theorem E2_lemma_rank0 : forall d r e ev,
  wf_form_ranks d = true ->
  In e (exported_entries d r) -> entry_rel d r e ev ->
  exists f0, In f0 (t_forms d) /\ fm_entry_rowid f0 = en_rowid e /\ fm_rank f0 = Some 0
             /\ vget (vget ev (K "lemma")) (K "writtenForm") = VStr (fm_form f0).
Proof.
  intros d r e ev Hw2 He Hrel.
  destruct Hrel as [_ [_ [Hforms _]]].
  unfold exported_entries, lexicon_entries in He. apply filter_In in He. destruct He as [He Hne].
  apply filter_In in He. destruct He as [He _].
  destruct (entry_forms d e) as [|h t] eqn:Hs; [discriminate|].
  destruct (entry_forms_hd_rank0 d e h t Hw2 He Hs) as [Hh Hr].
  exists h. unfold forms_of in Hh. apply filter_In in Hh. destruct Hh as [Hh1 Hh2].
  apply Z.eqb_eq in Hh2. simpl in Hforms. injection Hforms as Hlemma _. auto.
Qed.

(* ================================================================== E3, refined: the link is to this very sense row *)
Fixpoint nodup_strb (l : list str) : bool :=
  match l with
  | [] => true
  | x :: r => negb (str_mem x r) && nodup_strb r
  end.
Lemma nodup_strb_NoDup : forall l, nodup_strb l = true -> NoDup l.
Proof.
  induction l as [|x l IH]; simpl; intro H; [constructor|].
  apply andb_true_iff in H. destruct H as [H1 H2]. constructor; [|apply IH; exact H2].
  intro Hin. apply str_mem_In in Hin. rewrite Hin in H1. discriminate.
Qed.
Lemma NoDup_map_inj : forall {A B} (f : A -> B) (l : list A) (a b : A),
  NoDup (map f l) -> In a l -> In b l -> f a = f b -> a = b.
Proof.
  intros A B f l. induction l as [|x l IH]; intros a b Hnd Ha Hb Hf; [destruct Ha|].
  simpl in Hnd. inversion Hnd as [|y ys Hnotin Hnd']; subst.
  destruct Ha as [Ha|Ha]; destruct Hb as [Hb|Hb].
  - subst. reflexivity.
  - subst x. exfalso. apply Hnotin. rewrite Hf. apply in_map. exact Hb.
  - subst x. exfalso. apply Hnotin. rewrite <- Hf. apply in_map. exact Ha.
  - apply IH; assumption.
Qed.
Lemma find_by_unique : forall {T} (key : T -> Z) (l : list T) (x : T),
  NoDup (map key l) -> In x l -> find_by key (key x) l = Some x.
Proof.
  intros T key l x. induction l as [|y l IH]; intros Hnd Hin; [destruct Hin|].
  simpl in Hnd. inversion Hnd as [|k ks Hnotin Hnd']; subst. simpl.
  destruct Hin as [Hin|Hin].
  - subst y. rewrite Z.eqb_refl. reflexivity.
  - destruct (Z.eqb (key y) (key x)) eqn:Hk.
    + apply Z.eqb_eq in Hk. exfalso. apply Hnotin. rewrite Hk. apply in_map. exact Hin.
    + apply IH; assumption.
Qed.

Definition lexicon_senses (d : db) (r : Z) : list sense_row :=
  filter (fun s => Z.eqb (se_lexicon_rowid s) r) (t_senses d).
Definition wf_sense_rowids (d : db) : bool := incrb (map se_rowid (t_senses d)).
(* sense ids are unique within the lexicon (UNIQUE (id, lexicon_rowid)) *)
Definition wf_sense_ids (d : db) (r : Z) : bool := nodup_strb (map se_id (lexicon_senses d r)).
(* the behaviours of lexicon r are linked to senses of lexicon r only *)
Definition wf_sb_links (d : db) (r : Z) : bool :=
  forallb (fun l =>
    match find_by sb_rowid (sbs_syntactic_behaviour_rowid l) (t_syntactic_behaviours d),
          find_by se_rowid (sbs_sense_rowid l) (t_senses d) with
    | Some sb, Some s => negb (Z.eqb (sb_lexicon_rowid sb) r) || Z.eqb (se_lexicon_rowid s) r
    | _, _ => true
    end) (t_syntactic_behaviour_senses d).
Definition wf_sb_rowids (d : db) : bool := incrb (map sb_rowid (t_syntactic_behaviours d)).

(* a syntactic_behaviour_senses row links behaviour sb of lexicon r to the sense row s0 *)
Definition sb_link_row (d : db) (r : Z) (s0 : sense_row) (sbid : option str) (frame : str) : Prop :=
  exists sb l,
    In sb (t_syntactic_behaviours d) /\ sb_lexicon_rowid sb = r
    /\ In l (t_syntactic_behaviour_senses d) /\ sbs_syntactic_behaviour_rowid l = sb_rowid sb
    /\ sbs_sense_rowid l = se_rowid s0
    /\ sb_id sb = sbid /\ sb_frame sb = frame.

Theorem sb_link_this_sense : forall d r s0 i f,
  wf_sense_rowids d = true -> wf_sb_rowids d = true ->
  wf_sense_ids d r = true -> wf_sb_links d r = true ->
  In s0 (t_senses d) -> se_lexicon_rowid s0 = r ->
  (sb_link d r (se_id s0) i f <-> sb_link_row d r s0 i f).
Proof.
  intros d r s0 i f Hw1 Hw2 Hw3 Hw4 Hs0 Hlex0.
  apply incrb_incr in Hw1. apply incr_NoDup in Hw1.
  apply incrb_incr in Hw2. apply incr_NoDup in Hw2.
  apply nodup_strb_NoDup in Hw3. split.
  - intros [sb [l [s [Hsb [Hlex [Hl [Hrow [Hfind [Hsid [Hi Hf]]]]]]]]]].
    exists sb, l. repeat split; try assumption.
    unfold wf_sb_links in Hw4. rewrite forallb_forall in Hw4. specialize (Hw4 l Hl).
    rewrite Hrow, (find_by_unique sb_rowid _ sb Hw2 Hsb), Hfind in Hw4.
    rewrite Hlex, Z.eqb_refl in Hw4. simpl in Hw4. apply Z.eqb_eq in Hw4.
    apply find_by_In in Hfind. destruct Hfind as [Hsin Hkey].
    assert (Heq : s = s0).
    { apply (NoDup_map_inj se_id (lexicon_senses d r)); try assumption.
      - unfold lexicon_senses. apply filter_In. split; [exact Hsin | apply Z.eqb_eq; exact Hw4].
      - unfold lexicon_senses. apply filter_In. split; [exact Hs0 | apply Z.eqb_eq; exact Hlex0]. }
    subst s. symmetry. exact Hkey.
  - intros [sb [l [Hsb [Hlex [Hl [Hrow [Hsr [Hi Hf]]]]]]]].
    exists sb, l, s0. repeat split; try assumption.
    rewrite Hsr. apply find_by_unique; assumption.
Qed.

(* ================================================================== E1 *)
Theorem E1_precheck : forall d lexs,
  _precheck d lexs = Ok tt <-> pairwise_disjoint (map (lexicon_idset d) lexs).
Proof.
  intros d lexs. unfold _precheck. rewrite precheck_from_spec. split.
  - intros [_ H]. exact H.
  - intro H. split; [|exact H]. apply Forall_forall. intros x _ s Hs. destruct Hs.
Qed.
Theorem E1_precheck_error : forall d lexs,
  ~ pairwise_disjoint (map (lexicon_idset d) lexs) -> _precheck d lexs = WnError.
Proof.
  intros d lexs H. destruct (precheck_from_outcome d lexs []) as [Hok|Herr]; [|exact Herr].
  exfalso. apply H. apply E1_precheck. exact Hok.
Qed.
Definition E1_idset := lexicon_idset_spec.

(* ================================================================== examples on a real database *)
Require WnV.Samples.export_case_1_0.

Definition sample_db : db := db_of_sx (prepass (sx_nth 0 export_case_1_0.input_0)).
Definition sample_mt : mtab := meta_table (sx_nth 0 export_case_1_0.input_0).

(* the well-formedness predicates hold on the database of sample case_1_0 (lexicon rowid 1) *)
Example sample_wf :
  wf_entry_rowids sample_db = true /\ wf_synset_rowids sample_db = true
  /\ wf_entry_forms sample_db = true /\ wf_sense_refs sample_db = true
  /\ wf_sense_entries sample_db 1 = true /\ wf_form_ranks sample_db = true
  /\ wf_sense_rowids sample_db = true /\ wf_sb_rowids sample_db = true
  /\ wf_sense_ids sample_db 1 = true /\ wf_sb_links sample_db 1 = true
  /\ ili_ids_ok sample_db = true.
Proof. vm_compute. repeat split; reflexivity. Qed.

(* ... and the hypothesis "_export_lexicon ... = Ok v" of the theorems is satisfied there *)
Example sample_exports :
  match get_lexicon sample_db 1 with
  | Ok lex => match _export_lexicon sample_db sample_mt lex [1; 1],
                    _export_lexicon sample_db sample_mt lex [1; 0] with
              | Ok _, Ok _ => true
              | _, _ => false
              end
  | _ => false
  end = true.
Proof. vm_compute. reflexivity. Qed.

Example sample_precheck :
  _precheck sample_db (t_lexicons sample_db) = Ok tt
  /\ _precheck sample_db (t_lexicons sample_db ++ t_lexicons sample_db) = WnError.
Proof. vm_compute. split; reflexivity. Qed.

(* E4 without [ili_ids_ok] is false: an ILI whose id is "in".  The synset has an ILI row (and no
   proposed_ilis row), yet the exported ili is "in". *)
Definition empty_db : db :=
  {| t_ilis := []; t_proposed_ilis := []; t_lexicons := []; t_lexicon_dependencies := [];
     t_lexicon_extensions := []; t_entries := []; t_forms := []; t_pronunciations := [];
     t_tags := []; t_synsets := []; t_synset_relations := []; t_definitions := [];
     t_synset_examples := []; t_senses := []; t_sense_relations := [];
     t_sense_synset_relations := []; t_adjpositions := []; t_sense_examples := [];
     t_counts := []; t_syntactic_behaviours := []; t_syntactic_behaviour_senses := [];
     t_relation_types := []; t_ili_statuses := []; t_lexfiles := [] |}.
Definition cex_synset : synset_row :=
  {| sy_rowid := 1; sy_id := K "x-s1"; sy_lexicon_rowid := 1; sy_ili_rowid := Some 1;
     sy_pos := None; sy_lexicalized := true; sy_lexfile_rowid := None; sy_metadata := None |}.
Definition cex_db : db :=
  {| t_ilis := [{| il_rowid := 1; il_id := K "in"; il_status_rowid := 1;
                   il_definition := None; il_metadata := None |}];
     t_proposed_ilis := []; t_lexicons := []; t_lexicon_dependencies := [];
     t_lexicon_extensions := []; t_entries := []; t_forms := []; t_pronunciations := [];
     t_tags := []; t_synsets := [cex_synset]; t_synset_relations := []; t_definitions := [];
     t_synset_examples := []; t_senses := []; t_sense_relations := [];
     t_sense_synset_relations := []; t_adjpositions := []; t_sense_examples := [];
     t_counts := []; t_syntactic_behaviours := []; t_syntactic_behaviour_senses := [];
     t_relation_types := []; t_ili_statuses := []; t_lexfiles := [] |}.
Example E4_counterexample :
  ili_spec cex_db cex_synset = K "in"
  /\ ili_row_of cex_db cex_synset <> None /\ has_proposed cex_db cex_synset = false.
Proof. vm_compute. repeat split. discriminate. Qed.

(* ================================================================== the theorems *)
Print Assumptions E1_precheck.
Print Assumptions E1_precheck_error.
Print Assumptions E1_idset.
Print Assumptions E2_entries.
Print Assumptions E2_entries_all.
Print Assumptions E2_senses_all.
Print Assumptions E2_senses_only.
Print Assumptions E2_lemma_rank0.
Print Assumptions E2_synsets.
Print Assumptions E3_subcat.
Print Assumptions E3_frames_1_0.
Print Assumptions sb_link_this_sense.
Print Assumptions E4_spec.
Print Assumptions E4.
Print Assumptions E5.
Print Assumptions senses_by_all.
