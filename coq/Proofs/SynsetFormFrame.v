(* SynsetFormFrame.v — frame theorem for find_synsets WITH a form restriction.
   FrameProofs.find_synsets_frame covers forms = [] only: before the repair of F22 (find_synsets followed
   senses of unselected lexicons) the statement for forms <> [] was false.  With the repaired query
   (only senses of the selected lexicons link a form to a synset) it holds:
     1. find_synsets_forms_frame_In : the two results have the same members;
     2. a concrete pair of databases (the F22 situation) satisfying every hypothesis, with a non-empty result;
     3. find_synsets_forms_frame : the two result lists are equal, when additionally the relevant form rows
        (forms of the entry of some selected sense) appear in the same relative order. *)
From Coq Require Import ZArith List Bool Lia String.
Import ListNotations.
Require Import WnV.Base.Sx WnV.Model.Spec WnV.Model.Tables WnV.Model.Query WnV.Model.Core.
Require Import WnV.Proofs.CoreLemmas WnV.Proofs.QueryFacts WnV.Proofs.RelProofs WnV.Proofs.FrameProofs.
Local Open Scope Z_scope.

(* ================================================================== 1. membership *)

(* a condition that holds with a non-empty lexicon restriction selects the synset's lexicon *)
Lemma synset_conditions_sel : forall d id pos ili ids ss,
  ids <> [] -> synset_conditions d id pos ili ids ss = true -> sel ids (sy_lexicon_rowid ss) = true.
Proof.
  intros d id pos ili ids ss Hne H. apply nonempty_true in Hne. unfold synset_conditions in H. rewrite Hne in H.
  apply andb_true_iff in H. destruct H as [_ H]. exact H.
Qed.

Lemma synset_conditions_agree : forall da db id pos ili ids ss,
  t_ilis da = t_ilis db -> synset_conditions da id pos ili ids ss = synset_conditions db id pos ili ids ss.
Proof. intros da db id pos ili ids ss E. unfold synset_conditions. rewrite E. reflexivity. Qed.

(* one direction, for an arbitrary ordered pair of databases; every hypothesis is either symmetric or
   available in both directions (see agree_sense_forms_sym) *)
Lemma find_synsets_forms_incl : forall da db ids id forms pos ili norm saf q,
  ids <> [] -> db_ok db = true ->
  filter (fun s => sel ids (se_lexicon_rowid s)) (t_senses da) = filter (fun s => sel ids (se_lexicon_rowid s)) (t_senses db) ->
  agree_sense_forms da db ids ->
  filter (fun ss => sel ids (sy_lexicon_rowid ss)) (t_synsets da) = filter (fun ss => sel ids (sy_lexicon_rowid ss)) (t_synsets db) ->
  t_ilis da = t_ilis db ->
  In q (find_synsets da id forms pos ili ids norm saf) -> In q (find_synsets db id forms pos ili ids norm saf).
Proof.
  intros da db ids id forms pos ili norm saf q Hne Okb Hse Hf Hsy Hi H.
  apply find_synsets_iff in H. destruct H as [ss [Hss [-> [Hc Hform]]]].
  pose proof (synset_conditions_sel _ _ _ _ _ _ Hne Hc) as Hsel.
  assert (Hssb : In ss (t_synsets db)).
  { assert (In ss (filter (fun ss => sel ids (sy_lexicon_rowid ss)) (t_synsets da))) as G by (apply filter_In; tauto).
    rewrite Hsy in G. apply filter_In in G. tauto. }
  apply find_synsets_iff. exists ss. split; [exact Hssb|]. split; [apply synset_columns_agree; exact Hi|].
  split; [rewrite <- (synset_conditions_agree da db _ _ _ _ _ Hi); exact Hc|].
  intro Hfne. destruct (Hform Hfne) as [f [_s [Hfm [Hs [Es [El Ess]]]]]].
  assert (Hne' : nonempty ids = true) by (apply nonempty_true; exact Hne). rewrite Hne' in El.
  apply matching_forms_sound in Hfm. destruct Hfm as [Hfa Hm].
  exists f, _s.
  assert (Hsb : In _s (t_senses db)).
  { assert (In _s (filter (fun s => sel ids (se_lexicon_rowid s)) (t_senses da))) as G by (apply filter_In; tauto).
    rewrite Hse in G. apply filter_In in G. tauto. }
  assert (Hfb : In f (t_forms db)).
  { assert (In f (filter (fun f => Z.eqb (fm_entry_rowid f) (se_entry_rowid _s)) (t_forms da))) as G
      by (apply filter_In; split; [exact Hfa | apply Z.eqb_eq; symmetry; exact Es]).
    rewrite (Hf _s Hs El) in G. apply filter_In in G. tauto. }
  split; [apply matching_forms_complete; [exact (ok_forms db Okb) | exact Hfb | exact Hm]|].
  split; [exact Hsb|]. split; [exact Es|]. split; [rewrite Hne'; exact El|].
  apply find_by_Some in Ess. destruct Ess as [_ Ek]. rewrite <- Ek.
  apply find_by_unique; [exact (ok_synsets db Okb) | exact Hssb].
Qed.

(* agree_sense_forms is stated from the senses of the first database; since the selected senses are the same
   rows in both, the mirrored statement follows *)
Lemma agree_sense_forms_sym : forall d1 d2 ids,
  filter (fun s => sel ids (se_lexicon_rowid s)) (t_senses d1) = filter (fun s => sel ids (se_lexicon_rowid s)) (t_senses d2) ->
  agree_sense_forms d1 d2 ids -> agree_sense_forms d2 d1 ids.
Proof.
  intros d1 d2 ids Hse Hf s Hs Hsel. symmetry. apply Hf; [|exact Hsel].
  assert (In s (filter (fun s => sel ids (se_lexicon_rowid s)) (t_senses d2))) as G by (apply filter_In; tauto).
  rewrite <- Hse in G. apply filter_In in G. tauto.
Qed.

Theorem find_synsets_forms_frame_In : forall d1 d2 ids id forms pos ili norm saf q,
  ids <> [] -> db_ok d1 = true -> db_ok d2 = true ->
  agree_senses d1 d2 ids -> agree_sense_forms d1 d2 ids -> agree_synsets d1 d2 ids ->
  (In q (find_synsets d1 id forms pos ili ids norm saf) <-> In q (find_synsets d2 id forms pos ili ids norm saf)).
Proof.
  intros d1 d2 ids id forms pos ili norm saf q Hne Ok1 Ok2 [Hse _] Hf [Hsy Hi]. split.
  - apply find_synsets_forms_incl; assumption.
  - apply find_synsets_forms_incl; try assumption; try (symmetry; assumption).
    apply agree_sense_forms_sym; assumption.
Qed.

(* ================================================================== 2. non-vacuity: the F22 situation *)
(* Lexicon 1 is selected (ids = [1]); lexicon 2 is an unselected extension.
     ex_d1 : entry 1 "e1" (lexicon 1) with form "a"; synsets 1 "ss1" and 2 "ss2" (lexicon 1);
             sense 1 (lexicon 1): entry 1 -> synset 1.
     ex_d2 = ex_d1 plus rows of lexicon 2 only:
             sense 2 (lexicon 2): entry 1 -> synset 2    -- an unselected sense attached to a selected entry
                                                            and pointing to ANOTHER selected synset (F22);
             entry 2 "e2" with form "a", synset 3 "ss3", sense 3: entry 2 -> synset 3 (all lexicon 2).
   Searching the form "a" in lexicon 1 must return ss1 only, on both databases; before the repair ex_d2 also
   returned ss2 (through sense 2). *)
Definition ex_lex (r : Z) (id : string) : lexicon_row :=
  {| lex_rowid := r; lex_id := S_ id; lex_label := S_ "l"; lex_language := S_ "en"; lex_email := S_ "m";
     lex_license := S_ "c"; lex_version := S_ "1"; lex_url := None; lex_citation := None; lex_logo := None;
     lex_metadata := None; lex_modified := false |}.
Definition ex_entry (r lex : Z) (id : string) : entry_row :=
  {| en_rowid := r; en_id := S_ id; en_lexicon_rowid := lex; en_pos := S_ "n"; en_metadata := None |}.
Definition ex_form (r lex e : Z) (form : string) : form_row :=
  {| fm_rowid := r; fm_id := None; fm_lexicon_rowid := lex; fm_entry_rowid := e; fm_form := S_ form;
     fm_normalized_form := None; fm_script := None; fm_rank := Some 0 |}.
Definition ex_synset (r lex : Z) (id : string) : synset_row :=
  {| sy_rowid := r; sy_id := S_ id; sy_lexicon_rowid := lex; sy_ili_rowid := None; sy_pos := Some (S_ "n");
     sy_lexicalized := true; sy_lexfile_rowid := None; sy_metadata := None |}.
Definition ex_sense (r lex e y : Z) (id : string) : sense_row :=
  {| se_rowid := r; se_id := S_ id; se_lexicon_rowid := lex; se_entry_rowid := e; se_entry_rank := Some 1;
     se_synset_rowid := y; se_synset_rank := Some 1; se_lexicalized := true; se_metadata := None |}.

Definition ex_mk (lexs : list lexicon_row) (es : list entry_row) (fs : list form_row) (ys : list synset_row)
                 (ss : list sense_row) : db :=
  {| t_ilis := []; t_proposed_ilis := []; t_lexicons := lexs; t_lexicon_dependencies := [];
     t_lexicon_extensions := []; t_entries := es; t_forms := fs; t_pronunciations := []; t_tags := [];
     t_synsets := ys; t_synset_relations := []; t_definitions := []; t_synset_examples := [];
     t_senses := ss; t_sense_relations := []; t_sense_synset_relations := []; t_adjpositions := [];
     t_sense_examples := []; t_counts := []; t_syntactic_behaviours := []; t_syntactic_behaviour_senses := [];
     t_relation_types := []; t_ili_statuses := []; t_lexfiles := [] |}.

Definition ex_d1 : db :=
  ex_mk [ex_lex 1 "base"] [ex_entry 1 1 "e1"] [ex_form 1 1 1 "a"]
        [ex_synset 1 1 "ss1"; ex_synset 2 1 "ss2"] [ex_sense 1 1 1 1 "s1"].
Definition ex_d2 : db :=
  ex_mk [ex_lex 1 "base"; ex_lex 2 "ext"] [ex_entry 1 1 "e1"; ex_entry 2 2 "e2"]
        [ex_form 1 1 1 "a"; ex_form 2 2 2 "a"]
        [ex_synset 1 1 "ss1"; ex_synset 2 1 "ss2"; ex_synset 3 2 "ss3"]
        [ex_sense 1 1 1 1 "s1"; ex_sense 2 2 1 2 "x2"; ex_sense 3 2 2 3 "x3"].
Definition ex_ids : list Z := [1].

Example ex_distinct : ex_d1 <> ex_d2.
Proof. intro H. apply (f_equal (fun d => List.length (t_senses d))) in H. vm_compute in H. discriminate H. Qed.
Example ex_ids_nonempty : ex_ids <> [].
Proof. discriminate. Qed.
Example ex_ok1 : db_ok ex_d1 = true.
Proof. vm_compute. reflexivity. Qed.
Example ex_ok2 : db_ok ex_d2 = true.
Proof. vm_compute. reflexivity. Qed.
Example ex_agree_senses : agree_senses ex_d1 ex_d2 ex_ids.
Proof.
  split; [vm_compute; reflexivity|]. intros s Hin _. simpl in Hin. destruct Hin as [<-|[]]. vm_compute. reflexivity.
Qed.
Example ex_agree_sense_forms : agree_sense_forms ex_d1 ex_d2 ex_ids.
Proof. intros s Hin _. simpl in Hin. destruct Hin as [<-|[]]. vm_compute. reflexivity. Qed.
Example ex_agree_synsets : agree_synsets ex_d1 ex_d2 ex_ids.
Proof. split; vm_compute; reflexivity. Qed.

(* the sense of the unselected lexicon is attached to the selected entry 1 and points to the selected synset 2 *)
Example ex_F22_sense :
  exists s e ss, In s (t_senses ex_d2) /\ ~ In s (t_senses ex_d1) /\ sel ex_ids (se_lexicon_rowid s) = false
    /\ find_by en_rowid (se_entry_rowid s) (t_entries ex_d2) = Some e /\ sel ex_ids (en_lexicon_rowid e) = true
    /\ find_by sy_rowid (se_synset_rowid s) (t_synsets ex_d2) = Some ss /\ sel ex_ids (sy_lexicon_rowid ss) = true
    /\ sy_rowid ss = 2.
Proof.
  exists (ex_sense 2 2 1 2 "x2"), (ex_entry 1 1 "e1"), (ex_synset 2 1 "ss2").
  split; [right; left; reflexivity|]. split; [intros [H|[]]; vm_compute in H; discriminate H|].
  repeat split; vm_compute; reflexivity.
Qed.

(* the results for the form "a" are equal and non-empty: ss1 only *)
Example ex_results :
  find_synsets ex_d1 None [S_ "a"] None None ex_ids false false = find_synsets ex_d2 None [S_ "a"] None None ex_ids false false
  /\ find_synsets ex_d2 None [S_ "a"] None None ex_ids false false
     = [ {| qy_id := S_ "ss1"; qy_pos := Some (S_ "n"); qy_ili := None; qy_lexid := 1; qy_rowid := 1 |} ].
Proof. split; vm_compute; reflexivity. Qed.

(* the added rows do matter to the query: with lexicon 2 selected as well the results differ *)
Example ex_results_all_lexicons :
  List.length (find_synsets ex_d1 None [S_ "a"] None None [1; 2] false false) = 1%nat
  /\ List.length (find_synsets ex_d2 None [S_ "a"] None None [1; 2] false false) = 3%nat.
Proof. split; vm_compute; reflexivity. Qed.

(* the theorem applied to the concrete pair: every hypothesis is discharged *)
Example ex_frame_instance : forall id forms pos ili norm saf q,
  In q (find_synsets ex_d1 id forms pos ili ex_ids norm saf) <-> In q (find_synsets ex_d2 id forms pos ili ex_ids norm saf).
Proof.
  intros. apply find_synsets_forms_frame_In.
  - exact ex_ids_nonempty. - exact ex_ok1. - exact ex_ok2.
  - exact ex_agree_senses. - exact ex_agree_sense_forms. - exact ex_agree_synsets.
Qed.

(* ================================================================== 3. list equality *)
(* [relevant d ids f]: some sense of a selected lexicon belongs to the entry of the form row f.  Only these form
   rows can contribute to the result (forms are not filtered by lexicon in the query, so such a row may itself
   belong to an unselected extension). *)
Definition relevant (d : db) (ids : list Z) (f : form_row) : bool :=
  existsb (fun s => Z.eqb (se_entry_rowid s) (fm_entry_rowid f))
          (filter (fun s => sel ids (se_lexicon_rowid s)) (t_senses d)).

(* Needed for the ORDER of the result (membership does not need it): the rows are produced in the order in which
   the form index yields the matching form rows, i.e. for one word form in the order of t_forms; agree_sense_forms
   fixes that order only among the forms of ONE entry, while two relevant forms of different entries could be
   interleaved differently in the two databases.  This hypothesis is of the same kind (the two databases agree on
   the form rows that selected senses point to through their entry) and implies agree_sense_forms. *)
Definition agree_relevant_forms (d1 d2 : db) (ids : list Z) : Prop :=
  filter (relevant d1 ids) (t_forms d1) = filter (relevant d1 ids) (t_forms d2).

Lemma agree_relevant_sense_forms : forall d1 d2 ids,
  agree_relevant_forms d1 d2 ids -> agree_sense_forms d1 d2 ids.
Proof.
  intros d1 d2 ids H s Hs Hsel.
  assert (E : forall T, filter (fun f => Z.eqb (fm_entry_rowid f) (se_entry_rowid s)) T
                        = filter (fun f => Z.eqb (fm_entry_rowid f) (se_entry_rowid s)) (filter (relevant d1 ids) T)).
  { intro T. rewrite <- filter_filter_and. apply filter_ext_in'. intros f _.
    destruct (Z.eqb (fm_entry_rowid f) (se_entry_rowid s)) eqn:E; [|reflexivity]. simpl. symmetry.
    unfold relevant. apply existsb_exists. exists s. split; [apply filter_In; tauto|].
    apply Z.eqb_eq. apply Z.eqb_eq in E. symmetry. exact E. }
  rewrite (E (t_forms d1)), (E (t_forms d2)). unfold agree_relevant_forms in H. rewrite H. reflexivity.
Qed.

(* --- list lemmas --- *)
Lemma filter_comm : forall T (p q : T -> bool) l, filter p (filter q l) = filter q (filter p l).
Proof.
  intros T p q l. rewrite <- !filter_filter_and. apply filter_ext_in'. intros x _. apply andb_comm.
Qed.

Lemma filter_flat_map_filter : forall T U (p : T -> bool) (c : U -> T -> bool) (l : list T) (vals : list U),
  filter p (flat_map (fun w => filter (c w) l) vals) = flat_map (fun w => filter (c w) (filter p l)) vals.
Proof.
  intros T U p c l vals. induction vals as [|w vals IH]; [reflexivity|]. simpl.
  rewrite filter_app, IH, filter_comm. reflexivity.
Qed.

Lemma existsb_false_filter_nil : forall T (p : T -> bool) l, existsb p l = false -> filter p l = [].
Proof.
  intros T p l. induction l as [|x l IH]; [reflexivity|]. simpl. intro H. apply orb_false_iff in H.
  destruct H as [Hx Hl]. rewrite Hx. apply IH. exact Hl.
Qed.

(* dedup commutes with a filter that cannot tell apart rows identified by the dedup key *)
Lemma filter_dedup_aux : forall T (eqb : T -> T -> bool) (p : T -> bool) (U : T -> Prop),
  (forall a b, U a -> U b -> eqb a b = true -> p a = p b) ->
  forall l seen, (forall x, In x l -> U x) -> (forall x, In x seen -> U x) ->
  filter p (dedup_aux eqb seen l) = dedup_aux eqb (filter p seen) (filter p l).
Proof.
  intros T eqb p U Hc l. induction l as [|x l IH]; intros seen Hl Hs; [reflexivity|]. simpl.
  assert (Ux : U x) by (apply Hl; left; reflexivity).
  assert (Hl' : forall y, In y l -> U y) by (intros y Hy; apply Hl; right; exact Hy).
  assert (Hs' : forall y, In y (x :: seen) -> U y) by (intros y [<-|Hy]; [exact Ux | apply Hs; exact Hy]).
  destruct (p x) eqn:Px.
  - assert (Ee : existsb (eqb x) (filter p seen) = existsb (eqb x) seen).
    { destruct (existsb (eqb x) seen) eqn:E.
      - apply existsb_exists in E. destruct E as [y [Hy Exy]]. apply existsb_exists. exists y.
        split; [|exact Exy]. apply filter_In. split; [exact Hy|]. rewrite <- (Hc x y Ux (Hs y Hy) Exy). exact Px.
      - destruct (existsb (eqb x) (filter p seen)) eqn:E2; [|reflexivity].
        apply existsb_exists in E2. destruct E2 as [y [Hy Exy]]. apply filter_In in Hy. destruct Hy as [Hy _].
        assert (existsb (eqb x) seen = true) by (apply existsb_exists; exists y; tauto). congruence. }
    simpl. rewrite Ee. destruct (existsb (eqb x) seen).
    + apply IH; assumption.
    + simpl. rewrite Px. f_equal. rewrite (IH (x :: seen) Hl' Hs'). simpl. rewrite Px. reflexivity.
  - destruct (existsb (eqb x) seen).
    + apply IH; assumption.
    + simpl. rewrite Px. rewrite (IH (x :: seen) Hl' Hs'). simpl. rewrite Px. reflexivity.
Qed.

Lemma filter_dedup : forall T (eqb : T -> T -> bool) (p : T -> bool) (U : T -> Prop),
  (forall a b, U a -> U b -> eqb a b = true -> p a = p b) ->
  forall l, (forall x, In x l -> U x) -> filter p (dedup eqb l) = dedup eqb (filter p l).
Proof.
  intros T eqb p U Hc l Hl. unfold dedup. rewrite (filter_dedup_aux T eqb p U Hc l [] Hl); [reflexivity | intros x []].
Qed.

(* --- matching_forms as a function of the form table; it commutes with filters of that table --- *)
Definition mf (T : list form_row) (wordforms : list str) (normalized search_all_forms : bool) : list form_row :=
  let vals := sorted_values wordforms in
  let by_form := flat_map (fun w => filter (fun f => str_eqb (fm_form f) w) T) vals in
  let by_norm :=
    if normalized then flat_map (fun w => filter (fun f => ostr_is (fm_normalized_form f) w) T) vals else [] in
  filter (fun f => search_all_forms || oz_is (fm_rank f) 0)
         (dedup (fun a b => Z.eqb (fm_rowid a) (fm_rowid b)) (by_form ++ by_norm)).

Lemma matching_forms_mf : forall d wf norm saf, matching_forms d wf norm saf = mf (t_forms d) wf norm saf.
Proof. reflexivity. Qed.

Lemma filter_mf : forall (p : form_row -> bool) T wf norm saf, unique_keys fm_rowid T ->
  filter p (mf T wf norm saf) = mf (filter p T) wf norm saf.
Proof.
  intros p T wf norm saf Hu. unfold mf. cbv zeta. rewrite filter_comm. f_equal.
  rewrite (filter_dedup _ _ p (fun f => In f T)).
  - f_equal. rewrite filter_app. f_equal; [apply filter_flat_map_filter|].
    destruct norm; [apply filter_flat_map_filter | reflexivity].
  - intros a b Ha Hb E. apply Z.eqb_eq in E. rewrite (unique_keys_inj _ fm_rowid T a b Hu Ha Hb E). reflexivity.
  - intros f Hf. apply in_app_or in Hf. destruct Hf as [Hf|Hf].
    + apply in_flat_map in Hf. destruct Hf as [w [_ Hf]]. apply filter_In in Hf. tauto.
    + destruct norm; [|destruct Hf]. apply in_flat_map in Hf. destruct Hf as [w [_ Hf]]. apply filter_In in Hf. tauto.
Qed.

(* --- the rows produced for one visited sense do not depend on the database --- *)
Lemma synset_conditions_unsel : forall d id pos ili ids ss,
  ids <> [] -> sel ids (sy_lexicon_rowid ss) = false -> synset_conditions d id pos ili ids ss = false.
Proof.
  intros d id pos ili ids ss Hne H. destruct (synset_conditions d id pos ili ids ss) eqn:E; [|reflexivity].
  rewrite (synset_conditions_sel _ _ _ _ _ _ Hne E) in H. discriminate H.
Qed.

Definition visit (d : db) (id pos ili : option str) (ids : list Z) (_s : sense_row)
  : list ((Z * option Z) * q_synset) :=
  match find_by sy_rowid (se_synset_rowid _s) (t_synsets d) with
  | Some ss => if synset_conditions d id pos ili ids ss
               then [((se_entry_rowid _s, se_entry_rank _s), synset_columns d ss)] else []
  | None => []
  end.

Lemma visit_agree : forall d1 d2 ids id pos ili _s,
  ids <> [] -> db_ok d1 = true -> db_ok d2 = true -> agree_synsets d1 d2 ids ->
  visit d1 id pos ili ids _s = visit d2 id pos ili ids _s.
Proof.
  intros d1 d2 ids id pos ili _s Hne Ok1 Ok2 [Hsy Hi]. unfold visit.
  pose proof (find_by_selected _ sy_rowid (fun ss => sel ids (sy_lexicon_rowid ss)) _ _ (se_synset_rowid _s)
                (ok_synsets d1 Ok1) (ok_synsets d2 Ok2) Hsy) as F.
  destruct (find_by sy_rowid (se_synset_rowid _s) (t_synsets d1)) as [t1|];
    destruct (find_by sy_rowid (se_synset_rowid _s) (t_synsets d2)) as [t2|].
  - rewrite (synset_conditions_agree d1 d2 id pos ili ids t1 Hi), (synset_columns_agree d1 d2 t1 Hi).
    destruct (sel ids (sy_lexicon_rowid t1)) eqn:S1; destruct (sel ids (sy_lexicon_rowid t2)) eqn:S2; try discriminate F.
    + injection F as ->. reflexivity.
    + rewrite (synset_conditions_unsel d2 id pos ili ids t1 Hne S1), (synset_conditions_unsel d2 id pos ili ids t2 Hne S2).
      reflexivity.
  - destruct (sel ids (sy_lexicon_rowid t1)) eqn:S1; [discriminate F|].
    rewrite (synset_conditions_unsel d1 id pos ili ids t1 Hne S1). reflexivity.
  - destruct (sel ids (sy_lexicon_rowid t2)) eqn:S2; [discriminate F|].
    rewrite (synset_conditions_unsel d2 id pos ili ids t2 Hne S2). reflexivity.
  - reflexivity.
Qed.

Theorem find_synsets_forms_frame : forall d1 d2 ids id forms pos ili norm saf,
  ids <> [] -> db_ok d1 = true -> db_ok d2 = true ->
  agree_senses d1 d2 ids -> agree_sense_forms d1 d2 ids -> agree_synsets d1 d2 ids ->
  agree_relevant_forms d1 d2 ids ->
  find_synsets d1 id forms pos ili ids norm saf = find_synsets d2 id forms pos ili ids norm saf.
Proof.
  intros d1 d2 ids id forms pos ili norm saf Hne Ok1 Ok2 [Hse _] _ Hsyn Hrel.
  destruct forms as [|w forms']; [apply find_synsets_frame; assumption|].
  set (forms := w :: forms'). unfold find_synsets. change (nonempty forms) with true. cbv iota zeta.
  assert (Hne' : nonempty ids = true) by (apply nonempty_true; exact Hne). rewrite Hne'.
  do 3 f_equal.
  (* the senses visited for a form row *)
  set (G := fun (d : db) (f : form_row) =>
    flat_map (visit d id pos ili ids)
      (filter (fun _s => Z.eqb (se_entry_rowid _s) (fm_entry_rowid f) && z_in (se_lexicon_rowid _s) ids) (t_senses d))).
  change (flat_map (G d1) (matching_forms d1 forms norm saf) = flat_map (G d2) (matching_forms d2 forms norm saf)).
  assert (EG : forall d f, G d f = flat_map (visit d id pos ili ids)
                (filter (fun _s => Z.eqb (se_entry_rowid _s) (fm_entry_rowid f))
                        (filter (fun s => sel ids (se_lexicon_rowid s)) (t_senses d)))).
  { intros d f. unfold G. f_equal. apply (filter_filter_and _ (fun _s => Z.eqb (se_entry_rowid _s) (fm_entry_rowid f))
                                                           (fun s => sel ids (se_lexicon_rowid s))). }
  assert (Hvan : forall d f, relevant d ids f = false -> G d f = []).
  { intros d f Hr. rewrite EG. unfold relevant in Hr. rewrite (existsb_false_filter_nil _ _ _ Hr). reflexivity. }
  assert (Hrr : forall f, relevant d2 ids f = relevant d1 ids f).
  { intro f. unfold relevant. rewrite Hse. reflexivity. }
  assert (HG : forall f, G d1 f = G d2 f).
  { intro f. rewrite !EG, Hse. apply flat_map_ext_in. intros _s _. apply visit_agree; assumption. }
  rewrite (flat_map_filter_vanish _ _ (G d1) (relevant d1 ids)) by (intros; apply Hvan; assumption).
  rewrite (flat_map_filter_vanish _ _ (G d2) (relevant d1 ids) (matching_forms d2 forms norm saf))
    by (intros f _ Hr; apply Hvan; rewrite Hrr; exact Hr).
  rewrite !matching_forms_mf, (filter_mf _ _ _ _ _ (ok_forms d1 Ok1)), (filter_mf _ _ _ _ _ (ok_forms d2 Ok2)).
  unfold agree_relevant_forms in Hrel. rewrite Hrel. apply flat_map_ext_in. intros f _. apply HG.
Qed.

(* the concrete pair of part 2 also satisfies the additional hypothesis *)
Example ex_agree_relevant_forms : agree_relevant_forms ex_d1 ex_d2 ex_ids.
Proof. vm_compute. reflexivity. Qed.

Example ex_frame_eq_instance : forall id forms pos ili norm saf,
  find_synsets ex_d1 id forms pos ili ex_ids norm saf = find_synsets ex_d2 id forms pos ili ex_ids norm saf.
Proof.
  intros. apply find_synsets_forms_frame.
  - exact ex_ids_nonempty. - exact ex_ok1. - exact ex_ok2.
  - exact ex_agree_senses. - exact ex_agree_sense_forms. - exact ex_agree_synsets. - exact ex_agree_relevant_forms.
Qed.

(* The additional hypothesis cannot be dropped (db_ok does not force tables to be in rowid order): the same rows,
   all of the selected lexicon, with the form table in another order.  Synset 1 is reached through the entries 1
   and 3, synset 2 through entry 2; DISTINCT keeps the first visit, so the sort key of synset 1 is entry 1 in
   ex_o1 and entry 3 in ex_o2.  Every hypothesis of find_synsets_forms_frame_In holds, the members are the same,
   the lists are not. *)
Definition ex_o (fs : list form_row) : db :=
  ex_mk [ex_lex 1 "base"] [ex_entry 1 1 "e1"; ex_entry 2 1 "e2"; ex_entry 3 1 "e3"] fs
        [ex_synset 1 1 "ss1"; ex_synset 2 1 "ss2"]
        [ex_sense 1 1 1 1 "s1"; ex_sense 2 1 2 2 "s2"; ex_sense 3 1 3 1 "s3"].
Definition ex_o1 : db := ex_o [ex_form 1 1 1 "a"; ex_form 2 1 2 "a"; ex_form 3 1 3 "a"].
Definition ex_o2 : db := ex_o [ex_form 3 1 3 "a"; ex_form 2 1 2 "a"; ex_form 1 1 1 "a"].
Example ex_order_needed :
  db_ok ex_o1 = true /\ db_ok ex_o2 = true
  /\ agree_senses ex_o1 ex_o2 ex_ids /\ agree_sense_forms ex_o1 ex_o2 ex_ids /\ agree_synsets ex_o1 ex_o2 ex_ids
  /\ map qy_rowid (find_synsets ex_o1 None [S_ "a"] None None ex_ids false false) = [1; 2]
  /\ map qy_rowid (find_synsets ex_o2 None [S_ "a"] None None ex_ids false false) = [2; 1]
  /\ ~ agree_relevant_forms ex_o1 ex_o2 ex_ids.
Proof.
  split; [vm_compute; reflexivity|]. split; [vm_compute; reflexivity|].
  split; [split; [vm_compute; reflexivity|]; intros s Hin _; simpl in Hin;
          destruct Hin as [<-|[<-|[<-|[]]]]; vm_compute; reflexivity|].
  split; [intros s Hin _; simpl in Hin; destruct Hin as [<-|[<-|[<-|[]]]]; vm_compute; reflexivity|].
  split; [split; vm_compute; reflexivity|].
  split; [vm_compute; reflexivity|]. split; [vm_compute; reflexivity|].
  intro H. vm_compute in H. discriminate H.
Qed.

Print Assumptions find_synsets_forms_frame_In.
Print Assumptions ex_frame_instance.
Print Assumptions ex_results.
Print Assumptions find_synsets_forms_frame.
Print Assumptions agree_relevant_sense_forms.
Print Assumptions ex_frame_eq_instance.
Print Assumptions ex_order_needed.
