(* ScanProofs.v — wn.lmf.scan_lexicons (Model/Scan.v, the source tree after the two
   repairs: whole-attribute matching, comments and CDATA sections skipped) agrees with
   what the writer (Model/Lmf.v: dump / _dump_lexicon) puts into a file.
     S1  _unescape_attribute inverts quoteattr and _escape_attrib
     S2  the start tag of a lexicon as _dump_lexicon writes it is matched by the lex
         scanner, the attribute scanner tokenises it into exactly the written
         attributes and returns id / version / label — no hypothesis on the values
     S3  whole documents (scan_dump); the dumped text has no comment / CDATA section
     S4  tags without id / version, and a leading <Extends>
     S5  a comment or a CDATA section contributes nothing
   See the summary at the end of the file. *)
From Coq Require Import String.
From Coq Require Import ZArith List Bool Lia.
Import ListNotations.
Require Import WnV.Base.Sx WnV.Model.Val WnV.Model.XmlText WnV.Model.Lmf.
Require Import WnV.Proofs.XmlTextProofs WnV.Proofs.LmfProofs.
Require Import WnV.Model.Scan.
Local Open Scope Z_scope.

Local Notation s_ := str_of_string.

(* ====================================================================== *)
(* Generic facts                                                          *)
(* ====================================================================== *)
Lemma span_app : forall p s a b, span p s = (a, b) -> s = a ++ b.
Proof.
  intros p s. induction s as [|c r IH]; intros a b H; simpl in H.
  - injection H as <- <-. reflexivity.
  - destruct (p c).
    + destruct (span p r) as [a' b'] eqn:E. injection H as <- <-.
      simpl. f_equal. apply IH. reflexivity.
    + injection H as <- <-. reflexivity.
Qed.

Lemma plus_semi_app : forall p s body rest,
  plus_semi p s = Some (body, rest) -> s = body ++ c_semi :: rest.
Proof.
  intros p s body rest H. unfold plus_semi in H.
  destruct (span p s) as [a b] eqn:E. apply span_app in E.
  destruct a as [|x a]; [discriminate|]. destruct b as [|c b]; [discriminate|].
  destruct (Z.eqb_spec c c_semi) as [Ec|Ec]; [|discriminate].
  injection H as <- <-. subst c. exact E.
Qed.

Lemma ref_at_shorter : forall r m rest,
  ref_at r = Some (m, rest) -> (length rest < length r)%nat.
Proof.
  intros r m rest H. unfold ref_at in H.
  destruct (ref_hex r) as [mh|] eqn:Eh.
  - injection H as ->. unfold ref_hex in Eh.
    destruct r as [|h [|x r2]]; try discriminate.
    destruct (Z.eqb h c_hash && Z.eqb x c_x); [|discriminate].
    destruct (plus_semi is_hex r2) as [[ds rest0]|] eqn:Ep; [|discriminate].
    injection Eh as <- <-. apply plus_semi_app in Ep. subst r2.
    simpl. rewrite app_length. simpl. lia.
  - destruct (ref_dec r) as [md|] eqn:Ed.
    + injection H as ->. unfold ref_dec in Ed.
      destruct r as [|h r1]; [discriminate|].
      destruct (Z.eqb h c_hash); [|discriminate].
      destruct (plus_semi is_dec r1) as [[ds rest0]|] eqn:Ep; [|discriminate].
      injection Ed as <- <-. apply plus_semi_app in Ep. subst r1.
      simpl. rewrite app_length. simpl. lia.
    + unfold ref_name in H.
      destruct (plus_semi is_uword r) as [[nm rest0]|] eqn:Ep; [|discriminate].
      injection H as <- <-. apply plus_semi_app in Ep. subst r.
      rewrite app_length. simpl. lia.
Qed.

(* ---------- the fuel of ent_sub is irrelevant ---------- *)
Lemma ent_sub_fuel2 : forall f1 f2 s,
  (length s < f1)%nat -> (length s < f2)%nat -> ent_sub f1 s = ent_sub f2 s.
Proof.
  induction f1 as [|f1 IH]; intros f2 s H1 H2; [lia|].
  destruct f2 as [|f2]; [lia|].
  destruct s as [|c r]; [reflexivity|].
  simpl in H1, H2. simpl.
  destruct (Z.eqb c c_amp).
  - destruct (ref_at r) as [[m rest]|] eqn:E.
    + apply ref_at_shorter in E.
      destruct (ref_value m); [|reflexivity].
      rewrite (IH f2 rest) by lia. reflexivity.
    + rewrite (IH f2 r) by lia. reflexivity.
  - rewrite (IH f2 r) by lia. reflexivity.
Qed.

Definition ent_subst (s : str) : option str := ent_sub (S (length s)) s.

Lemma unescape_attribute_eq : forall v, unescape_attribute v = ent_subst (norm_space v).
Proof. reflexivity. Qed.

Lemma ent_subst_nil : ent_subst [] = Some [].
Proof. reflexivity. Qed.

Lemma ent_sub_S : forall f c r,
  ent_sub (S f) (c :: r) =
  if Z.eqb c c_amp then
    match ref_at r with
    | Some (m, rest) =>
        match ref_value m with
        | Some out => option_map (app out) (ent_sub f rest)
        | None => None
        end
    | None => option_map (cons c) (ent_sub f r)
    end
  else option_map (cons c) (ent_sub f r).
Proof. reflexivity. Qed.

Lemma ent_subst_cons : forall c r,
  ent_subst (c :: r) =
  if Z.eqb c c_amp then
    match ref_at r with
    | Some (m, rest) =>
        match ref_value m with
        | Some out => option_map (app out) (ent_subst rest)
        | None => None
        end
    | None => option_map (cons c) (ent_subst r)
    end
  else option_map (cons c) (ent_subst r).
Proof.
  intros c r. unfold ent_subst at 1.
  change (length (c :: r)) with (S (length r)). rewrite ent_sub_S.
  destruct (Z.eqb c c_amp).
  - destruct (ref_at r) as [[m rest]|] eqn:E.
    + apply ref_at_shorter in E. destruct (ref_value m); [|reflexivity].
      unfold ent_subst. rewrite (ent_sub_fuel2 (S (length r)) (S (length rest)) rest) by lia.
      reflexivity.
    + reflexivity.
  - reflexivity.
Qed.

(* a literal character *)
Lemma ent_subst_literal : forall c rest, c <> c_amp ->
  ent_subst ([c] ++ rest) = option_map (cons c) (ent_subst rest).
Proof.
  intros c rest H. change ([c] ++ rest) with (c :: rest). rewrite ent_subst_cons.
  destruct (Z.eqb_spec c c_amp) as [E|_]; [contradiction|]. reflexivity.
Qed.

Lemma ent_subst_flat_map : forall (g : Z -> str),
  (forall c rest, ent_subst (g c ++ rest) = option_map (cons c) (ent_subst rest)) ->
  forall s, ent_subst (flat_map g s) = Some s.
Proof.
  intros g H s. induction s as [|c s IH]; simpl.
  - reflexivity.
  - rewrite H. rewrite IH. reflexivity.
Qed.

Lemma norm_space_id : forall t,
  zin c_cr t = false -> zin c_nl t = false -> zin c_tab t = false -> norm_space t = t.
Proof.
  induction t as [|c r IH]; intros H1 H2 H3; simpl.
  - reflexivity.
  - rewrite zin_cons in H1, H2, H3.
    apply orb_false_iff in H1. destruct H1 as [H1 H1'].
    apply orb_false_iff in H2. destruct H2 as [H2 H2'].
    apply orb_false_iff in H3. destruct H3 as [H3 H3'].
    rewrite Z.eqb_sym in H1. rewrite Z.eqb_sym in H2. rewrite Z.eqb_sym in H3.
    rewrite H1, H2, H3. simpl. rewrite (IH H1' H2' H3'). reflexivity.
Qed.

(* ====================================================================== *)
(* S1  _unescape_attribute inverts the two escapers                       *)
(* ====================================================================== *)
(* the three references written by the escapers, one by one *)
Lemma ent_amp : forall rest, ent_subst (s_ "&amp;" ++ rest) = option_map (cons c_amp) (ent_subst rest).
Proof. intro rest. simpl app. rewrite ent_subst_cons. reflexivity. Qed.
Lemma ent_lt : forall rest, ent_subst (s_ "&lt;" ++ rest) = option_map (cons c_lt) (ent_subst rest).
Proof. intro rest. simpl app. rewrite ent_subst_cons. reflexivity. Qed.
Lemma ent_gt : forall rest, ent_subst (s_ "&gt;" ++ rest) = option_map (cons c_gt) (ent_subst rest).
Proof. intro rest. simpl app. rewrite ent_subst_cons. reflexivity. Qed.
Lemma ent_quot : forall rest, ent_subst (s_ "&quot;" ++ rest) = option_map (cons c_quot) (ent_subst rest).
Proof. intro rest. simpl app. rewrite ent_subst_cons. reflexivity. Qed.
Lemma ent_13 : forall rest, ent_subst (s_ "&#13;" ++ rest) = option_map (cons c_cr) (ent_subst rest).
Proof. intro rest. simpl app. rewrite ent_subst_cons. reflexivity. Qed.
Lemma ent_10 : forall rest, ent_subst (s_ "&#10;" ++ rest) = option_map (cons c_nl) (ent_subst rest).
Proof. intro rest. simpl app. rewrite ent_subst_cons. reflexivity. Qed.
Lemma ent_09 : forall rest, ent_subst (s_ "&#09;" ++ rest) = option_map (cons c_tab) (ent_subst rest).
Proof. intro rest. simpl app. rewrite ent_subst_cons. reflexivity. Qed.
Lemma ent_9 : forall rest, ent_subst (s_ "&#9;" ++ rest) = option_map (cons c_tab) (ent_subst rest).
Proof. intro rest. simpl app. rewrite ent_subst_cons. reflexivity. Qed.

Lemma ea_f_ent : forall c rest, ent_subst (ea_f c ++ rest) = option_map (cons c) (ent_subst rest).
Proof.
  intros c rest. unfold ea_f, c_amp, c_lt, c_gt, c_quot, c_cr, c_nl, c_tab. dz c.
  - subst c. apply ent_amp.
  - subst c. apply ent_lt.
  - subst c. apply ent_gt.
  - subst c. apply ent_quot.
  - subst c. apply ent_13.
  - subst c. apply ent_10.
  - subst c. apply ent_09.
  - apply ent_subst_literal. exact E.
Qed.
Lemma sax_f_ent : forall c rest, ent_subst (sax_f c ++ rest) = option_map (cons c) (ent_subst rest).
Proof.
  intros c rest. unfold sax_f, c_amp, c_lt, c_gt, c_cr, c_nl, c_tab. dz c.
  - subst c. apply ent_amp.
  - subst c. apply ent_gt.
  - subst c. apply ent_lt.
  - subst c. apply ent_10.
  - subst c. apply ent_13.
  - subst c. apply ent_9.
  - apply ent_subst_literal. exact E.
Qed.
Lemma saxq_f_ent : forall c rest, ent_subst (saxq_f c ++ rest) = option_map (cons c) (ent_subst rest).
Proof.
  intros c rest. unfold saxq_f, c_quot. destruct (Z.eqb_spec c 34) as [E|E].
  - subst c. apply ent_quot.
  - apply sax_f_ent.
Qed.

(* no literal TAB / LF / CR in what the escapers write *)
Lemma ea_f_no_ws : forall c,
  zin c_cr (ea_f c) = false /\ zin c_nl (ea_f c) = false /\ zin c_tab (ea_f c) = false.
Proof.
  intro c. unfold ea_f, c_amp, c_lt, c_gt, c_quot, c_cr, c_nl, c_tab. dz c;
    try (repeat split; reflexivity).
  repeat split; apply zin_single_neq; assumption.
Qed.
Lemma sax_f_no_ws : forall c,
  zin c_cr (sax_f c) = false /\ zin c_nl (sax_f c) = false /\ zin c_tab (sax_f c) = false.
Proof.
  intro c. unfold sax_f, c_amp, c_lt, c_gt, c_cr, c_nl, c_tab. dz c;
    try (repeat split; reflexivity).
  repeat split; apply zin_single_neq; assumption.
Qed.
Lemma saxq_f_no_ws : forall c,
  zin c_cr (saxq_f c) = false /\ zin c_nl (saxq_f c) = false /\ zin c_tab (saxq_f c) = false.
Proof.
  intro c. unfold saxq_f. destruct (Z.eqb c c_quot).
  - repeat split; reflexivity.
  - apply sax_f_no_ws.
Qed.

Lemma unescape_flat_map : forall (g : Z -> str),
  (forall c, zin c_cr (g c) = false /\ zin c_nl (g c) = false /\ zin c_tab (g c) = false) ->
  (forall c rest, ent_subst (g c ++ rest) = option_map (cons c) (ent_subst rest)) ->
  forall s, unescape_attribute (flat_map g s) = Some s.
Proof.
  intros g Hws Hent s. rewrite unescape_attribute_eq.
  rewrite norm_space_id; try (apply zin_flat_map; intro c; apply Hws).
  apply ent_subst_flat_map. exact Hent.
Qed.

(* the text between the quotes written by quoteattr *)
Definition quoteattr_inner (s : str) : str :=
  let d := flat_map sax_f s in
  if zin c_quot d && zin c_apos d then flat_map saxq_f s else d.
(* the quote character chosen by quoteattr *)
Definition quoteattr_q (s : str) : Z :=
  let d := flat_map sax_f s in
  if zin c_quot d && negb (zin c_apos d) then c_apos else c_quot.

Lemma quoteattr_shape : forall s,
  quoteattr s = [quoteattr_q s] ++ quoteattr_inner s ++ [quoteattr_q s]
  /\ zin (quoteattr_q s) (quoteattr_inner s) = false
  /\ is_quote (quoteattr_q s) = true.
Proof.
  intro s. rewrite quoteattr_eq. unfold quoteattr_inner, quoteattr_q. cbv zeta.
  destruct (zin c_quot (flat_map sax_f s)) eqn:Hq.
  - destruct (zin c_apos (flat_map sax_f s)) eqn:Ha; simpl andb; cbv iota.
    + assert (Heq : flat_map quot_h (flat_map sax_f s) = flat_map saxq_f s).
      { rewrite flat_map_flat_map. apply flat_map_ext. apply saxq_f_eq. }
      rewrite Heq. repeat split.
      apply zin_flat_map. intro c. apply saxq_f_no_cr_lt_quot.
    + repeat split. exact Ha.
  - simpl andb. cbv iota. repeat split. exact Hq.
Qed.

Lemma quoteattr_inner_unquote : forall s, unquote (quoteattr s) = Some (quoteattr_inner s).
Proof.
  intro s. destruct (quoteattr_shape s) as [H1 [H2 H3]]. rewrite H1.
  apply unquote_intro; [|exact H2].
  unfold is_quote in H3. apply orb_true_iff in H3.
  destruct H3 as [H3|H3]; apply Z.eqb_eq in H3; [left|right]; exact H3.
Qed.

(* S1, first half: the value written by quoteattr (saxutils) *)
Theorem unescape_quoteattr : forall s,
  unescape_attribute (quoteattr_inner s) = Some s.
Proof.
  intro s. unfold quoteattr_inner. cbv zeta.
  destruct (zin c_quot (flat_map sax_f s) && zin c_apos (flat_map sax_f s)).
  - apply unescape_flat_map; [apply saxq_f_no_ws | apply saxq_f_ent].
  - apply unescape_flat_map; [apply sax_f_no_ws | apply sax_f_ent].
Qed.

(* the same in terms of [unquote] (XmlTextProofs) *)
Theorem unescape_quoteattr_unquote : forall s,
  exists inner, unquote (quoteattr s) = Some inner /\ unescape_attribute inner = Some s.
Proof.
  intro s. exists (quoteattr_inner s). split.
  - apply quoteattr_inner_unquote.
  - apply unescape_quoteattr.
Qed.

(* S1, second half: the value written by ElementTree's _escape_attrib *)
Theorem unescape_escape_attrib : forall s, unescape_attribute (escape_attrib s) = Some s.
Proof.
  intro s. rewrite escape_attrib_eq.
  apply unescape_flat_map; [apply ea_f_no_ws | apply ea_f_ent].
Qed.

(* on the output of the two escapers _unescape_attribute is what an XML parser does *)
Theorem unescape_agrees_quoteattr : forall s,
  unescape_attribute (quoteattr_inner s) = Some (xml_attr_value (quoteattr_inner s)).
Proof.
  intro s. rewrite unescape_quoteattr. f_equal. symmetry.
  unfold quoteattr_inner. cbv zeta.
  destruct (zin c_quot (flat_map sax_f s) && zin c_apos (flat_map sax_f s)).
  - apply saxq_inner_value.
  - apply sax_inner_value.
Qed.
Theorem unescape_agrees_escape_attrib : forall s,
  unescape_attribute (escape_attrib s) = Some (xml_attr_value (escape_attrib s)).
Proof.
  intro s. rewrite unescape_escape_attrib. rewrite attr_roundtrip_ET_all. reflexivity.
Qed.

(* ... but not on arbitrary input: character references to U+0000 and beyond
   U+10FFFF.  (The parser model keeps them literally — a real parser rejects the
   document; _unescape_attribute returns chr(0), resp. raises ValueError.) *)
Example unescape_differs_nul :
  unescape_attribute (s_ "&#0;") = Some [0] /\ xml_attr_value (s_ "&#0;") = s_ "&#0;".
Proof. vm_compute. split; reflexivity. Qed.
Example unescape_differs_big :
  unescape_attribute (s_ "&#x110000;") = None /\ xml_attr_value (s_ "&#x110000;") = s_ "&#x110000;".
Proof. vm_compute. split; reflexivity. Qed.

(* ====================================================================== *)
(* UTF-8                                                                  *)
(* ====================================================================== *)
(* Unicode scalar values: what str.encode('utf-8') accepts *)
Definition scalar (c : Z) : bool := in_range 0 55295 c || in_range 57344 1114111 c.
Definition scalars (s : str) : bool := forallb scalar s.

Lemma xml_char_scalar : forall c, xml_char c = true -> scalar c = true.
Proof.
  intros c H. unfold xml_char, scalar, in_range in *.
  repeat match goal with
         | H : _ || _ = true |- _ => apply orb_true_iff in H; destruct H as [H|H]
         | H : _ && _ = true |- _ => apply andb_true_iff in H; destruct H as [? ?]
         | H : Z.eqb _ _ = true |- _ => apply Z.eqb_eq in H
         | H : Z.leb _ _ = true |- _ => apply Z.leb_le in H
         end;
  apply orb_true_iff;
  first [ left; apply andb_true_iff; split; apply Z.leb_le; lia
        | right; apply andb_true_iff; split; apply Z.leb_le; lia ].
Qed.
Lemma xml_chars_scalars : forall s, xml_chars s = true -> scalars s = true.
Proof.
  intros s H. unfold xml_chars, scalars in *. rewrite forallb_forall in *.
  intros c Hc. apply xml_char_scalar. apply H. exact Hc.
Qed.

Ltac leb_cases :=
  repeat match goal with
         | |- context [Z.leb ?a ?b] => destruct (Z.leb_spec a b); try lia
         | |- context [Z.ltb ?a ?b] => destruct (Z.ltb_spec a b); try lia
         | |- context [Z.eqb ?a ?b] => destruct (Z.eqb_spec a b); try lia
         end.

Lemma utf8_decode_cons : forall b0 r,
  utf8_decode (b0 :: r) =
      if in_range 0 127 b0 then option_map (cons b0) (utf8_decode r)
      else if in_range 194 223 b0 then
        match r with
        | b1 :: r' =>
            if is_cont b1
            then option_map (cons ((b0 - 192) * 64 + cont_val b1)) (utf8_decode r')
            else None
        | _ => None
        end
      else if in_range 224 239 b0 then
        match r with
        | b1 :: b2 :: r' =>
            if (if Z.eqb b0 224 then in_range 160 191 b1
                else if Z.eqb b0 237 then in_range 128 159 b1
                else is_cont b1) && is_cont b2
            then option_map (cons ((b0 - 224) * 4096 + cont_val b1 * 64 + cont_val b2))
                            (utf8_decode r')
            else None
        | _ => None
        end
      else if in_range 240 244 b0 then
        match r with
        | b1 :: b2 :: b3 :: r' =>
            if (if Z.eqb b0 240 then in_range 144 191 b1
                else if Z.eqb b0 244 then in_range 128 143 b1
                else is_cont b1) && is_cont b2 && is_cont b3
            then option_map (cons ((b0 - 240) * 262144 + cont_val b1 * 4096
                                   + cont_val b2 * 64 + cont_val b3))
                            (utf8_decode r')
            else None
        | _ => None
        end
      else None.
Proof. reflexivity. Qed.

Lemma utf8_decode_1 : forall b0 rest, 0 <= b0 <= 127 ->
  utf8_decode (b0 :: rest) = option_map (cons b0) (utf8_decode rest).
Proof.
  intros b0 rest H. rewrite utf8_decode_cons. unfold in_range. leb_cases; reflexivity.
Qed.
Lemma utf8_decode_2 : forall b0 b1 rest, 194 <= b0 <= 223 -> 128 <= b1 <= 191 ->
  utf8_decode (b0 :: b1 :: rest)
  = option_map (cons ((b0 - 192) * 64 + (b1 - 128))) (utf8_decode rest).
Proof.
  intros b0 b1 rest H0 H1. rewrite utf8_decode_cons. unfold is_cont, in_range, cont_val.
  leb_cases; reflexivity.
Qed.
Lemma utf8_decode_3 : forall b0 b1 b2 rest, 224 <= b0 <= 239 ->
  (b0 = 224 -> 160 <= b1) -> (b0 = 237 -> b1 <= 159) -> 128 <= b1 <= 191 -> 128 <= b2 <= 191 ->
  utf8_decode (b0 :: b1 :: b2 :: rest)
  = option_map (cons ((b0 - 224) * 4096 + (b1 - 128) * 64 + (b2 - 128))) (utf8_decode rest).
Proof.
  intros b0 b1 b2 rest H0 Ha Hb H1 H2. rewrite utf8_decode_cons.
  unfold is_cont, in_range, cont_val. leb_cases; reflexivity.
Qed.
Lemma utf8_decode_4 : forall b0 b1 b2 b3 rest, 240 <= b0 <= 244 ->
  (b0 = 240 -> 144 <= b1) -> (b0 = 244 -> b1 <= 143) -> 128 <= b1 <= 191 -> 128 <= b2 <= 191 ->
  128 <= b3 <= 191 ->
  utf8_decode (b0 :: b1 :: b2 :: b3 :: rest)
  = option_map (cons ((b0 - 240) * 262144 + (b1 - 128) * 4096 + (b2 - 128) * 64 + (b3 - 128)))
               (utf8_decode rest).
Proof.
  intros b0 b1 b2 b3 rest H0 Ha Hb H1 H2 H3. rewrite utf8_decode_cons.
  unfold is_cont, in_range, cont_val. leb_cases; reflexivity.
Qed.

Ltac dlia := Z.div_mod_to_equations; lia.

Lemma utf8_decode_enc1 : forall c rest, scalar c = true ->
  utf8_decode (utf8_enc1 c ++ rest) = option_map (cons c) (utf8_decode rest).
Proof.
  intros c rest H. unfold scalar, in_range in H.
  assert (Hc : 0 <= c <= 55295 \/ 57344 <= c <= 1114111).
  { apply orb_true_iff in H. destruct H as [H|H]; apply andb_true_iff in H; destruct H as [Ha Hb];
      apply Z.leb_le in Ha; apply Z.leb_le in Hb; [left|right]; lia. }
  clear H. unfold utf8_enc1.
  destruct (Z.ltb_spec c 128) as [L1|L1].
  - cbn [app]. apply utf8_decode_1. lia.
  - destruct (Z.ltb_spec c 2048) as [L2|L2].
    + cbn [app]. rewrite utf8_decode_2 by dlia. f_equal. f_equal. dlia.
    + destruct (Z.ltb_spec c 65536) as [L3|L3].
      * cbn [app]. rewrite utf8_decode_3 by dlia. f_equal. f_equal. dlia.
      * cbn [app]. rewrite utf8_decode_4 by dlia. f_equal. f_equal. dlia.
Qed.

(* the bytes of a non-ASCII character are not ASCII *)
Lemma utf8_enc1_high : forall c, 128 <= c -> Forall (fun b => 128 <= b) (utf8_enc1 c).
Proof.
  intros c H. unfold utf8_enc1.
  destruct (Z.ltb_spec c 128) as [L1|L1]; [lia|].
  destruct (Z.ltb_spec c 2048) as [L2|L2]; [|destruct (Z.ltb_spec c 65536) as [L3|L3]];
    repeat (apply Forall_cons; [dlia|]); apply Forall_nil.
Qed.

Lemma utf8_enc1_low : forall c, c < 128 -> utf8_enc1 c = [c].
Proof.
  intros c H. unfold utf8_enc1. destruct (Z.ltb_spec c 128) as [L|L]; [reflexivity|lia].
Qed.

Theorem utf8_roundtrip : forall s, scalars s = true -> utf8_decode (utf8_encode s) = Some s.
Proof.
  induction s as [|c s IH]; intro H.
  - reflexivity.
  - simpl in H. apply andb_true_iff in H. destruct H as [Hc Hs].
    unfold utf8_encode. simpl flat_map. rewrite utf8_decode_enc1 by exact Hc.
    fold (utf8_encode s). rewrite (IH Hs). reflexivity.
Qed.

Lemma utf8_encode_app : forall a b, utf8_encode (a ++ b) = utf8_encode a ++ utf8_encode b.
Proof. intros a b. unfold utf8_encode. apply flat_map_app. Qed.

Definition ascii (s : str) : bool := forallb (fun c => Z.ltb c 128) s.
Lemma utf8_encode_ascii : forall s, ascii s = true -> utf8_encode s = s.
Proof.
  induction s as [|c s IH]; intro H.
  - reflexivity.
  - simpl in H. apply andb_true_iff in H. destruct H as [Hc Hs]. apply Z.ltb_lt in Hc.
    unfold utf8_encode. simpl flat_map. rewrite utf8_enc1_low by exact Hc.
    fold (utf8_encode s). rewrite (IH Hs). reflexivity.
Qed.

(* an ASCII character occurs among the bytes iff it occurs in the string *)
Lemma zin_utf8_enc1 : forall q c, q < 128 -> zin q (utf8_enc1 c) = Z.eqb q c.
Proof.
  intros q c Hq. destruct (Z.ltb_spec c 128) as [L|L].
  - rewrite utf8_enc1_low by exact L. simpl. rewrite orb_false_r. reflexivity.
  - destruct (Z.eqb_spec q c) as [E|E]; [lia|].
    destruct (zin q (utf8_enc1 c)) eqn:Hz; [|reflexivity].
    apply zin_In in Hz. pose proof (utf8_enc1_high c L) as HF.
    rewrite Forall_forall in HF. apply HF in Hz. lia.
Qed.
Lemma zin_utf8_encode : forall q s, q < 128 -> zin q (utf8_encode s) = zin q s.
Proof.
  intros q s Hq. induction s as [|c s IH].
  - reflexivity.
  - unfold utf8_encode. simpl flat_map. fold (utf8_encode s).
    rewrite zin_app. rewrite zin_cons. rewrite IH. rewrite zin_utf8_enc1 by exact Hq.
    reflexivity.
Qed.

(* ====================================================================== *)
(* The lex scanner                                                        *)
(* ====================================================================== *)
Lemma prefixb_split : forall p s, prefixb p s = true -> s = p ++ skipn (length p) s.
Proof.
  induction p as [|x p IH]; intros s H.
  - reflexivity.
  - destruct s as [|y s]; [discriminate|]. simpl in H.
    apply andb_true_iff in H. destruct H as [H1 H2]. apply Z.eqb_eq in H1. subst y.
    simpl. f_equal. apply IH. exact H2.
Qed.
Lemma prefixb_app_self : forall p s, prefixb p (p ++ s) = true.
Proof.
  induction p as [|x p IH]; intro s; simpl.
  - reflexivity.
  - rewrite Z.eqb_refl. apply IH.
Qed.
Lemma skipn_app_self : forall (p s : str), skipn (length p) (p ++ s) = s.
Proof. induction p as [|x p IH]; intro s; simpl; [reflexivity | apply IH]. Qed.

Lemma rem_aux_app : forall s mode a b, rem_aux mode s = Some (a, b) -> s = a ++ c_gt :: b.
Proof.
  induction s as [|c r IH]; intros mode a b H; simpl in H.
  - discriminate.
  - destruct mode as [q|].
    + destruct (rem_aux (if Z.eqb c q then None else Some q) r) as [[a' b']|] eqn:E; [|discriminate].
      injection H as <- <-. apply IH in E. subst r. reflexivity.
    + destruct (Z.eqb_spec c c_gt) as [Ec|Ec].
      * injection H as <- <-. subst c. reflexivity.
      * destruct (rem_aux (if is_quote c then Some c else None) r) as [[a' b']|] eqn:E; [|discriminate].
        injection H as <- <-. apply IH in E. subst r. reflexivity.
Qed.

Lemma lex_at_split : forall r t rem rest,
  lex_at r = Some (t, rem, rest) -> r = lextype_name t ++ rem ++ c_gt :: rest.
Proof.
  assert (Htry : forall t0 r t rem rest, try_name t0 r = Some (t, rem, rest) ->
                 r = lextype_name t ++ rem ++ c_gt :: rest).
  { intros t0 r t rem rest H. unfold try_name in H.
    destruct (prefixb (lextype_name t0) r) eqn:Ep; [|discriminate].
    destruct (boundary_after (skipn (length (lextype_name t0)) r)); [|discriminate].
    destruct (rem_aux None (skipn (length (lextype_name t0)) r)) as [[a b]|] eqn:Er; [|discriminate].
    injection H as <- <- <-. apply rem_aux_app in Er. apply prefixb_split in Ep.
    rewrite Er in Ep. exact Ep. }
  intros r t rem rest H. unfold lex_at in H.
  destruct (try_name TLexicon r) as [m|] eqn:E1.
  - injection H as ->. apply Htry in E1. exact E1.
  - destruct (try_name TLexiconExtension r) as [m|] eqn:E2.
    + injection H as ->. apply Htry in E2. exact E2.
    + apply Htry in H. exact H.
Qed.

Lemma lex_at_shorter : forall r t rem rest,
  lex_at r = Some (t, rem, rest) -> (length rest < length r)%nat.
Proof.
  intros r t rem rest H. apply lex_at_split in H. subst r.
  rewrite !app_length. simpl. lia.
Qed.

(* ---------- comments and CDATA sections ---------- *)
Lemma find_after_shorter : forall pat s rest, pat <> [] ->
  find_after pat s = Some rest -> (length rest < length s)%nat.
Proof.
  intros pat s. induction s as [|c r IH]; intros rest Hp H.
  - destruct pat as [|x p]; [contradiction | discriminate].
  - cbn [find_after] in H. destruct (prefixb pat (c :: r)) eqn:E.
    + injection H as <-. rewrite skipn_length. destruct pat as [|x p]; [contradiction|]. simpl. lia.
    + apply IH in H; [simpl; lia | exact Hp].
Qed.
Lemma section_at_shorter : forall opening closing r rest, closing <> [] ->
  section_at opening closing r = Some rest -> (length rest <= length r)%nat.
Proof.
  intros opening closing r rest Hc H. unfold section_at in H.
  destruct (prefixb opening r); [|discriminate].
  apply find_after_shorter in H; [|exact Hc]. rewrite skipn_length in H. lia.
Qed.
Lemma skip_at_shorter : forall r rest, skip_at r = Some rest -> (length rest <= length r)%nat.
Proof.
  intros r rest H. unfold skip_at in H.
  destruct (section_at (s_ "!--") (s_ "-->") r) as [x|] eqn:E.
  - injection H as <-. apply (section_at_shorter (s_ "!--") (s_ "-->") r x); [discriminate | exact E].
  - apply (section_at_shorter (s_ "![CDATA[") (s_ "]]>") r rest); [discriminate | exact H].
Qed.
(* they start with an exclamation mark *)
Lemma skip_at_first : forall c r, Z.eqb c 33 = false -> skip_at (c :: r) = None.
Proof.
  intros c r H. unfold skip_at, section_at.
  change (s_ "!--") with (33 :: [45; 45]). change (s_ "![CDATA[") with (33 :: [91; 67; 68; 65; 84; 65; 91]).
  cbn [prefixb]. rewrite (Z.eqb_sym 33 c). rewrite H. reflexivity.
Qed.

Lemma lex_all_S : forall f c r,
  lex_all (S f) (c :: r) =
  if Z.eqb c c_lt then
    match skip_at r with
    | Some rest => lex_all f rest
    | None =>
        match lex_at r with
        | Some (t, rem, rest) => (t, rem) :: lex_all f rest
        | None => lex_all f r
        end
    end
  else lex_all f r.
Proof. reflexivity. Qed.

Lemma lex_all_fuel2 : forall f1 f2 s,
  (length s < f1)%nat -> (length s < f2)%nat -> lex_all f1 s = lex_all f2 s.
Proof.
  induction f1 as [|f1 IH]; intros f2 s H1 H2; [lia|].
  destruct f2 as [|f2]; [lia|].
  destruct s as [|c r]; [reflexivity|].
  rewrite !lex_all_S. simpl in H1, H2.
  destruct (Z.eqb c c_lt).
  - destruct (skip_at r) as [rest|] eqn:Es.
    + apply skip_at_shorter in Es. apply IH; lia.
    + destruct (lex_at r) as [[[t rem] rest]|] eqn:E.
      * apply lex_at_shorter in E. rewrite (IH f2 rest) by lia. reflexivity.
      * apply IH; lia.
  - apply IH; lia.
Qed.

Lemma lex_matches_nil : lex_matches [] = [].
Proof. reflexivity. Qed.
Lemma lex_matches_cons : forall c r,
  lex_matches (c :: r) =
  if Z.eqb c c_lt then
    match skip_at r with
    | Some rest => lex_matches rest
    | None =>
        match lex_at r with
        | Some (t, rem, rest) => (t, rem) :: lex_matches rest
        | None => lex_matches r
        end
    end
  else lex_matches r.
Proof.
  intros c r. unfold lex_matches at 1. change (length (c :: r)) with (S (length r)).
  rewrite lex_all_S. destruct (Z.eqb c c_lt).
  - destruct (skip_at r) as [rest|] eqn:Es.
    + apply skip_at_shorter in Es. unfold lex_matches.
      apply lex_all_fuel2; lia.
    + destruct (lex_at r) as [[[t rem] rest]|] eqn:E.
      * apply lex_at_shorter in E. unfold lex_matches.
        rewrite (lex_all_fuel2 (S (length r)) (S (length rest)) rest) by lia. reflexivity.
      * reflexivity.
  - reflexivity.
Qed.

(* ---------- text without a tag the scanner could take ---------- *)
(* [n] and [b] differ at a position that exists in both *)
Fixpoint diverges (n b : str) : bool :=
  match n, b with
  | x :: n', y :: b' => negb (Z.eqb x y) || diverges n' b'
  | _, _ => false
  end.
Lemma diverges_prefixb : forall n b s, diverges n b = true -> prefixb n (b ++ s) = false.
Proof.
  induction n as [|x n IH]; intros b s H; [discriminate|].
  destruct b as [|y b]; [discriminate|]. simpl in H. simpl.
  destruct (Z.eqb x y); simpl in *; [apply IH; exact H | reflexivity].
Qed.
Lemma diverges_app : forall n b s, diverges n b = true -> diverges n (b ++ s) = true.
Proof.
  induction n as [|x n IH]; intros b s H; [discriminate|].
  destruct b as [|y b]; [discriminate|]. simpl in H. simpl.
  destruct (Z.eqb x y); simpl in *; [apply IH; exact H | reflexivity].
Qed.


(* every "less than" sign of [s] is followed by something that satisfies [P] *)
Fixpoint lt_free_gen (P : str -> bool) (s : str) : bool :=
  match s with
  | [] => true
  | c :: r => (negb (Z.eqb c c_lt) || P r) && lt_free_gen P r
  end.
Definition mono (P : str -> bool) : Prop := forall b s, P b = true -> P (b ++ s) = true.

Lemma lt_free_gen_app : forall P a b, mono P ->
  lt_free_gen P a = true -> lt_free_gen P b = true -> lt_free_gen P (a ++ b) = true.
Proof.
  intros P a b HP. induction a as [|c a IH]; intros Ha Hb; simpl.
  - exact Hb.
  - simpl in Ha. apply andb_true_iff in Ha. destruct Ha as [H1 H2].
    rewrite (IH H2 Hb). rewrite andb_true_r.
    apply orb_true_iff in H1. destruct H1 as [H1|H1].
    + rewrite H1. reflexivity.
    + rewrite (HP a b H1). apply orb_true_r.
Qed.
Lemma lt_free_gen_no_lt : forall P s, zin c_lt s = false -> lt_free_gen P s = true.
Proof.
  intros P. induction s as [|c s IH]; intro H; simpl.
  - reflexivity.
  - rewrite zin_cons in H. apply orb_false_iff in H. destruct H as [H1 H2].
    rewrite Z.eqb_sym in H1. rewrite H1. simpl. apply IH. exact H2.
Qed.
Lemma lt_free_gen_impl : forall (P Q : str -> bool) s, (forall b, P b = true -> Q b = true) ->
  lt_free_gen P s = true -> lt_free_gen Q s = true.
Proof.
  intros P Q s HPQ. induction s as [|c s IH]; intro H; simpl.
  - reflexivity.
  - simpl in H. apply andb_true_iff in H. destruct H as [H1 H2].
    rewrite (IH H2). rewrite andb_true_r.
    apply orb_true_iff in H1. destruct H1 as [H1|H1].
    + rewrite H1. reflexivity.
    + rewrite (HPQ _ H1). apply orb_true_r.
Qed.
Lemma lt_free_gen_concat : forall P ys, mono P ->
  forallb (lt_free_gen P) ys = true -> lt_free_gen P (concat ys) = true.
Proof.
  intros P ys HP. induction ys as [|y r IH]; intro H.
  - reflexivity.
  - simpl in H. apply andb_true_iff in H. destruct H as [H1 H2].
    simpl. apply lt_free_gen_app; [exact HP | exact H1 | apply IH; exact H2].
Qed.
(* what it means: at every "less than" sign *)
Lemma lt_free_gen_at : forall P a b, lt_free_gen P (a ++ c_lt :: b) = true -> P b = true.
Proof.
  intros P. induction a as [|c a IH]; intros b H.
  - simpl in H. apply andb_true_iff in H. destruct H as [H _]. exact H.
  - simpl in H. apply andb_true_iff in H. destruct H as [_ H]. apply IH. exact H.
Qed.

(* not an exclamation mark (and not the end of the text) *)
Definition nobang (b : str) : bool := match b with c :: _ => negb (Z.eqb c 33) | [] => false end.
(* STRICT: what follows is neither one of the three names nor a "!" — true of
   everything the serializer writes *)
Definition not_lex_name (b : str) : bool :=
  diverges (s_ "Lexicon") b && diverges (s_ "Extends") b && nobang b.
(* WEAK: neither one of the three names nor the opening of a comment / CDATA section —
   also true of the DOCTYPE declaration *)
Definition not_section (b : str) : bool := diverges (s_ "!--") b && diverges (s_ "![CDATA[") b.
Definition not_lex_namew (b : str) : bool :=
  diverges (s_ "Lexicon") b && diverges (s_ "Extends") b && not_section b.
Notation lt_free := (lt_free_gen not_lex_name).
Notation lt_freew := (lt_free_gen not_lex_namew).
Notation bang_free := (lt_free_gen nobang).
Notation section_free := (lt_free_gen not_section).

Lemma nobang_mono : mono nobang.
Proof. intros b s H. destruct b; [discriminate | exact H]. Qed.
Lemma not_lex_name_mono : mono not_lex_name.
Proof.
  intros b s H. unfold not_lex_name in *.
  apply andb_true_iff in H. destruct H as [H H3]. apply andb_true_iff in H. destruct H as [H1 H2].
  rewrite (diverges_app _ _ s H1). rewrite (diverges_app _ _ s H2). rewrite (nobang_mono b s H3).
  reflexivity.
Qed.
Lemma not_section_mono : mono not_section.
Proof.
  intros b s H. unfold not_section in *. apply andb_true_iff in H. destruct H as [H1 H2].
  rewrite (diverges_app _ _ s H1). rewrite (diverges_app _ _ s H2). reflexivity.
Qed.
Lemma not_lex_namew_mono : mono not_lex_namew.
Proof.
  intros b s H. unfold not_lex_namew in *.
  apply andb_true_iff in H. destruct H as [H H3]. apply andb_true_iff in H. destruct H as [H1 H2].
  rewrite (diverges_app _ _ s H1). rewrite (diverges_app _ _ s H2). rewrite (not_section_mono b s H3).
  reflexivity.
Qed.
Lemma nobang_not_section : forall b, nobang b = true -> not_section b = true.
Proof.
  intros [|c b] H; [discriminate|]. simpl in H. apply negb_true_iff in H.
  unfold not_section. change (s_ "!--") with (33 :: [45; 45]).
  change (s_ "![CDATA[") with (33 :: [91; 67; 68; 65; 84; 65; 91]).
  cbn [diverges]. rewrite (Z.eqb_sym 33 c). rewrite H. reflexivity.
Qed.
Lemma not_lex_name_weak : forall b, not_lex_name b = true -> not_lex_namew b = true.
Proof.
  intros b H. unfold not_lex_name, not_lex_namew in *.
  apply andb_true_iff in H. destruct H as [H H3]. rewrite H. rewrite (nobang_not_section b H3).
  reflexivity.
Qed.
Lemma not_lex_name_nobang : forall b, not_lex_name b = true -> nobang b = true.
Proof. intros b H. unfold not_lex_name in H. apply andb_true_iff in H. destruct H as [_ H]. exact H. Qed.
Lemma not_lex_namew_not_section : forall b, not_lex_namew b = true -> not_section b = true.
Proof. intros b H. unfold not_lex_namew in H. apply andb_true_iff in H. destruct H as [_ H]. exact H. Qed.

Lemma lt_free_weak : forall s, lt_free s = true -> lt_freew s = true.
Proof. intro s. apply lt_free_gen_impl. apply not_lex_name_weak. Qed.
Lemma lt_free_bang_free : forall s, lt_free s = true -> bang_free s = true.
Proof. intro s. apply lt_free_gen_impl. apply not_lex_name_nobang. Qed.
Lemma lt_free_app : forall a b, lt_free a = true -> lt_free b = true -> lt_free (a ++ b) = true.
Proof. intros a b. apply lt_free_gen_app. apply not_lex_name_mono. Qed.
Lemma no_lt_lt_free : forall s, zin c_lt s = false -> lt_free s = true.
Proof. intro s. apply lt_free_gen_no_lt. Qed.

Lemma not_lex_namew_lex_at : forall b s, not_lex_namew b = true -> lex_at (b ++ s) = None.
Proof.
  intros b s H. unfold not_lex_namew in H.
  apply andb_true_iff in H. destruct H as [H _]. apply andb_true_iff in H. destruct H as [H1 H2].
  unfold lex_at, try_name.
  change (lextype_name TLexicon) with (s_ "Lexicon").
  change (lextype_name TLexiconExtension) with (s_ "Lexicon" ++ s_ "Extension").
  change (lextype_name TExtends) with (s_ "Extends").
  rewrite (diverges_prefixb _ _ s H1). rewrite (diverges_prefixb _ _ s H2).
  assert (Hp : prefixb (s_ "Lexicon" ++ s_ "Extension") (b ++ s) = false).
  { destruct (prefixb (s_ "Lexicon" ++ s_ "Extension") (b ++ s)) eqn:E; [|reflexivity].
    pose proof (diverges_prefixb _ _ s H1) as Hd.
    apply prefixb_split in E. rewrite E in Hd. rewrite <- app_assoc in Hd.
    rewrite prefixb_app_self in Hd. discriminate. }
  rewrite Hp. reflexivity.
Qed.
Lemma not_section_skip_at : forall b s, not_section b = true -> skip_at (b ++ s) = None.
Proof.
  intros b s H. unfold not_section in H. apply andb_true_iff in H. destruct H as [H1 H2].
  unfold skip_at, section_at.
  rewrite (diverges_prefixb _ _ s H1). rewrite (diverges_prefixb _ _ s H2). reflexivity.
Qed.

(* the scanner passes over such a text *)
Lemma lex_matches_skip : forall pre s, lt_freew pre = true -> lex_matches (pre ++ s) = lex_matches s.
Proof.
  induction pre as [|c pre IH]; intros s H.
  - reflexivity.
  - simpl in H. apply andb_true_iff in H. destruct H as [H1 H2].
    rewrite <- app_comm_cons. rewrite lex_matches_cons.
    destruct (Z.eqb_spec c c_lt) as [E|E].
    + simpl in H1.
      rewrite (not_section_skip_at _ s (not_lex_namew_not_section _ H1)).
      rewrite (not_lex_namew_lex_at _ s H1). apply IH. exact H2.
    + apply IH. exact H2.
Qed.
Lemma lex_matches_lt_free : forall s, lt_freew s = true -> lex_matches s = [].
Proof.
  intros s H. rewrite <- (app_nil_r s). rewrite lex_matches_skip by exact H. reflexivity.
Qed.
(* on such a text the comment / CDATA alternatives never fire *)
Lemma section_free_never_skips : forall s a b, section_free s = true -> s = a ++ c_lt :: b ->
  skip_at b = None.
Proof.
  intros s a b H E. subst s. apply lt_free_gen_at in H.
  rewrite <- (app_nil_r b). apply not_section_skip_at. exact H.
Qed.

(* ---------- the remainder group over well-quoted text ---------- *)
Definition prepend (a : str) (o : option (str * str)) : option (str * str) :=
  match o with Some (x, y) => Some (a ++ x, y) | None => None end.
Lemma prepend_app : forall a b o, prepend (a ++ b) o = prepend a (prepend b o).
Proof. intros a b [[x y]|]; simpl; [rewrite app_assoc; reflexivity | reflexivity]. Qed.

(* outside quotes: neither a quote nor the closing bracket *)
Definition plain_char (c : Z) : bool := negb (Z.eqb c c_gt || is_quote c).
Lemma rem_aux_plain : forall a s, forallb plain_char a = true ->
  rem_aux None (a ++ s) = prepend a (rem_aux None s).
Proof.
  induction a as [|c a IH]; intros s H.
  - change ([] ++ s) with s. destruct (rem_aux None s) as [[x y]|]; reflexivity.
  - simpl in H. apply andb_true_iff in H. destruct H as [Hc Ha].
    unfold plain_char in Hc. apply negb_true_iff in Hc. apply orb_false_iff in Hc.
    destruct Hc as [Hc1 Hc2].
    rewrite <- app_comm_cons. simpl rem_aux. rewrite Hc1, Hc2. rewrite (IH s Ha).
    destruct (rem_aux None s) as [[x y]|]; reflexivity.
Qed.
Lemma rem_aux_in_quote : forall q inner s, zin q inner = false ->
  rem_aux (Some q) (inner ++ q :: s) = prepend (inner ++ [q]) (rem_aux None s).
Proof.
  intros q. induction inner as [|c inner IH]; intros s H.
  - change ([] ++ q :: s) with (q :: s). simpl rem_aux. rewrite Z.eqb_refl.
    destruct (rem_aux None s) as [[x y]|]; reflexivity.
  - rewrite zin_cons in H. apply orb_false_iff in H. destruct H as [H1 H2].
    rewrite <- app_comm_cons. simpl rem_aux. rewrite Z.eqb_sym in H1. rewrite H1.
    rewrite (IH s H2). destruct (rem_aux None s) as [[x y]|]; reflexivity.
Qed.
Lemma is_quote_not_gt : forall q, is_quote q = true -> Z.eqb q c_gt = false.
Proof.
  intros q H. unfold is_quote, c_quot, c_apos in H. unfold c_gt.
  apply orb_true_iff in H. destruct H as [H|H]; apply Z.eqb_eq in H; subst q; reflexivity.
Qed.
Lemma rem_aux_quoted : forall q inner s, is_quote q = true -> zin q inner = false ->
  rem_aux None (q :: inner ++ q :: s) = prepend (q :: inner ++ [q]) (rem_aux None s).
Proof.
  intros q inner s Hq Hz. simpl rem_aux. rewrite (is_quote_not_gt q Hq). rewrite Hq.
  rewrite (rem_aux_in_quote q inner s Hz). destruct (rem_aux None s) as [[x y]|]; reflexivity.
Qed.


(* ====================================================================== *)
(* The attribute scanner                                                  *)
(* ====================================================================== *)
Lemma upto_quote_app : forall q s a b, upto_quote q s = Some (a, b) -> s = a ++ q :: b.
Proof.
  intros q. induction s as [|c r IH]; intros a b H; simpl in H.
  - discriminate.
  - destruct (Z.eqb_spec c q) as [E|E].
    + injection H as <- <-. subst c. reflexivity.
    + destruct (upto_quote q r) as [[a' b']|] eqn:Eu; [|discriminate].
      injection H as <- <-. rewrite (IH a' b' eq_refl). reflexivity.
Qed.
Lemma upto_quote_intro : forall q inner s, zin q inner = false ->
  upto_quote q (inner ++ q :: s) = Some (inner, s).
Proof.
  intros q. induction inner as [|c inner IH]; intros s H.
  - simpl. rewrite Z.eqb_refl. reflexivity.
  - rewrite zin_cons in H. apply orb_false_iff in H. destruct H as [H1 H2].
    rewrite <- app_comm_cons. simpl. rewrite Z.eqb_sym in H1. rewrite H1.
    rewrite (IH s H2). reflexivity.
Qed.
Lemma lstrip_len : forall f s, (length (lstrip_by f s) <= length s)%nat.
Proof.
  intros f. induction s as [|c r IH]; simpl.
  - lia.
  - destruct (f c); simpl; lia.
Qed.

Lemma attr_tail_shorter : forall r v rest,
  attr_tail r = Some (v, rest) -> (length rest < length r)%nat.
Proof.
  intros r v rest H. unfold attr_tail in H.
  pose proof (lstrip_len is_bspace r) as L1.
  destruct (lstrip_by is_bspace r) as [|e r1]; [discriminate|].
  destruct (Z.eqb e 61); [|discriminate].
  pose proof (lstrip_len is_bspace r1) as L2.
  destruct (lstrip_by is_bspace r1) as [|q r2]; [discriminate|].
  destruct (is_quote q); [|discriminate].
  apply upto_quote_app in H. subst r2. simpl in L1, L2. rewrite app_length in L2. simpl in L2. lia.
Qed.
Lemma attr_at_split : forall s nm v rest, attr_at s = Some (nm, v, rest) ->
  exists r, s = nm ++ r /\ nm <> [] /\ attr_tail r = Some (v, rest).
Proof.
  intros s nm v rest H. unfold attr_at in H.
  destruct (span is_namebyte s) as [a b] eqn:E. apply span_app in E.
  destruct a as [|x a]; [discriminate|].
  destruct (attr_tail b) as [[v' rest']|] eqn:Et; [|discriminate].
  injection H as <- <- <-. exists b. repeat split; [exact E | discriminate | exact Et].
Qed.
Lemma attr_at_shorter : forall s nm v rest,
  attr_at s = Some (nm, v, rest) -> (length rest < length s)%nat.
Proof.
  intros s nm v rest H. apply attr_at_split in H. destruct H as [r [Hs [_ Ht]]].
  apply attr_tail_shorter in Ht. subst s. rewrite app_length. lia.
Qed.

Lemma attr_all_S : forall f c r,
  attr_all (S f) (c :: r) =
  match attr_at (c :: r) with
  | Some (nm, v, rest) => (nm, v) :: attr_all f rest
  | None => attr_all f r
  end.
Proof. reflexivity. Qed.

Lemma attr_all_fuel2 : forall f1 f2 s,
  (length s < f1)%nat -> (length s < f2)%nat -> attr_all f1 s = attr_all f2 s.
Proof.
  induction f1 as [|f1 IH]; intros f2 s H1 H2; [lia|].
  destruct f2 as [|f2]; [lia|].
  destruct s as [|c r]; [reflexivity|].
  rewrite !attr_all_S. simpl in H1, H2.
  destruct (attr_at (c :: r)) as [[[nm v] rest]|] eqn:E.
  - apply attr_at_shorter in E. simpl in E. rewrite (IH f2 rest) by lia. reflexivity.
  - apply IH; lia.
Qed.

Lemma attr_tokens_nil : attr_tokens [] = [].
Proof. reflexivity. Qed.
Lemma attr_tokens_cons : forall c r,
  attr_tokens (c :: r) =
  match attr_at (c :: r) with
  | Some (nm, v, rest) => (nm, v) :: attr_tokens rest
  | None => attr_tokens r
  end.
Proof.
  intros c r. unfold attr_tokens at 1. change (length (c :: r)) with (S (length r)).
  rewrite attr_all_S.
  destruct (attr_at (c :: r)) as [[[nm v] rest]|] eqn:E.
  - apply attr_at_shorter in E. simpl in E.
    unfold attr_tokens. rewrite (attr_all_fuel2 (S (length r)) (S (length rest)) rest) by lia.
    reflexivity.
  - reflexivity.
Qed.
Lemma attr_tokens_at : forall s nm v rest, attr_at s = Some (nm, v, rest) ->
  attr_tokens s = (nm, v) :: attr_tokens rest.
Proof.
  intros s nm v rest H. destruct s as [|c r]; [discriminate|].
  rewrite attr_tokens_cons. rewrite H. reflexivity.
Qed.

(* ---------- bytes at which no match can start ---------- *)
Lemma attr_at_first : forall c r, is_namebyte c = false -> attr_at (c :: r) = None.
Proof. intros c r H. unfold attr_at. cbn [span]. rewrite H. reflexivity. Qed.

Definition dead (c : Z) : bool := negb (is_namebyte c).
Lemma attr_skip_dead : forall sep s, forallb dead sep = true ->
  attr_tokens (sep ++ s) = attr_tokens s.
Proof.
  induction sep as [|c sep IH]; intros s H.
  - reflexivity.
  - simpl in H. apply andb_true_iff in H. destruct H as [Hc Hs].
    unfold dead in Hc. apply negb_true_iff in Hc.
    rewrite <- app_comm_cons. rewrite attr_tokens_cons. rewrite (attr_at_first c _ Hc).
    apply IH. exact Hs.
Qed.
Lemma bspace_dead : forall c, is_bspace c = true -> dead c = true.
Proof. intros c H. unfold dead, is_namebyte. rewrite H. reflexivity. Qed.
Lemma bspaces_dead : forall s, forallb is_bspace s = true -> forallb dead s = true.
Proof.
  intros s H. rewrite forallb_forall in *. intros c Hc. apply bspace_dead. apply H. exact Hc.
Qed.

Lemma is_quote_cases : forall q, is_quote q = true -> q = 34 \/ q = 39.
Proof.
  intros q H. unfold is_quote, c_quot, c_apos in H. apply orb_true_iff in H.
  destruct H as [H|H]; apply Z.eqb_eq in H; [left|right]; exact H.
Qed.

(* ---------- one attribute ---------- *)
Lemma attr_tail_intro : forall q inner rest, is_quote q = true -> zin q inner = false ->
  attr_tail (61 :: q :: inner ++ q :: rest) = Some (inner, rest).
Proof.
  intros q inner rest Hq Hz. unfold attr_tail.
  change (lstrip_by is_bspace (61 :: q :: inner ++ q :: rest)) with (61 :: q :: inner ++ q :: rest).
  cbv beta iota. change (Z.eqb 61 61) with true. cbv iota.
  assert (Hs : lstrip_by is_bspace (q :: inner ++ q :: rest) = q :: inner ++ q :: rest).
  { destruct (is_quote_cases q Hq) as [-> | ->]; reflexivity. }
  rewrite Hs. rewrite Hq. apply upto_quote_intro. exact Hz.
Qed.
Lemma span_all : forall p nm c r, forallb p nm = true -> p c = false ->
  span p (nm ++ c :: r) = (nm, c :: r).
Proof.
  intros p. induction nm as [|x nm IH]; intros c r H Hc.
  - simpl. rewrite Hc. reflexivity.
  - simpl in H. apply andb_true_iff in H. destruct H as [Hx Hn].
    rewrite <- app_comm_cons. cbn [span]. rewrite Hx. rewrite (IH c r Hn Hc). reflexivity.
Qed.
(* the whole attribute is one match, whatever its name and its value are *)
Lemma attr_at_attr : forall nm q inner rest, nm <> [] -> forallb is_namebyte nm = true ->
  is_quote q = true -> zin q inner = false ->
  attr_at (nm ++ 61 :: q :: inner ++ q :: rest) = Some (nm, inner, rest).
Proof.
  intros nm q inner rest Hne Hn Hq Hz. unfold attr_at.
  rewrite (span_all is_namebyte nm 61 _ Hn eq_refl).
  destruct nm as [|x nm]; [contradiction|].
  rewrite (attr_tail_intro q inner rest Hq Hz). reflexivity.
Qed.

Lemma scanned_of_attrname : forall n, scanned_of (attrname_str n) = Some n.
Proof. destruct n; reflexivity. Qed.
Lemma scanned_of_some : forall nm n, scanned_of nm = Some n -> nm = attrname_str n.
Proof.
  intros nm n H. unfold scanned_of in H.
  destruct (str_eqb nm (s_ "id")) eqn:E1.
  - injection H as <-. apply str_eqb_eq in E1. exact E1.
  - destruct (str_eqb nm (s_ "version")) eqn:E2.
    + injection H as <-. apply str_eqb_eq in E2. exact E2.
    + destruct (str_eqb nm (s_ "label")) eqn:E3; [|discriminate].
      injection H as <-. apply str_eqb_eq in E3. exact E3.
Qed.
Definition is_scanned (nm : str) : bool := match scanned_of nm with Some _ => true | None => false end.

(* ====================================================================== *)
(* Tags: a sequence of attributes  sep name = q value q,  then a trailer  *)
(* ====================================================================== *)
Record rattr : Type := mkR { ra_sep : str; ra_name : str; ra_q : Z; ra_inner : str }.
Definition rattr_text (a : rattr) : str :=
  ra_sep a ++ ra_name a ++ 61 :: ra_q a :: ra_inner a ++ [ra_q a].
Definition rem_text (l : list rattr) (trailer : str) : str := concat (map rattr_text l) ++ trailer.

Definition nonempty (s : str) : bool := match s with [] => false | _ => true end.
(* well-formed: white space, a name, a quote character that does not occur in the value *)
Definition rattr_wf (a : rattr) : bool :=
  forallb is_bspace (ra_sep a) && nonempty (ra_name a) && forallb is_namebyte (ra_name a)
  && is_quote (ra_q a) && negb (zin (ra_q a) (ra_inner a)).
(* the token the scanner makes of it, and what enters the dictionary *)
Definition rattr_token (a : rattr) : str * str := (ra_name a, ra_inner a).
Definition rattr_sel (a : rattr) : list (attrname * str) := attr_sel (rattr_token a).

Lemma rattr_wf_inv : forall a, rattr_wf a = true ->
  forallb is_bspace (ra_sep a) = true /\ ra_name a <> [] /\ forallb is_namebyte (ra_name a) = true
  /\ is_quote (ra_q a) = true /\ zin (ra_q a) (ra_inner a) = false.
Proof.
  intros a H. unfold rattr_wf in H.
  apply andb_true_iff in H. destruct H as [H H5]. apply andb_true_iff in H. destruct H as [H H4].
  apply andb_true_iff in H. destruct H as [H H3]. apply andb_true_iff in H. destruct H as [H1 H2].
  apply negb_true_iff in H5.
  repeat split; try assumption. intro E. rewrite E in H2. discriminate.
Qed.

Lemma bspace_plain : forall c, is_bspace c = true -> plain_char c = true.
Proof.
  intros c H. unfold is_bspace in H. apply zin_In in H. simpl in H.
  repeat (destruct H as [H|H]; [subst c; reflexivity|]). contradiction.
Qed.
Lemma namebyte_plain : forall c, is_namebyte c = true -> plain_char c = true.
Proof.
  intros c H. unfold is_namebyte in H. apply negb_true_iff in H.
  apply orb_false_iff in H. destruct H as [H _]. apply orb_false_iff in H. destruct H as [H Hq].
  apply orb_false_iff in H. destruct H as [_ Hg].
  unfold plain_char. rewrite Hg, Hq. reflexivity.
Qed.
Lemma forallb_impl : forall (f g : Z -> bool) s,
  (forall c, f c = true -> g c = true) -> forallb f s = true -> forallb g s = true.
Proof.
  intros f g s Hi H. rewrite forallb_forall in *. intros c Hc. apply Hi. apply H. exact Hc.
Qed.

Lemma rattr_text_app : forall a s,
  rattr_text a ++ s = ra_sep a ++ ra_name a ++ 61 :: ra_q a :: ra_inner a ++ ra_q a :: s.
Proof.
  intros a s. unfold rattr_text. rewrite <- !app_assoc. f_equal. f_equal.
  rewrite <- !app_comm_cons. f_equal. f_equal. rewrite <- app_assoc. reflexivity.
Qed.

Lemma rem_aux_rattr : forall a s, rattr_wf a = true ->
  rem_aux None (rattr_text a ++ s) = prepend (rattr_text a) (rem_aux None s).
Proof.
  intros a s H. apply rattr_wf_inv in H. destruct H as [H1 [_ [H2 [H3 H4]]]].
  rewrite rattr_text_app.
  rewrite rem_aux_plain by (apply (forallb_impl _ _ _ bspace_plain H1)).
  rewrite rem_aux_plain by (apply (forallb_impl _ _ _ namebyte_plain H2)).
  change (61 :: ra_q a :: ra_inner a ++ ra_q a :: s) with ([61] ++ ra_q a :: ra_inner a ++ ra_q a :: s).
  rewrite rem_aux_plain by reflexivity.
  rewrite (rem_aux_quoted _ _ s H3 H4).
  rewrite <- !prepend_app. f_equal. unfold rattr_text.
  rewrite <- !app_assoc. reflexivity.
Qed.

Lemma rem_aux_rem_text : forall l trailer rest,
  forallb rattr_wf l = true -> forallb plain_char trailer = true ->
  rem_aux None (rem_text l trailer ++ c_gt :: rest) = Some (rem_text l trailer, rest).
Proof.
  induction l as [|a l IH]; intros trailer rest Hl Ht.
  - unfold rem_text. simpl concat. simpl app at 2. rewrite rem_aux_plain by exact Ht.
    simpl. rewrite app_nil_r. reflexivity.
  - simpl in Hl. apply andb_true_iff in Hl. destruct Hl as [Ha Hl].
    unfold rem_text. simpl map. simpl concat. rewrite <- !app_assoc.
    rewrite rem_aux_rattr by exact Ha.
    rewrite (app_assoc (concat (map rattr_text l)) trailer (c_gt :: rest)).
    fold (rem_text l trailer). rewrite (IH trailer rest Hl Ht). reflexivity.
Qed.

(* the attribute scanner takes the attribute as ONE token, whatever its value contains *)
Lemma attr_tokens_rattr : forall a s, rattr_wf a = true ->
  attr_tokens (rattr_text a ++ s) = rattr_token a :: attr_tokens s.
Proof.
  intros a s H. apply rattr_wf_inv in H. destruct H as [H1 [Hne [H2 [H3 H4]]]].
  rewrite rattr_text_app.
  rewrite attr_skip_dead by (apply bspaces_dead; exact H1).
  apply attr_tokens_at. apply attr_at_attr; assumption.
Qed.
(* ... so the remainder is tokenised into exactly the attributes that were written *)
Theorem attr_tokens_rem_text : forall l trailer,
  forallb rattr_wf l = true -> forallb dead trailer = true ->
  attr_tokens (rem_text l trailer) = map rattr_token l.
Proof.
  intros l trailer Hl Ht. induction l as [|a l IH].
  - unfold rem_text. simpl concat. simpl app. simpl map.
    rewrite <- (app_nil_r trailer). rewrite attr_skip_dead by exact Ht. apply attr_tokens_nil.
  - simpl in Hl. apply andb_true_iff in Hl. destruct Hl as [Ha Hl].
    unfold rem_text. cbn [map concat]. rewrite <- app_assoc.
    rewrite (attr_tokens_rattr a _ Ha). fold (rem_text l trailer).
    rewrite (IH Hl). reflexivity.
Qed.
Lemma flat_map_map : forall {A B C} (f : B -> list C) (g : A -> B) l,
  flat_map f (map g l) = flat_map (fun x => f (g x)) l.
Proof.
  intros A B C f g l. induction l as [|x l IH]; [reflexivity|]. simpl. rewrite IH. reflexivity.
Qed.
Lemma attr_matches_rem_text : forall l trailer,
  forallb rattr_wf l = true -> forallb dead trailer = true ->
  attr_matches (rem_text l trailer) = flat_map rattr_sel l.
Proof.
  intros l trailer Hl Ht. unfold attr_matches. rewrite (attr_tokens_rem_text l trailer Hl Ht).
  rewrite flat_map_map. reflexivity.
Qed.


(* the lex scanner takes exactly the tag *)
Lemma lex_at_tag : forall t l trailer rest,
  forallb rattr_wf l = true -> forallb plain_char trailer = true ->
  boundary_after (rem_text l trailer ++ c_gt :: rest) = true ->
  lex_at (lextype_name t ++ rem_text l trailer ++ c_gt :: rest) = Some (t, rem_text l trailer, rest).
Proof.
  intros t l trailer rest Hl Ht Hb.
  pose proof (rem_aux_rem_text l trailer rest Hl Ht) as Hr.
  set (R := rem_text l trailer ++ c_gt :: rest) in *.
  unfold lex_at, try_name. destruct t.
  - change (prefixb (lextype_name TLexicon) (lextype_name TLexicon ++ R)) with true. cbv iota.
    change (skipn (length (lextype_name TLexicon)) (lextype_name TLexicon ++ R)) with R.
    rewrite Hb. rewrite Hr. reflexivity.
  - change (prefixb (lextype_name TLexicon) (lextype_name TLexiconExtension ++ R)) with true. cbv iota.
    change (skipn (length (lextype_name TLexicon)) (lextype_name TLexiconExtension ++ R))
      with (s_ "Extension" ++ R).
    change (boundary_after (s_ "Extension" ++ R)) with false. cbv iota.
    change (prefixb (lextype_name TLexiconExtension) (lextype_name TLexiconExtension ++ R)) with true.
    cbv iota.
    change (skipn (length (lextype_name TLexiconExtension)) (lextype_name TLexiconExtension ++ R)) with R.
    rewrite Hb. rewrite Hr. reflexivity.
  - change (prefixb (lextype_name TLexicon) (lextype_name TExtends ++ R)) with false. cbv iota.
    change (prefixb (lextype_name TLexiconExtension) (lextype_name TExtends ++ R)) with false. cbv iota.
    change (prefixb (lextype_name TExtends) (lextype_name TExtends ++ R)) with true. cbv iota.
    change (skipn (length (lextype_name TExtends)) (lextype_name TExtends ++ R)) with R.
    rewrite Hb. rewrite Hr. reflexivity.
Qed.

(* ====================================================================== *)
(* Values, the dictionary, the loop                                       *)
(* ====================================================================== *)
Lemma scalars_app : forall a b, scalars (a ++ b) = scalars a && scalars b.
Proof. intros a b. unfold scalars. apply forallb_app. Qed.
Lemma scalars_flat_map : forall (g : Z -> str) s,
  (forall c, scalar c = true -> scalars (g c) = true) -> scalars s = true -> scalars (flat_map g s) = true.
Proof.
  intros g s Hg. induction s as [|c s IH]; intro H.
  - reflexivity.
  - simpl in H. apply andb_true_iff in H. destruct H as [Hc Hs].
    simpl. rewrite scalars_app. rewrite (Hg c Hc). rewrite (IH Hs). reflexivity.
Qed.
Lemma sax_f_scalars : forall c, scalar c = true -> scalars (sax_f c) = true.
Proof.
  intros c H. unfold sax_f, c_amp, c_lt, c_gt, c_cr, c_nl, c_tab. dz c; try reflexivity.
  simpl. rewrite H. reflexivity.
Qed.
Lemma saxq_f_scalars : forall c, scalar c = true -> scalars (saxq_f c) = true.
Proof.
  intros c H. unfold saxq_f. destruct (Z.eqb c c_quot); [reflexivity | apply sax_f_scalars; exact H].
Qed.
Lemma ea_f_scalars : forall c, scalar c = true -> scalars (ea_f c) = true.
Proof.
  intros c H. unfold ea_f, c_amp, c_lt, c_gt, c_quot, c_cr, c_nl, c_tab. dz c; try reflexivity.
  simpl. rewrite H. reflexivity.
Qed.
Lemma quoteattr_inner_scalars : forall s, scalars s = true -> scalars (quoteattr_inner s) = true.
Proof.
  intros s H. unfold quoteattr_inner. cbv zeta.
  destruct (zin c_quot (flat_map sax_f s) && zin c_apos (flat_map sax_f s)).
  - apply scalars_flat_map; [apply saxq_f_scalars | exact H].
  - apply scalars_flat_map; [apply sax_f_scalars | exact H].
Qed.
Lemma escape_attrib_scalars : forall s, scalars s = true -> scalars (escape_attrib s) = true.
Proof.
  intros s H. rewrite escape_attrib_eq. apply scalars_flat_map; [apply ea_f_scalars | exact H].
Qed.

(* the value the scanner computes from the bytes between the quotes *)
Theorem attr_value_quoteattr : forall s, scalars s = true ->
  attr_value (utf8_encode (quoteattr_inner s)) = Some s.
Proof.
  intros s H. unfold attr_value.
  rewrite utf8_roundtrip by (apply quoteattr_inner_scalars; exact H).
  apply unescape_quoteattr.
Qed.
Theorem attr_value_escape_attrib : forall s, scalars s = true ->
  attr_value (utf8_encode (escape_attrib s)) = Some s.
Proof.
  intros s H. unfold attr_value.
  rewrite utf8_roundtrip by (apply escape_attrib_scalars; exact H).
  apply unescape_escape_attrib.
Qed.

Lemma build_attrs_cons : forall a n raw r v, attr_value raw = Some v ->
  build_attrs a ((n, raw) :: r) = build_attrs (attrs_set a n v) r.
Proof. intros a n raw r v H. simpl. rewrite H. reflexivity. Qed.

Lemma build_attrs_err : forall ms a e, build_attrs a ms = Err e -> e = EOther.
Proof.
  induction ms as [|[n raw] r IH]; intros a e H; simpl in H.
  - discriminate.
  - destruct (attr_value raw) as [v|].
    + apply (IH _ _ H).
    + injection H as <-. reflexivity.
Qed.
Lemma build_attrs_no_id : forall ms a a', build_attrs a ms = Ok a' ->
  (forall v, ~ In (NId, v) ms) -> a_id a' = a_id a.
Proof.
  induction ms as [|[n raw] r IH]; intros a a' H Hn; simpl in H.
  - injection H as <-. reflexivity.
  - destruct (attr_value raw) as [v|]; [|discriminate].
    rewrite (IH _ _ H).
    + destruct n; try reflexivity. exfalso. apply (Hn raw). left. reflexivity.
    + intros v' Hin. apply (Hn v'). right. exact Hin.
Qed.
Lemma build_attrs_no_version : forall ms a a', build_attrs a ms = Ok a' ->
  (forall v, ~ In (NVersion, v) ms) -> a_version a' = a_version a.
Proof.
  induction ms as [|[n raw] r IH]; intros a a' H Hn; simpl in H.
  - injection H as <-. reflexivity.
  - destruct (attr_value raw) as [v|]; [|discriminate].
    rewrite (IH _ _ H).
    + destruct n; try reflexivity. exfalso. apply (Hn raw). left. reflexivity.
    + intros v' Hin. apply (Hn v'). right. exact Hin.
Qed.
Lemma build_attrs_decodable : forall ms a,
  Forall (fun m => attr_value (snd m) <> None) ms -> exists a', build_attrs a ms = Ok a'.
Proof.
  induction ms as [|[n raw] r IH]; intros a H.
  - exists a. reflexivity.
  - inversion H as [|x l Hx Hr]; subst. simpl in Hx. simpl.
    destruct (attr_value raw) as [v|]; [|contradiction]. apply IH. exact Hr.
Qed.

(* the loop *)
Definition with_extends (last i : info) : info :=
  mkInfo (i_id last) (i_version last) (i_label last) (Some (i_id i, i_version i)).
Lemma process_lexicon : forall acc t R ms i, tag_info R = Ok i -> t <> TExtends ->
  process acc ((t, R) :: ms) = process (i :: acc) ms.
Proof.
  intros acc t R ms i H Ht. simpl. rewrite H. simpl. destruct t; try reflexivity. contradiction.
Qed.
Lemma process_extends : forall last acc R ms i, tag_info R = Ok i ->
  process (last :: acc) ((TExtends, R) :: ms) = process (with_extends last i :: acc) ms.
Proof. intros last acc R ms i H. simpl. rewrite H. reflexivity. Qed.
Lemma process_nil : forall acc, process acc [] = Ok (rev acc).
Proof. reflexivity. Qed.

(* ====================================================================== *)
(* S4  tags without id or version; a leading <Extends>                    *)
(* ====================================================================== *)
Definition lacks_id_or_version (ms : list (attrname * str)) : Prop :=
  (forall v, ~ In (NId, v) ms) \/ (forall v, ~ In (NVersion, v) ms).

(* such a tag raises: KeyError, unless a value captured before cannot be decoded *)
Theorem tag_info_missing : forall R, lacks_id_or_version (attr_matches R) ->
  tag_info R = Err EKey \/ tag_info R = Err EOther.
Proof.
  intros R H. unfold tag_info.
  destruct (build_attrs attrs_empty (attr_matches R)) as [a|e] eqn:E.
  - left. simpl. destruct H as [H|H].
    + rewrite (build_attrs_no_id _ _ _ E H). reflexivity.
    + rewrite (build_attrs_no_version _ _ _ E H). simpl.
      destruct (a_id a); reflexivity.
  - right. apply build_attrs_err in E. subst e. reflexivity.
Qed.
Theorem tag_info_missing_keyerror : forall R, lacks_id_or_version (attr_matches R) ->
  Forall (fun m => attr_value (snd m) <> None) (attr_matches R) ->
  tag_info R = Err EKey.
Proof.
  intros R H Hd. destruct (tag_info_missing R H) as [Hk|Ho]; [exact Hk|].
  exfalso. unfold tag_info in Ho.
  destruct (build_attrs_decodable _ attrs_empty Hd) as [a Ha]. rewrite Ha in Ho. simpl in Ho.
  destruct (a_id a); [destruct (a_version a)|]; discriminate.
Qed.
(* the LMFError 'missing id or version' of the source is unreachable *)
Theorem tag_info_never_lmferror : forall R, tag_info R <> Err ELmf.
Proof.
  intros R H. unfold tag_info in H.
  destruct (build_attrs attrs_empty (attr_matches R)) as [a|e] eqn:E.
  - simpl in H. destruct (a_id a); [destruct (a_version a)|]; discriminate.
  - apply build_attrs_err in E. subst e. discriminate.
Qed.

Lemma process_error_in : forall ms acc t R e, In (t, R) ms -> tag_info R = Err e ->
  exists e', process acc ms = Err e'.
Proof.
  induction ms as [|[t0 R0] ms IH]; intros acc t R e Hin He.
  - contradiction.
  - simpl. destruct Hin as [Hin|Hin].
    + injection Hin as -> ->. rewrite He. exists e. reflexivity.
    + destruct (tag_info R0) as [i|e0]; [|exists e0; reflexivity]. simpl.
      destruct t0; try (apply (IH _ t R e Hin He)).
      destruct acc as [|last acc']; [exists ELmf; reflexivity|].
      apply (IH _ t R e Hin He).
Qed.

(* a file one of whose tags lacks id or version is never answered with a list *)
Theorem scan_missing_id_or_version : forall data t R,
  In (t, R) (lex_matches data) -> lacks_id_or_version (attr_matches R) ->
  exists e, scan_lexicons data = Err e.
Proof.
  intros data t R Hin H. unfold scan_lexicons.
  destruct (tag_info_missing R H) as [Hk|Ho].
  - apply (process_error_in _ [] t R EKey Hin Hk).
  - apply (process_error_in _ [] t R EOther Hin Ho).
Qed.
(* if it is the first tag and its captured values are decodable: KeyError *)
Theorem scan_first_missing_keyerror : forall data t R ms,
  lex_matches data = (t, R) :: ms -> lacks_id_or_version (attr_matches R) ->
  Forall (fun m => attr_value (snd m) <> None) (attr_matches R) ->
  scan_lexicons data = Err EKey.
Proof.
  intros data t R ms Hm H Hd. unfold scan_lexicons. rewrite Hm. simpl.
  rewrite (tag_info_missing_keyerror R H Hd). reflexivity.
Qed.
(* <Extends> before any lexicon: LMFError (after the KeyError / decoding checks) *)
Theorem scan_extends_first : forall data R ms i,
  lex_matches data = (TExtends, R) :: ms -> tag_info R = Ok i ->
  scan_lexicons data = Err ELmf.
Proof.
  intros data R ms i Hm Hi. unfold scan_lexicons. rewrite Hm. simpl. rewrite Hi. reflexivity.
Qed.
Theorem scan_extends_first_any : forall data R ms,
  lex_matches data = (TExtends, R) :: ms -> exists e, scan_lexicons data = Err e.
Proof.
  intros data R ms Hm. unfold scan_lexicons. rewrite Hm. simpl.
  destruct (tag_info R) as [i|e]; [exists ELmf | exists e]; reflexivity.
Qed.

(* ====================================================================== *)
(* ====================================================================== *)
(* A tag inside a text                                                    *)
(* ====================================================================== *)
Record item : Type :=
  mkItem { it_pre : str; it_type : lextype; it_attrs : list rattr; it_trailer : str; it_post : str }.
Definition item_rem (it : item) : str := rem_text (it_attrs it) (it_trailer it).
Definition item_text (it : item) : str :=
  it_pre it ++ c_lt :: lextype_name (it_type it) ++ item_rem it ++ c_gt :: it_post it.
Definition item_ok (it : item) : bool :=
  lt_freew (it_pre it) && lt_freew (it_post it) && forallb rattr_wf (it_attrs it)
  && forallb plain_char (it_trailer it) && boundary_after (item_rem it ++ [c_gt]).

Lemma boundary_after_app : forall x c rest,
  boundary_after (x ++ c :: rest) = boundary_after (x ++ [c]).
Proof. intros x c rest. destruct x; reflexivity. Qed.

Lemma skip_at_lextype : forall t s, skip_at (lextype_name t ++ s) = None.
Proof. intros t s. destruct t; apply skip_at_first; reflexivity. Qed.

Lemma lex_matches_tag : forall t l trailer rest,
  forallb rattr_wf l = true -> forallb plain_char trailer = true ->
  boundary_after (rem_text l trailer ++ [c_gt]) = true ->
  lex_matches (c_lt :: lextype_name t ++ rem_text l trailer ++ c_gt :: rest)
  = (t, rem_text l trailer) :: lex_matches rest.
Proof.
  intros t l trailer rest Hl Ht Hb. rewrite lex_matches_cons.
  change (Z.eqb c_lt c_lt) with true. cbv iota. rewrite skip_at_lextype.
  rewrite (lex_at_tag t l trailer rest Hl Ht) by (rewrite boundary_after_app; exact Hb).
  reflexivity.
Qed.

Lemma lex_matches_item : forall it s, item_ok it = true ->
  lex_matches (item_text it ++ s) = (it_type it, item_rem it) :: lex_matches s.
Proof.
  intros it s H. unfold item_ok in H.
  apply andb_true_iff in H. destruct H as [H H5]. apply andb_true_iff in H. destruct H as [H H4].
  apply andb_true_iff in H. destruct H as [H H3]. apply andb_true_iff in H. destruct H as [H1 H2].
  unfold item_text. rewrite <- app_assoc. rewrite (lex_matches_skip _ _ H1).
  rewrite <- app_comm_cons. rewrite <- !app_assoc. rewrite <- app_comm_cons. unfold item_rem in *.
  rewrite (lex_matches_tag (it_type it) (it_attrs it) (it_trailer it) (it_post it ++ s) H3 H4 H5).
  rewrite (lex_matches_skip _ _ H2). reflexivity.
Qed.

(* ====================================================================== *)
(* S2  the start tag written by _dump_lexicon                             *)
(* ====================================================================== *)
(* name="value" as the f-string of _dump_lexicon writes it *)
Definition q_part (kv : str * str) : str := fst kv ++ [61] ++ quoteattr (snd kv).
(* what follows the element name: a space, the attributes joined by the delimiter *)
Definition start_tag_rem (lexicontype : str) (attrib : list (str * str)) : str :=
  [c_sp] ++ join (c_nl :: spaces (length (s_ "  <" ++ lexicontype ++ [c_sp]))) (map q_part attrib).

Definition q_rattr (sep : str) (kv : str * str) : rattr :=
  mkR sep (fst kv) (quoteattr_q (snd kv)) (utf8_encode (quoteattr_inner (snd kv))).
Fixpoint q_rattrs (sep delim : str) (l : list (str * str)) : list rattr :=
  match l with
  | [] => []
  | kv :: r => q_rattr sep kv :: q_rattrs delim delim r
  end.

Lemma is_quote_lt128 : forall q, is_quote q = true -> q < 128.
Proof. intros q H. destruct (is_quote_cases q H) as [-> | ->]; lia. Qed.

Lemma utf8_q_part : forall sep kv, ascii sep = true -> ascii (fst kv) = true ->
  utf8_encode (sep ++ q_part kv) = rattr_text (q_rattr sep kv).
Proof.
  intros sep kv Hs Hk. unfold q_part, rattr_text, q_rattr. simpl ra_sep. simpl ra_name.
  simpl ra_q. simpl ra_inner.
  destruct (quoteattr_shape (snd kv)) as [Hq [_ Hqq]]. rewrite Hq.
  rewrite !utf8_encode_app. rewrite (utf8_encode_ascii sep Hs). rewrite (utf8_encode_ascii _ Hk).
  pose proof (is_quote_lt128 _ Hqq) as Hlt.
  assert (H1 : utf8_encode [quoteattr_q (snd kv)] = [quoteattr_q (snd kv)]).
  { apply utf8_encode_ascii. simpl. apply Z.ltb_lt in Hlt. rewrite Hlt. reflexivity. }
  rewrite H1. reflexivity.
Qed.

Lemma join_cons2 : forall d (x y : str) r, join d (x :: y :: r) = x ++ d ++ join d (y :: r).
Proof. reflexivity. Qed.

Lemma utf8_join_parts : forall l sep delim, l <> [] ->
  ascii sep = true -> ascii delim = true -> forallb (fun kv => ascii (fst kv)) l = true ->
  utf8_encode (sep ++ join delim (map q_part l)) = rem_text (q_rattrs sep delim l) [].
Proof.
  induction l as [|kv l IH]; intros sep delim Hne Hs Hd Hk; [contradiction|].
  simpl in Hk. apply andb_true_iff in Hk. destruct Hk as [Hk Hl].
  destruct l as [|kv2 l].
  - simpl map. simpl join. rewrite (utf8_q_part sep kv Hs Hk).
    unfold rem_text. simpl. rewrite !app_nil_r. reflexivity.
  - change (map q_part (kv :: kv2 :: l)) with (q_part kv :: q_part kv2 :: map q_part l).
    rewrite join_cons2. rewrite app_assoc. rewrite utf8_encode_app.
    rewrite (utf8_q_part sep kv Hs Hk).
    change (q_part kv2 :: map q_part l) with (map q_part (kv2 :: l)).
    rewrite (IH delim delim) by (try discriminate; assumption).
    unfold rem_text. simpl. rewrite !app_nil_r. reflexivity.
Qed.

(* the only hypothesis on an attribute: its name is ASCII, not empty, and made of name
   bytes (no white space, "=", angle bracket, quote or "/") *)
Definition attr_name_ok (nm : str) : bool := ascii nm && nonempty nm && forallb is_namebyte nm.
Lemma attr_name_ok_inv : forall nm, attr_name_ok nm = true ->
  ascii nm = true /\ nonempty nm = true /\ forallb is_namebyte nm = true.
Proof.
  intros nm H. unfold attr_name_ok in H. apply andb_true_iff in H. destruct H as [H H3].
  apply andb_true_iff in H. destruct H as [H1 H2]. repeat split; assumption.
Qed.

Lemma q_rattrs_wf : forall l sep delim,
  forallb is_bspace sep = true -> forallb is_bspace delim = true ->
  forallb (fun kv => attr_name_ok (fst kv)) l = true ->
  forallb rattr_wf (q_rattrs sep delim l) = true.
Proof.
  induction l as [|kv l IH]; intros sep delim Hs Hd Hk.
  - reflexivity.
  - simpl in Hk. apply andb_true_iff in Hk. destruct Hk as [Hk Hl].
    apply attr_name_ok_inv in Hk. destruct Hk as [_ [Hk1 Hk2]].
    simpl. rewrite (IH delim delim Hd Hd Hl). rewrite andb_true_r.
    unfold rattr_wf, q_rattr. simpl.
    destruct (quoteattr_shape (snd kv)) as [_ [Hz Hq]].
    rewrite Hs, Hk1, Hk2, Hq. simpl.
    rewrite zin_utf8_encode by (apply is_quote_lt128; exact Hq). rewrite Hz. reflexivity.
Qed.
(* the tokens: the written names with the bytes of the escaped values *)
Definition q_token (kv : str * str) : str * str := (fst kv, utf8_encode (quoteattr_inner (snd kv))).
Lemma q_rattrs_tokens : forall l sep delim, map rattr_token (q_rattrs sep delim l) = map q_token l.
Proof.
  induction l as [|kv l IH]; intros sep delim.
  - reflexivity.
  - simpl. rewrite (IH delim delim). reflexivity.
Qed.

Lemma spaces_bspace : forall n, forallb is_bspace (spaces n) = true.
Proof. induction n as [|n IH]; [reflexivity | simpl; exact IH]. Qed.
Lemma spaces_ascii : forall n, ascii (spaces n) = true.
Proof. induction n as [|n IH]; [reflexivity | simpl; exact IH]. Qed.

(* the element names of a lexicon *)
Definition lexicon_type (t : lextype) : Prop := t = TLexicon \/ t = TLexiconExtension.

(* S2, general form: whatever the attributes and their values are, the lex scanner
   takes exactly the start tag, and the attribute scanner tokenises the remainder into
   exactly the written (name, value) pairs — no hypothesis on the values *)
Theorem start_tag_scanned : forall t attrib rest,
  attrib <> [] ->
  forallb (fun kv => attr_name_ok (fst kv)) attrib = true ->
  let R := utf8_encode (start_tag_rem (lextype_name t) attrib) in
  lex_at (utf8_encode (lextype_name t ++ start_tag_rem (lextype_name t) attrib) ++ c_gt :: rest)
    = Some (t, R, rest)
  /\ attr_tokens R = map q_token attrib.
Proof.
  intros t attrib rest Hne Hn R.
  set (delim := c_nl :: spaces (length (s_ "  <" ++ lextype_name t ++ [c_sp]))) in *.
  assert (Hda : ascii delim = true) by (unfold delim; simpl; apply spaces_ascii).
  assert (Hdb : forallb is_bspace delim = true) by (unfold delim; simpl; apply spaces_bspace).
  assert (Hka : forallb (fun kv => ascii (fst kv)) attrib = true).
  { rewrite forallb_forall in *. intros kv Hkv. specialize (Hn kv Hkv).
    apply attr_name_ok_inv in Hn. destruct Hn as [Hn _]. exact Hn. }
  assert (HR : R = rem_text (q_rattrs [c_sp] delim attrib) []).
  { unfold R, start_tag_rem. fold delim.
    apply utf8_join_parts; [exact Hne | reflexivity | exact Hda | exact Hka]. }
  assert (Hwf : forallb rattr_wf (q_rattrs [c_sp] delim attrib) = true).
  { apply q_rattrs_wf; [reflexivity | exact Hdb | exact Hn]. }
  split.
  - rewrite utf8_encode_app. fold R.
    rewrite (utf8_encode_ascii (lextype_name t)) by (destruct t; reflexivity).
    rewrite <- app_assoc. rewrite HR. apply lex_at_tag; [exact Hwf | reflexivity |].
    destruct attrib as [|kv l]; [contradiction|]. reflexivity.
  - rewrite HR. rewrite attr_tokens_rem_text; [apply q_rattrs_tokens | exact Hwf | reflexivity].
Qed.

(* ---------- the attribute names _build_lexicon_attrib produces ---------- *)
Definition lexicon_attrib (id label language email license version : str)
                          (extra : list (str * str)) : list (str * str) :=
  [(s_ "id", id); (s_ "label", label); (s_ "language", language); (s_ "email", email);
   (s_ "license", license); (s_ "version", version)] ++ extra.
(* url, citation, logo, and the keys of _meta_dict *)
Definition extra_names : list str :=
  map s_ ["url"; "citation"; "logo"]%string ++ map fst meta_keys ++ [s_ "confidenceScore"].

(* every name the writer uses is a well-formed attribute name *)
Lemma lexicon_names_ok :
  forallb attr_name_ok
          (map s_ ["id"; "label"; "language"; "email"; "license"; "version"]%string ++ extra_names) = true.
Proof. vm_compute. reflexivity. Qed.
Lemma extra_names_unscanned : forallb (fun nm => negb (is_scanned nm)) extra_names = true.
Proof. vm_compute. reflexivity. Qed.

Lemma extra_name_facts : forall nm, In nm extra_names ->
  attr_name_ok nm = true /\ scanned_of nm = None.
Proof.
  intros nm H.
  pose proof lexicon_names_ok as H1. rewrite forallb_forall in H1.
  assert (Hin : In nm (map s_ ["id"; "label"; "language"; "email"; "license"; "version"]%string ++ extra_names)).
  { apply in_or_app. right. exact H. }
  specialize (H1 nm Hin).
  pose proof extra_names_unscanned as H2. rewrite forallb_forall in H2. specialize (H2 nm H).
  apply negb_true_iff in H2. unfold is_scanned in H2.
  destruct (scanned_of nm) eqn:Es; [discriminate|]. split; [exact H1 | reflexivity].
Qed.

(* S2 for the dictionary _build_lexicon_attrib makes: the scan returns its id, version
   and label whatever the other attributes contain *)
Theorem lexicon_start_tag_scanned :
  forall t id label language email license version extra rest,
  Forall (fun kv => In (fst kv) extra_names) extra ->
  scalars id = true -> scalars label = true -> scalars version = true ->
  let attrib := lexicon_attrib id label language email license version extra in
  let R := utf8_encode (start_tag_rem (lextype_name t) attrib) in
  lex_at (utf8_encode (lextype_name t ++ start_tag_rem (lextype_name t) attrib) ++ c_gt :: rest)
    = Some (t, R, rest)
  /\ attr_tokens R = map q_token attrib
  /\ tag_info R = Ok (mkInfo id version (Some label) None).
Proof.
  intros t id label language email license version extra rest Hex Hid Hlab Hver attrib R.
  assert (Hnames : forallb (fun kv => attr_name_ok (fst kv)) attrib = true).
  { unfold attrib, lexicon_attrib. rewrite forallb_app. apply andb_true_iff. split; [reflexivity|].
    rewrite forallb_forall. intros kv Hkv. rewrite Forall_forall in Hex.
    apply (extra_name_facts _ (Hex kv Hkv)). }
  destruct (start_tag_scanned t attrib rest) as [H1 H2];
    [unfold attrib, lexicon_attrib; discriminate | exact Hnames |].
  split; [exact H1|]. fold R in H2. split; [exact H2|].
  unfold tag_info, attr_matches. rewrite H2.
  assert (Hsel : flat_map attr_sel (map q_token extra) = []).
  { clear - Hex. induction extra as [|kv l IH]; [reflexivity|].
    inversion Hex as [|x y Hx Hy]; subst. cbn [map flat_map].
    destruct (extra_name_facts _ Hx) as [_ Hs]. unfold attr_sel at 1. cbn [q_token fst].
    rewrite Hs. simpl. apply IH. exact Hy. }
  unfold attrib, lexicon_attrib. rewrite map_app. rewrite flat_map_app. rewrite Hsel. rewrite app_nil_r.
  change (flat_map attr_sel (map q_token
            [(s_ "id", id); (s_ "label", label); (s_ "language", language); (s_ "email", email);
             (s_ "license", license); (s_ "version", version)]))
    with [(NId, utf8_encode (quoteattr_inner id)); (NLabel, utf8_encode (quoteattr_inner label));
          (NVersion, utf8_encode (quoteattr_inner version))].
  rewrite (build_attrs_cons _ _ _ _ id (attr_value_quoteattr id Hid)).
  rewrite (build_attrs_cons _ _ _ _ label (attr_value_quoteattr label Hlab)).
  rewrite (build_attrs_cons _ _ _ _ version (attr_value_quoteattr version Hver)).
  reflexivity.
Qed.

(* ---------- the inputs on which the scanner of the earlier source tree failed (it
   looked for id= / version= / label= inside the values of other attributes) are now
   scanned correctly ---------- *)
Example start_tag_old_witness :
  let attrib := lexicon_attrib (s_ "a") (s_ "x") (s_ "en") (s_ "e") (s_ "l") (s_ "1")
                               [(s_ "url", s_ "see version=""2"" there")] in
  tag_info (utf8_encode (start_tag_rem (s_ "Lexicon") attrib))
  = Ok (mkInfo (s_ "a") (s_ "1") (Some (s_ "x")) None)
  /\ attr_tokens (utf8_encode (start_tag_rem (s_ "Lexicon") attrib))
     = [(s_ "id", s_ "a"); (s_ "label", s_ "x"); (s_ "language", s_ "en"); (s_ "email", s_ "e");
        (s_ "license", s_ "l"); (s_ "version", s_ "1"); (s_ "url", s_ "see version=""2"" there")].
Proof. vm_compute. split; reflexivity. Qed.
Example start_tag_old_witness2 :
  let attrib := lexicon_attrib (s_ "a") (s_ "x") (s_ "en") (s_ "id=") (s_ "l") (s_ "1")
                               [(s_ "url", s_ "version=""evil""")] in
  tag_info (utf8_encode (start_tag_rem (s_ "Lexicon") attrib))
  = Ok (mkInfo (s_ "a") (s_ "1") (Some (s_ "x")) None).
Proof. vm_compute. reflexivity. Qed.

(* ====================================================================== *)
(* The <Extends .../> element written by the ElementTree serializer       *)
(* ====================================================================== *)
(*  name="value" as _serialize_xml writes it, with the leading space *)
Definition e_part (kv : str * str) : str :=
  [c_sp] ++ fst kv ++ [61; c_quot] ++ escape_attrib (snd kv) ++ [c_quot].
Definition e_rattr (kv : str * str) : rattr :=
  mkR [c_sp] (fst kv) c_quot (utf8_encode (escape_attrib (snd kv))).

Lemma utf8_e_part : forall kv, ascii (fst kv) = true ->
  utf8_encode (e_part kv) = rattr_text (e_rattr kv).
Proof.
  intros kv Hk. unfold e_part, rattr_text, e_rattr. simpl ra_sep. simpl ra_name. simpl ra_q.
  simpl ra_inner. rewrite !utf8_encode_app. rewrite (utf8_encode_ascii _ Hk). reflexivity.
Qed.
Lemma utf8_e_parts : forall l, forallb (fun kv => ascii (fst kv)) l = true ->
  utf8_encode (concat (map e_part l)) = concat (map rattr_text (map e_rattr l)).
Proof.
  induction l as [|kv l IH]; intro H.
  - reflexivity.
  - simpl in H. apply andb_true_iff in H. destruct H as [Hk Hl].
    cbn [map concat]. rewrite utf8_encode_app. rewrite (utf8_e_part kv Hk). rewrite (IH Hl). reflexivity.
Qed.

Lemma e_rattrs_wf : forall l, forallb (fun kv => attr_name_ok (fst kv)) l = true ->
  forallb rattr_wf (map e_rattr l) = true.
Proof.
  induction l as [|kv l IH]; intro H.
  - reflexivity.
  - simpl in H. apply andb_true_iff in H. destruct H as [Hk Hl].
    apply attr_name_ok_inv in Hk. destruct Hk as [_ [Hk1 Hk2]].
    simpl. rewrite (IH Hl). rewrite andb_true_r.
    unfold rattr_wf, e_rattr. simpl. rewrite Hk1, Hk2. simpl.
    rewrite zin_utf8_encode by (unfold c_quot; lia).
    destruct (escape_attrib_wellformed (snd kv)) as [Hq _]. rewrite Hq. reflexivity.
Qed.

(* the line written by _dump_dependency(dep, 'Extends', out) *)
Definition dep_text (deptype : str) (attrs : list (str * str)) : str :=
  spaces 4 ++ [c_lt] ++ deptype ++ concat (map e_part attrs) ++ s_ " />" ++ [c_nl].

Definition extends_attrs (id version : str) (extra : list (str * str)) : list (str * str) :=
  [(s_ "id", id); (s_ "version", version)] ++ extra.
Definition extends_item (id version : str) (extra : list (str * str)) : item :=
  mkItem (spaces 4) TExtends (map e_rattr (extends_attrs id version extra)) (s_ " /") [c_nl].

Definition url_only (extra : list (str * str)) : bool :=
  forallb (fun kv => str_eqb (fst kv) (s_ "url")) extra.

Lemma url_only_facts : forall extra, url_only extra = true ->
  forallb (fun kv => attr_name_ok (fst kv)) extra = true
  /\ forallb (fun kv => ascii (fst kv)) extra = true
  /\ flat_map rattr_sel (map e_rattr extra) = []
  /\ forallb (fun kv => negb (zin c_lt (fst kv))) extra = true.
Proof.
  induction extra as [|kv l IH]; intro H.
  - repeat split; reflexivity.
  - simpl in H. apply andb_true_iff in H. destruct H as [Hk Hl]. apply str_eqb_eq in Hk.
    destruct (IH Hl) as [H1 [H2 [H3 H4]]].
    repeat split.
    + simpl. rewrite Hk. rewrite H1. reflexivity.
    + simpl. rewrite Hk. rewrite H2. reflexivity.
    + cbn [map flat_map]. unfold rattr_sel at 1, attr_sel, rattr_token, e_rattr. cbn [ra_name fst].
      rewrite Hk. simpl. exact H3.
    + simpl. rewrite Hk. rewrite H4. reflexivity.
Qed.

Lemma utf8_spaces : forall n, utf8_encode (spaces n) = spaces n.
Proof. intro n. apply utf8_encode_ascii. apply spaces_ascii. Qed.
Lemma spaces_no_lt : forall n, zin c_lt (spaces n) = false.
Proof. induction n as [|n IH]; [reflexivity | simpl; exact IH]. Qed.
Lemma spaces_lt_free : forall n, lt_free (spaces n) = true.
Proof. intro n. apply no_lt_lt_free. apply spaces_no_lt. Qed.

Lemma utf8_dep_text_extends : forall id version extra, url_only extra = true ->
  utf8_encode (dep_text (s_ "Extends") (extends_attrs id version extra))
  = item_text (extends_item id version extra).
Proof.
  intros id version extra Hu. destruct (url_only_facts extra Hu) as [_ [Ha _]].
  unfold dep_text, item_text, extends_item, item_rem, rem_text.
  simpl it_pre. simpl it_type. simpl it_attrs. simpl it_trailer. simpl it_post.
  rewrite !utf8_encode_app. rewrite utf8_spaces.
  rewrite utf8_e_parts by (unfold extends_attrs; simpl; exact Ha).
  change (utf8_encode [c_lt]) with [c_lt].
  change (utf8_encode (s_ "Extends")) with (lextype_name TExtends).
  change (utf8_encode (s_ " />")) with (s_ " /" ++ [c_gt]).
  change (utf8_encode [c_nl]) with [c_nl].
  rewrite <- !app_assoc. reflexivity.
Qed.

Lemma extends_item_ok : forall id version extra, url_only extra = true ->
  item_ok (extends_item id version extra) = true.
Proof.
  intros id version extra Hu. destruct (url_only_facts extra Hu) as [Hn _].
  unfold item_ok, item_rem, extends_item. cbn [it_pre it_post it_attrs it_trailer].
  rewrite (lt_free_weak _ (spaces_lt_free 4)).
  rewrite e_rattrs_wf by (unfold extends_attrs; simpl; exact Hn).
  reflexivity.
Qed.

Lemma extends_item_info : forall id version extra, url_only extra = true ->
  scalars id = true -> scalars version = true ->
  tag_info (item_rem (extends_item id version extra)) = Ok (mkInfo id version None None).
Proof.
  intros id version extra Hu Hid Hver.
  destruct (url_only_facts extra Hu) as [Hn [_ [Hsel _]]].
  unfold tag_info, item_rem, extends_item. cbn [it_attrs it_trailer].
  rewrite attr_matches_rem_text.
  - unfold extends_attrs. rewrite map_app. rewrite flat_map_app. rewrite Hsel. rewrite app_nil_r.
    change (flat_map rattr_sel (map e_rattr [(s_ "id", id); (s_ "version", version)]))
      with [(NId, utf8_encode (escape_attrib id)); (NVersion, utf8_encode (escape_attrib version))].
    rewrite (build_attrs_cons _ _ _ _ id (attr_value_escape_attrib id Hid)).
    rewrite (build_attrs_cons _ _ _ _ version (attr_value_escape_attrib version Hver)).
    reflexivity.
  - apply e_rattrs_wf. unfold extends_attrs. simpl. exact Hn.
  - reflexivity.
Qed.

(* the old failure through _escape_attrib (which leaves apostrophes alone): a base
   lexicon whose url is  id='evil'  — now scanned correctly *)
Example extends_old_witness :
  tag_info (item_rem (extends_item (s_ "b") (s_ "2") [(s_ "url", s_ "id='evil'")]))
  = Ok (mkInfo (s_ "b") (s_ "2") None None).
Proof. vm_compute. reflexivity. Qed.

(* ====================================================================== *)
(* lt_freew is preserved by the UTF-8 encoding                            *)
(* ====================================================================== *)
Lemma utf8_enc1_head : forall c, 128 <= c -> exists h t, utf8_enc1 c = h :: t /\ 128 <= h.
Proof.
  intros c H. pose proof (utf8_enc1_high c H) as HF.
  destruct (utf8_enc1 c) as [|h t] eqn:E.
  - unfold utf8_enc1 in E. destruct (c <? 128); [discriminate|].
    destruct (c <? 2048); [discriminate|]. destruct (c <? 65536); discriminate.
  - exists h, t. split; [reflexivity|]. inversion HF; assumption.
Qed.
Lemma utf8_encode_cons : forall c s, utf8_encode (c :: s) = utf8_enc1 c ++ utf8_encode s.
Proof. reflexivity. Qed.

Lemma diverges_utf8 : forall n b, ascii n = true -> diverges n b = true ->
  diverges n (utf8_encode b) = true.
Proof.
  induction n as [|x n IH]; intros b Ha H; [discriminate|].
  destruct b as [|y b]; [discriminate|].
  simpl in Ha. apply andb_true_iff in Ha. destruct Ha as [Hx Hn]. apply Z.ltb_lt in Hx.
  simpl in H. rewrite utf8_encode_cons.
  destruct (Z.ltb_spec y 128) as [Ly|Ly].
  - rewrite (utf8_enc1_low y Ly). simpl.
    destruct (Z.eqb x y); simpl in *; [apply IH; assumption | reflexivity].
  - destruct (utf8_enc1_head y Ly) as [h [t [E Hh]]]. rewrite E. simpl.
    destruct (Z.eqb_spec x h) as [Exh|Exh]; [lia | reflexivity].
Qed.
Lemma not_lex_namew_utf8 : forall b, not_lex_namew b = true -> not_lex_namew (utf8_encode b) = true.
Proof.
  intros b H. unfold not_lex_namew, not_section in *.
  apply andb_true_iff in H. destruct H as [H H34]. apply andb_true_iff in H. destruct H as [H1 H2].
  apply andb_true_iff in H34. destruct H34 as [H3 H4].
  rewrite (diverges_utf8 (s_ "Lexicon") b (eq_refl true) H1).
  rewrite (diverges_utf8 (s_ "Extends") b (eq_refl true) H2).
  rewrite (diverges_utf8 (s_ "!--") b (eq_refl true) H3).
  rewrite (diverges_utf8 (s_ "![CDATA[") b (eq_refl true) H4). reflexivity.
Qed.
Lemma lt_freew_utf8 : forall s, lt_freew s = true -> lt_freew (utf8_encode s) = true.
Proof.
  induction s as [|c s IH]; intro H.
  - reflexivity.
  - simpl in H. apply andb_true_iff in H. destruct H as [H1 H2].
    rewrite utf8_encode_cons.
    destruct (Z.eqb_spec c c_lt) as [E|E].
    + subst c. simpl in H1. change (utf8_enc1 c_lt) with [c_lt]. simpl.
      rewrite (not_lex_namew_utf8 s H1). simpl. apply IH. exact H2.
    + apply lt_free_gen_app; [apply not_lex_namew_mono | | apply IH; exact H2].
      apply lt_free_gen_no_lt. rewrite zin_utf8_enc1 by (unfold c_lt; lia).
      apply Z.eqb_neq. intro E'. apply E. symmetry. exact E'.
Qed.
Lemma lt_free_utf8w : forall s, lt_free s = true -> lt_freew (utf8_encode s) = true.
Proof. intros s H. apply lt_freew_utf8. apply lt_free_weak. exact H. Qed.

(* ====================================================================== *)
(* S3  whole documents, generic form                                      *)
(* ====================================================================== *)
(* one lexicon of the file: its start tag, the optional <Extends/> line, and the
   rest (requirements, entries, synsets, frames, closing tag) *)
Record lexspec : Type :=
  mkLS { ls_type : lextype;
         ls_id : str; ls_label : str; ls_language : str; ls_email : str; ls_license : str;
         ls_version : str;
         ls_extra : list (str * str);                        (* url, citation, logo, metadata *)
         ls_extends : option (str * str * list (str * str)); (* id, version, [url] *)
         ls_body : str }.
Definition ls_attrib (l : lexspec) : list (str * str) :=
  lexicon_attrib (ls_id l) (ls_label l) (ls_language l) (ls_email l) (ls_license l) (ls_version l)
                 (ls_extra l).
Definition ls_ext_text (l : lexspec) : str :=
  match ls_extends l with
  | Some (i, v, x) => dep_text (s_ "Extends") (extends_attrs i v x)
  | None => []
  end.
Definition ls_text (l : lexspec) : str :=
  s_ "  <" ++ lextype_name (ls_type l)
  ++ start_tag_rem (lextype_name (ls_type l)) (ls_attrib l) ++ [c_gt]
  ++ [c_nl] ++ ls_ext_text l ++ ls_body l.
(* what the resource says about it *)
Definition ls_info (l : lexspec) : info :=
  mkInfo (ls_id l) (ls_version l) (Some (ls_label l))
         (match ls_extends l with Some (i, v, _) => Some (i, v) | None => None end).

(* structure (established for dump below) *)
Definition ls_wf (l : lexspec) : Prop :=
  lexicon_type (ls_type l)
  /\ Forall (fun kv => In (fst kv) extra_names) (ls_extra l)
  /\ match ls_extends l with Some (_, _, x) => url_only x = true | None => True end
  /\ lt_free (ls_body l) = true.
(* the only thing asked of the strings: the five that the scan reports can be
   encoded (no lone surrogates ...) — otherwise Python cannot write the file at all *)
Definition ls_encodable (l : lexspec) : Prop :=
  scalars (ls_id l) = true /\ scalars (ls_label l) = true /\ scalars (ls_version l) = true
  /\ match ls_extends l with
     | Some (i, v, x) => scalars i = true /\ scalars v = true
     | None => True
     end.

Definition ls_rem (l : lexspec) : str :=
  utf8_encode (start_tag_rem (lextype_name (ls_type l)) (ls_attrib l)).
Definition ls_matches (l : lexspec) : list (lextype * str) :=
  (ls_type l, ls_rem l)
  :: match ls_extends l with
     | Some (i, v, x) => [(TExtends, item_rem (extends_item i v x))]
     | None => []
     end.

Lemma lex_matches_ls : forall l rest, ls_wf l -> ls_encodable l ->
  lex_matches (utf8_encode (ls_text l) ++ rest) = ls_matches l ++ lex_matches rest.
Proof.
  intros l rest [Ht [Hx [Hu Hb]]] [Hid [Hlab [Hver He]]].
  destruct (lexicon_start_tag_scanned (ls_type l) (ls_id l) (ls_label l) (ls_language l)
              (ls_email l) (ls_license l) (ls_version l) (ls_extra l)
              (utf8_encode [c_nl] ++ utf8_encode (ls_ext_text l) ++ utf8_encode (ls_body l) ++ rest)
              Hx Hid Hlab Hver) as [Hlex _].
  cbv zeta in Hlex. rewrite utf8_encode_app in Hlex.
  rewrite (utf8_encode_ascii (lextype_name (ls_type l))) in Hlex by (destruct (ls_type l); reflexivity).
  rewrite <- app_assoc in Hlex.
  unfold ls_text.
  replace (s_ "  <" ++ lextype_name (ls_type l) ++
           start_tag_rem (lextype_name (ls_type l)) (ls_attrib l) ++ [c_gt] ++ [c_nl] ++
           ls_ext_text l ++ ls_body l)
    with (s_ "  " ++ [c_lt] ++ lextype_name (ls_type l) ++
          start_tag_rem (lextype_name (ls_type l)) (ls_attrib l) ++ [c_gt] ++ [c_nl] ++
          ls_ext_text l ++ ls_body l)
    by reflexivity.
  rewrite !utf8_encode_app.
  change (utf8_encode (s_ "  ")) with (s_ "  "). change (utf8_encode [c_lt]) with [c_lt].
  change (utf8_encode [c_gt]) with [c_gt].
  rewrite <- !app_assoc. rewrite lex_matches_skip by reflexivity.
  change ([c_lt] ++ ?x) with (c_lt :: x). rewrite lex_matches_cons.
  change (Z.eqb c_lt c_lt) with true. cbv iota.
  rewrite (utf8_encode_ascii (lextype_name (ls_type l))) by (destruct (ls_type l); reflexivity).
  rewrite skip_at_lextype.
  change ([c_gt] ++ ?x) with (c_gt :: x).
  unfold ls_attrib in *. rewrite Hlex. unfold ls_matches. fold (ls_attrib l). fold (ls_rem l).
  simpl app. f_equal.
  rewrite lex_matches_cons. change (Z.eqb c_nl c_lt) with false. cbv iota.
  unfold ls_ext_text.
  destruct (ls_extends l) as [[[i v] x]|].
  - rewrite (utf8_dep_text_extends i v x Hu).
    rewrite (lex_matches_item _ _ (extends_item_ok i v x Hu)).
    simpl app. f_equal.
    apply lex_matches_skip. apply lt_free_utf8w. exact Hb.
  - simpl app. apply lex_matches_skip. apply lt_free_utf8w. exact Hb.
Qed.

Lemma process_ls : forall l acc ms, ls_wf l -> ls_encodable l ->
  process acc (ls_matches l ++ ms) = process (ls_info l :: acc) ms.
Proof.
  intros l acc ms [Ht [Hx [Hu Hb]]] [Hid [Hlab [Hver He]]].
  destruct (lexicon_start_tag_scanned (ls_type l) (ls_id l) (ls_label l) (ls_language l)
              (ls_email l) (ls_license l) (ls_version l) (ls_extra l) []
              Hx Hid Hlab Hver) as [_ [_ Hinfo]].
  unfold ls_matches. rewrite <- app_comm_cons.
  rewrite (process_lexicon acc (ls_type l) (ls_rem l) _ _ Hinfo)
    by (destruct Ht as [-> | ->]; discriminate).
  unfold ls_info.
  destruct (ls_extends l) as [[[i v] x]|].
  - destruct He as [Hi Hv]. simpl app.
    rewrite (process_extends _ acc _ ms _ (extends_item_info i v x Hu Hi Hv)).
    reflexivity.
  - reflexivity.
Qed.

Lemma utf8_encode_concat : forall l, utf8_encode (concat l) = concat (map utf8_encode l).
Proof.
  induction l as [|x l IH]; [reflexivity|]. simpl. rewrite utf8_encode_app. rewrite IH. reflexivity.
Qed.

Lemma lex_matches_specs : forall specs rest,
  Forall ls_wf specs -> Forall ls_encodable specs ->
  lex_matches (utf8_encode (concat (map ls_text specs)) ++ rest)
  = flat_map ls_matches specs ++ lex_matches rest.
Proof.
  induction specs as [|l specs IH]; intros rest Hw Hs.
  - reflexivity.
  - inversion Hw as [|x y Hw1 Hw2]; subst. inversion Hs as [|x y Hs1 Hs2]; subst.
    cbn [map concat flat_map]. rewrite utf8_encode_app. rewrite <- !app_assoc.
    rewrite (lex_matches_ls l _ Hw1 Hs1). rewrite (IH rest Hw2 Hs2). reflexivity.
Qed.
Lemma process_specs : forall specs acc ms,
  Forall ls_wf specs -> Forall ls_encodable specs ->
  process acc (flat_map ls_matches specs ++ ms) = process (rev (map ls_info specs) ++ acc) ms.
Proof.
  induction specs as [|l specs IH]; intros acc ms Hw Hs.
  - reflexivity.
  - inversion Hw as [|x y Hw1 Hw2]; subst. inversion Hs as [|x y Hs1 Hs2]; subst.
    cbn [flat_map]. rewrite <- app_assoc. rewrite (process_ls l acc _ Hw1 Hs1).
    rewrite (IH _ ms Hw2 Hs2). cbn [map rev]. rewrite <- app_assoc. reflexivity.
Qed.

(* S3, generic: a file made of lexicons of this shape is scanned to their
   id / version / label / base, in document order *)
Theorem scan_document : forall pre specs post,
  lt_freew pre = true -> Forall ls_wf specs -> Forall ls_encodable specs -> lt_freew post = true ->
  scan_lexicons (utf8_encode (pre ++ concat (map ls_text specs) ++ post)) = Ok (map ls_info specs).
Proof.
  intros pre specs post Hpre Hw Hs Hpost. unfold scan_lexicons.
  rewrite !utf8_encode_app. rewrite lex_matches_skip by (apply lt_freew_utf8; exact Hpre).
  rewrite (lex_matches_specs specs _ Hw Hs).
  rewrite (lex_matches_lt_free _ (lt_freew_utf8 _ Hpost)).
  rewrite (process_specs specs [] [] Hw Hs). rewrite app_nil_r. simpl.
  rewrite rev_involutive. reflexivity.
Qed.


(* ====================================================================== *)
(* What the ElementTree serializer writes contains no tag for the scanner *)
(* ====================================================================== *)
Lemma xml_ind' : forall P : xml -> Prop,
  (forall tag attrib text children tail, Forall P children -> P (Elem tag attrib text children tail)) ->
  forall e, P e.
Proof.
  intros P H. fix IH 1. intros [tag attrib text children tail]. apply H.
  induction children as [|c r IHr]; constructor; [apply IH | exact IHr].
Qed.

(* the inner loops of serialize and indent as functions of their own *)
Fixpoint ser_children (l : list xml) : result str :=
  match l with
  | [] => Ok []
  | c :: r => do x <- serialize c; do y <- ser_children r; Ok (x ++ y)
  end.
Lemma serialize_eq : forall tag attrib text children tail,
  serialize (Elem tag attrib text children tail) =
  do a <- mapM ser_attr attrib;
  do t <- ser_text text;
  do cs <- ser_children children;
  let tl := match tail with Some s => escape_cdata s | None => [] end in
  let nonempty := match t, children with None, [] => false | _, _ => true end in
  Ok ([c_lt] ++ tag ++ concat a
      ++ (if nonempty
          then [c_gt] ++ match t with Some s => s | None => [] end ++ cs
               ++ [c_lt; 47] ++ tag ++ [c_gt]
          else s_ " />")
      ++ tl).
Proof.
  intros tag attrib text children tail. simpl.
  destruct (mapM ser_attr attrib) as [a|e]; [|reflexivity]. simpl.
  destruct (ser_text text) as [t|e]; [|reflexivity]. simpl.
  assert (Hgo : (fix go (l : list xml) : result str :=
                   match l with
                   | [] => Ok []
                   | c :: r => do x <- serialize c; do y <- go r; Ok (x ++ y)
                   end) children = ser_children children).
  { induction children as [|c r IH]; [reflexivity|]. simpl.
    destruct (serialize c) as [x|e]; [|reflexivity]. simpl. rewrite IH. reflexivity. }
  rewrite Hgo. reflexivity.
Qed.

Definition tag_safe (tag : str) : bool := not_lex_name tag && negb (zin c_lt tag).
Definition keys_safe (attrib : list (str * val)) : bool :=
  forallb (fun kv => negb (zin c_lt (fst kv))) attrib.
Fixpoint xml_safe (e : xml) : bool :=
  match e with
  | Elem tag attrib _ children _ =>
      tag_safe tag && keys_safe attrib
      && (fix go (l : list xml) : bool :=
            match l with [] => true | c :: r => xml_safe c && go r end) children
  end.
Lemma xml_safe_eq : forall tag attrib text children tail,
  xml_safe (Elem tag attrib text children tail)
  = tag_safe tag && keys_safe attrib && forallb xml_safe children.
Proof.
  intros tag attrib text children tail. reflexivity.
Qed.

Lemma ser_attr_no_lt : forall kv s, negb (zin c_lt (fst kv)) = true -> ser_attr kv = Ok s ->
  zin c_lt s = false.
Proof.
  intros [k v] s Hk H. unfold ser_attr in H. simpl in H. simpl in Hk. apply negb_true_iff in Hk.
  destruct v; try discriminate. injection H as <-.
  destruct (escape_attrib_wellformed s0) as [_ Hlt].
  rewrite zin_cons. rewrite zin_app. rewrite Hk. rewrite !zin_cons. rewrite zin_app. rewrite Hlt.
  reflexivity.
Qed.
Lemma mapM_ser_attr_no_lt : forall attrib a, keys_safe attrib = true ->
  mapM ser_attr attrib = Ok a -> zin c_lt (concat a) = false.
Proof.
  induction attrib as [|kv r IH]; intros a Hk H.
  - simpl in H. injection H as <-. reflexivity.
  - simpl in Hk. apply andb_true_iff in Hk. destruct Hk as [Hk1 Hk2].
    simpl in H. apply bind_ok in H. destruct H as [y [Hy H]].
    apply bind_ok in H. destruct H as [ys [Hys H]]. injection H as <-.
    simpl. rewrite zin_app. rewrite (ser_attr_no_lt kv y Hk1 Hy). rewrite (IH ys Hk2 Hys).
    reflexivity.
Qed.
Lemma ser_text_no_lt : forall text t, ser_text text = Ok t ->
  zin c_lt (match t with Some s => s | None => [] end) = false.
Proof.
  intros text t H. unfold ser_text in H. destruct (vtruthy text).
  - destruct text; try discriminate. injection H as <-. apply escape_cdata_wellformed.
  - injection H as <-. reflexivity.
Qed.

Lemma lt_free_open : forall tag, tag_safe tag = true -> lt_free ([c_lt] ++ tag) = true.
Proof.
  intros tag H. unfold tag_safe in H. apply andb_true_iff in H. destruct H as [H1 H2].
  apply negb_true_iff in H2. simpl. rewrite H1. simpl. apply no_lt_lt_free. exact H2.
Qed.
Lemma lt_free_open' : forall tag X, tag_safe tag = true -> lt_free X = true ->
  lt_free (c_lt :: tag ++ X) = true.
Proof.
  intros tag X H HX. change (c_lt :: tag ++ X) with ([c_lt] ++ tag ++ X). rewrite app_assoc.
  apply lt_free_app; [apply lt_free_open; exact H | exact HX].
Qed.
Lemma lt_free_close : forall tag, tag_safe tag = true -> lt_free ([c_lt; 47] ++ tag ++ [c_gt]) = true.
Proof.
  intros tag H. unfold tag_safe in H. apply andb_true_iff in H. destruct H as [_ H2].
  apply negb_true_iff in H2.
  change ([c_lt; 47] ++ tag ++ [c_gt]) with (c_lt :: (47 :: tag ++ [c_gt])).
  change (lt_free (c_lt :: (47 :: tag ++ [c_gt]))) with (lt_free (47 :: tag ++ [c_gt])).
  apply no_lt_lt_free. rewrite zin_cons. rewrite zin_app. rewrite H2. reflexivity.
Qed.

Lemma ser_children_lt_free : forall children cs,
  Forall (fun e => xml_safe e = true -> forall s, serialize e = Ok s -> lt_free s = true) children ->
  forallb xml_safe children = true -> ser_children children = Ok cs -> lt_free cs = true.
Proof.
  induction children as [|c r IH]; intros cs HF Hs H.
  - simpl in H. injection H as <-. reflexivity.
  - inversion HF as [|x y Hc Hr]; subst.
    simpl in Hs. apply andb_true_iff in Hs. destruct Hs as [Hs1 Hs2].
    simpl in H. apply bind_ok in H. destruct H as [x [Hx H]].
    apply bind_ok in H. destruct H as [y [Hy H]]. injection H as <-.
    apply lt_free_app; [apply (Hc Hs1 x Hx) | apply (IH y Hr Hs2 Hy)].
Qed.

Theorem serialize_lt_free : forall e, xml_safe e = true ->
  forall s, serialize e = Ok s -> lt_free s = true.
Proof.
  induction e as [tag attrib text children tail IHc] using xml_ind'.
  intros Hsafe s H. rewrite xml_safe_eq in Hsafe.
  apply andb_true_iff in Hsafe. destruct Hsafe as [Hsafe Hkids].
  apply andb_true_iff in Hsafe. destruct Hsafe as [Htag Hkeys].
  rewrite serialize_eq in H.
  apply bind_ok in H. destruct H as [a [Ha H]].
  apply bind_ok in H. destruct H as [t [Ht H]].
  apply bind_ok in H. destruct H as [cs [Hcs H]].
  cbv zeta in H. injection H as <-.
  pose proof (mapM_ser_attr_no_lt _ _ Hkeys Ha) as Hla.
  pose proof (ser_text_no_lt _ _ Ht) as Hlt.
  pose proof (ser_children_lt_free _ _ IHc Hkids Hcs) as Hlc.
  apply lt_free_open'; [exact Htag|].
  apply lt_free_app; [apply no_lt_lt_free; exact Hla|].
  apply lt_free_app.
  - destruct (match t with
              | Some _ => true
              | None => match children with [] => false | _ :: _ => true end
              end).
    + match goal with |- lt_free (c_gt :: ?X) = true => change (lt_free X = true) end.
      apply lt_free_app; [apply no_lt_lt_free; exact Hlt|].
      apply lt_free_app; [exact Hlc|]. apply lt_free_close. exact Htag.
    + reflexivity.
  - apply no_lt_lt_free. destruct tail as [tl|]; [apply escape_cdata_wellformed | reflexivity].
Qed.

(* ---------- _indent only changes text and tails ---------- *)
Fixpoint indent_kids (level : nat) (l : list xml) : list xml :=
  match l with
  | [] => []
  | c :: r =>
      match r with
      | [] => [set_tail (indent c (S level)) (c_nl :: spaces (2 * level))]
      | _ :: _ => set_tail (indent c (S level)) ((c_nl :: spaces (2 * level)) ++ spaces 2)
                  :: indent_kids level r
      end
  end.
Lemma indent_go_eq : forall level l,
  (fix go (l0 : list xml) : list xml :=
     match l0 with
     | [] => []
     | c :: r =>
         match r with
         | [] => [set_tail (indent c (S level)) (c_nl :: spaces (2 * level))]
         | _ :: _ => set_tail (indent c (S level)) ((c_nl :: spaces (2 * level)) ++ spaces 2) :: go r
         end
     end) l = indent_kids level l.
Proof.
  intros level l. induction l as [|c r IH]; [reflexivity|].
  destruct r as [|c' r']; [reflexivity|].
  change (indent_kids level (c :: c' :: r'))
    with (set_tail (indent c (S level)) ((c_nl :: spaces (2 * level)) ++ spaces 2)
          :: indent_kids level (c' :: r')).
  rewrite <- IH. reflexivity.
Qed.
Lemma indent_eq : forall tag attrib text children tail level,
  indent (Elem tag attrib text children tail) level =
  match children with
  | [] => Elem tag attrib text children tail
  | _ :: _ =>
      Elem tag attrib
           (if text_blank text then VStr ((c_nl :: spaces (2 * level)) ++ spaces 2) else text)
           (indent_kids level children) tail
  end.
Proof.
  intros tag attrib text children tail level.
  destruct children as [|c0 r0]; [reflexivity|].
  rewrite <- (indent_go_eq level (c0 :: r0)). reflexivity.
Qed.

Lemma xml_safe_set_tail : forall e t, xml_safe (set_tail e t) = xml_safe e.
Proof. intros [tag attrib text children tail] t. reflexivity. Qed.

Lemma indent_safe : forall e level, xml_safe (indent e level) = xml_safe e.
Proof.
  induction e as [tag attrib text children tail IHc] using xml_ind'. intro level.
  rewrite indent_eq. destruct children as [|c0 r0]; [reflexivity|].
  rewrite !xml_safe_eq. f_equal.
  remember (c0 :: r0) as children eqn:Hch. clear Hch.
  induction children as [|c r IH]; [reflexivity|].
  inversion IHc as [|x y Hc Hr]; subst.
  destruct r as [|c' r'].
  - simpl. rewrite xml_safe_set_tail. rewrite Hc. reflexivity.
  - change (indent_kids level (c :: c' :: r'))
      with (set_tail (indent c (S level)) ((c_nl :: spaces (2 * level)) ++ spaces 2)
            :: indent_kids level (c' :: r')).
    change (forallb xml_safe (?x :: ?l)) with (xml_safe x && forallb xml_safe l).
    rewrite xml_safe_set_tail. rewrite Hc. rewrite (IH Hr). reflexivity.
Qed.

(* print(_tostring(elem, 2), file=out) *)
Theorem print_elem_lt_free : forall e s, xml_safe e = true -> print_elem e = Ok s -> lt_free s = true.
Proof.
  intros e s Hsafe H. unfold print_elem, _tostring in H.
  apply bind_ok in H. destruct H as [s1 [H1 H]]. injection H as <-.
  apply bind_ok in H1. destruct H1 as [s2 [H2 H1]]. injection H1 as <-.
  apply lt_free_app; [|reflexivity].
  change (lt_free (spaces 4 ++ s2) = true).
  apply lt_free_app; [apply spaces_lt_free|].
  apply (serialize_lt_free (indent e 2)); [rewrite indent_safe; exact Hsafe | exact H2].
Qed.

(* ====================================================================== *)
(* The elements built by the writer are safe                              *)
(* ====================================================================== *)
Lemma keys_safe_vset_list : forall a k v, keys_safe a = true -> zin c_lt k = false ->
  keys_safe (vset_list a k v) = true.
Proof.
  induction a as [|[k' v'] r IH]; intros k v Ha Hk.
  - simpl. rewrite Hk. reflexivity.
  - simpl in Ha. apply andb_true_iff in Ha. destruct Ha as [H1 H2].
    simpl. destruct (str_eqb k' k); simpl.
    + rewrite H1. exact H2.
    + rewrite H1. apply IH; assumption.
Qed.
Lemma keys_safe_opt_attr : forall d k a a', opt_attr d k a = Ok a' -> keys_safe a = true ->
  zin c_lt k = false -> keys_safe a' = true.
Proof.
  intros d k a a' H Ha Hk. unfold opt_attr in H. apply bind_ok in H. destruct H as [v [_ H]].
  injection H as <-. destruct (vtruthy v); [apply keys_safe_vset_list; assumption | exact Ha].
Qed.
Lemma keys_safe_dict_update : forall d a, keys_safe a = true -> keys_safe d = true ->
  keys_safe (dict_update a d) = true.
Proof.
  unfold dict_update. induction d as [|[k v] r IH]; intros a Ha Hd.
  - exact Ha.
  - simpl in Hd. apply andb_true_iff in Hd. destruct Hd as [H1 H2]. apply negb_true_iff in H1.
    simpl. apply IH; [apply keys_safe_vset_list; assumption | exact H2].
Qed.
Lemma keys_safe_meta_pick : forall meta (L : list (str * str)),
  forallb (fun kk => negb (zin c_lt (fst kk))) L = true ->
  keys_safe (flat_map (fun kk =>
               let v := if vhas meta (snd kk) then vget meta (snd kk) else VStr [] in
               if vtruthy v then [(fst kk, v)] else []) L) = true.
Proof.
  intros meta L. induction L as [|kk L IH]; intro H.
  - reflexivity.
  - simpl in H. apply andb_true_iff in H. destruct H as [H1 H2].
    cbn [flat_map]. cbv zeta. unfold keys_safe. rewrite forallb_app. fold (keys_safe).
    apply andb_true_iff. split; [|apply IH; exact H2].
    destruct (vtruthy (if vhas meta (snd kk) then vget meta (snd kk) else VStr [])); [|reflexivity].
    simpl. rewrite H1. reflexivity.
Qed.
Lemma meta_keys_safe : forallb (fun kk : str * str => negb (zin c_lt (fst kk))) meta_keys = true.
Proof. vm_compute. reflexivity. Qed.
Lemma keys_safe_meta_dict : forall meta md, _meta_dict meta = Ok md -> keys_safe md = true.
Proof.
  intros meta md H. unfold _meta_dict in H.
  destruct meta; try discriminate.
  - injection H as <-. reflexivity.
  - set (d0 := flat_map _ meta_keys) in H.
    assert (Hd : keys_safe d0 = true).
    { subst d0. apply keys_safe_meta_pick. apply meta_keys_safe. }
    clearbody d0. cbv zeta in H.
    destruct (vhas (VDict d) (s_ "confidenceScore")).
    + apply bind_ok in H. destruct H as [s [_ H]]. injection H as <-.
      apply keys_safe_vset_list; [exact Hd | reflexivity].
    + injection H as <-. exact Hd.
Qed.

Lemma mapM_forallb : forall {T U} (f : T -> result U) (P : U -> bool) l ys,
  (forall x y, f x = Ok y -> P y = true) -> mapM f l = Ok ys -> forallb P ys = true.
Proof.
  intros T U f P l. induction l as [|x r IH]; intros ys Hf H.
  - simpl in H. injection H as <-. reflexivity.
  - simpl in H. apply bind_ok in H. destruct H as [y [Hy H]].
    apply bind_ok in H. destruct H as [ys' [Hys H]]. injection H as <-.
    simpl. rewrite (Hf x y Hy). apply (IH ys' Hf Hys).
Qed.

(* inversion of monadic code *)
Ltac inv_all :=
  repeat match goal with
         | H : bind ?a _ = Ok _ |- _ =>
             let x := fresh "x" in let E := fresh "E" in
             apply bind_ok in H; destruct H as [x [E H]]; cbv beta zeta in H
         | H : (if ?b then _ else _) = Ok _ |- _ => let B := fresh "B" in destruct b eqn:B
         | H : Err _ = Ok _ |- _ => discriminate H
         | H : Ok _ = Ok _ |- _ => injection H as H; try subst
         end.
Ltac keys_tac :=
  repeat first
    [ assumption
    | reflexivity
    | match goal with
      | H : opt_attr _ _ ?a = Ok ?a' |- keys_safe ?a' = true =>
          apply (keys_safe_opt_attr _ _ _ _ H); [|reflexivity]
      | |- keys_safe (vset_list _ _ _) = true => apply keys_safe_vset_list; [|reflexivity]
      | |- keys_safe (dict_update _ _) = true => apply keys_safe_dict_update
      | H : _meta_dict _ = Ok ?md |- keys_safe ?md = true => apply (keys_safe_meta_dict _ _ H)
      | |- keys_safe (if ?b then _ else _) = true => destruct b
      end ].
Ltac safe_elem :=
  cbn [fst snd]; rewrite xml_safe_eq;
  apply andb_true_iff; split; [apply andb_true_iff; split; [reflexivity | keys_tac] | ].

Lemma build_pronunciation_safe : forall pron e, _build_pronunciation pron = Ok e -> xml_safe e = true.
Proof.
  intros pron e H. unfold _build_pronunciation in H. inv_all; safe_elem; reflexivity.
Qed.
Lemma build_tag_safe : forall tag e, _build_tag tag = Ok e -> xml_safe e = true.
Proof.
  intros tag e H. unfold _build_tag in H. inv_all. safe_elem. reflexivity.
Qed.
Lemma form_children_safe : forall form version kids,
  form_children form version = Ok kids -> forallb xml_safe kids = true.
Proof.
  intros form version kids H. unfold form_children in H. inv_all;
    rewrite forallb_app; apply andb_true_iff; split;
    try (eapply mapM_forallb; [|eassumption]; first [apply build_pronunciation_safe | apply build_tag_safe]);
    reflexivity.
Qed.
Lemma build_lemma_safe : forall lemma version e, _build_lemma lemma version = Ok e -> xml_safe e = true.
Proof.
  intros lemma version e H. unfold _build_lemma in H. inv_all; safe_elem;
    eapply form_children_safe; eassumption.
Qed.
Lemma build_form_safe : forall form version e, _build_form form version = Ok e -> xml_safe e = true.
Proof.
  intros form version e H. unfold _build_form in H. inv_all; safe_elem;
    eapply form_children_safe; eassumption.
Qed.
Lemma build_relation_safe : forall rel elemtype e, tag_safe elemtype = true ->
  _build_relation rel elemtype = Ok e -> xml_safe e = true.
Proof.
  intros rel elemtype e Ht H. unfold _build_relation in H. inv_all.
  rewrite xml_safe_eq. rewrite Ht. simpl. rewrite andb_true_r. keys_tac.
Qed.
Lemma build_example_safe : forall ex e, _build_example ex = Ok e -> xml_safe e = true.
Proof.
  intros ex e H. unfold _build_example in H. inv_all. safe_elem. reflexivity.
Qed.
Lemma build_count_safe : forall cnt e, _build_count cnt = Ok e -> xml_safe e = true.
Proof.
  intros cnt e H. unfold _build_count in H. inv_all. safe_elem. reflexivity.
Qed.

Ltac kids_tac :=
  repeat first
    [ reflexivity
    | rewrite forallb_app; apply andb_true_iff; split
    | match goal with
      | H : mapM _ _ = Ok ?ys |- forallb xml_safe ?ys = true =>
          eapply mapM_forallb; [|exact H]; cbv beta;
          first [ apply build_pronunciation_safe | apply build_tag_safe | apply build_example_safe
                | apply build_count_safe
                | intros ? ? ?; eapply build_relation_safe; [|eassumption]; reflexivity
                | intros ? ? ?; eapply build_form_safe; eassumption
                | intros ? ? ?; eapply build_lemma_safe; eassumption ]
      end ].

Lemma build_sense_safe : forall sense version e, _build_sense sense version = Ok e -> xml_safe e = true.
Proof.
  intros sense version e H. unfold _build_sense in H. inv_all; safe_elem; kids_tac.
Qed.
Lemma build_sb_safe : forall sb version e,
  _build_syntactic_behaviour sb version = Ok e -> xml_safe e = true.
Proof.
  intros sb version e H. unfold _build_syntactic_behaviour in H. inv_all; safe_elem; reflexivity.
Qed.
Lemma build_definition_safe : forall d e, _build_definition d = Ok e -> xml_safe e = true.
Proof.
  intros d e H. unfold _build_definition in H. inv_all. safe_elem. reflexivity.
Qed.
Lemma build_ili_definition_safe : forall d e, _build_ili_definition d = Ok e -> xml_safe e = true.
Proof.
  intros d e H. unfold _build_ili_definition in H. inv_all. safe_elem. reflexivity.
Qed.

Theorem dump_sb_lt_free : forall sb version s,
  _dump_syntactic_behaviour sb version = Ok s -> lt_free s = true.
Proof.
  intros sb version s H. unfold _dump_syntactic_behaviour in H.
  apply bind_ok in H. destruct H as [e [He H]].
  apply (print_elem_lt_free e s); [apply (build_sb_safe _ _ _ He) | exact H].
Qed.

Ltac kids_tac2 :=
  repeat first
    [ reflexivity
    | rewrite forallb_app; apply andb_true_iff; split
    | match goal with
      | H : _build_ili_definition _ = Ok ?x |- forallb xml_safe [?x] = true =>
          simpl; rewrite (build_ili_definition_safe _ _ H); reflexivity
      | H : _build_lemma _ _ = Ok ?x |- forallb xml_safe [?x] = true =>
          simpl; rewrite (build_lemma_safe _ _ _ H); reflexivity
      | H : mapM _ _ = Ok ?ys |- forallb xml_safe ?ys = true =>
          eapply mapM_forallb; [|exact H]; cbv beta;
          first [ apply build_definition_safe | apply build_example_safe
                | intros ? ? ?; eapply build_relation_safe; [|eassumption]; reflexivity
                | intros ? ? ?; eapply build_form_safe; eassumption
                | intros ? ? ?; eapply build_sense_safe; eassumption
                | intros ? ? ?; eapply build_sb_safe; eassumption ]
      end ].

Theorem dump_synset_lt_free : forall synset version s,
  _dump_synset synset version = Ok s -> lt_free s = true.
Proof.
  intros synset version s H. unfold _dump_synset in H.
  inv_all; cbv beta iota in H; (eapply print_elem_lt_free; [|exact H]); safe_elem; kids_tac2.
Qed.
Theorem dump_lexical_entry_lt_free : forall entry version s,
  _dump_lexical_entry entry version = Ok s -> lt_free s = true.
Proof.
  intros entry version s H. unfold _dump_lexical_entry in H.
  inv_all; cbv beta iota in H; (eapply print_elem_lt_free; [|exact H]); safe_elem; kids_tac2.
Qed.
(* <Requires .../> *)
Theorem dump_requires_lt_free : forall dep s,
  _dump_dependency dep (s_ "Requires") = Ok s -> lt_free s = true.
Proof.
  intros dep s H. unfold _dump_dependency in H.
  inv_all. (eapply print_elem_lt_free; [|exact H]). safe_elem. reflexivity.
Qed.

(* ====================================================================== *)
(* Inversion of the writer: _dump_dependency, _build_lexicon_attrib,      *)
(* _dump_lexicon, dump                                                    *)
(* ====================================================================== *)
Lemma mapM_ser_attr_inv : forall attrib a, mapM ser_attr attrib = Ok a ->
  exists sattrs, attrib = map (fun kv => (fst kv, VStr (snd kv))) sattrs /\ a = map e_part sattrs.
Proof.
  induction attrib as [|[k v] r IH]; intros a H.
  - simpl in H. injection H as <-. exists []. split; reflexivity.
  - simpl in H. apply bind_ok in H. destruct H as [y [Hy H]].
    apply bind_ok in H. destruct H as [ys [Hys H]]. injection H as <-.
    destruct (IH ys Hys) as [sattrs [H1 H2]].
    unfold ser_attr in Hy. simpl in Hy. destruct v; try discriminate. injection Hy as <-.
    exists ((k, s) :: sattrs). split.
    + simpl. rewrite H1. reflexivity.
    + simpl. rewrite H2. reflexivity.
Qed.

(* an element without text and children: one line *)
Lemma print_elem_leaf : forall tag attrib s,
  print_elem (Elem tag attrib VNone [] None) = Ok s ->
  exists sattrs, attrib = map (fun kv => (fst kv, VStr (snd kv))) sattrs /\ s = dep_text tag sattrs.
Proof.
  intros tag attrib s H. unfold print_elem, _tostring in H.
  apply bind_ok in H. destruct H as [s1 [H1 H]]. injection H as <-.
  apply bind_ok in H1. destruct H1 as [s2 [H2 H1]]. injection H1 as <-.
  rewrite indent_eq in H2. rewrite serialize_eq in H2.
  apply bind_ok in H2. destruct H2 as [a [Ha H2]].
  change (ser_text VNone) with (@Ok (option str) None) in H2.
  change (ser_children []) with (@Ok str []) in H2.
  cbn [bind] in H2. cbv zeta in H2. injection H2 as <-.
  destruct (mapM_ser_attr_inv _ _ Ha) as [sattrs [Hs1 Hs2]].
  exists sattrs. split; [exact Hs1|]. subst a. unfold dep_text.
  change (spaces 4 ++ [c_lt] ++ tag ++ concat (map e_part sattrs) ++ s_ " />" ++ [c_nl])
    with (c_sp :: c_sp :: c_sp :: c_sp :: c_lt :: (tag ++ concat (map e_part sattrs) ++ s_ " />" ++ [c_nl])).
  rewrite <- !app_comm_cons. do 5 f_equal. rewrite <- !app_assoc. reflexivity.
Qed.

Lemma dump_extends_inv : forall dep s, _dump_dependency dep (s_ "Extends") = Ok s ->
  exists i v x, s = dep_text (s_ "Extends") (extends_attrs i v x) /\ url_only x = true
                /\ py_item dep (s_ "id") = Ok (VStr i) /\ py_item dep (s_ "version") = Ok (VStr v).
Proof.
  intros dep s H. unfold _dump_dependency in H.
  apply bind_ok in H. destruct H as [idv [Hid H]].
  apply bind_ok in H. destruct H as [verv [Hver H]].
  apply bind_ok in H. destruct H as [attrib [Hat H]].
  apply print_elem_leaf in H. destruct H as [sattrs [Hs1 Hs2]].
  unfold opt_attr in Hat. apply bind_ok in Hat. destruct Hat as [u [_ Hat]]. injection Hat as <-.
  destruct (vtruthy u).
  - change (vset_list [(s_ "id", idv); (s_ "version", verv)] (s_ "url") u)
      with [(s_ "id", idv); (s_ "version", verv); (s_ "url", u)] in Hs1.
    destruct sattrs as [|[k1 s1] [|[k2 s2] [|[k3 s3] [|? ?]]]]; try discriminate.
    simpl in Hs1. injection Hs1 as <- -> <- -> <- ->.
    exists s1, s2, [(s_ "url", s3)]. repeat split; first [assumption | exact Hs2 | reflexivity].
  - destruct sattrs as [|[k1 s1] [|[k2 s2] [|? ?]]]; try discriminate.
    simpl in Hs1. injection Hs1 as <- -> <- ->.
    exists s1, s2, []. repeat split; first [assumption | exact Hs2 | reflexivity].
Qed.

(* ---------- the attribute dictionary of a lexicon ---------- *)
Definition six_names : list str :=
  map s_ ["id"; "label"; "language"; "email"; "license"; "version"]%string.
Definition extras_ok (extra : list (str * val)) : Prop :=
  Forall (fun kv => In (fst kv) extra_names) extra.

Lemma extra_names_not_six : forall k, In k extra_names -> str_mem k six_names = false.
Proof.
  intros k H. assert (Hall : forallb (fun k => negb (str_mem k six_names)) extra_names = true)
    by (vm_compute; reflexivity).
  rewrite forallb_forall in Hall. apply negb_true_iff. apply Hall. exact H.
Qed.

Lemma vset_list_app_right : forall (six extra : list (str * val)) k v,
  forallb (fun kv => negb (str_eqb (fst kv) k)) six = true ->
  vset_list (six ++ extra) k v = six ++ vset_list extra k v.
Proof.
  induction six as [|[k' v'] r IH]; intros extra k v H.
  - reflexivity.
  - simpl in H. apply andb_true_iff in H. destruct H as [H1 H2]. apply negb_true_iff in H1.
    simpl. rewrite H1. rewrite (IH extra k v H2). reflexivity.
Qed.
Lemma extras_ok_vset_list : forall extra k v, extras_ok extra -> In k extra_names ->
  extras_ok (vset_list extra k v).
Proof.
  unfold extras_ok. induction extra as [|[k' v'] r IH]; intros k v He Hk.
  - simpl. constructor; [exact Hk | constructor].
  - inversion He as [|x y Hx Hy]; subst. simpl. destruct (str_eqb k' k).
    + constructor; assumption.
    + constructor; [exact Hx | apply IH; assumption].
Qed.

(* six fixed keys first, then keys from the list of extras *)
Definition lex_shape (six a : list (str * val)) : Prop :=
  exists extra, a = six ++ extra /\ extras_ok extra.

Lemma lex_shape_vset : forall six a k v, map fst six = six_names ->
  lex_shape six a -> In k extra_names -> lex_shape six (vset_list a k v).
Proof.
  intros six a k v Hsix [extra [Ha He]] Hk. exists (vset_list extra k v). split.
  - subst a. apply vset_list_app_right.
    pose proof (extra_names_not_six k Hk) as Hn.
    rewrite forallb_forall. intros kv Hkv. apply negb_true_iff.
    destruct (str_eqb (fst kv) k) eqn:E; [|reflexivity].
    apply str_eqb_eq in E. exfalso.
    assert (Hin : In k six_names). { rewrite <- Hsix. rewrite <- E. apply in_map. exact Hkv. }
    apply str_mem_In in Hin. rewrite Hin in Hn. discriminate.
  - apply extras_ok_vset_list; assumption.
Qed.
Lemma lex_shape_opt_attr : forall six d k a a', map fst six = six_names ->
  opt_attr d k a = Ok a' -> lex_shape six a -> In k extra_names -> lex_shape six a'.
Proof.
  intros six d k a a' Hsix H Hs Hk. unfold opt_attr in H.
  apply bind_ok in H. destruct H as [v [_ H]]. injection H as <-.
  destruct (vtruthy v); [apply lex_shape_vset; assumption | exact Hs].
Qed.
Lemma lex_shape_dict_update : forall six md a, map fst six = six_names ->
  lex_shape six a -> extras_ok md -> lex_shape six (dict_update a md).
Proof.
  intros six md. unfold dict_update. induction md as [|[k v] r IH]; intros a Hsix Hs Hm.
  - exact Hs.
  - inversion Hm as [|x y Hx Hy]; subst. simpl.
    apply IH; [exact Hsix | apply lex_shape_vset; assumption | exact Hy].
Qed.

Lemma meta_pick_extras : forall meta (L : list (str * str)),
  (forall kk, In kk L -> In (fst kk) extra_names) ->
  extras_ok (flat_map (fun kk =>
               let v := if vhas meta (snd kk) then vget meta (snd kk) else VStr [] in
               if vtruthy v then [(fst kk, v)] else []) L).
Proof.
  intros meta L. unfold extras_ok. induction L as [|kk L IH]; intro H.
  - constructor.
  - cbn [flat_map]. cbv zeta. apply Forall_app. split.
    + destruct (vtruthy (if vhas meta (snd kk) then vget meta (snd kk) else VStr [])).
      * constructor; [|constructor]. apply H. left. reflexivity.
      * constructor.
    + apply IH. intros kk' Hk. apply H. right. exact Hk.
Qed.
Lemma meta_keys_extra : forall kk, In kk meta_keys -> In (fst kk) extra_names.
Proof.
  intros kk H. unfold extra_names. apply in_or_app. right. apply in_or_app. left.
  apply in_map. exact H.
Qed.
Lemma meta_dict_extras : forall meta md, _meta_dict meta = Ok md -> extras_ok md.
Proof.
  intros meta md H. unfold _meta_dict in H.
  destruct meta; try discriminate.
  - injection H as <-. constructor.
  - set (d0 := flat_map _ meta_keys) in H.
    assert (Hd : extras_ok d0).
    { subst d0. apply meta_pick_extras. apply meta_keys_extra. }
    clearbody d0. cbv zeta in H.
    destruct (vhas (VDict d) (s_ "confidenceScore")).
    + apply bind_ok in H. destruct H as [s [_ H]]. injection H as <-.
      apply extras_ok_vset_list; [exact Hd|].
      unfold extra_names. apply in_or_app. right. apply in_or_app. right. left. reflexivity.
    + injection H as <-. exact Hd.
Qed.

Lemma build_lexicon_attrib_inv : forall lexicon version attrib,
  _build_lexicon_attrib lexicon version = Ok attrib ->
  exists v1 v2 v3 v4 v5 v6 extra,
    attrib = [(s_ "id", v1); (s_ "label", v2); (s_ "language", v3); (s_ "email", v4);
              (s_ "license", v5); (s_ "version", v6)] ++ extra
    /\ extras_ok extra
    /\ py_item lexicon (s_ "id") = Ok v1 /\ py_item lexicon (s_ "label") = Ok v2
    /\ py_item lexicon (s_ "language") = Ok v3 /\ py_item lexicon (s_ "email") = Ok v4
    /\ py_item lexicon (s_ "license") = Ok v5 /\ py_item lexicon (s_ "version") = Ok v6.
Proof.
  intros lexicon version attrib H. unfold _build_lexicon_attrib in H.
  cbn [map mapM] in H.
  apply bind_ok in H. destruct H as [a0 [Ha0 H]].
  apply bind_ok in Ha0. destruct Ha0 as [kv1 [Hk1 Ha0]].
  apply bind_ok in Hk1. destruct Hk1 as [v1 [Hv1 Hk1]]. injection Hk1 as <-.
  apply bind_ok in Ha0. destruct Ha0 as [r1 [Hr1 Ha0]]. injection Ha0 as <-.
  apply bind_ok in Hr1. destruct Hr1 as [kv2 [Hk2 Hr1]].
  apply bind_ok in Hk2. destruct Hk2 as [v2 [Hv2 Hk2]]. injection Hk2 as <-.
  apply bind_ok in Hr1. destruct Hr1 as [r2 [Hr2 Hr1]]. injection Hr1 as <-.
  apply bind_ok in Hr2. destruct Hr2 as [kv3 [Hk3 Hr2]].
  apply bind_ok in Hk3. destruct Hk3 as [v3 [Hv3 Hk3]]. injection Hk3 as <-.
  apply bind_ok in Hr2. destruct Hr2 as [r3 [Hr3 Hr2]]. injection Hr2 as <-.
  apply bind_ok in Hr3. destruct Hr3 as [kv4 [Hk4 Hr3]].
  apply bind_ok in Hk4. destruct Hk4 as [v4 [Hv4 Hk4]]. injection Hk4 as <-.
  apply bind_ok in Hr3. destruct Hr3 as [r4 [Hr4 Hr3]]. injection Hr3 as <-.
  apply bind_ok in Hr4. destruct Hr4 as [kv5 [Hk5 Hr4]].
  apply bind_ok in Hk5. destruct Hk5 as [v5 [Hv5 Hk5]]. injection Hk5 as <-.
  apply bind_ok in Hr4. destruct Hr4 as [r5 [Hr5 Hr4]]. injection Hr4 as <-.
  apply bind_ok in Hr5. destruct Hr5 as [kv6 [Hk6 Hr5]].
  apply bind_ok in Hk6. destruct Hk6 as [v6 [Hv6 Hk6]]. injection Hk6 as <-.
  apply bind_ok in Hr5. destruct Hr5 as [r6 [Hr6 Hr5]]. injection Hr5 as <-.
  injection Hr6 as <-.
  set (six := [(s_ "id", v1); (s_ "label", v2); (s_ "language", v3); (s_ "email", v4);
               (s_ "license", v5); (s_ "version", v6)]) in *.
  assert (Hsix : map fst six = six_names) by reflexivity.
  assert (S0 : lex_shape six six).
  { exists []. split; [rewrite app_nil_r; reflexivity | constructor]. }
  apply bind_ok in H. destruct H as [a1 [Ha1 H]].
  assert (S1 : lex_shape six a1).
  { apply (lex_shape_opt_attr six _ _ _ _ Hsix Ha1 S0). vm_compute. tauto. }
  apply bind_ok in H. destruct H as [a2 [Ha2 H]].
  assert (S2 : lex_shape six a2).
  { apply (lex_shape_opt_attr six _ _ _ _ Hsix Ha2 S1). vm_compute. tauto. }
  apply bind_ok in H. destruct H as [a3 [Ha3 H]].
  assert (S3 : lex_shape six a3).
  { destruct (ge_1_1 version).
    - apply (lex_shape_opt_attr six _ _ _ _ Hsix Ha3 S2). vm_compute. tauto.
    - injection Ha3 as <-. exact S2. }
  apply bind_ok in H. destruct H as [meta [_ H]].
  apply bind_ok in H. destruct H as [md [Hmd H]]. injection H as <-.
  pose proof (lex_shape_dict_update six md a3 Hsix S3 (meta_dict_extras _ _ Hmd)) as [extra [He1 He2]].
  exists v1, v2, v3, v4, v5, v6, extra. repeat split; assumption.
Qed.

(* ---------- _dump_lexicon ---------- *)
Definition part_of (kv : str * val) : result str :=
  do s <- py_str (snd kv); Ok (fst kv ++ [61] ++ quoteattr s).

Lemma mapM_parts_inv : forall attrib parts, mapM part_of attrib = Ok parts ->
  exists sattrib, parts = map q_part sattrib /\ map fst sattrib = map fst attrib.
Proof.
  induction attrib as [|[k v] r IH]; intros parts H.
  - simpl in H. injection H as <-. exists []. split; reflexivity.
  - simpl in H. apply bind_ok in H. destruct H as [y [Hy H]].
    apply bind_ok in H. destruct H as [ys [Hys H]]. injection H as <-.
    destruct (IH ys Hys) as [sattrib [H1 H2]].
    unfold part_of in Hy. apply bind_ok in Hy. destruct Hy as [s [Hs Hy]]. injection Hy as <-.
    exists ((k, s) :: sattrib). split.
    + simpl. rewrite H1. reflexivity.
    + simpl. rewrite H2. reflexivity.
Qed.

Lemma extras_ok_map_fst : forall (extra : list (str * val)) (extra_s : list (str * str)),
  map fst extra_s = map fst extra -> extras_ok extra ->
  Forall (fun kv => In (fst kv) extra_names) extra_s.
Proof.
  induction extra as [|kv r IH]; intros extra_s Hm He.
  - destruct extra_s; [constructor | discriminate].
  - destruct extra_s as [|kv' r']; [discriminate|].
    simpl in Hm. injection Hm as Hk Hr. inversion He as [|x y Hx Hy]; subst.
    constructor; [rewrite Hk; exact Hx | apply IH; assumption].
Qed.

Definition str_field (d : val) (k : str) (s : str) : Prop :=
  exists v, py_item d k = Ok v /\ py_str v = Ok s.

(* how a lexspec reflects a lexicon of the resource *)
Definition spec_of (ver : list Z) (lexicon : val) (l : lexspec) : Prop :=
  str_field lexicon (s_ "id") (ls_id l) /\ str_field lexicon (s_ "label") (ls_label l)
  /\ str_field lexicon (s_ "language") (ls_language l) /\ str_field lexicon (s_ "email") (ls_email l)
  /\ str_field lexicon (s_ "license") (ls_license l) /\ str_field lexicon (s_ "version") (ls_version l)
  /\ exists ext, py_get lexicon (s_ "extends") = Ok ext
       /\ ls_type l = (if vtruthy ext then TLexiconExtension else TLexicon)
       /\ match ls_extends l with
          | Some (i, v, x) => ge_1_1 ver = true /\ vtruthy ext = true
                              /\ py_item ext (s_ "id") = Ok (VStr i)
                              /\ py_item ext (s_ "version") = Ok (VStr v)
          | None => ge_1_1 ver = false \/ vtruthy ext = false
          end.

Lemma py_get_item_same : forall d k a b, py_get d k = Ok a -> py_item d k = Ok b -> a = b.
Proof.
  intros d k a b Ha Hb. unfold py_get in Ha. unfold py_item in Hb.
  destruct d; try discriminate. injection Ha as <-.
  destruct (vhas (VDict d) k); [|discriminate]. injection Hb as <-. reflexivity.
Qed.

Lemma lt_free_concat : forall ys, forallb lt_free ys = true -> lt_free (concat ys) = true.
Proof.
  induction ys as [|y r IH]; intro H.
  - reflexivity.
  - simpl in H. apply andb_true_iff in H. destruct H as [H1 H2].
    simpl. apply lt_free_app; [exact H1 | apply IH; exact H2].
Qed.

Lemma six_parts_inv : forall v1 v2 v3 v4 v5 v6 extra parts,
  mapM part_of ([(s_ "id", v1); (s_ "label", v2); (s_ "language", v3); (s_ "email", v4);
                 (s_ "license", v5); (s_ "version", v6)] ++ extra) = Ok parts ->
  exists s1 s2 s3 s4 s5 s6 extra_s,
    parts = map q_part (lexicon_attrib s1 s2 s3 s4 s5 s6 extra_s)
    /\ py_str v1 = Ok s1 /\ py_str v2 = Ok s2 /\ py_str v3 = Ok s3 /\ py_str v4 = Ok s4
    /\ py_str v5 = Ok s5 /\ py_str v6 = Ok s6 /\ map fst extra_s = map fst extra.
Proof.
  intros v1 v2 v3 v4 v5 v6 extra parts H. cbn [app mapM] in H.
  apply bind_ok in H. destruct H as [p1 [Hp1 H]].
  apply bind_ok in H. destruct H as [r1 [H1 H]]. injection H as <-.
  apply bind_ok in H1. destruct H1 as [p2 [Hp2 H1]].
  apply bind_ok in H1. destruct H1 as [r2 [H2 H1]]. injection H1 as <-.
  apply bind_ok in H2. destruct H2 as [p3 [Hp3 H2]].
  apply bind_ok in H2. destruct H2 as [r3 [H3 H2]]. injection H2 as <-.
  apply bind_ok in H3. destruct H3 as [p4 [Hp4 H3]].
  apply bind_ok in H3. destruct H3 as [r4 [H4 H3]]. injection H3 as <-.
  apply bind_ok in H4. destruct H4 as [p5 [Hp5 H4]].
  apply bind_ok in H4. destruct H4 as [r5 [H5 H4]]. injection H4 as <-.
  apply bind_ok in H5. destruct H5 as [p6 [Hp6 H5]].
  apply bind_ok in H5. destruct H5 as [r6 [H6 H5]]. injection H5 as <-.
  destruct (mapM_parts_inv _ _ H6) as [extra_s [He1 He2]].
  unfold part_of in Hp1, Hp2, Hp3, Hp4, Hp5, Hp6. cbn [fst snd] in *.
  apply bind_ok in Hp1. destruct Hp1 as [s1 [Hs1 Hp1]]. injection Hp1 as <-.
  apply bind_ok in Hp2. destruct Hp2 as [s2 [Hs2 Hp2]]. injection Hp2 as <-.
  apply bind_ok in Hp3. destruct Hp3 as [s3 [Hs3 Hp3]]. injection Hp3 as <-.
  apply bind_ok in Hp4. destruct Hp4 as [s4 [Hs4 Hp4]]. injection Hp4 as <-.
  apply bind_ok in Hp5. destruct Hp5 as [s5 [Hs5 Hp5]]. injection Hp5 as <-.
  apply bind_ok in Hp6. destruct Hp6 as [s6 [Hs6 Hp6]]. injection Hp6 as <-.
  exists s1, s2, s3, s4, s5, s6, extra_s. subst r6.
  repeat split; try assumption.
Qed.

Lemma lexicon_close_lt_free : forall b : bool,
  lt_free (s_ "  </" ++ (if b then s_ "LexiconExtension" else s_ "Lexicon") ++ [c_gt; c_nl]) = true.
Proof. intros [|]; reflexivity. Qed.

Lemma lextype_name_if : forall b : bool,
  lextype_name (if b then TLexiconExtension else TLexicon)
  = (if b then s_ "LexiconExtension" else s_ "Lexicon").
Proof. intros [|]; reflexivity. Qed.

Theorem dump_lexicon_inv : forall lexicon version text,
  _dump_lexicon lexicon version = Ok text ->
  exists l, text = ls_text l /\ ls_wf l /\ spec_of version lexicon l.
Proof.
  intros lexicon version text H. unfold _dump_lexicon in H.
  apply bind_ok in H. destruct H as [ext [Hext H]]. cbv zeta in H.
  apply bind_ok in H. destruct H as [attrib [Hattrib H]].
  apply bind_ok in H. destruct H as [parts [Hparts H]].
  apply bind_ok in H. destruct H as [deps [Hdeps H]].
  apply bind_ok in H. destruct H as [l_entries [_ H]].
  apply bind_ok in H. destruct H as [entries [Hentries H]].
  apply bind_ok in H. destruct H as [l_synsets [_ H]].
  apply bind_ok in H. destruct H as [synsets [Hsynsets H]].
  apply bind_ok in H. destruct H as [frames [Hframes H]].
  injection H as <-.
  destruct (build_lexicon_attrib_inv _ _ _ Hattrib)
    as [v1 [v2 [v3 [v4 [v5 [v6 [extra [Ha [Hex [I1 [I2 [I3 [I4 [I5 I6]]]]]]]]]]]]]].
  subst attrib.
  destruct (six_parts_inv _ _ _ _ _ _ _ _ Hparts)
    as [s1 [s2 [s3 [s4 [s5 [s6 [extra_s [Hp [P1 [P2 [P3 [P4 [P5 [P6 Hfst]]]]]]]]]]]]]].
  subst parts.
  pose proof (extras_ok_map_fst _ _ Hfst Hex) as Hexs.
  (* the lines after the start tag *)
  assert (Hentries_lt : lt_free (concat entries) = true).
  { apply lt_free_concat. eapply mapM_forallb; [|exact Hentries]. cbv beta.
    intros x y Hxy. eapply dump_lexical_entry_lt_free. exact Hxy. }
  assert (Hsynsets_lt : lt_free (concat synsets) = true).
  { apply lt_free_concat. eapply mapM_forallb; [|exact Hsynsets]. cbv beta.
    intros x y Hxy. eapply dump_synset_lt_free. exact Hxy. }
  assert (Hframes_lt : lt_free (concat frames) = true).
  { destruct (ge_1_1 version).
    - apply bind_ok in Hframes. destruct Hframes as [l_frames [_ Hframes]].
      apply lt_free_concat. eapply mapM_forallb; [|exact Hframes]. cbv beta.
      intros x y Hxy. eapply dump_sb_lt_free. exact Hxy.
    - injection Hframes as <-. reflexivity. }
  assert (Htail_lt : lt_free (concat entries ++ concat synsets ++ concat frames
                              ++ s_ "  </" ++ (if vtruthy ext then s_ "LexiconExtension" else s_ "Lexicon")
                              ++ [c_gt; c_nl]) = true).
  { apply lt_free_app; [exact Hentries_lt|]. apply lt_free_app; [exact Hsynsets_lt|].
    apply lt_free_app; [exact Hframes_lt|]. apply lexicon_close_lt_free. }
  set (tail := concat entries ++ concat synsets ++ concat frames
               ++ s_ "  </" ++ (if vtruthy ext then s_ "LexiconExtension" else s_ "Lexicon")
               ++ [c_gt; c_nl]) in *.
  (* the six string fields *)
  assert (F1 : str_field lexicon (s_ "id") s1) by (exists v1; split; assumption).
  assert (F2 : str_field lexicon (s_ "label") s2) by (exists v2; split; assumption).
  assert (F3 : str_field lexicon (s_ "language") s3) by (exists v3; split; assumption).
  assert (F4 : str_field lexicon (s_ "email") s4) by (exists v4; split; assumption).
  assert (F5 : str_field lexicon (s_ "license") s5) by (exists v5; split; assumption).
  assert (F6 : str_field lexicon (s_ "version") s6) by (exists v6; split; assumption).
  (* the dependencies *)
  assert (Hd : exists e reqs_text, deps = e ++ reqs_text /\ lt_free reqs_text = true
               /\ ((e = [] /\ (ge_1_1 version = false \/ vtruthy ext = false))
                   \/ (exists i v x, e = dep_text (s_ "Extends") (extends_attrs i v x)
                         /\ url_only x = true /\ ge_1_1 version = true /\ vtruthy ext = true
                         /\ py_item ext (s_ "id") = Ok (VStr i)
                         /\ py_item ext (s_ "version") = Ok (VStr v)))).
  { destruct (ge_1_1 version) eqn:Hge.
    - apply bind_ok in Hdeps. destruct Hdeps as [e [He Hdeps]].
      apply bind_ok in Hdeps. destruct Hdeps as [l_reqs [_ Hdeps]].
      apply bind_ok in Hdeps. destruct Hdeps as [reqs [Hreqs Hdeps]]. injection Hdeps as <-.
      exists e, (concat reqs). split; [reflexivity|]. split.
      { apply lt_free_concat. eapply mapM_forallb; [|exact Hreqs]. cbv beta.
        intros x y Hxy. eapply dump_requires_lt_free. exact Hxy. }
      destruct (vtruthy ext) eqn:Htr.
      + right. apply bind_ok in He. destruct He as [u [_ He]].
        apply bind_ok in He. destruct He as [x [Hx He]].
        pose proof (py_get_item_same _ _ _ _ Hext Hx) as Hsame. subst x.
        destruct (dump_extends_inv _ _ He) as [i [v [xx [E1 [E2 [E3 E4]]]]]].
        exists i, v, xx. repeat split; assumption.
      + left. injection He as <-. split; [reflexivity | right; reflexivity].
    - injection Hdeps as <-. exists [], []. split; [reflexivity|]. split; [reflexivity|].
      left. split; [reflexivity | left; reflexivity]. }
  destruct Hd as [e [reqs_text [Hdeps_eq [Hreqs_lt Hcases]]]]. subst deps.
  destruct Hcases as [[He Hwhy] | [i [v [x [He [Hu [Hge [Htr [Hi Hv]]]]]]]]].
  - (* no Extends line *)
    exists (mkLS (if vtruthy ext then TLexiconExtension else TLexicon) s1 s2 s3 s4 s5 s6 extra_s
                 None (reqs_text ++ tail)).
    split; [|split].
    + unfold ls_text, ls_ext_text, ls_attrib, start_tag_rem.
      cbn [ls_type ls_id ls_label ls_language ls_email ls_license ls_version ls_extra ls_extends ls_body].
      rewrite lextype_name_if. subst e. fold tail.
      rewrite <- !app_assoc. reflexivity.
    + unfold ls_wf. cbn [ls_type ls_extra ls_extends ls_body].
      split; [destruct (vtruthy ext); [right | left]; reflexivity|].
      split; [exact Hexs|]. split; [exact I|].
      apply lt_free_app; assumption.
    + unfold spec_of. cbn [ls_type ls_id ls_label ls_language ls_email ls_license ls_version ls_extends].
      repeat (split; [assumption|]). exists ext. repeat split; try assumption.
  - (* with the Extends line *)
    exists (mkLS (if vtruthy ext then TLexiconExtension else TLexicon) s1 s2 s3 s4 s5 s6 extra_s
                 (Some (i, v, x)) (reqs_text ++ tail)).
    split; [|split].
    + unfold ls_text, ls_ext_text, ls_attrib, start_tag_rem.
      cbn [ls_type ls_id ls_label ls_language ls_email ls_license ls_version ls_extra ls_extends ls_body].
      rewrite lextype_name_if. subst e. fold tail.
      rewrite <- !app_assoc. reflexivity.
    + unfold ls_wf. cbn [ls_type ls_extra ls_extends ls_body].
      split; [destruct (vtruthy ext); [right | left]; reflexivity|].
      split; [exact Hexs|]. split; [exact Hu|].
      apply lt_free_app; assumption.
    + unfold spec_of. cbn [ls_type ls_id ls_label ls_language ls_email ls_license ls_version ls_extends].
      repeat (split; [assumption|]). exists ext. repeat split; try assumption.
Qed.

(* S2 for the writer itself: the first line(s) of what _dump_lexicon writes are taken by
   the lex scanner as one tag, tokenised into the written attributes, and give the id,
   version and label of the lexicon — the only hypothesis: these three can be encoded *)
Corollary dump_lexicon_start_tag : forall lexicon version text,
  _dump_lexicon lexicon version = Ok text ->
  exists l rest,
    spec_of version lexicon l
    /\ text = s_ "  <" ++ (lextype_name (ls_type l)
                           ++ start_tag_rem (lextype_name (ls_type l)) (ls_attrib l)) ++ [c_gt] ++ rest
    /\ (scalars (ls_id l) = true -> scalars (ls_label l) = true -> scalars (ls_version l) = true ->
        forall rest' : str,
        let R := utf8_encode (start_tag_rem (lextype_name (ls_type l)) (ls_attrib l)) in
        lex_at (utf8_encode (lextype_name (ls_type l)
                             ++ start_tag_rem (lextype_name (ls_type l)) (ls_attrib l)) ++ c_gt :: rest')
          = Some (ls_type l, R, rest')
        /\ attr_tokens R = map q_token (ls_attrib l)
        /\ tag_info R = Ok (mkInfo (ls_id l) (ls_version l) (Some (ls_label l)) None)).
Proof.
  intros lexicon version text H.
  destruct (dump_lexicon_inv _ _ _ H) as [l [Ht [[_ [Hx _]] Hs]]].
  exists l, ([c_nl] ++ ls_ext_text l ++ ls_body l). split; [exact Hs|]. split.
  - rewrite Ht. unfold ls_text. rewrite <- !app_assoc. reflexivity.
  - intros Hid Hlab Hver rest'.
    apply (lexicon_start_tag_scanned (ls_type l) (ls_id l) (ls_label l) (ls_language l)
             (ls_email l) (ls_license l) (ls_version l) (ls_extra l)); assumption.
Qed.

(* ---------- dump ---------- *)
Lemma dump_lexicons_inv : forall ver lexicons parts,
  mapM (fun l => _dump_lexicon l ver) lexicons = Ok parts ->
  exists specs, parts = map ls_text specs /\ Forall ls_wf specs
                /\ Forall2 (spec_of ver) lexicons specs.
Proof.
  intros ver. induction lexicons as [|lx r IH]; intros parts H.
  - simpl in H. injection H as <-. exists []. repeat split; constructor.
  - simpl in H. apply bind_ok in H. destruct H as [y [Hy H]].
    apply bind_ok in H. destruct H as [ys [Hys H]]. injection H as <-.
    destruct (IH ys Hys) as [specs [H1 [H2 H3]]].
    destruct (dump_lexicon_inv _ _ _ Hy) as [l [Hl1 [Hl2 Hl3]]].
    exists (l :: specs). split; [simpl; rewrite Hl1, H1; reflexivity|].
    split; constructor; assumption.
Qed.

Definition dump_header (schema dc_uri : str) : str :=
  xmldecl ++ [c_nl] ++ doctype_of schema ++ [c_nl]
  ++ s_ "<LexicalResource xmlns:dc=""" ++ dc_uri ++ [c_quot; c_gt; c_nl].
Definition dump_footer : str := s_ "</LexicalResource>" ++ [c_nl].

(* the shape of what dump writes *)
Lemma dump_inv : forall version resource text,
  dump version resource = Ok text ->
  exists schema dc_uri ver lexv lexicons specs,
    assoc version schemas = Some schema /\ assoc version dc_uris = Some dc_uri
    /\ In version supported_versions
    /\ version_info version = Ok ver
    /\ py_item resource (s_ "lexicons") = Ok lexv /\ py_iter lexv = Ok lexicons
    /\ Forall ls_wf specs /\ Forall2 (spec_of ver) lexicons specs
    /\ text = dump_header schema dc_uri ++ concat (map ls_text specs) ++ dump_footer.
Proof.
  intros version resource text H. unfold dump in H.
  destruct (str_mem version supported_versions) eqn:Hs; cbv beta iota zeta delta [negb] in H;
    [|discriminate].
  apply bind_ok in H. destruct H as [schema [Hsch H]].
  apply bind_ok in H. destruct H as [dc_uri [Hdc H]].
  apply bind_ok in H. destruct H as [ver [Hver H]].
  apply bind_ok in H. destruct H as [lexv [Hlexv H]].
  apply bind_ok in H. destruct H as [lexicons [Hlexicons H]].
  apply bind_ok in H. destruct H as [parts [Hparts H]].
  destruct (dump_lexicons_inv _ _ _ Hparts) as [specs [Hp [Hwf Hspec]]]. subst parts.
  exists schema, dc_uri, ver, lexv, lexicons, specs.
  destruct (assoc version schemas) as [sc|]; [|discriminate]. injection Hsch as ->.
  destruct (assoc version dc_uris) as [du|]; [|discriminate]. injection Hdc as ->.
  apply str_mem_In in Hs.
  repeat split; try assumption; try reflexivity.
  assert (Hinj : forall a b : str, @Ok str a = Ok b -> a = b) by (intros a b E; injection E as E; exact E).
  apply Hinj in H. rewrite <- H. unfold dump_header, dump_footer. rewrite <- !app_assoc. reflexivity.
Qed.

Lemma dump_header_cases : forall version schema dc_uri,
  In version supported_versions ->
  assoc version schemas = Some schema -> assoc version dc_uris = Some dc_uri ->
  lt_freew (dump_header schema dc_uri) = true
  /\ section_free (dump_header schema dc_uri) = true
  /\ bang_free (xmldecl ++ [c_nl]) = true
  /\ bang_free (s_ "<LexicalResource xmlns:dc=""" ++ dc_uri ++ [c_quot; c_gt; c_nl]) = true
  /\ (exists d, doctype_of schema = c_lt :: 33 :: d /\ zin c_lt d = false).
Proof.
  intros version schema dc_uri Hs Hsch Hdc. simpl in Hs.
  destruct Hs as [Hv|[Hv|[Hv|[Hv|[]]]]]; subst version;
    vm_compute in Hsch; injection Hsch as <-; vm_compute in Hdc; injection Hdc as <-;
    (split; [vm_compute; reflexivity|]; split; [vm_compute; reflexivity|];
     split; [vm_compute; reflexivity|]; split; [vm_compute; reflexivity|];
     eexists; split; [vm_compute; reflexivity | vm_compute; reflexivity]).
Qed.

(* S3 for dump: the file written for a resource is scanned to the id, version, label
   and base of its lexicons, in the order of the resource.  What remains of the earlier
   restriction: the strings the scan reports (id, label, version; id and version of the
   base) must be encodable — nothing is asked of any other attribute value. *)
Theorem scan_dump : forall version resource text,
  dump version resource = Ok text ->
  exists ver lexv lexicons specs,
    version_info version = Ok ver
    /\ py_item resource (s_ "lexicons") = Ok lexv /\ py_iter lexv = Ok lexicons
    /\ Forall2 (spec_of ver) lexicons specs
    /\ (Forall ls_encodable specs ->
        scan_lexicons (utf8_encode text) = Ok (map ls_info specs)).
Proof.
  intros version resource text H.
  destruct (dump_inv _ _ _ H)
    as [schema [dc_uri [ver [lexv [lexicons [specs [Hsch [Hdc [Hs [Hver [Hl [Hi [Hwf [Hspec Ht]]]]]]]]]]]]]].
  exists ver, lexv, lexicons, specs. repeat split; try assumption.
  intro Henc. rewrite Ht.
  destruct (dump_header_cases _ _ _ Hs Hsch Hdc) as [Hpre _].
  apply scan_document; [exact Hpre | exact Hwf | exact Henc | reflexivity].
Qed.

Corollary scan_dump_single : forall version resource text,
  dump version resource = Ok text ->
  forall lexicon ver lexv, version_info version = Ok ver ->
  py_item resource (s_ "lexicons") = Ok lexv -> py_iter lexv = Ok [lexicon] ->
  exists l, spec_of ver lexicon l
            /\ (ls_encodable l -> scan_lexicons (utf8_encode text) = Ok [ls_info l]).
Proof.
  intros version resource text H lexicon ver lexv Hver Hlexv Hiter.
  destruct (scan_dump _ _ _ H) as [ver' [lexv' [lexicons [specs [Hv [Hl [Hi [Hsp Hscan]]]]]]]].
  rewrite Hver in Hv. injection Hv as <-. rewrite Hlexv in Hl. injection Hl as <-.
  rewrite Hiter in Hi. injection Hi as <-.
  inversion Hsp as [|x l lx ls Hx Hrest]; subst. inversion Hrest; subst.
  exists l. split; [exact Hx|]. intro Hok. apply Hscan. constructor; [exact Hok | constructor].
Qed.

(* ====================================================================== *)
(* The dumped text contains no comment and no CDATA section               *)
(* ====================================================================== *)
Lemma namebytes_no_lt : forall nm, forallb is_namebyte nm = true -> zin c_lt nm = false.
Proof.
  induction nm as [|c nm IH]; intro H; [reflexivity|].
  simpl in H. apply andb_true_iff in H. destruct H as [Hc Hn].
  rewrite zin_cons. rewrite (IH Hn). rewrite orb_false_r.
  unfold is_namebyte in Hc. apply negb_true_iff in Hc.
  apply orb_false_iff in Hc. destruct Hc as [Hc _]. apply orb_false_iff in Hc. destruct Hc as [Hc _].
  apply orb_false_iff in Hc. destruct Hc as [Hc _]. apply orb_false_iff in Hc. destruct Hc as [_ Hc].
  rewrite Z.eqb_sym. exact Hc.
Qed.
Lemma quoteattr_no_lt : forall v, zin c_lt (quoteattr v) = false.
Proof.
  intro v. destruct (quoteattr_shape v) as [Hq [_ Hqq]]. rewrite Hq.
  rewrite !zin_app.
  assert (Hi : zin c_lt (quoteattr_inner v) = false).
  { unfold quoteattr_inner. cbv zeta.
    destruct (zin c_quot (flat_map sax_f v) && zin c_apos (flat_map sax_f v)).
    - apply zin_flat_map. intro c. apply saxq_f_no_cr_lt_quot.
    - apply zin_flat_map. intro c. apply sax_f_no_cr_lt. }
  rewrite Hi. destruct (is_quote_cases _ Hqq) as [-> | ->]; reflexivity.
Qed.
Lemma zin_join : forall x d (l : list str), zin x d = false ->
  forallb (fun p => negb (zin x p)) l = true -> zin x (join d l) = false.
Proof.
  intros x d l Hd. induction l as [|p l IH]; intro H; [reflexivity|].
  simpl in H. apply andb_true_iff in H. destruct H as [Hp Hl]. apply negb_true_iff in Hp.
  destruct l as [|p2 l]; [exact Hp|].
  rewrite join_cons2. rewrite !zin_app. rewrite Hp, Hd. apply IH. exact Hl.
Qed.
Lemma start_tag_rem_no_lt : forall name attrib,
  forallb (fun kv => attr_name_ok (fst kv)) attrib = true ->
  zin c_lt (start_tag_rem name attrib) = false.
Proof.
  intros name attrib H. unfold start_tag_rem. rewrite zin_app.
  change (zin c_lt [c_sp]) with false. cbn [orb].
  apply zin_join.
  - rewrite zin_cons. change (Z.eqb c_lt c_nl) with false. apply spaces_no_lt.
  - rewrite forallb_forall in *. intros p Hp. apply in_map_iff in Hp. destruct Hp as [kv [<- Hkv]].
    apply negb_true_iff. unfold q_part. rewrite !zin_app.
    specialize (H kv Hkv). apply attr_name_ok_inv in H. destruct H as [_ [_ H]].
    rewrite (namebytes_no_lt _ H). rewrite quoteattr_no_lt. reflexivity.
Qed.
Lemma e_parts_no_lt : forall l, forallb (fun kv => negb (zin c_lt (fst kv))) l = true ->
  zin c_lt (concat (map e_part l)) = false.
Proof.
  induction l as [|kv l IH]; intro H; [reflexivity|].
  simpl in H. apply andb_true_iff in H. destruct H as [Hk Hl]. apply negb_true_iff in Hk.
  cbn [map concat]. rewrite zin_app. rewrite (IH Hl). rewrite orb_false_r.
  unfold e_part. rewrite !zin_app. rewrite Hk.
  destruct (escape_attrib_wellformed (snd kv)) as [_ Hlt]. rewrite Hlt. reflexivity.
Qed.

Lemma bang_free_app : forall a b, bang_free a = true -> bang_free b = true -> bang_free (a ++ b) = true.
Proof. intros a b. apply lt_free_gen_app. apply nobang_mono. Qed.

Lemma ls_text_bang_free : forall l, ls_wf l -> bang_free (ls_text l) = true.
Proof.
  intros l [Ht [Hx [Hu Hb]]]. unfold ls_text.
  assert (Hnames : forallb (fun kv => attr_name_ok (fst kv)) (ls_attrib l) = true).
  { unfold ls_attrib, lexicon_attrib. rewrite forallb_app. apply andb_true_iff. split; [reflexivity|].
    rewrite forallb_forall. intros kv Hkv. rewrite Forall_forall in Hx.
    apply (extra_name_facts _ (Hx kv Hkv)). }
  change (s_ "  <") with (s_ "  " ++ [c_lt]). rewrite <- app_assoc.
  apply bang_free_app; [reflexivity|].
  change ([c_lt] ++ ?x) with (c_lt :: x).
  change (bang_free (c_lt :: ?x)) with (nobang x && bang_free x).
  apply andb_true_iff. split; [destruct Ht as [-> | ->]; reflexivity|].
  apply bang_free_app; [apply lt_free_gen_no_lt; destruct Ht as [-> | ->]; reflexivity|].
  apply bang_free_app; [apply lt_free_gen_no_lt; apply start_tag_rem_no_lt; exact Hnames|].
  apply bang_free_app; [reflexivity|]. apply bang_free_app; [reflexivity|].
  apply bang_free_app; [|apply lt_free_bang_free; exact Hb].
  unfold ls_ext_text. destruct (ls_extends l) as [[[i v] x]|]; [|reflexivity].
  unfold dep_text. apply bang_free_app; [apply lt_free_gen_no_lt; apply spaces_no_lt|].
  change ([c_lt] ++ ?x) with (c_lt :: x).
  change (bang_free (c_lt :: ?x)) with (nobang x && bang_free x).
  apply andb_true_iff. split; [reflexivity|].
  apply lt_free_gen_no_lt. rewrite !zin_app.
  destruct (url_only_facts x Hu) as [_ [_ [_ Hk]]].
  rewrite e_parts_no_lt by (unfold extends_attrs; simpl; exact Hk). reflexivity.
Qed.

(* apart from the DOCTYPE declaration (which is neither a comment nor a CDATA section) no
   "less than" sign of the dumped text is followed by an exclamation mark; so the first
   two alternatives of lex_re never fire on it *)
Theorem dump_no_sections : forall version resource text,
  dump version resource = Ok text ->
  (exists schema d rest,
     text = xmldecl ++ [c_nl] ++ (c_lt :: 33 :: d) ++ [c_nl] ++ rest
     /\ doctype_of schema = c_lt :: 33 :: d /\ zin c_lt d = false
     /\ bang_free (xmldecl ++ [c_nl]) = true /\ bang_free rest = true)
  /\ section_free text = true.
Proof.
  intros version resource text H.
  destruct (dump_inv _ _ _ H)
    as [schema [dc_uri [ver [lexv [lexicons [specs [Hsch [Hdc [Hs [Hver [Hl [Hi [Hwf [Hspec Ht]]]]]]]]]]]]]].
  destruct (dump_header_cases _ _ _ Hs Hsch Hdc) as [_ [Hsec [Hb1 [Hb2 [d [Hd1 Hd2]]]]]].
  assert (Hparts : bang_free (concat (map ls_text specs)) = true).
  { apply lt_free_gen_concat; [apply nobang_mono|]. clear - Hwf.
    induction specs as [|l specs IH]; [reflexivity|].
    inversion Hwf as [|x y H1 H2]; subst. cbn [map forallb]. rewrite (ls_text_bang_free l H1). apply IH. exact H2. }
  assert (Hrest : bang_free ((s_ "<LexicalResource xmlns:dc=""" ++ dc_uri ++ [c_quot; c_gt; c_nl])
                             ++ concat (map ls_text specs) ++ dump_footer) = true).
  { apply bang_free_app; [exact Hb2|]. apply bang_free_app; [exact Hparts | reflexivity]. }
  split.
  - exists schema, d, ((s_ "<LexicalResource xmlns:dc=""" ++ dc_uri ++ [c_quot; c_gt; c_nl])
                       ++ concat (map ls_text specs) ++ dump_footer).
    repeat split; try assumption.
    rewrite Ht. unfold dump_header. rewrite Hd1. rewrite <- !app_assoc. reflexivity.
  - rewrite Ht. apply lt_free_gen_app; [apply not_section_mono | exact Hsec|].
    apply lt_free_gen_app; [apply not_section_mono | |reflexivity].
    apply (lt_free_gen_impl nobang not_section _ nobang_not_section). exact Hparts.
Qed.
Corollary dump_never_skips : forall version resource text,
  dump version resource = Ok text ->
  forall a b, text = a ++ c_lt :: b -> skip_at b = None.
Proof.
  intros version resource text H a b E.
  destruct (dump_no_sections _ _ _ H) as [_ Hs].
  apply (section_free_never_skips text a b Hs E).
Qed.

(* ====================================================================== *)
(* S5  comments and CDATA sections contribute nothing                     *)
(* ====================================================================== *)
(* [pre] is a complete sequence of matches and non-matches: no tag, comment or CDATA
   section that begins in [pre] is still open at its end *)
Definition lex_closed (pre : str) : Prop :=
  forall s, lex_matches (pre ++ s) = lex_matches pre ++ lex_matches s.

Lemma lex_closed_nil : lex_closed [].
Proof. intro s. reflexivity. Qed.
Lemma lex_closed_app : forall a b, lex_closed a -> lex_closed b -> lex_closed (a ++ b).
Proof.
  intros a b Ha Hb s. rewrite <- app_assoc. rewrite Ha. rewrite Hb. rewrite Ha.
  rewrite app_assoc. reflexivity.
Qed.
Lemma lex_closed_lt_freew : forall pre, lt_freew pre = true -> lex_closed pre.
Proof.
  intros pre H s. rewrite (lex_matches_skip pre s H). rewrite (lex_matches_lt_free pre H). reflexivity.
Qed.
Lemma lex_closed_item : forall it, item_ok it = true -> lex_closed (item_text it).
Proof.
  intros it H s. rewrite (lex_matches_item it s H).
  rewrite <- (app_nil_r (item_text it)). rewrite (lex_matches_item it [] H). reflexivity.
Qed.
Lemma lex_closed_specs : forall specs, Forall ls_wf specs -> Forall ls_encodable specs ->
  lex_closed (utf8_encode (concat (map ls_text specs))).
Proof.
  intros specs Hw Hs s. rewrite (lex_matches_specs specs s Hw Hs).
  rewrite <- (app_nil_r (utf8_encode (concat (map ls_text specs)))).
  rewrite (lex_matches_specs specs [] Hw Hs). rewrite app_nil_r. reflexivity.
Qed.

(* the first occurrence of a closing sequence  a a g  (a <> g) after a text that does
   not contain it is the one that was appended *)
Lemma find_after_first : forall a g c post, a <> g -> substrb [a; a; g] c = false ->
  find_after [a; a; g] (c ++ [a; a; g] ++ post) = Some post.
Proof.
  intros a g c post Hag. induction c as [|x c IH]; intro H.
  - cbn [app find_after]. cbn [prefixb]. rewrite !Z.eqb_refl. reflexivity.
  - cbn [substrb] in H. apply orb_false_iff in H. destruct H as [Hp Hs].
    rewrite <- app_comm_cons. cbn [find_after].
    assert (Hpre : prefixb [a; a; g] (x :: c ++ [a; a; g] ++ post) = false).
    { assert (Hga : Z.eqb g a = false).
      { apply Z.eqb_neq. intro E. apply Hag. symmetry. exact E. }
      destruct c as [|y [|z r]].
      - cbn [app prefixb]. rewrite Hga. rewrite !andb_false_r. reflexivity.
      - cbn [app prefixb]. rewrite Hga. rewrite !andb_false_r. reflexivity.
      - cbn [app prefixb] in *. rewrite andb_true_r in *. exact Hp. }
    rewrite Hpre. apply IH. exact Hs.
Qed.

Lemma skip_at_comment : forall c post, substrb (s_ "-->") c = false ->
  skip_at (s_ "!--" ++ c ++ s_ "-->" ++ post) = Some post.
Proof.
  intros c post H. unfold skip_at, section_at.
  change (prefixb (s_ "!--") (s_ "!--" ++ c ++ s_ "-->" ++ post)) with true. cbv iota.
  change (skipn (length (s_ "!--")) (s_ "!--" ++ c ++ s_ "-->" ++ post)) with (c ++ s_ "-->" ++ post).
  change (s_ "-->") with [45; 45; 62] in *.
  rewrite (find_after_first 45 62 c post) by (try discriminate; exact H). reflexivity.
Qed.
Lemma skip_at_cdata : forall c post, substrb (s_ "]]>") c = false ->
  skip_at (s_ "![CDATA[" ++ c ++ s_ "]]>" ++ post) = Some post.
Proof.
  intros c post H. unfold skip_at, section_at.
  change (prefixb (s_ "!--") (s_ "![CDATA[" ++ c ++ s_ "]]>" ++ post)) with false. cbv iota.
  change (prefixb (s_ "![CDATA[") (s_ "![CDATA[" ++ c ++ s_ "]]>" ++ post)) with true. cbv iota.
  change (skipn (length (s_ "![CDATA[")) (s_ "![CDATA[" ++ c ++ s_ "]]>" ++ post))
    with (c ++ s_ "]]>" ++ post).
  change (s_ "]]>") with [93; 93; 62] in *.
  rewrite (find_after_first 93 62 c post) by (try discriminate; exact H). reflexivity.
Qed.

(* a comment / a CDATA section is itself a closed text without matches *)
Lemma lex_matches_comment : forall c post, substrb (s_ "-->") c = false ->
  lex_matches (s_ "<!--" ++ c ++ s_ "-->" ++ post) = lex_matches post.
Proof.
  intros c post H. change (s_ "<!--" ++ c ++ s_ "-->" ++ post)
    with (c_lt :: (s_ "!--" ++ c ++ s_ "-->" ++ post)).
  rewrite lex_matches_cons. change (Z.eqb c_lt c_lt) with true. cbv iota.
  rewrite (skip_at_comment c post H). reflexivity.
Qed.
Lemma lex_matches_cdata : forall c post, substrb (s_ "]]>") c = false ->
  lex_matches (s_ "<![CDATA[" ++ c ++ s_ "]]>" ++ post) = lex_matches post.
Proof.
  intros c post H. change (s_ "<![CDATA[" ++ c ++ s_ "]]>" ++ post)
    with (c_lt :: (s_ "![CDATA[" ++ c ++ s_ "]]>" ++ post)).
  rewrite lex_matches_cons. change (Z.eqb c_lt c_lt) with true. cbv iota.
  rewrite (skip_at_cdata c post H). reflexivity.
Qed.

(* S5: whatever a comment contains (tags, quotes, other openings, invalid bytes) *)
Theorem comment_skipped : forall pre c post,
  lex_closed pre -> substrb (s_ "-->") c = false ->
  lex_matches (pre ++ s_ "<!--" ++ c ++ s_ "-->" ++ post) = lex_matches (pre ++ post)
  /\ scan_lexicons (pre ++ s_ "<!--" ++ c ++ s_ "-->" ++ post) = scan_lexicons (pre ++ post).
Proof.
  intros pre c post Hpre Hc.
  assert (Hm : lex_matches (pre ++ s_ "<!--" ++ c ++ s_ "-->" ++ post) = lex_matches (pre ++ post)).
  { rewrite Hpre. rewrite (lex_matches_comment c post Hc). rewrite <- Hpre. reflexivity. }
  split; [exact Hm|]. unfold scan_lexicons. rewrite Hm. reflexivity.
Qed.
Theorem cdata_skipped : forall pre c post,
  lex_closed pre -> substrb (s_ "]]>") c = false ->
  lex_matches (pre ++ s_ "<![CDATA[" ++ c ++ s_ "]]>" ++ post) = lex_matches (pre ++ post)
  /\ scan_lexicons (pre ++ s_ "<![CDATA[" ++ c ++ s_ "]]>" ++ post) = scan_lexicons (pre ++ post).
Proof.
  intros pre c post Hpre Hc.
  assert (Hm : lex_matches (pre ++ s_ "<![CDATA[" ++ c ++ s_ "]]>" ++ post) = lex_matches (pre ++ post)).
  { rewrite Hpre. rewrite (lex_matches_cdata c post Hc). rewrite <- Hpre. reflexivity. }
  split; [exact Hm|]. unfold scan_lexicons. rewrite Hm. reflexivity.
Qed.

(* the side condition is needed: a comment opening inside an open quote of a tag, or
   after an unterminated comment opening, is not a comment for the scanner *)
Example comment_not_skipped_witness :
  let pre := s_ "<Lexicon id=""a"" version=""1"" note=""" in
  let c := s_ """><Lexicon id=""c"" version=""3"" note=""" in
  let post := s_ """>" in
  substrb (s_ "-->") c = false
  /\ scan_lexicons (pre ++ s_ "<!--" ++ c ++ s_ "-->" ++ post)
     = Ok [mkInfo (s_ "a") (s_ "1") None None; mkInfo (s_ "c") (s_ "3") None None]
  /\ scan_lexicons (pre ++ post) = Ok [mkInfo (s_ "a") (s_ "1") None None].
Proof. vm_compute. repeat split; reflexivity. Qed.
Example comment_not_skipped_witness2 :
  let pre := s_ "<!-- " in
  let post := s_ "<Lexicon id=""a"" version=""1""> -->" in
  scan_lexicons (pre ++ s_ "<!--" ++ s_ " x " ++ s_ "-->" ++ post) = Ok [mkInfo (s_ "a") (s_ "1") None None]
  /\ scan_lexicons (pre ++ post) = Ok [].
Proof. vm_compute. split; reflexivity. Qed.

(* S5 for documents: a comment between two lexicons of a document (for instance a dumped
   one) changes nothing, whatever it contains *)
Theorem scan_document_with_comment : forall pre specs1 c specs2 post,
  lt_freew pre = true -> Forall ls_wf specs1 -> Forall ls_encodable specs1 ->
  Forall ls_wf specs2 -> Forall ls_encodable specs2 -> lt_freew post = true ->
  substrb (s_ "-->") c = false ->
  scan_lexicons (utf8_encode (pre ++ concat (map ls_text specs1))
                 ++ s_ "<!--" ++ c ++ s_ "-->"
                 ++ utf8_encode (concat (map ls_text specs2) ++ post))
  = Ok (map ls_info (specs1 ++ specs2)).
Proof.
  intros pre specs1 c specs2 post Hpre Hw1 Hs1 Hw2 Hs2 Hpost Hc.
  assert (Hclosed : lex_closed (utf8_encode (pre ++ concat (map ls_text specs1)))).
  { rewrite utf8_encode_app. apply lex_closed_app.
    - apply lex_closed_lt_freew. apply lt_freew_utf8. exact Hpre.
    - apply lex_closed_specs; assumption. }
  destruct (comment_skipped _ c (utf8_encode (concat (map ls_text specs2) ++ post)) Hclosed Hc)
    as [_ Hscan].
  rewrite Hscan. rewrite <- utf8_encode_app. rewrite <- app_assoc.
  rewrite (app_assoc (concat (map ls_text specs1))). rewrite <- concat_app. rewrite <- map_app.
  apply scan_document; try assumption; apply Forall_app; split; assumption.
Qed.

(* ====================================================================== *)
(* Concrete checks (the theorems are not vacuous; the former witnesses)   *)
(* ====================================================================== *)
Definition ex_lexicon (id label url : string) (extends : val) : val :=
  VDict [(s_ "id", VStr (s_ id)); (s_ "label", VStr (s_ label)); (s_ "language", VStr (s_ "en"));
         (s_ "email", VStr (s_ "a@b.c")); (s_ "license", VStr (s_ "CC0")); (s_ "version", VStr (s_ "1.0"));
         (s_ "url", VStr (s_ url)); (s_ "extends", extends);
         (s_ "meta", VDict [(s_ "note", VStr (s_ "<Extends id=""n"" version=""0""> <!-- & more"))])].
Definition ex_resource : val :=
  VDict [(s_ "lexicons",
          VList [ex_lexicon "base" "it's ""quoted"" > <Lexicon id='x' version='9'>" "see version=""2"" there" VNone;
                 ex_lexicon "ext" "Extension" ""
                            (VDict [(s_ "id", VStr (s_ "base")); (s_ "version", VStr (s_ "1.0"));
                                    (s_ "url", VStr (s_ "id='evil'"))])])].
(* dump, then scan: id, version, label, base — with quotes, brackets, tags, id=-like text
   and a comment opening inside the values *)
Example scan_dump_example :
  match dump (s_ "1.1") ex_resource with
  | Ok text => scan_lexicons (utf8_encode text)
  | Err e => Err e
  end
  = Ok [mkInfo (s_ "base") (s_ "1.0") (Some (s_ "it's ""quoted"" > <Lexicon id='x' version='9'>")) None;
        mkInfo (s_ "ext") (s_ "1.0") (Some (s_ "Extension")) (Some (s_ "base", s_ "1.0"))].
Proof. vm_compute. reflexivity. Qed.

(* the witness of the first report (url  version="evil" ) *)
Example scan_dump_old_witness :
  match dump (s_ "1.1")
             (VDict [(s_ "lexicons", VList [ex_lexicon "base" "Base" "version=""evil""" VNone])]) with
  | Ok text => scan_lexicons (utf8_encode text)
  | Err e => Err e
  end
  = Ok [mkInfo (s_ "base") (s_ "1.0") (Some (s_ "Base")) None].
Proof. vm_compute. reflexivity. Qed.

(* attribute names: whole names are compared, so  xml:id ,  my-version ,  xid  are not
   taken for id / version any more *)
Example name_boundary_example :
  attr_matches (s_ " id=""a"" xml:id=""b"" xid=""c"" my-version=""2"" dc:identifier=""d"" version='1'")
  = [(NId, s_ "a"); (NVersion, s_ "1")].
Proof. vm_compute. reflexivity. Qed.

(* ====================================================================== *)
(* Summary                                                                *)
(* ====================================================================== *)
(* S1  unescape_quoteattr, unescape_escape_attrib (no hypothesis on the string),
       unescape_agrees_quoteattr / unescape_agrees_escape_attrib (= xml_attr_value on the
       output of the escapers); they differ on arbitrary input: unescape_differs_nul,
       unescape_differs_big.  Bytes: utf8_roundtrip (scalar values; xml_chars_scalars),
       attr_value_quoteattr, attr_value_escape_attrib.
   S2  attr_tokens_rem_text (the remainder is tokenised into exactly the written
       attributes), start_tag_scanned (any attribute list, NO hypothesis on the values),
       lexicon_start_tag_scanned, lexicon_names_ok, dump_lexicon_start_tag.  The inputs on
       which the earlier source tree failed: start_tag_old_witness, start_tag_old_witness2,
       extends_old_witness, scan_dump_old_witness, name_boundary_example.
   S3  scan_document (generic), dump_lexicon_inv, dump_inv, scan_dump, scan_dump_single.
       Remaining hypothesis: ls_encodable (the reported strings are Unicode scalar values).
       The rest of the file: serialize_lt_free, print_elem_lt_free,
       dump_lexical_entry_lt_free, dump_synset_lt_free, dump_sb_lt_free, dump_requires_lt_free;
       no comment / CDATA section in dumped text: dump_no_sections, dump_never_skips.
   S4  tag_info_missing, tag_info_missing_keyerror, tag_info_never_lmferror,
       scan_missing_id_or_version, scan_first_missing_keyerror, scan_extends_first,
       scan_extends_first_any.
   S5  comment_skipped, cdata_skipped (side condition lex_closed: lex_closed_nil,
       lex_closed_app, lex_closed_lt_freew, lex_closed_item, lex_closed_specs; needed:
       comment_not_skipped_witness, comment_not_skipped_witness2), scan_document_with_comment. *)

Print Assumptions unescape_quoteattr.
Print Assumptions unescape_quoteattr_unquote.
Print Assumptions unescape_escape_attrib.
Print Assumptions unescape_agrees_quoteattr.
Print Assumptions unescape_agrees_escape_attrib.
Print Assumptions utf8_roundtrip.
Print Assumptions attr_value_quoteattr.
Print Assumptions attr_value_escape_attrib.
Print Assumptions attr_tokens_rem_text.
Print Assumptions start_tag_scanned.
Print Assumptions lexicon_start_tag_scanned.
Print Assumptions lexicon_names_ok.
Print Assumptions start_tag_old_witness.
Print Assumptions start_tag_old_witness2.
Print Assumptions extends_old_witness.
Print Assumptions dump_lexicon_start_tag.
Print Assumptions serialize_lt_free.
Print Assumptions print_elem_lt_free.
Print Assumptions dump_lexical_entry_lt_free.
Print Assumptions dump_synset_lt_free.
Print Assumptions scan_document.
Print Assumptions dump_lexicon_inv.
Print Assumptions dump_inv.
Print Assumptions scan_dump.
Print Assumptions scan_dump_single.
Print Assumptions scan_dump_example.
Print Assumptions scan_dump_old_witness.
Print Assumptions name_boundary_example.
Print Assumptions dump_no_sections.
Print Assumptions dump_never_skips.
Print Assumptions tag_info_missing.
Print Assumptions tag_info_missing_keyerror.
Print Assumptions tag_info_never_lmferror.
Print Assumptions scan_missing_id_or_version.
Print Assumptions scan_first_missing_keyerror.
Print Assumptions scan_extends_first.
Print Assumptions scan_extends_first_any.
Print Assumptions comment_skipped.
Print Assumptions cdata_skipped.
Print Assumptions comment_not_skipped_witness.
Print Assumptions comment_not_skipped_witness2.
Print Assumptions scan_document_with_comment.
