(* ExportChildren.v — C03, continued: every attribute and every child element is copied.

   ExportProofs.v (E1–E5) shows that identifiers are exported exactly.  This file shows the same
   for the content hanging off them, for every database d, metadata table mt, lexicon row lex and
   version ver with  _export_lexicon d mt lex ver = Ok v :

     E8  senses   : synset, lexicalized, adjposition, meta, examples, counts, relations
     E9  synsets  : partOfSpeech, lexicalized, lexfile, meta, definitions, examples, relations,
                    ili_definition
     E7  forms    : lemma and further forms with script, id, tags, pronunciations
     E6  lexicon  : the attributes, meta and requires

   Each child list is stated as  map f (the table rows the model's query selects for the owner) ;
   the row selections ([*_of] below) say explicitly which rows those are:
     - examples, counts, definitions and relations are filtered by  lexicon_rowid = the exported
       lexicon: rows an *extension* lexicon hung on a sense / synset of this lexicon are dropped;
     - relations additionally need their target row to be in the exported lexicon, and are
       DISTINCT on (type name, metadata text, target): duplicated rows are merged;
     - forms, tags, pronunciations and adjpositions have NO lexicon filter.
   The statements that are false as first phrased are kept as Examples with their witnesses at
   the end (section "witnesses"). *)
From Coq Require Import String.
From Coq Require Import ZArith List Bool.
Import ListNotations.
Require Import WnV.Base.Sx WnV.Model.Val WnV.Model.Tables WnV.Model.Query WnV.Model.Export
               WnV.Proofs.ExportProofs.
Local Open Scope Z_scope.

(* ================================================================== generic lemmas *)
Lemma mapM_map_Ok : forall {A B C} (f : B -> res C) (g : A -> B) (h : A -> C) (l : list A),
  (forall x, In x l -> f (g x) = Ok (h x)) -> mapM f (map g l) = Ok (map h l).
Proof.
  intros A B C f g h l. induction l as [|x l IH]; intro H; simpl.
  - reflexivity.
  - rewrite (H x (or_introl eq_refl)). simpl. rewrite IH.
    + reflexivity.
    + intros y Hy. apply H. right. exact Hy.
Qed.

Lemma flat_map_ext_in : forall {A B} (f g : A -> list B) (l : list A),
  (forall x, In x l -> f x = g x) -> flat_map f l = flat_map g l.
Proof.
  intros A B f g l. induction l as [|x l IH]; intro H; simpl.
  - reflexivity.
  - rewrite (H x (or_introl eq_refl)). rewrite IH; [reflexivity|].
    intros y Hy. apply H. right. exact Hy.
Qed.

Lemma flat_map_comp : forall {A B C} (f : A -> list B) (g : B -> list C) (l : list A),
  flat_map g (flat_map f l) = flat_map (fun x => flat_map g (f x)) l.
Proof.
  intros A B C f g l. induction l as [|x l IH]; simpl.
  - reflexivity.
  - rewrite flat_map_app, IH. reflexivity.
Qed.

(* a stable sort does nothing to a list whose keys are all equal *)
Lemma stable_sort_const : forall {T} (le : T -> T -> bool) (l : list T),
  (forall x y, In x l -> In y l -> le x y = true) -> stable_sort le l = l.
Proof.
  intros T le l. induction l as [|x l IH]; intro H; simpl.
  - reflexivity.
  - rewrite IH.
    + destruct l as [|y l']; simpl; [reflexivity|].
      rewrite (H x y); [reflexivity | left; reflexivity | right; left; reflexivity].
    + intros a b Ha Hb. apply H; right; assumption.
Qed.

(* SELECT DISTINCT over the result of an inner join: the rows that survive the join, with
   duplicates (in the sense of [key]) merged, first occurrence kept *)
Lemma dedup_aux_join : forall {A B} (eqb : B -> B -> bool) (key : A -> A -> bool)
  (ok : A -> bool) (g : A -> B) (P : A -> Prop),
  (forall a b, P a -> P b -> ok a = true -> ok b = true -> eqb (g a) (g b) = key a b) ->
  forall (l seen : list A),
    (forall a, In a l -> P a) ->
    (forall a, In a seen -> P a /\ ok a = true) ->
    dedup_aux eqb (map g seen) (flat_map (fun a => if ok a then [g a] else []) l)
    = map g (dedup_aux key seen (filter ok l)).
Proof.
  intros A B eqb key ok g P Hc l. induction l as [|x l IH]; intros seen Hl Hseen; simpl.
  - reflexivity.
  - assert (Hl' : forall a, In a l -> P a) by (intros a Ha; apply Hl; right; exact Ha).
    destruct (ok x) eqn:Hok.
    + simpl.
      assert (Hex : existsb (eqb (g x)) (map g seen) = existsb (key x) seen).
      { clear IH. induction seen as [|y seen IHs]; simpl; [reflexivity|].
        destruct (Hseen y (or_introl eq_refl)) as [Py Hy].
        rewrite (Hc x y (Hl x (or_introl eq_refl)) Py Hok Hy). f_equal.
        apply IHs. intros a Ha. apply Hseen. right. exact Ha. }
      rewrite Hex. destruct (existsb (key x) seen).
      * apply IH; assumption.
      * simpl. f_equal. apply (IH (x :: seen)); [exact Hl'|].
        intros a [Ha|Ha]; [subst a; split; [apply Hl; left; reflexivity | exact Hok] | apply Hseen; exact Ha].
    + simpl. apply IH; assumption.
Qed.

Lemma dedup_join : forall {A B} (eqb : B -> B -> bool) (key : A -> A -> bool)
  (ok : A -> bool) (g : A -> B) (l : list A),
  (forall a b, In a l -> In b l -> ok a = true -> ok b = true -> eqb (g a) (g b) = key a b) ->
  dedup eqb (flat_map (fun a => if ok a then [g a] else []) l) = map g (dedup key (filter ok l)).
Proof.
  intros A B eqb key ok g l Hc. unfold dedup.
  apply (dedup_aux_join eqb key ok g (fun a => In a l) Hc l []).
  - intros a Ha. exact Ha.
  - intros a [].
Qed.

(* no two elements of the list are equal in the sense of [eqb] (later against earlier, which is
   the way first-occurrence de-duplication compares them) *)
Fixpoint nodupb {T} (eqb : T -> T -> bool) (l : list T) : bool :=
  match l with
  | [] => true
  | x :: r => negb (existsb (fun y => eqb y x) r) && nodupb eqb r
  end.

Lemma dedup_aux_nodupb : forall {T} (eqb : T -> T -> bool) (l seen : list T),
  nodupb eqb l = true ->
  (forall y, In y l -> existsb (eqb y) seen = false) ->
  dedup_aux eqb seen l = l.
Proof.
  intros T eqb l. induction l as [|x l IH]; intros seen Hnd Hseen; simpl.
  - reflexivity.
  - simpl in Hnd. apply andb_true_iff in Hnd. destruct Hnd as [Hx Hnd].
    rewrite (Hseen x (or_introl eq_refl)). f_equal. apply IH; [exact Hnd|].
    intros y Hy. simpl. rewrite (Hseen y (or_intror Hy)), orb_false_r.
    apply negb_true_iff in Hx.
    destruct (eqb y x) eqn:Hyx; [|reflexivity].
    exfalso. apply not_true_iff_false in Hx. apply Hx.
    apply existsb_exists. exists y. split; [exact Hy | exact Hyx].
Qed.
Lemma dedup_nodupb : forall {T} (eqb : T -> T -> bool) (l : list T),
  nodupb eqb l = true -> dedup eqb l = l.
Proof.
  intros T eqb l H. unfold dedup. apply dedup_aux_nodupb; [exact H|]. intros y _. reflexivity.
Qed.

Lemma wf_incr_NoDup : forall l, incrb l = true -> NoDup l.
Proof. intros l H. apply incr_NoDup. apply incrb_incr. exact H. Qed.

Lemma find_by_filter_unique : forall {T} (key : T -> Z) (p : T -> bool) (l : list T) (x : T),
  NoDup (map key l) -> In x (filter p l) -> find_by key (key x) l = Some x.
Proof.
  intros T key p l x Hnd Hin. apply filter_In in Hin. destruct Hin as [Hin _].
  apply find_by_unique; assumption.
Qed.

(* ================================================================== metadata *)
(* what _export_metadata returns for a metadata column:  json.loads(text) or {}  *)
Definition meta_val (mt : mtab) (o : option str) : val :=
  let v := meta_cell mt o in if vtruthy v then v else VDict [].

Definition fetch_meta {T} (mt : mtab) (key : T -> Z) (m : T -> option str) (rowid : Z) (l : list T)
  : res val :=
  match find_by key rowid l with
  | Some r => Ok (meta_val mt (m r))
  | None => OtherError
  end.

Lemma get_metadata_lexicons : forall d mt rowid,
  get_metadata d mt rowid (K "lexicons") = fetch_meta mt lex_rowid lex_metadata rowid (t_lexicons d).
Proof. reflexivity. Qed.
Lemma get_metadata_senses : forall d mt rowid,
  get_metadata d mt rowid s_senses = fetch_meta mt se_rowid se_metadata rowid (t_senses d).
Proof. reflexivity. Qed.
Lemma get_metadata_synsets : forall d mt rowid,
  get_metadata d mt rowid s_synsets = fetch_meta mt sy_rowid sy_metadata rowid (t_synsets d).
Proof. reflexivity. Qed.
Lemma get_metadata_sense_examples : forall d mt rowid,
  get_metadata d mt rowid (removelast s_senses ++ K "_examples")
  = fetch_meta mt ex_rowid ex_metadata rowid (t_sense_examples d).
Proof. reflexivity. Qed.
Lemma get_metadata_synset_examples : forall d mt rowid,
  get_metadata d mt rowid (removelast s_synsets ++ K "_examples")
  = fetch_meta mt ex_rowid ex_metadata rowid (t_synset_examples d).
Proof. reflexivity. Qed.
Lemma get_metadata_counts : forall d mt rowid,
  get_metadata d mt rowid (K "counts") = fetch_meta mt ct_rowid ct_metadata rowid (t_counts d).
Proof. reflexivity. Qed.
Lemma get_metadata_definitions : forall d mt rowid,
  get_metadata d mt rowid (K "definitions") = fetch_meta mt df_rowid df_metadata rowid (t_definitions d).
Proof. reflexivity. Qed.
Lemma get_metadata_proposed_ilis : forall d mt rowid,
  get_metadata d mt rowid (K "proposed_ilis")
  = fetch_meta mt pi_rowid pi_metadata rowid (t_proposed_ilis d).
Proof. reflexivity. Qed.

Lemma fetch_meta_unique : forall {T} mt (key : T -> Z) (m : T -> option str) (l : list T) (x : T),
  NoDup (map key l) -> In x l -> fetch_meta mt key m (key x) l = Ok (meta_val mt (m x)).
Proof.
  intros T mt key m l x Hnd Hin. unfold fetch_meta. rewrite (find_by_unique key l x Hnd Hin). reflexivity.
Qed.

(* ================================================================== the rows of the senses query *)
Definition sense_q (d : db) (s : sense_row) : q_sense :=
  {| qs_id := se_id s;
     qs_entry_id := match find_by en_rowid (se_entry_rowid s) (t_entries d) with
                    | Some e => en_id e | None => [] end;
     qs_synset_id := match find_by sy_rowid (se_synset_rowid s) (t_synsets d) with
                     | Some ss => sy_id ss | None => [] end;
     qs_lexid := se_lexicon_rowid s; qs_rowid := se_rowid s |}.

Lemma sense_columns_q : forall d s q e ss, sense_columns d s = Some (q, e, ss) -> q = sense_q d s.
Proof.
  intros d s q e ss H. unfold sense_columns in H. unfold sense_q.
  destruct (find_by en_rowid (se_entry_rowid s) (t_entries d)) as [e'|]; [|discriminate].
  destruct (find_by sy_rowid (se_synset_rowid s) (t_synsets d)) as [ss'|]; [|discriminate].
  injection H as <- _ _. reflexivity.
Qed.

Lemma senses_join_q : forall d (l : list sense_row),
  flat_map (fun s => match sense_columns d s with Some (q, _, _) => [q] | None => [] end) l
  = map (sense_q d) (filter (sense_ok d) l).
Proof.
  intros d l. induction l as [|s l IH]; [reflexivity|].
  simpl. unfold sense_ok at 1. destruct (sense_columns d s) as [[[q e] ss]|] eqn:Hc.
  - simpl. rewrite (sense_columns_q _ _ _ _ _ Hc), IH. reflexivity.
  - simpl. exact IH.
Qed.

Lemma get_entry_senses_rows : forall d r e,
  get_entry_senses d (en_rowid e) [r] = map (sense_q d) (entry_senses d r e).
Proof.
  intros d r e. unfold get_entry_senses, _get_senses, entry_senses, senses_by.
  rewrite senses_join_q. do 3 f_equal. apply filter_ext. intro s. rewrite z_in_single. reflexivity.
Qed.

(* every exported sense is the export of a sense row of its entry, in entry_rank order *)
Lemma exported_senses_Forall2 : forall d mt lex ver v,
  wf_entry_rowids d = true ->
  _export_lexicon d mt lex ver = Ok v ->
  Forall2 (fun e ev =>
     Forall2 (fun s sv =>
                _export_sense d mt [lex_rowid lex]
                  (make_sbmap (find_syntactic_behaviours d [lex_rowid lex])) (ge_1_1 ver)
                  (sense_q d s) = Ok sv)
             (entry_senses d (lex_rowid lex) e) (vlist ev (K "senses")))
    (exported_entries d (lex_rowid lex)) (vlist v (K "entries")).
Proof.
  intros d mt lex ver v Hwf H.
  pose proof (exported_entries_Forall2 d mt lex ver v Hwf H) as HF.
  apply (Forall2_impl (fun e ev =>
             _export_entry d mt [lex_rowid lex]
               (make_sbmap (find_syntactic_behaviours d [lex_rowid lex])) (ge_1_1 ver)
               (word_of e (entry_forms d e)) = Ok ev)); [|exact HF].
  intros e ev _ _ He. apply export_entry_fields in He.
  destruct He as [_ [_ [_ [_ [Hs _]]]]]. simpl qw_rowid in Hs.
  unfold _export_senses in Hs. rewrite get_entry_senses_rows in Hs.
  apply mapM_Forall2 in Hs. apply Forall2_map_l in Hs. exact Hs.
Qed.

Lemma entry_senses_In : forall d r e s,
  In s (entry_senses d r e) -> In s (t_senses d) /\ sense_ok d s = true.
Proof.
  intros d r e s H. split; [apply (E2_senses_only d r e s H)|].
  unfold entry_senses, senses_by in H. apply filter_In in H. apply H.
Qed.

(* ================================================================== examples, counts *)
(* WHERE {prefix}_rowid = owner AND lexicon_rowid IN (r): only the examples the exported lexicon
   itself contributed; an extension's examples on the same sense / synset are not selected *)
Definition examples_of (t : list example_row) (r owner : Z) : list example_row :=
  filter (fun x => Z.eqb (ex_owner_rowid x) owner && Z.eqb (ex_lexicon_rowid x) r) t.
Definition example_val (mt : mtab) (x : example_row) : val :=
  VDict [(K "text", vos (ex_example x)); (K "language", vos (ex_language x));
         (K "meta", meta_val mt (ex_metadata x))].

Lemma get_examples_senses : forall d owner r,
  get_examples d owner s_senses [r]
  = Ok (map (fun x => (ex_example x, ex_language x, ex_rowid x)) (examples_of (t_sense_examples d) r owner)).
Proof.
  intros d owner r. unfold get_examples. change (str_eqb s_senses s_senses) with true. cbv iota.
  unfold examples_of. do 2 f_equal. apply filter_ext. intro x. rewrite z_in_single. reflexivity.
Qed.
Lemma get_examples_synsets : forall d owner r,
  get_examples d owner s_synsets [r]
  = Ok (map (fun x => (ex_example x, ex_language x, ex_rowid x)) (examples_of (t_synset_examples d) r owner)).
Proof.
  intros d owner r. unfold get_examples. change (str_eqb s_synsets s_senses) with false.
  change (str_eqb s_synsets s_synsets) with true. cbv iota.
  unfold examples_of. do 2 f_equal. apply filter_ext. intro x. rewrite z_in_single. reflexivity.
Qed.

Lemma export_examples_senses : forall d mt r owner,
  NoDup (map ex_rowid (t_sense_examples d)) ->
  _export_examples d mt owner s_senses [r]
  = Ok (map (example_val mt) (examples_of (t_sense_examples d) r owner)).
Proof.
  intros d mt r owner Hnd. unfold _export_examples. rewrite get_examples_senses. unfold bind at 1.
  apply mapM_map_Ok. intros x Hx. cbv beta iota. unfold _export_metadata.
  rewrite get_metadata_sense_examples.
  apply filter_In in Hx. destruct Hx as [Hx _].
  rewrite (fetch_meta_unique mt ex_rowid ex_metadata _ x Hnd Hx). reflexivity.
Qed.
Lemma export_examples_synsets : forall d mt r owner,
  NoDup (map ex_rowid (t_synset_examples d)) ->
  _export_examples d mt owner s_synsets [r]
  = Ok (map (example_val mt) (examples_of (t_synset_examples d) r owner)).
Proof.
  intros d mt r owner Hnd. unfold _export_examples. rewrite get_examples_synsets. unfold bind at 1.
  apply mapM_map_Ok. intros x Hx. cbv beta iota. unfold _export_metadata.
  rewrite get_metadata_synset_examples.
  apply filter_In in Hx. destruct Hx as [Hx _].
  rewrite (fetch_meta_unique mt ex_rowid ex_metadata _ x Hnd Hx). reflexivity.
Qed.

(* WHERE sense_rowid = ? AND lexicon_rowid IN (r) *)
Definition counts_of (d : db) (r sense_rowid : Z) : list count_row :=
  filter (fun c => Z.eqb (ct_sense_rowid c) sense_rowid && Z.eqb (ct_lexicon_rowid c) r) (t_counts d).
Definition count_val (mt : mtab) (c : count_row) : val :=
  VDict [(K "value", VInt (ct_count c)); (K "meta", meta_val mt (ct_metadata c))].

Lemma export_counts_rows : forall d mt r rowid,
  NoDup (map ct_rowid (t_counts d)) ->
  _export_counts d mt rowid [r] = Ok (map (count_val mt) (counts_of d r rowid)).
Proof.
  intros d mt r rowid Hnd. unfold _export_counts, get_sense_counts.
  rewrite (filter_ext _ (fun c => Z.eqb (ct_sense_rowid c) rowid && Z.eqb (ct_lexicon_rowid c) r));
    [|intro c; rewrite z_in_single; reflexivity].
  apply mapM_map_Ok. intros c Hc. cbv beta iota. unfold _export_metadata.
  rewrite get_metadata_counts.
  apply filter_In in Hc. destruct Hc as [Hc _].
  rewrite (fetch_meta_unique mt ct_rowid ct_metadata _ c Hnd Hc). reflexivity.
Qed.

(* ================================================================== relations *)
(* WHERE source_rowid = src AND lexicon_rowid IN (r): the relation rows the exported lexicon
   itself contributed for that source *)
Definition rels_from (t : list relation_row) (r src : Z) : list relation_row :=
  filter (fun rl => Z.eqb (rl_source_rowid rl) src && Z.eqb (rl_lexicon_rowid rl) r) t.

(* JOIN rt ON srel.type_rowid = rt.rowid *)
Definition rel_type_ok (d : db) (rl : relation_row) : bool :=
  match find_by rt_rowid (rl_type_rowid rl) (t_relation_types d) with Some _ => true | None => false end.
Definition rel_type_name (d : db) (rl : relation_row) : str :=
  match find_by rt_rowid (rl_type_rowid rl) (t_relation_types d) with
  | Some t => rt_type t | None => [] end.

(* JOIN senses AS s ON s.rowid = rel.target_rowid AND s.lexicon_rowid IN (r) JOIN entries JOIN synsets *)
Definition target_sense (d : db) (rl : relation_row) : option sense_row :=
  find_by se_rowid (rl_target_rowid rl) (t_senses d).
Definition srel_ok (d : db) (r : Z) (rl : relation_row) : bool :=
  rel_type_ok d rl
  && match target_sense d rl with
     | Some s => Z.eqb (se_lexicon_rowid s) r && sense_ok d s
     | None => false
     end.
(* JOIN synsets AS tgt ON tgt.rowid = rel.target_rowid AND tgt.lexicon_rowid IN (r) *)
Definition target_synset (d : db) (rl : relation_row) : option synset_row :=
  find_by sy_rowid (rl_target_rowid rl) (t_synsets d).
Definition yrel_ok (d : db) (r : Z) (rl : relation_row) : bool :=
  rel_type_ok d rl
  && match target_synset d rl with
     | Some t => Z.eqb (sy_lexicon_rowid t) r
     | None => false
     end.

(* SELECT DISTINCT: two rows of one source with the same type name, the same metadata text and the
   same target are one row of the result *)
Definition rel_key_eqb (d : db) (a b : relation_row) : bool :=
  str_eqb (rel_type_name d a) (rel_type_name d b)
  && ostr_eqb (rl_metadata a) (rl_metadata b)
  && Z.eqb (rl_target_rowid a) (rl_target_rowid b).

(* the relation rows export sees for a source *)
Definition selected_rels (d : db) (ok : relation_row -> bool) (t : list relation_row) (r src : Z)
  : list relation_row :=
  dedup (rel_key_eqb d) (filter ok (rels_from t r src)).

Definition target_sense_id (d : db) (rl : relation_row) : str :=
  match target_sense d rl with Some s => se_id s | None => [] end.
Definition target_synset_id (d : db) (rl : relation_row) : str :=
  match target_synset d rl with Some t => sy_id t | None => [] end.
Definition srel_val (d : db) (mt : mtab) (rl : relation_row) : val :=
  relation_val (target_sense_id d rl) (rel_type_name d rl) (meta_cell mt (rl_metadata rl)).
Definition yrel_val (d : db) (mt : mtab) (rl : relation_row) : val :=
  relation_val (target_synset_id d rl) (rel_type_name d rl) (meta_cell mt (rl_metadata rl)).

Lemma rel_subquery_single : forall d t src r,
  rel_subquery d t [src] [c_star_s] [r]
  = flat_map (fun srel =>
      match find_by rt_rowid (rl_type_rowid srel) (t_relation_types d),
            find_by lex_rowid (rl_lexicon_rowid srel) (t_lexicons d) with
      | Some ty, Some lx =>
          [(rt_type ty, lexicon_specifier lx, rl_metadata srel, rl_source_rowid srel, rl_target_rowid srel)]
      | _, _ => []
      end) (rels_from t r src).
Proof.
  intros d t src r. unfold rel_subquery. change (rt d [c_star_s]) with (t_relation_types d).
  f_equal. unfold rels_from.
  rewrite (filter_ext _ (fun rl => Z.eqb (rl_source_rowid rl) src && Z.eqb (rl_lexicon_rowid rl) r));
    [|intro a; rewrite !z_in_single; reflexivity].
  unfold sort_by_z. apply stable_sort_const. intros x y Hx Hy.
  apply filter_In in Hx. destruct Hx as [_ Hx]. apply andb_true_iff in Hx. destruct Hx as [Hx _].
  apply filter_In in Hy. destruct Hy as [_ Hy]. apply andb_true_iff in Hy. destruct Hy as [Hy _].
  apply Z.eqb_eq in Hx. apply Z.eqb_eq in Hy. rewrite Hx, Hy. apply Z.leb_refl.
Qed.

Lemma rels_from_In : forall t r src rl,
  In rl (rels_from t r src) -> In rl t /\ rl_source_rowid rl = src /\ rl_lexicon_rowid rl = r.
Proof.
  intros t r src rl H. unfold rels_from in H. apply filter_In in H. destruct H as [H1 H2].
  apply andb_true_iff in H2. destruct H2 as [H2 H3]. apply Z.eqb_eq in H2. apply Z.eqb_eq in H3. auto.
Qed.

Lemma ostr_eqb_refl : forall a, ostr_eqb a a = true.
Proof. intros [a|]; simpl; [apply str_eqb_refl | reflexivity]. Qed.
Lemma q_sense_eqb_refl : forall q, q_sense_eqb q q = true.
Proof. intro q. unfold q_sense_eqb. rewrite !str_eqb_refl, !Z.eqb_refl. reflexivity. Qed.
Lemma q_synset_eqb_refl : forall q, q_synset_eqb q q = true.
Proof. intro q. unfold q_synset_eqb. rewrite str_eqb_refl, !ostr_eqb_refl, !Z.eqb_refl. reflexivity. Qed.

Definition dummy_q_sense : q_sense :=
  {| qs_id := []; qs_entry_id := []; qs_synset_id := []; qs_lexid := 0; qs_rowid := 0 |}.
Definition srel_q (d : db) (lx : lexicon_row) (rl : relation_row) : q_sense_relation :=
  {| qsr_name := rel_type_name d rl; qsr_lexicon := lexicon_specifier lx;
     qsr_metadata := rl_metadata rl;
     qsr_sense := match target_sense d rl with Some s => sense_q d s | None => dummy_q_sense end |}.

Lemma srel_q_key : forall d r lx a b,
  srel_ok d r a = true -> srel_ok d r b = true ->
  q_sense_relation_eqb (srel_q d lx a) (srel_q d lx b) = rel_key_eqb d a b.
Proof.
  intros d r lx a b Ha Hb. unfold q_sense_relation_eqb, srel_q, rel_key_eqb.
  cbn [qsr_name qsr_lexicon qsr_metadata qsr_sense].
  rewrite str_eqb_refl, andb_true_r. f_equal.
  unfold srel_ok in Ha, Hb.
  apply andb_true_iff in Ha. destruct Ha as [_ Ha]. apply andb_true_iff in Hb. destruct Hb as [_ Hb].
  unfold target_sense in *.
  destruct (find_by se_rowid (rl_target_rowid a) (t_senses d)) as [sa|] eqn:Hsa; [|discriminate].
  destruct (find_by se_rowid (rl_target_rowid b) (t_senses d)) as [sb|] eqn:Hsb; [|discriminate].
  destruct (Z.eqb (rl_target_rowid a) (rl_target_rowid b)) eqn:E.
  - apply Z.eqb_eq in E. rewrite E in Hsa. rewrite Hsa in Hsb. injection Hsb as <-.
    apply q_sense_eqb_refl.
  - apply find_by_In in Hsa. destruct Hsa as [_ Hsa]. apply find_by_In in Hsb. destruct Hsb as [_ Hsb].
    unfold q_sense_eqb, sense_q. cbn [qs_rowid]. rewrite Hsa, Hsb, E. apply andb_false_r.
Qed.

(* get_sense_relations(source, '*', lexicon_rowids=(r,)) in terms of table rows *)
Lemma get_sense_relations_rows : forall d src r lx,
  find_by lex_rowid r (t_lexicons d) = Some lx ->
  get_sense_relations d src [c_star_s] [r]
  = Ok (map (srel_q d lx) (selected_rels d (srel_ok d r) (t_sense_relations d) r src)).
Proof.
  intros d src r lx Hlx. unfold get_sense_relations.
  change (negb (nonempty [r])) with false. cbv iota. f_equal.
  rewrite rel_subquery_single, flat_map_comp.
  rewrite (flat_map_ext_in _ (fun a => if srel_ok d r a then [srel_q d lx a] else [])).
  - unfold selected_rels. apply dedup_join. intros a b _ _ Ha Hb. apply (srel_q_key d r lx a b Ha Hb).
  - intros rl Hrl. apply rels_from_In in Hrl. destruct Hrl as [_ [_ Hlex]].
    rewrite Hlex, Hlx. unfold srel_ok, rel_type_ok, srel_q, rel_type_name, target_sense.
    destruct (find_by rt_rowid (rl_type_rowid rl) (t_relation_types d)) as [ty|]; [|reflexivity].
    cbn [flat_map app andb].
    destruct (find_by se_rowid (rl_target_rowid rl) (t_senses d)) as [s|]; [|reflexivity].
    rewrite z_in_single. destruct (Z.eqb (se_lexicon_rowid s) r); [|reflexivity].
    unfold sense_ok. destruct (sense_columns d s) as [[[q e] ss]|] eqn:Hc; [|reflexivity].
    rewrite (sense_columns_q _ _ _ _ _ Hc). reflexivity.
Qed.

Definition dummy_q_synset : q_synset :=
  {| qy_id := []; qy_pos := None; qy_ili := None; qy_lexid := 0; qy_rowid := 0 |}.
Definition yrel_q (d : db) (lx : lexicon_row) (rl : relation_row) : q_synset_relation :=
  {| qyr_name := rel_type_name d rl; qyr_lexicon := lexicon_specifier lx;
     qyr_metadata := rl_metadata rl; qyr_src_rowid := rl_source_rowid rl;
     qyr_synset := match target_synset d rl with
                   | Some t => synset_columns d t | None => dummy_q_synset end |}.

Lemma yrel_q_key : forall d r lx a b,
  rl_source_rowid a = rl_source_rowid b ->
  yrel_ok d r a = true -> yrel_ok d r b = true ->
  q_synset_relation_eqb (yrel_q d lx a) (yrel_q d lx b) = rel_key_eqb d a b.
Proof.
  intros d r lx a b Hsrc Ha Hb. unfold q_synset_relation_eqb, yrel_q, rel_key_eqb.
  cbn [qyr_name qyr_lexicon qyr_metadata qyr_src_rowid qyr_synset].
  rewrite Hsrc, Z.eqb_refl, str_eqb_refl, !andb_true_r. f_equal.
  unfold yrel_ok in Ha, Hb.
  apply andb_true_iff in Ha. destruct Ha as [_ Ha]. apply andb_true_iff in Hb. destruct Hb as [_ Hb].
  unfold target_synset in *.
  destruct (find_by sy_rowid (rl_target_rowid a) (t_synsets d)) as [ta|] eqn:Hta; [|discriminate].
  destruct (find_by sy_rowid (rl_target_rowid b) (t_synsets d)) as [tb|] eqn:Htb; [|discriminate].
  destruct (Z.eqb (rl_target_rowid a) (rl_target_rowid b)) eqn:E.
  - apply Z.eqb_eq in E. rewrite E in Hta. rewrite Hta in Htb. injection Htb as <-.
    apply q_synset_eqb_refl.
  - apply find_by_In in Hta. destruct Hta as [_ Hta]. apply find_by_In in Htb. destruct Htb as [_ Htb].
    unfold q_synset_eqb, synset_columns. cbn [qy_rowid]. rewrite Hta, Htb, E. apply andb_false_r.
Qed.

(* get_synset_relations / get_sense_synset_relations for one source in terms of table rows *)
Lemma synset_target_query_rows : forall d t src r lx,
  find_by lex_rowid r (t_lexicons d) = Some lx ->
  synset_target_query d t [src] [c_star_s] [r]
  = Ok (map (yrel_q d lx) (selected_rels d (yrel_ok d r) t r src)).
Proof.
  intros d t src r lx Hlx. unfold synset_target_query.
  change (negb (nonempty [r])) with false. cbv iota. f_equal.
  rewrite rel_subquery_single, flat_map_comp.
  rewrite (flat_map_ext_in _ (fun a => if yrel_ok d r a then [yrel_q d lx a] else [])).
  - unfold selected_rels. apply dedup_join. intros a b Hina Hinb Ha Hb.
    apply rels_from_In in Hina. destruct Hina as [_ [Hsa _]].
    apply rels_from_In in Hinb. destruct Hinb as [_ [Hsb _]].
    apply (yrel_q_key d r lx a b); [congruence | exact Ha | exact Hb].
  - intros rl Hrl. apply rels_from_In in Hrl. destruct Hrl as [_ [_ Hlex]].
    rewrite Hlex, Hlx. unfold yrel_ok, rel_type_ok, yrel_q, rel_type_name, target_synset.
    destruct (find_by rt_rowid (rl_type_rowid rl) (t_relation_types d)) as [ty|]; [|reflexivity].
    cbn [flat_map app andb].
    destruct (find_by sy_rowid (rl_target_rowid rl) (t_synsets d)) as [tg|]; [|reflexivity].
    rewrite z_in_single. destruct (Z.eqb (sy_lexicon_rowid tg) r); reflexivity.
Qed.

Lemma export_sense_relations_rows : forall d mt src r lx,
  find_by lex_rowid r (t_lexicons d) = Some lx ->
  _export_sense_relations d mt src [r]
  = Ok (map (srel_val d mt) (selected_rels d (srel_ok d r) (t_sense_relations d) r src)
        ++ map (yrel_val d mt) (selected_rels d (yrel_ok d r) (t_sense_synset_relations d) r src)).
Proof.
  intros d mt src r lx Hlx. unfold _export_sense_relations, get_sense_synset_relations.
  rewrite (get_sense_relations_rows d src r lx Hlx), (synset_target_query_rows d _ src r lx Hlx).
  unfold bind. rewrite !map_map. f_equal. f_equal.
  - apply map_ext. intro rl. unfold srel_val, srel_q, target_sense_id. cbn [qsr_name qsr_metadata qsr_sense].
    destruct (target_sense d rl); reflexivity.
  - apply map_ext. intro rl. unfold yrel_val, yrel_q, target_synset_id. cbn [qyr_name qyr_metadata qyr_synset].
    destruct (target_synset d rl); reflexivity.
Qed.

Lemma export_synset_relations_rows : forall d mt src r lx,
  find_by lex_rowid r (t_lexicons d) = Some lx ->
  _export_synset_relations d mt src [r]
  = Ok (map (yrel_val d mt) (selected_rels d (yrel_ok d r) (t_synset_relations d) r src)).
Proof.
  intros d mt src r lx Hlx. unfold _export_synset_relations, get_synset_relations.
  rewrite (synset_target_query_rows d _ src r lx Hlx).
  unfold bind. rewrite map_map. f_equal.
  apply map_ext. intro rl. unfold yrel_val, yrel_q, target_synset_id. cbn [qyr_name qyr_metadata qyr_synset].
  destruct (target_synset d rl); reflexivity.
Qed.

(* ================================================================== the lexicon row of a successful export *)
Lemma export_lexicon_row : forall d mt lex ver v,
  _export_lexicon d mt lex ver = Ok v ->
  exists lx, find_by lex_rowid (lex_rowid lex) (t_lexicons d) = Some lx
             /\ vget v (K "meta") = meta_val mt (lex_metadata lx).
Proof.
  intros d mt lex ver v H. unfold _export_lexicon in H. cbv zeta in H. binds H.
  injection H as <-. unfold _export_metadata in Hx1. rewrite get_metadata_lexicons in Hx1.
  unfold fetch_meta in Hx1.
  destruct (find_by lex_rowid (lex_rowid lex) (t_lexicons d)) as [lx|]; [|discriminate].
  exists lx. split; [reflexivity|]. injection Hx1 as <-. reflexivity.
Qed.

(* ================================================================== E8: senses *)
(* if rowid == NON_ROWID: return False *)
Definition lexicalized_of (rowid : Z) (flag : bool) : bool :=
  if Z.eqb rowid NON_ROWID then false else flag.
Lemma lexicalized_of_nz : forall rowid flag, rowid <> 0 -> lexicalized_of rowid flag = flag.
Proof.
  intros rowid flag H. unfold lexicalized_of, NON_ROWID.
  destruct (Z.eqb rowid 0) eqn:E; [apply Z.eqb_eq in E; contradiction | reflexivity].
Qed.

Lemma get_lexicalized_senses : forall d rowid,
  get_lexicalized d rowid s_senses
  = if Z.eqb rowid NON_ROWID then Ok false
    else match find_by se_rowid rowid (t_senses d) with
         | Some s => Ok (se_lexicalized s) | None => OtherError end.
Proof. reflexivity. Qed.
Lemma get_lexicalized_synsets : forall d rowid,
  get_lexicalized d rowid s_synsets
  = if Z.eqb rowid NON_ROWID then Ok false
    else match find_by sy_rowid rowid (t_synsets d) with
         | Some ss => Ok (sy_lexicalized ss) | None => OtherError end.
Proof. reflexivity. Qed.

(* SELECT adjposition FROM adjpositions WHERE sense_rowid = ?  -- first row, '' without one;
   no lexicon filter *)
Definition adjposition_of (d : db) (s : sense_row) : str :=
  match filter (fun a => Z.eqb (aj_sense_rowid a) (se_rowid s)) (t_adjpositions d) with
  | a :: _ => aj_adjposition a
  | [] => []
  end.

Definition sense_relations_of (d : db) (r : Z) (s : sense_row) : list relation_row :=
  selected_rels d (srel_ok d r) (t_sense_relations d) r (se_rowid s).
Definition sense_synset_relations_of (d : db) (r : Z) (s : sense_row) : list relation_row :=
  selected_rels d (yrel_ok d r) (t_sense_synset_relations d) r (se_rowid s).

Lemma export_sense_parts : forall d mt lexids sbmap v11 q sv,
  _export_sense d mt lexids sbmap v11 q = Ok sv ->
  (exists l, _export_sense_relations d mt (qs_rowid q) lexids = Ok l /\ vget sv (K "relations") = VList l)
  /\ (exists l, _export_examples d mt (qs_rowid q) s_senses lexids = Ok l /\ vget sv (K "examples") = VList l)
  /\ (exists l, _export_counts d mt (qs_rowid q) lexids = Ok l /\ vget sv (K "counts") = VList l)
  /\ (exists b, get_lexicalized d (qs_rowid q) s_senses = Ok b /\ vget sv (K "lexicalized") = VBool b)
  /\ vget sv (K "adjposition") = vor (get_adjposition d (qs_rowid q))
  /\ (exists m, _export_metadata d mt (qs_rowid q) s_senses = Ok m /\ vget sv (K "meta") = m).
Proof.
  intros d mt lexids sbmap v11 q sv H. unfold _export_sense in H. cbv zeta in H. binds H.
  injection H as <-.
  split; [exists x; split; [exact Hx | reflexivity]|].
  split; [exists x0; split; [exact Hx0 | reflexivity]|].
  split; [exists x1; split; [exact Hx1 | reflexivity]|].
  split; [exists x2; split; [exact Hx2 | reflexivity]|].
  split; [reflexivity|].
  exists x3. split; [exact Hx3 | reflexivity].
Qed.

(* the tables are in rowid order with distinct rowids *)
Definition wf_sense_example_rowids (d : db) : bool := incrb (map ex_rowid (t_sense_examples d)).
Definition wf_synset_example_rowids (d : db) : bool := incrb (map ex_rowid (t_synset_examples d)).
Definition wf_count_rowids (d : db) : bool := incrb (map ct_rowid (t_counts d)).
Definition wf_definition_rowids (d : db) : bool := incrb (map df_rowid (t_definitions d)).
Definition wf_proposed_ili_rowids (d : db) : bool := incrb (map pi_rowid (t_proposed_ilis d)).

(* E8: what is exported for a sense row s of the lexicon with rowid r *)
Definition sense_rel (d : db) (mt : mtab) (r : Z) (s : sense_row) (sv : val) : Prop :=
  vget sv (K "id") = VStr (se_id s)
  /\ (exists ss, find_by sy_rowid (se_synset_rowid s) (t_synsets d) = Some ss
                 /\ vget sv (K "synset") = VStr (sy_id ss))
  /\ vget sv (K "lexicalized") = VBool (lexicalized_of (se_rowid s) (se_lexicalized s))
  /\ vget sv (K "adjposition") = VStr (adjposition_of d s)
  /\ vget sv (K "meta") = meta_val mt (se_metadata s)
  /\ vget sv (K "examples")
     = VList (map (example_val mt) (examples_of (t_sense_examples d) r (se_rowid s)))
  /\ vget sv (K "counts") = VList (map (count_val mt) (counts_of d r (se_rowid s)))
  /\ vget sv (K "relations")
     = VList (map (srel_val d mt) (sense_relations_of d r s)
              ++ map (yrel_val d mt) (sense_synset_relations_of d r s)).

Lemma export_sense_rel : forall d mt r lx sbmap v11 s sv,
  wf_sense_rowids d = true -> wf_sense_example_rowids d = true -> wf_count_rowids d = true ->
  find_by lex_rowid r (t_lexicons d) = Some lx ->
  In s (t_senses d) -> sense_ok d s = true ->
  _export_sense d mt [r] sbmap v11 (sense_q d s) = Ok sv ->
  sense_rel d mt r s sv.
Proof.
  intros d mt r lx sbmap v11 s sv Hw1 Hw2 Hw3 Hlx Hs Hok H.
  apply wf_incr_NoDup in Hw1. apply wf_incr_NoDup in Hw2. apply wf_incr_NoDup in Hw3.
  pose proof (export_sense_fields _ _ _ _ _ _ _ H) as [Hid [Hsyn _]].
  apply export_sense_parts in H. cbn [sense_q qs_rowid] in H.
  destruct H as [[rels [Hrels Vrels]] [[exs [Hexs Vexs]] [[cts [Hcts Vcts]]
                 [[b [Hb Vb]] [Vadj [m [Hm Vm]]]]]]].
  unfold sense_rel. split; [exact Hid|]. split.
  { unfold sense_ok, sense_columns in Hok. cbn [sense_q qs_synset_id] in Hsyn.
    destruct (find_by en_rowid (se_entry_rowid s) (t_entries d)); [|discriminate].
    destruct (find_by sy_rowid (se_synset_rowid s) (t_synsets d)) as [ss|]; [|discriminate].
    exists ss. split; [reflexivity | exact Hsyn]. }
  split.
  { rewrite Vb. f_equal. rewrite get_lexicalized_senses in Hb. unfold lexicalized_of.
    destruct (Z.eqb (se_rowid s) NON_ROWID).
    - injection Hb as <-. reflexivity.
    - rewrite (find_by_unique se_rowid _ s Hw1 Hs) in Hb. injection Hb as <-. reflexivity. }
  split.
  { rewrite Vadj. unfold get_adjposition, adjposition_of, vor.
    destruct (filter (fun a => Z.eqb (aj_sense_rowid a) (se_rowid s)) (t_adjpositions d)); reflexivity. }
  split.
  { rewrite Vm. unfold _export_metadata in Hm. rewrite get_metadata_senses in Hm.
    rewrite (fetch_meta_unique mt se_rowid se_metadata _ s Hw1 Hs) in Hm. injection Hm as <-. reflexivity. }
  split.
  { rewrite Vexs. rewrite (export_examples_senses d mt r _ Hw2) in Hexs. injection Hexs as <-. reflexivity. }
  split.
  { rewrite Vcts. rewrite (export_counts_rows d mt r _ Hw3) in Hcts. injection Hcts as <-. reflexivity. }
  rewrite Vrels. rewrite (export_sense_relations_rows d mt _ r lx Hlx) in Hrels.
  injection Hrels as <-. reflexivity.
Qed.

Theorem E8_senses : forall d mt lex ver v,
  wf_entry_rowids d = true -> wf_sense_rowids d = true ->
  wf_sense_example_rowids d = true -> wf_count_rowids d = true ->
  _export_lexicon d mt lex ver = Ok v ->
  Forall2 (fun e ev =>
             Forall2 (sense_rel d mt (lex_rowid lex))
                     (entry_senses d (lex_rowid lex) e) (vlist ev (K "senses")))
          (exported_entries d (lex_rowid lex)) (vlist v (K "entries")).
Proof.
  intros d mt lex ver v Hw0 Hw1 Hw2 Hw3 H.
  destruct (export_lexicon_row d mt lex ver v H) as [lx [Hlx _]].
  pose proof (exported_senses_Forall2 d mt lex ver v Hw0 H) as HF.
  refine (Forall2_impl _ _ _ _ _ HF). intros e ev _ _ He.
  refine (Forall2_impl _ _ _ _ _ He). intros s sv Hs _ Hsv.
  apply entry_senses_In in Hs. destruct Hs as [Hs Hok].
  apply (export_sense_rel d mt (lex_rowid lex) lx _ _ s sv Hw1 Hw2 Hw3 Hlx Hs Hok Hsv).
Qed.

(* ================================================================== E9: synsets *)
(* WHERE d.synset_rowid = ? AND d.lexicon_rowid IN (r) *)
Definition definitions_of (d : db) (r : Z) (ss : synset_row) : list definition_row :=
  filter (fun x => Z.eqb (df_synset_rowid x) (sy_rowid ss) && Z.eqb (df_lexicon_rowid x) r)
         (t_definitions d).
(* (SELECT s.id FROM senses AS s WHERE s.rowid = d.sense_rowid) *)
Definition source_sense_id (d : db) (x : definition_row) : option str :=
  match ofind_by se_rowid (df_sense_rowid x) (t_senses d) with
  | Some s => Some (se_id s) | None => None end.
Definition definition_val (d : db) (mt : mtab) (x : definition_row) : val :=
  VDict [(K "text", vos (df_definition x)); (K "language", vos (df_language x));
         (K "sourceSense", vos (source_sense_id d x)); (K "meta", meta_val mt (df_metadata x))].

Lemma export_definitions_rows : forall d mt r ss,
  NoDup (map df_rowid (t_definitions d)) ->
  _export_definitions d mt (sy_rowid ss) [r] = Ok (map (definition_val d mt) (definitions_of d r ss)).
Proof.
  intros d mt r ss Hnd. unfold _export_definitions, get_definitions.
  rewrite (filter_ext _ (fun x => Z.eqb (df_synset_rowid x) (sy_rowid ss) && Z.eqb (df_lexicon_rowid x) r));
    [|intro x; rewrite z_in_single; reflexivity].
  apply mapM_map_Ok. intros x Hx. cbv beta iota. unfold _export_metadata.
  rewrite get_metadata_definitions.
  apply filter_In in Hx. destruct Hx as [Hx _].
  rewrite (fetch_meta_unique mt df_rowid df_metadata _ x Hnd Hx). reflexivity.
Qed.

(* SELECT lf.name FROM lexfiles AS lf JOIN synsets AS ss ON ss.lexfile_rowid = lf.rowid *)
Definition lexfile_of (d : db) (ss : synset_row) : str :=
  match ofind_by lf_rowid (sy_lexfile_rowid ss) (t_lexfiles d) with
  | Some lf => lf_name lf | None => [] end.

(* the proposed_ilis rows of a synset (no lexicon filter) *)
Definition proposed_of (d : db) (ss : synset_row) : list proposed_ili_row :=
  filter (fun p => oz_is (pi_synset_rowid p) (sy_rowid ss)) (t_proposed_ilis d).
(* the ILI definition export writes: that of the FIRST proposed_ilis row, when it is not empty *)
Definition ili_definition_of (d : db) (mt : mtab) (ss : synset_row) : option val :=
  match proposed_of d ss with
  | p :: _ => if truthy (pi_definition p)
              then Some (VDict [(K "text", vos (pi_definition p));
                                (K "meta", meta_val mt (pi_metadata p))])
              else None
  | [] => None
  end.

Lemma first_proposed_ili_row : forall d rowid,
  first_proposed_ili d rowid
  = match filter (fun p => oz_is (pi_synset_rowid p) rowid) (t_proposed_ilis d) with
    | p :: _ => Some {| qi_id := None; qi_status := s_proposed;
                        qi_definition := pi_definition p; qi_rowid := pi_rowid p |}
    | [] => None
    end.
Proof.
  intros d rowid. unfold first_proposed_ili, find_proposed_ilis. cbv zeta.
  rewrite (filter_ext _ (fun p => oz_is (pi_synset_rowid p) rowid));
    [|intro p; simpl; apply andb_true_r].
  destruct (filter (fun p => oz_is (pi_synset_rowid p) rowid) (t_proposed_ilis d)); reflexivity.
Qed.

Lemma export_ili_definition_row : forall d mt ss,
  NoDup (map pi_rowid (t_proposed_ilis d)) ->
  _export_ili_definition d mt (sy_rowid ss) = Ok (ili_definition_of d mt ss).
Proof.
  intros d mt ss Hnd. unfold _export_ili_definition, ili_definition_of, proposed_of.
  rewrite first_proposed_ili_row.
  destruct (filter (fun p => oz_is (pi_synset_rowid p) (sy_rowid ss)) (t_proposed_ilis d))
    as [|p ps] eqn:Hf; [reflexivity|].
  cbn [qi_definition qi_rowid]. destruct (truthy (pi_definition p)); [|reflexivity].
  assert (Hp : In p (t_proposed_ilis d)).
  { assert (Hin : In p (p :: ps)) by (left; reflexivity). rewrite <- Hf in Hin.
    apply filter_In in Hin. apply Hin. }
  unfold _export_metadata. rewrite get_metadata_proposed_ilis.
  rewrite (fetch_meta_unique mt pi_rowid pi_metadata _ p Hnd Hp). reflexivity.
Qed.

Definition synset_relations_of (d : db) (r : Z) (ss : synset_row) : list relation_row :=
  selected_rels d (yrel_ok d r) (t_synset_relations d) r (sy_rowid ss).

Lemma export_synset_parts : forall d mt lexids v11 q sv,
  _export_synset d mt lexids v11 q = Ok sv ->
  (exists o, _export_ili_definition d mt (qy_rowid q) = Ok o
             /\ match o with
                | Some x => vhas sv (K "ili_definition") = true /\ vget sv (K "ili_definition") = x
                | None => vhas sv (K "ili_definition") = false
                end)
  /\ (exists l, _export_definitions d mt (qy_rowid q) lexids = Ok l /\ vget sv (K "definitions") = VList l)
  /\ (exists l, _export_synset_relations d mt (qy_rowid q) lexids = Ok l /\ vget sv (K "relations") = VList l)
  /\ (exists l, _export_examples d mt (qy_rowid q) s_synsets lexids = Ok l /\ vget sv (K "examples") = VList l)
  /\ (exists b, get_lexicalized d (qy_rowid q) s_synsets = Ok b /\ vget sv (K "lexicalized") = VBool b)
  /\ vget sv (K "lexfile") = vor (get_lexfile d (qy_rowid q))
  /\ (exists m, _export_metadata d mt (qy_rowid q) s_synsets = Ok m /\ vget sv (K "meta") = m).
Proof.
  intros d mt lexids v11 q sv H. unfold _export_synset in H. cbv zeta in H. binds H.
  injection H as <-.
  split.
  { exists x. split; [exact Hx|]. destruct x as [x|].
    - split; reflexivity.
    - destruct v11; reflexivity. }
  split; [exists x0; split; [exact Hx0 | reflexivity]|].
  split; [exists x1; split; [exact Hx1 | reflexivity]|].
  split; [exists x2; split; [exact Hx2 | reflexivity]|].
  split; [exists x3; split; [exact Hx3 | reflexivity]|].
  split; [reflexivity|].
  exists x4. split; [exact Hx4 | reflexivity].
Qed.

(* E9: what is exported for a synset row ss of the lexicon with rowid r *)
Definition synset_rel (d : db) (mt : mtab) (r : Z) (ss : synset_row) (sv : val) : Prop :=
  vget sv (K "id") = VStr (sy_id ss)
  /\ vget sv (K "partOfSpeech") = vos (sy_pos ss)
  /\ vget sv (K "lexicalized") = VBool (lexicalized_of (sy_rowid ss) (sy_lexicalized ss))
  /\ vget sv (K "lexfile") = VStr (lexfile_of d ss)
  /\ vget sv (K "meta") = meta_val mt (sy_metadata ss)
  /\ vget sv (K "definitions") = VList (map (definition_val d mt) (definitions_of d r ss))
  /\ vget sv (K "examples")
     = VList (map (example_val mt) (examples_of (t_synset_examples d) r (sy_rowid ss)))
  /\ vget sv (K "relations") = VList (map (yrel_val d mt) (synset_relations_of d r ss))
  /\ match ili_definition_of d mt ss with
     | Some x => vhas sv (K "ili_definition") = true /\ vget sv (K "ili_definition") = x
     | None => vhas sv (K "ili_definition") = false
     end.

Lemma export_synset_rel : forall d mt r lx v11 ss sv,
  wf_synset_rowids d = true -> wf_definition_rowids d = true ->
  wf_synset_example_rowids d = true -> wf_proposed_ili_rowids d = true ->
  find_by lex_rowid r (t_lexicons d) = Some lx ->
  In ss (t_synsets d) ->
  _export_synset d mt [r] v11 (synset_columns d ss) = Ok sv ->
  synset_rel d mt r ss sv.
Proof.
  intros d mt r lx v11 ss sv Hw1 Hw2 Hw3 Hw4 Hlx Hs H.
  apply wf_incr_NoDup in Hw1. apply wf_incr_NoDup in Hw2.
  apply wf_incr_NoDup in Hw3. apply wf_incr_NoDup in Hw4.
  pose proof (export_synset_fields _ _ _ _ _ _ H) as [Hid [_ [Hpos _]]].
  apply export_synset_parts in H. cbn [synset_columns qy_rowid] in H.
  destruct H as [[o [Ho Vo]] [[defs [Hdefs Vdefs]] [[rels [Hrels Vrels]] [[exs [Hexs Vexs]]
                 [[b [Hb Vb]] [Vlf [m [Hm Vm]]]]]]]].
  unfold synset_rel. split; [exact Hid|]. split; [exact Hpos|]. split.
  { rewrite Vb. f_equal. rewrite get_lexicalized_synsets in Hb. unfold lexicalized_of.
    destruct (Z.eqb (sy_rowid ss) NON_ROWID).
    - injection Hb as <-. reflexivity.
    - rewrite (find_by_unique sy_rowid _ ss Hw1 Hs) in Hb. injection Hb as <-. reflexivity. }
  split.
  { rewrite Vlf. unfold get_lexfile, lexfile_of, vor. rewrite (find_by_unique sy_rowid _ ss Hw1 Hs).
    destruct (ofind_by lf_rowid (sy_lexfile_rowid ss) (t_lexfiles d)); reflexivity. }
  split.
  { rewrite Vm. unfold _export_metadata in Hm. rewrite get_metadata_synsets in Hm.
    rewrite (fetch_meta_unique mt sy_rowid sy_metadata _ ss Hw1 Hs) in Hm. injection Hm as <-. reflexivity. }
  split.
  { rewrite Vdefs. rewrite (export_definitions_rows d mt r ss Hw2) in Hdefs. injection Hdefs as <-. reflexivity. }
  split.
  { rewrite Vexs. rewrite (export_examples_synsets d mt r _ Hw3) in Hexs. injection Hexs as <-. reflexivity. }
  split.
  { rewrite Vrels. rewrite (export_synset_relations_rows d mt _ r lx Hlx) in Hrels.
    injection Hrels as <-. reflexivity. }
  rewrite (export_ili_definition_row d mt ss Hw4) in Ho. injection Ho as <-. exact Vo.
Qed.

Theorem E9_synsets : forall d mt lex ver v,
  wf_synset_rowids d = true -> wf_definition_rowids d = true ->
  wf_synset_example_rowids d = true -> wf_proposed_ili_rowids d = true ->
  _export_lexicon d mt lex ver = Ok v ->
  Forall2 (synset_rel d mt (lex_rowid lex))
          (lexicon_synsets d (lex_rowid lex)) (vlist v (K "synsets")).
Proof.
  intros d mt lex ver v Hw1 Hw2 Hw3 Hw4 H.
  destruct (export_lexicon_row d mt lex ver v H) as [lx [Hlx _]].
  pose proof (exported_synsets_Forall2 d mt lex ver v Hw1 H) as HF.
  refine (Forall2_impl _ _ _ _ _ HF). intros ss sv Hs _ Hsv.
  unfold lexicon_synsets in Hs. apply filter_In in Hs. destruct Hs as [Hs _].
  apply (export_synset_rel d mt (lex_rowid lex) lx _ ss sv Hw1 Hw2 Hw3 Hw4 Hlx Hs Hsv).
Qed.

(* ================================================================== E7: forms *)
(* The forms of an exported entry are ALL rows of forms with that entry_rowid, whatever their
   lexicon_rowid (the JOIN of find_entries has no lexicon condition on forms), in rank order. *)
Lemma entry_forms_In : forall d e f,
  In f (entry_forms d e) <-> In f (t_forms d) /\ fm_entry_rowid f = en_rowid e.
Proof.
  intros d e f. unfold entry_forms, sort_by_oz. rewrite In_stable_sort. unfold forms_of.
  rewrite filter_In, Z.eqb_eq. reflexivity.
Qed.

(* SELECT tag, category FROM tags WHERE form_rowid = ?    (no lexicon filter) *)
Definition form_tags (d : db) (f : form_row) : list tag_row :=
  filter (fun t => Z.eqb (tg_form_rowid t) (fm_rowid f)) (t_tags d).
Definition tag_val (t : tag_row) : val :=
  VDict [(K "text", vos (tg_tag t)); (K "category", vos (tg_category t))].
(* SELECT value, variety, notation, phonemic, audio FROM pronunciations WHERE form_rowid = ? *)
Definition form_pronunciations (d : db) (f : form_row) : list pronunciation_row :=
  filter (fun p => Z.eqb (pr_form_rowid p) (fm_rowid f)) (t_pronunciations d).
Definition pronunciation_val (p : pronunciation_row) : val :=
  VDict [(K "text", vos (pr_value p)); (K "variety", vos (pr_variety p));
         (K "notation", vos (pr_notation p)); (K "phonemic", VBool (pr_phonemic p));
         (K "audio", vos (pr_audio p))].

Lemma export_tags_rows : forall d f,
  _export_tags d (fm_rowid f) = VList (map tag_val (form_tags d f)).
Proof. intros d f. unfold _export_tags, get_form_tags, form_tags. rewrite map_map. reflexivity. Qed.
Lemma export_pronunciations_rows : forall d f,
  _export_pronunciations d (fm_rowid f) = VList (map pronunciation_val (form_pronunciations d f)).
Proof.
  intros d f. unfold _export_pronunciations, get_form_pronunciations, form_pronunciations.
  rewrite map_map. reflexivity.
Qed.

(* what the lemma dict and every further form dict carry for a form row *)
Definition form_rel (d : db) (v11 : bool) (f : form_row) (fv : val) : Prop :=
  vget fv (K "writtenForm") = VStr (fm_form f)
  /\ vget fv (K "script") = vor (fm_script f)
  /\ vget fv (K "tags") = VList (map tag_val (form_tags d f))
  /\ (if v11
      then vget fv (K "pronunciations") = VList (map pronunciation_val (form_pronunciations d f))
      else vhas fv (K "pronunciations") = false).

Definition entry_forms_rel (d : db) (v11 : bool) (e : entry_row) (ev : val) : Prop :=
  exists h t,
    entry_forms d e = h :: t
    /\ vget (vget ev (K "lemma")) (K "partOfSpeech") = VStr (en_pos e)
    /\ form_rel d v11 h (vget ev (K "lemma"))
    /\ Forall2 (fun f fv => form_rel d v11 f fv /\ vget fv (K "id") = vor (fm_id f))
               t (vlist ev (K "forms")).

Lemma Forall2_map_fun : forall {A B} (g : A -> B) (R : A -> B -> Prop) (l : list A),
  (forall x, R x (g x)) -> Forall2 R l (map g l).
Proof.
  intros A B g R l H. induction l as [|x l IH]; simpl; constructor; [apply H | exact IH].
Qed.

Lemma form_val_rel : forall d v11 f,
  form_rel d v11 f (form_val d v11 (form_columns f))
  /\ vget (form_val d v11 (form_columns f)) (K "id") = vor (fm_id f).
Proof.
  intros d v11 f. unfold form_val, form_rel. cbn [form_columns qf_id qf_form qf_script qf_rowid].
  rewrite export_tags_rows, export_pronunciations_rows.
  split; [|reflexivity]. split; [reflexivity|]. split; [reflexivity|]. split; [reflexivity|].
  destruct v11; reflexivity.
Qed.

Lemma export_entry_forms_rel : forall d mt lexids sbmap v11 e ev,
  _export_entry d mt lexids sbmap v11 (word_of e (entry_forms d e)) = Ok ev ->
  entry_forms_rel d v11 e ev.
Proof.
  intros d mt lexids sbmap v11 e ev H. unfold _export_entry in H. cbn [word_of qw_forms qw_pos] in H.
  destruct (entry_forms d e) as [|h t] eqn:Hf; [discriminate|].
  cbn [map] in H. binds H. injection H as <-.
  exists h, t. split; [exact Hf|]. split; [reflexivity|]. split.
  - change (vget _ (K "lemma")) with
      (VDict ([(K "writtenForm", VStr (qf_form (form_columns h)));
               (K "partOfSpeech", VStr (en_pos e));
               (K "script", vor (qf_script (form_columns h)));
               (K "tags", _export_tags d (qf_rowid (form_columns h)))]
              ++ (if v11 then [(K "pronunciations", _export_pronunciations d (qf_rowid (form_columns h)))]
                  else []))).
    cbn [form_columns qf_form qf_script qf_rowid].
    rewrite export_tags_rows, export_pronunciations_rows. unfold form_rel.
    split; [reflexivity|]. split; [reflexivity|]. split; [reflexivity|].
    destruct v11; reflexivity.
  - change (vlist _ (K "forms")) with (map (form_val d v11) (map form_columns t)).
    rewrite map_map. apply Forall2_map_fun. intro f. apply form_val_rel.
Qed.

Theorem E7_forms : forall d mt lex ver v,
  wf_entry_rowids d = true ->
  _export_lexicon d mt lex ver = Ok v ->
  Forall2 (entry_forms_rel d (ge_1_1 ver))
          (exported_entries d (lex_rowid lex)) (vlist v (K "entries")).
Proof.
  intros d mt lex ver v Hwf H.
  pose proof (exported_entries_Forall2 d mt lex ver v Hwf H) as HF.
  refine (Forall2_impl _ _ _ _ _ HF). intros e ev _ _ He.
  apply (export_entry_forms_rel _ _ _ _ _ _ _ He).
Qed.

(* ================================================================== E6: the lexicon element *)
(* SELECT ... FROM lexicon_dependencies WHERE dependent_rowid = ? *)
Definition dependencies_of (d : db) (lex : lexicon_row) : list lexicon_dependency_row :=
  filter (fun r => Z.eqb (ld_dependent_rowid r) (lex_rowid lex)) (t_lexicon_dependencies d).
Definition dependency_val (r : lexicon_dependency_row) : val :=
  VDict [(K "id", VStr (ld_provider_id r)); (K "version", VStr (ld_provider_version r));
         (K "url", vos (ld_provider_url r))].

Definition lexicon_rel (d : db) (mt : mtab) (v11 : bool) (lex : lexicon_row) (v : val) : Prop :=
  vget v (K "id") = VStr (lex_id lex)
  /\ vget v (K "label") = VStr (lex_label lex)
  /\ vget v (K "language") = VStr (lex_language lex)
  /\ vget v (K "email") = VStr (lex_email lex)
  /\ vget v (K "license") = VStr (lex_license lex)
  /\ vget v (K "version") = VStr (lex_version lex)
  /\ vget v (K "url") = vor (lex_url lex)
  /\ vget v (K "citation") = vor (lex_citation lex)
  /\ (exists lx, find_by lex_rowid (lex_rowid lex) (t_lexicons d) = Some lx
                 /\ vget v (K "meta") = meta_val mt (lex_metadata lx))
  /\ (if v11
      then vget v (K "logo") = vor (lex_logo lex)
           /\ vget v (K "requires") = VList (map dependency_val (dependencies_of d lex))
      else vhas v (K "logo") = false /\ vhas v (K "requires") = false).

Lemma export_requires_rows : forall d lex,
  _export_requires d (lex_rowid lex) = VList (map dependency_val (dependencies_of d lex)).
Proof.
  intros d lex. unfold _export_requires, get_lexicon_dependencies, dependencies_of.
  rewrite map_map. reflexivity.
Qed.

Theorem E6_lexicon : forall d mt lex ver v,
  _export_lexicon d mt lex ver = Ok v -> lexicon_rel d mt (ge_1_1 ver) lex v.
Proof.
  intros d mt lex ver v H. pose proof (export_lexicon_row d mt lex ver v H) as Hrow.
  unfold _export_lexicon in H. cbv zeta in H. binds H. injection H as <-.
  unfold lexicon_rel. do 8 (split; [reflexivity|]). split; [exact Hrow|].
  destruct (ge_1_1 ver).
  - split; [reflexivity|]. rewrite export_requires_rows. reflexivity.
  - split; reflexivity.
Qed.

(* for the lexicon row export is actually called with (run_export: get_lexicon d rowid), the
   metadata is that of the row itself *)
Theorem E6_lexicon_meta : forall d mt rowid lex ver v,
  get_lexicon d rowid = Ok lex ->
  _export_lexicon d mt lex ver = Ok v ->
  In lex (t_lexicons d) /\ lex_rowid lex = rowid /\ vget v (K "meta") = meta_val mt (lex_metadata lex).
Proof.
  intros d mt rowid lex ver v Hg H. unfold get_lexicon in Hg.
  destruct (find_by lex_rowid rowid (t_lexicons d)) as [l|] eqn:Hf; [|discriminate].
  injection Hg as ->. pose proof (find_by_In _ _ _ _ Hf) as [Hin Hk].
  split; [exact Hin|]. split; [exact Hk|].
  destruct (export_lexicon_row d mt lex ver v H) as [lx [Hlx Hm]].
  rewrite Hk, Hf in Hlx. injection Hlx as <-. exact Hm.
Qed.

(* ================================================================== relations: nothing merged, nothing dropped *)
(* DISTINCT merges nothing: per source, no two selected rows agree on type name, metadata and target *)
Definition wf_relations_distinct (d : db) (r : Z) : bool :=
  forallb (fun s =>
             nodupb (rel_key_eqb d)
                    (filter (srel_ok d r) (rels_from (t_sense_relations d) r (se_rowid s)))
             && nodupb (rel_key_eqb d)
                       (filter (yrel_ok d r) (rels_from (t_sense_synset_relations d) r (se_rowid s))))
          (t_senses d)
  && forallb (fun ss =>
                nodupb (rel_key_eqb d)
                       (filter (yrel_ok d r) (rels_from (t_synset_relations d) r (sy_rowid ss))))
             (t_synsets d).
(* the joins drop nothing: every relation row of lexicon r has a known type and a target row that
   belongs to lexicon r as well *)
Definition wf_relation_refs (d : db) (r : Z) : bool :=
  forallb (fun rl => negb (Z.eqb (rl_lexicon_rowid rl) r) || srel_ok d r rl) (t_sense_relations d)
  && forallb (fun rl => negb (Z.eqb (rl_lexicon_rowid rl) r) || yrel_ok d r rl) (t_sense_synset_relations d)
  && forallb (fun rl => negb (Z.eqb (rl_lexicon_rowid rl) r) || yrel_ok d r rl) (t_synset_relations d).

Lemma filter_ok_rels_from : forall (ok : relation_row -> bool) t r src,
  forallb (fun rl => negb (Z.eqb (rl_lexicon_rowid rl) r) || ok rl) t = true ->
  filter ok (rels_from t r src) = rels_from t r src.
Proof.
  intros ok t r src H. apply filter_id. intros rl Hrl. apply rels_from_In in Hrl.
  destruct Hrl as [Hin [_ Hlex]]. rewrite forallb_forall in H. specialize (H rl Hin).
  rewrite Hlex, Z.eqb_refl in H. exact H.
Qed.

(* under the two conditions the exported relations of a sense / synset are exactly the relation
   rows of the lexicon with that source, in rowid (table) order *)
Theorem E8_relations_all : forall d r s,
  wf_relations_distinct d r = true -> wf_relation_refs d r = true -> In s (t_senses d) ->
  sense_relations_of d r s = rels_from (t_sense_relations d) r (se_rowid s)
  /\ sense_synset_relations_of d r s = rels_from (t_sense_synset_relations d) r (se_rowid s).
Proof.
  intros d r s Hd Hr Hs. unfold wf_relations_distinct in Hd. apply andb_true_iff in Hd.
  destruct Hd as [Hd _]. rewrite forallb_forall in Hd. specialize (Hd s Hs).
  apply andb_true_iff in Hd. destruct Hd as [Hd1 Hd2].
  unfold wf_relation_refs in Hr. apply andb_true_iff in Hr. destruct Hr as [Hr _].
  apply andb_true_iff in Hr. destruct Hr as [Hr1 Hr2].
  unfold sense_relations_of, sense_synset_relations_of, selected_rels. split.
  - rewrite (dedup_nodupb _ _ Hd1). apply filter_ok_rels_from. exact Hr1.
  - rewrite (dedup_nodupb _ _ Hd2). apply filter_ok_rels_from. exact Hr2.
Qed.
Theorem E9_relations_all : forall d r ss,
  wf_relations_distinct d r = true -> wf_relation_refs d r = true -> In ss (t_synsets d) ->
  synset_relations_of d r ss = rels_from (t_synset_relations d) r (sy_rowid ss).
Proof.
  intros d r ss Hd Hr Hs. unfold wf_relations_distinct in Hd. apply andb_true_iff in Hd.
  destruct Hd as [_ Hd]. rewrite forallb_forall in Hd. specialize (Hd ss Hs).
  unfold wf_relation_refs in Hr. apply andb_true_iff in Hr. destruct Hr as [_ Hr].
  unfold synset_relations_of, selected_rels.
  rewrite (dedup_nodupb _ _ Hd). apply filter_ok_rels_from. exact Hr.
Qed.

(* ================================================================== the hypotheses on a real database *)
Example sample_wf_children :
  wf_sense_example_rowids sample_db = true /\ wf_synset_example_rowids sample_db = true
  /\ wf_count_rowids sample_db = true /\ wf_definition_rowids sample_db = true
  /\ wf_proposed_ili_rowids sample_db = true
  /\ wf_relations_distinct sample_db 1 = true /\ wf_relation_refs sample_db 1 = true.
Proof. vm_compute. repeat split; reflexivity. Qed.

(* the theorems are not vacuous there: the export of lexicon 1 of the sample carries sense relations,
   sense examples, counts, synset relations, definitions, synset examples, pronunciations and an
   ILI definition (numbers of exported items of each kind) *)
Example sample_children_present :
  match get_lexicon sample_db 1 with
  | Ok lex =>
      match _export_lexicon sample_db sample_mt lex [1; 1] with
      | Ok v =>
          let senses := flat_map (fun ev => vlist ev (K "senses")) (vlist v (K "entries")) in
          let forms := flat_map (fun ev => vget ev (K "lemma") :: vlist ev (K "forms"))
                                (vlist v (K "entries")) in
          let synsets := vlist v (K "synsets") in
          let cnt (l : list val) (k : str) := List.length (flat_map (fun x => vlist x k) l) in
          (cnt senses (K "relations"), cnt senses (K "examples"), cnt senses (K "counts"),
           cnt synsets (K "relations"), cnt synsets (K "definitions"), cnt synsets (K "examples"),
           cnt forms (K "pronunciations"),
           List.length (filter (fun sv => vhas sv (K "ili_definition")) synsets))
          = (2, 2, 4, 5, 2, 1, 2, 1)%nat
      | _ => False
      end
  | _ => False
  end.
Proof. vm_compute. reflexivity. Qed.

(* ================================================================== witnesses
   Three readings of the property that are FALSE for the faithful model, on one small database
   that satisfies every well-formedness predicate used above.  Lexicon "x" (rowid 1) has synsets
   x-s0 (rowid 0), x-s1, x-s2; lexicon "y" (rowid 2) has y-s3.
     (a) "relations = one exported relation per synset_relations row of the source":
         rows 1 and 2 are the same relation x-s1 -hypernym-> x-s2 stored twice (the schema has no
         UNIQUE constraint on relations); SELECT DISTINCT exports it once.  Hence [rel_key_eqb] /
         [wf_relations_distinct].
     (b) same reading: row 3, x-s1 -hypernym-> y-s3, belongs to lexicon "x" but its target does
         not; the JOIN ... AND tgt.lexicon_rowid IN (1) drops it.  Hence [yrel_ok] /
         [wf_relation_refs].  x-s1 has 3 relation rows and 1 exported relation.
     (c) "ili_definition exactly when the synset has a proposed_ilis row": x-s2 has one (its ili is
         exported as "in") whose definition is NULL; no ili_definition is exported.  The true
         statement is [ili_definition_of]: the first proposed_ilis row, when its text is not empty.
     (d) "lexicalized = the flag of the row": x-s0 has rowid 0 = NON_ROWID, for which
         get_lexicalized answers False without looking; its flag is true.  Hence [lexicalized_of]
         (rowids assigned by SQLite start at 1, so this does not arise in a real database). *)
Definition w_lex (rowid : Z) (id : string) : lexicon_row :=
  {| lex_rowid := rowid; lex_id := K id; lex_label := K "L"; lex_language := K "en";
     lex_email := K "e"; lex_license := K "l"; lex_version := K "1"; lex_url := None;
     lex_citation := None; lex_logo := None; lex_metadata := None; lex_modified := false |}.
Definition w_synset (rowid : Z) (id : string) (lexid : Z) : synset_row :=
  {| sy_rowid := rowid; sy_id := K id; sy_lexicon_rowid := lexid; sy_ili_rowid := None;
     sy_pos := Some (K "n"); sy_lexicalized := true; sy_lexfile_rowid := None; sy_metadata := None |}.
Definition w_rel (rowid tgt : Z) : relation_row :=
  {| rl_rowid := rowid; rl_lexicon_rowid := 1; rl_source_rowid := 1; rl_target_rowid := tgt;
     rl_type_rowid := 1; rl_metadata := None |}.
Definition w_db : db :=
  {| t_ilis := [];
     t_proposed_ilis := [{| pi_rowid := 1; pi_synset_rowid := Some 2;
                            pi_definition := None; pi_metadata := None |}];
     t_lexicons := [w_lex 1 "x"; w_lex 2 "y"]; t_lexicon_dependencies := [];
     t_lexicon_extensions := []; t_entries := []; t_forms := []; t_pronunciations := [];
     t_tags := [];
     t_synsets := [w_synset 0 "x-s0" 1; w_synset 1 "x-s1" 1; w_synset 2 "x-s2" 1; w_synset 3 "y-s3" 2];
     t_synset_relations := [w_rel 1 2; w_rel 2 2; w_rel 3 3]; t_definitions := [];
     t_synset_examples := []; t_senses := []; t_sense_relations := [];
     t_sense_synset_relations := []; t_adjpositions := []; t_sense_examples := [];
     t_counts := []; t_syntactic_behaviours := []; t_syntactic_behaviour_senses := [];
     t_relation_types := [{| rt_rowid := 1; rt_type := K "hypernym" |}]; t_ili_statuses := [];
     t_lexfiles := [] |}.

Example witness_children :
  (wf_synset_rowids w_db = true /\ wf_definition_rowids w_db = true
   /\ wf_synset_example_rowids w_db = true /\ wf_proposed_ili_rowids w_db = true)
  /\ match _export_lexicon w_db [] (w_lex 1 "x") [1; 1] with
     | Ok v =>
         map (fun sv => (vget sv (K "id"), vget sv (K "lexicalized"),
                         List.length (vlist sv (K "relations")),
                         vhas sv (K "ili_definition"), vget sv (K "ili")))
             (vlist v (K "synsets"))
         = [(VStr (K "x-s0"), VBool false, 0%nat, false, VStr []);
            (VStr (K "x-s1"), VBool true, 1%nat, false, VStr []);
            (VStr (K "x-s2"), VBool true, 0%nat, false, VStr (K "in"))]
     | _ => False
     end
  /\ List.length (rels_from (t_synset_relations w_db) 1 1) = 3%nat
  /\ has_proposed w_db (w_synset 2 "x-s2" 1) = true
  /\ sy_lexicalized (w_synset 0 "x-s0" 1) = true
  /\ wf_relations_distinct w_db 1 = false /\ wf_relation_refs w_db 1 = false.
Proof. vm_compute. repeat split; reflexivity. Qed.

(* ================================================================== the theorems *)
Print Assumptions E8_senses.
Print Assumptions E8_relations_all.
Print Assumptions E9_synsets.
Print Assumptions E9_relations_all.
Print Assumptions E7_forms.
Print Assumptions entry_forms_In.
Print Assumptions E6_lexicon.
Print Assumptions E6_lexicon_meta.
Print Assumptions lexicalized_of_nz.
Print Assumptions sample_wf_children.
Print Assumptions sample_children_present.
Print Assumptions witness_children.
