(* Proofs/ValidateProofs.v — every validation check lists exactly the entities that
   satisfy its documented condition; validate() never raises and reports the selected
   codes in table order. *)
From Coq Require Import String.
From Coq Require Import ZArith List Bool Lia.
Import ListNotations.
Require Import WnV.Base.Sx WnV.Gen.Constants WnV.Gen.ValidateTable WnV.Model.Validate WnV.Proofs.ValidateSpec.
Local Open Scope Z_scope.

(* ================= infrastructure ================= *)

(* ---- decidable equality on S-expressions ---- *)
Section SxInd.
  Variable P : sx -> Prop.
  Hypothesis HA : forall z, P (A z).
  Hypothesis HL : forall l, Forall P l -> P (L l).
  Fixpoint sx_ind' (x : sx) : P x :=
    match x with
    | A z => HA z
    | L l => HL l ((fix go (l : list sx) : Forall P l :=
                      match l with
                      | [] => Forall_nil P
                      | y :: l' => Forall_cons y (sx_ind' y) (go l')
                      end) l)
    end.
End SxInd.

Lemma sx_eqb_eq : forall a b, sx_eqb a b = true <-> a = b.
Proof.
  intro a. induction a as [z | l IHl] using sx_ind'; intro b.
  - destruct b as [y | ys]; simpl.
    + rewrite Z.eqb_eq. split; intro H; [subst; reflexivity | injection H as H; exact H].
    + split; intro H; discriminate.
  - destruct b as [y | ys].
    + simpl. split; intro H; discriminate.
    + revert ys. induction IHl as [| x xs Hx Hxs IH]; intro ys.
      * destruct ys as [| y ys]; simpl; split; intro H; try reflexivity; discriminate.
      * destruct ys as [| y ys].
        { simpl. split; intro H; discriminate. }
        { change (sx_eqb (L (x :: xs)) (L (y :: ys)))
            with (sx_eqb x y && sx_eqb (L xs) (L ys)).
          rewrite andb_true_iff, Hx, IH. split.
          - intros [H1 H2]. subst. injection H2 as H2. subst. reflexivity.
          - intro H. injection H as H1 H2. subst. split; reflexivity. }
Qed.

Lemma sx_eqb_refl : forall a, sx_eqb a a = true.
Proof. intro a. apply sx_eqb_eq. reflexivity. Qed.

Lemma sx_eqb_neq : forall a b, sx_eqb a b = false <-> a <> b.
Proof.
  intros a b. split.
  - intros H E. apply sx_eqb_eq in E. congruence.
  - intro H. destruct (sx_eqb a b) eqn:E; [apply sx_eqb_eq in E; contradiction | reflexivity].
Qed.

Lemma sx_eqb_sym : forall a b, sx_eqb a b = sx_eqb b a.
Proof.
  intros a b. destruct (sx_eqb a b) eqn:E1; destruct (sx_eqb b a) eqn:E2; try reflexivity.
  - apply sx_eqb_eq in E1. subst. rewrite sx_eqb_refl in E2. discriminate.
  - apply sx_eqb_eq in E2. subst. rewrite sx_eqb_refl in E1. discriminate.
Qed.

Lemma map_A_inj : forall a b : str, map A a = map A b -> a = b.
Proof.
  induction a as [| x a IH]; destruct b as [| y b]; simpl; intro H; try reflexivity; try discriminate.
  injection H as H1 H2. subst. f_equal. apply IH. exact H2.
Qed.

Lemma K_inj : forall a b, K a = K b -> a = b.
Proof. unfold K, sx_of_str. intros a b H. injection H as H. apply map_A_inj. exact H. Qed.

Lemma sx_str_K : forall s, sx_str (K s) = s.
Proof.
  unfold sx_str, K, sx_of_str. simpl. induction s as [| x s IH]; simpl; [reflexivity | f_equal; exact IH].
Qed.

Lemma sx_mem_In : forall x l, sx_mem x l = true <-> In x l.
Proof.
  intros x l. unfold sx_mem. rewrite existsb_exists. split.
  - intros [y [Hy He]]. apply sx_eqb_eq in He. subst. exact Hy.
  - intro H. exists x. split; [exact H | apply sx_eqb_refl].
Qed.

(* ---- occurrences ---- *)
Lemma occ_nil : forall k, occ k [] = 0%nat.
Proof. reflexivity. Qed.

Lemma occ_cons : forall k x l, occ k (x :: l) = ((if sx_eqb k x then 1 else 0) + occ k l)%nat.
Proof. intros k x l. unfold occ. simpl. destruct (sx_eqb k x); reflexivity. Qed.

Lemma occ_app : forall k a b, occ k (a ++ b) = (occ k a + occ k b)%nat.
Proof. intros k a b. unfold occ. rewrite filter_app, app_length. reflexivity. Qed.

Lemma occ_pos : forall k l, (0 < occ k l)%nat <-> In k l.
Proof.
  intros k l. induction l as [| x l IH].
  - simpl. split; [intro H; inversion H | intros []].
  - rewrite occ_cons. simpl. destruct (sx_eqb k x) eqn:E.
    + apply sx_eqb_eq in E. subst. split; [intros _; left; reflexivity | intros _; lia].
    + apply sx_eqb_neq in E. simpl. rewrite IH. split; [intro H; right; exact H |].
      intros [H | H]; [symmetry in H; contradiction | exact H].
Qed.

Lemma occ_zero : forall k l, ~ In k l -> occ k l = 0%nat.
Proof. intros k l H. rewrite <- occ_pos in H. lia. Qed.

Lemma occ_repeat : forall k x n, occ k (repeat x n) = if sx_eqb k x then n else 0%nat.
Proof.
  intros k x n. induction n as [| n IH]; simpl repeat.
  - destruct (sx_eqb k x); reflexivity.
  - rewrite occ_cons, IH. destruct (sx_eqb k x); reflexivity.
Qed.

(* ---- dictionaries ---- *)
Lemma keys_dset : forall d k' v k, In k (keys (dset d k' v)) <-> In k (keys d) \/ k = k'.
Proof.
  unfold keys. induction d as [| [k0 v0] d IH]; intros k' v k; simpl.
  - split; [intros [H | []]; right; symmetry; exact H | intros [[] | H]; left; symmetry; exact H].
  - destruct (sx_eqb k0 k') eqn:E; simpl.
    + apply sx_eqb_eq in E. subst. split; [intro H; left; exact H |].
      intros [H | H]; [exact H | left; symmetry; exact H].
    + rewrite IH. tauto.
Qed.

Lemma keys_fold_dset : forall (l : list (sx * ctx)) d k,
    In k (keys (fold_left (fun d kv => dset d (fst kv) (snd kv)) l d)) <-> In k (keys d) \/ In k (map fst l).
Proof.
  induction l as [| [k0 v0] l IH]; intros d k; simpl.
  - tauto.
  - rewrite IH, keys_dset. simpl. split; [intros [[H | H] | H] | intros [H | [H | H]]]; auto.
Qed.

Lemma keys_dict_of : forall l k, In k (keys (dict_of l)) <-> In k (map fst l).
Proof. intros l k. unfold dict_of. rewrite keys_fold_dset. simpl. tauto. Qed.

Lemma in_dset : forall d k' v' k v, In (k, v) (dset d k' v') -> In (k, v) d \/ (k, v) = (k', v').
Proof.
  induction d as [| [k0 v0] d IH]; intros k' v' k v; simpl.
  - intros [H | []]. right. symmetry. exact H.
  - destruct (sx_eqb k0 k') eqn:E; simpl.
    + apply sx_eqb_eq in E. subst. intros [H | H]; [right; symmetry; exact H | left; right; exact H].
    + intros [H | H]; [left; left; exact H |]. apply IH in H. tauto.
Qed.

Lemma in_fold_dset : forall (l : list (sx * ctx)) d k v,
    In (k, v) (fold_left (fun d kv => dset d (fst kv) (snd kv)) l d) -> In (k, v) d \/ In (k, v) l.
Proof.
  induction l as [| [k0 v0] l IH]; intros d k v; simpl.
  - tauto.
  - intro H. apply IH in H. destruct H as [H | H]; [| right; right; exact H].
    apply in_dset in H. destruct H as [H | H]; [left; exact H | right; left; symmetry; exact H].
Qed.

Lemma dict_of_sound_aux : forall l k v, In (k, v) (dict_of l) -> In (k, v) l.
Proof. intros l k v H. apply in_fold_dset in H. destruct H as [[] | H]. exact H. Qed.

(* keys of a dictionary built from a filtered, mapped list *)
Lemma keys_dict_map_filter : forall (T : Type) (f : T -> sx * ctx) (p : T -> bool) (l : list T) k,
    In k (keys (dict_of (map f (filter p l)))) <-> exists x, In x l /\ p x = true /\ k = fst (f x).
Proof.
  intros T f p l k. rewrite keys_dict_of, map_map, in_map_iff. split.
  - intros [x [Hk Hx]]. apply filter_In in Hx. destruct Hx as [Hx Hp]. exists x. auto.
  - intros [x [Hx [Hp Hk]]]. exists x. split; [symmetry; exact Hk | apply filter_In; auto].
Qed.

(* ---- counters ---- *)
Definition cget (k : sx) (c : list (sx * nat)) : nat :=
  match find (fun kn => sx_eqb (fst kn) k) c with Some kn => snd kn | None => 0%nat end.

Lemma cget_cons : forall k k' n c, cget k ((k', n) :: c) = if sx_eqb k' k then n else cget k c.
Proof. intros k k' n c. unfold cget. simpl. destruct (sx_eqb k' k); reflexivity. Qed.

Lemma cget_cinc : forall c x k, cget k (cinc c x) = ((if sx_eqb k x then 1 else 0) + cget k c)%nat.
Proof.
  induction c as [| [k' n] c IH]; intros x k.
  - simpl. rewrite cget_cons. unfold cget. simpl. rewrite (sx_eqb_sym x k).
    destruct (sx_eqb k x); reflexivity.
  - simpl. destruct (sx_eqb k' x) eqn:E.
    + apply sx_eqb_eq in E. subst. rewrite !cget_cons. rewrite (sx_eqb_sym x k).
      destruct (sx_eqb k x); reflexivity.
    + rewrite !cget_cons, IH. destruct (sx_eqb k' k) eqn:E2; [| reflexivity].
      apply sx_eqb_eq in E2. subst. rewrite E. reflexivity.
Qed.

Lemma cget_fold : forall l c k, cget k (fold_left cinc l c) = (cget k c + occ k l)%nat.
Proof.
  induction l as [| x l IH]; intros c k; simpl.
  - rewrite occ_nil. lia.
  - rewrite IH, cget_cinc, occ_cons. lia.
Qed.

(* the count stored by [counter l] for k is [occ k l] *)
Lemma cget_counter : forall l k, cget k (counter l) = occ k l.
Proof. intros l k. unfold counter. rewrite cget_fold. reflexivity. Qed.

Lemma ckeys_cinc : forall c x k, In k (map fst (cinc c x)) <-> In k (map fst c) \/ k = x.
Proof.
  induction c as [| [k' n] c IH]; intros x k; simpl.
  - split; [intros [H | []]; right; symmetry; exact H | intros [[] | H]; left; symmetry; exact H].
  - destruct (sx_eqb k' x) eqn:E; simpl.
    + apply sx_eqb_eq in E. subst. split; [intro H; left; exact H |].
      intros [H | H]; [exact H | left; symmetry; exact H].
    + rewrite IH. tauto.
Qed.

Definition cwf (c : list (sx * nat)) : Prop :=
  NoDup (map fst c) /\ forall k n, In (k, n) c -> (0 < n)%nat.

Lemma cwf_cinc : forall c x, cwf c -> cwf (cinc c x).
Proof.
  induction c as [| [k' n] c IH]; intros x [Hnd Hpos]; simpl.
  - split.
    + simpl. constructor; [intros [] | constructor].
    + intros k m [H | []]. injection H as _ H. lia.
  - simpl in Hnd. inversion Hnd as [| a b Hnin Hnd']. subst.
    destruct (sx_eqb k' x) eqn:E.
    + split.
      * simpl. constructor; assumption.
      * intros k m [H | H]; [injection H as _ H; lia |]. apply (Hpos k m). right. exact H.
    + assert (Hc : cwf c).
      { split; [exact Hnd' |]. intros k m H. apply (Hpos k m). right. exact H. }
      destruct (IH x Hc) as [Hnd2 Hpos2]. split.
      * simpl. constructor; [| exact Hnd2]. rewrite ckeys_cinc. intros [H | H]; [contradiction |].
        subst. rewrite sx_eqb_refl in E. discriminate.
      * intros k m [H | H]; [apply (Hpos k m); left; exact H | apply (Hpos2 k m); exact H].
Qed.

Lemma cwf_fold : forall l c, cwf c -> cwf (fold_left cinc l c).
Proof.
  induction l as [| x l IH]; intros c H; simpl; [exact H |]. apply IH, cwf_cinc, H.
Qed.

Lemma cwf_counter : forall l, cwf (counter l).
Proof.
  intro l. apply cwf_fold. split; [constructor | intros k n []].
Qed.

Lemma cget_notin : forall c k, ~ In k (map fst c) -> cget k c = 0%nat.
Proof.
  induction c as [| [k' n] c IH]; intros k H; [reflexivity |].
  rewrite cget_cons. simpl in H. destruct (sx_eqb k' k) eqn:E.
  - apply sx_eqb_eq in E. subst. exfalso. apply H. left. reflexivity.
  - apply IH. intro H2. apply H. right. exact H2.
Qed.

Lemma cget_in : forall c k n, NoDup (map fst c) -> In (k, n) c -> cget k c = n.
Proof.
  induction c as [| [k' m] c IH]; intros k n Hnd H; [destruct H |].
  simpl in Hnd. inversion Hnd as [| a b Hnin Hnd']. subst. rewrite cget_cons.
  destruct H as [H | H].
  - injection H as H1 H2. subst. rewrite sx_eqb_refl. reflexivity.
  - destruct (sx_eqb k' k) eqn:E.
    + apply sx_eqb_eq in E. subst. exfalso. apply Hnin.
      apply in_map_iff. exists (k, n). split; [reflexivity | exact H].
    + apply IH; assumption.
Qed.

Lemma in_cget : forall c k, (0 < cget k c)%nat -> In (k, cget k c) c.
Proof.
  intros c k H. unfold cget in *.
  destruct (find (fun kn => sx_eqb (fst kn) k) c) as [[k' n] |] eqn:E; [| lia].
  apply find_some in E. destruct E as [Hin He]. simpl in He. apply sx_eqb_eq in He. subst.
  exact Hin.
Qed.

Lemma in_counter : forall l k n, In (k, n) (counter l) <-> (n = occ k l /\ (0 < n)%nat).
Proof.
  intros l k n. destruct (cwf_counter l) as [Hnd Hpos]. split.
  - intro H. split; [| apply (Hpos k n H)]. rewrite <- cget_counter. symmetry.
    apply cget_in; assumption.
  - intros [H1 H2]. subst. rewrite <- cget_counter in *. apply in_cget. exact H2.
Qed.

Lemma cmem_keys : forall k c, cmem k c = true <-> In k (map fst c).
Proof.
  intros k c. unfold cmem. rewrite existsb_exists, in_map_iff. split.
  - intros [kn [Hin He]]. apply sx_eqb_eq in He. exists kn. auto.
  - intros [kn [He Hin]]. exists kn. split; [exact Hin | apply sx_eqb_eq; exact He].
Qed.

Lemma cmem_ex : forall k c, cmem k c = true <-> exists n, In (k, n) c.
Proof.
  intros k c. rewrite cmem_keys, in_map_iff. split.
  - intros [[k' n] [He Hin]]. simpl in He. subst. exists n. exact Hin.
  - intros [n Hin]. exists (k, n). auto.
Qed.

Lemma cmem_counter : forall k l, cmem k (counter l) = true <-> In k l.
Proof.
  intros k l. rewrite cmem_ex, <- occ_pos. split.
  - intros [n Hn]. apply in_counter in Hn. lia.
  - intro H. exists (occ k l). apply in_counter. auto.
Qed.

Lemma in_multiples : forall l k n, In (k, n) (multiples l) <-> (n = occ k l /\ (1 < n)%nat).
Proof.
  intros l k n. unfold multiples. rewrite filter_In, in_counter. simpl. rewrite Nat.ltb_lt. lia.
Qed.

Lemma cmem_multiples : forall k l, cmem k (multiples l) = true <-> (1 < occ k l)%nat.
Proof.
  intros k l. rewrite cmem_ex. split.
  - intros [n Hn]. apply in_multiples in Hn. lia.
  - intro H. exists (occ k l). apply in_multiples. auto.
Qed.

Lemma occ_elements_gen : forall c k, NoDup (map fst c) -> occ k (elements c) = cget k c.
Proof.
  induction c as [| [k' n] c IH]; intros k Hnd; [reflexivity |].
  simpl in Hnd. inversion Hnd as [| a b Hnin Hnd']. subst.
  unfold elements in *. simpl. rewrite occ_app, occ_repeat, cget_cons, IH by exact Hnd'.
  rewrite (sx_eqb_sym k k'). destruct (sx_eqb k' k) eqn:E; [| reflexivity].
  apply sx_eqb_eq in E. subst. rewrite cget_notin by exact Hnin. lia.
Qed.

Lemma occ_elements : forall k l, occ k (elements (counter l)) = occ k l.
Proof.
  intros k l. rewrite occ_elements_gen by apply (cwf_counter l). apply cget_counter.
Qed.

(* ================= the report ================= *)
Section Go.
  Variable lex : lexicon.
  Variable sel : list str.
  Fixpoint go_codes (codes : list (string * string * string)) : option (list (string * items)) :=
    match codes with
    | [] => Some []
    | (code, fname, _) :: rest =>
        if selected sel code
        then match check_of_name fname, go_codes rest with
             | Some f, Some r => Some ((code, f lex) :: r)
             | _, _ => None
             end
        else go_codes rest
    end.
End Go.

Lemma validate_go : forall lex sel,
    validate lex sel = if l_extends lex then Some [] else go_codes lex sel VALIDATE_CODES.
Proof. reflexivity. Qed.

Definition known_check (c : string * string * string) : bool :=
  match check_of_name (snd (fst c)) with Some _ => true | None => false end.

Lemma codes_known : forallb known_check VALIDATE_CODES = true.
Proof. vm_compute. reflexivity. Qed.

Lemma go_total : forall lex sel codes, forallb known_check codes = true -> go_codes lex sel codes <> None.
Proof.
  intros lex sel codes. induction codes as [| [[code fname] doc] rest IH]; simpl; intro H.
  - discriminate.
  - apply andb_true_iff in H. destruct H as [Hk Hrest]. specialize (IH Hrest).
    unfold known_check in Hk. simpl in Hk.
    destruct (selected sel code); [| exact IH].
    destruct (check_of_name fname) as [f |]; [| discriminate].
    destruct (go_codes lex sel rest) as [r |]; [discriminate | exact IH].
Qed.

Lemma go_selected : forall lex sel codes rep,
    go_codes lex sel codes = Some rep ->
    map fst rep = filter (selected sel) (map (fun c => fst (fst c)) codes).
Proof.
  intros lex sel codes. induction codes as [| [[code fname] doc] rest IH]; simpl; intros rep H.
  - injection H as H. subst. reflexivity.
  - destruct (selected sel code); [| apply IH; exact H].
    destruct (check_of_name fname) as [f |]; [| discriminate].
    destruct (go_codes lex sel rest) as [r |]; [| discriminate].
    injection H as H. subst. simpl. f_equal. apply IH. reflexivity.
Qed.

Lemma go_items : forall lex sel codes rep code its,
    go_codes lex sel codes = Some rep -> In (code, its) rep ->
    exists fname doc f, In (code, fname, doc) codes /\ check_of_name fname = Some f /\ its = f lex.
Proof.
  intros lex sel codes. induction codes as [| [[code0 fname0] doc0] rest IH]; simpl; intros rep code its H Hin.
  - injection H as H. subst. destruct Hin.
  - assert (Hrest : forall rep', go_codes lex sel rest = Some rep' -> In (code, its) rep' ->
              exists fname doc f, (((code0, fname0, doc0) = (code, fname, doc)) \/ In (code, fname, doc) rest)
                                  /\ check_of_name fname = Some f /\ its = f lex).
    { intros rep' H1 H2. destruct (IH rep' code its H1 H2) as [fname [doc [f [Ha [Hb Hc]]]]].
      exists fname, doc, f. auto. }
    destruct (selected sel code0); [| apply (Hrest rep); assumption].
    destruct (check_of_name fname0) as [f0 |] eqn:Ef; [| discriminate].
    destruct (go_codes lex sel rest) as [r |]; [| discriminate].
    injection H as H. subst. destruct Hin as [Hin | Hin].
    + injection Hin as H1 H2. subst. exists fname0, doc0, f0. auto.
    + apply (Hrest r); [reflexivity | exact Hin].
Qed.

Theorem validate_total : forall lex sel, validate lex sel <> None.
Proof.
  intros lex sel. rewrite validate_go. destruct (l_extends lex); [discriminate |].
  apply go_total, codes_known.
Qed.

Theorem validate_selected : forall lex sel rep,
    l_extends lex = false -> validate lex sel = Some rep ->
    map fst rep = filter (selected sel) (map (fun c => fst (fst c)) VALIDATE_CODES).
Proof.
  intros lex sel rep He H. rewrite validate_go, He in H. apply (go_selected lex sel). exact H.
Qed.

Theorem validate_items : forall lex sel rep code its,
    validate lex sel = Some rep -> In (code, its) rep ->
    exists fname doc f, In (code, fname, doc) VALIDATE_CODES /\ check_of_name fname = Some f /\ its = f lex.
Proof.
  intros lex sel rep code its H Hin. rewrite validate_go in H. destruct (l_extends lex).
  - injection H as H. subst. destruct Hin.
  - apply (go_items lex sel VALIDATE_CODES rep); assumption.
Qed.

Theorem validate_extension : forall lex sel, l_extends lex = true -> validate lex sel = Some [].
Proof. intros lex sel H. rewrite validate_go, H. reflexivity. Qed.

(* ================= the checks ================= *)

(* ---- the entity lists ---- *)
Lemma in_all_senses : forall lex e s,
    In (e, s) (all_senses lex) <-> In e (l_entries lex) /\ In s (e_senses e).
Proof.
  intros lex e s. unfold all_senses. rewrite in_flat_map. split.
  - intros [e' [He Hs]]. apply in_map_iff in Hs. destruct Hs as [s' [Heq Hs]].
    injection Heq as H1 H2. subst. auto.
  - intros [He Hs]. exists e. split; [exact He |]. apply in_map_iff. exists s. auto.
Qed.

Lemma in_synset_relations : forall lex ss r,
    In (ss, r) (synset_relations lex) <-> In ss (l_synsets lex) /\ In r (ss_rels ss).
Proof.
  intros lex ss r. unfold synset_relations. rewrite in_flat_map. split.
  - intros [ss' [He Hs]]. apply in_map_iff in Hs. destruct Hs as [r' [Heq Hs]].
    injection Heq as H1 H2. subst. auto.
  - intros [He Hs]. exists ss. split; [exact He |]. apply in_map_iff. exists r. auto.
Qed.

(* ---- bridges between the Counters and the declarative conditions ---- *)
Lemma synset_id_cmem : forall lex x, cmem (K x) (synset_ids lex) = true <-> is_synset_id lex x.
Proof.
  intros lex x. unfold synset_ids, is_synset_id. rewrite cmem_counter, in_map_iff. split.
  - intros [ss [He Hin]]. apply K_inj in He. exists ss. auto.
  - intros [ss [Hin He]]. exists ss. subst. auto.
Qed.

Lemma sense_id_cmem : forall lex x, cmem (K x) (sense_ids lex) = true <-> is_sense_id lex x.
Proof.
  intros lex x. unfold sense_ids, is_sense_id. rewrite cmem_counter, in_map_iff. split.
  - intros [[e s] [He Hin]]. simpl in He. apply K_inj in He. exists e, s. auto.
  - intros [e [s [Hin He]]]. exists (e, s). subst. auto.
Qed.

Lemma not_true_iff : forall b (P : Prop), (b = true <-> P) -> (negb b = true <-> ~ P).
Proof.
  intros b P H. destruct b; simpl.
  - split; [discriminate | intro Hn; exfalso; apply Hn, H; reflexivity].
  - split; [intros _ Hp; apply H in Hp; discriminate | reflexivity].
Qed.

Lemma opt_str_eqb_eq : forall a b, opt_str_eqb a b = true <-> a = b.
Proof.
  intros [a |] [b |]; simpl; try (split; intro H; [discriminate | discriminate]); try tauto.
  rewrite str_eqb_eq. split; intro H; [subst; reflexivity | injection H as H; exact H].
Qed.

(* E101 *)
Theorem E101_exact : forall lex k c,
    In (k, c) (non_unique_id lex) <->
    ((1 < occ k (all_ids lex))%nat /\ c = [(f_count, A (Z.of_nat (occ k (all_ids lex))))]).
Proof.
  intros lex k c. unfold non_unique_id, mult_items.
  set (l := [K (l_id lex)] ++ _).
  assert (Hocc : occ k l = occ k (all_ids lex)).
  { unfold l, all_ids, entry_ids, sense_ids, synset_ids.
    rewrite !occ_app, !occ_elements. reflexivity. }
  rewrite in_map_iff. split.
  - intros [[k' n] [He Hin]]. simpl in He. injection He as H1 H2. subst k'.
    apply in_multiples in Hin. destruct Hin as [Hn Hlt]. rewrite <- Hocc, <- Hn. auto.
  - intros [Hlt Hc]. exists (k, occ k l). simpl. split.
    + rewrite Hc, Hocc. reflexivity.
    + apply in_multiples. rewrite Hocc. auto.
Qed.

(* W201 *)
Theorem W201_exact : forall lex k,
    In k (keys (has_no_senses lex)) <-> exists e, In e (l_entries lex) /\ e_senses e = [] /\ k = K (e_id e).
Proof.
  intros lex k. unfold has_no_senses. rewrite keys_dict_map_filter. simpl. split.
  - intros [e [Hin [Hp Hk]]]. exists e. destruct (e_senses e); [auto | discriminate].
  - intros [e [Hin [Hp Hk]]]. exists e. rewrite Hp. auto.
Qed.

(* W202 *)
Theorem W202_exact : forall lex k,
    In k (keys (redundant_sense lex)) <->
    exists e s, In e (l_entries lex) /\ In s (e_senses e) /\ k = K (s_id s)
                /\ (1 < occ (K (s_synset s)) (map (fun s' => K (s_synset s')) (e_senses e)))%nat.
Proof.
  intros lex k. unfold redundant_sense. rewrite keys_dict_of, in_map_iff. split.
  - intros [[k' v] [Hk Hin]]. simpl in Hk. subst k'. apply in_flat_map in Hin.
    destruct Hin as [e [He Hin]]. apply in_map_iff in Hin. destruct Hin as [s [Heq Hs]].
    apply filter_In in Hs. destruct Hs as [Hs Hc]. apply cmem_multiples in Hc.
    injection Heq as H1 H2. exists e, s. auto.
  - intros [e [s [He [Hs [Hk Hocc]]]]].
    exists (K (s_id s), [(f_entry, K (e_id e)); (f_synset, K (s_synset s))]). split; [symmetry; exact Hk |].
    apply in_flat_map. exists e. split; [exact He |]. apply in_map_iff. exists s. split; [reflexivity |].
    apply filter_In. split; [exact Hs |]. apply cmem_multiples. exact Hocc.
Qed.

(* W203 *)
Theorem W203_exact : forall lex k,
    In k (keys (redundant_entry lex)) <->
    exists e s, In (e, s) (all_senses lex) /\ k = K (e_lemma e)
                /\ (1 < occ (L [K (e_lemma e); K (s_synset s)])
                            (map (fun es => L [K (e_lemma (fst es)); K (s_synset (snd es))]) (all_senses lex)))%nat.
Proof.
  intros lex k. unfold redundant_entry. rewrite keys_dict_of, map_map, in_map_iff. simpl. split.
  - intros [[x n] [Hk Hin]]. simpl in Hk. apply in_multiples in Hin. destruct Hin as [Hn Hlt].
    assert (Hx : In x (map (fun es => L [K (e_lemma (fst es)); K (s_synset (snd es))]) (all_senses lex))).
    { apply occ_pos. lia. }
    apply in_map_iff in Hx. destruct Hx as [[e s] [Hx Hes]]. simpl in Hx. subst x.
    exists e, s. split; [exact Hes |]. split; [symmetry; exact Hk | lia].
  - intros [e [s [Hes [Hk Hocc]]]].
    exists (L [K (e_lemma e); K (s_synset s)],
            occ (L [K (e_lemma e); K (s_synset s)])
                (map (fun es => L [K (e_lemma (fst es)); K (s_synset (snd es))]) (all_senses lex))).
    split; [symmetry; exact Hk |]. apply in_multiples. auto.
Qed.

(* E204 *)
Theorem E204_exact : forall lex k,
    In k (keys (missing_synset lex)) <->
    exists e s, In (e, s) (all_senses lex) /\ k = K (s_id s) /\ ~ is_synset_id lex (s_synset s).
Proof.
  intros lex k. unfold missing_synset. rewrite keys_dict_map_filter. simpl. split.
  - intros [[e s] [Hin [Hp Hk]]]. simpl in *. exists e, s.
    rewrite (not_true_iff _ _ (synset_id_cmem lex (s_synset s))) in Hp. auto.
  - intros [e [s [Hin [Hk Hp]]]]. exists (e, s). simpl.
    rewrite (not_true_iff _ _ (synset_id_cmem lex (s_synset s))). auto.
Qed.

(* W301 *)
Theorem W301_exact : forall lex k,
    In k (keys (empty_synset lex)) <->
    exists ss, In ss (l_synsets lex) /\ k = K (ss_id ss)
               /\ ~ (exists e s, In (e, s) (all_senses lex) /\ s_synset s = ss_id ss).
Proof.
  intros lex k. unfold empty_synset.
  assert (Hused : forall ss, sx_mem (K (ss_id ss)) (map (fun es => K (s_synset (snd es))) (all_senses lex)) = true
                             <-> exists e s, In (e, s) (all_senses lex) /\ s_synset s = ss_id ss).
  { intro ss. rewrite sx_mem_In, in_map_iff. split.
    - intros [[e s] [He Hin]]. simpl in He. apply K_inj in He. exists e, s. auto.
    - intros [e [s [Hin He]]]. exists (e, s). simpl. rewrite He. auto. }
  rewrite keys_dict_map_filter. simpl. split.
  - intros [ss [Hin [Hp Hk]]]. exists ss. rewrite (not_true_iff _ _ (Hused ss)) in Hp. auto.
  - intros [ss [Hin [Hk Hp]]]. exists ss. rewrite (not_true_iff _ _ (Hused ss)). auto.
Qed.

(* W302 *)
Theorem W302_exact : forall lex k,
    In k (keys (repeated_ili lex)) <->
    exists ss, In ss (l_synsets lex) /\ k = K (ss_id ss)
               /\ (1 < occ (K (ss_ili ss)) (map (fun x => K (ss_ili x)) (filter real_ili (l_synsets lex))))%nat.
Proof.
  intros lex k. unfold repeated_ili. rewrite keys_dict_map_filter. simpl. split.
  - intros [ss [Hin [Hp Hk]]]. exists ss. rewrite cmem_multiples in Hp. auto.
  - intros [ss [Hin [Hk Hp]]]. exists ss. rewrite cmem_multiples. auto.
Qed.

(* W303 *)
Theorem W303_exact : forall lex k,
    In k (keys (missing_ili_definition lex)) <->
    exists ss, In ss (l_synsets lex) /\ k = K (ss_id ss) /\ ss_ili ss = s_in /\ ss_ilidef ss = false.
Proof.
  intros lex k. unfold missing_ili_definition. rewrite keys_dict_map_filter. simpl. split.
  - intros [ss [Hin [Hp Hk]]]. exists ss. apply andb_true_iff in Hp. destruct Hp as [H1 H2].
    apply str_eqb_eq in H1. apply negb_true_iff in H2. auto.
  - intros [ss [Hin [Hk [H1 H2]]]]. exists ss. rewrite H1, H2, str_eqb_refl. auto.
Qed.

(* W304 *)
Theorem W304_exact : forall lex k,
    In k (keys (spurious_ili_definition lex)) <->
    exists ss, In ss (l_synsets lex) /\ k = K (ss_id ss) /\ real_ili ss = true /\ ss_ilidef ss = true.
Proof.
  intros lex k. unfold spurious_ili_definition. rewrite keys_dict_map_filter. simpl. split.
  - intros [ss [Hin [Hp Hk]]]. exists ss. apply andb_true_iff in Hp. tauto.
  - intros [ss [Hin [Hk [H1 H2]]]]. exists ss. rewrite H1, H2. auto.
Qed.

Theorem blank_spec : forall s, blank s = true <-> forall c, In c s -> is_space c = true.
Proof. intro s. unfold blank. apply forallb_forall. Qed.

(* W305 *)
Theorem W305_exact : forall lex k,
    In k (keys (blank_synset_definition lex)) <->
    exists ss d, In ss (l_synsets lex) /\ k = K (ss_id ss) /\ In d (ss_defs ss) /\ blank d = true.
Proof.
  intros lex k. unfold blank_synset_definition. rewrite keys_dict_map_filter. simpl. split.
  - intros [ss [Hin [Hp Hk]]]. apply existsb_exists in Hp. destruct Hp as [d [Hd Hb]]. exists ss, d. auto.
  - intros [ss [d [Hin [Hk [Hd Hb]]]]]. exists ss. split; [exact Hin |]. split; [| exact Hk].
    apply existsb_exists. exists d. auto.
Qed.

(* W306 *)
Theorem W306_exact : forall lex k,
    In k (keys (blank_synset_example lex)) <->
    exists ss d, In ss (l_synsets lex) /\ k = K (ss_id ss) /\ In d (ss_exs ss) /\ blank d = true.
Proof.
  intros lex k. unfold blank_synset_example. rewrite keys_dict_map_filter. simpl. split.
  - intros [ss [Hin [Hp Hk]]]. apply existsb_exists in Hp. destruct Hp as [d [Hd Hb]]. exists ss, d. auto.
  - intros [ss [d [Hin [Hk [Hd Hb]]]]]. exists ss. split; [exact Hin |]. split; [| exact Hk].
    apply existsb_exists. exists d. auto.
Qed.

(* W307 *)
Theorem W307_exact : forall lex k,
    In k (keys (repeated_synset_definition lex)) <->
    exists ss d, In ss (l_synsets lex) /\ k = K (ss_id ss) /\ In d (ss_defs ss)
                 /\ (1 < occ (K d) (map K (flat_map ss_defs (l_synsets lex))))%nat.
Proof.
  intros lex k. unfold repeated_synset_definition. rewrite keys_dict_map_filter. simpl. split.
  - intros [ss [Hin [Hp Hk]]]. apply existsb_exists in Hp. destruct Hp as [d [Hd Hb]].
    apply cmem_multiples in Hb. exists ss, d. auto.
  - intros [ss [d [Hin [Hk [Hd Hb]]]]]. exists ss. split; [exact Hin |]. split; [| exact Hk].
    apply existsb_exists. exists d. split; [exact Hd |]. apply cmem_multiples. exact Hb.
Qed.

(* keys of a dictionary built from two filtered, mapped lists *)
Lemma keys_dict_app2 : forall (T U : Type) (f : T -> sx * ctx) (p : T -> bool) (l : list T)
                              (g : U -> sx * ctx) (q : U -> bool) (m : list U) k,
    In k (keys (dict_of (map f (filter p l) ++ map g (filter q m)))) <->
    (exists x, In x l /\ p x = true /\ k = fst (f x)) \/ (exists y, In y m /\ q y = true /\ k = fst (g y)).
Proof.
  intros T U f p l g q m k. rewrite keys_dict_of, map_app, in_app_iff.
  rewrite <- (keys_dict_of (map f (filter p l))), <- (keys_dict_of (map g (filter q m))).
  rewrite !keys_dict_map_filter. reflexivity.
Qed.

(* E401 *)
Theorem E401_exact : forall lex k,
    In k (keys (missing_relation_target lex)) <->
    (exists s r, In (s, r) (sense_relations lex) /\ k = K (s_id s)
                 /\ ~ is_sense_id lex (r_target r) /\ ~ is_synset_id lex (r_target r))
    \/ (exists ss r, In (ss, r) (synset_relations lex) /\ k = K (ss_id ss) /\ ~ is_synset_id lex (r_target r)).
Proof.
  intros lex k. unfold missing_relation_target. rewrite keys_dict_app2. simpl. split.
  - intros [[[s r] [Hin [Hp Hk]]] | [[ss r] [Hin [Hp Hk]]]]; simpl in *.
    + left. exists s, r. apply andb_true_iff in Hp. destruct Hp as [H1 H2].
      rewrite (not_true_iff _ _ (sense_id_cmem lex (r_target r))) in H1.
      rewrite (not_true_iff _ _ (synset_id_cmem lex (r_target r))) in H2. auto.
    + right. exists ss, r. rewrite (not_true_iff _ _ (synset_id_cmem lex (r_target r))) in Hp. auto.
  - intros [[s [r [Hin [Hk [H1 H2]]]]] | [ss [r [Hin [Hk H1]]]]].
    + left. exists (s, r). simpl. split; [exact Hin |]. split; [| exact Hk].
      apply andb_true_iff. split.
      * apply (not_true_iff _ _ (sense_id_cmem lex (r_target r))). exact H1.
      * apply (not_true_iff _ _ (synset_id_cmem lex (r_target r))). exact H2.
    + right. exists (ss, r). simpl. split; [exact Hin |]. split; [| exact Hk].
      apply (not_true_iff _ _ (synset_id_cmem lex (r_target r))). exact H1.
Qed.

(* W402 *)
Theorem W402_exact : forall lex k,
    In k (keys (invalid_relation_type lex)) <->
    (exists s r, In (s, r) (sense_relations lex) /\ k = K (s_id s)
                 /\ ((is_sense_id lex (r_target r) /\ smem (r_type r) SENSE_RELATIONS = false)
                     \/ (is_synset_id lex (r_target r) /\ smem (r_type r) SENSE_SYNSET_RELATIONS = false)))
    \/ (exists ss r, In (ss, r) (synset_relations lex) /\ k = K (ss_id ss)
                     /\ smem (r_type r) SYNSET_RELATIONS = false).
Proof.
  intros lex k. unfold invalid_relation_type. rewrite keys_dict_app2. simpl. split.
  - intros [[[s r] [Hin [Hp Hk]]] | [[ss r] [Hin [Hp Hk]]]]; simpl in *.
    + left. exists s, r. split; [exact Hin |]. split; [exact Hk |].
      apply orb_true_iff in Hp. destruct Hp as [Hp | Hp]; apply andb_true_iff in Hp;
        destruct Hp as [H1 H2]; apply negb_true_iff in H2.
      * left. apply sense_id_cmem in H1. auto.
      * right. apply synset_id_cmem in H1. auto.
    + right. exists ss, r. apply negb_true_iff in Hp. auto.
  - intros [[s [r [Hin [Hk Hp]]]] | [ss [r [Hin [Hk H1]]]]].
    + left. exists (s, r). simpl. split; [exact Hin |]. split; [| exact Hk].
      apply orb_true_iff. destruct Hp as [[H1 H2] | [H1 H2]]; [left | right];
        apply andb_true_iff; (split; [| apply negb_true_iff; exact H2]).
      * apply sense_id_cmem. exact H1.
      * apply synset_id_cmem. exact H1.
    + right. exists (ss, r). simpl. split; [exact Hin |]. split; [| exact Hk].
      apply negb_true_iff. exact H1.
Qed.

(* W403 *)
Theorem W403_exact : forall lex k,
    In k (keys (redundant_relation lex)) <->
    exists rk, In rk (all_rel_keys lex) /\ k = sx_nth 0 rk /\ (1 < occ rk (all_rel_keys lex))%nat.
Proof.
  intros lex k. unfold redundant_relation. fold (all_rel_keys lex).
  rewrite keys_dict_of, map_map, in_map_iff. split.
  - intros [[x n] [Hk Hin]]. cbv beta zeta in Hk. simpl fst in Hk.
    apply in_multiples in Hin. destruct Hin as [Hn Hlt].
    exists x. split; [apply occ_pos; lia |]. split; [symmetry; exact Hk | lia].
  - intros [rk [Hin [Hk Hocc]]]. exists (rk, occ rk (all_rel_keys lex)).
    split; [symmetry; exact Hk |]. apply in_multiples. auto.
Qed.

(* W404 *)
Lemma in_ordered_set : forall l x, In x (ordered_set l) <-> In x l.
Proof.
  induction l as [| y l IH]; intro x; simpl; [tauto |].
  rewrite filter_In, IH. split.
  - intros [H | [H _]]; auto.
  - intros [H | H]; [left; exact H |]. destruct (sx_eqb x y) eqn:E.
    + apply sx_eqb_eq in E. left. symmetry. exact E.
    + right. auto.
Qed.

Lemma triple_inj : forall a b c a' b' c', triple a b c = triple a' b' c' -> a = a' /\ b = b' /\ c = c'.
Proof.
  unfold triple. intros a b c a' b' c' H. injection H as H1 H2 H3.
  apply map_A_inj in H1. apply map_A_inj in H2. apply map_A_inj in H3. auto.
Qed.

Definition reg_list (lex : lexicon) : list sx :=
  map (fun sr => triple (s_id (fst sr)) (r_type (snd sr)) (r_target (snd sr)))
      (filter (fun sr => cmem (K (r_target (snd sr))) (sense_ids lex)) (sense_relations lex))
  ++ map (fun sr => triple (ss_id (fst sr)) (r_type (snd sr)) (r_target (snd sr)))
         (synset_relations lex).

Lemma in_reg_list_shape : forall lex x, In x (reg_list lex) -> exists a t b, x = triple a t b.
Proof.
  intros lex x H. unfold reg_list in H. apply in_app_iff in H. destruct H as [H | H];
    apply in_map_iff in H; destruct H as [[s r] [He _]]; simpl in He; eauto.
Qed.

Lemma in_reg_list : forall lex a t b, In (triple a t b) (reg_list lex) <-> regular lex a t b.
Proof.
  intros lex a t b. unfold reg_list, regular. rewrite in_app_iff, !in_map_iff. split.
  - intros [[[s r] [He Hin]] | [[ss r] [He Hin]]]; simpl in He; apply triple_inj in He;
      destruct He as [H1 [H2 H3]].
    + left. apply filter_In in Hin. destruct Hin as [Hin Hc]. simpl in Hc.
      apply sense_id_cmem in Hc. rewrite H3 in Hc. exists s, r. auto.
    + right. exists ss, r. auto.
  - intros [[s [r [Hin [H1 [H2 [H3 H4]]]]]] | [ss [r [Hin [H1 [H2 H3]]]]]].
    + left. exists (s, r). simpl. subst. split; [reflexivity |]. apply filter_In.
      split; [exact Hin |]. simpl. apply sense_id_cmem. exact H4.
    + right. exists (ss, r). simpl. subst. auto.
Qed.

Theorem W404_exact : forall lex k,
    In k (keys (missing_reverse_relation lex)) <->
    exists src typ rv tgt, k = K tgt /\ regular lex src typ tgt /\ reverse_of typ = Some rv
                           /\ ~ regular lex tgt rv src.
Proof.
  intros lex k. unfold missing_reverse_relation. fold (reg_list lex).
  rewrite keys_dict_of, in_map_iff. split.
  - intros [[k' v] [Hk Hin]]. simpl in Hk. subst k'. apply in_flat_map in Hin.
    destruct Hin as [t [Ht Hin]]. rewrite in_ordered_set in Ht.
    destruct (in_reg_list_shape lex t Ht) as [a [ty [b Heq]]]. subst t.
    rewrite in_reg_list in Ht.
    change (sx_nth 1 (triple a ty b)) with (K ty) in Hin.
    change (sx_nth 2 (triple a ty b)) with (K b) in Hin.
    change (sx_nth 0 (triple a ty b)) with (K a) in Hin.
    rewrite sx_str_K in Hin. destruct (reverse_of ty) as [rv |] eqn:Erv; [| destruct Hin].
    fold (triple b rv a) in Hin.
    destruct (sx_mem (triple b rv a) (ordered_set (reg_list lex))) eqn:Em; [destruct Hin |].
    destruct Hin as [Hin | []]. injection Hin as Hk _.
    exists a, ty, rv, b. split; [symmetry; exact Hk |]. split; [exact Ht |]. split; [exact Erv |].
    intro Hr. rewrite <- in_reg_list, <- in_ordered_set, <- sx_mem_In in Hr. congruence.
  - intros [a [ty [rv [b [Hk [Hr [Hrv Hn]]]]]]].
    exists (K b, [(f_type, K rv); (f_target, K a)]). split; [symmetry; exact Hk |].
    apply in_flat_map. exists (triple a ty b). split; [rewrite in_ordered_set, in_reg_list; exact Hr |].
    change (sx_nth 1 (triple a ty b)) with (K ty).
    change (sx_nth 2 (triple a ty b)) with (K b).
    change (sx_nth 0 (triple a ty b)) with (K a).
    rewrite sx_str_K, Hrv. fold (triple b rv a).
    destruct (sx_mem (triple b rv a) (ordered_set (reg_list lex))) eqn:Em; [| left; reflexivity].
    exfalso. apply Hn. rewrite sx_mem_In, in_ordered_set, in_reg_list in Em. exact Em.
Qed.

(* W501 *)
Theorem W501_exact : forall lex k,
    In k (keys (hypernym_wrong_pos lex)) <->
    exists ss r p, In (ss, r) (synset_relations lex) /\ k = K (ss_id ss) /\ r_type r = s_hypernym
                   /\ sspos lex (r_target r) = Some p /\ ss_pos ss <> p.
Proof.
  intros lex k. unfold hypernym_wrong_pos. rewrite keys_dict_map_filter. split.
  - intros [[ss r] [Hin [Hp Hk]]]. simpl in *. apply andb_true_iff in Hp. destruct Hp as [H1 H2].
    apply str_eqb_eq in H1. destruct (sspos lex (r_target r)) as [p |] eqn:Ep; [| discriminate].
    exists ss, r, p. rewrite (not_true_iff _ _ (opt_str_eqb_eq (ss_pos ss) p)) in H2.
    split; [exact Hin |]. split; [exact Hk |]. split; [exact H1 |]. split; [exact Ep | exact H2].
  - intros [ss [r [p [Hin [Hk [H1 [H2 H3]]]]]]]. exists (ss, r). simpl. split; [exact Hin |].
    split; [| exact Hk]. rewrite H1, str_eqb_refl, H2. simpl.
    apply (not_true_iff _ _ (opt_str_eqb_eq (ss_pos ss) p)). exact H3.
Qed.

(* W502 *)
Theorem W502_exact : forall lex k,
    In k (keys (self_loop lex)) <->
    (exists s r, In (s, r) (sense_relations lex) /\ k = K (s_id s) /\ s_id s = r_target r)
    \/ (exists ss r, In (ss, r) (synset_relations lex) /\ k = K (ss_id ss) /\ ss_id ss = r_target r).
Proof.
  intros lex k. unfold self_loop. rewrite keys_dict_app2. simpl. split.
  - intros [[[s r] [Hin [Hp Hk]]] | [[ss r] [Hin [Hp Hk]]]]; simpl in *; apply str_eqb_eq in Hp.
    + left. exists s, r. auto.
    + right. exists ss, r. auto.
  - intros [[s [r [Hin [Hk Hp]]]] | [ss [r [Hin [Hk Hp]]]]].
    + left. exists (s, r). simpl. split; [exact Hin |]. split; [apply str_eqb_eq; exact Hp | exact Hk].
    + right. exists (ss, r). simpl. split; [exact Hin |]. split; [apply str_eqb_eq; exact Hp | exact Hk].
Qed.

(* the reverse-relation table is an involution *)
Lemma reverse_table_check :
  forallb (fun kv : string * string =>
             match reverse_of (str_of_string (snd kv)) with
             | Some x => str_eqb x (str_of_string (fst kv))
             | None => false
             end) REVERSE_RELATIONS = true.
Proof. vm_compute. reflexivity. Qed.

Theorem reverse_involution : forall a b, reverse_of a = Some b -> reverse_of b = Some a.
Proof.
  intros a b H. unfold reverse_of in H.
  destruct (find (fun kv : string * string => str_eqb (str_of_string (fst kv)) a) REVERSE_RELATIONS)
    as [kv |] eqn:E; [| discriminate].
  injection H as H. apply find_some in E. destruct E as [Hin He]. apply str_eqb_eq in He.
  pose proof (proj1 (forallb_forall _ _) reverse_table_check kv Hin) as Hc. cbv beta in Hc.
  rewrite H in Hc. destruct (reverse_of b) as [x |]; [| discriminate].
  apply str_eqb_eq in Hc. rewrite Hc, He. reflexivity.
Qed.

(* every context value reported for a key comes from some entity with that key *)
Theorem dict_of_sound : forall l k v, In (k, v) (dict_of l) -> In (k, v) l.
Proof. exact dict_of_sound_aux. Qed.

(* ================= assumptions ================= *)
Print Assumptions validate_total.
Print Assumptions validate_selected.
Print Assumptions validate_items.
Print Assumptions validate_extension.
Print Assumptions E101_exact.
Print Assumptions W201_exact.
Print Assumptions W202_exact.
Print Assumptions W203_exact.
Print Assumptions E204_exact.
Print Assumptions W301_exact.
Print Assumptions W302_exact.
Print Assumptions W303_exact.
Print Assumptions W304_exact.
Print Assumptions blank_spec.
Print Assumptions W305_exact.
Print Assumptions W306_exact.
Print Assumptions W307_exact.
Print Assumptions E401_exact.
Print Assumptions W402_exact.
Print Assumptions W403_exact.
Print Assumptions W404_exact.
Print Assumptions W501_exact.
Print Assumptions W502_exact.
Print Assumptions reverse_involution.
Print Assumptions dict_of_sound.
