(* Proofs/TaxAssembly.v — the C13 theorems about common hypernyms, shortest
   paths, lowest common hypernyms and the taxonomy depth, assembled from the
   path-enumeration lemmas (TaxPaths.v) and the reachability lemmas (TaxReach.v). *)
From Coq Require Import ZArith List Bool Lia Arith Sorted.
Import ListNotations.
Require Import WnV.Base.Sx WnV.Model.Taxonomy WnV.Proofs.TaxSpec WnV.Proofs.TaxPaths WnV.Proofs.TaxReach.

(* ---------- generic helpers ---------- *)

Lemma nodup_keep_In : forall l c, In c (nodup_keep l) <-> In c l.
Proof.
  intros l. induction l as [|x l IH]; intros c; simpl.
  - tauto.
  - rewrite filter_In, IH. split.
    + intros [He|[Hc _]]; auto.
    + intros [He|Hc]; auto.
      destruct (Z.eq_dec x c) as [Hxc|Hxc]; auto.
      right. split; auto. apply negb_true_iff. apply Z.eqb_neq. auto.
Qed.

Lemma nodup_keep_NoDup : forall l, NoDup (nodup_keep l).
Proof.
  intros l. induction l as [|x l IH]; simpl.
  - constructor.
  - constructor.
    + rewrite filter_In. intros [_ Hx]. rewrite Z.eqb_refl in Hx. discriminate.
    + apply NoDup_filter. auto.
Qed.

Lemma common_of_In : forall pa pb c,
    In c (common_of pa pb) <-> (In c (concat pa) /\ In c (concat pb)).
Proof.
  intros pa pb c. unfold common_of. rewrite nodup_keep_In, filter_In, nmem_In. tauto.
Qed.

(* sort_nodes: insertion sort by rowid *)
Lemma insert_node_In : forall x l z, In z (insert_node x l) <-> (z = x \/ In z l).
Proof.
  intros x l z. induction l as [|y l IH]; simpl.
  - split; [intros [H|[]]; auto|intros [H|[]]; auto].
  - destruct (Z.leb x y); simpl; [|rewrite IH]; split; intros H; intuition auto.
Qed.

Lemma sort_nodes_In : forall l z, In z (sort_nodes l) <-> In z l.
Proof.
  intros l z. induction l as [|x l IH]; simpl.
  - tauto.
  - rewrite insert_node_In, IH. split; intros [H|H]; auto.
Qed.

Lemma insert_node_NoDup : forall x l, ~ In x l -> NoDup l -> NoDup (insert_node x l).
Proof.
  intros x l. induction l as [|y l IH]; intros Hn Hnd; simpl.
  - constructor; auto.
  - destruct (Z.leb x y).
    + constructor; auto.
    + inversion Hnd as [|y' l' Hy Hnd']; subst. constructor.
      * rewrite insert_node_In. intros [He|Hin]; [|contradiction].
        apply Hn. simpl; auto.
      * apply IH; auto. intros Hin. apply Hn. simpl; auto.
Qed.

Lemma sort_nodes_NoDup : forall l, NoDup l -> NoDup (sort_nodes l).
Proof.
  intros l Hnd. induction Hnd as [|x l Hx Hnd IH]; simpl.
  - constructor.
  - apply insert_node_NoDup; auto. rewrite sort_nodes_In. auto.
Qed.

Lemma insert_node_StronglySorted : forall x l,
    StronglySorted Z.le l -> StronglySorted Z.le (insert_node x l).
Proof.
  intros x l Hs. induction Hs as [|y l Hs IH Hall]; simpl.
  - constructor; constructor.
  - destruct (Z.leb x y) eqn:Hxy.
    + apply Z.leb_le in Hxy. constructor.
      * constructor; auto.
      * constructor; auto. rewrite Forall_forall in *. intros z Hz.
        specialize (Hall z Hz). lia.
    + apply Z.leb_gt in Hxy. constructor; auto.
      rewrite Forall_forall in *. intros z Hz. apply insert_node_In in Hz.
      destruct Hz as [->|Hz]; [lia|auto].
Qed.

Lemma sort_nodes_StronglySorted : forall l, StronglySorted Z.le (sort_nodes l).
Proof.
  intros l. induction l as [|x l IH]; simpl.
  - constructor.
  - apply insert_node_StronglySorted. auto.
Qed.

Lemma sort_nodes_Sorted : forall l, Sorted Z.le (sort_nodes l).
Proof. intros l. apply StronglySorted_Sorted. apply sort_nodes_StronglySorted. Qed.

(* a strictly sorted list is determined by its elements *)
Lemma sorted_unique : forall l1 l2 : list Z,
    StronglySorted Z.le l1 -> StronglySorted Z.le l2 -> NoDup l1 -> NoDup l2 ->
    (forall z, In z l1 <-> In z l2) -> l1 = l2.
Proof.
  intros l1. induction l1 as [|x l1 IH]; intros l2 Hs1 Hs2 Hn1 Hn2 Heq.
  - destruct l2 as [|y l2]; auto. exfalso. apply (Heq y). simpl; auto.
  - destruct l2 as [|y l2]; [exfalso; apply (Heq x); simpl; auto|].
    inversion Hs1 as [|x' l1' Hs1' Hall1]; subst.
    inversion Hs2 as [|y' l2' Hs2' Hall2]; subst.
    inversion Hn1 as [|x' l1' Hx Hn1']; subst.
    inversion Hn2 as [|y' l2' Hy Hn2']; subst.
    rewrite Forall_forall in Hall1, Hall2.
    assert (x = y) as Hxy.
    { assert (In x (y :: l2)) as H1 by (apply Heq; simpl; auto).
      assert (In y (x :: l1)) as H2 by (apply Heq; simpl; auto).
      destruct H1 as [H1|H1]; auto. destruct H2 as [H2|H2]; auto.
      specialize (Hall1 _ H2). specialize (Hall2 _ H1). lia. }
    subst y. f_equal. apply IH; auto.
    intros z. split; intros Hz.
    + assert (In z (x :: l2)) as H1 by (apply Heq; simpl; auto).
      destruct H1 as [H1|H1]; auto. subst z. contradiction.
    + assert (In z (x :: l1)) as H1 by (apply Heq; simpl; auto).
      destruct H1 as [H1|H1]; auto. subst z. contradiction.
Qed.

Lemma filter_map_comm : forall (A B : Type) (f : A -> B) (P : B -> bool) (l : list A),
    filter P (map f l) = map f (filter (fun x => P (f x)) l).
Proof.
  intros A B f P l. induction l as [|x l IH]; simpl; auto.
  destruct (P (f x)); simpl; rewrite IH; reflexivity.
Qed.

Lemma map_flat_map : forall (A B C : Type) (g : B -> C) (f : A -> list B) (l : list A),
    map g (flat_map f l) = flat_map (fun x => map g (f x)) l.
Proof.
  intros A B C g f l. induction l as [|x l IH]; simpl; auto.
  rewrite map_app, IH. reflexivity.
Qed.

Lemma flat_map_ext_all : forall (A B : Type) (f g : A -> list B) (l : list A),
    (forall x, f x = g x) -> flat_map f l = flat_map g l.
Proof.
  intros A B f g l H. induction l as [|x l IH]; simpl; auto. rewrite H, IH. reflexivity.
Qed.

(* index_of *)
Lemma index_of_Some : forall c p i,
    index_of c p = Some i ->
    exists p1 p2, p = p1 ++ c :: p2 /\ length p1 = i /\ ~ In c p1.
Proof.
  intros c p. induction p as [|y p IH]; intros i H; simpl in H.
  - discriminate.
  - destruct (Z.eqb y c) eqn:Hyc.
    + apply Z.eqb_eq in Hyc. inversion H; subst. exists [], p. simpl. auto.
    + destruct (index_of c p) as [j|] eqn:Hj; [|discriminate].
      simpl in H. inversion H; subst.
      destruct (IH j eq_refl) as (p1 & p2 & Hp & Hl & Hn).
      exists (y :: p1), p2. subst p. simpl. repeat split; auto.
      apply Z.eqb_neq in Hyc. intros [He|Hin]; auto.
Qed.

Lemma index_of_None : forall c p, index_of c p = None <-> ~ In c p.
Proof.
  intros c p. induction p as [|y p IH]; simpl.
  - split; auto.
  - destruct (Z.eqb y c) eqn:Hyc.
    + apply Z.eqb_eq in Hyc. split; [discriminate|]. intros Hn. exfalso. apply Hn. auto.
    + apply Z.eqb_neq in Hyc. destruct (index_of c p) as [j|]; simpl.
      * split; [discriminate|]. intros Hn. exfalso.
        destruct IH as [_ IH]. assert (~ In c p) as Hc by (intros Hc; apply Hn; auto).
        specialize (IH Hc). discriminate.
      * split; auto. intros _ [He|Hin]; auto. destruct IH as [IH _]. apply IH; auto.
Qed.

Lemma index_of_app : forall c p1 p2,
    ~ In c p1 -> index_of c (p1 ++ c :: p2) = Some (length p1).
Proof.
  intros c p1. induction p1 as [|y p1 IH]; intros p2 Hn; simpl.
  - rewrite Z.eqb_refl. reflexivity.
  - assert (y <> c) as Hyc by (intros He; apply Hn; simpl; auto).
    apply Z.eqb_neq in Hyc. rewrite Hyc. rewrite IH; auto.
    intros Hin. apply Hn. simpl; auto.
Qed.

Lemma index_of_In : forall c p, In c p -> exists i, index_of c p = Some i.
Proof.
  intros c p Hin. destruct (index_of c p) as [i|] eqn:Hi; eauto.
  apply index_of_None in Hi. contradiction.
Qed.

(* the first index is below every position of c *)
Lemma index_of_le : forall c p i m,
    index_of c p = Some i -> nth_error p m = Some c -> i <= m.
Proof.
  intros c p i m Hi Hm. destruct (index_of_Some _ _ _ Hi) as (p1 & p2 & -> & Hl & Hn).
  destruct (Nat.le_gt_cases i m) as [Hle|Hgt]; auto.
  exfalso. apply Hn. rewrite nth_error_app1 in Hm by lia.
  apply nth_error_In in Hm. auto.
Qed.

Lemma index_of_nth : forall c p i, index_of c p = Some i -> nth_error p i = Some c.
Proof.
  intros c p i Hi. destruct (index_of_Some _ _ _ Hi) as (p1 & p2 & -> & Hl & Hn).
  rewrite nth_error_app2 by lia. subst i. rewrite Nat.sub_diag. reflexivity.
Qed.

Lemma firstn_S_app : forall (p1 : list node) c p2,
    firstn (S (length p1)) (p1 ++ c :: p2) = p1 ++ [c].
Proof.
  intros p1 c p2. induction p1 as [|y p1 IH].
  - reflexivity.
  - simpl length. rewrite <- app_comm_cons. rewrite firstn_cons. rewrite IH. reflexivity.
Qed.

(* best_prefix *)
Definition bp_step (c : node) (best : option (list node)) (p : list node) :=
  match index_of c p with
  | None => best
  | Some i =>
      let pre := firstn (S i) p in
      match best with
      | None => Some pre
      | Some b => if Nat.ltb (length pre) (length b) then Some pre else best
      end
  end.

Definition bp_inv (c : node) (best : option (list node)) (ps : list (list node)) : Prop :=
  match best with
  | None => forall p, In p ps -> ~ In c p
  | Some b => exists p1 p2, In (p1 ++ c :: p2) ps /\ ~ In c p1 /\ b = p1 ++ [c]
                           /\ forall q j, In q ps -> index_of c q = Some j -> length p1 <= j
  end.

Lemma bp_fold : forall c paths done best,
    bp_inv c best done ->
    bp_inv c (fold_left (bp_step c) paths best) (done ++ paths).
Proof.
  intros c paths. induction paths as [|p paths IH]; intros done best Hinv.
  - simpl. rewrite app_nil_r. auto.
  - simpl fold_left.
    replace (done ++ p :: paths) with ((done ++ [p]) ++ paths)
      by (rewrite <- app_assoc; reflexivity).
    apply IH. unfold bp_step.
    destruct (index_of c p) as [i|] eqn:Hi.
    + destruct (index_of_Some _ _ _ Hi) as (p1 & p2 & Hp & Hl & Hn).
      assert (firstn (S i) p = p1 ++ [c]) as Hpre
          by (subst p i; apply firstn_S_app).
      cbv zeta. rewrite Hpre.
      destruct best as [b|].
      * destruct Hinv as (b1 & b2 & Hbin & Hbn & -> & Hbmin).
        destruct (Nat.ltb (length (p1 ++ [c])) (length (b1 ++ [c]))) eqn:Hlt.
        -- apply Nat.ltb_lt in Hlt. rewrite !app_length in Hlt. simpl in Hlt.
           exists p1, p2. repeat split; auto.
           ++ rewrite in_app_iff. right. left. auto.
           ++ intros q j Hq Hj. apply in_app_iff in Hq. destruct Hq as [Hq|[<-|[]]].
              ** specialize (Hbmin q j Hq Hj). lia.
              ** rewrite Hi in Hj. inversion Hj. lia.
        -- apply Nat.ltb_ge in Hlt. rewrite !app_length in Hlt. simpl in Hlt.
           exists b1, b2. repeat split; auto.
           ++ rewrite in_app_iff. auto.
           ++ intros q j Hq Hj. apply in_app_iff in Hq. destruct Hq as [Hq|[<-|[]]].
              ** apply (Hbmin q j Hq Hj).
              ** rewrite Hi in Hj. inversion Hj. lia.
      * exists p1, p2. repeat split; auto.
        -- rewrite in_app_iff. right. left. auto.
        -- intros q j Hq Hj. apply in_app_iff in Hq. destruct Hq as [Hq|[<-|[]]].
           ++ exfalso. apply (Hinv q Hq).
              destruct (index_of_Some _ _ _ Hj) as (q1 & q2 & -> & _ & _).
              rewrite in_app_iff. simpl. auto.
           ++ rewrite Hi in Hj. inversion Hj. lia.
    + apply index_of_None in Hi. destruct best as [b|].
      * destruct Hinv as (b1 & b2 & Hbin & Hbn & -> & Hbmin).
        exists b1, b2. repeat split; auto.
        -- rewrite in_app_iff. auto.
        -- intros q j Hq Hj. apply in_app_iff in Hq. destruct Hq as [Hq|[<-|[]]].
           ++ apply (Hbmin q j Hq Hj).
           ++ exfalso. apply Hi.
              destruct (index_of_Some _ _ _ Hj) as (q1 & q2 & -> & _ & _).
              rewrite in_app_iff. simpl. auto.
      * intros q Hq. apply in_app_iff in Hq. destruct Hq as [Hq|[<-|[]]]; auto.
Qed.

Lemma best_prefix_inv : forall c paths, bp_inv c (best_prefix c paths) paths.
Proof.
  intros c paths. unfold best_prefix.
  change (bp_inv c (fold_left (bp_step c) paths None) ([] ++ paths)).
  apply bp_fold. simpl. intros p [].
Qed.

Lemma best_prefix_Some : forall c paths,
    In c (concat paths) ->
    exists p1 p2, In (p1 ++ c :: p2) paths /\ ~ In c p1
                  /\ best_prefix c paths = Some (p1 ++ [c])
                  /\ forall q j, In q paths -> index_of c q = Some j -> length p1 <= j.
Proof.
  intros c paths Hin. pose proof (best_prefix_inv c paths) as Hinv.
  destruct (best_prefix c paths) as [b|].
  - destruct Hinv as (p1 & p2 & H1 & H2 & -> & H3). exists p1, p2. auto.
  - exfalso. apply in_concat in Hin. destruct Hin as (q & Hq & Hc).
    apply (Hinv q Hq Hc).
Qed.

(* the argmin fold of shortest_path *)
Lemma argmin_fold : forall (T : Type) (g : T -> nat) (pm : list T) (e : T),
    let f := fun best e' => if Nat.ltb (g e') (g best) then e' else best in
    In (fold_left f pm e) (e :: pm)
    /\ g (fold_left f pm e) = fold_left Nat.min (map g pm) (g e).
Proof.
  intros T g pm. induction pm as [|e' pm IH]; intros e f.
  - simpl. auto.
  - simpl fold_left. destruct (IH (f e e')) as [Hin He]. fold f in Hin, He. split.
    + destruct Hin as [Hin|Hin]; [|simpl; auto].
      rewrite <- Hin. unfold f. destruct (Nat.ltb (g e') (g e)); simpl; auto.
    + rewrite He. f_equal. unfold f.
      destruct (Nat.ltb (g e') (g e)) eqn:Hlt.
      * apply Nat.ltb_lt in Hlt. lia.
      * apply Nat.ltb_ge in Hlt. lia.
Qed.

Lemma tl_app_nonempty : forall (T : Type) (l1 l2 : list T), l1 <> [] -> tl (l1 ++ l2) = tl l1 ++ l2.
Proof. intros T l1 l2 H. destruct l1; [contradiction|reflexivity]. Qed.

Section TaxAssembly.
  Variable hyp : node -> list node.

  (* an undirected hypernym path: consecutive synsets linked by hypernymy in either direction *)
  Inductive upath : node -> list node -> Prop :=
  | upath_nil : forall x, upath x []
  | upath_cons : forall x y p, (In y (hyp x) \/ In x (hyp y)) -> upath y p -> upath x (y :: p).

  Definition is_max_depth (c : node) (d : nat) : Prop :=
    (exists p, maximal_simple hyp c p /\ length p = d) /\ (forall p, maximal_simple hyp c p -> length p <= d).

  (* the standing assumptions: a finite closed graph that does not mention the simulated root *)
  Definition graph_ok (V : list node) : Prop := closed hyp V /\ ~ In root V.

  Lemma graph_ok_ne_root : forall V a, graph_ok V -> In a V -> a <> root.
  Proof. intros V a [_ Hr] Ha ->. contradiction. Qed.

  (* membership in the paths (self included) = reachability *)
  Lemma self_paths_reach : forall V fuel a pa c,
      graph_ok V -> In a V ->
      hypernym_paths_gen hyp fuel a false true = Some pa ->
      (In c (concat pa) <-> reach hyp a c).
  Proof.
    intros V fuel a pa c HG Ha Hpa.
    pose proof (graph_ok_ne_root _ _ HG Ha) as Hne.
    rewrite <- (on_maximal_chain_iff_reach hyp V a c (proj1 HG) Ha).
    rewrite in_concat. split.
    - intros (q & Hq & Hc). apply (hypernym_paths_self_spec hyp _ _ _ Hne Hpa) in Hq.
      destruct Hq as (p & -> & HM). exists p. auto.
    - intros (p & HM & Hc). exists (a :: p). split; auto.
      apply (hypernym_paths_self_spec hyp _ _ _ Hne Hpa). exists p. auto.
  Qed.

  (* A *)
  Theorem common_hypernyms_spec : forall V fuel a b cs,
      graph_ok V -> In a V -> In b V ->
      common_hypernyms hyp fuel a b false = Some cs ->
      NoDup cs /\ (forall c, In c cs <-> (reach hyp a c /\ reach hyp b c)).
  Proof.
    intros V fuel a b cs HG Ha Hb H. unfold common_hypernyms in H.
    destruct (hypernym_paths_gen hyp fuel a false true) as [pa|] eqn:Hpa; [|discriminate].
    destruct (hypernym_paths_gen hyp fuel b false true) as [pb|] eqn:Hpb; [|discriminate].
    inversion H; subst. clear H. split.
    - apply sort_nodes_NoDup. apply nodup_keep_NoDup.
    - intros c. rewrite sort_nodes_In, common_of_In.
      rewrite (self_paths_reach V fuel a pa c HG Ha Hpa).
      rewrite (self_paths_reach V fuel b pb c HG Hb Hpb). tauto.
  Qed.

  (* ---------- the shortest prefixes ---------- *)

  Lemma is_dist_reach : forall x c n, is_dist hyp x c n -> reach hyp x c.
  Proof. intros x c n [(p & Hc & Hl & _) _]. exists p. auto. Qed.

  Lemma is_dist_self : forall x, is_dist hyp x x 0.
  Proof.
    intros x. split.
    - exists []. repeat split; constructor.
    - intros p _ _. lia.
  Qed.

  Lemma best_prefix_self : forall V fuel a pa c,
      graph_ok V -> In a V ->
      hypernym_paths_gen hyp fuel a false true = Some pa ->
      In c (concat pa) ->
      exists ua, best_prefix c pa = Some (a :: ua) /\ chain hyp a ua /\ last ua a = c
                 /\ is_dist hyp a c (length ua).
  Proof.
    intros V fuel a pa c HG Ha Hpa Hc.
    pose proof (graph_ok_ne_root _ _ HG Ha) as Hne.
    destruct (best_prefix_Some c pa Hc) as (p1 & p2 & Hin & Hn & Hbest & Hmin).
    assert (is_dist hyp a c (length p1)) as Hdist.
    { apply (min_index_is_dist hyp V a c _ (proj1 HG) Ha).
      apply (hypernym_paths_self_spec hyp _ _ _ Hne Hpa) in Hin.
      destruct Hin as (p & Hp & HM). split.
      - exists p. split; auto. rewrite <- Hp.
        rewrite nth_error_app2 by lia. rewrite Nat.sub_diag. reflexivity.
      - intros p' m HM' Hm.
        assert (In (a :: p') pa) as Hin'
            by (apply (hypernym_paths_self_spec hyp _ _ _ Hne Hpa); exists p'; auto).
        destruct (index_of_In c (a :: p') (nth_error_In _ _ Hm)) as [j Hj].
        pose proof (index_of_le _ _ _ _ Hj Hm) as Hjm.
        specialize (Hmin _ _ Hin' Hj). lia. }
    apply (hypernym_paths_self_spec hyp _ _ _ Hne Hpa) in Hin.
    destruct Hin as (p & Hp & (Hch & _ & _)).
    destruct p1 as [|a' p1'].
    - simpl in Hp. inversion Hp; subst. exists []. simpl in *.
      split; [auto|]. split; [constructor|]. split; auto.
    - simpl in Hp. inversion Hp; subst. exists (p1' ++ [c]).
      rewrite app_length. simpl length in *.
      replace (length p1' + 1) with (S (length p1')) by lia.
      split; [auto|]. split; [|split; [|exact Hdist]].
      + replace (p1' ++ c :: p2) with ((p1' ++ [c]) ++ p2) in Hch
          by (rewrite <- app_assoc; reflexivity).
        apply chain_app in Hch. tauto.
      + apply last_app_cons.
  Qed.

  Definition sp_entry (pa pb : list (list node)) (c : node) : list (node * nat * list node) :=
    match best_prefix c pa, best_prefix c pb with
    | Some sa, Some sb =>
        [(c, Nat.max (depth_in c pa) (depth_in c pb), sa ++ tl (rev sb))]
    | _, _ => []
    end.

  Lemma shp_eq : forall fuel a sr, shortest_hyp_paths hyp fuel a a sr = Some [(a, 0, [])].
  Proof. intros fuel a sr. unfold shortest_hyp_paths. rewrite Z.eqb_refl. reflexivity. Qed.

  Lemma shp_neq : forall fuel a b sr pm, a <> b ->
      shortest_hyp_paths hyp fuel a b sr = Some pm ->
      exists pa pb, hypernym_paths_gen hyp fuel a sr true = Some pa
                    /\ hypernym_paths_gen hyp fuel b sr true = Some pb
                    /\ pm = flat_map (sp_entry pa pb) (sort_nodes (common_of pa pb)).
  Proof.
    intros fuel a b sr pm Hab H. unfold shortest_hyp_paths in H.
    apply Z.eqb_neq in Hab. rewrite Hab in H.
    destruct (hypernym_paths_gen hyp fuel a sr true) as [pa|]; [|discriminate].
    destruct (hypernym_paths_gen hyp fuel b sr true) as [pb|]; [|discriminate].
    exists pa, pb. inversion H. auto.
  Qed.

  (* what the entries of the map are (a <> b, no simulated root) *)
  Definition good_entry (a b : node) (pa pb : list (list node)) (e : node * nat * list node) : Prop :=
    exists c ua ub,
      chain hyp a ua /\ last ua a = c /\ is_dist hyp a c (length ua)
      /\ chain hyp b ub /\ last ub b = c /\ is_dist hyp b c (length ub)
      /\ e = (c, Nat.max (depth_in c pa) (depth_in c pb), (a :: ua) ++ tl (rev (b :: ub))).

  Lemma shp_entries : forall V fuel a b pm,
      graph_ok V -> In a V -> In b V -> a <> b ->
      shortest_hyp_paths hyp fuel a b false = Some pm ->
      exists pa pb, hypernym_paths_gen hyp fuel a false true = Some pa
                    /\ hypernym_paths_gen hyp fuel b false true = Some pb
                    /\ (forall e, In e pm -> good_entry a b pa pb e)
                    /\ (forall c, reach hyp a c -> reach hyp b c ->
                                  exists e, In e pm /\ fst (fst e) = c).
  Proof.
    intros V fuel a b pm HG Ha Hb Hab H.
    destruct (shp_neq _ _ _ _ _ Hab H) as (pa & pb & Hpa & Hpb & ->).
    exists pa, pb. split; auto. split; auto.
    assert (forall c, In c (common_of pa pb) -> exists e, sp_entry pa pb c = [e]
               /\ fst (fst e) = c /\ good_entry a b pa pb e) as Hentry.
    { intros c Hc. apply common_of_In in Hc. destruct Hc as [Hca Hcb].
      destruct (best_prefix_self V fuel a pa c HG Ha Hpa Hca) as (ua & Hba & Hua & Hla & Hda).
      destruct (best_prefix_self V fuel b pb c HG Hb Hpb Hcb) as (ub & Hbb & Hub & Hlb & Hdb).
      unfold sp_entry. rewrite Hba, Hbb. eexists. split; [reflexivity|]. split; [reflexivity|].
      exists c, ua, ub. repeat (split; [assumption|]). reflexivity. }
    split.
    - intros e He. apply in_flat_map in He. destruct He as (c & Hc & He).
      rewrite sort_nodes_In in Hc.
      destruct (Hentry c Hc) as (e' & Heq & _ & Hgood). rewrite Heq in He.
      destruct He as [<-|[]]. auto.
    - intros c Hra Hrb.
      assert (In c (common_of pa pb)) as Hc.
      { apply common_of_In.
        rewrite (self_paths_reach V fuel a pa c HG Ha Hpa).
        rewrite (self_paths_reach V fuel b pb c HG Hb Hpb). auto. }
      destruct (Hentry c Hc) as (e' & Heq & Hfst & _). exists e'. split; auto.
      apply in_flat_map. exists c. split; [apply sort_nodes_In; auto|]. rewrite Heq. simpl; auto.
  Qed.

  Lemma good_entry_length : forall a b pa pb e, good_entry a b pa pb e ->
      exists c da db, fst (fst e) = c /\ is_dist hyp a c da /\ is_dist hyp b c db
                      /\ length (snd e) = S (da + db).
  Proof.
    intros a b pa pb e (c & ua & ub & _ & _ & Hda & _ & _ & Hdb & ->).
    exists c, (length ua), (length ub). repeat (split; [auto; fail|]).
    cbn [snd]. rewrite app_length.
    assert (length (tl (rev (b :: ub))) = length ub) as Hl.
    { pose proof (rev_length (b :: ub)) as Hr. destruct (rev (b :: ub)); simpl in *; lia. }
    rewrite Hl. simpl. lia.
  Qed.

  (* B *)
  Theorem shortest_path_len_spec : forall V fuel a b r,
      graph_ok V -> In a V -> In b V ->
      shortest_path_len hyp fuel a b false = Some r ->
      match r with
      | None => forall c, ~ (reach hyp a c /\ reach hyp b c)
      | Some n => (exists c da db, is_dist hyp a c da /\ is_dist hyp b c db /\ n = da + db)
                  /\ (forall c da db, is_dist hyp a c da -> is_dist hyp b c db -> n <= da + db)
      end.
  Proof.
    intros V fuel a b r HG Ha Hb H. unfold shortest_path_len in H.
    destruct (Z.eq_dec a b) as [Hab|Hab].
    - subst b. rewrite shp_eq in H. inversion H; subst. clear H. simpl. split.
      + exists a, 0, 0. split; [apply is_dist_self|]. split; [apply is_dist_self|]. reflexivity.
      + intros; lia.
    - destruct (shortest_hyp_paths hyp fuel a b false) as [pm|] eqn:Hpm; [|discriminate].
      destruct (shp_entries V fuel a b pm HG Ha Hb Hab Hpm)
        as (pa & pb & Hpa & Hpb & Hgood & Hall).
      destruct pm as [|e0 pm'].
      + inversion H; subst. intros c [Hra Hrb].
        destruct (Hall c Hra Hrb) as (e & [] & _).
      + set (pm := e0 :: pm') in *.
        assert (map (fun e : node * nat * list node => length (snd e)) pm <> []) as Hne
            by (unfold pm; discriminate).
        destruct (list_min_spec _ Hne) as [Hin Hle].
        remember (list_min (map (fun e : node * nat * list node => length (snd e)) pm)) as m eqn:Hm.
        clear Hm. injection H as Hr. subst r. split.
        * apply in_map_iff in Hin. destruct Hin as (e & Hlen & Hin).
          destruct (good_entry_length _ _ _ _ _ (Hgood e Hin)) as (c & da & db & _ & Hda & Hdb & Hl).
          exists c, da, db. split; [auto|]. split; [auto|]. lia.
        * intros c da db Hda Hdb.
          destruct (Hall c (is_dist_reach _ _ _ Hda) (is_dist_reach _ _ _ Hdb)) as (e & Hin' & Hfst).
          destruct (good_entry_length _ _ _ _ _ (Hgood e Hin')) as (c' & da' & db' & Hfst' & Hda' & Hdb' & Hl).
          rewrite <- Hfst' in Hda', Hdb'. rewrite Hfst in Hda', Hdb'.
          rewrite (dist_unique hyp _ _ _ _ Hda Hda'), (dist_unique hyp _ _ _ _ Hdb Hdb').
          assert (m <= length (snd e)) as Hmle
              by (apply Hle; apply in_map_iff; exists e; auto).
          lia.
  Qed.

  (* C *)
  Theorem shortest_path_len_sym : forall V fuel a b r r',
      graph_ok V -> In a V -> In b V ->
      shortest_path_len hyp fuel a b false = Some r ->
      shortest_path_len hyp fuel b a false = Some r' -> r = r'.
  Proof.
    intros V fuel a b r r' HG Ha Hb H H'.
    pose proof (shortest_path_len_spec V fuel a b r HG Ha Hb H) as S1.
    pose proof (shortest_path_len_spec V fuel b a r' HG Hb Ha H') as S2.
    destruct r as [n|], r' as [n'|]; auto.
    - destruct S1 as [(c & da & db & Hda & Hdb & ->) Hmin].
      destruct S2 as [(c' & da' & db' & Hda' & Hdb' & ->) Hmin'].
      f_equal. specialize (Hmin _ _ _ Hdb' Hda'). specialize (Hmin' _ _ _ Hdb Hda). lia.
    - destruct S1 as [(c & da & db & Hda & Hdb & ->) _]. exfalso.
      apply (S2 c). split; eapply is_dist_reach; eauto.
    - destruct S2 as [(c & da & db & Hda & Hdb & ->) _]. exfalso.
      apply (S1 c). split; eapply is_dist_reach; eauto.
  Qed.

  (* ---------- undirected paths ---------- *)

  Lemma upath_app : forall x p q, upath x p -> upath (last p x) q -> upath x (p ++ q).
  Proof.
    intros x p q Hp. induction Hp as [x|x y p Hxy Hp IH]; intros Hq.
    - simpl in *. auto.
    - rewrite TaxReach.last_cons in Hq. simpl. constructor; auto.
  Qed.

  Lemma chain_upath : forall x p, chain hyp x p -> upath x p.
  Proof.
    intros x p Hc. induction Hc as [x|x t p Ht Hc IH]; constructor; auto.
  Qed.

  Lemma chain_rev_upath : forall x p, chain hyp x p ->
      upath (last p x) (tl (rev (x :: p))) /\ last (tl (rev (x :: p))) (last p x) = x.
  Proof.
    intros x p Hc. induction Hc as [x|x t p Ht Hc [IH1 IH2]].
    - simpl. split; auto. constructor.
    - rewrite TaxReach.last_cons.
      assert (tl (rev (x :: t :: p)) = tl (rev (t :: p)) ++ [x]) as Heq.
      { change (rev (x :: t :: p)) with (rev (t :: p) ++ [x]).
        apply tl_app_nonempty. simpl. intros Hnil. apply app_eq_nil in Hnil.
        destruct Hnil as [_ Hnil]. discriminate. }
      rewrite Heq. split.
      + apply upath_app; auto. rewrite IH2. constructor; auto. constructor.
      + rewrite last_app. reflexivity.
  Qed.

  (* D *)
  Theorem shortest_path_genuine : forall V fuel a b p,
      graph_ok V -> In a V -> In b V ->
      shortest_path hyp fuel a b false = Some (Some p) ->
      upath a p /\ last p a = b /\ (p = [] <-> a = b)
      /\ shortest_path_len hyp fuel a b false = Some (Some (length p)).
  Proof.
    intros V fuel a b p HG Ha Hb H. unfold shortest_path in H. unfold shortest_path_len.
    destruct (Z.eq_dec a b) as [Hab|Hab].
    - subst b. rewrite shp_eq in *. simpl in H. inversion H; subst. simpl.
      repeat split; auto. constructor.
    - destruct (shortest_hyp_paths hyp fuel a b false) as [pm|] eqn:Hpm; [|discriminate].
      destruct (shp_entries V fuel a b pm HG Ha Hb Hab Hpm)
        as (pa & pb & Hpa & Hpb & Hgood & Hall).
      destruct pm as [|e0 pm']; [discriminate|].
      inversion H as [Hp]. clear H.
      destruct (argmin_fold _ (fun e : node * nat * list node => length (snd e)) pm' e0)
        as [Hin Hlen].
      cbv beta zeta in Hin, Hlen.
      set (e := fold_left
                  (fun best e' : node * nat * list node =>
                     if length (snd e') <? length (snd best) then e' else best) pm' e0) in *.
      destruct (Hgood e Hin) as (c & ua & ub & Hua & Hla & Hda & Hub & Hlb & Hdb & He).
      assert (snd e = a :: ua ++ tl (rev (b :: ub))) as Hsnd by (rewrite He; reflexivity).
      destruct (chain_rev_upath b ub Hub) as [Hup Hlast]. rewrite Hlb in Hup, Hlast.
      assert (last (ua ++ tl (rev (b :: ub))) a = b) as Hlst
          by (rewrite last_app, Hla; auto).
      rewrite Hsnd. cbn [tl]. split; [|split; [|split]].
      + apply upath_app; [apply chain_upath; auto|]. rewrite Hla. auto.
      + auto.
      + split; [|contradiction]. intros Hnil. rewrite Hnil in Hlst. simpl in Hlst. contradiction.
      + unfold list_min. cbn [map]. rewrite <- Hlen, Hsnd. simpl. rewrite Nat.sub_0_r. reflexivity.
  Qed.

  (* E *)
  Theorem taxonomy_functions_terminate : forall V a b sr,
      closed hyp V -> In a V -> In b V ->
      common_hypernyms hyp (S (S (length V))) a b sr <> None
      /\ shortest_path_len hyp (S (S (length V))) a b sr <> None
      /\ shortest_path hyp (S (S (length V))) a b sr <> None
      /\ lowest_common_hypernyms hyp (S (S (length V))) a b sr <> None.
  Proof.
    intros V a b sr HV Ha Hb.
    pose proof (hypernym_paths_gen_terminates hyp V a sr true HV Ha) as Hta.
    pose proof (hypernym_paths_gen_terminates hyp V b sr true HV Hb) as Htb.
    assert (shortest_hyp_paths hyp (S (S (length V))) a b sr <> None) as Hs.
    { unfold shortest_hyp_paths. destruct (Z.eqb a b); [discriminate|].
      destruct (hypernym_paths_gen hyp (S (S (length V))) a sr true); [|contradiction].
      destruct (hypernym_paths_gen hyp (S (S (length V))) b sr true); [|contradiction].
      discriminate. }
    unfold common_hypernyms, shortest_path_len, shortest_path, lowest_common_hypernyms.
    destruct (shortest_hyp_paths hyp (S (S (length V))) a b sr) as [pm|]; [|contradiction].
    destruct (hypernym_paths_gen hyp (S (S (length V))) a sr true); [|contradiction].
    destruct (hypernym_paths_gen hyp (S (S (length V))) b sr true); [|contradiction].
    repeat split; try discriminate; destruct pm; discriminate.
  Qed.

  (* ---------- depths on acyclic graphs ---------- *)

  Lemma is_max_depth_unique : forall c d d', is_max_depth c d -> is_max_depth c d' -> d = d'.
  Proof.
    intros c d d' [(p & HM & Hl) Hle] [(p' & HM' & Hl') Hle'].
    specialize (Hle _ HM'). specialize (Hle' _ HM). lia.
  Qed.

  (* a maximal chain from a through c: its tail is a maximal chain from c, and
     every maximal chain from c can be put in place of the tail *)
  Lemma through_c : forall a p q1 c q2,
      acyclic hyp -> maximal_simple hyp a p -> a :: p = q1 ++ c :: q2 ->
      maximal_simple hyp c q2
      /\ (forall p2', maximal_simple hyp c p2' ->
                      exists p', maximal_simple hyp a p' /\ a :: p' = q1 ++ c :: p2').
  Proof.
    intros a p q1 c q2 Hac HM Heq. destruct q1 as [|a' p1].
    - simpl in Heq. inversion Heq; subst. split; auto.
      intros p2' HM'. exists p2'. auto.
    - simpl in Heq. inversion Heq; subst. split.
      + apply (maximal_suffix_acyclic hyp _ _ _ _ Hac HM).
      + intros p2' HM'. exists (p1 ++ c :: p2'). split; auto.
        apply (maximal_splice_acyclic hyp _ _ _ _ _ Hac HM HM').
  Qed.

  Definition depth_val (c : node) (p : list node) : nat :=
    match index_of c p with
    | Some i => length p - i - 1
    | None => 0
    end.

  Lemma depth_val_app : forall c q1 q2, ~ In c q1 -> depth_val c (q1 ++ c :: q2) = length q2.
  Proof.
    intros c q1 q2 Hn. unfold depth_val. rewrite index_of_app by auto.
    rewrite app_length. simpl. lia.
  Qed.

  Lemma depth_in_max : forall V fuel a pa c,
      graph_ok V -> In a V -> acyclic hyp ->
      hypernym_paths_gen hyp fuel a false true = Some pa ->
      In c (concat pa) ->
      is_max_depth c (depth_in c pa).
  Proof.
    intros V fuel a pa c HG Ha Hac Hpa Hc.
    pose proof (graph_ok_ne_root _ _ HG Ha) as Hne.
    change (depth_in c pa) with (list_max (map (depth_val c) pa)).
    apply in_concat in Hc. destruct Hc as (q0 & Hq0 & Hcq0).
    destruct (index_of_In _ _ Hcq0) as [i0 Hi0].
    destruct (index_of_Some _ _ _ Hi0) as (q1 & q2 & Hq0eq & _ & Hn1).
    pose proof Hq0 as Hq0'.
    apply (hypernym_paths_self_spec hyp _ _ _ Hne Hpa) in Hq0'.
    destruct Hq0' as (p0 & Hp0 & HM0). rewrite Hq0eq in Hp0. symmetry in Hp0.
    destruct (through_c _ _ _ _ _ Hac HM0 Hp0) as [HMc Hsplice].
    (* every maximal chain from c shows up as a value *)
    assert (forall p2', maximal_simple hyp c p2' -> In (length p2') (map (depth_val c) pa)) as Hall.
    { intros p2' HM'. destruct (Hsplice p2' HM') as (p' & HMp' & Hp').
      apply in_map_iff. exists (q1 ++ c :: p2'). split.
      - apply depth_val_app; auto.
      - rewrite <- Hp'. apply (hypernym_paths_self_spec hyp _ _ _ Hne Hpa). exists p'. auto. }
    (* every value is 0 or the length of a maximal chain from c *)
    assert (forall v, In v (map (depth_val c) pa) ->
                      v = 0 \/ exists p2, maximal_simple hyp c p2 /\ length p2 = v) as Hvals.
    { intros v Hv. apply in_map_iff in Hv. destruct Hv as (q & <- & Hq).
      destruct (index_of c q) as [i|] eqn:Hi.
      - right. destruct (index_of_Some _ _ _ Hi) as (r1 & r2 & Hqeq & _ & Hnr).
        apply (hypernym_paths_self_spec hyp _ _ _ Hne Hpa) in Hq.
        destruct Hq as (p & Hp & HM). rewrite Hqeq in Hp. symmetry in Hp.
        destruct (through_c _ _ _ _ _ Hac HM Hp) as [HMr _].
        exists r2. split; auto. rewrite Hqeq. symmetry. apply depth_val_app; auto.
      - left. unfold depth_val. rewrite Hi. reflexivity. }
    assert (map (depth_val c) pa <> []) as Hnil
        by (destruct pa; [destruct Hq0|discriminate]).
    destruct (list_max_spec _ Hnil) as [Hin Hle]. split.
    - destruct (Hvals _ Hin) as [H0|Hex]; auto.
      exists q2. split; auto. specialize (Hle _ (Hall _ HMc)). lia.
    - intros p HM. apply Hle. apply Hall. auto.
  Qed.

  (* F *)
  Theorem lowest_common_hypernyms_acyclic : forall V fuel a b ls,
      graph_ok V -> In a V -> In b V -> acyclic hyp -> a <> b ->
      lowest_common_hypernyms hyp fuel a b false = Some ls ->
      forall c, In c ls <->
        (reach hyp a c /\ reach hyp b c /\
         forall c' d d', reach hyp a c' -> reach hyp b c' ->
                         is_max_depth c d -> is_max_depth c' d' -> d' <= d).
  Proof.
    intros V fuel a b ls HG Ha Hb Hac Hab H c. unfold lowest_common_hypernyms in H.
    destruct (shortest_hyp_paths hyp fuel a b false) as [pm|] eqn:Hpm; [|discriminate].
    destruct (shp_entries V fuel a b pm HG Ha Hb Hab Hpm)
      as (pa & pb & Hpa & Hpb & Hgood & Hall).
    injection H as Hls.
    assert (forall e, In e pm -> reach hyp a (fst (fst e)) /\ reach hyp b (fst (fst e))
                                 /\ is_max_depth (fst (fst e)) (snd (fst e))) as Hfact.
    { intros e He. destruct (Hgood e He) as (x & ua & ub & Hua & Hla & _ & Hub & Hlb & _ & ->).
      cbn [fst snd].
      assert (reach hyp a x) as Hra by (exists ua; auto).
      assert (reach hyp b x) as Hrb by (exists ub; auto).
      split; auto. split; auto.
      pose proof (depth_in_max V fuel a pa x HG Ha Hac Hpa
                    (proj2 (self_paths_reach V fuel a pa x HG Ha Hpa) Hra)) as Hda.
      pose proof (depth_in_max V fuel b pb x HG Hb Hac Hpb
                    (proj2 (self_paths_reach V fuel b pb x HG Hb Hpb) Hrb)) as Hdb.
      rewrite <- (is_max_depth_unique _ _ _ Hda Hdb). rewrite Nat.max_id. auto. }
    remember (list_max (map (fun e : node * nat * list node => snd (fst e)) pm)) as md eqn:Hmd.
    assert (pm <> [] -> In md (map (fun e : node * nat * list node => snd (fst e)) pm)
                        /\ forall e, In e pm -> snd (fst e) <= md) as Hmax.
    { intros Hne.
      assert (map (fun e : node * nat * list node => snd (fst e)) pm <> []) as Hne'
          by (destruct pm; [contradiction|discriminate]).
      destruct (list_max_spec _ Hne') as [Hin Hle]. rewrite <- Hmd in Hin, Hle.
      split; auto. intros e He. apply Hle. apply in_map_iff. exists e. auto. }
    clear Hmd. subst ls. rewrite in_map_iff. split.
    - intros (e & Hfst & Hin). apply filter_In in Hin. destruct Hin as [Hin Heq].
      apply Nat.eqb_eq in Heq.
      destruct (Hfact e Hin) as (Hra & Hrb & Hd). rewrite Hfst in Hra, Hrb, Hd.
      split; auto. split; auto.
      intros c' d d' Hra' Hrb' Hdc Hdc'.
      destruct (Hall c' Hra' Hrb') as (e' & Hin' & Hfst').
      destruct (Hfact e' Hin') as (_ & _ & Hd'). rewrite Hfst' in Hd'.
      assert (pm <> []) as Hne by (intros ->; destruct Hin).
      destruct (Hmax Hne) as [_ Hle]. specialize (Hle e' Hin').
      rewrite (is_max_depth_unique _ _ _ Hdc Hd), (is_max_depth_unique _ _ _ Hdc' Hd'). lia.
    - intros (Hra & Hrb & Hbest).
      destruct (Hall c Hra Hrb) as (e & Hin & Hfst).
      exists e. split; auto. apply filter_In. split; auto. apply Nat.eqb_eq.
      assert (pm <> []) as Hne by (intros ->; destruct Hin).
      destruct (Hmax Hne) as [Hmdin Hle].
      apply in_map_iff in Hmdin. destruct Hmdin as (e' & He' & Hin').
      destruct (Hfact e Hin) as (_ & _ & Hd). rewrite Hfst in Hd.
      destruct (Hfact e' Hin') as (Hra' & Hrb' & Hd').
      specialize (Hbest _ _ _ Hra' Hrb' Hd Hd'). specialize (Hle e Hin). lia.
  Qed.

  (* ---------- the simulated root ---------- *)

  Lemma root_paths : forall fuel a ps, a <> root ->
      hypernym_paths_gen hyp fuel a true true = Some ps ->
      exists pa, hypernym_paths_gen hyp fuel a false true = Some pa /\ pa <> []
                 /\ ps = map (fun p => p ++ [root]) pa.
  Proof.
    intros fuel a ps Hne H. unfold hypernym_paths_gen in *.
    apply Z.eqb_neq in Hne. rewrite Hne in *.
    destruct (relation_paths hyp fuel a) as [paths|]; [|discriminate].
    simpl in *. destruct paths as [|p0 paths']; simpl in *; inversion H; subst;
      eexists; (split; [reflexivity|]); split; try discriminate; reflexivity.
  Qed.

  Lemma root_paths_In : forall (pa : list (list node)) c, pa <> [] ->
      (In c (concat (map (fun p => p ++ [root]) pa)) <-> (c = root \/ In c (concat pa))).
  Proof.
    intros pa c Hne. rewrite !in_concat. split.
    - intros (q & Hq & Hc). apply in_map_iff in Hq. destruct Hq as (p & <- & Hp).
      apply in_app_iff in Hc. destruct Hc as [Hc|[<-|[]]]; auto.
      right. exists p. auto.
    - intros [->|(p & Hp & Hc)].
      + destruct pa as [|p0 pa']; [contradiction|].
        exists (p0 ++ [root]). split.
        * apply in_map_iff. exists p0. simpl; auto.
        * rewrite in_app_iff. simpl; auto.
      + exists (p ++ [root]). split.
        * apply in_map_iff. exists p. auto.
        * rewrite in_app_iff. auto.
  Qed.

  (* G *)
  Theorem simulated_root_connects : forall V fuel a b r,
      graph_ok V -> In a V -> In b V ->
      shortest_path_len hyp fuel a b true = Some r -> r <> None.
  Proof.
    intros V fuel a b r HG Ha Hb H. unfold shortest_path_len in H.
    destruct (Z.eq_dec a b) as [Hab|Hab].
    - subst b. rewrite shp_eq in H. inversion H. discriminate.
    - destruct (shortest_hyp_paths hyp fuel a b true) as [pm|] eqn:Hpm; [|discriminate].
      destruct (shp_neq _ _ _ _ _ Hab Hpm) as (pa' & pb' & Hpa' & Hpb' & Hpmeq).
      destruct (root_paths _ _ _ (graph_ok_ne_root _ _ HG Ha) Hpa') as (pa & _ & Hnea & ->).
      destruct (root_paths _ _ _ (graph_ok_ne_root _ _ HG Hb) Hpb') as (pb & _ & Hneb & ->).
      set (pa' := map (fun p => p ++ [root]) pa) in *.
      set (pb' := map (fun p => p ++ [root]) pb) in *.
      assert (In root (concat pa')) as Hra by (apply root_paths_In; auto).
      assert (In root (concat pb')) as Hrb by (apply root_paths_In; auto).
      destruct (best_prefix_Some root pa' Hra) as (a1 & a2 & _ & _ & Hba & _).
      destruct (best_prefix_Some root pb' Hrb) as (b1 & b2 & _ & _ & Hbb & _).
      assert (exists e, In e pm) as [e He].
      { eexists. rewrite Hpmeq. apply in_flat_map. exists root. split.
        - apply sort_nodes_In. apply common_of_In. auto.
        - unfold sp_entry. rewrite Hba, Hbb. left. reflexivity. }
      destruct pm as [|e0 pm']; [destruct He|]. inversion H. discriminate.
  Qed.

  Theorem common_hypernyms_root_spec : forall V fuel a b cs,
      graph_ok V -> In a V -> In b V ->
      common_hypernyms hyp fuel a b true = Some cs ->
      forall c, In c cs <-> (c = root \/ (reach hyp a c /\ reach hyp b c)).
  Proof.
    intros V fuel a b cs HG Ha Hb H c. unfold common_hypernyms in H.
    destruct (hypernym_paths_gen hyp fuel a true true) as [pa'|] eqn:Hpa'; [|discriminate].
    destruct (hypernym_paths_gen hyp fuel b true true) as [pb'|] eqn:Hpb'; [|discriminate].
    inversion H; subst. clear H.
    destruct (root_paths _ _ _ (graph_ok_ne_root _ _ HG Ha) Hpa') as (pa & Hpa & Hnea & ->).
    destruct (root_paths _ _ _ (graph_ok_ne_root _ _ HG Hb) Hpb') as (pb & Hpb & Hneb & ->).
    rewrite sort_nodes_In, common_of_In, !root_paths_In by auto.
    rewrite (self_paths_reach V fuel a pa c HG Ha Hpa).
    rewrite (self_paths_reach V fuel b pb c HG Hb Hpb). tauto.
  Qed.

  (* ---------- taxonomy depth ---------- *)

  Lemma hypernym_paths_false : forall fuel x, x <> root ->
      hypernym_paths hyp fuel x false = relation_paths hyp fuel x.
  Proof.
    intros fuel x Hx. unfold hypernym_paths, hypernym_paths_gen.
    apply Z.eqb_neq in Hx. rewrite Hx.
    destruct (relation_paths hyp fuel x); reflexivity.
  Qed.

  Definition seen_ok (seen : list node) (depth : nat) : Prop :=
    forall y p, In y seen -> maximal_simple hyp y p -> S (length p) <= depth.

  Definition depth_attained (SS : list node) (depth : nat) : Prop :=
    depth = 0 \/ exists x p, In x SS /\ maximal_simple hyp x p /\ length p = depth.

  Lemma taxonomy_depth_loop_spec : forall V fuel SS, graph_ok V -> incl SS V -> acyclic hyp ->
      forall rest seen depth d,
        incl rest SS -> seen_ok seen depth -> depth_attained SS depth ->
        taxonomy_depth_loop hyp fuel rest seen depth = Some d ->
        depth <= d
        /\ (forall x p, In x rest -> maximal_simple hyp x p -> length p <= d)
        /\ depth_attained SS d.
  Proof.
    intros V fuel SS HG HSS Hac rest.
    induction rest as [|ss rest IH]; intros seen depth d Hincl Hseen Hatt H.
    - simpl in H. inversion H; subst. split; auto. split; auto. intros x p [].
    - assert (In ss SS) as Hss by (apply Hincl; simpl; auto).
      assert (incl rest SS) as Hincl' by (intros y Hy; apply Hincl; simpl; auto).
      assert (ss <> root) as Hne by (apply (graph_ok_ne_root V); auto).
      simpl in H.
      destruct (forallb (fun h => nmem h seen) (hyp ss)) eqn:Hall.
      + (* every hypernym already seen *)
        destruct (IH seen depth d Hincl' Hseen Hatt H) as (Hle & Hrest & Hatt').
        split; auto. split; auto.
        intros x p [<-|Hx] HM; [|apply (Hrest x p Hx HM)].
        destruct p as [|t p']; [simpl; lia|].
        assert (In t seen) as Ht.
        { destruct HM as (Hch & _ & _). apply chain_inv_cons in Hch. destruct Hch as [Ht _].
          rewrite forallb_forall in Hall. apply nmem_In. apply Hall. auto. }
        assert (maximal_simple hyp t p') as HMt
            by (apply (maximal_suffix_acyclic hyp ss [] t p' Hac HM)).
        specialize (Hseen t p' Ht HMt). simpl. lia.
      + rewrite (hypernym_paths_false fuel ss Hne) in H.
        destruct (relation_paths hyp fuel ss) as [paths|] eqn:Hrp; [|discriminate].
        destruct paths as [|p0 paths'].
        * (* no path at all *)
          destruct (IH seen depth d Hincl' Hseen Hatt H) as (Hle & Hrest & Hatt').
          split; auto. split; auto.
          intros x p [<-|Hx] HM; [|apply (Hrest x p Hx HM)].
          destruct p as [|t p']; [simpl; lia|]. exfalso.
          apply (relation_paths_spec hyp _ _ _ Hrp (t :: p')). split; [discriminate|auto].
        * set (paths := p0 :: paths') in *.
          assert (map (@length node) paths <> []) as Hnil by (unfold paths; discriminate).
          destruct (list_max_spec _ Hnil) as [HMin HMle].
          remember (list_max (map (@length node) paths)) as M eqn:HMeq. clear HMeq.
          assert (forall q, q <> [] -> maximal_simple hyp ss q -> length q <= M) as Hbound.
          { intros q Hq HM. apply HMle. apply in_map.
            apply (relation_paths_spec hyp _ _ _ Hrp q). auto. }
          assert (seen_ok (concat paths ++ seen) (Nat.max depth M)) as Hseen'.
          { intros y p2' Hy HMy. apply in_app_iff in Hy. destruct Hy as [Hy|Hy].
            - apply in_concat in Hy. destruct Hy as (q & Hq & Hyq).
              apply (relation_paths_spec hyp _ _ _ Hrp q) in Hq. destruct Hq as [_ HMq].
              apply in_split in Hyq. destruct Hyq as (p1 & p2 & ->).
              pose proof (maximal_splice_acyclic hyp _ _ _ _ _ Hac HMq HMy) as HMs.
              assert (length (p1 ++ y :: p2') <= M) as Hl.
              { apply Hbound; auto. intros Hnil'. apply app_eq_nil in Hnil'.
                destruct Hnil' as [_ Hnil']. discriminate. }
              rewrite app_length in Hl. simpl in Hl. lia.
            - specialize (Hseen y p2' Hy HMy). lia. }
          assert (depth_attained SS (Nat.max depth M)) as Hatt'.
          { destruct (Nat.max_spec depth M) as [[Hlt ->]|[Hge ->]]; auto.
            right. apply in_map_iff in HMin. destruct HMin as (q & Hlen & Hq).
            apply (relation_paths_spec hyp _ _ _ Hrp q) in Hq. destruct Hq as [_ HMq].
            exists ss, q. auto. }
          destruct (IH _ _ d Hincl' Hseen' Hatt' H) as (Hle & Hrest & Hatt'').
          split; [lia|]. split; auto.
          intros x p [<-|Hx] HM; [|apply (Hrest x p Hx HM)].
          destruct p as [|t p']; [simpl; lia|].
          assert (length (t :: p') <= M) as Hl by (apply Hbound; [discriminate|auto]).
          lia.
  Qed.

  (* H *)
  Theorem taxonomy_depth_acyclic : forall V fuel S d,
      graph_ok V -> incl S V -> acyclic hyp ->
      taxonomy_depth hyp fuel S = Some d ->
      (forall x p, In x S -> maximal_simple hyp x p -> length p <= d)
      /\ (d = 0 \/ exists x p, In x S /\ maximal_simple hyp x p /\ length p = d).
  Proof.
    intros V fuel SS d HG HSS Hac H. unfold taxonomy_depth in H.
    destruct (taxonomy_depth_loop_spec V fuel SS HG HSS Hac SS [] 0 d) as (_ & Hall & Hatt); auto.
    - apply incl_refl.
    - intros y p [].
    - left. reflexivity.
  Qed.

  (* ---------- order of the results ---------- *)

  (* the list of common hypernyms comes out sorted by rowid *)
  Theorem common_hypernyms_sorted : forall fuel a b sr cs,
      common_hypernyms hyp fuel a b sr = Some cs -> Sorted Z.le cs.
  Proof.
    intros fuel a b sr cs H. unfold common_hypernyms in H.
    destruct (hypernym_paths_gen hyp fuel a sr true) as [pa|]; [|discriminate].
    destruct (hypernym_paths_gen hyp fuel b sr true) as [pb|]; [|discriminate].
    inversion H; subst. apply sort_nodes_Sorted.
  Qed.

  Lemma sorted_common_sym : forall pa pb,
      sort_nodes (common_of pa pb) = sort_nodes (common_of pb pa).
  Proof.
    intros pa pb. apply sorted_unique.
    - apply sort_nodes_StronglySorted.
    - apply sort_nodes_StronglySorted.
    - apply sort_nodes_NoDup. apply nodup_keep_NoDup.
    - apply sort_nodes_NoDup. apply nodup_keep_NoDup.
    - intros z. rewrite !sort_nodes_In, !common_of_In. tauto.
  Qed.

  (* lowest_common_hypernyms only looks at the (synset, depth) part of the map *)
  Definition lowest_of (l : list (node * nat)) : list node :=
    map fst (filter (fun e => Nat.eqb (snd e) (list_max (map snd l))) l).

  Lemma lowest_common_hypernyms_lowest_of : forall fuel a b sr,
      lowest_common_hypernyms hyp fuel a b sr =
      option_map (fun pm => lowest_of (map fst pm)) (shortest_hyp_paths hyp fuel a b sr).
  Proof.
    intros fuel a b sr. unfold lowest_common_hypernyms.
    destruct (shortest_hyp_paths hyp fuel a b sr) as [pm|]; [|reflexivity].
    simpl. f_equal. unfold lowest_of. rewrite filter_map_comm, !map_map. reflexivity.
  Qed.

  Lemma sp_entry_sym : forall pa pb c,
      map fst (sp_entry pa pb c) = map fst (sp_entry pb pa c).
  Proof.
    intros pa pb c. unfold sp_entry.
    destruct (best_prefix c pa), (best_prefix c pb); simpl; auto.
    rewrite Nat.max_comm. reflexivity.
  Qed.

  Theorem lowest_common_hypernyms_sym : forall V fuel a b la lb,
      graph_ok V -> In a V -> In b V ->
      lowest_common_hypernyms hyp fuel a b false = Some la ->
      lowest_common_hypernyms hyp fuel b a false = Some lb -> la = lb.
  Proof.
    intros V fuel a b la lb _ _ _ H1 H2.
    destruct (Z.eq_dec a b) as [Hab|Hab]; [subst b; congruence|].
    rewrite lowest_common_hypernyms_lowest_of in H1, H2.
    destruct (shortest_hyp_paths hyp fuel a b false) as [pm1|] eqn:Hpm1; [|discriminate].
    destruct (shortest_hyp_paths hyp fuel b a false) as [pm2|] eqn:Hpm2; [|discriminate].
    simpl in H1, H2. inversion H1; subst. inversion H2; subst. clear H1 H2.
    destruct (shp_neq _ _ _ _ _ Hab Hpm1) as (pa & pb & Hpa & Hpb & ->).
    assert (b <> a) as Hba by auto.
    destruct (shp_neq _ _ _ _ _ Hba Hpm2) as (pb' & pa' & Hpb' & Hpa' & ->).
    assert (pa' = pa) by congruence. assert (pb' = pb) by congruence. subst pa' pb'.
    f_equal. rewrite !map_flat_map. rewrite (sorted_common_sym pb pa).
    apply flat_map_ext_all. intros c. apply sp_entry_sym.
  Qed.
End TaxAssembly.

Print Assumptions common_hypernyms_spec.
Print Assumptions shortest_path_len_spec.
Print Assumptions shortest_path_len_sym.
Print Assumptions shortest_path_genuine.
Print Assumptions taxonomy_functions_terminate.
Print Assumptions lowest_common_hypernyms_acyclic.
Print Assumptions simulated_root_connects.
Print Assumptions common_hypernyms_root_spec.
Print Assumptions taxonomy_depth_acyclic.
Print Assumptions common_hypernyms_sorted.
Print Assumptions lowest_common_hypernyms_sym.
