(* Proofs/SimRoot.v — roots / leaves, and what simulate_root=True computes:
   on an acyclic graph that does not mention the simulated root, every taxonomy
   function with simulate_root=True is the same function with simulate_root=False
   on the graph extended by a top node [root] above all the root synsets
   ([hyp_top]).  On cyclic graphs this fails (witness below); what holds for all
   graphs is the definitional "append root to every path". *)
From Coq Require Import ZArith List Bool Lia.
Import ListNotations.
Require Import WnV.Base.Sx WnV.Model.Taxonomy WnV.Proofs.TaxSpec WnV.Proofs.TaxPaths WnV.Proofs.TaxReach WnV.Proofs.TaxAssembly.

(* ====================================================================== *)
(* Part 1: roots and leaves                                                *)
(* ====================================================================== *)

(* [sublist l1 l2]: l1 is obtained from l2 by deleting elements (order and
   multiplicity of what remains are those of l2) *)
Inductive sublist {A : Type} : list A -> list A -> Prop :=
| sublist_nil : sublist [] []
| sublist_skip : forall x l1 l2, sublist l1 l2 -> sublist l1 (x :: l2)
| sublist_keep : forall x l1 l2, sublist l1 l2 -> sublist (x :: l1) (x :: l2).

Lemma filter_sublist : forall (A : Type) (f : A -> bool) (l : list A), sublist (filter f l) l.
Proof.
  intros A f l. induction l as [|a l IH]; simpl.
  - constructor.
  - destruct (f a); constructor; exact IH.
Qed.

Lemma sublist_In : forall (A : Type) (l1 l2 : list A) (a : A),
    sublist l1 l2 -> In a l1 -> In a l2.
Proof.
  intros A l1 l2 a H. induction H as [|x l1 l2 H IH|x l1 l2 H IH]; intros Hin.
  - destruct Hin.
  - right. apply IH. exact Hin.
  - destruct Hin as [He|Hin]; [left; exact He|right; apply IH; exact Hin].
Qed.

Lemma sublist_NoDup : forall (A : Type) (l1 l2 : list A),
    sublist l1 l2 -> NoDup l2 -> NoDup l1.
Proof.
  intros A l1 l2 H. induction H as [|x l1 l2 H IH|x l1 l2 H IH]; intros Hnd.
  - constructor.
  - inversion Hnd as [|x' l' Hx Hnd']; subst. apply IH. exact Hnd'.
  - inversion Hnd as [|x' l' Hx Hnd']; subst. constructor.
    + intros Hin. apply Hx. apply (sublist_In A l1 l2 x H Hin).
    + apply IH. exact Hnd'.
Qed.

Lemma sublist_cons_inv : forall (A : Type) (a : A) (v l : list A),
    sublist (a :: v) l -> exists l1 l2, l = l1 ++ a :: l2 /\ sublist v l2.
Proof.
  intros A a v l. induction l as [|x l IH]; intros H.
  - inversion H.
  - inversion H as [|x' l1' l2' H'|x' l1' l2' H']; subst.
    + destruct (IH H') as (l1 & l2 & -> & Hs). exists (x :: l1), l2. split; [reflexivity|exact Hs].
    + exists [], l. split; [reflexivity|exact H'].
Qed.

Lemma sublist_app_inv : forall (A : Type) (u v l : list A),
    sublist (u ++ v) l -> exists l1 l2, l = l1 ++ l2 /\ sublist v l2.
Proof.
  intros A u. induction u as [|x u IH]; intros v l H.
  - exists [], l. split; [reflexivity|exact H].
  - simpl in H. destruct (sublist_cons_inv A x (u ++ v) l H) as (l1 & l2 & -> & Hs).
    destruct (IH v l2 Hs) as (m1 & m2 & -> & Hs').
    exists (l1 ++ x :: m1), m2. split; [|exact Hs'].
    rewrite <- app_assoc. reflexivity.
Qed.

(* relative order is preserved: a before b in l1 implies a before b in l2 *)
Lemma sublist_order : forall (A : Type) (l1 l2 : list A) (a b : A) (u v w : list A),
    sublist l1 l2 -> l1 = u ++ a :: v ++ b :: w ->
    exists u' v' w', l2 = u' ++ a :: v' ++ b :: w'.
Proof.
  intros A l1 l2 a b u v w H ->.
  destruct (sublist_app_inv A u (a :: v ++ b :: w) l2 H) as (m1 & m2 & -> & H1).
  destruct (sublist_cons_inv A a (v ++ b :: w) m2 H1) as (n1 & n2 & -> & H2).
  destruct (sublist_app_inv A v (b :: w) n2 H2) as (k1 & k2 & -> & H3).
  destruct (sublist_cons_inv A b w k2 H3) as (j1 & j2 & -> & _).
  exists (m1 ++ n1), (k1 ++ j1), j2.
  rewrite <- !app_assoc. reflexivity.
Qed.

Definition no_rel (h : node -> list node) (s : node) : bool :=
  match h s with [] => true | _ => false end.

Lemma no_rel_true : forall h s, no_rel h s = true <-> h s = [].
Proof.
  intros h s. unfold no_rel. destruct (h s) as [|a l].
  - split; reflexivity.
  - split; discriminate.
Qed.

Lemma roots_filter : forall hyp syn, roots hyp syn = filter (no_rel hyp) syn.
Proof. reflexivity. Qed.

Lemma leaves_filter : forall hypo syn, leaves hypo syn = filter (no_rel hypo) syn.
Proof. reflexivity. Qed.

Lemma count_occ_filter_node : forall (f : node -> bool) (l : list node) (s : node),
    count_occ Z.eq_dec (filter f l) s = if f s then count_occ Z.eq_dec l s else 0.
Proof.
  intros f l s. induction l as [|a l IH]; simpl.
  - destruct (f s); reflexivity.
  - destruct (f a) eqn:Hfa; simpl.
    + destruct (Z.eq_dec a s) as [He|Hne].
      * subst a. rewrite Hfa in *. rewrite IH. reflexivity.
      * exact IH.
    + destruct (Z.eq_dec a s) as [He|Hne].
      * subst a. rewrite Hfa in *. exact IH.
      * exact IH.
Qed.

Theorem roots_spec : forall hyp syn s, In s (roots hyp syn) <-> In s syn /\ hyp s = [].
Proof. intros hyp syn s. rewrite roots_filter, filter_In, no_rel_true. reflexivity. Qed.

Theorem leaves_spec : forall hypo syn s, In s (leaves hypo syn) <-> In s syn /\ hypo s = [].
Proof. intros hypo syn s. rewrite leaves_filter, filter_In, no_rel_true. reflexivity. Qed.

(* order and multiplicity: a subsequence of the input *)
Theorem roots_sublist : forall hyp syn, sublist (roots hyp syn) syn.
Proof. intros hyp syn. rewrite roots_filter. apply filter_sublist. Qed.

Theorem leaves_sublist : forall hypo syn, sublist (leaves hypo syn) syn.
Proof. intros hypo syn. rewrite leaves_filter. apply filter_sublist. Qed.

Theorem roots_NoDup : forall hyp syn, NoDup syn -> NoDup (roots hyp syn).
Proof. intros hyp syn H. apply (sublist_NoDup _ _ syn (roots_sublist hyp syn) H). Qed.

Theorem leaves_NoDup : forall hypo syn, NoDup syn -> NoDup (leaves hypo syn).
Proof. intros hypo syn H. apply (sublist_NoDup _ _ syn (leaves_sublist hypo syn) H). Qed.

Theorem roots_order : forall hyp syn a b u v w,
    roots hyp syn = u ++ a :: v ++ b :: w -> exists u' v' w', syn = u' ++ a :: v' ++ b :: w'.
Proof.
  intros hyp syn a b u v w H.
  apply (sublist_order _ (roots hyp syn) syn a b u v w (roots_sublist hyp syn) H).
Qed.

Theorem leaves_order : forall hypo syn a b u v w,
    leaves hypo syn = u ++ a :: v ++ b :: w -> exists u' v' w', syn = u' ++ a :: v' ++ b :: w'.
Proof.
  intros hypo syn a b u v w H.
  apply (sublist_order _ (leaves hypo syn) syn a b u v w (leaves_sublist hypo syn) H).
Qed.

Theorem roots_count : forall hyp syn s,
    count_occ Z.eq_dec (roots hyp syn) s =
    match hyp s with [] => count_occ Z.eq_dec syn s | _ => 0 end.
Proof.
  intros hyp syn s. rewrite roots_filter, count_occ_filter_node. unfold no_rel.
  destruct (hyp s); reflexivity.
Qed.

Theorem leaves_count : forall hypo syn s,
    count_occ Z.eq_dec (leaves hypo syn) s =
    match hypo s with [] => count_occ Z.eq_dec syn s | _ => 0 end.
Proof.
  intros hypo syn s. rewrite leaves_filter, count_occ_filter_node. unfold no_rel.
  destruct (hypo s); reflexivity.
Qed.


(* ====================================================================== *)
(* Part 2: the graph with an added top node                                *)
(* ====================================================================== *)

Definition hyp_top (hyp : node -> list node) : node -> list node :=
  fun x => if Z.eqb x root then [] else match hyp x with [] => [root] | l => l end.

Lemma hyp_top_root : forall hyp, hyp_top hyp root = [].
Proof. intros hyp. reflexivity. Qed.

Lemma hyp_top_nil : forall hyp x, x <> root -> hyp x = [] -> hyp_top hyp x = [root].
Proof.
  intros hyp x Hx Hh. unfold hyp_top. apply Z.eqb_neq in Hx. rewrite Hx, Hh. reflexivity.
Qed.

Lemma hyp_top_cons : forall hyp x, x <> root -> hyp x <> [] -> hyp_top hyp x = hyp x.
Proof.
  intros hyp x Hx Hh. unfold hyp_top. apply Z.eqb_neq in Hx. rewrite Hx.
  destruct (hyp x) as [|a l]; [contradiction|reflexivity].
Qed.

(* ---------- facts that hold on every graph (T5 positive part, T4) ---------- *)

Definition add_root (ps : list (list node)) : list (list node) :=
  match ps with [] => [[root]] | _ => map (fun p => p ++ [root]) ps end.

Lemma list_min_map_S : forall l, l <> [] -> list_min (map S l) = S (list_min l).
Proof.
  intros l Hl. destruct l as [|a l]; [contradiction|]. unfold list_min. simpl map.
  clear Hl. revert a. induction l as [|b l IH]; intros a.
  - reflexivity.
  - simpl map. simpl fold_left. rewrite <- IH. reflexivity.
Qed.

Lemma list_max_map_S : forall l, l <> [] -> list_max (map S l) = S (list_max l).
Proof.
  intros l Hl. destruct l as [|a l]; [contradiction|]. unfold list_max. simpl map.
  simpl fold_left. clear Hl. revert a. induction l as [|b l IH]; intros a.
  - reflexivity.
  - simpl map. simpl fold_left. rewrite <- IH. reflexivity.
Qed.

Lemma map_length_snoc : forall (ps : list (list node)),
    map (@length node) (map (fun p => p ++ [root]) ps) = map S (map (@length node) ps).
Proof.
  intros ps. rewrite !map_map. apply map_ext. intros p. rewrite app_length. simpl. lia.
Qed.

Section AllGraphs.
  Variable hyp : node -> list node.

  Theorem gen_simroot_all_graphs : forall f x incl, x <> root ->
      hypernym_paths_gen hyp f x true incl =
      option_map add_root (hypernym_paths_gen hyp f x false incl).
  Proof.
    intros f x incl Hx. unfold hypernym_paths_gen. apply Z.eqb_neq in Hx. rewrite Hx.
    destruct (relation_paths hyp f x) as [paths|]; reflexivity.
  Qed.

  Theorem gen_simroot_at_root : forall f sr incl,
      hypernym_paths_gen hyp f root sr incl = Some (if incl then [[root]] else []).
  Proof.
    intros f sr incl. unfold hypernym_paths_gen. simpl.
    rewrite andb_false_r. destruct incl; reflexivity.
  Qed.

  Theorem min_depth_simroot : forall f x, x <> root ->
      min_depth hyp f x true = option_map S (min_depth hyp f x false).
  Proof.
    intros f x Hx. unfold min_depth, hypernym_paths.
    rewrite (gen_simroot_all_graphs f x false Hx).
    destruct (hypernym_paths_gen hyp f x false false) as [ps|]; [|reflexivity].
    simpl. f_equal. destruct ps as [|p ps]; [reflexivity|].
    unfold add_root. rewrite map_length_snoc. apply list_min_map_S. discriminate.
  Qed.

  Theorem max_depth_simroot : forall f x, x <> root ->
      max_depth hyp f x true = option_map S (max_depth hyp f x false).
  Proof.
    intros f x Hx. unfold max_depth, hypernym_paths.
    rewrite (gen_simroot_all_graphs f x false Hx).
    destruct (hypernym_paths_gen hyp f x false false) as [ps|]; [|reflexivity].
    simpl. f_equal. destruct ps as [|p ps]; [reflexivity|].
    unfold add_root. rewrite map_length_snoc. apply list_max_map_S. discriminate.
  Qed.
End AllGraphs.

(* ---------- the enumeration on hyp_top ---------- *)

Lemma step_map_snoc : forall (g1 g2 : node -> option (list (list node))) l ps1 ps2,
    (forall t q1 q2, In t l -> g1 t = Some q1 -> g2 t = Some q2 ->
                     q2 = map (fun p => p ++ [root]) q1) ->
    step g1 l = Some ps1 -> step g2 l = Some ps2 ->
    ps2 = map (fun p => p ++ [root]) ps1.
Proof.
  intros g1 g2 l. induction l as [|a l IH]; intros ps1 ps2 H H1 H2.
  - unfold step in H1, H2. simpl in H1, H2. inversion H1. inversion H2. reflexivity.
  - apply step_cons_inv in H1. destruct H1 as (qa1 & r1 & Ha1 & Hr1 & ->).
    apply step_cons_inv in H2. destruct H2 as (qa2 & r2 & Ha2 & Hr2 & ->).
    rewrite map_app. f_equal.
    + rewrite (H a qa1 qa2 (or_introl eq_refl) Ha1 Ha2). rewrite !map_map. reflexivity.
    + apply IH; auto. intros t q1 q2 Ht. apply H. right. exact Ht.
Qed.

Lemma filter_single : forall (A : Type) (f : A -> bool) (a : A),
    filter f [a] = if f a then [a] else [].
Proof. reflexivity. Qed.

Lemma step_nil : forall g, step g [] = Some [].
Proof. reflexivity. Qed.

Lemma step_single_inv : forall g a ps, step g [a] = Some ps ->
    exists qa, g a = Some qa /\ ps = map (cons a) qa.
Proof.
  intros g a ps H. apply step_cons_inv in H. destruct H as (qa & r & Ha & Hr & ->).
  rewrite step_nil in Hr. inversion Hr. exists qa. split; [exact Ha|]. apply app_nil_r.
Qed.

Lemma step_Some_not_None : forall g l t, step g l <> None -> In t l -> g t <> None.
Proof.
  intros g l t H Hin. destruct (step g l) as [ps|] eqn:Hs; [|contradiction].
  destruct (step_Some_inv g l ps t Hs Hin) as [qs Hq]. rewrite Hq. discriminate.
Qed.

(* ---------- theorem B of TaxAssembly.v without "root is not a node" ----------
   TaxAssembly.graph_ok asks for ~ In root V, only to know that the two synsets
   are not the simulated root.  The extended graph has root as a node, so the
   same proofs are replayed with  a <> root, b <> root  instead. *)
Section RootAllowed.
  Variable h : node -> list node.
  Variable W : list node.
  Hypothesis HW : closed h W.

  Lemma self_paths_reach_gen : forall fuel a pa c,
      In a W -> a <> root ->
      hypernym_paths_gen h fuel a false true = Some pa ->
      (In c (concat pa) <-> reach h a c).
  Proof.
    intros fuel a pa c Ha Hne Hpa.
    rewrite <- (on_maximal_chain_iff_reach h W a c HW Ha).
    rewrite in_concat. split.
    - intros (q & Hq & Hc). apply (hypernym_paths_self_spec h _ _ _ Hne Hpa) in Hq.
      destruct Hq as (p & -> & HM). exists p. auto.
    - intros (p & HM & Hc). exists (a :: p). split; auto.
      apply (hypernym_paths_self_spec h _ _ _ Hne Hpa). exists p. auto.
  Qed.

  Lemma best_prefix_self_gen : forall fuel a pa c,
      In a W -> a <> root ->
      hypernym_paths_gen h fuel a false true = Some pa ->
      In c (concat pa) ->
      exists ua, best_prefix c pa = Some (a :: ua) /\ chain h a ua /\ last ua a = c
                 /\ is_dist h a c (length ua).
  Proof.
    intros fuel a pa c Ha Hne Hpa Hc.
    destruct (best_prefix_Some c pa Hc) as (p1 & p2 & Hin & Hn & Hbest & Hmin).
    assert (is_dist h a c (length p1)) as Hdist.
    { apply (min_index_is_dist h W a c _ HW Ha).
      apply (hypernym_paths_self_spec h _ _ _ Hne Hpa) in Hin.
      destruct Hin as (p & Hp & HM). split.
      - exists p. split; auto. rewrite <- Hp.
        rewrite nth_error_app2 by lia. rewrite Nat.sub_diag. reflexivity.
      - intros p' m HM' Hm.
        assert (In (a :: p') pa) as Hin'
            by (apply (hypernym_paths_self_spec h _ _ _ Hne Hpa); exists p'; auto).
        destruct (index_of_In c (a :: p') (nth_error_In _ _ Hm)) as [j Hj].
        pose proof (index_of_le _ _ _ _ Hj Hm) as Hjm.
        specialize (Hmin _ _ Hin' Hj). lia. }
    apply (hypernym_paths_self_spec h _ _ _ Hne Hpa) in Hin.
    destruct Hin as (p & Hp & (Hch & _ & _)).
    destruct p1 as [|a' p1'].
    - simpl in Hp. inversion Hp; subst. exists []. simpl in *.
      split; [auto|]. split; [constructor|]. split; auto.
    - simpl in Hp. inversion Hp; subst. exists (p1' ++ [c]).
      rewrite app_length. simpl length in *.
      replace (length p1' + 1) with (S (length p1')) by lia.
      split; [auto|]. split; [|split; [|exact Hdist]].
      + replace (p1' ++ c :: p2) with ((p1' ++ [c]) ++ p2) in Hch
          by (rewrite <- app_assoc; reflexivity).
        apply chain_app in Hch. tauto.
      + apply last_app_cons.
  Qed.

  Lemma shp_entries_gen : forall fuel a b pm,
      In a W -> In b W -> a <> root -> b <> root -> a <> b ->
      shortest_hyp_paths h fuel a b false = Some pm ->
      exists pa pb, hypernym_paths_gen h fuel a false true = Some pa
                    /\ hypernym_paths_gen h fuel b false true = Some pb
                    /\ (forall e, In e pm -> good_entry h a b pa pb e)
                    /\ (forall c, reach h a c -> reach h b c ->
                                  exists e, In e pm /\ fst (fst e) = c).
  Proof.
    intros fuel a b pm Ha Hb Hna Hnb Hab H.
    destruct (shp_neq h _ _ _ _ _ Hab H) as (pa & pb & Hpa & Hpb & ->).
    exists pa, pb. split; auto. split; auto.
    assert (forall c, In c (common_of pa pb) -> exists e, sp_entry pa pb c = [e]
               /\ fst (fst e) = c /\ good_entry h a b pa pb e) as Hentry.
    { intros c Hc. apply common_of_In in Hc. destruct Hc as [Hca Hcb].
      destruct (best_prefix_self_gen fuel a pa c Ha Hna Hpa Hca) as (ua & Hba & Hua & Hla & Hda).
      destruct (best_prefix_self_gen fuel b pb c Hb Hnb Hpb Hcb) as (ub & Hbb & Hub & Hlb & Hdb).
      unfold sp_entry. rewrite Hba, Hbb. eexists. split; [reflexivity|]. split; [reflexivity|].
      exists c, ua, ub. repeat (split; [assumption|]). reflexivity. }
    split.
    - intros e He. apply in_flat_map in He. destruct He as (c & Hc & He).
      rewrite sort_nodes_In in Hc.
      destruct (Hentry c Hc) as (e' & Heq & _ & Hgood). rewrite Heq in He.
      destruct He as [<-|[]]. auto.
    - intros c Hra Hrb.
      assert (In c (common_of pa pb)) as Hc.
      { apply common_of_In.
        rewrite (self_paths_reach_gen fuel a pa c Ha Hna Hpa).
        rewrite (self_paths_reach_gen fuel b pb c Hb Hnb Hpb). auto. }
      destruct (Hentry c Hc) as (e' & Heq & Hfst & _). exists e'. split; auto.
      apply in_flat_map. exists c. split; [apply sort_nodes_In; auto|]. rewrite Heq. simpl; auto.
  Qed.

  (* B, with root allowed among the nodes *)
  Theorem shortest_path_len_spec_gen : forall fuel a b r,
      In a W -> In b W -> a <> root -> b <> root ->
      shortest_path_len h fuel a b false = Some r ->
      match r with
      | None => forall c, ~ (reach h a c /\ reach h b c)
      | Some n => (exists c da db, is_dist h a c da /\ is_dist h b c db /\ n = da + db)
                  /\ (forall c da db, is_dist h a c da -> is_dist h b c db -> n <= da + db)
      end.
  Proof.
    intros fuel a b r Ha Hb Hna Hnb H. unfold shortest_path_len in H.
    destruct (Z.eq_dec a b) as [Hab|Hab].
    - subst b. rewrite shp_eq in H. inversion H; subst. clear H. simpl. split.
      + exists a, 0, 0. split; [apply is_dist_self|]. split; [apply is_dist_self|]. reflexivity.
      + intros; lia.
    - destruct (shortest_hyp_paths h fuel a b false) as [pm|] eqn:Hpm; [|discriminate].
      destruct (shp_entries_gen fuel a b pm Ha Hb Hna Hnb Hab Hpm)
        as (pa & pb & Hpa & Hpb & Hgood & Hall).
      destruct pm as [|e0 pm'].
      + inversion H; subst. intros c [Hra Hrb].
        destruct (Hall c Hra Hrb) as (e & [] & _).
      + set (pm := e0 :: pm') in *.
        assert (map (fun e : node * nat * list node => length (snd e)) pm <> []) as Hne
            by (unfold pm; discriminate).
        destruct (list_min_spec _ Hne) as [Hin Hle].
        remember (list_min (map (fun e : node * nat * list node => length (snd e)) pm)) as m eqn:Hm.
        clear Hm. injection H as Hr. subst r. split.
        * apply in_map_iff in Hin. destruct Hin as (e & Hlen & Hin).
          destruct (good_entry_length h _ _ _ _ _ (Hgood e Hin)) as (c & da & db & _ & Hda & Hdb & Hl).
          exists c, da, db. split; [auto|]. split; [auto|]. lia.
        * intros c da db Hda Hdb.
          destruct (Hall c (is_dist_reach h _ _ _ Hda) (is_dist_reach h _ _ _ Hdb)) as (e & Hin' & Hfst).
          destruct (good_entry_length h _ _ _ _ _ (Hgood e Hin')) as (c' & da' & db' & Hfst' & Hda' & Hdb' & Hl).
          rewrite <- Hfst' in Hda', Hdb'. rewrite Hfst in Hda', Hdb'.
          rewrite (dist_unique h _ _ _ _ Hda Hda'), (dist_unique h _ _ _ _ Hdb Hdb').
          assert (m <= length (snd e)) as Hmle
              by (apply Hle; apply in_map_iff; exists e; auto).
          lia.
  Qed.
End RootAllowed.

Section SimRoot.
  Variable hyp : node -> list node.
  Variable V : list node.
  Hypothesis HV : closed hyp V.
  Hypothesis HrV : ~ In root V.


  (* the fourth hypothesis of the task is a consequence of the other two *)
  Lemma no_root_edge : forall x, ~ In root (hyp x).
  Proof. intros x Hin. apply HrV. apply (HV x root Hin). Qed.

  Lemma V_ne_root : forall x, In x V -> x <> root.
  Proof. intros x Hx ->. contradiction. Qed.

  Lemma hyp_target_ne_root : forall x t, In t (hyp x) -> t <> root.
  Proof. intros x t Ht ->. apply (no_root_edge x Ht). Qed.

  (* ---------- hyp_top is closed on root :: V and acyclic ---------- *)

  Lemma hyp_top_In : forall x t, In t (hyp_top hyp x) ->
      x <> root /\ ((hyp x = [] /\ t = root) \/ In t (hyp x)).
  Proof.
    intros x t Ht. unfold hyp_top in Ht. destruct (Z.eqb x root) eqn:Hx; [destruct Ht|].
    apply Z.eqb_neq in Hx. split; [exact Hx|].
    destruct (hyp x) as [|a l] eqn:Hh.
    - left. destruct Ht as [<-|[]]. auto.
    - right. exact Ht.
  Qed.

  Theorem hyp_top_closed : closed (hyp_top hyp) (root :: V).
  Proof.
    intros x t Ht. apply hyp_top_In in Ht. destruct Ht as [_ [[_ ->]|Ht]].
    - left. reflexivity.
    - right. apply (HV x t Ht).
  Qed.

  Lemma chain_top_from_root : forall p, chain (hyp_top hyp) root p -> p = [].
  Proof.
    intros p Hc. inversion Hc as [|x t p' Ht Hc']; subst; [reflexivity|].
    rewrite hyp_top_root in Ht. destruct Ht.
  Qed.

  (* a chain of the extended graph is a chain of the graph, possibly followed by root *)
  Lemma chain_top_cases : forall x p, chain (hyp_top hyp) x p ->
      chain hyp x p \/ (exists q, p = q ++ [root] /\ chain hyp x q /\ hyp (last q x) = []).
  Proof.
    intros x p Hc. induction Hc as [x|x t p Ht Hc IH].
    - left. constructor.
    - apply hyp_top_In in Ht. destruct Ht as [Hx [[Hh ->]|Ht]].
      + right. apply chain_top_from_root in Hc. subst p. exists []. simpl.
        split; [reflexivity|]. split; [constructor|exact Hh].
      + destruct IH as [IH|(q & -> & Hq & Hl)].
        * left. constructor; assumption.
        * right. exists (t :: q). split; [reflexivity|]. split; [constructor; assumption|].
          rewrite TaxReach.last_cons. exact Hl.
  Qed.

  Lemma chain_into_top : forall x p, x <> root -> chain hyp x p -> chain (hyp_top hyp) x p.
  Proof.
    intros x p Hx Hc. induction Hc as [x|x t p Ht Hc IH].
    - constructor.
    - constructor.
      + rewrite hyp_top_cons; [exact Ht|exact Hx|]. intros Hnil. rewrite Hnil in Ht. destruct Ht.
      + apply IH. apply (hyp_target_ne_root x t Ht).
  Qed.

  Lemma chain_avoids_root : forall x p, x <> root -> chain hyp x p -> ~ In root (x :: p).
  Proof.
    intros x p Hx Hc. induction Hc as [x|x t p Ht Hc IH].
    - intros [He|[]]. auto.
    - intros [He|Hin]; [auto|]. apply IH; [|exact Hin]. apply (hyp_target_ne_root x t Ht).
  Qed.

  Theorem hyp_top_acyclic : acyclic hyp -> acyclic (hyp_top hyp).
  Proof.
    intros Hac x p Hc Hne Hl.
    destruct (chain_top_cases x p Hc) as [Hc'|(q & -> & Hq & _)].
    - apply (Hac x p Hc' Hne Hl).
    - rewrite TaxReach.last_app_cons in Hl. simpl in Hl. subst x.
      apply chain_top_from_root in Hc. apply Hne. exact Hc.
  Qed.

  (* ---------- reachability and distance in the extended graph ---------- *)

  Lemma reach_refl : forall (h : node -> list node) x, reach h x x.
  Proof. intros h x. exists []. split; [constructor|reflexivity]. Qed.

  Lemma reach_step : forall (h : node -> list node) v x t, reach h v x -> In t (h x) -> reach h v t.
  Proof.
    intros h v x t (p & Hc & Hl) Ht. exists (p ++ [t]). split.
    - apply chain_app. split; [exact Hc|]. rewrite Hl. constructor; [exact Ht|constructor].
    - rewrite TaxReach.last_app_cons. reflexivity.
  Qed.

  Lemma acyclic_no_back : forall t x, acyclic hyp -> reach hyp t x -> In t (hyp x) -> False.
  Proof.
    intros t x Hac (p & Hc & Hl) Ht. apply (Hac t (p ++ [t])).
    - apply chain_app. split; [exact Hc|]. rewrite Hl. constructor; [exact Ht|constructor].
    - intros Hnil. apply app_eq_nil in Hnil. destruct Hnil as [_ Hnil]. discriminate.
    - rewrite TaxReach.last_app_cons. reflexivity.
  Qed.

  (* ---------- T1: the path enumerations ---------- *)

  Lemma paths_from_top : acyclic hyp -> forall f1 f2 vis x ps1 ps2,
      x <> root -> ~ In root vis -> (forall v, In v vis -> reach hyp v x) ->
      paths_from hyp f1 vis x = Some ps1 ->
      paths_from (hyp_top hyp) f2 vis x = Some ps2 ->
      ps2 = map (fun p => p ++ [root]) ps1.
  Proof.
    intros Hac f1. induction f1 as [|f1 IH]; intros f2 vis x ps1 ps2 Hx Hrv Hvis H1 H2.
    - discriminate.
    - destruct f2 as [|f2]; [discriminate|].
      rewrite paths_from_S in H1, H2.
      destruct (hyp x) as [|a l] eqn:Hh.
      + simpl in H1. inversion H1; subst ps1. clear H1.
        rewrite (hyp_top_nil hyp x Hx Hh) in H2. simpl in H2.
        destruct (nmem root vis) eqn:Hm; [apply nmem_In in Hm; contradiction|].
        simpl in H2. apply step_single_inv in H2. destruct H2 as (qa & Hqa & ->).
        destruct f2 as [|f2]; [discriminate|].
        rewrite paths_from_S, hyp_top_root in Hqa. simpl in Hqa. inversion Hqa. reflexivity.
      + rewrite (hyp_top_cons hyp x Hx) in H2 by (rewrite Hh; discriminate).
        rewrite <- Hh in *.
        destruct (filter (fun t => negb (nmem t vis)) (hyp x)) as [|r rl] eqn:Hf.
        * exfalso. assert (In a []) as Hin; [|destruct Hin]. rewrite <- Hf.
          apply unvisited_In. split; [rewrite Hh; left; reflexivity|].
          intros Hav. apply (acyclic_no_back a x Hac (Hvis a Hav)). rewrite Hh. left. reflexivity.
        * refine (step_map_snoc _ _ _ _ _ _ H1 H2).
          intros t q1 q2 Ht Hg1 Hg2. rewrite <- Hf in Ht. apply unvisited_In in Ht.
          destruct Ht as [Ht Hnv].
          apply (IH f2 (t :: vis) t q1 q2); auto.
          -- apply (hyp_target_ne_root x t Ht).
          -- intros [He|Hin]; [|contradiction]. apply (hyp_target_ne_root x t Ht). auto.
          -- intros v [<-|Hv]; [apply reach_refl|]. apply (reach_step hyp v x t (Hvis v Hv) Ht).
  Qed.

  Lemma relation_paths_top : acyclic hyp -> forall f1 f2 x ps1 ps2, x <> root ->
      relation_paths hyp f1 x = Some ps1 ->
      relation_paths (hyp_top hyp) f2 x = Some ps2 ->
      ps2 = add_root ps1.
  Proof.
    intros Hac f1 f2 x ps1 ps2 Hx H1 H2.
    rewrite relation_paths_step in H2.
    destruct (hyp x) as [|a l] eqn:Hh.
    - rewrite relation_paths_step, Hh in H1. simpl in H1. rewrite step_nil in H1.
      inversion H1; subst ps1. clear H1.
      rewrite (hyp_top_nil hyp x Hx Hh) in H2.
      assert (Z.eqb root x = false) as Hrx by (apply Z.eqb_neq; auto).
      rewrite filter_single in H2. cbv beta in H2. rewrite Hrx in H2. simpl in H2.
      apply step_single_inv in H2. destruct H2 as (qa & Hqa & ->).
      destruct f2 as [|f2]; [discriminate|].
      rewrite paths_from_S, hyp_top_root in Hqa. simpl in Hqa. inversion Hqa. reflexivity.
    - rewrite (hyp_top_cons hyp x Hx) in H2 by (rewrite Hh; discriminate).
      assert (ps1 <> []) as Hne.
      { intros ->. pose proof (relation_paths_empty hyp f1 x H1 a) as Hax.
        rewrite Hh in Hax. specialize (Hax (or_introl eq_refl)). subst a.
        apply (acyclic_no_back x x Hac (reach_refl hyp x)). rewrite Hh. left. reflexivity. }
      rewrite relation_paths_step in H1.
      assert (ps2 = map (fun p => p ++ [root]) ps1) as Heq.
      { refine (step_map_snoc _ _ _ _ _ _ H1 H2).
        intros t q1 q2 Ht Hg1 Hg2. apply in_rev in Ht. apply other_In in Ht.
        destruct Ht as [Ht Htx].
        apply (paths_from_top Hac f1 f2 [t; x] t q1 q2); auto.
        - apply (hyp_target_ne_root x t Ht).
        - intros [He|[He|[]]]; [|auto]. apply (hyp_target_ne_root x t Ht). auto.
        - intros v [<-|[<-|[]]]; [apply reach_refl|].
          apply (reach_step hyp x x t (reach_refl hyp x) Ht). }
      rewrite Heq. destruct ps1; [contradiction|reflexivity].
  Qed.

  Lemma gen_unfold : forall (h : node -> list node) f x sr incl, x <> root ->
      hypernym_paths_gen h f x sr incl =
      option_map (fun paths =>
                    let paths' := if incl then match paths with [] => [[x]] | _ => map (cons x) paths end
                                  else paths in
                    if sr then add_root paths' else paths')
                 (relation_paths h f x).
  Proof.
    intros h f x sr incl Hx. unfold hypernym_paths_gen. apply Z.eqb_neq in Hx. rewrite Hx.
    destruct (relation_paths h f x) as [paths|]; [|reflexivity].
    destruct sr; reflexivity.
  Qed.

  Lemma add_root_self : forall x ps,
      add_root (match ps with [] => [[x]] | _ => map (cons x) ps end)
      = match add_root ps with [] => [[x]] | _ => map (cons x) (add_root ps) end.
  Proof.
    intros x ps. destruct ps as [|p ps]; [reflexivity|].
    unfold add_root. simpl. rewrite !map_map. reflexivity.
  Qed.

  Lemma gen_top_of_rp : forall f1 f2 x incl ps1 ps2, x <> root ->
      relation_paths hyp f1 x = Some ps1 ->
      relation_paths (hyp_top hyp) f2 x = Some ps2 ->
      ps2 = add_root ps1 ->
      hypernym_paths_gen hyp f1 x true incl = hypernym_paths_gen (hyp_top hyp) f2 x false incl.
  Proof.
    intros f1 f2 x incl ps1 ps2 Hx H1 H2 ->.
    rewrite !gen_unfold by exact Hx. rewrite H1, H2. simpl. f_equal.
    destruct incl; [|reflexivity]. apply add_root_self.
  Qed.

  (* ---------- termination transfers ---------- *)

  Lemma paths_from_top_fuel : forall f vis x, x <> root ->
      paths_from hyp f vis x <> None -> paths_from (hyp_top hyp) (S f) vis x <> None.
  Proof.
    intros f. induction f as [|f IH]; intros vis x Hx H.
    - exfalso. apply H. reflexivity.
    - rewrite paths_from_S in H. rewrite paths_from_S.
      destruct (hyp x) as [|a l] eqn:Hh.
      + rewrite (hyp_top_nil hyp x Hx Hh). rewrite filter_single. cbv beta.
        destruct (negb (nmem root vis)); [|discriminate].
        apply step_not_None. intros t [<-|[]]. cbv beta.
        rewrite paths_from_S, hyp_top_root. simpl. discriminate.
      + rewrite (hyp_top_cons hyp x Hx) by (rewrite Hh; discriminate). rewrite <- Hh in *.
        destruct (filter (fun t => negb (nmem t vis)) (hyp x)) as [|r rl] eqn:Hf; [discriminate|].
        apply step_not_None. intros t Ht. cbv beta. apply IH.
        * rewrite <- Hf in Ht. apply unvisited_In in Ht. destruct Ht as [Ht _].
          apply (hyp_target_ne_root x t Ht).
        * apply (step_Some_not_None _ _ t H Ht).
  Qed.

  Lemma top_paths_from_fuel : forall f vis x, x <> root ->
      paths_from (hyp_top hyp) f vis x <> None -> paths_from hyp f vis x <> None.
  Proof.
    intros f. induction f as [|f IH]; intros vis x Hx H.
    - exfalso. apply H. reflexivity.
    - rewrite paths_from_S in H. rewrite paths_from_S.
      destruct (hyp x) as [|a l] eqn:Hh.
      + simpl. discriminate.
      + rewrite (hyp_top_cons hyp x Hx) in H by (rewrite Hh; discriminate). rewrite <- Hh in *.
        destruct (filter (fun t => negb (nmem t vis)) (hyp x)) as [|r rl] eqn:Hf; [discriminate|].
        apply step_not_None. intros t Ht. cbv beta. apply IH.
        * rewrite <- Hf in Ht. apply unvisited_In in Ht. destruct Ht as [Ht _].
          apply (hyp_target_ne_root x t Ht).
        * apply (step_Some_not_None _ _ t H Ht).
  Qed.

  Lemma relation_paths_top_fuel : forall f x, x <> root ->
      relation_paths hyp f x <> None -> relation_paths (hyp_top hyp) (S f) x <> None.
  Proof.
    intros f x Hx H. rewrite relation_paths_step in H. rewrite relation_paths_step.
    destruct (hyp x) as [|a l] eqn:Hh.
    - rewrite (hyp_top_nil hyp x Hx Hh).
      assert (Z.eqb root x = false) as Hrx by (apply Z.eqb_neq; auto).
      rewrite filter_single. cbv beta. rewrite Hrx.
      change (rev (if negb false then [root] else [])) with [root].
      apply step_not_None. intros t [<-|[]]. cbv beta.
      rewrite paths_from_S, hyp_top_root. simpl. discriminate.
    - rewrite (hyp_top_cons hyp x Hx) by (rewrite Hh; discriminate). rewrite <- Hh in *.
      apply step_not_None. intros t Ht. cbv beta. apply paths_from_top_fuel.
      + apply in_rev in Ht. apply other_In in Ht. destruct Ht as [Ht _].
        apply (hyp_target_ne_root x t Ht).
      + apply (step_Some_not_None _ _ t H Ht).
  Qed.

  Lemma top_relation_paths_fuel : forall f x, x <> root ->
      relation_paths (hyp_top hyp) f x <> None -> relation_paths hyp f x <> None.
  Proof.
    intros f x Hx H. rewrite relation_paths_step in H. rewrite relation_paths_step.
    destruct (hyp x) as [|a l] eqn:Hh.
    - simpl. rewrite step_nil. discriminate.
    - rewrite (hyp_top_cons hyp x Hx) in H by (rewrite Hh; discriminate). rewrite <- Hh in *.
      apply step_not_None. intros t Ht. cbv beta. apply top_paths_from_fuel.
      + apply in_rev in Ht. apply other_In in Ht. destruct Ht as [Ht _].
        apply (hyp_target_ne_root x t Ht).
      + apply (step_Some_not_None _ _ t H Ht).
  Qed.

  (* both enumerations of x terminate: with fuel f1 on hyp, with fuel f2 on hyp_top *)
  Definition fuels_ok (f1 f2 : nat) (x : node) : Prop :=
    relation_paths hyp f1 x <> None /\ relation_paths (hyp_top hyp) f2 x <> None.

  Lemma gen_Some_rp : forall (h : node -> list node) f x sr incl, x <> root ->
      (hypernym_paths_gen h f x sr incl <> None <-> relation_paths h f x <> None).
  Proof.
    intros h f x sr incl Hx. rewrite (gen_unfold h f x sr incl Hx).
    destruct (relation_paths h f x); simpl; split; intros H; auto; discriminate.
  Qed.

  Lemma gen_ok : forall (h : node -> list node) f x sr incl ps, x <> root ->
      hypernym_paths_gen h f x sr incl = Some ps -> relation_paths h f x <> None.
  Proof.
    intros h f x sr incl ps Hx H. apply (gen_Some_rp h f x sr incl Hx). rewrite H. discriminate.
  Qed.

  Theorem fuels_ok_S : forall f x, In x V ->
      relation_paths hyp f x <> None -> fuels_ok f (S f) x.
  Proof.
    intros f x Hx H. split; [exact H|]. apply relation_paths_top_fuel; [apply V_ne_root|]; assumption.
  Qed.

  Theorem fuels_ok_same : forall f x, In x V ->
      relation_paths (hyp_top hyp) f x <> None -> fuels_ok f f x.
  Proof.
    intros f x Hx H. split; [|exact H]. apply top_relation_paths_fuel; [apply V_ne_root|]; assumption.
  Qed.

  Theorem fuels_ok_canonical : forall x, In x V ->
      fuels_ok (S (S (length V))) (S (S (S (length V)))) x.
  Proof.
    intros x Hx. split.
    - apply (relation_paths_terminates hyp V x HV Hx).
    - apply (relation_paths_terminates (hyp_top hyp) (root :: V) x hyp_top_closed).
      right. exact Hx.
  Qed.

  (* T1, equational form *)
  Theorem gen_top_eq : acyclic hyp -> forall f1 f2 x incl, In x V -> fuels_ok f1 f2 x ->
      hypernym_paths_gen hyp f1 x true incl = hypernym_paths_gen (hyp_top hyp) f2 x false incl.
  Proof.
    intros Hac f1 f2 x incl Hx [H1 H2]. pose proof (V_ne_root x Hx) as Hne.
    destruct (relation_paths hyp f1 x) as [ps1|] eqn:E1; [|contradiction].
    destruct (relation_paths (hyp_top hyp) f2 x) as [ps2|] eqn:E2; [|contradiction].
    apply (gen_top_of_rp f1 f2 x incl ps1 ps2 Hne E1 E2).
    apply (relation_paths_top Hac f1 f2 x ps1 ps2 Hne E1 E2).
  Qed.

  (* T1 as asked: any two fuels on which both sides return Some *)
  Theorem hypernym_paths_gen_top : acyclic hyp -> forall f1 f2 x incl ps1 ps2, In x V ->
      hypernym_paths_gen hyp f1 x true incl = Some ps1 ->
      hypernym_paths_gen (hyp_top hyp) f2 x false incl = Some ps2 ->
      ps1 = ps2.
  Proof.
    intros Hac f1 f2 x incl ps1 ps2 Hx H1 H2. pose proof (V_ne_root x Hx) as Hne.
    assert (fuels_ok f1 f2 x) as Hok
        by (split; [apply (gen_ok hyp f1 x true incl ps1 Hne H1)
                   |apply (gen_ok (hyp_top hyp) f2 x false incl ps2 Hne H2)]).
    rewrite (gen_top_eq Hac f1 f2 x incl Hx Hok) in H1. congruence.
  Qed.

  (* T1, termination side: fuel f on the left gives fuel S f on the right; fuel f on
     the right gives fuel f on the left *)
  Theorem hypernym_paths_gen_top_fuel_S : acyclic hyp -> forall f x incl ps, In x V ->
      hypernym_paths_gen hyp f x true incl = Some ps ->
      hypernym_paths_gen (hyp_top hyp) (S f) x false incl = Some ps.
  Proof.
    intros Hac f x incl ps Hx H. pose proof (V_ne_root x Hx) as Hne.
    rewrite <- (gen_top_eq Hac f (S f) x incl Hx); [exact H|].
    apply fuels_ok_S; [exact Hx|]. apply (gen_ok hyp f x true incl ps Hne H).
  Qed.

  Theorem hypernym_paths_gen_top_fuel_same : acyclic hyp -> forall f x incl ps, In x V ->
      hypernym_paths_gen (hyp_top hyp) f x false incl = Some ps ->
      hypernym_paths_gen hyp f x true incl = Some ps.
  Proof.
    intros Hac f x incl ps Hx H. pose proof (V_ne_root x Hx) as Hne.
    rewrite (gen_top_eq Hac f f x incl Hx); [exact H|].
    apply fuels_ok_same; [exact Hx|]. apply (gen_ok (hyp_top hyp) f x false incl ps Hne H).
  Qed.

  (* ---------- T2: the functions built on the paths, equational form ---------- *)

  Theorem hypernym_paths_top_eq : acyclic hyp -> forall f1 f2 x, In x V -> fuels_ok f1 f2 x ->
      hypernym_paths hyp f1 x true = hypernym_paths (hyp_top hyp) f2 x false.
  Proof. intros Hac f1 f2 x Hx Hok. apply (gen_top_eq Hac f1 f2 x false Hx Hok). Qed.

  Theorem min_depth_top_eq : acyclic hyp -> forall f1 f2 x, In x V -> fuels_ok f1 f2 x ->
      min_depth hyp f1 x true = min_depth (hyp_top hyp) f2 x false.
  Proof.
    intros Hac f1 f2 x Hx Hok. unfold min_depth.
    rewrite (hypernym_paths_top_eq Hac f1 f2 x Hx Hok). reflexivity.
  Qed.

  Theorem max_depth_top_eq : acyclic hyp -> forall f1 f2 x, In x V -> fuels_ok f1 f2 x ->
      max_depth hyp f1 x true = max_depth (hyp_top hyp) f2 x false.
  Proof.
    intros Hac f1 f2 x Hx Hok. unfold max_depth.
    rewrite (hypernym_paths_top_eq Hac f1 f2 x Hx Hok). reflexivity.
  Qed.

  Theorem common_hypernyms_top_eq : acyclic hyp -> forall f1 f2 a b, In a V -> In b V ->
      fuels_ok f1 f2 a -> fuels_ok f1 f2 b ->
      common_hypernyms hyp f1 a b true = common_hypernyms (hyp_top hyp) f2 a b false.
  Proof.
    intros Hac f1 f2 a b Ha Hb Hoa Hob. unfold common_hypernyms.
    rewrite (gen_top_eq Hac f1 f2 a true Ha Hoa), (gen_top_eq Hac f1 f2 b true Hb Hob).
    reflexivity.
  Qed.

  Theorem shortest_hyp_paths_top_eq : acyclic hyp -> forall f1 f2 a b, In a V -> In b V ->
      fuels_ok f1 f2 a -> fuels_ok f1 f2 b ->
      shortest_hyp_paths hyp f1 a b true = shortest_hyp_paths (hyp_top hyp) f2 a b false.
  Proof.
    intros Hac f1 f2 a b Ha Hb Hoa Hob. unfold shortest_hyp_paths.
    rewrite (gen_top_eq Hac f1 f2 a true Ha Hoa), (gen_top_eq Hac f1 f2 b true Hb Hob).
    reflexivity.
  Qed.

  Theorem shortest_path_len_top_eq : acyclic hyp -> forall f1 f2 a b, In a V -> In b V ->
      fuels_ok f1 f2 a -> fuels_ok f1 f2 b ->
      shortest_path_len hyp f1 a b true = shortest_path_len (hyp_top hyp) f2 a b false.
  Proof.
    intros Hac f1 f2 a b Ha Hb Hoa Hob. unfold shortest_path_len.
    rewrite (shortest_hyp_paths_top_eq Hac f1 f2 a b Ha Hb Hoa Hob). reflexivity.
  Qed.

  Theorem shortest_path_top_eq : acyclic hyp -> forall f1 f2 a b, In a V -> In b V ->
      fuels_ok f1 f2 a -> fuels_ok f1 f2 b ->
      shortest_path hyp f1 a b true = shortest_path (hyp_top hyp) f2 a b false.
  Proof.
    intros Hac f1 f2 a b Ha Hb Hoa Hob. unfold shortest_path.
    rewrite (shortest_hyp_paths_top_eq Hac f1 f2 a b Ha Hb Hoa Hob). reflexivity.
  Qed.

  Theorem lowest_common_hypernyms_top_eq : acyclic hyp -> forall f1 f2 a b, In a V -> In b V ->
      fuels_ok f1 f2 a -> fuels_ok f1 f2 b ->
      lowest_common_hypernyms hyp f1 a b true = lowest_common_hypernyms (hyp_top hyp) f2 a b false.
  Proof.
    intros Hac f1 f2 a b Ha Hb Hoa Hob. unfold lowest_common_hypernyms.
    rewrite (shortest_hyp_paths_top_eq Hac f1 f2 a b Ha Hb Hoa Hob). reflexivity.
  Qed.

  (* ---------- T2 as asked: any two fuels on which both sides return Some ---------- *)

  Theorem min_depth_top : acyclic hyp -> forall f1 f2 x m1 m2, In x V ->
      min_depth hyp f1 x true = Some m1 -> min_depth (hyp_top hyp) f2 x false = Some m2 -> m1 = m2.
  Proof.
    intros Hac f1 f2 x m1 m2 Hx H1 H2. unfold min_depth, hypernym_paths in H1, H2.
    destruct (hypernym_paths_gen hyp f1 x true false) as [ps1|] eqn:E1; [|discriminate].
    destruct (hypernym_paths_gen (hyp_top hyp) f2 x false false) as [ps2|] eqn:E2; [|discriminate].
    rewrite (hypernym_paths_gen_top Hac f1 f2 x false ps1 ps2 Hx E1 E2) in H1. congruence.
  Qed.

  Theorem max_depth_top : acyclic hyp -> forall f1 f2 x m1 m2, In x V ->
      max_depth hyp f1 x true = Some m1 -> max_depth (hyp_top hyp) f2 x false = Some m2 -> m1 = m2.
  Proof.
    intros Hac f1 f2 x m1 m2 Hx H1 H2. unfold max_depth, hypernym_paths in H1, H2.
    destruct (hypernym_paths_gen hyp f1 x true false) as [ps1|] eqn:E1; [|discriminate].
    destruct (hypernym_paths_gen (hyp_top hyp) f2 x false false) as [ps2|] eqn:E2; [|discriminate].
    rewrite (hypernym_paths_gen_top Hac f1 f2 x false ps1 ps2 Hx E1 E2) in H1. congruence.
  Qed.

  Theorem common_hypernyms_top : acyclic hyp -> forall f1 f2 a b cs1 cs2, In a V -> In b V ->
      common_hypernyms hyp f1 a b true = Some cs1 ->
      common_hypernyms (hyp_top hyp) f2 a b false = Some cs2 -> cs1 = cs2.
  Proof.
    intros Hac f1 f2 a b cs1 cs2 Ha Hb H1 H2. unfold common_hypernyms in H1, H2.
    destruct (hypernym_paths_gen hyp f1 a true true) as [pa1|] eqn:Ea1; [|discriminate].
    destruct (hypernym_paths_gen hyp f1 b true true) as [pb1|] eqn:Eb1; [|discriminate].
    destruct (hypernym_paths_gen (hyp_top hyp) f2 a false true) as [pa2|] eqn:Ea2; [|discriminate].
    destruct (hypernym_paths_gen (hyp_top hyp) f2 b false true) as [pb2|] eqn:Eb2; [|discriminate].
    rewrite (hypernym_paths_gen_top Hac f1 f2 a true pa1 pa2 Ha Ea1 Ea2) in H1.
    rewrite (hypernym_paths_gen_top Hac f1 f2 b true pb1 pb2 Hb Eb1 Eb2) in H1. congruence.
  Qed.

  Theorem shortest_hyp_paths_top : acyclic hyp -> forall f1 f2 a b pm1 pm2, In a V -> In b V ->
      shortest_hyp_paths hyp f1 a b true = Some pm1 ->
      shortest_hyp_paths (hyp_top hyp) f2 a b false = Some pm2 -> pm1 = pm2.
  Proof.
    intros Hac f1 f2 a b pm1 pm2 Ha Hb H1 H2.
    destruct (Z.eq_dec a b) as [Hab|Hab].
    - subst b. rewrite shp_eq in H1, H2. congruence.
    - destruct (shp_neq hyp _ _ _ _ _ Hab H1) as (pa1 & pb1 & Ea1 & Eb1 & ->).
      destruct (shp_neq (hyp_top hyp) _ _ _ _ _ Hab H2) as (pa2 & pb2 & Ea2 & Eb2 & ->).
      rewrite (hypernym_paths_gen_top Hac f1 f2 a true pa1 pa2 Ha Ea1 Ea2).
      rewrite (hypernym_paths_gen_top Hac f1 f2 b true pb1 pb2 Hb Eb1 Eb2). reflexivity.
  Qed.

  Theorem shortest_path_len_top : acyclic hyp -> forall f1 f2 a b r1 r2, In a V -> In b V ->
      shortest_path_len hyp f1 a b true = Some r1 ->
      shortest_path_len (hyp_top hyp) f2 a b false = Some r2 -> r1 = r2.
  Proof.
    intros Hac f1 f2 a b r1 r2 Ha Hb H1 H2. unfold shortest_path_len in H1, H2.
    destruct (shortest_hyp_paths hyp f1 a b true) as [pm1|] eqn:E1; [|discriminate].
    destruct (shortest_hyp_paths (hyp_top hyp) f2 a b false) as [pm2|] eqn:E2; [|discriminate].
    rewrite (shortest_hyp_paths_top Hac f1 f2 a b pm1 pm2 Ha Hb E1 E2) in H1. congruence.
  Qed.

  Theorem shortest_path_top : acyclic hyp -> forall f1 f2 a b r1 r2, In a V -> In b V ->
      shortest_path hyp f1 a b true = Some r1 ->
      shortest_path (hyp_top hyp) f2 a b false = Some r2 -> r1 = r2.
  Proof.
    intros Hac f1 f2 a b r1 r2 Ha Hb H1 H2. unfold shortest_path in H1, H2.
    destruct (shortest_hyp_paths hyp f1 a b true) as [pm1|] eqn:E1; [|discriminate].
    destruct (shortest_hyp_paths (hyp_top hyp) f2 a b false) as [pm2|] eqn:E2; [|discriminate].
    rewrite (shortest_hyp_paths_top Hac f1 f2 a b pm1 pm2 Ha Hb E1 E2) in H1. congruence.
  Qed.

  Theorem lowest_common_hypernyms_top : acyclic hyp -> forall f1 f2 a b l1 l2, In a V -> In b V ->
      lowest_common_hypernyms hyp f1 a b true = Some l1 ->
      lowest_common_hypernyms (hyp_top hyp) f2 a b false = Some l2 -> l1 = l2.
  Proof.
    intros Hac f1 f2 a b l1 l2 Ha Hb H1 H2. unfold lowest_common_hypernyms in H1, H2.
    destruct (shortest_hyp_paths hyp f1 a b true) as [pm1|] eqn:E1; [|discriminate].
    destruct (shortest_hyp_paths (hyp_top hyp) f2 a b false) as [pm2|] eqn:E2; [|discriminate].
    rewrite (shortest_hyp_paths_top Hac f1 f2 a b pm1 pm2 Ha Hb E1 E2) in H1. congruence.
  Qed.

  (* ---------- T2 at the fuels the runner uses: unconditional equations ---------- *)

  Theorem simroot_canonical : acyclic hyp ->
      let F1 := S (S (length V)) in
      let F2 := S (S (S (length V))) in
      (forall x incl, In x V ->
          hypernym_paths_gen hyp F1 x true incl = hypernym_paths_gen (hyp_top hyp) F2 x false incl
          /\ hypernym_paths_gen hyp F1 x true incl <> None)
      /\ (forall x, In x V ->
             min_depth hyp F1 x true = min_depth (hyp_top hyp) F2 x false
             /\ max_depth hyp F1 x true = max_depth (hyp_top hyp) F2 x false)
      /\ (forall a b, In a V -> In b V ->
             common_hypernyms hyp F1 a b true = common_hypernyms (hyp_top hyp) F2 a b false
             /\ shortest_hyp_paths hyp F1 a b true = shortest_hyp_paths (hyp_top hyp) F2 a b false
             /\ shortest_path_len hyp F1 a b true = shortest_path_len (hyp_top hyp) F2 a b false
             /\ shortest_path hyp F1 a b true = shortest_path (hyp_top hyp) F2 a b false
             /\ lowest_common_hypernyms hyp F1 a b true
                = lowest_common_hypernyms (hyp_top hyp) F2 a b false).
  Proof.
    intros Hac F1 F2. split; [|split].
    - intros x incl Hx. split.
      + apply (gen_top_eq Hac F1 F2 x incl Hx (fuels_ok_canonical x Hx)).
      + apply (hypernym_paths_gen_terminates hyp V x true incl HV Hx).
    - intros x Hx. pose proof (fuels_ok_canonical x Hx) as Hok. split.
      + apply (min_depth_top_eq Hac F1 F2 x Hx Hok).
      + apply (max_depth_top_eq Hac F1 F2 x Hx Hok).
    - intros a b Ha Hb.
      pose proof (fuels_ok_canonical a Ha) as Hoa.
      pose proof (fuels_ok_canonical b Hb) as Hob.
      split; [|split; [|split; [|split]]].
      + apply (common_hypernyms_top_eq Hac F1 F2 a b Ha Hb Hoa Hob).
      + apply (shortest_hyp_paths_top_eq Hac F1 F2 a b Ha Hb Hoa Hob).
      + apply (shortest_path_len_top_eq Hac F1 F2 a b Ha Hb Hoa Hob).
      + apply (shortest_path_top_eq Hac F1 F2 a b Ha Hb Hoa Hob).
      + apply (lowest_common_hypernyms_top_eq Hac F1 F2 a b Ha Hb Hoa Hob).
  Qed.

  (* ---------- T3: what shortest_path computes with the simulated root ---------- *)

  Lemma hyp_top_nonempty : forall x, x <> root -> exists t, In t (hyp_top hyp x).
  Proof.
    intros x Hx. destruct (hyp x) as [|a l] eqn:Hh.
    - exists root. rewrite (hyp_top_nil hyp x Hx Hh). left. reflexivity.
    - exists a. rewrite (hyp_top_cons hyp x Hx) by (rewrite Hh; discriminate).
      rewrite Hh. left. reflexivity.
  Qed.

  (* root is above every synset of the extended graph *)
  Theorem reach_top_root : acyclic hyp -> forall x, In x V -> reach (hyp_top hyp) x root.
  Proof.
    intros Hac x Hx.
    destruct (MaxSimple_exists (hyp_top hyp) (root :: V) [x] x hyp_top_closed) as [p Hp].
    - constructor; [intros []|constructor].
    - intros y [<-|[]]. right. exact Hx.
    - apply maximal_simple_MaxSimple in Hp. destruct Hp as (Hc & Hnd & Hl).
      exists p. split; [exact Hc|].
      destruct (Z.eq_dec (last p x) root) as [He|Hne]; [exact He|]. exfalso.
      destruct (hyp_top_nonempty (last p x) Hne) as [t Ht].
      pose proof (Hl t Ht) as Hin.
      destruct (chain_suffix (hyp_top hyp) p x t Hc Hin) as (b & Hb & Hlb).
      apply (hyp_top_acyclic Hac t (b ++ [t])).
      + apply chain_app. split; [exact Hb|]. rewrite Hlb. constructor; [exact Ht|constructor].
      + intros Hnil. apply app_eq_nil in Hnil. destruct Hnil as [_ Hnil]. discriminate.
      + rewrite TaxReach.last_app_cons. reflexivity.
  Qed.

  Theorem reach_top_iff : acyclic hyp -> forall x c, In x V ->
      (reach (hyp_top hyp) x c <-> c = root \/ reach hyp x c).
  Proof.
    intros Hac x c Hx. split.
    - intros (p & Hc & Hl). destruct (chain_top_cases x p Hc) as [Hc'|(q & -> & Hq & _)].
      + right. exists p. auto.
      + left. rewrite TaxReach.last_app_cons in Hl. simpl in Hl. auto.
    - intros [->|(p & Hc & Hl)].
      + apply reach_top_root; assumption.
      + exists p. split; [|exact Hl]. apply chain_into_top; [apply V_ne_root; exact Hx|exact Hc].
  Qed.

  Lemma chain_top_nonroot : forall x p,
      chain (hyp_top hyp) x p -> last p x <> root -> chain hyp x p.
  Proof.
    intros x p Hc Hl. destruct (chain_top_cases x p Hc) as [Hc'|(q & -> & _ & _)]; [exact Hc'|].
    exfalso. apply Hl. rewrite TaxReach.last_app_cons. reflexivity.
  Qed.

  (* distances to the old nodes are unchanged *)
  Theorem is_dist_top_iff : forall x c n, x <> root -> c <> root ->
      (is_dist (hyp_top hyp) x c n <-> is_dist hyp x c n).
  Proof.
    intros x c n Hx Hcr. unfold is_dist. split.
    - intros [(p & Hc & Hl & Hlen) Hmin]. split.
      + exists p. split; [|auto]. apply chain_top_nonroot; [exact Hc|rewrite Hl; exact Hcr].
      + intros p' Hc' Hl'. apply Hmin; [|exact Hl']. apply chain_into_top; assumption.
    - intros [(p & Hc & Hl & Hlen) Hmin]. split.
      + exists p. split; [|auto]. apply chain_into_top; assumption.
      + intros p' Hc' Hl'. apply Hmin; [|exact Hl'].
        apply chain_top_nonroot; [exact Hc'|rewrite Hl'; exact Hcr].
  Qed.

  Lemma chain_to_top_root : forall x q, x <> root -> chain hyp x q -> hyp (last q x) = [] ->
      chain (hyp_top hyp) x (q ++ [root]).
  Proof.
    intros x q Hx Hq Hl. apply chain_app. split; [apply chain_into_top; assumption|].
    constructor; [|constructor]. rewrite hyp_top_nil; [left; reflexivity| |exact Hl].
    intros He. apply (chain_avoids_root x q Hx Hq). rewrite <- He. apply last_In.
  Qed.

  Lemma chain_top_to_root : forall x p, x <> root ->
      chain (hyp_top hyp) x p -> last p x = root ->
      exists q, p = q ++ [root] /\ chain hyp x q /\ hyp (last q x) = [].
  Proof.
    intros x p Hx Hc Hl. destruct (chain_top_cases x p Hc) as [Hc'|H]; [|exact H].
    exfalso. apply (chain_avoids_root x p Hx Hc'). rewrite <- Hl. apply last_In.
  Qed.

  (* the distance to root is 1 + the distance to the nearest synset without hypernyms *)
  Theorem is_dist_top_root_iff : forall x n, x <> root ->
      (is_dist (hyp_top hyp) x root n <->
       exists k, n = S k
         /\ (exists q, chain hyp x q /\ hyp (last q x) = [] /\ length q = k)
         /\ (forall q, chain hyp x q -> hyp (last q x) = [] -> k <= length q)).
  Proof.
    intros x n Hx. unfold is_dist. split.
    - intros [(p & Hc & Hl & Hlen) Hmin].
      destruct (chain_top_to_root x p Hx Hc Hl) as (q & -> & Hq & Hql).
      rewrite app_length in Hlen. simpl in Hlen.
      exists (length q). split; [lia|]. split.
      + exists q. auto.
      + intros q' Hq' Hql'.
        assert (n <= length (q' ++ [root])) as Hle.
        { apply Hmin; [apply chain_to_top_root; assumption|]. apply TaxReach.last_app_cons. }
        rewrite app_length in Hle. simpl in Hle. lia.
    - intros (k & -> & (q & Hq & Hql & Hlen) & Hmin). split.
      + exists (q ++ [root]). split; [apply chain_to_top_root; assumption|].
        split; [apply TaxReach.last_app_cons|]. rewrite app_length. simpl. lia.
      + intros p Hc Hl. destruct (chain_top_to_root x p Hx Hc Hl) as (q' & -> & Hq' & Hql').
        specialize (Hmin q' Hq' Hql'). rewrite app_length. simpl. lia.
  Qed.

  (* T3 *)
  Theorem shortest_path_len_simroot_spec : acyclic hyp -> forall f a b r, In a V -> In b V ->
      shortest_path_len hyp f a b true = Some r ->
      exists n, r = Some n
        /\ (exists c da db, is_dist (hyp_top hyp) a c da /\ is_dist (hyp_top hyp) b c db
                            /\ n = da + db)
        /\ (forall c da db, is_dist (hyp_top hyp) a c da -> is_dist (hyp_top hyp) b c db
                            -> n <= da + db).
  Proof.
    intros Hac f a b r Ha Hb H.
    pose proof (V_ne_root a Ha) as Hna. pose proof (V_ne_root b Hb) as Hnb.
    assert (shortest_path_len (hyp_top hyp) (S f) a b false = Some r) as Htop.
    { destruct (Z.eq_dec a b) as [Hab|Hab].
      - subst b. unfold shortest_path_len in *. rewrite shp_eq in *. exact H.
      - assert (exists pa pb, hypernym_paths_gen hyp f a true true = Some pa
                              /\ hypernym_paths_gen hyp f b true true = Some pb)
          as (pa & pb & Ea & Eb).
        { unfold shortest_path_len in H.
          destruct (shortest_hyp_paths hyp f a b true) as [pm|] eqn:E; [|discriminate].
          destruct (shp_neq hyp _ _ _ _ _ Hab E) as (pa & pb & Ea & Eb & _).
          exists pa, pb. auto. }
        rewrite <- (shortest_path_len_top_eq Hac f (S f) a b Ha Hb); [exact H| |].
        + apply fuels_ok_S; [exact Ha|]. apply (gen_ok hyp f a true true pa Hna Ea).
        + apply fuels_ok_S; [exact Hb|]. apply (gen_ok hyp f b true true pb Hnb Eb). }
    pose proof (shortest_path_len_spec_gen (hyp_top hyp) (root :: V) hyp_top_closed
                  (S f) a b r (or_intror Ha) (or_intror Hb) Hna Hnb Htop) as Hspec.
    destruct r as [n|].
    - exists n. split; [reflexivity|exact Hspec].
    - exfalso. apply (simulated_root_connects hyp V f a b None (conj HV HrV) Ha Hb H). reflexivity.
  Qed.

  (* the answer is never above the detour over root *)
  Theorem shortest_path_len_simroot_bound : acyclic hyp -> forall f a b n da db,
      In a V -> In b V ->
      shortest_path_len hyp f a b true = Some (Some n) ->
      is_dist (hyp_top hyp) a root da -> is_dist (hyp_top hyp) b root db -> n <= da + db.
  Proof.
    intros Hac f a b n da db Ha Hb H Hda Hdb.
    destruct (shortest_path_len_simroot_spec Hac f a b (Some n) Ha Hb H)
      as (n' & Hn' & _ & Hmin).
    inversion Hn'; subst n'. apply (Hmin root da db Hda Hdb).
  Qed.

  (* T4 on the extended graph: one more than the depth in the graph itself *)
  Theorem min_depth_top_S : acyclic hyp -> forall f1 f2 x, In x V -> fuels_ok f1 f2 x ->
      min_depth (hyp_top hyp) f2 x false = option_map S (min_depth hyp f1 x false).
  Proof.
    intros Hac f1 f2 x Hx Hok. rewrite <- (min_depth_top_eq Hac f1 f2 x Hx Hok).
    apply min_depth_simroot. apply V_ne_root. exact Hx.
  Qed.

  Theorem max_depth_top_S : acyclic hyp -> forall f1 f2 x, In x V -> fuels_ok f1 f2 x ->
      max_depth (hyp_top hyp) f2 x false = option_map S (max_depth hyp f1 x false).
  Proof.
    intros Hac f1 f2 x Hx Hok. rewrite <- (max_depth_top_eq Hac f1 f2 x Hx Hok).
    apply max_depth_simroot. apply V_ne_root. exact Hx.
  Qed.
End SimRoot.

(* ====================================================================== *)
(* T5: the acyclicity hypothesis cannot be dropped                         *)
(* ====================================================================== *)

Section Witness.
  Local Open Scope Z_scope.

  (* two synsets that are each other's hypernym *)
  Definition cyc2 : node -> list node := hyp_of [(1, [2]); (2, [1])].

  Lemma cyc2_closed : closed cyc2 [1; 2].
  Proof.
    intros x t. unfold cyc2, hyp_of. cbn [find fst].
    destruct (Z.eqb 1 x); [cbn [snd]; intros [<-|[]]; right; left; reflexivity|].
    destruct (Z.eqb 2 x); [cbn [snd]; intros [<-|[]]; left; reflexivity|]. intros [].
  Qed.

  Lemma cyc2_cyclic : ~ acyclic cyc2.
  Proof.
    intros Hac. apply (Hac 1 [2; 1]).
    - constructor; [left; reflexivity|]. constructor; [left; reflexivity|]. constructor.
    - discriminate.
    - reflexivity.
  Qed.

  (* with simulate_root the path that stops at the visited synset 1 gets root
     appended; in the extended graph nothing points to root *)
  Example gen_top_cyclic_refuted :
    hypernym_paths_gen cyc2 4%nat 1 true false = Some [[2; 0]]
    /\ hypernym_paths_gen (hyp_top cyc2) 4%nat 1 false false = Some [[2]]
    /\ hypernym_paths_gen cyc2 4%nat 1 true true = Some [[1; 2; 0]]
    /\ hypernym_paths_gen (hyp_top cyc2) 4%nat 1 false true = Some [[1; 2]]
    /\ min_depth cyc2 4%nat 1 true = Some 2%nat
    /\ min_depth (hyp_top cyc2) 4%nat 1 false = Some 1%nat
    /\ common_hypernyms cyc2 4%nat 1 2 true = Some [0; 1; 2]
    /\ common_hypernyms (hyp_top cyc2) 4%nat 1 2 false = Some [1; 2].
  Proof. vm_compute. repeat split. Qed.

  Theorem gen_top_needs_acyclic :
    ~ (forall (hyp : node -> list node) (V : list node) f1 f2 x incl ps1 ps2,
          closed hyp V -> ~ In root V -> In x V ->
          hypernym_paths_gen hyp f1 x true incl = Some ps1 ->
          hypernym_paths_gen (hyp_top hyp) f2 x false incl = Some ps2 -> ps1 = ps2).
  Proof.
    intros H.
    assert ([[2; 0]] = [[2]]) as Habs; [|discriminate].
    apply (H cyc2 [1; 2] 4%nat 4%nat 1 false).
    - exact cyc2_closed.
    - unfold root. intros [He|[He|[]]]; discriminate.
    - left. reflexivity.
    - vm_compute. reflexivity.
    - vm_compute. reflexivity.
  Qed.

  (* sanity: an acyclic graph with two root synsets (3 and 4), fuels as in the runner *)
  Definition dag4 : node -> list node := hyp_of [(1, [2; 3]); (2, [4]); (3, []); (4, [])].

  Example simroot_dag_sanity :
    hypernym_paths_gen dag4 6%nat 1 true true = Some [[1; 3; 0]; [1; 2; 4; 0]]
    /\ hypernym_paths_gen (hyp_top dag4) 7%nat 1 false true = Some [[1; 3; 0]; [1; 2; 4; 0]]
    /\ shortest_path dag4 6%nat 3 4 false = Some None
    /\ shortest_path dag4 6%nat 3 4 true = Some (Some [0; 4])
    /\ shortest_path (hyp_top dag4) 7%nat 3 4 false = Some (Some [0; 4])
    /\ min_depth dag4 6%nat 1 false = Some 1%nat
    /\ min_depth dag4 6%nat 1 true = Some 2%nat
    /\ min_depth (hyp_top dag4) 7%nat 1 false = Some 2%nat.
  Proof. vm_compute. repeat split. Qed.
End Witness.

Print Assumptions roots_spec.
Print Assumptions leaves_spec.
Print Assumptions roots_sublist.
Print Assumptions leaves_sublist.
Print Assumptions roots_NoDup.
Print Assumptions leaves_NoDup.
Print Assumptions roots_order.
Print Assumptions leaves_order.
Print Assumptions roots_count.
Print Assumptions leaves_count.
Print Assumptions gen_simroot_all_graphs.
Print Assumptions gen_simroot_at_root.
Print Assumptions min_depth_simroot.
Print Assumptions max_depth_simroot.
Print Assumptions shortest_path_len_spec_gen.
Print Assumptions hyp_top_closed.
Print Assumptions hyp_top_acyclic.
Print Assumptions fuels_ok_S.
Print Assumptions fuels_ok_same.
Print Assumptions fuels_ok_canonical.
Print Assumptions gen_top_eq.
Print Assumptions hypernym_paths_gen_top.
Print Assumptions hypernym_paths_gen_top_fuel_S.
Print Assumptions hypernym_paths_gen_top_fuel_same.
Print Assumptions hypernym_paths_top_eq.
Print Assumptions min_depth_top_eq.
Print Assumptions max_depth_top_eq.
Print Assumptions common_hypernyms_top_eq.
Print Assumptions shortest_hyp_paths_top_eq.
Print Assumptions shortest_path_len_top_eq.
Print Assumptions shortest_path_top_eq.
Print Assumptions lowest_common_hypernyms_top_eq.
Print Assumptions min_depth_top.
Print Assumptions max_depth_top.
Print Assumptions common_hypernyms_top.
Print Assumptions shortest_hyp_paths_top.
Print Assumptions shortest_path_len_top.
Print Assumptions shortest_path_top.
Print Assumptions lowest_common_hypernyms_top.
Print Assumptions simroot_canonical.
Print Assumptions reach_top_root.
Print Assumptions reach_top_iff.
Print Assumptions is_dist_top_iff.
Print Assumptions is_dist_top_root_iff.
Print Assumptions shortest_path_len_simroot_spec.
Print Assumptions shortest_path_len_simroot_bound.
Print Assumptions min_depth_top_S.
Print Assumptions max_depth_top_S.
Print Assumptions gen_top_cyclic_refuted.
Print Assumptions gen_top_needs_acyclic.
Print Assumptions simroot_dag_sanity.
