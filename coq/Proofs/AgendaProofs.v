(* Proofs/AgendaProofs.v — the agenda loops of wn/_core.py (_Relatable.relation_paths,
   _Relatable.closure) transliterated as fuelled state machines, and the proof
   that they compute what the recursive model of Model/Taxonomy.v computes:
   the same paths in the same order (relation_paths), resp. exactly the nodes
   reachable in one or more steps, each once (closure). *)
From Coq Require Import ZArith List Bool Lia. Import ListNotations. Require Import WnV.Base.Sx WnV.Model.Taxonomy WnV.Proofs.TaxSpec WnV.Proofs.TaxPaths.

(* ---------- generic helpers ---------- *)

Lemma step_nil : forall g, step g [] = Some [].
Proof. intros g. reflexivity. Qed.

Lemma step_ext_Some : forall g1 g2 l ps,
    (forall t qs, In t l -> g1 t = Some qs -> g2 t = Some qs) ->
    step g1 l = Some ps -> step g2 l = Some ps.
Proof.
  intros g1 g2 l. induction l as [|a l IH]; intros ps H Hs.
  - rewrite step_nil in *. exact Hs.
  - apply step_cons_inv in Hs. destruct Hs as (qa & r & Ha & Hr & ->).
    apply step_cons.
    + apply H; simpl; auto.
    + apply IH; auto. intros t qs Ht. apply H. simpl; auto.
Qed.

Lemma step_ext : forall g1 g2 l,
    (forall t, g1 t = g2 t) -> step g1 l = step g2 l.
Proof.
  intros g1 g2 l H. unfold step. f_equal. f_equal. apply map_ext.
  intros t. rewrite H. reflexivity.
Qed.

Lemma nmem_ext : forall vis1 vis2 t,
    (forall y, In y vis1 <-> In y vis2) -> nmem t vis1 = nmem t vis2.
Proof.
  intros vis1 vis2 t H.
  destruct (nmem t vis1) eqn:H1; destruct (nmem t vis2) eqn:H2; auto.
  - apply nmem_In in H1. apply H in H1. apply nmem_In in H1. congruence.
  - apply nmem_In in H2. apply H in H2. apply nmem_In in H2. congruence.
Qed.

Lemma nmem_cons : forall t y vis, nmem t (y :: vis) = Z.eqb t y || nmem t vis.
Proof. reflexivity. Qed.

Section Agenda.
  Variable hyp : node -> list node.

  (* ================================================================== *)
  (*  Part 1 — relation_paths: the loop over an agenda used as a stack  *)
  (* ================================================================== *)

  (* an agenda entry: (path, visited).  The Python set [visited] is kept as a
     list; only its elements matter (agenda_run_vis_ext below). *)
  Definition item := (list node * list node)%type.

  (* path[-1]; the paths on the agenda are never empty *)
  Definition path_end (path : list node) : node := last path root.

  (* (list(path) + [synset], visited | {synset}) *)
  Definition push (path visited : list node) (s : node) : item :=
    (path ++ [s], s :: visited).

  (* The agenda is stored REVERSED: the head of the Coq list is the LAST element
     of the Python list, i.e. the next one to be popped.  Accordingly
       - agenda.pop()                                   is taking the head,
       - for synset in reversed(related): agenda.append is prepending
         [map (push path visited) related] (first related synset on top),
       - the initial agenda is the reverse of the Python list comprehension.
     [agenda_run_py] below keeps the Python order literally and is proved
     equal to this one.
     One unit of fuel = one iteration of the while loop; [None] = out of fuel;
     [acc] = the paths yielded so far, in yield order. *)
  Fixpoint agenda_run (fuel : nat) (agenda : list item) (acc : list (list node)) {struct fuel}
    : option (list (list node)) :=
    match agenda with
    | [] => Some acc                                          (* while agenda: *)
    | (path, visited) :: rest =>                              (* agenda.pop() *)
        match fuel with
        | O => None
        | S f =>
            match filter (fun t => negb (nmem t visited)) (hyp (path_end path)) with
            | [] => agenda_run f rest (acc ++ [path])         (* yield path *)
            | related => agenda_run f (map (push path visited) related ++ rest) acc
            end
        end
    end.

  (* [([target], {self, target}) for target in get_related() if target._id != self._id],
     in pop order (= reversed) *)
  Definition initial_agenda (x : node) : list item :=
    map (fun t => ([t], [t; x])) (rev (filter (fun t => negb (Z.eqb t x)) (hyp x))).

  Definition relation_paths_loop (fuel : nat) (x : node) : option (list (list node)) :=
    agenda_run fuel (initial_agenda x) [].

  (* ---------- the same loop with the agenda in Python order ---------- *)

  Fixpoint agenda_run_py (fuel : nat) (agenda : list item) (acc : list (list node)) {struct fuel}
    : option (list (list node)) :=
    match rev agenda with                 (* the last element is popped *)
    | [] => Some acc
    | (path, visited) :: before =>        (* [rev before] is what stays on the agenda *)
        match fuel with
        | O => None
        | S f =>
            match filter (fun t => negb (nmem t visited)) (hyp (path_end path)) with
            | [] => agenda_run_py f (rev before) (acc ++ [path])
            | related =>
                agenda_run_py f (rev before ++ map (push path visited) (rev related)) acc
            end
        end
    end.

  Definition relation_paths_loop_py (fuel : nat) (x : node) : option (list (list node)) :=
    agenda_run_py fuel
      (map (fun t => ([t], [t; x])) (filter (fun t => negb (Z.eqb t x)) (hyp x))) [].

  Lemma agenda_run_py_eq : forall fuel agenda acc,
      agenda_run_py fuel agenda acc = agenda_run fuel (rev agenda) acc.
  Proof.
    intros fuel. induction fuel as [|f IH]; intros agenda acc.
    - simpl. destruct (rev agenda) as [|[path vis] before]; reflexivity.
    - simpl. destruct (rev agenda) as [|[path vis] before]; [reflexivity|].
      destruct (filter (fun t => negb (nmem t vis)) (hyp (path_end path))) as [|a l].
      + rewrite IH. rewrite rev_involutive. reflexivity.
      + rewrite IH. rewrite rev_app_distr, rev_involutive.
        rewrite <- map_rev, rev_unit, rev_involutive. reflexivity.
  Qed.

  Lemma relation_paths_loop_py_eq : forall fuel x,
      relation_paths_loop_py fuel x = relation_paths_loop fuel x.
  Proof.
    intros fuel x. unfold relation_paths_loop_py, relation_paths_loop, initial_agenda.
    rewrite agenda_run_py_eq. rewrite map_rev. reflexivity.
  Qed.

  (* ---------- unfolding lemmas ---------- *)

  Lemma agenda_run_nil : forall fuel acc, agenda_run fuel [] acc = Some acc.
  Proof. intros fuel acc. destruct fuel; reflexivity. Qed.

  Lemma agenda_run_S : forall f path vis rest acc,
      agenda_run (S f) ((path, vis) :: rest) acc =
      match filter (fun t => negb (nmem t vis)) (hyp (path_end path)) with
      | [] => agenda_run f rest (acc ++ [path])
      | related => agenda_run f (map (push path vis) related ++ rest) acc
      end.
  Proof. reflexivity. Qed.

  Lemma path_end_push : forall path s, path_end (path ++ [s]) = s.
  Proof. intros path s. unfold path_end. apply last_last. Qed.

  (* ---------- paths_from: more fuel does not change a result; only the
     elements of the visited list matter ---------- *)

  Lemma paths_from_mono_S : forall f vis x ps,
      paths_from hyp f vis x = Some ps -> paths_from hyp (S f) vis x = Some ps.
  Proof.
    intros f. induction f as [|f IH]; intros vis x ps H.
    - discriminate.
    - rewrite paths_from_S in H. rewrite paths_from_S.
      destruct (filter (fun t => negb (nmem t vis)) (hyp x)) as [|a l].
      + exact H.
      + refine (step_ext_Some _ _ _ _ _ H). intros t qs _ Hg. apply IH. exact Hg.
  Qed.

  Lemma paths_from_mono : forall f f' vis x ps,
      f <= f' -> paths_from hyp f vis x = Some ps -> paths_from hyp f' vis x = Some ps.
  Proof.
    intros f f' vis x ps Hle H. induction Hle as [|f' Hle IH].
    - exact H.
    - apply paths_from_mono_S. exact IH.
  Qed.

  Lemma paths_from_vis_ext : forall f vis1 vis2 x,
      (forall y, In y vis1 <-> In y vis2) ->
      paths_from hyp f vis1 x = paths_from hyp f vis2 x.
  Proof.
    intros f. induction f as [|f IH]; intros vis1 vis2 x H.
    - reflexivity.
    - rewrite !paths_from_S.
      assert (filter (fun t => negb (nmem t vis1)) (hyp x)
              = filter (fun t => negb (nmem t vis2)) (hyp x)) as Hf.
      { apply filter_ext. intros t. rewrite (nmem_ext vis1 vis2 t H). reflexivity. }
      rewrite Hf.
      destruct (filter (fun t => negb (nmem t vis2)) (hyp x)) as [|a l].
      + reflexivity.
      + apply step_ext. intros t. apply IH.
        intros y. simpl. rewrite (H y). tauto.
  Qed.

  (* ---------- what the recursion computes for a whole agenda ---------- *)

  (* the contribution of one entry: the recursion's continuations from the end
     of the path with that visited set, each prefixed by the path *)
  Definition item_paths (f : nat) (it : item) : option (list (list node)) :=
    option_map (map (app (fst it))) (paths_from hyp f (snd it) (path_end (fst it))).

  (* entries in pop order *)
  Definition agenda_paths (f : nat) (agenda : list item) : option (list (list node)) :=
    option_map (@concat _) (sequence (map (item_paths f) agenda)).

  Lemma agenda_paths_nil : forall f, agenda_paths f [] = Some [].
  Proof. reflexivity. Qed.

  Lemma agenda_paths_cons_eq : forall f path vis rest,
      agenda_paths f ((path, vis) :: rest) =
      match paths_from hyp f vis (path_end path), agenda_paths f rest with
      | Some qs, Some r' => Some (map (app path) qs ++ r')
      | _, _ => None
      end.
  Proof.
    intros f path vis rest. unfold agenda_paths.
    change (map (item_paths f) ((path, vis) :: rest))
      with (option_map (map (app path)) (paths_from hyp f vis (path_end path))
              :: map (item_paths f) rest).
    destruct (paths_from hyp f vis (path_end path)) as [qs|]; cbn [option_map sequence];
      [|reflexivity].
    destruct (sequence (map (item_paths f) rest)) as [rr|]; reflexivity.
  Qed.

  Lemma agenda_paths_cons_inv : forall f path vis rest r,
      agenda_paths f ((path, vis) :: rest) = Some r ->
      exists qs r', paths_from hyp f vis (path_end path) = Some qs
                    /\ agenda_paths f rest = Some r'
                    /\ r = map (app path) qs ++ r'.
  Proof.
    intros f path vis rest r. rewrite agenda_paths_cons_eq.
    destruct (paths_from hyp f vis (path_end path)) as [qs|]; [|discriminate].
    destruct (agenda_paths f rest) as [r'|]; [|discriminate].
    intros H. inversion H. exists qs, r'. auto.
  Qed.

  Lemma agenda_paths_cons : forall f path vis rest qs r',
      paths_from hyp f vis (path_end path) = Some qs ->
      agenda_paths f rest = Some r' ->
      agenda_paths f ((path, vis) :: rest) = Some (map (app path) qs ++ r').
  Proof.
    intros f path vis rest qs r' Hq Hr. rewrite agenda_paths_cons_eq, Hq, Hr. reflexivity.
  Qed.

  Lemma agenda_paths_app : forall f a b ra rb,
      agenda_paths f a = Some ra -> agenda_paths f b = Some rb ->
      agenda_paths f (a ++ b) = Some (ra ++ rb).
  Proof.
    intros f a. induction a as [|[path vis] a IH]; intros b ra rb Ha Hb.
    - rewrite agenda_paths_nil in Ha. inversion Ha. exact Hb.
    - apply agenda_paths_cons_inv in Ha. destruct Ha as (qs & r' & Hq & Hr' & ->).
      simpl. rewrite <- app_assoc. apply agenda_paths_cons; auto.
  Qed.

  Lemma agenda_paths_app_inv : forall f a b r,
      agenda_paths f (a ++ b) = Some r ->
      exists ra rb, agenda_paths f a = Some ra /\ agenda_paths f b = Some rb /\ r = ra ++ rb.
  Proof.
    intros f a. induction a as [|[path vis] a IH]; intros b r H.
    - exists [], r. auto.
    - simpl in H. apply agenda_paths_cons_inv in H. destruct H as (qs & r' & Hq & Hr' & ->).
      destruct (IH _ _ Hr') as (ra & rb & Ha & Hb & ->).
      exists (map (app path) qs ++ ra), rb. split; [|split].
      + apply agenda_paths_cons; auto.
      + exact Hb.
      + rewrite app_assoc. reflexivity.
  Qed.

  Lemma agenda_paths_mono : forall f f' agenda r,
      f <= f' -> agenda_paths f agenda = Some r -> agenda_paths f' agenda = Some r.
  Proof.
    intros f f' agenda. induction agenda as [|[path vis] rest IH]; intros r Hle H.
    - exact H.
    - apply agenda_paths_cons_inv in H. destruct H as (qs & r' & Hq & Hr' & ->).
      apply agenda_paths_cons.
      + apply (paths_from_mono f); auto.
      + apply IH; auto.
  Qed.

  Lemma agenda_paths_fuel_irrelevant : forall f1 f2 agenda r1 r2,
      agenda_paths f1 agenda = Some r1 -> agenda_paths f2 agenda = Some r2 -> r1 = r2.
  Proof.
    intros f1 f2 agenda r1 r2 H1 H2.
    apply (agenda_paths_mono f1 (Nat.max f1 f2)) in H1; [|lia].
    apply (agenda_paths_mono f2 (Nat.max f1 f2)) in H2; [|lia].
    congruence.
  Qed.

  Lemma map_app_push : forall path (s : node) (qs : list (list node)),
      map (app (path ++ [s])) qs = map (app path) (map (cons s) qs).
  Proof.
    intros path s qs. rewrite map_map. apply map_ext. intros q.
    rewrite <- app_assoc. reflexivity.
  Qed.

  (* the entries pushed for [related] correspond to one recursion level *)
  Lemma agenda_paths_children : forall f path vis related qs,
      step (fun t => paths_from hyp f (t :: vis) t) related = Some qs ->
      agenda_paths f (map (push path vis) related) = Some (map (app path) qs).
  Proof.
    intros f path vis related. induction related as [|a l IH]; intros qs H.
    - rewrite step_nil in H. inversion H. reflexivity.
    - apply step_cons_inv in H. destruct H as (qa & r & Ha & Hr & ->).
      simpl. unfold push at 1. rewrite map_app, <- map_app_push.
      apply agenda_paths_cons.
      + rewrite path_end_push. exact Ha.
      + apply IH. exact Hr.
  Qed.

  Lemma agenda_paths_children_inv : forall f path vis related rc,
      agenda_paths f (map (push path vis) related) = Some rc ->
      exists qs, step (fun t => paths_from hyp f (t :: vis) t) related = Some qs
                 /\ rc = map (app path) qs.
  Proof.
    intros f path vis related. induction related as [|a l IH]; intros rc H.
    - rewrite agenda_paths_nil in H. inversion H. exists []. auto.
    - simpl in H. unfold push at 1 in H. apply agenda_paths_cons_inv in H.
      destruct H as (qa & r' & Ha & Hr' & ->).
      rewrite path_end_push in Ha.
      destruct (IH _ Hr') as (qs & Hs & ->).
      exists (map (cons a) qa ++ qs). split.
      + apply step_cons; auto.
      + rewrite map_app, <- map_app_push. reflexivity.
  Qed.

  Lemma agenda_paths_initial : forall f x,
      agenda_paths f (initial_agenda x) = relation_paths hyp f x.
  Proof.
    intros f x. rewrite relation_paths_step. unfold agenda_paths, initial_agenda, step.
    rewrite map_map. reflexivity.
  Qed.

  (* ---------- recursion => loop: exact simulation with an iteration count ---------- *)

  (* running the entries [its] (on top of any [rest]) takes a fixed number n of
     iterations, yields [res] and leaves [rest] *)
  Definition runs_to (its : list item) (res : list (list node)) : Prop :=
    exists n, forall rest acc k,
        agenda_run (n + k) (its ++ rest) acc = agenda_run k rest (acc ++ res).

  Lemma runs_to_nil : runs_to [] [].
  Proof. exists 0. intros rest acc k. simpl. rewrite app_nil_r. reflexivity. Qed.

  Lemma runs_to_app : forall a b ra rb,
      runs_to a ra -> runs_to b rb -> runs_to (a ++ b) (ra ++ rb).
  Proof.
    intros a b ra rb [na Ha] [nb Hb]. exists (na + nb). intros rest acc k.
    rewrite <- app_assoc, <- Nat.add_assoc. rewrite Ha, Hb.
    rewrite app_assoc. reflexivity.
  Qed.

  Lemma runs_to_children : forall f path vis,
      (forall path' vis' qs', paths_from hyp f vis' (path_end path') = Some qs' ->
                              runs_to [(path', vis')] (map (app path') qs')) ->
      forall related qs,
      step (fun t => paths_from hyp f (t :: vis) t) related = Some qs ->
      runs_to (map (push path vis) related) (map (app path) qs).
  Proof.
    intros f path vis Hitem related. induction related as [|a l IH]; intros qs H.
    - rewrite step_nil in H. inversion H. apply runs_to_nil.
    - apply step_cons_inv in H. destruct H as (qa & r & Ha & Hr & ->).
      rewrite map_app, <- map_app_push.
      change (map (push path vis) (a :: l))
        with ([(path ++ [a], a :: vis)] ++ map (push path vis) l).
      apply runs_to_app.
      + apply Hitem. rewrite path_end_push. exact Ha.
      + apply IH. exact Hr.
  Qed.

  Lemma runs_to_item : forall f path vis qs,
      paths_from hyp f vis (path_end path) = Some qs ->
      runs_to [(path, vis)] (map (app path) qs).
  Proof.
    intros f. induction f as [|f IH]; intros path vis qs H.
    - discriminate.
    - rewrite paths_from_S in H.
      destruct (filter (fun t => negb (nmem t vis)) (hyp (path_end path))) as [|a l] eqn:Hf.
      + inversion H. exists 1. intros rest acc k.
        change (agenda_run (S k) ((path, vis) :: rest) acc
                = agenda_run k rest (acc ++ map (app path) [[]])).
        rewrite agenda_run_S, Hf. simpl. rewrite app_nil_r. reflexivity.
      + destruct (runs_to_children f path vis IH (a :: l) qs H) as [n Hn].
        exists (S n). intros rest acc k.
        change (agenda_run (S (n + k)) ((path, vis) :: rest) acc
                = agenda_run k rest (acc ++ map (app path) qs)).
        rewrite agenda_run_S, Hf. apply Hn.
  Qed.

  Lemma runs_to_agenda : forall f agenda r,
      agenda_paths f agenda = Some r -> runs_to agenda r.
  Proof.
    intros f agenda. induction agenda as [|[path vis] rest IH]; intros r H.
    - rewrite agenda_paths_nil in H. inversion H. apply runs_to_nil.
    - apply agenda_paths_cons_inv in H. destruct H as (qs & r' & Hq & Hr' & ->).
      change ((path, vis) :: rest) with ([(path, vis)] ++ rest).
      apply runs_to_app.
      + apply (runs_to_item f). exact Hq.
      + apply IH. exact Hr'.
  Qed.

  (* if every recursive call involved returns Some, some loop fuel suffices and
     the loop returns acc followed by the recursion's paths *)
  Theorem agenda_run_complete : forall f agenda r,
      agenda_paths f agenda = Some r ->
      exists n, forall k acc, agenda_run (n + k) agenda acc = Some (acc ++ r).
  Proof.
    intros f agenda r H. destruct (runs_to_agenda f agenda r H) as [n Hn].
    exists n. intros k acc. specialize (Hn [] acc k). rewrite app_nil_r in Hn.
    rewrite Hn. apply agenda_run_nil.
  Qed.

  (* ---------- loop => recursion ---------- *)

  Theorem agenda_run_sound : forall fuel agenda acc ps,
      agenda_run fuel agenda acc = Some ps ->
      exists f r, agenda_paths f agenda = Some r /\ ps = acc ++ r.
  Proof.
    intros fuel. induction fuel as [|lf IH]; intros agenda acc ps H.
    - destruct agenda as [|[path vis] rest].
      + simpl in H. inversion H. exists 0, []. rewrite app_nil_r. auto.
      + discriminate.
    - destruct agenda as [|[path vis] rest].
      + simpl in H. inversion H. exists 0, []. rewrite app_nil_r. auto.
      + rewrite agenda_run_S in H.
        destruct (filter (fun t => negb (nmem t vis)) (hyp (path_end path))) as [|a l] eqn:Hf.
        * destruct (IH _ _ _ H) as (f & r' & Hr' & ->).
          exists (S f), (map (app path) [[]] ++ r'). split.
          -- apply agenda_paths_cons.
             ++ rewrite paths_from_S, Hf. reflexivity.
             ++ apply (agenda_paths_mono f); auto.
          -- simpl. rewrite app_nil_r, <- app_assoc. reflexivity.
        * destruct (IH _ _ _ H) as (f & r'' & Hr'' & ->).
          apply agenda_paths_app_inv in Hr''.
          destruct Hr'' as (rc & rr & Hc & Hr & ->).
          apply agenda_paths_children_inv in Hc. destruct Hc as (qs & Hs & ->).
          exists (S f), (map (app path) qs ++ rr). split; [|reflexivity].
          apply agenda_paths_cons.
          -- rewrite paths_from_S, Hf. exact Hs.
          -- apply (agenda_paths_mono f); auto.
  Qed.

  (* the generalisation to an arbitrary agenda *)
  Theorem agenda_run_general : forall fuel agenda acc f r ps,
      agenda_paths f agenda = Some r ->
      agenda_run fuel agenda acc = Some ps ->
      ps = acc ++ r.
  Proof.
    intros fuel agenda acc f r ps Hr H.
    destruct (agenda_run_sound _ _ _ _ H) as (f' & r' & Hr' & ->).
    f_equal. apply (agenda_paths_fuel_irrelevant _ _ _ _ _ Hr' Hr).
  Qed.

  (* the set representation of [visited] is irrelevant *)
  Definition same_item (a b : item) : Prop :=
    fst a = fst b /\ (forall y, In y (snd a) <-> In y (snd b)).

  Lemma agenda_run_vis_ext : forall fuel ag1 ag2 acc,
      Forall2 same_item ag1 ag2 -> agenda_run fuel ag1 acc = agenda_run fuel ag2 acc.
  Proof.
    intros fuel. induction fuel as [|f IH]; intros ag1 ag2 acc H.
    - destruct H as [|[p1 v1] [p2 v2] r1 r2 _ _]; reflexivity.
    - destruct H as [|[p1 v1] [p2 v2] r1 r2 [Hp Hv] Hr]; [reflexivity|].
      simpl in Hp, Hv. subst p2. rewrite !agenda_run_S.
      assert (filter (fun t => negb (nmem t v1)) (hyp (path_end p1))
              = filter (fun t => negb (nmem t v2)) (hyp (path_end p1))) as Hf.
      { apply filter_ext. intros t. rewrite (nmem_ext v1 v2 t Hv). reflexivity. }
      rewrite Hf.
      destruct (filter (fun t => negb (nmem t v2)) (hyp (path_end p1))) as [|a l].
      + apply IH. exact Hr.
      + apply IH. apply Forall2_app; [|exact Hr].
        generalize (a :: l). intros rel. induction rel as [|s rel IHrel]; simpl.
        * constructor.
        * constructor; [|exact IHrel]. split; [reflexivity|].
          simpl. intros y. rewrite (Hv y). tauto.
  Qed.

  (* ================================================================== *)
  (*  Part 2 — closure: the loop over a queue                           *)
  (* ================================================================== *)

  (* queue.pop(0) takes the head, queue.extend appends; [visited] is the set of
     ids seen (kept as a list), [acc] the nodes yielded so far in yield order.
     One unit of fuel = one iteration of the while loop. *)
  Fixpoint closure_loop (fuel : nat) (queue visited acc : list node) {struct fuel}
    : option (list node) :=
    match queue with
    | [] => Some acc
    | y :: q =>
        match fuel with
        | O => None
        | S f =>
            if nmem y visited then closure_loop f q visited acc
            else closure_loop f (q ++ hyp y) (y :: visited) (acc ++ [y])
        end
    end.

  Definition closure_run (fuel : nat) (x : node) : option (list node) :=
    closure_loop fuel (hyp x) [] [].

  (* reachable from x in one or more hypernym steps *)
  Definition reach1 (x y : node) : Prop :=
    exists p, p <> [] /\ chain hyp x p /\ last p x = y.

  Lemma chain_snoc : forall x p t,
      chain hyp x p -> In t (hyp (last p x)) -> chain hyp x (p ++ [t]).
  Proof.
    intros x p t Hc. induction Hc as [x|x u p Hu Hc IH]; intros Ht.
    - simpl in *. constructor; auto. constructor.
    - rewrite last_cons in Ht. simpl. constructor; auto.
  Qed.

  Lemma reach1_first : forall x t, In t (hyp x) -> reach1 x t.
  Proof.
    intros x t Ht. exists [t]. split; [discriminate|]. split.
    - constructor; auto. constructor.
    - reflexivity.
  Qed.

  Lemma reach1_step : forall x y t, reach1 x y -> In t (hyp y) -> reach1 x t.
  Proof.
    intros x y t (p & Hne & Hc & Hl) Ht. exists (p ++ [t]). split; [|split].
    - destruct p; discriminate.
    - apply chain_snoc; auto. rewrite Hl. exact Ht.
    - apply last_last.
  Qed.

  Lemma closed_set_chain : forall (a : list node) u p,
      (forall v t, In v a -> In t (hyp v) -> In t a) ->
      In u a -> chain hyp u p -> In (last p u) a.
  Proof.
    intros a u p Hcl Hu Hc. induction Hc as [u|u t p Ht Hc IH].
    - exact Hu.
    - rewrite last_cons. apply IH. apply (Hcl u); auto.
  Qed.

  (* the loop invariant *)
  Definition closure_inv (x : node) (queue visited acc : list node) : Prop :=
    (forall y, In y visited <-> In y acc)
    /\ NoDup acc
    /\ (forall y, In y acc -> reach1 x y)
    /\ (forall y, In y queue -> reach1 x y)
    /\ (forall t, In t (hyp x) -> In t acc \/ In t queue)
    /\ (forall v t, In v acc -> In t (hyp v) -> In t acc \/ In t queue).

  Lemma closure_loop_inv : forall x fuel queue visited acc l,
      closure_inv x queue visited acc ->
      closure_loop fuel queue visited acc = Some l ->
      NoDup l /\ (forall y, In y l <-> reach1 x y).
  Proof.
    intros x fuel. induction fuel as [|f IH]; intros queue visited acc l Hinv H.
    - destruct queue as [|y q]; [|discriminate].
      simpl in H. inversion H; subst l.
      destruct Hinv as (Hva & Hnd & Hacc & Hq & Hx & Hcl). split; [exact Hnd|].
      intros y. split; [apply Hacc|].
      intros (p & Hne & Hc & Hl). destruct Hc as [x|x t p Ht Hc]; [contradiction|].
      rewrite last_cons in Hl. rewrite <- Hl.
      apply closed_set_chain; auto.
      + intros v u Hv Hu. destruct (Hcl v u Hv Hu) as [Hin|[]]. exact Hin.
      + destruct (Hx t Ht) as [Hin|[]]. exact Hin.
    - destruct queue as [|y q].
      + simpl in H. inversion H; subst l.
        destruct Hinv as (Hva & Hnd & Hacc & Hq & Hx & Hcl). split; [exact Hnd|].
        intros y. split; [apply Hacc|].
        intros (p & Hne & Hc & Hl). destruct Hc as [x|x t p Ht Hc]; [contradiction|].
        rewrite last_cons in Hl. rewrite <- Hl.
        apply closed_set_chain; auto.
        * intros v u Hv Hu. destruct (Hcl v u Hv Hu) as [Hin|[]]. exact Hin.
        * destruct (Hx t Ht) as [Hin|[]]. exact Hin.
      + simpl in H. destruct Hinv as (Hva & Hnd & Hacc & Hq & Hx & Hcl).
        destruct (nmem y visited) eqn:Hm.
        * apply nmem_In in Hm. apply Hva in Hm.
          apply (IH q visited acc l); [|exact H].
          split; [exact Hva|]. split; [exact Hnd|]. split; [exact Hacc|].
          split; [|split].
          -- intros z Hz. apply Hq. simpl; auto.
          -- intros t Ht. destruct (Hx t Ht) as [Hin|[<-|Hin]]; auto.
          -- intros v t Hv Ht. destruct (Hcl v t Hv Ht) as [Hin|[<-|Hin]]; auto.
        * assert (~ In y acc) as Hny.
          { intros Hin. apply Hva in Hin. apply nmem_In in Hin. congruence. }
          assert (reach1 x y) as Hry by (apply Hq; simpl; auto).
          apply (IH (q ++ hyp y) (y :: visited) (acc ++ [y]) l); [|exact H].
          split; [|split; [|split; [|split; [|split]]]].
          -- intros z. simpl. rewrite in_app_iff. simpl. rewrite (Hva z). tauto.
          -- apply NoDup_app_intro; auto.
             ++ constructor; [intros []|constructor].
             ++ intros z Hz [<-|[]]. contradiction.
          -- intros z Hz. apply in_app_iff in Hz. destruct Hz as [Hz|[<-|[]]]; auto.
          -- intros z Hz. apply in_app_iff in Hz. destruct Hz as [Hz|Hz].
             ++ apply Hq. simpl; auto.
             ++ apply (reach1_step x y); auto.
          -- intros t Ht. rewrite !in_app_iff. simpl.
             destruct (Hx t Ht) as [Hin|[<-|Hin]]; auto.
          -- intros v t Hv Ht. rewrite !in_app_iff. simpl.
             apply in_app_iff in Hv. destruct Hv as [Hv|[<-|[]]].
             ++ destruct (Hcl v t Hv Ht) as [Hin|[<-|Hin]]; auto.
             ++ auto.
  Qed.

  (* ---------- termination of closure ---------- *)

  (* the out-degrees of the nodes of V that have not been visited *)
  Fixpoint pending (visited V : list node) : nat :=
    match V with
    | [] => 0
    | u :: V' => (if nmem u visited then 0 else length (hyp u)) + pending visited V'
    end.

  Lemma pending_nil : forall V, pending [] V = length (concat (map hyp V)).
  Proof.
    intros V. induction V as [|u V IH]; simpl; auto.
    rewrite app_length, IH. reflexivity.
  Qed.

  Lemma pending_notin : forall y visited V,
      ~ In y V -> pending (y :: visited) V = pending visited V.
  Proof.
    intros y visited V. induction V as [|u V IH]; intros Hn; simpl; auto.
    assert (Z.eqb u y = false) as Hne.
    { apply Z.eqb_neq. intros ->. apply Hn. simpl; auto. }
    rewrite Hne. simpl. rewrite IH; auto. intros Hin. apply Hn. simpl; auto.
  Qed.

  Lemma pending_visit : forall y visited V,
      NoDup V -> In y V -> nmem y visited = false ->
      pending visited V = length (hyp y) + pending (y :: visited) V.
  Proof.
    intros y visited V. induction V as [|u V IH]; intros Hnd Hin Hm.
    - destruct Hin.
    - inversion Hnd as [|u' V' Hu HV]; subst. simpl.
      destruct (Z.eq_dec u y) as [->|Hne].
      + rewrite Hm, Z.eqb_refl. simpl. rewrite pending_notin; auto.
      + destruct Hin as [He|Hin]; [contradiction|].
        apply Z.eqb_neq in Hne. rewrite Hne. simpl.
        rewrite (IH HV Hin Hm). lia.
  Qed.

  Lemma closure_loop_terminates_gen : forall V fuel queue visited acc,
      closed hyp V -> NoDup V -> incl queue V ->
      length queue + pending visited V <= fuel ->
      closure_loop fuel queue visited acc <> None.
  Proof.
    intros V fuel. induction fuel as [|f IH]; intros queue visited acc HV Hnd Hq Hle.
    - destruct queue as [|y q]; [discriminate|]. simpl in Hle. lia.
    - destruct queue as [|y q]; [discriminate|]. simpl.
      assert (In y V) as Hy by (apply Hq; simpl; auto).
      assert (incl q V) as Hq' by (intros z Hz; apply Hq; simpl; auto).
      destruct (nmem y visited) eqn:Hm.
      + apply IH; auto. simpl in Hle. lia.
      + apply IH; auto.
        * intros z Hz. apply in_app_iff in Hz. destruct Hz as [Hz|Hz]; auto.
          apply (HV y). exact Hz.
        * rewrite app_length. simpl in Hle.
          rewrite (pending_visit y visited V Hnd Hy Hm) in Hle. lia.
  Qed.

  (* ================================================================== *)
  (*  The requested theorems                                            *)
  (* ================================================================== *)

  (* the loop terminates only if the recursion does, with the same result *)
  Lemma loop_to_recursion : forall fuel x ps,
      relation_paths_loop fuel x = Some ps -> exists f, relation_paths hyp f x = Some ps.
  Proof.
    intros fuel x ps H. unfold relation_paths_loop in H.
    destruct (agenda_run_sound _ _ _ _ H) as (f & r & Hr & ->).
    exists f. rewrite <- agenda_paths_initial. exact Hr.
  Qed.

  (* the recursion terminates only if the loop does (after n iterations, n the
     number of nodes of the depth-first tree), with the same result *)
  Lemma recursion_to_loop : forall f x ps,
      relation_paths hyp f x = Some ps ->
      exists n, forall k, relation_paths_loop (n + k) x = Some ps.
  Proof.
    intros f x ps H. rewrite <- agenda_paths_initial in H.
    destruct (agenda_run_complete _ _ _ H) as [n Hn].
    exists n. intros k. unfold relation_paths_loop. rewrite Hn. reflexivity.
  Qed.

  Theorem loop_refines_recursion : forall f1 f2 x ps1 ps2,
      relation_paths_loop f1 x = Some ps1 -> relation_paths hyp f2 x = Some ps2 -> ps1 = ps2.
  Proof.
    intros f1 f2 x ps1 ps2 H1 H2.
    destruct (loop_to_recursion _ _ _ H1) as [f Hf].
    apply (relation_paths_fuel_irrelevant hyp _ _ _ _ _ Hf H2).
  Qed.

  Theorem loop_terminates : forall V x,
      closed hyp V -> In x V -> exists fuel, relation_paths_loop fuel x <> None.
  Proof.
    intros V x HV Hx.
    pose proof (relation_paths_terminates hyp V x HV Hx) as Hr.
    destruct (relation_paths hyp (S (S (length V))) x) as [ps|] eqn:He; [|contradiction].
    destruct (recursion_to_loop _ _ _ He) as [n Hn].
    exists (n + 0). rewrite Hn. discriminate.
  Qed.

  Corollary loop_spec : forall fuel x ps,
      relation_paths_loop fuel x = Some ps ->
      forall p, In p ps <-> (p <> [] /\ maximal_simple hyp x p).
  Proof.
    intros fuel x ps H. destruct (loop_to_recursion _ _ _ H) as [f Hf].
    apply (relation_paths_spec hyp _ _ _ Hf).
  Qed.

  (* the Python-order loop inherits all three *)
  Corollary loop_py_refines_recursion : forall f1 f2 x ps1 ps2,
      relation_paths_loop_py f1 x = Some ps1 -> relation_paths hyp f2 x = Some ps2 -> ps1 = ps2.
  Proof.
    intros f1 f2 x ps1 ps2. rewrite relation_paths_loop_py_eq. apply loop_refines_recursion.
  Qed.

  (* ---------- closure ---------- *)

  Theorem closure_loop_spec : forall fuel x l,
      closure_loop fuel (hyp x) [] [] = Some l ->
      NoDup l
      /\ (forall y, In y l <-> exists p, p <> [] /\ chain hyp x p /\ last p x = y).
  Proof.
    intros fuel x l H. apply (closure_loop_inv x fuel (hyp x) [] [] l); [|exact H].
    split; [tauto|]. split; [constructor|]. split; [intros y []|].
    split; [apply reach1_first|]. split; [auto|]. intros v t [].
  Qed.

  (* a sufficient fuel without any assumption on duplicates in [hyp x] *)
  Theorem closure_loop_terminates_bound : forall V x fuel,
      closed hyp V -> NoDup V ->
      length (hyp x) + length (concat (map hyp V)) <= fuel ->
      closure_loop fuel (hyp x) [] [] <> None.
  Proof.
    intros V x fuel HV Hnd Hle. apply (closure_loop_terminates_gen V); auto.
    - intros t Ht. apply (HV x). exact Ht.
    - rewrite pending_nil. exact Hle.
  Qed.

  (* The bound of the task.  AS PHRASED (without [NoDup (hyp x)]) IT IS FALSE:
       forall V x, closed hyp V -> NoDup V -> In x V ->
         closure_loop (S (length V + length (concat (map hyp V)))) (hyp x) [] [] <> None
     fails when [hyp x] lists a node several times and x lies on a cycle, because
     [hyp x] is then enqueued twice (see closure_bound_counterexample after the
     section).  It holds when the related list of the source has no duplicates. *)
  Theorem closure_loop_terminates : forall V x,
      closed hyp V -> NoDup V -> In x V ->
      NoDup (hyp x) (* extra hypothesis *) ->
      closure_loop (S (length V + length (concat (map hyp V)))) (hyp x) [] [] <> None.
  Proof.
    intros V x HV Hnd Hx Hndx. apply (closure_loop_terminates_bound V); auto.
    assert (length (hyp x) <= length V) as Hle.
    { apply NoDup_incl_length; auto. intros t Ht. apply (HV x). exact Ht. }
    lia.
  Qed.
End Agenda.

(* counterexample to the closure bound without [NoDup (hyp x)]:
   one node 1 with hyp 1 = [1;1;1;1;1]; the loop needs 10 iterations, the bound is 7 *)
Definition cex_hyp (y : node) : list node := if Z.eqb y 1 then [1; 1; 1; 1; 1]%Z else [].

Lemma closure_bound_counterexample :
  closed cex_hyp [1%Z] /\ NoDup [1%Z] /\ In 1%Z [1%Z]
  /\ closure_loop cex_hyp (S (length [1%Z] + length (concat (map cex_hyp [1%Z]))))
                   (cex_hyp 1%Z) [] [] = None
  /\ closure_loop cex_hyp 10 (cex_hyp 1%Z) [] [] = Some [1%Z].
Proof.
  split; [|split; [|split; [|split]]].
  - intros x t. unfold cex_hyp. destruct (Z.eqb x 1).
    + simpl. intros [<-|[<-|[<-|[<-|[<-|[]]]]]]; simpl; auto.
    + intros [].
  - constructor; [intros []|constructor].
  - simpl; auto.
  - vm_compute. reflexivity.
  - vm_compute. reflexivity.
Qed.

Print Assumptions agenda_run_py_eq.
Print Assumptions relation_paths_loop_py_eq.
Print Assumptions paths_from_vis_ext.
Print Assumptions agenda_run_vis_ext.
Print Assumptions agenda_run_complete.
Print Assumptions agenda_run_sound.
Print Assumptions agenda_run_general.
Print Assumptions loop_to_recursion.
Print Assumptions recursion_to_loop.
Print Assumptions loop_refines_recursion.
Print Assumptions loop_terminates.
Print Assumptions loop_spec.
Print Assumptions loop_py_refines_recursion.
Print Assumptions closure_loop_spec.
Print Assumptions closure_loop_terminates_bound.
Print Assumptions closure_loop_terminates.
Print Assumptions closure_bound_counterexample.
