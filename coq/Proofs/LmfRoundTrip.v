(* LmfRoundTrip.v — STAGE 3: dump followed by load at the element level (C02).

   expat_view version x is what expat reports for the serialised element x
   (justified by stage 1: attribute values and character data come back
   unchanged; a "dc:k" attribute is reported under the expanded name).
   For every element kind K we give
     - mk_K   : the dictionaries the loader produces for K (normal form),
     - nf_K   : the boolean recogniser of that normal form,
     - xml_K  : the element the writer builds from such a dictionary,
   and prove   _build_K d = Ok (xml_K ...)   and
               parse_elem (expat_view (xml_K ...)) >>= validation = Ok d.      *)
From Coq Require Import String.
From Coq Require Import ZArith List Bool Lia.
Import ListNotations.
Require Import WnV.Base.Sx WnV.Gen.LmfTables WnV.Model.Val WnV.Model.XmlText WnV.Model.Lmf.
Require Import WnV.Proofs.XmlTextProofs WnV.Proofs.LmfProofs.
Local Open Scope Z_scope.

Local Notation s_ := str_of_string.

(* ====================================================================== *)
(* 0. Equality of values                                                  *)
(* ====================================================================== *)

Lemma val_ind' : forall P : val -> Prop,
  P VNone -> (forall b, P (VBool b)) -> (forall n, P (VInt n)) -> (forall s, P (VStr s)) ->
  (forall l, Forall P l -> P (VList l)) ->
  (forall d, Forall (fun kv => P (snd kv)) d -> P (VDict d)) ->
  forall v, P v.
Proof.
  intros P H0 H1 H2 H3 H4 H5. fix IH 1. intros [ | b | n | s | l | d].
  - exact H0.
  - apply H1.
  - apply H2.
  - apply H3.
  - apply H4. induction l as [|x r IHr]; constructor; [apply IH | exact IHr].
  - apply H5. induction d as [|[k x] r IHr]; constructor; [apply IH | exact IHr].
Qed.

Lemma val_eqb_eq : forall a b, val_eqb a b = true -> a = b.
Proof.
  apply (val_ind' (fun a => forall b, val_eqb a b = true -> a = b)).
  - intros [] H; try discriminate. reflexivity.
  - intros x [] H; try discriminate. simpl in H. apply Bool.eqb_prop in H. subst. reflexivity.
  - intros x [] H; try discriminate. simpl in H. apply Z.eqb_eq in H. subst. reflexivity.
  - intros x [] H; try discriminate. simpl in H. apply str_eqb_true in H. subst. reflexivity.
  - intros l IH [] H; try discriminate. simpl in H. f_equal.
    revert l0 H. induction IH as [|x r Hx Hr IHr]; intros [|y l0] H; try discriminate.
    + reflexivity.
    + apply andb_true_iff in H. destruct H as [H1 H2]. f_equal; [apply Hx; exact H1 | apply IHr; exact H2].
  - intros d IH [] H; try discriminate. simpl in H. f_equal.
    revert d0 H. induction IH as [|[k x] r Hx Hr IHr]; intros [|[k' y] d0] H; try discriminate.
    + reflexivity.
    + apply andb_true_iff in H. destruct H as [H1 H2]. apply andb_true_iff in H1.
      destruct H1 as [Hk Hv]. apply str_eqb_true in Hk. subst k'. simpl in Hx.
      rewrite (Hx y Hv). f_equal. apply IHr. exact H2.
Qed.

(* ====================================================================== *)
(* 1. Dictionaries as concatenated segments                               *)
(* ====================================================================== *)

Definition opt_kv (k : str) (o : option val) : list (str * val) :=
  match o with Some v => [(k, v)] | None => [] end.

Lemma has_key_app : forall k a b, has_key k (a ++ b) = has_key k a || has_key k b.
Proof. intros. unfold has_key. apply existsb_app. Qed.
Lemma has_key_cons : forall k k' v r, has_key k ((k', v) :: r) = str_eqb k' k || has_key k r.
Proof. reflexivity. Qed.
Lemma has_key_nil : forall k, has_key k [] = false.
Proof. reflexivity. Qed.
Lemma has_key_opt : forall k k' o,
  has_key k (opt_kv k' o) = match o with Some _ => str_eqb k' k | None => false end.
Proof. intros k k' [v|]; simpl; [apply orb_false_r | reflexivity]. Qed.

Lemma vhas_dict : forall l k, vhas (VDict l) k = has_key k l.
Proof. reflexivity. Qed.
Lemma vget_nil : forall k, vget (VDict []) k = VNone.
Proof. reflexivity. Qed.
Lemma vget_cons : forall k' v r k,
  vget (VDict ((k', v) :: r)) k = if str_eqb k' k then v else vget (VDict r) k.
Proof. intros. simpl. destruct (str_eqb k' k); reflexivity. Qed.
Lemma vget_app : forall a b k,
  vget (VDict (a ++ b)) k = if has_key k a then vget (VDict a) k else vget (VDict b) k.
Proof.
  induction a as [|[k0 v0] r IH]; intros b k.
  - reflexivity.
  - rewrite <- app_comm_cons. rewrite !vget_cons. rewrite has_key_cons.
    destruct (str_eqb k0 k); simpl; [reflexivity | apply IH].
Qed.
Lemma vget_absent : forall l k, has_key k l = false -> vget (VDict l) k = VNone.
Proof. intros l k H. apply vhas_false_vget. exact H. Qed.

Lemma vset_list_cons : forall k' v' r k v,
  vset_list ((k', v') :: r) k v = if str_eqb k' k then (k', v) :: r else (k', v') :: vset_list r k v.
Proof. reflexivity. Qed.
Lemma vset_list_new : forall l k v, has_key k l = false -> vset_list l k v = l ++ [(k, v)].
Proof.
  induction l as [|[k0 v0] r IH]; intros k v H.
  - reflexivity.
  - rewrite has_key_cons in H. apply orb_false_iff in H. destruct H as [H1 H2].
    rewrite vset_list_cons. rewrite H1. rewrite (IH k v H2). reflexivity.
Qed.
Lemma vset_list_app : forall a b k v,
  vset_list (a ++ b) k v = if has_key k a then vset_list a k v ++ b else a ++ vset_list b k v.
Proof.
  induction a as [|[k0 v0] r IH]; intros b k v.
  - reflexivity.
  - rewrite <- app_comm_cons. rewrite !vset_list_cons. rewrite has_key_cons.
    destruct (str_eqb k0 k); simpl; [reflexivity|]. rewrite IH.
    destruct (has_key k r); reflexivity.
Qed.

(* attrib.update(d) when d brings only new, pairwise different keys *)
Lemma dict_update_new : forall d a,
  NoDup (map fst d) -> (forall kv, In kv d -> has_key (fst kv) a = false) ->
  dict_update a d = a ++ d.
Proof.
  unfold dict_update. induction d as [|[k v] r IH]; intros a Hn Ha.
  - simpl. rewrite app_nil_r. reflexivity.
  - simpl. inversion Hn as [|x l Hx Hr E]. subst.
    rewrite (vset_list_new a k v) by (apply (Ha (k, v)); left; reflexivity).
    rewrite IH.
    + rewrite <- app_assoc. reflexivity.
    + exact Hr.
    + intros kv Hin. rewrite has_key_app. rewrite (Ha kv) by (right; exact Hin). simpl.
      rewrite orb_false_r. destruct (str_eqb k (fst kv)) eqn:E; [|reflexivity].
      apply str_eqb_true in E. exfalso. apply Hx. rewrite E. apply in_map. exact Hin.
Qed.

(* evaluate comparisons between literal keys *)
Ltac keys :=
  repeat match goal with
         | |- context [str_eqb (s_ ?a) (s_ ?b)] =>
             let r := eval vm_compute in (str_eqb (s_ a) (s_ b)) in
             change (str_eqb (s_ a) (s_ b)) with r
         end.
Ltac keys_in H :=
  repeat match type of H with
         | context [str_eqb (s_ ?a) (s_ ?b)] =>
             let r := eval vm_compute in (str_eqb (s_ a) (s_ b)) in
             change (str_eqb (s_ a) (s_ b)) with r in H
         end.

(* ====================================================================== *)
(* 2. What expat reports for a serialised element                         *)
(* ====================================================================== *)

Definition val_str (v : val) : str := match v with VStr s => s | _ => [] end.
Definition xtail (e : xml) : str := match e with Elem _ _ _ _ (Some s) => s | _ => [] end.
Definition xtag (e : xml) : str := match e with Elem t _ _ _ _ => t end.
(* "dc:x" is reported as "<the dc namespace of the version> x" *)
Definition expat_attr_name (version k : str) : str :=
  if prefixb (s_ "dc:") k then assoc_d version dc_uris [] ++ [c_sp] ++ skipn 3 k else k.
Definition expat_attrs (version : str) (attrib : list (str * val)) : list (str * str) :=
  map (fun kv => (expat_attr_name version (fst kv), val_str (snd kv))) attrib.
(* direct text = the element's text followed by the tails of its children
   (the whitespace _indent inserts) *)
Fixpoint expat_view (version : str) (e : xml) {struct e} : xtree :=
  match e with
  | Elem tag attrib text children tail =>
      XNode tag (expat_attrs version attrib)
            (val_str text ++ flat_map xtail children)
            (map (expat_view version) children)
  end.

Lemma parse_leaf : forall version tag attrs tx,
  parse_elem version (XNode tag attrs tx []) = Ok (finish (start_attrs version tag attrs) tx).
Proof. reflexivity. Qed.

(* ====================================================================== *)
(* 3. Namespaced (metadata) attributes                                    *)
(* ====================================================================== *)

Definition non_ns (version k : str) : bool :=
  match assoc k (ns_attrs version) with Some _ => false | None => true end.
Definition meta_fold (version : str) (attrs : list (str * str)) (acc : list (str * val)) :=
  fold_left (fun m kv => match assoc (fst kv) (ns_attrs version) with
                         | Some key => vset_list m key (VStr (snd kv))
                         | None => m
                         end) attrs acc.
Definition meta_val (version : str) (attrs : list (str * str)) : val :=
  match meta_fold version attrs [] with [] => VNone | _ => VDict (meta_fold version attrs []) end.

Lemma start_attrs_eq : forall version name attrs,
  start_attrs version name attrs =
  let a0 := map (fun kv : str * str => (fst kv, VStr (snd kv))) attrs in
  let a1 := if str_mem name meta_elems
            then vset_list (filter (fun kv : str * val => non_ns version (fst kv)) a0) (s_ "meta")
                           (meta_val version attrs)
            else a0 in
  let a2 := if is_cdata_elem version name then vset_list a1 (s_ "text") (VStr []) else a1 in
  VDict (if prefixb (s_ "External") name then vset_list a2 (s_ "external") (VBool true) else a2).
Proof. reflexivity. Qed.

Lemma assoc_app : forall {T} k (a b : list (str * T)),
  assoc k (a ++ b) = match assoc k a with Some v => Some v | None => assoc k b end.
Proof.
  intros T k a b. induction a as [|[k0 v0] r IH]; simpl; [reflexivity|].
  destruct (str_eqb k0 k); [reflexivity | exact IH].
Qed.

Definition plain3 : list (str * str) := map (fun a => (s_ a, s_ a)) NS_ATTRS_PLAIN.
Lemma ns_attrs_eq : forall version,
  ns_attrs version =
  map (fun a => (assoc_d version dc_uris [] ++ [c_sp] ++ a, a)) dc_attrs ++ plain3.
Proof. reflexivity. Qed.

(* a name without a space is not a dc attribute *)
Lemma assoc_map_nospace : forall (uri k : str) (l : list str) (rest : list (str * str)),
  zin c_sp k = false ->
  assoc k (map (fun a => (uri ++ [c_sp] ++ a, a)) l ++ rest) = assoc k rest.
Proof.
  intros uri k l rest H. induction l as [|a r IH]; [reflexivity|]. simpl.
  destruct (str_eqb (uri ++ c_sp :: a) k) eqn:E; [|exact IH].
  apply str_eqb_true in E. subst k. rewrite zin_app in H. rewrite zin_cons in H.
  rewrite Z.eqb_refl in H. rewrite orb_true_r in H. discriminate.
Qed.
Lemma assoc_ns_nospace : forall version k, zin c_sp k = false ->
  assoc k (ns_attrs version) = assoc k plain3.
Proof. intros version k H. rewrite ns_attrs_eq. apply assoc_map_nospace. exact H. Qed.

Lemma assoc_map_dc : forall (uri a : str) (l : list str) (rest : list (str * str)),
  In a l -> assoc (uri ++ [c_sp] ++ a) (map (fun a => (uri ++ [c_sp] ++ a, a)) l ++ rest) = Some a.
Proof.
  intros uri a l rest Hin. induction l as [|a0 r IH]; [contradiction|]. simpl.
  destruct (str_eqb (uri ++ c_sp :: a0) (uri ++ c_sp :: a)) eqn:E.
  - apply str_eqb_true in E. apply app_inv_head in E. injection E as ->. reflexivity.
  - destruct Hin as [->|Hin].
    + rewrite str_eqb_refl in E. discriminate.
    + apply IH. exact Hin.
Qed.
Lemma assoc_ns_dc : forall version a, In a dc_attrs ->
  assoc (assoc_d version dc_uris [] ++ [c_sp] ++ a) (ns_attrs version) = Some a.
Proof. intros version a Hin. rewrite ns_attrs_eq. apply assoc_map_dc. exact Hin. Qed.

(* ---- the metadata dictionaries the loader produces ---- *)
Definition conf_key : str := s_ "confidenceScore".
Definition meta16 : list str := dc_attrs ++ [s_ "status"; s_ "note"].
Definition meta17 : list str := meta16 ++ [conf_key].
Definition xml_meta_name (k : str) : str := if str_mem k dc_attrs then s_ "dc:" ++ k else k.

Lemma meta_keys_eq : meta_keys = map (fun k => (xml_meta_name k, k)) meta16.
Proof. vm_compute. reflexivity. Qed.

Fixpoint subseq_keys (order : list str) (kvs : list (str * val)) : bool :=
  match order with
  | [] => match kvs with [] => true | _ => false end
  | o :: order' =>
      match kvs with
      | [] => true
      | (k, v) :: r => if str_eqb o k then subseq_keys order' r else subseq_keys order' kvs
      end
  end.
Definition nonempty_str (v : val) : bool := match v with VStr (_ :: _) => true | _ => false end.
Definition is_vstr (v : val) : bool := match v with VStr _ => true | _ => false end.
Definition meta_value_ok (kv : str * val) : bool :=
  if str_eqb (fst kv) conf_key then is_vstr (snd kv) else nonempty_str (snd kv).
(* None, or a non-empty dictionary whose keys follow the order of the attributes
   in the file written by _meta_dict, with non-empty string values (the
   confidenceScore may be empty) *)
Definition nf_meta (m : val) : bool :=
  match m with
  | VNone => true
  | VDict kvs => match kvs with [] => false | _ => true end
                 && subseq_keys meta17 kvs && forallb meta_value_ok kvs
  | _ => false
  end.

Example nf_meta_ex :
  nf_meta (VDict [(s_ "creator", VStr (s_ "me")); (s_ "note", VStr (s_ "n")); (conf_key, VStr [])]) = true.
Proof. vm_compute. reflexivity. Qed.

Lemma nf_meta_dict : forall kvs, nf_meta (VDict kvs) = true ->
  kvs <> [] /\ subseq_keys meta17 kvs = true /\ forallb meta_value_ok kvs = true.
Proof.
  intros kvs H. unfold nf_meta in H. apply andb_true_iff in H. destruct H as [H Hv].
  apply andb_true_iff in H. destruct H as [Hne Hs]. split; [|split]; try assumption.
  intro E. subst kvs. discriminate.
Qed.

Definition md_of (m : val) : list (str * val) :=
  match m with
  | VDict kvs => map (fun kv => (xml_meta_name (fst kv), snd kv)) kvs
  | _ => []
  end.

Lemma subseq_keys_nil : forall order, subseq_keys order [] = true.
Proof. intros [|o r]; reflexivity. Qed.

Lemma subseq_keys_in : forall order kvs kv,
  subseq_keys order kvs = true -> In kv kvs -> In (fst kv) order.
Proof.
  induction order as [|o order IH]; intros kvs kv H Hin.
  - destruct kvs; [contradiction | discriminate].
  - destruct kvs as [|[k v] r]; [contradiction|]. simpl in H.
    destruct (str_eqb o k) eqn:E.
    + apply str_eqb_true in E. subst o. destruct Hin as [<-|Hin].
      * left. reflexivity.
      * right. apply (IH r kv H Hin).
    + right. apply (IH _ kv H Hin).
Qed.

Lemma has_key_In : forall k kvs, has_key k kvs = true -> exists v, In (k, v) kvs.
Proof.
  intros k kvs H. unfold has_key in H. apply existsb_exists in H. destruct H as [[k' v] [Hin E]].
  simpl in E. apply str_eqb_true in E. subst k'. exists v. exact Hin.
Qed.

Lemma subseq_keys_absent : forall order kvs o,
  subseq_keys order kvs = true -> ~ In o order -> has_key o kvs = false.
Proof.
  intros order kvs o H Hn. destruct (has_key o kvs) eqn:E; [|reflexivity].
  exfalso. apply Hn. apply has_key_In in E. destruct E as [v Hin].
  apply (subseq_keys_in order kvs (o, v) H Hin).
Qed.

Lemma flat_map_ext_in : forall {A B} (f g : A -> list B) l,
  (forall x, In x l -> f x = g x) -> flat_map f l = flat_map g l.
Proof.
  intros A B f g l H. induction l as [|x r IH]; simpl; [reflexivity|].
  rewrite (H x (or_introl eq_refl)). rewrite IH; [reflexivity|].
  intros y Hy. apply H. right. exact Hy.
Qed.

Definition pick (f : str -> str) (kvs : list (str * val)) (k : str) : list (str * val) :=
  if has_key k kvs then [(f k, vget (VDict kvs) k)] else [].

(* picking the keys of a master list, in its order, out of a dictionary whose
   keys follow that order gives the dictionary back *)
Lemma flat_map_subseq : forall (f : str -> str) order kvs,
  NoDup order -> subseq_keys order kvs = true ->
  flat_map (pick f kvs) order = map (fun kv => (f (fst kv), snd kv)) kvs.
Proof.
  intros f order. induction order as [|o order IH]; intros kvs Hn H.
  - destruct kvs; [reflexivity | discriminate].
  - inversion Hn as [|x l Hx Hr E]. subst.
    destruct kvs as [|[k v] r].
    + simpl. rewrite (flat_map_ext_in (pick f []) (fun _ => [])) by reflexivity.
      clear. induction order; [reflexivity | exact IHorder].
    + simpl in H. destruct (str_eqb o k) eqn:E.
      * apply str_eqb_true in E. subst o. simpl flat_map. unfold pick at 1.
        rewrite has_key_cons. rewrite str_eqb_refl. simpl orb. cbv iota.
        rewrite vget_cons. rewrite str_eqb_refl. simpl map. simpl app. f_equal.
        rewrite <- (IH r Hr H). apply flat_map_ext_in. intros o' Ho'. unfold pick.
        rewrite has_key_cons. rewrite vget_cons.
        destruct (str_eqb k o') eqn:E'; [|reflexivity].
        apply str_eqb_true in E'. subst o'. contradiction.
      * simpl flat_map. unfold pick at 1.
        rewrite (subseq_keys_absent order ((k, v) :: r) o H Hx). simpl app.
        apply (IH _ Hr H).
Qed.

Fixpoint nodupb (l : list str) : bool :=
  match l with [] => true | x :: r => negb (str_mem x r) && nodupb r end.
Lemma nodupb_NoDup : forall l, nodupb l = true -> NoDup l.
Proof.
  induction l as [|x r IH]; intro H; constructor; simpl in H; apply andb_true_iff in H; destruct H as [H1 H2].
  - intro Hin. apply str_mem_In in Hin. rewrite Hin in H1. discriminate.
  - apply IH. exact H2.
Qed.
Lemma meta17_NoDup : NoDup meta17.
Proof. apply nodupb_NoDup. vm_compute. reflexivity. Qed.

Lemma subseq_keys_NoDup : forall order kvs,
  NoDup order -> subseq_keys order kvs = true -> NoDup (map fst kvs).
Proof.
  induction order as [|o order IH]; intros kvs Hn H.
  - destruct kvs; [constructor | discriminate].
  - inversion Hn as [|x l Hx Hr E]. subst. destruct kvs as [|[k v] r]; [constructor|].
    simpl in H. destruct (str_eqb o k) eqn:E.
    + apply str_eqb_true in E. subst o. simpl. constructor; [|apply (IH r Hr H)].
      intro Hin. apply in_map_iff in Hin. destruct Hin as [kv [E Hin]].
      apply Hx. rewrite <- E. apply (subseq_keys_in order r kv H Hin).
    + apply (IH _ Hr H).
Qed.

Lemma vget_In : forall k kvs, has_key k kvs = true -> In (k, vget (VDict kvs) k) kvs.
Proof.
  intros k kvs. induction kvs as [|[k0 v0] r IH]; intro H; [discriminate|].
  rewrite has_key_cons in H. rewrite vget_cons. destruct (str_eqb k0 k) eqn:E.
  - apply str_eqb_true in E. subst. left. reflexivity.
  - right. apply IH. exact H.
Qed.

Lemma flat_map_map : forall {A B C} (f : B -> list C) (g : A -> B) l,
  flat_map f (map g l) = flat_map (fun x => f (g x)) l.
Proof.
  intros A B C f g l. induction l as [|x r IH]; simpl; [reflexivity | rewrite IH; reflexivity].
Qed.

Lemma has_key_flat_pick : forall f kvs k order,
  (forall o, In o order -> str_eqb (f o) k = false) -> has_key k (flat_map (pick f kvs) order) = false.
Proof.
  intros f kvs k order H. induction order as [|o r IH]; [reflexivity|].
  simpl. rewrite has_key_app. rewrite IH by (intros o' Ho'; apply H; right; exact Ho').
  unfold pick. destruct (has_key o kvs); [|reflexivity]. rewrite has_key_cons.
  rewrite (H o (or_introl eq_refl)). reflexivity.
Qed.

(* the writer's side: _meta_dict on a normal-form metadata value *)
Lemma meta_dict_nf : forall m, nf_meta m = true -> _meta_dict m = Ok (md_of m).
Proof.
  intros [ | | | | | kvs] H; try discriminate; [reflexivity|].
  destruct (nf_meta_dict kvs H) as [_ [Hs Hv]]. rewrite forallb_forall in Hv.
  unfold _meta_dict. cbv zeta. rewrite meta_keys_eq. rewrite flat_map_map.
  assert (E16 : flat_map (fun x : str =>
             if vtruthy (if vhas (VDict kvs) (snd (xml_meta_name x, x))
                         then vget (VDict kvs) (snd (xml_meta_name x, x)) else VStr [])
             then [(fst (xml_meta_name x, x),
                    if vhas (VDict kvs) (snd (xml_meta_name x, x))
                    then vget (VDict kvs) (snd (xml_meta_name x, x)) else VStr [])]
             else []) meta16
          = flat_map (pick xml_meta_name kvs) meta16).
  { apply flat_map_ext_in. intros k Hk. simpl fst. simpl snd. unfold pick. rewrite vhas_dict.
    destruct (has_key k kvs) eqn:Hh; [|reflexivity].
    pose proof (Hv _ (vget_In k kvs Hh)) as Hok. unfold meta_value_ok in Hok. cbn [fst snd] in Hok.
    assert (Hc : str_eqb k conf_key = false).
    { assert (F : forallb (fun k => negb (str_eqb k conf_key)) meta16 = true) by (vm_compute; reflexivity).
      rewrite forallb_forall in F. apply negb_true_iff. apply F. exact Hk. }
    rewrite Hc in Hok. destruct (vget (VDict kvs) k) as [ | | |[|c s]| | ]; try discriminate. reflexivity. }
  rewrite E16. rewrite vhas_dict.
  assert (Hconf : forall o, In o meta16 -> str_eqb (xml_meta_name o) conf_key = false).
  { assert (F : forallb (fun o => negb (str_eqb (xml_meta_name o) conf_key)) meta16 = true)
      by (vm_compute; reflexivity).
    rewrite forallb_forall in F. intros o Ho. apply negb_true_iff. apply F. exact Ho. }
  assert (Hall : flat_map (pick xml_meta_name kvs) meta17 = md_of (VDict kvs)).
  { apply flat_map_subseq; [apply meta17_NoDup | exact Hs]. }
  unfold meta17 in Hall. rewrite flat_map_app in Hall. simpl flat_map in Hall at 2.
  rewrite app_nil_r in Hall. unfold pick at 2 in Hall.
  change (s_ "confidenceScore") with conf_key.
  destruct (has_key conf_key kvs) eqn:Hh.
  - pose proof (Hv _ (vget_In conf_key kvs Hh)) as Hok. unfold meta_value_ok in Hok. cbn [fst snd] in Hok.
    rewrite str_eqb_refl in Hok.
    destruct (vget (VDict kvs) conf_key) as [ | | |s| | ] eqn:Hg; try discriminate.
    cbn [bind py_str]. rewrite vset_list_new by (apply has_key_flat_pick; exact Hconf).
    rewrite <- Hall. reflexivity.
  - rewrite app_nil_r in Hall. rewrite Hall. reflexivity.
Qed.

(* the keys _meta_dict produces *)
Definition xml_meta_names : list str := map xml_meta_name meta17.
Lemma md_of_keys : forall m kv, nf_meta m = true -> In kv (md_of m) -> In (fst kv) xml_meta_names.
Proof.
  intros [ | | | | | kvs] kv H Hin; try contradiction.
  destruct (nf_meta_dict kvs H) as [_ [Hs _]]. simpl in Hin. apply in_map_iff in Hin. destruct Hin as [kv0 [<- Hin]].
  cbn [fst]. unfold xml_meta_names. apply in_map. apply (subseq_keys_in meta17 kvs kv0 Hs Hin).
Qed.

Lemma xml_meta_name_inj : forall a b, In a meta17 -> In b meta17 ->
  xml_meta_name a = xml_meta_name b -> a = b.
Proof.
  assert (F : forallb (fun a => forallb (fun b =>
                implb (str_eqb (xml_meta_name a) (xml_meta_name b)) (str_eqb a b)) meta17) meta17 = true)
    by (vm_compute; reflexivity).
  intros a b Ha Hb E. rewrite forallb_forall in F. specialize (F a Ha).
  rewrite forallb_forall in F. specialize (F b Hb). rewrite E in F. rewrite str_eqb_refl in F.
  simpl in F. apply str_eqb_true. exact F.
Qed.

Lemma md_of_NoDup : forall m, nf_meta m = true -> NoDup (map fst (md_of m)).
Proof.
  intros [ | | | | | kvs] H; try constructor.
  destruct (nf_meta_dict kvs H) as [_ [Hs _]]. clear H.
  pose proof (subseq_keys_NoDup meta17 kvs meta17_NoDup Hs) as Hn.
  assert (Hin : forall kv, In kv kvs -> In (fst kv) meta17)
    by (intros kv Hkv; apply (subseq_keys_in meta17 kvs kv Hs Hkv)).
  clear Hs. unfold md_of. rewrite map_map. cbn [fst].
  induction kvs as [|[k v] r IH]; [constructor|].
  cbn [map fst] in Hn |- *. inversion Hn as [|x l Hx Hr E]. subst. constructor.
  - intro Hc. apply in_map_iff in Hc. destruct Hc as [[k' v'] [E Hc]]. cbn [fst] in E.
    apply xml_meta_name_inj in E.
    + subst k'. apply Hx. apply in_map_iff. exists (k, v'). auto.
    + apply (Hin (k', v')). right. exact Hc.
    + apply (Hin (k, v)). left. reflexivity.
  - apply IH; [exact Hr|]. intros kv Hkv. apply Hin. right. exact Hkv.
Qed.

(* a key that is not one of the written metadata names is not in md_of m *)
Lemma md_of_has_key : forall m k, nf_meta m = true -> str_mem k xml_meta_names = false ->
  has_key k (md_of m) = false.
Proof.
  intros m k H Hk. destruct (has_key k (md_of m)) eqn:E; [|reflexivity].
  apply has_key_In in E. destruct E as [v Hin]. apply (md_of_keys m _ H) in Hin. cbn [fst] in Hin.
  apply str_mem_In in Hin. rewrite Hin in Hk. discriminate.
Qed.

(* ---- the reader's side ---- *)
Lemma expat_name_meta : forall version k, In k meta17 ->
  assoc (expat_attr_name version (xml_meta_name k)) (ns_attrs version) = Some k.
Proof.
  intros version k Hk. unfold xml_meta_name. destruct (str_mem k dc_attrs) eqn:E.
  - apply str_mem_In in E. unfold expat_attr_name.
    change (prefixb (s_ "dc:") (s_ "dc:" ++ k)) with true. cbv iota.
    change (skipn 3 (s_ "dc:" ++ k)) with k. apply assoc_ns_dc. exact E.
  - assert (Hk3 : In k (map s_ NS_ATTRS_PLAIN)).
    { unfold meta17, meta16 in Hk. apply in_app_or in Hk. destruct Hk as [Hk|Hk].
      - apply in_app_or in Hk. destruct Hk as [Hk|Hk].
        + apply str_mem_In in Hk. rewrite Hk in E. discriminate.
        + simpl in Hk. destruct Hk as [<-|[<-|[]]]; vm_compute; auto.
      - simpl in Hk. destruct Hk as [<-|[]]. vm_compute. auto. }
    simpl in Hk3. destruct Hk3 as [<-|[<-|[<-|[]]]];
      (unfold expat_attr_name;
       match goal with |- context [prefixb ?a ?b] =>
         let r := eval vm_compute in (prefixb a b) in change (prefixb a b) with r end;
       cbv iota; rewrite assoc_ns_nospace by (vm_compute; reflexivity); vm_compute; reflexivity).
Qed.

Lemma meta_fold_app : forall version a b acc,
  meta_fold version (a ++ b) acc = meta_fold version b (meta_fold version a acc).
Proof. intros. unfold meta_fold. apply fold_left_app. Qed.

(* attributes that are not namespaced do not contribute *)
Lemma meta_fold_cons : forall version k v r acc,
  meta_fold version ((k, v) :: r) acc
  = meta_fold version r (match assoc k (ns_attrs version) with
                         | Some key => vset_list acc key (VStr v)
                         | None => acc
                         end).
Proof. reflexivity. Qed.

Lemma meta_fold_plain : forall version attrs acc,
  forallb (fun kv => non_ns version (fst kv)) attrs = true -> meta_fold version attrs acc = acc.
Proof.
  intros version attrs. induction attrs as [|[k v] r IH]; intros acc H; [reflexivity|].
  cbn [forallb fst] in H. apply andb_true_iff in H. destruct H as [H1 H2]. rewrite meta_fold_cons.
  unfold non_ns in H1. destruct (assoc k (ns_attrs version)); [discriminate|]. apply IH. exact H2.
Qed.

Definition all_vstr (kvs : list (str * val)) : bool := forallb (fun kv => is_vstr (snd kv)) kvs.

Lemma meta_fold_md : forall version kvs acc,
  (forall kv, In kv kvs -> In (fst kv) meta17) -> NoDup (map fst kvs) -> all_vstr kvs = true ->
  (forall kv, In kv kvs -> has_key (fst kv) acc = false) ->
  meta_fold version (expat_attrs version (map (fun kv => (xml_meta_name (fst kv), snd kv)) kvs)) acc
  = acc ++ kvs.
Proof.
  intros version kvs. induction kvs as [|[k v] r IH]; intros acc Hin Hn Hv Ha.
  - cbn [map expat_attrs]. unfold meta_fold. cbn [fold_left]. rewrite app_nil_r. reflexivity.
  - unfold all_vstr in Hv. cbn [forallb snd] in Hv. apply andb_true_iff in Hv. destruct Hv as [Hv1 Hv2].
    destruct v as [ | | |s| | ]; try discriminate.
    cbn [map fst] in Hn. inversion Hn as [|x l Hx Hr E]. subst.
    unfold expat_attrs. cbn [map fst snd val_str]. rewrite meta_fold_cons.
    rewrite (expat_name_meta version k) by (apply (Hin (k, VStr s)); left; reflexivity).
    rewrite vset_list_new by (apply (Ha (k, VStr s)); left; reflexivity).
    unfold expat_attrs in IH. rewrite IH.
    + rewrite <- app_assoc. reflexivity.
    + intros kv Hkv. apply Hin. right. exact Hkv.
    + exact Hr.
    + exact Hv2.
    + intros kv Hkv. rewrite has_key_app. rewrite (Ha kv) by (right; exact Hkv).
      rewrite has_key_cons. rewrite has_key_nil.
      rewrite orb_false_r. destruct (str_eqb k (fst kv)) eqn:E; [|reflexivity].
      apply str_eqb_true in E. exfalso. apply Hx. rewrite E. apply in_map. exact Hkv.
Qed.

Lemma nf_meta_all_vstr : forall kvs, nf_meta (VDict kvs) = true -> all_vstr kvs = true.
Proof.
  intros kvs H. destruct (nf_meta_dict kvs H) as [_ [_ Hv]].
  unfold all_vstr. rewrite forallb_forall in *. intros kv Hkv. specialize (Hv kv Hkv).
  unfold meta_value_ok in Hv. destruct (str_eqb (fst kv) conf_key); [exact Hv|].
  destruct (snd kv) as [ | | |[|c s]| | ]; try discriminate; reflexivity.
Qed.

(* the metadata attributes are all namespaced *)
Lemma md_view_all_ns : forall version m, nf_meta m = true ->
  forallb (fun kv => negb (non_ns version (fst kv))) (expat_attrs version (md_of m)) = true.
Proof.
  intros version [ | | | | | kvs] H; try reflexivity.
  destruct (nf_meta_dict kvs H) as [_ [Hs _]]. simpl md_of. unfold expat_attrs. rewrite map_map. rewrite forallb_forall.
  intros kv Hkv. apply in_map_iff in Hkv. destruct Hkv as [kv0 [<- Hkv]]. simpl. unfold non_ns.
  rewrite (expat_name_meta version (fst kv0)); [reflexivity|].
  apply (subseq_keys_in meta17 kvs kv0 Hs Hkv).
Qed.

Lemma meta_val_md : forall version m pre post,
  nf_meta m = true ->
  forallb (fun kv => non_ns version (fst kv)) pre = true ->
  forallb (fun kv => non_ns version (fst kv)) post = true ->
  meta_val version (pre ++ expat_attrs version (md_of m) ++ post) = m.
Proof.
  intros version m pre post H Hpre Hpost. unfold meta_val.
  rewrite !meta_fold_app. rewrite (meta_fold_plain version pre [] Hpre).
  destruct m as [ | | | | | kvs]; try discriminate.
  - simpl md_of. unfold expat_attrs. simpl map. unfold meta_fold at 2. simpl fold_left.
    rewrite (meta_fold_plain version post [] Hpost). reflexivity.
  - pose proof H as H'. destruct (nf_meta_dict kvs H) as [Hne [Hs _]]. simpl md_of.
    rewrite meta_fold_md.
    + rewrite (meta_fold_plain version post _ Hpost). simpl. destruct kvs; [contradiction | reflexivity].
    + intros kv Hkv. apply (subseq_keys_in meta17 kvs kv Hs Hkv).
    + apply (subseq_keys_NoDup meta17 kvs meta17_NoDup Hs).
    + apply nf_meta_all_vstr. exact H'.
    + reflexivity.
Qed.

Lemma filter_app' : forall {A} (p : A -> bool) a b, filter p (a ++ b) = filter p a ++ filter p b.
Proof. intros A p a b. induction a as [|x r IH]; simpl; [reflexivity|]. destruct (p x); simpl; rewrite IH; reflexivity. Qed.
Lemma filter_all : forall {A} (p : A -> bool) l, forallb p l = true -> filter p l = l.
Proof.
  intros A p l H. induction l as [|x r IH]; [reflexivity|]. simpl in *.
  apply andb_true_iff in H. destruct H as [H1 H2]. rewrite H1. rewrite (IH H2). reflexivity.
Qed.
Lemma filter_none : forall {A} (p : A -> bool) l, forallb (fun x => negb (p x)) l = true -> filter p l = [].
Proof.
  intros A p l H. induction l as [|x r IH]; [reflexivity|]. simpl in *.
  apply andb_true_iff in H. destruct H as [H1 H2]. apply negb_true_iff in H1. rewrite H1. apply IH. exact H2.
Qed.

(* the plain (non-namespaced) attributes of pre ++ metadata ++ post *)
Definition as_vals (attrs : list (str * str)) : list (str * val) :=
  map (fun kv : str * str => (fst kv, VStr (snd kv))) attrs.
Lemma filter_plain_md : forall version m pre post,
  nf_meta m = true ->
  forallb (fun kv => non_ns version (fst kv)) pre = true ->
  forallb (fun kv => non_ns version (fst kv)) post = true ->
  filter (fun kv : str * val => non_ns version (fst kv))
         (as_vals (pre ++ expat_attrs version (md_of m) ++ post))
  = as_vals pre ++ as_vals post.
Proof.
  intros version m pre post H Hpre Hpost. unfold as_vals. rewrite !map_app. rewrite !filter_app'.
  assert (Hf : forall l, forallb (fun kv : str * str => non_ns version (fst kv)) l = true ->
               filter (fun kv : str * val => non_ns version (fst kv))
                      (map (fun kv : str * str => (fst kv, VStr (snd kv))) l)
               = map (fun kv : str * str => (fst kv, VStr (snd kv))) l).
  { intros l Hl. apply filter_all. rewrite forallb_forall in *. intros kv Hkv.
    apply in_map_iff in Hkv. destruct Hkv as [kv0 [<- Hkv]]. simpl. apply Hl. exact Hkv. }
  rewrite (Hf pre Hpre). rewrite (Hf post Hpost).
  rewrite filter_none; [reflexivity|].
  pose proof (md_view_all_ns version m H) as Hm. rewrite forallb_forall in *.
  intros kv Hkv. apply in_map_iff in Hkv. destruct Hkv as [kv0 [<- Hkv]]. simpl. apply Hm. exact Hkv.
Qed.

(* ====================================================================== *)
(* 4. Plain attributes, the start handler and the end handler on a view   *)
(* ====================================================================== *)

Ltac ev t := let r := eval vm_compute in t in change t with r.

(* attribute names that are reported unchanged and are not metadata *)
Definition plain_ok (k : str) : bool :=
  negb (prefixb (s_ "dc:") k) && negb (zin c_sp k)
  && match assoc k plain3 with None => true | Some _ => false end.
Definition plain_attrs (l : list (str * val)) : bool :=
  forallb (fun kv => plain_ok (fst kv) && is_vstr (snd kv)) l.

Lemma plain_name : forall version k, plain_ok k = true ->
  expat_attr_name version k = k /\ non_ns version k = true.
Proof.
  intros version k H. unfold plain_ok in H. apply andb_true_iff in H. destruct H as [H H3].
  apply andb_true_iff in H. destruct H as [H1 H2]. apply negb_true_iff in H1. apply negb_true_iff in H2.
  split.
  - unfold expat_attr_name. rewrite H1. reflexivity.
  - unfold non_ns. rewrite (assoc_ns_nospace version k H2).
    destruct (assoc k plain3); [discriminate | reflexivity].
Qed.

Lemma plain_attrs_app : forall a b, plain_attrs (a ++ b) = plain_attrs a && plain_attrs b.
Proof. intros. unfold plain_attrs. apply forallb_app. Qed.

Lemma expat_attrs_app : forall version a b,
  expat_attrs version (a ++ b) = expat_attrs version a ++ expat_attrs version b.
Proof. intros. unfold expat_attrs. apply map_app. Qed.

Lemma expat_attrs_plain : forall version l, plain_attrs l = true ->
  as_vals (expat_attrs version l) = l
  /\ forallb (fun kv => non_ns version (fst kv)) (expat_attrs version l) = true.
Proof.
  intros version l. induction l as [|[k v] r IH]; intro H.
  - split; reflexivity.
  - simpl in H. apply andb_true_iff in H. destruct H as [H Hr]. apply andb_true_iff in H.
    destruct H as [Hk Hv]. destruct (plain_name version k Hk) as [E1 E2].
    destruct (IH Hr) as [IH1 IH2]. destruct v as [ | | |s| | ]; try discriminate.
    split.
    + simpl. rewrite E1. f_equal. exact IH1.
    + simpl. rewrite E1, E2. exact IH2.
Qed.

Lemma as_vals_app : forall a b, as_vals (a ++ b) = as_vals a ++ as_vals b.
Proof. intros. unfold as_vals. apply map_app. Qed.

(* the dictionary the start handler builds for an element written with the
   attributes pre ++ metadata ++ post *)
Lemma start_attrs_view : forall version tag pre m post,
  plain_attrs pre = true -> plain_attrs post = true -> nf_meta m = true ->
  (str_mem tag meta_elems = false -> m = VNone) ->
  has_key (s_ "meta") (pre ++ post) = false ->
  start_attrs version tag (expat_attrs version (pre ++ md_of m ++ post)) =
  let a1 := if str_mem tag meta_elems then (pre ++ post) ++ [(s_ "meta", m)] else pre ++ post in
  let a2 := if is_cdata_elem version tag then vset_list a1 (s_ "text") (VStr []) else a1 in
  VDict (if prefixb (s_ "External") tag then vset_list a2 (s_ "external") (VBool true) else a2).
Proof.
  intros version tag pre m post Hpre Hpost Hm Hnm Hk.
  destruct (expat_attrs_plain version pre Hpre) as [P1 P2].
  destruct (expat_attrs_plain version post Hpost) as [Q1 Q2].
  rewrite start_attrs_eq. cbv zeta. rewrite !expat_attrs_app.
  destruct (str_mem tag meta_elems) eqn:E.
  - fold (as_vals (expat_attrs version pre ++ expat_attrs version (md_of m) ++ expat_attrs version post)).
    rewrite (filter_plain_md version m _ _ Hm P2 Q2).
    rewrite (meta_val_md version m _ _ Hm P2 Q2). rewrite P1, Q1.
    rewrite (vset_list_new (pre ++ post)) by exact Hk. reflexivity.
  - rewrite (Hnm eq_refl). cbn [md_of]. change (expat_attrs version []) with (@nil (str * str)).
    cbn [app].
    fold (as_vals (expat_attrs version pre ++ expat_attrs version post)).
    rewrite as_vals_app. rewrite P1, Q1. reflexivity.
Qed.

Lemma finish_text : forall l t0 r tx,
  has_key (s_ "text") l = false ->
  has_key xmlspaceattr (l ++ (s_ "text", VStr t0) :: r) = false ->
  finish (VDict (l ++ (s_ "text", VStr t0) :: r)) tx
  = VDict (l ++ (s_ "text", VStr (norm_ws (t0 ++ tx))) :: r).
Proof.
  intros l t0 r tx Hl Hx. unfold finish. rewrite !vhas_dict. rewrite Hx.
  rewrite has_key_app. rewrite has_key_cons. rewrite str_eqb_refl. rewrite orb_true_r.
  rewrite vget_app. rewrite Hl. rewrite vget_cons. rewrite str_eqb_refl.
  ev (val_eqb (VStr []) (VStr (s_ "preserve"))). cbv iota.
  unfold vset. rewrite vset_list_app. rewrite Hl. rewrite vset_list_cons. rewrite str_eqb_refl.
  reflexivity.
Qed.

Lemma finish_notext : forall l tx, has_key (s_ "text") l = false -> finish (VDict l) tx = VDict l.
Proof. intros l tx H. unfold finish. rewrite vhas_dict. rewrite H. reflexivity. Qed.

Lemma view_leaf : forall version tag attrib text tail,
  expat_view version (Elem tag attrib text [] tail)
  = XNode tag (expat_attrs version attrib) (val_str text ++ []) [].
Proof. reflexivity. Qed.

(* a normalised text stays what it is *)
Lemma norm_ws_fix : forall t, str_eqb (norm_ws t) t = true -> norm_ws ([] ++ t ++ []) = t.
Proof. intros t H. apply str_eqb_true in H. rewrite app_nil_r. exact H. Qed.

(* the versions *)
Definition supported (version : str) : bool := str_mem version supported_versions.
Definition v11 (version : str) : bool := supported version && negb (str_eqb version (s_ "1.0")).

Ltac versions H :=
  apply str_mem_In in H; simpl in H;
  destruct H as [H|[H|[H|[H|[]]]]]; subst.

(* ====================================================================== *)
(* 5. Leaf kinds without metadata                                         *)
(* ====================================================================== *)

(* ---------------- Tag ---------------- *)
Definition mk_tag (c t : str) : val := VDict [(s_ "category", VStr c); (s_ "text", VStr t)].
Definition xml_tag (c t : str) : xml := Elem (s_ "Tag") [(s_ "category", VStr c)] (VStr t) [] None.
Definition nf_tag (d : val) : bool :=
  match d with
  | VDict [(k1, VStr c); (k2, VStr t)] =>
      str_eqb k1 (s_ "category") && str_eqb k2 (s_ "text") && str_eqb (norm_ws t) t
  | _ => false
  end.
(* the validation _validate_forms applies to a tag *)
Definition validate_tag (tag : val) : result val :=
  do tag <- setdefault tag (s_ "text") (VStr []);
  do_ assert_in (s_ "category") tag;
  Ok tag.

Example nf_tag_ex : nf_tag (mk_tag (s_ "tense") (s_ "past perfect")) = true.
Proof. vm_compute. reflexivity. Qed.

Lemma nf_tag_inv : forall d, nf_tag d = true ->
  exists c t, d = mk_tag c t /\ str_eqb (norm_ws t) t = true.
Proof.
  intros d H. destruct d as [ | | | | |kvs]; try discriminate.
  destruct kvs as [|[k1 [ | | |c| | ]] [|[k2 [ | | |t| | ]] [|]]]; try discriminate.
  simpl in H. apply andb_true_iff in H. destruct H as [H Ht]. apply andb_true_iff in H.
  destruct H as [H1 H2]. apply str_eqb_true in H1. apply str_eqb_true in H2. subst.
  exists c, t. split; [reflexivity | exact Ht].
Qed.

Lemma build_tag_mk : forall c t, _build_tag (mk_tag c t) = Ok (xml_tag c t).
Proof. reflexivity. Qed.

Lemma in_elems_tag : forall version, supported version = true -> in_elems version (s_ "Tag") = true.
Proof. intros version H. unfold supported in H. versions H; vm_compute; reflexivity. Qed.

Lemma load_tag : forall version c t, supported version = true -> str_eqb (norm_ws t) t = true ->
  (do p <- parse_elem version (expat_view version (xml_tag c t)); validate_tag p) = Ok (mk_tag c t).
Proof.
  intros version c t Hv Ht. unfold xml_tag. rewrite view_leaf. rewrite parse_leaf.
  change [(s_ "category", VStr c)] with ([(s_ "category", VStr c)] ++ md_of VNone ++ []).
  rewrite start_attrs_view; try reflexivity.
  unfold is_cdata_elem. rewrite (in_elems_tag version Hv).
  ev (str_mem (s_ "Tag") meta_elems). ev (str_mem (s_ "Tag") cdata_elems).
  ev (prefixb (s_ "External") (s_ "Tag")). cbv beta iota zeta. simpl andb. cbv iota.
  simpl app. rewrite vset_list_new by reflexivity.
  change ([(s_ "category", VStr c)] ++ [(s_ "text", VStr [])])
    with ([(s_ "category", VStr c)] ++ (s_ "text", VStr []) :: []).
  rewrite finish_text; try reflexivity.
  simpl val_str. rewrite (norm_ws_fix t Ht). reflexivity.
Qed.

Theorem tag_roundtrip : forall version d x, supported version = true -> nf_tag d = true ->
  _build_tag d = Ok x ->
  (do p <- parse_elem version (expat_view version x); validate_tag p) = Ok d.
Proof.
  intros version d x Hv Hn Hb. destruct (nf_tag_inv d Hn) as [c [t [-> Ht]]].
  rewrite build_tag_mk in Hb. injection Hb as <-. apply load_tag; assumption.
Qed.

(* ---------------- helpers for optional string attributes ---------------- *)
Definition get_opt_str (d : val) (k : str) : option str :=
  match vget d k with VStr s => Some s | _ => None end.
Definition opt_s (k : str) (o : option str) : list (str * val) :=
  match o with Some s => [(k, VStr s)] | None => [] end.
(* an optional attribute is only written (and so only read back) when non-empty *)
Definition ne_opt (o : option str) : bool := match o with Some [] => false | _ => true end.

Lemma view_leaf' : forall version tag attrib text tail,
  expat_view version (Elem tag attrib text [] tail)
  = XNode tag (expat_attrs version attrib) (val_str text) [].
Proof. intros. rewrite view_leaf. rewrite app_nil_r. reflexivity. Qed.

Lemma start_attrs_plain : forall version tag pre,
  plain_attrs pre = true -> str_mem tag meta_elems = false -> has_key (s_ "meta") pre = false ->
  start_attrs version tag (expat_attrs version pre) =
  let a2 := if is_cdata_elem version tag then vset_list pre (s_ "text") (VStr []) else pre in
  VDict (if prefixb (s_ "External") tag then vset_list a2 (s_ "external") (VBool true) else a2).
Proof.
  intros version tag pre Hp Hm Hk.
  pose proof (start_attrs_view version tag pre VNone [] Hp eq_refl eq_refl (fun _ => eq_refl)) as H.
  cbn [md_of] in H. rewrite !app_nil_r in H. rewrite (H Hk). rewrite Hm.
  reflexivity.
Qed.

(* ---------------- Pronunciation (versions >= 1.1) ---------------- *)
Definition mk_pron (va no : option str) (ph : bool) (au : option str) (t : str) : val :=
  VDict (opt_s (s_ "variety") va ++ opt_s (s_ "notation") no
         ++ (if ph then [] else [(s_ "phonemic", VBool false)])
         ++ opt_s (s_ "audio") au ++ [(s_ "text", VStr t)]).
Definition xml_pron (va no : option str) (ph : bool) (au : option str) (t : str) : xml :=
  Elem (s_ "Pronunciation")
       (opt_s (s_ "variety") va ++ opt_s (s_ "notation") no
        ++ (if ph then [] else [(s_ "phonemic", VStr (s_ "false"))])
        ++ opt_s (s_ "audio") au)
       (VStr t) [] None.
Definition ok_pron (va no au : option str) (t : str) : bool :=
  ne_opt va && ne_opt no && ne_opt au && str_eqb (norm_ws t) t.
(* keys variety?, notation?, phonemic? (only as False), audio?, text — in this order *)
Definition nf_pron (d : val) : bool :=
  let va := get_opt_str d (s_ "variety") in
  let no := get_opt_str d (s_ "notation") in
  let ph := negb (vhas d (s_ "phonemic")) in
  let au := get_opt_str d (s_ "audio") in
  let t := val_str (vget d (s_ "text")) in
  val_eqb d (mk_pron va no ph au t) && ok_pron va no au t.
Definition validate_pron (pron : val) : result val :=
  do pron <- setdefault pron (s_ "text") (VStr []);
  conv_bool pron (s_ "phonemic").

Example nf_pron_ex :
  nf_pron (VDict [(s_ "variety", VStr (s_ "GB")); (s_ "phonemic", VBool false); (s_ "text", VStr (s_ "ipa"))]) = true.
Proof. vm_compute. reflexivity. Qed.

Lemma nf_pron_inv : forall d, nf_pron d = true ->
  exists va no ph au t, d = mk_pron va no ph au t /\ ok_pron va no au t = true.
Proof.
  intros d H. unfold nf_pron in H. cbv zeta in H. apply andb_true_iff in H. destruct H as [H1 H2].
  apply val_eqb_eq in H1. eauto 10.
Qed.

Lemma build_pron_mk : forall va no ph au t, ok_pron va no au t = true ->
  _build_pronunciation (mk_pron va no ph au t) = Ok (xml_pron va no ph au t).
Proof.
  intros [[|c1 s1]|] [[|c2 s2]|] [|] [[|c3 s3]|] t H; try discriminate; vm_compute; reflexivity.
Qed.

Lemma in_elems_pron : forall version, v11 version = true -> in_elems version (s_ "Pronunciation") = true.
Proof.
  intros version H. unfold v11, supported in H. apply andb_true_iff in H. destruct H as [H H0].
  versions H; try discriminate; vm_compute; reflexivity.
Qed.

(* after the version-dependent parts are gone everything is computable, except the
   whitespace normalisation of the (already normal) text *)
Ltac finish_leaf Ht :=
  vm_compute; vm_compute in Ht; try rewrite Ht; reflexivity.

Lemma load_pron : forall version va no ph au t, v11 version = true -> ok_pron va no au t = true ->
  (do p <- parse_elem version (expat_view version (xml_pron va no ph au t)); validate_pron p)
  = Ok (mk_pron va no ph au t).
Proof.
  intros version va no ph au t Hv H. unfold xml_pron. rewrite view_leaf'. rewrite parse_leaf.
  unfold ok_pron in H. apply andb_true_iff in H. destruct H as [H Ht]. apply str_eqb_true in Ht.
  destruct va as [[|c1 s1]|]; destruct no as [[|c2 s2]|]; destruct ph; destruct au as [[|c3 s3]|];
    try discriminate;
    (rewrite start_attrs_plain by reflexivity; unfold is_cdata_elem;
     rewrite (in_elems_pron version Hv); finish_leaf Ht).
Qed.

Theorem pron_roundtrip : forall version d x, v11 version = true -> nf_pron d = true ->
  _build_pronunciation d = Ok x ->
  (do p <- parse_elem version (expat_view version x); validate_pron p) = Ok d.
Proof.
  intros version d x Hv Hn Hb. destruct (nf_pron_inv d Hn) as [va [no [ph [au [t [-> Hok]]]]]].
  rewrite (build_pron_mk _ _ _ _ _ Hok) in Hb. injection Hb as <-. apply load_pron; assumption.
Qed.

(* ---------------- Requires / Extends (versions >= 1.1) ---------------- *)
(* the xml-returning variant of _dump_dependency *)
Definition dep_xml (dep : val) (deptype : str) : result xml :=
  do id <- py_item dep (s_ "id");
  do version <- py_item dep (s_ "version");
  do attrib <- opt_attr dep (s_ "url") [(s_ "id", id); (s_ "version", version)];
  Ok (Elem deptype attrib VNone [] None).
Lemma dump_dependency_xml : forall dep deptype,
  _dump_dependency dep deptype = do x <- dep_xml dep deptype; print_elem x.
Proof.
  intros. unfold _dump_dependency, dep_xml.
  destruct (py_item dep (s_ "id")) as [id|e]; [|reflexivity]. cbn [bind].
  destruct (py_item dep (s_ "version")) as [ver|e]; [|reflexivity]. cbn [bind].
  destruct (opt_attr dep (s_ "url") _) as [a|e]; reflexivity.
Qed.

Definition mk_dep (id ver : str) (url : option str) : val :=
  VDict ([(s_ "id", VStr id); (s_ "version", VStr ver)] ++ opt_s (s_ "url") url).
Definition xml_dep (deptype id ver : str) (url : option str) : xml :=
  Elem deptype ([(s_ "id", VStr id); (s_ "version", VStr ver)] ++ opt_s (s_ "url") url) VNone [] None.
Definition nf_dep (d : val) : bool :=
  let id := val_str (vget d (s_ "id")) in
  let ver := val_str (vget d (s_ "version")) in
  let url := get_opt_str d (s_ "url") in
  val_eqb d (mk_dep id ver url) && ne_opt url.
Example nf_dep_ex : nf_dep (mk_dep (s_ "omw-en") (s_ "1.4") (Some (s_ "http://x"))) = true.
Proof. vm_compute. reflexivity. Qed.

Lemma nf_dep_inv : forall d, nf_dep d = true ->
  exists id ver url, d = mk_dep id ver url /\ ne_opt url = true.
Proof.
  intros d H. unfold nf_dep in H. cbv zeta in H. apply andb_true_iff in H. destruct H as [H1 H2].
  apply val_eqb_eq in H1. eauto 10.
Qed.
Lemma build_dep_mk : forall deptype id ver url, ne_opt url = true ->
  dep_xml (mk_dep id ver url) deptype = Ok (xml_dep deptype id ver url).
Proof. intros deptype id ver [[|c s]|] H; try discriminate; vm_compute; reflexivity. Qed.

Definition is_dep_tag (t : str) : bool := str_eqb t (s_ "Requires") || str_eqb t (s_ "Extends").
Lemma load_dep : forall version deptype id ver url, v11 version = true -> is_dep_tag deptype = true ->
  ne_opt url = true ->
  parse_elem version (expat_view version (xml_dep deptype id ver url)) = Ok (mk_dep id ver url).
Proof.
  intros version deptype id ver url Hv Ht Hu. unfold xml_dep. rewrite view_leaf'. rewrite parse_leaf.
  assert (Hc : is_cdata_elem version deptype = false /\ str_mem deptype meta_elems = false
               /\ prefixb (s_ "External") deptype = false).
  { unfold is_dep_tag in Ht. apply orb_true_iff in Ht.
    destruct Ht as [Ht|Ht]; apply str_eqb_true in Ht; subst deptype; repeat split; reflexivity. }
  destruct Hc as [Hc [Hm He]].
  destruct url as [[|c s]|]; try discriminate;
    (rewrite start_attrs_plain by (try reflexivity; exact Hm); rewrite Hc, He; reflexivity).
Qed.

Theorem dep_roundtrip : forall version deptype d x, v11 version = true -> is_dep_tag deptype = true ->
  nf_dep d = true -> dep_xml d deptype = Ok x ->
  parse_elem version (expat_view version x) = Ok d.
Proof.
  intros version deptype d x Hv Ht Hn Hb. destruct (nf_dep_inv d Hn) as [id [ver [url [-> Hu]]]].
  rewrite (build_dep_mk _ _ _ _ Hu) in Hb. injection Hb as <-. apply load_dep; assumption.
Qed.

Lemma assert_in_present : forall k l, has_key k l = true -> assert_in k (VDict l) = Ok tt.
Proof.
  intros k l H. cbv beta iota delta [assert_in py_in bind]. rewrite vhas_dict. rewrite H. reflexivity.
Qed.

(* ---------------- lists of words (subcat, members, senses) ---------------- *)
Definition word_ok (w : str) : bool :=
  match w with [] => false | _ => forallb (fun c => negb (Spec.is_space c)) w end.
Definition words_ok (ws : list str) : bool := forallb word_ok ws.

Lemma words_ok_good : forall ws, words_ok ws = true -> Forall good_word ws.
Proof.
  intros ws H. unfold words_ok in H. rewrite forallb_forall in H. apply Forall_forall.
  intros w Hw. specialize (H w Hw). unfold word_ok in H. destruct w as [|c w]; [discriminate|].
  split; [discriminate|]. unfold NonSp. apply Forall_forall. intros x Hx.
  rewrite forallb_forall in H. apply negb_true_iff. apply H. exact Hx.
Qed.

Lemma mapM_strs : forall ws,
  mapM (fun x => match x with VStr s => Ok s | _ => Err EOther end) (map VStr ws) = Ok ws.
Proof. induction ws as [|w r IH]; [reflexivity|]. simpl. rewrite IH. reflexivity. Qed.
Lemma py_join_sp_strs : forall ws, py_join_sp (VList (map VStr ws)) = Ok (join [c_sp] ws).
Proof. intro ws. unfold py_join_sp. simpl. rewrite mapM_strs. reflexivity. Qed.

Lemma split_join_words : forall ws, words_ok ws = true -> py_split (join [c_sp] ws) = ws.
Proof. intros ws H. apply split_join. apply words_ok_good. exact H. Qed.

Lemma join_nonempty : forall w ws, word_ok w = true -> vtruthy (VStr (join [c_sp] (w :: ws))) = true.
Proof. intros [|c w] ws H; [discriminate|]. destruct ws; reflexivity. Qed.

(* if elem.get(k): elem[k] = elem[k].split()  on a joined list of words *)
Lemma conv_split_words : forall l k w ws,
  words_ok (w :: ws) = true -> vget (VDict l) k = VStr (join [c_sp] (w :: ws)) ->
  conv_split (VDict l) k = Ok (vset (VDict l) k (VList (map VStr (w :: ws)))).
Proof.
  intros l k w ws H Hg. unfold conv_split, py_get. cbn [bind]. rewrite Hg.
  assert (Hw : word_ok w = true) by (simpl in H; apply andb_true_iff in H; apply H).
  rewrite (join_nonempty w ws Hw). rewrite (split_join_words _ H). reflexivity.
Qed.

(* ---------------- SyntacticBehaviour ---------------- *)
(* versions >= 1.1: subcategorizationFrame, id? *)
Definition mk_sb11 (frame : str) (id : option str) : val :=
  VDict ([(s_ "subcategorizationFrame", VStr frame)] ++ opt_s (s_ "id") id).
(* version 1.0: subcategorizationFrame, senses? (a non-empty list of words) *)
Definition senses_kv (ws : list str) : list (str * val) :=
  match ws with [] => [] | _ => [(s_ "senses", VList (map VStr ws))] end.
Definition mk_sb10 (frame : str) (ws : list str) : val :=
  VDict ([(s_ "subcategorizationFrame", VStr frame)] ++ senses_kv ws).
Definition xml_sb11 (frame : str) (id : option str) : xml :=
  Elem (s_ "SyntacticBehaviour") ([(s_ "subcategorizationFrame", VStr frame)] ++ opt_s (s_ "id") id) VNone [] None.
Definition xml_sb10 (frame : str) (ws : list str) : xml :=
  Elem (s_ "SyntacticBehaviour")
       ([(s_ "subcategorizationFrame", VStr frame)]
        ++ match ws with [] => [] | _ => [(s_ "senses", VStr (join [c_sp] ws))] end) VNone [] None.
Definition get_words (d : val) (k : str) : list str :=
  match vget d k with VList l => map val_str l | _ => [] end.
Definition nf_sb11 (d : val) : bool :=
  let frame := val_str (vget d (s_ "subcategorizationFrame")) in
  let id := get_opt_str d (s_ "id") in
  val_eqb d (mk_sb11 frame id) && ne_opt id.
Definition nf_sb10 (d : val) : bool :=
  let frame := val_str (vget d (s_ "subcategorizationFrame")) in
  let ws := get_words d (s_ "senses") in
  val_eqb d (mk_sb10 frame ws) && words_ok ws.
Example nf_sb11_ex : nf_sb11 (mk_sb11 (s_ "NP V NP") (Some (s_ "f1"))) = true.
Proof. vm_compute. reflexivity. Qed.
Example nf_sb10_ex : nf_sb10 (mk_sb10 (s_ "NP V NP") [s_ "s1"; s_ "s2"]) = true.
Proof. vm_compute. reflexivity. Qed.

Lemma nf_sb11_inv : forall d, nf_sb11 d = true -> exists frame id, d = mk_sb11 frame id /\ ne_opt id = true.
Proof.
  intros d H. unfold nf_sb11 in H. cbv zeta in H. apply andb_true_iff in H. destruct H as [H1 H2].
  apply val_eqb_eq in H1. eauto.
Qed.
Lemma nf_sb10_inv : forall d, nf_sb10 d = true -> exists frame ws, d = mk_sb10 frame ws /\ words_ok ws = true.
Proof.
  intros d H. unfold nf_sb10 in H. cbv zeta in H. apply andb_true_iff in H. destruct H as [H1 H2].
  apply val_eqb_eq in H1. eauto.
Qed.

Lemma lt_ge : forall v, lt_1_1 v = negb (ge_1_1 v).
Proof. intro v. unfold lt_1_1, ge_1_1. rewrite negb_involutive. reflexivity. Qed.

Lemma build_sb11_mk : forall v frame id, ge_1_1 v = true -> ne_opt id = true ->
  _build_syntactic_behaviour (mk_sb11 frame id) v = Ok (xml_sb11 frame id).
Proof.
  intros v frame id Hv Hi. unfold _build_syntactic_behaviour. rewrite lt_ge. rewrite Hv.
  destruct id as [[|c s]|]; try discriminate; reflexivity.
Qed.
Lemma build_sb10_mk : forall v frame ws, ge_1_1 v = false -> words_ok ws = true ->
  _build_syntactic_behaviour (mk_sb10 frame ws) v = Ok (xml_sb10 frame ws).
Proof.
  intros v frame ws Hv Hw. unfold _build_syntactic_behaviour. rewrite lt_ge. rewrite Hv.
  destruct ws as [|w ws].
  - reflexivity.
  - unfold mk_sb10, senses_kv. cbn [app]. unfold py_item, py_get. rewrite !vhas_dict.
    ev (has_key (s_ "subcategorizationFrame")
          [(s_ "subcategorizationFrame", VStr frame); (s_ "senses", VList (map VStr (w :: ws)))]).
    cbn [bind negb]. cbv iota.
    rewrite !vget_cons. keys. cbv iota. cbn [bind vtruthy map].
    change (VStr w :: map VStr ws) with (map VStr (w :: ws)). rewrite py_join_sp_strs. reflexivity.
Qed.

Lemma in_elems_sb : forall version, supported version = true -> in_elems version (s_ "SyntacticBehaviour") = true.
Proof. intros version H. unfold supported in H. versions H; vm_compute; reflexivity. Qed.

Lemma load_sb11 : forall version frame id, supported version = true -> ne_opt id = true ->
  (do p <- parse_elem version (expat_view version (xml_sb11 frame id)); _validate_frame p)
  = Ok (mk_sb11 frame id).
Proof.
  intros version frame id Hv Hi. unfold xml_sb11. rewrite view_leaf'. rewrite parse_leaf.
  destruct id as [[|c s]|]; try discriminate;
    (rewrite start_attrs_plain by reflexivity; unfold is_cdata_elem; rewrite (in_elems_sb version Hv);
     vm_compute; reflexivity).
Qed.

Lemma load_sb10 : forall version frame ws, supported version = true -> words_ok ws = true ->
  (do p <- parse_elem version (expat_view version (xml_sb10 frame ws)); _validate_frame p)
  = Ok (mk_sb10 frame ws).
Proof.
  intros version frame ws Hv Hw. unfold xml_sb10. rewrite view_leaf'. rewrite parse_leaf.
  destruct ws as [|w ws].
  - rewrite start_attrs_plain by reflexivity. unfold is_cdata_elem. rewrite (in_elems_sb version Hv).
    vm_compute. reflexivity.
  - rewrite start_attrs_plain by reflexivity. unfold is_cdata_elem. rewrite (in_elems_sb version Hv).
    ev (str_mem (s_ "SyntacticBehaviour") cdata_elems).
    ev (prefixb (s_ "External") (s_ "SyntacticBehaviour")). cbv beta iota zeta. simpl andb. cbv iota.
    cbn [app]. rewrite finish_notext by reflexivity. cbn [bind]. unfold _validate_frame.
    rewrite assert_in_present by reflexivity. cbn [bind].
    rewrite (conv_split_words _ _ w ws Hw) by reflexivity. reflexivity.
Qed.

Theorem sb11_roundtrip : forall version v d x, supported version = true -> ge_1_1 v = true ->
  nf_sb11 d = true -> _build_syntactic_behaviour d v = Ok x ->
  (do p <- parse_elem version (expat_view version x); _validate_frame p) = Ok d.
Proof.
  intros version v d x Hs Hv Hn Hb. destruct (nf_sb11_inv d Hn) as [frame [id [-> Hi]]].
  rewrite (build_sb11_mk v _ _ Hv Hi) in Hb. injection Hb as <-. apply load_sb11; assumption.
Qed.
Theorem sb10_roundtrip : forall version v d x, supported version = true -> ge_1_1 v = false ->
  nf_sb10 d = true -> _build_syntactic_behaviour d v = Ok x ->
  (do p <- parse_elem version (expat_view version x); _validate_frame p) = Ok d.
Proof.
  intros version v d x Hs Hv Hn Hb. destruct (nf_sb10_inv d Hn) as [frame [ws [-> Hw]]].
  rewrite (build_sb10_mk v _ _ Hv Hw) in Hb. injection Hb as <-. apply load_sb10; assumption.
Qed.

(* ====================================================================== *)
(* 6. Leaf kinds with metadata                                            *)
(* ====================================================================== *)

Lemma py_get_dict : forall l k, py_get (VDict l) k = Ok (vget (VDict l) k).
Proof. reflexivity. Qed.
Lemma opt_attr_dict : forall l k a,
  opt_attr (VDict l) k a
  = Ok (if vtruthy (vget (VDict l) k) then vset_list a k (vget (VDict l) k) else a).
Proof. reflexivity. Qed.
Lemma py_item_dict : forall l k, has_key k l = true -> py_item (VDict l) k = Ok (vget (VDict l) k).
Proof. intros l k H. unfold py_item. rewrite vhas_dict. rewrite H. reflexivity. Qed.

Lemma dict_update_md : forall pre m, nf_meta m = true ->
  forallb (fun k => negb (has_key k pre)) xml_meta_names = true ->
  dict_update pre (md_of m) = pre ++ md_of m.
Proof.
  intros pre m Hm Hp. apply dict_update_new.
  - apply md_of_NoDup. exact Hm.
  - intros kv Hkv. apply (md_of_keys m kv Hm) in Hkv. rewrite forallb_forall in Hp.
    apply negb_true_iff. apply Hp. exact Hkv.
Qed.

Lemma vset_md_new : forall pre m k v, nf_meta m = true -> has_key k pre = false ->
  str_mem k xml_meta_names = false ->
  vset_list (pre ++ md_of m) k v = pre ++ md_of m ++ [(k, v)].
Proof.
  intros pre m k v Hm Hp Hk. rewrite vset_list_new.
  - rewrite <- app_assoc. reflexivity.
  - rewrite has_key_app. rewrite Hp. rewrite (md_of_has_key m k Hm Hk). reflexivity.
Qed.

Definition nf_text (t : str) : bool := str_eqb (norm_ws t) t.

Ltac not_meta_elem := let H := fresh in intro H; vm_compute in H; discriminate H.

Lemma in_elems_10 : forall version n, supported version = true ->
  str_mem n (map s_ ["Example"; "Definition"; "ILIDefinition"; "SenseRelation"; "SynsetRelation";
                     "Count"; "Lemma"; "Form"; "Sense"; "Synset"; "LexicalEntry"; "Lexicon";
                     "LexicalResource"; "Tag"; "SyntacticBehaviour"]%string) = true ->
  in_elems version n = true.
Proof.
  intros version n H Hn. apply str_mem_In in Hn. unfold supported in H.
  versions H; simpl in Hn;
    repeat (destruct Hn as [<-|Hn]; [vm_compute; reflexivity|]); contradiction.
Qed.

(* ---------------- Example ---------------- *)
Definition mk_example (lang : option str) (m : val) (t : str) : val :=
  VDict (opt_s (s_ "language") lang ++ [(s_ "meta", m); (s_ "text", VStr t)]).
Definition xml_example (lang : option str) (m : val) (t : str) : xml :=
  Elem (s_ "Example") (md_of m ++ opt_s (s_ "language") lang) (VStr t) [] None.
(* keys language?, meta, text *)
Definition nf_example (d : val) : bool :=
  let lang := get_opt_str d (s_ "language") in
  let m := vget d (s_ "meta") in
  let t := val_str (vget d (s_ "text")) in
  val_eqb d (mk_example lang m t) && ne_opt lang && nf_meta m && nf_text t.
Example nf_example_ex :
  nf_example (mk_example (Some (s_ "en")) (VDict [(s_ "source", VStr (s_ "corpus"))]) (s_ "a fine example")) = true.
Proof. vm_compute. reflexivity. Qed.

Lemma nf_example_inv : forall d, nf_example d = true ->
  exists lang m t, d = mk_example lang m t /\ ne_opt lang = true /\ nf_meta m = true /\ nf_text t = true.
Proof.
  intros d H. unfold nf_example in H. cbv zeta in H.
  apply andb_true_iff in H. destruct H as [H H4]. apply andb_true_iff in H. destruct H as [H H3].
  apply andb_true_iff in H. destruct H as [H1 H2]. apply val_eqb_eq in H1. eauto 10.
Qed.

Lemma build_example_mk : forall lang m t, ne_opt lang = true -> nf_meta m = true ->
  _build_example (mk_example lang m t) = Ok (xml_example lang m t).
Proof.
  intros lang m t Hl Hm. unfold _build_example, xml_example.
  destruct lang as [[|c s]|]; try discriminate; unfold mk_example, opt_s; cbn [app];
    rewrite py_get_dict; rewrite !vget_cons; keys; cbv iota; cbn [bind];
    rewrite (meta_dict_nf m Hm); cbn [bind];
    (rewrite py_item_dict by reflexivity); rewrite !vget_cons; keys; cbv iota; cbn [bind];
    rewrite opt_attr_dict; rewrite !vget_cons; keys; cbv iota; cbn [vtruthy vget find bind].
  - rewrite <- (app_nil_l (md_of m)) at 1. rewrite vset_md_new by (try exact Hm; reflexivity).
    reflexivity.
  - rewrite app_nil_r. reflexivity.
Qed.

Lemma load_example : forall version lang m t, supported version = true ->
  ne_opt lang = true -> nf_meta m = true -> nf_text t = true ->
  (do p <- parse_elem version (expat_view version (xml_example lang m t)); validate_text_meta p)
  = Ok (mk_example lang m t).
Proof.
  intros version lang m t Hv Hl Hm Ht. unfold nf_text in Ht. apply str_eqb_true in Ht.
  unfold xml_example. rewrite view_leaf'. rewrite parse_leaf.
  rewrite <- (app_nil_l (md_of m ++ _)).
  destruct lang as [[|c s]|]; try discriminate;
    (rewrite start_attrs_view; [| reflexivity | reflexivity | exact Hm | not_meta_elem | reflexivity];
     unfold is_cdata_elem; rewrite (in_elems_10 version _ Hv) by reflexivity; finish_leaf Ht).
Qed.

Theorem example_roundtrip : forall version d x, supported version = true -> nf_example d = true ->
  _build_example d = Ok x ->
  (do p <- parse_elem version (expat_view version x); validate_text_meta p) = Ok d.
Proof.
  intros version d x Hv Hn Hb. destruct (nf_example_inv d Hn) as [lang [m [t [-> [Hl [Hm Ht]]]]]].
  rewrite (build_example_mk _ _ _ Hl Hm) in Hb. injection Hb as <-. apply load_example; assumption.
Qed.

(* ---------------- Definition ---------------- *)
Definition mk_definition (lang src : option str) (m : val) (t : str) : val :=
  VDict (opt_s (s_ "language") lang ++ opt_s (s_ "sourceSense") src
         ++ [(s_ "meta", m); (s_ "text", VStr t)]).
Definition xml_definition (lang src : option str) (m : val) (t : str) : xml :=
  Elem (s_ "Definition")
       ((opt_s (s_ "language") lang ++ opt_s (s_ "sourceSense") src) ++ md_of m) (VStr t) [] None.
(* keys language?, sourceSense?, meta, text *)
Definition nf_definition (d : val) : bool :=
  let lang := get_opt_str d (s_ "language") in
  let src := get_opt_str d (s_ "sourceSense") in
  let m := vget d (s_ "meta") in
  let t := val_str (vget d (s_ "text")) in
  val_eqb d (mk_definition lang src m t) && ne_opt lang && ne_opt src && nf_meta m && nf_text t.
Example nf_definition_ex :
  nf_definition (mk_definition None (Some (s_ "w-1")) VNone (s_ "a thing")) = true.
Proof. vm_compute. reflexivity. Qed.

Lemma nf_definition_inv : forall d, nf_definition d = true ->
  exists lang src m t, d = mk_definition lang src m t /\ ne_opt lang = true /\ ne_opt src = true
                       /\ nf_meta m = true /\ nf_text t = true.
Proof.
  intros d H. unfold nf_definition in H. cbv zeta in H.
  apply andb_true_iff in H. destruct H as [H H5]. apply andb_true_iff in H. destruct H as [H H4].
  apply andb_true_iff in H. destruct H as [H H3]. apply andb_true_iff in H. destruct H as [H1 H2].
  apply val_eqb_eq in H1. eauto 12.
Qed.

Lemma build_definition_mk : forall lang src m t, ne_opt lang = true -> ne_opt src = true ->
  nf_meta m = true ->
  _build_definition (mk_definition lang src m t) = Ok (xml_definition lang src m t).
Proof.
  intros lang src m t Hl Hs Hm. unfold _build_definition, xml_definition.
  destruct lang as [[|c1 s1]|]; destruct src as [[|c2 s2]|]; try discriminate;
    unfold mk_definition, opt_s; cbn [app];
    rewrite !opt_attr_dict; rewrite !vget_cons; keys; cbv iota; cbn [vtruthy vget find bind];
    rewrite ?opt_attr_dict; rewrite ?vget_cons; keys; cbv iota; cbn [vtruthy vget find bind];
    rewrite py_get_dict; rewrite !vget_cons; keys; cbv iota; cbn [bind];
    rewrite (meta_dict_nf m Hm); cbn [bind];
    (rewrite py_item_dict by reflexivity); rewrite !vget_cons; keys; cbv iota; cbn [bind];
    (rewrite dict_update_md by (try exact Hm; reflexivity)); reflexivity.
Qed.

Lemma load_definition : forall version lang src m t, supported version = true ->
  ne_opt lang = true -> ne_opt src = true -> nf_meta m = true -> nf_text t = true ->
  (do p <- parse_elem version (expat_view version (xml_definition lang src m t)); validate_text_meta p)
  = Ok (mk_definition lang src m t).
Proof.
  intros version lang src m t Hv Hl Hs Hm Ht. unfold nf_text in Ht. apply str_eqb_true in Ht.
  unfold xml_definition. rewrite view_leaf'. rewrite parse_leaf.
  rewrite <- (app_nil_r (md_of m)).
  destruct lang as [[|c1 s1]|]; destruct src as [[|c2 s2]|]; try discriminate;
    (rewrite start_attrs_view; [| reflexivity | reflexivity | exact Hm | not_meta_elem | reflexivity];
     unfold is_cdata_elem; rewrite (in_elems_10 version _ Hv) by reflexivity; finish_leaf Ht).
Qed.

Theorem definition_roundtrip : forall version d x, supported version = true ->
  nf_definition d = true -> _build_definition d = Ok x ->
  (do p <- parse_elem version (expat_view version x); validate_text_meta p) = Ok d.
Proof.
  intros version d x Hv Hn Hb.
  destruct (nf_definition_inv d Hn) as [lang [src [m [t [-> [Hl [Hs [Hm Ht]]]]]]]].
  rewrite (build_definition_mk _ _ _ _ Hl Hs Hm) in Hb. injection Hb as <-.
  apply load_definition; assumption.
Qed.

(* ---------------- ILIDefinition (not touched by _validate) ---------------- *)
Definition mk_ilidef (m : val) (t : str) : val := VDict [(s_ "meta", m); (s_ "text", VStr t)].
Definition xml_ilidef (m : val) (t : str) : xml := Elem (s_ "ILIDefinition") (md_of m) (VStr t) [] None.
Definition nf_ilidef (d : val) : bool :=
  let m := vget d (s_ "meta") in
  let t := val_str (vget d (s_ "text")) in
  val_eqb d (mk_ilidef m t) && nf_meta m && nf_text t.
Example nf_ilidef_ex : nf_ilidef (mk_ilidef (VDict [(s_ "note", VStr (s_ "n"))]) (s_ "x y")) = true.
Proof. vm_compute. reflexivity. Qed.

Lemma nf_ilidef_inv : forall d, nf_ilidef d = true ->
  exists m t, d = mk_ilidef m t /\ nf_meta m = true /\ nf_text t = true.
Proof.
  intros d H. unfold nf_ilidef in H. cbv zeta in H.
  apply andb_true_iff in H. destruct H as [H H3]. apply andb_true_iff in H. destruct H as [H1 H2].
  apply val_eqb_eq in H1. eauto 10.
Qed.

Lemma build_ilidef_mk : forall m t, nf_meta m = true ->
  _build_ili_definition (mk_ilidef m t) = Ok (xml_ilidef m t).
Proof.
  intros m t Hm. unfold _build_ili_definition, mk_ilidef, xml_ilidef.
  rewrite py_get_dict; rewrite !vget_cons; keys; cbv iota; cbn [bind].
  rewrite (meta_dict_nf m Hm); cbn [bind]. reflexivity.
Qed.

Lemma load_ilidef : forall version m t, supported version = true -> nf_meta m = true -> nf_text t = true ->
  parse_elem version (expat_view version (xml_ilidef m t)) = Ok (mk_ilidef m t).
Proof.
  intros version m t Hv Hm Ht. unfold nf_text in Ht. apply str_eqb_true in Ht.
  unfold xml_ilidef. rewrite view_leaf'. rewrite parse_leaf.
  rewrite <- (app_nil_r (md_of m)). rewrite <- (app_nil_l (md_of m ++ [])).
  rewrite start_attrs_view; [| reflexivity | reflexivity | exact Hm | not_meta_elem | reflexivity].
  unfold is_cdata_elem. rewrite (in_elems_10 version _ Hv) by reflexivity. finish_leaf Ht.
Qed.

Theorem ilidef_roundtrip : forall version d x, supported version = true -> nf_ilidef d = true ->
  _build_ili_definition d = Ok x -> parse_elem version (expat_view version x) = Ok d.
Proof.
  intros version d x Hv Hn Hb. destruct (nf_ilidef_inv d Hn) as [m [t [-> [Hm Ht]]]].
  rewrite (build_ilidef_mk _ _ Hm) in Hb. injection Hb as <-. apply load_ilidef; assumption.
Qed.

(* ---------------- SenseRelation / SynsetRelation ---------------- *)
Definition mk_relation (target relType : str) (m : val) : val :=
  VDict [(s_ "target", VStr target); (s_ "relType", VStr relType); (s_ "meta", m)].
Definition xml_relation (elemtype target relType : str) (m : val) : xml :=
  Elem elemtype ([(s_ "target", VStr target); (s_ "relType", VStr relType)] ++ md_of m) VNone [] None.
Definition nf_relation (d : val) : bool :=
  let target := val_str (vget d (s_ "target")) in
  let relType := val_str (vget d (s_ "relType")) in
  let m := vget d (s_ "meta") in
  val_eqb d (mk_relation target relType m) && nf_meta m.
Example nf_relation_ex : nf_relation (mk_relation (s_ "ss-2") (s_ "hypernym") VNone) = true.
Proof. vm_compute. reflexivity. Qed.

Lemma nf_relation_inv : forall d, nf_relation d = true ->
  exists target relType m, d = mk_relation target relType m /\ nf_meta m = true.
Proof.
  intros d H. unfold nf_relation in H. cbv zeta in H. apply andb_true_iff in H. destruct H as [H1 H2].
  apply val_eqb_eq in H1. eauto 10.
Qed.

Lemma build_relation_mk : forall elemtype target relType m, nf_meta m = true ->
  _build_relation (mk_relation target relType m) elemtype = Ok (xml_relation elemtype target relType m).
Proof.
  intros elemtype target relType m Hm. unfold _build_relation, mk_relation, xml_relation.
  rewrite !py_item_dict by reflexivity. rewrite py_get_dict. rewrite !vget_cons; keys; cbv iota; cbn [bind].
  rewrite (meta_dict_nf m Hm); cbn [bind].
  rewrite dict_update_md by (try exact Hm; reflexivity). reflexivity.
Qed.

Definition is_rel_tag (t : str) : bool := str_eqb t (s_ "SenseRelation") || str_eqb t (s_ "SynsetRelation").

Lemma load_relation : forall version elemtype target relType m, supported version = true ->
  is_rel_tag elemtype = true -> nf_meta m = true ->
  (do p <- parse_elem version (expat_view version (xml_relation elemtype target relType m));
   validate_relation p) = Ok (mk_relation target relType m).
Proof.
  intros version elemtype target relType m Hv Ht Hm.
  unfold xml_relation. rewrite view_leaf'. rewrite parse_leaf.
  rewrite <- (app_nil_r (md_of m)).
  unfold is_rel_tag in Ht. apply orb_true_iff in Ht.
  destruct Ht as [Ht|Ht]; apply str_eqb_true in Ht; subst elemtype;
    (rewrite start_attrs_view; [| reflexivity | reflexivity | exact Hm | not_meta_elem | reflexivity];
     unfold is_cdata_elem; rewrite (in_elems_10 version _ Hv) by reflexivity; vm_compute; reflexivity).
Qed.

Theorem relation_roundtrip : forall version elemtype d x, supported version = true ->
  is_rel_tag elemtype = true -> nf_relation d = true -> _build_relation d elemtype = Ok x ->
  (do p <- parse_elem version (expat_view version x); validate_relation p) = Ok d.
Proof.
  intros version elemtype d x Hv Ht Hn Hb.
  destruct (nf_relation_inv d Hn) as [target [relType [m [-> Hm]]]].
  rewrite (build_relation_mk _ _ _ _ Hm) in Hb. injection Hb as <-. apply load_relation; assumption.
Qed.

(* ---------------- str(int) and int(str) ---------------- *)
Definition dstep (a c : Z) : Z := a * 10 + (c - 48).
Definition Digit (c : Z) : Prop := 48 <= c <= 57.

Lemma digit_val_ascii : forall c, Digit c -> digit_val c = Some (c - 48).
Proof.
  intros c [H1 H2]. unfold digit_val.
  assert (E : find (fun z => in_range z (z + 9) c) decimal_zeros = Some 48).
  { unfold decimal_zeros. cbn [find]. unfold in_range at 1.
    replace (48 <=? c) with true by (symmetry; apply Z.leb_le; lia).
    replace (c <=? 48 + 9) with true by (symmetry; apply Z.leb_le; lia). reflexivity. }
  rewrite E. reflexivity.
Qed.

Lemma parse_digits_digits : forall ds a p, Forall Digit ds -> (ds <> [] \/ p = true) ->
  parse_digits a p ds = Some (fold_left dstep ds a).
Proof.
  induction ds as [|c r IH]; intros a p Hd Hp.
  - destruct Hp as [Hp|Hp]; [contradiction | subst; reflexivity].
  - inversion Hd as [|c' r' Hc Hr E]. subst. simpl. rewrite (digit_val_ascii c Hc).
    apply IH; [exact Hr | right; reflexivity].
Qed.

Lemma digits_aux_app : forall fuel n acc, digits_aux fuel n acc = digits_aux fuel n [] ++ acc.
Proof.
  induction fuel as [|f IH]; intros n acc.
  - reflexivity.
  - cbn [digits_aux]. destruct (n / 10 =? 0); [reflexivity|].
    rewrite (IH (n / 10) ((48 + n mod 10) :: acc)). rewrite (IH (n / 10) [48 + n mod 10]).
    rewrite <- app_assoc. reflexivity.
Qed.

Lemma digits_aux_spec : forall fuel n, fuel <> O -> 0 <= n < 2 ^ (Z.of_nat fuel) ->
  Forall Digit (digits_aux fuel n []) /\ digits_aux fuel n [] <> []
  /\ forall a, exists L, 0 <= L /\ fold_left dstep (digits_aux fuel n []) a = a * 10 ^ L + n.
Proof.
  induction fuel as [|f IH]; intros n Hf Hn; [contradiction|].
  assert (Hm : 0 <= n mod 10 < 10) by (apply Z.mod_pos_bound; lia).
  assert (Hdm : n = 10 * (n / 10) + n mod 10) by (apply Z.div_mod; lia).
  cbn [digits_aux]. destruct (Z.eqb_spec (n / 10) 0) as [E|E].
  - split; [|split].
    + constructor; [unfold Digit; lia | constructor].
    + discriminate.
    + intro a. exists 1. split; [lia|]. cbn [fold_left]. unfold dstep. rewrite Z.pow_1_r. lia.
  - assert (Hq : 0 <= n / 10) by (apply Z.div_pos; lia).
    assert (Hp : 2 ^ Z.of_nat (S f) = 2 * 2 ^ Z.of_nat f).
    { rewrite Nat2Z.inj_succ. apply Z.pow_succ_r. lia. }
    assert (Hq2 : n / 10 < 2 ^ Z.of_nat f).
    { apply Z.div_lt_upper_bound; [lia|]. assert (0 < 2 ^ Z.of_nat f) by (apply Z.pow_pos_nonneg; lia). lia. }
    assert (Hf' : f <> O).
    { intro E0. subst f. simpl in Hq2. lia. }
    destruct (IH (n / 10) Hf' (conj Hq Hq2)) as [H1 [H2 H3]].
    rewrite digits_aux_app. split; [|split].
    + apply Forall_app. split; [exact H1|]. constructor; [unfold Digit; lia | constructor].
    + intro E0. apply app_eq_nil in E0. destruct E0 as [_ E0]. discriminate.
    + intro a. destruct (H3 a) as [L [HL HE]]. exists (L + 1). split; [lia|].
      rewrite fold_left_app. rewrite HE. cbn [fold_left]. unfold dstep.
      rewrite Z.pow_add_r by lia. rewrite Z.pow_1_r. lia.
Qed.

Lemma digits_spec : forall n, 0 <= n ->
  Forall Digit (digits n) /\ digits n <> [] /\ fold_left dstep (digits n) 0 = n.
Proof.
  intros n Hn. unfold digits.
  assert (Hl : 0 <= Z.log2 n) by apply Z.log2_nonneg.
  assert (Hb : 0 <= n < 2 ^ Z.of_nat (S (Z.to_nat (Z.log2 n)))).
  { rewrite Nat2Z.inj_succ. rewrite Z2Nat.id by exact Hl. split; [exact Hn|].
    destruct (Z.eq_dec n 0) as [->|Hz]; [reflexivity|].
    apply Z.log2_spec. lia. }
  destruct (digits_aux_spec (S (Z.to_nat (Z.log2 n))) n (Nat.neq_succ_0 _) Hb) as [H1 [H2 H3]].
  split; [exact H1|]. split; [exact H2|]. destruct (H3 0) as [L [_ HE]]. rewrite HE. lia.
Qed.

Lemma not_space_ascii : forall c, 45 <= c <= 57 -> Spec.is_space c = false.
Proof.
  intros c H. unfold Spec.is_space, Spec.zmem. simpl existsb.
  repeat match goal with |- context [Z.eqb c ?k] => replace (Z.eqb c k) with false by (symmetry; apply Z.eqb_neq; lia) end.
  replace (8192 <=? c) with false by (symmetry; apply Z.leb_gt; lia). reflexivity.
Qed.

Lemma dec_chars : forall n, Forall (fun c => 45 <= c <= 57) (dec_of_Z n) /\ dec_of_Z n <> [].
Proof.
  intro n. unfold dec_of_Z. destruct (Z.ltb_spec n 0) as [H|H].
  - destruct (digits_spec (- n)) as [H1 [H2 _]]; [lia|]. split; [|discriminate].
    constructor; [unfold c_minus; lia|]. eapply Forall_impl; [|exact H1]. unfold Digit. intros; lia.
  - destruct (digits_spec n H) as [H1 [H2 _]]. split; [|exact H2].
    eapply Forall_impl; [|exact H1]. unfold Digit. intros; lia.
Qed.

Lemma dec_good_word : forall n, good_word (dec_of_Z n).
Proof.
  intro n. destruct (dec_chars n) as [H1 H2]. split; [exact H2|]. unfold NonSp.
  eapply Forall_impl; [|exact H1]. intros c Hc. apply not_space_ascii. exact Hc.
Qed.

Lemma norm_ws_word : forall w, good_word w -> norm_ws w = w.
Proof.
  intros w H. rewrite norm_ws_eq.
  assert (E : Spec.split_ws w = [w]).
  { pose proof (split_join [w]) as S. simpl in S. apply S. constructor; [exact H | constructor]. }
  rewrite E. reflexivity.
Qed.

Lemma lstrip_nonsp : forall w, NonSp w -> lstrip_by py_is_space w = w.
Proof.
  intros [|c w] H; [reflexivity|]. inversion H as [|c' w' Hc Hw E]. subst. simpl.
  unfold py_is_space. rewrite Hc. reflexivity.
Qed.
Lemma py_strip_word : forall w, NonSp w -> py_strip w = w.
Proof.
  intros w H. unfold py_strip, rstrip_by. rewrite (lstrip_nonsp w H).
  rewrite lstrip_nonsp by (apply Forall_rev; exact H). apply rev_involutive.
Qed.

(* int(str(n)) = n *)
Lemma parse_int_dec : forall n, parse_int (dec_of_Z n) = Some n.
Proof.
  intro n. unfold parse_int. rewrite py_strip_word by (apply dec_good_word).
  unfold dec_of_Z. destruct (Z.ltb_spec n 0) as [H|H].
  - rewrite Z.eqb_refl. destruct (digits_spec (- n)) as [H1 [H2 H3]]; [lia|].
    rewrite parse_digits_digits by (try exact H1; left; exact H2). rewrite H3. simpl. f_equal. lia.
  - destruct (digits_spec n H) as [H1 [H2 H3]].
    destruct (digits n) as [|c r] eqn:E; [contradiction|].
    pose proof (Forall_inv H1) as Hc. unfold Digit in Hc.
    replace (c =? c_minus) with false by (symmetry; apply Z.eqb_neq; unfold c_minus; lia).
    replace (c =? c_plus) with false by (symmetry; apply Z.eqb_neq; unfold c_plus; lia).
    rewrite parse_digits_digits by (try exact H1; left; discriminate). rewrite H3. reflexivity.
Qed.

(* ---------------- Count ---------------- *)
Definition mk_count (m : val) (n : Z) : val := VDict [(s_ "meta", m); (s_ "value", VInt n)].
Definition xml_count (m : val) (n : Z) : xml := Elem (s_ "Count") (md_of m) (VStr (dec_of_Z n)) [] None.
Definition nf_count (d : val) : bool :=
  let m := vget d (s_ "meta") in
  let n := match vget d (s_ "value") with VInt n => n | _ => 0 end in
  val_eqb d (mk_count m n) && nf_meta m.
Example nf_count_ex : nf_count (mk_count VNone 42) = true.
Proof. vm_compute. reflexivity. Qed.

Lemma nf_count_inv : forall d, nf_count d = true -> exists m n, d = mk_count m n /\ nf_meta m = true.
Proof.
  intros d H. unfold nf_count in H. cbv zeta in H. apply andb_true_iff in H. destruct H as [H1 H2].
  apply val_eqb_eq in H1. eauto.
Qed.

Lemma build_count_mk : forall m n, nf_meta m = true -> _build_count (mk_count m n) = Ok (xml_count m n).
Proof.
  intros m n Hm. unfold _build_count, mk_count, xml_count.
  rewrite py_get_dict; rewrite !vget_cons; keys; cbv iota; cbn [bind].
  rewrite (meta_dict_nf m Hm); cbn [bind].
  rewrite py_item_dict by reflexivity. rewrite !vget_cons; keys; cbv iota; cbn [bind py_str]. reflexivity.
Qed.

Lemma load_count : forall version m n, supported version = true -> nf_meta m = true ->
  (do p <- parse_elem version (expat_view version (xml_count m n)); validate_count p) = Ok (mk_count m n).
Proof.
  intros version m n Hv Hm. unfold xml_count. rewrite view_leaf'. rewrite parse_leaf.
  rewrite <- (app_nil_r (md_of m)). rewrite <- (app_nil_l (md_of m ++ [])).
  rewrite start_attrs_view; [| reflexivity | reflexivity | exact Hm | not_meta_elem | reflexivity].
  unfold is_cdata_elem. rewrite (in_elems_10 version _ Hv) by reflexivity.
  pose proof (norm_ws_word _ (dec_good_word n)) as Ht. pose proof (parse_int_dec n) as Hp.
  cbn [val_str]. generalize dependent (dec_of_Z n). intros t Ht Hp.
  match goal with
  | |- bind (Ok (finish ?D ?T)) _ = _ =>
      assert (Hf : finish D T = VDict [(s_ "meta", m); (s_ "text", VStr T)]) by (finish_leaf Ht);
      rewrite Hf
  end.
  cbn [bind]. unfold validate_count. rewrite assert_in_present by reflexivity. cbn [bind].
  rewrite py_item_dict by reflexivity. rewrite !vget_cons. keys. cbv iota. cbn [bind py_int].
  rewrite Hp. reflexivity.
Qed.

Theorem count_roundtrip : forall version d x, supported version = true -> nf_count d = true ->
  _build_count d = Ok x ->
  (do p <- parse_elem version (expat_view version x); validate_count p) = Ok d.
Proof.
  intros version d x Hv Hn Hb. destruct (nf_count_inv d Hn) as [m [n [-> Hm]]].
  rewrite (build_count_mk _ _ Hm) in Hb. injection Hb as <-. apply load_count; assumption.
Qed.

(* ====================================================================== *)
(* 7. Children: groups of list elements                                   *)
(* ====================================================================== *)

(* a non-empty list of children is stored under its key; an empty one leaves no key *)
Definition optl (k : str) (l : list val) : list (str * val) :=
  match l with [] => [] | _ => [(k, VList l)] end.

Lemma parse_kids_app : forall version a b parent,
  parse_kids version (a ++ b) parent = do p <- parse_kids version a parent; parse_kids version b p.
Proof.
  intros version a. induction a as [|c r IH]; intros b parent.
  - reflexivity.
  - cbn [app parse_kids]. destruct (attach_check version parent (xname c)) as [u|e]; [|reflexivity].
    cbn [bind]. destruct (parse_elem version c) as [cd|e]; [|reflexivity]. cbn [bind]. apply IH.
Qed.

Definition parsed_as (version tag : str) (x : xtree) (c : val) : Prop :=
  xname x = tag /\ parse_elem version x = Ok c.

Lemma parse_kids_group_acc : forall version tag k xs cs l acc,
  is_list_elem version tag = true -> assoc tag (elems_of version) = Some k ->
  has_key k l = false -> Forall2 (parsed_as version tag) xs cs ->
  parse_kids version xs (VDict (l ++ [(k, VList acc)])) = Ok (VDict (l ++ [(k, VList (acc ++ cs))])).
Proof.
  intros version tag k xs cs l acc Hl Hk Hh H. revert acc.
  induction H as [|x c xs cs [Hn Hp] Hr IH]; intro acc.
  - rewrite app_nil_r. reflexivity.
  - cbn [parse_kids]. rewrite Hn.
    assert (Hg : vget (VDict (l ++ [(k, VList acc)])) k = VList acc).
    { rewrite vget_app. rewrite Hh. rewrite vget_cons. rewrite str_eqb_refl. reflexivity. }
    assert (Hc : attach_check version (VDict (l ++ [(k, VList acc)])) tag = Ok tt).
    { unfold attach_check. rewrite Hl, Hk. rewrite vhas_dict. rewrite has_key_app. rewrite Hh.
      rewrite has_key_cons. rewrite str_eqb_refl. cbn [orb]. rewrite Hg. reflexivity. }
    rewrite Hc. cbn [bind]. rewrite Hp. cbn [bind].
    assert (Ha : attach version (VDict (l ++ [(k, VList acc)])) tag c
                 = VDict (l ++ [(k, VList (acc ++ [c]))])).
    { unfold attach. rewrite Hk, Hl. rewrite Hg. unfold vset. rewrite vset_list_app. rewrite Hh.
      rewrite vset_list_cons. rewrite str_eqb_refl. reflexivity. }
    rewrite Ha. rewrite IH. rewrite <- app_assoc. reflexivity.
Qed.

Lemma parse_kids_group : forall version tag k xs cs l,
  is_list_elem version tag = true -> assoc tag (elems_of version) = Some k ->
  has_key k l = false -> Forall2 (parsed_as version tag) xs cs ->
  parse_kids version xs (VDict l) = Ok (VDict (l ++ optl k cs)).
Proof.
  intros version tag k xs cs l Hl Hk Hh H. destruct H as [|x c xs cs [Hn Hp] Hr].
  - rewrite app_nil_r. reflexivity.
  - cbn [parse_kids]. rewrite Hn.
    assert (Hc : attach_check version (VDict l) tag = Ok tt).
    { unfold attach_check. rewrite Hl, Hk. rewrite vhas_dict. rewrite Hh. reflexivity. }
    rewrite Hc. cbn [bind]. rewrite Hp. cbn [bind].
    assert (Ha : attach version (VDict l) tag c = VDict (l ++ [(k, VList [c])])).
    { unfold attach. rewrite Hk, Hl. rewrite (vget_absent l k Hh). unfold vset.
      rewrite vset_list_new by exact Hh. reflexivity. }
    rewrite Ha. rewrite (parse_kids_group_acc version tag k xs cs l [c] Hl Hk Hh Hr). reflexivity.
Qed.

(* a single (non-list) child *)
Lemma parse_kids_single : forall version tag k x c l,
  is_list_elem version tag = false -> assoc tag (elems_of version) = Some k ->
  has_key k l = false -> parsed_as version tag x c ->
  parse_kids version [x] (VDict l) = Ok (VDict (l ++ [(k, c)])).
Proof.
  intros version tag k x c l Hl Hk Hh [Hn Hp]. cbn [parse_kids]. rewrite Hn.
  unfold attach_check. rewrite Hl, Hk. rewrite vhas_dict. rewrite Hh. cbn [bind]. rewrite Hp. cbn [bind].
  unfold attach. rewrite Hk, Hl. unfold vset. rewrite vset_list_new by exact Hh. reflexivity.
Qed.

Lemma mapM_Forall2 : forall {T U} (f : T -> result U) ps ds,
  Forall2 (fun p d => f p = Ok d) ps ds -> mapM f ps = Ok ds.
Proof.
  intros T U f ps ds H. induction H as [|p d ps ds Hp Hr IH]; [reflexivity|].
  cbn [mapM]. rewrite Hp. cbn [bind]. rewrite IH. reflexivity.
Qed.

(* F(d.get(k, [])) with the items updated in place, on a dictionary given by segments *)
Lemma upd_list_present : forall pre k ps post F ds,
  has_key k pre = false -> F ps = Ok ds ->
  upd_list (VDict (pre ++ (k, VList ps) :: post)) k F = Ok (VDict (pre ++ (k, VList ds) :: post)).
Proof.
  intros pre k ps post F ds Hh HF. unfold upd_list, py_get_d.
  assert (Hv : vhas (VDict (pre ++ (k, VList ps) :: post)) k = true).
  { rewrite vhas_dict. rewrite has_key_app. rewrite has_key_cons. rewrite str_eqb_refl. apply orb_true_r. }
  assert (Hg : vget (VDict (pre ++ (k, VList ps) :: post)) k = VList ps).
  { rewrite vget_app. rewrite Hh. rewrite vget_cons. rewrite str_eqb_refl. reflexivity. }
  rewrite Hv, Hg. cbn [bind py_iter]. rewrite HF. cbn [bind]. rewrite ?Hv.
  unfold vset. rewrite vset_list_app. rewrite Hh. rewrite vset_list_cons. rewrite str_eqb_refl. reflexivity.
Qed.
Lemma upd_list_absent : forall l k F, has_key k l = false -> F [] = Ok [] ->
  upd_list (VDict l) k F = Ok (VDict l).
Proof.
  intros l k F Hh HF. unfold upd_list, py_get_d. rewrite vhas_dict. rewrite Hh.
  cbn [bind py_iter]. rewrite HF. cbn [bind]. rewrite ?vhas_dict. rewrite ?Hh. reflexivity.
Qed.
(* both cases at once for an optional list segment *)
Lemma upd_list_optl : forall pre k ps post F ds,
  has_key k pre = false -> has_key k post = false -> F ps = Ok ds -> F [] = Ok [] ->
  length ps = length ds ->
  upd_list (VDict (pre ++ optl k ps ++ post)) k F = Ok (VDict (pre ++ optl k ds ++ post)).
Proof.
  intros pre k ps post F ds H1 H2 HF H0 Hlen. destruct ps as [|p ps]; destruct ds as [|d ds]; try discriminate.
  - cbn [optl app]. apply upd_list_absent; [|exact H0]. rewrite has_key_app. rewrite H1, H2. reflexivity.
  - cbn [optl app]. apply upd_list_present; assumption.
Qed.

Lemma Forall2_length' : forall {A B} (R : A -> B -> Prop) l l', Forall2 R l l' -> length l = length l'.
Proof. intros A B R l l' H. induction H; [reflexivity | simpl; f_equal; assumption]. Qed.

(* ---- the view of an indented element ---- *)
Definition iview (version : str) (level : nat) (x : xml) : xtree := expat_view version (indent x level).

Lemma view_set_tail : forall version e t, expat_view version (set_tail e t) = expat_view version e.
Proof. intros version [tag a tx cs tl] t. reflexivity. Qed.

Definition indent_go (level : nat) : list xml -> list xml :=
  fix go (l : list xml) : list xml :=
    match l with
    | [] => []
    | c :: r =>
        match r with
        | [] => [set_tail (indent c (S level)) (c_nl :: spaces (2 * level))]
        | _ :: _ => set_tail (indent c (S level)) ((c_nl :: spaces (2 * level)) ++ spaces 2) :: go r
        end
    end.

Lemma indent_nonempty : forall tag a text cs tail level, cs <> [] ->
  indent (Elem tag a text cs tail) level
  = Elem tag a (if text_blank text then VStr ((c_nl :: spaces (2 * level)) ++ spaces 2) else text)
         (indent_go level cs) tail.
Proof. intros tag a text cs tail level H. destruct cs; [contradiction | reflexivity]. Qed.

Lemma indent_go_view : forall version level l,
  map (expat_view version) (indent_go level l)
  = map (fun c => expat_view version (indent c (S level))) l.
Proof.
  intros version level l. induction l as [|c r IH]; [reflexivity|].
  destruct r as [|c' r'].
  - cbn [indent_go map]. rewrite view_set_tail. reflexivity.
  - change (indent_go level (c :: c' :: r'))
      with (set_tail (indent c (S level)) ((c_nl :: spaces (2 * level)) ++ spaces 2)
            :: indent_go level (c' :: r')).
    rewrite map_cons. rewrite view_set_tail. rewrite IH. reflexivity.
Qed.

Lemma iview_node : forall version level tag a text cs tail,
  exists T, iview version level (Elem tag a text cs tail)
            = XNode tag (expat_attrs version a) T (map (iview version (S level)) cs).
Proof.
  intros version level tag a text cs tail. unfold iview. destruct cs as [|c0 cs0].
  - eexists. reflexivity.
  - rewrite indent_nonempty by discriminate. eexists. cbn [expat_view]. f_equal.
    apply indent_go_view.
Qed.

Lemma iview_leaf : forall version level tag a text tail,
  iview version level (Elem tag a text [] tail) = expat_view version (Elem tag a text [] tail).
Proof. reflexivity. Qed.

Lemma iview_name : forall version level x, xname (iview version level x) = xtag x.
Proof.
  intros version level [tag a tx cs tl]. destruct (iview_node version level tag a tx cs tl) as [T E].
  rewrite E. reflexivity.
Qed.

(* ====================================================================== *)
(* 8. Packaged leaf results, lists of children                            *)
(* ====================================================================== *)

(* d is written as x, x is read as p, p is validated into d *)
Definition roundtrips (version : str) (level : nat) (tag : str)
           (build : val -> result xml) (validate : val -> result val) (d : val) : Prop :=
  exists x p, build d = Ok x /\ parsed_as version tag (iview version level x) p /\ validate p = Ok d.

Lemma pack_list : forall version level tag build validate ds,
  Forall (roundtrips version level tag build validate) ds ->
  exists xs ps, mapM build ds = Ok xs
                /\ Forall2 (parsed_as version tag) (map (iview version level) xs) ps
                /\ Forall2 (fun p d => validate p = Ok d) ps ds.
Proof.
  intros version level tag build validate ds H. induction H as [|d ds [x [p [Hb [Hp Hv]]]] Hr IH].
  - exists [], []. repeat split; constructor.
  - destruct IH as [xs [ps [Hm [H1 H2]]]]. exists (x :: xs), (p :: ps). repeat split.
    + cbn [mapM]. rewrite Hb. cbn [bind]. rewrite Hm. reflexivity.
    + constructor; assumption.
    + constructor; assumption.
Qed.

Lemma forallb_Forall : forall {A} (f : A -> bool) (P : A -> Prop) l,
  (forall x, f x = true -> P x) -> forallb f l = true -> Forall P l.
Proof.
  intros A f P l H Hl. rewrite forallb_forall in Hl. apply Forall_forall. intros x Hx.
  apply H. apply Hl. exact Hx.
Qed.

Lemma tag_pack : forall version level d, supported version = true -> nf_tag d = true ->
  roundtrips version level (s_ "Tag") _build_tag validate_tag d.
Proof.
  intros version level d Hv Hn. destruct (nf_tag_inv d Hn) as [c [t [-> Ht]]].
  pose proof (load_tag version c t Hv Ht) as HL. apply bind_ok in HL. destruct HL as [p [Hp Hval]].
  exists (xml_tag c t), p. split; [apply build_tag_mk|]. split; [|exact Hval].
  split; [reflexivity | exact Hp].
Qed.

Lemma pron_pack : forall version level d, v11 version = true -> nf_pron d = true ->
  roundtrips version level (s_ "Pronunciation") _build_pronunciation validate_pron d.
Proof.
  intros version level d Hv Hn. destruct (nf_pron_inv d Hn) as [va [no [ph [au [t [-> Hok]]]]]].
  pose proof (load_pron version va no ph au t Hv Hok) as HL. apply bind_ok in HL.
  destruct HL as [p [Hp Hval]].
  exists (xml_pron va no ph au t), p. split; [apply build_pron_mk; exact Hok|]. split; [|exact Hval].
  split; [reflexivity | exact Hp].
Qed.

(* ---- lookups in  pre ++ rest  when the key is not in rest ---- *)
Lemma vget_app_l : forall pre rest k, has_key k rest = false ->
  vget (VDict (pre ++ rest)) k = vget (VDict pre) k.
Proof.
  intros pre rest k H. rewrite vget_app. destruct (has_key k pre) eqn:E; [reflexivity|].
  rewrite (vget_absent rest k H). rewrite (vget_absent pre k E). reflexivity.
Qed.
Lemma has_key_optl : forall k k' l, str_eqb k' k = false -> has_key k (optl k' l) = false.
Proof. intros k k' [|x l] H; [reflexivity|]. cbn [optl]. rewrite has_key_cons. rewrite H. reflexivity. Qed.
Lemma for_get_optl : forall pre k l post, has_key k pre = false -> has_key k post = false ->
  for_get (VDict (pre ++ optl k l ++ post)) k = Ok l.
Proof.
  intros pre k l post H1 H2. unfold for_get, py_get_d. rewrite vhas_dict. rewrite !has_key_app.
  rewrite H1, H2. rewrite vget_app. rewrite H1. destruct l as [|x l].
  - cbn [optl has_key existsb orb app]. rewrite ?H2. cbn [orb]. rewrite ?H2. reflexivity.
  - cbn [optl]. rewrite has_key_cons. rewrite str_eqb_refl. cbn [orb bind].
    rewrite <- app_comm_cons. rewrite vget_cons. rewrite str_eqb_refl. reflexivity.
Qed.

(* ====================================================================== *)
(* 9. Lemma / ExternalLemma / Form / ExternalForm                         *)
(* ====================================================================== *)
Definition k_prons : str := s_ "pronunciations".
Definition k_tags : str := s_ "tags".
Definition form_kids (prons tags : list val) : list (str * val) := optl k_prons prons ++ optl k_tags tags.

Lemma has_key_form_kids : forall k prons tags,
  str_eqb k_prons k = false -> str_eqb k_tags k = false -> has_key k (form_kids prons tags) = false.
Proof.
  intros k prons tags H1 H2. unfold form_kids. rewrite has_key_app.
  rewrite (has_key_optl k k_prons prons H1). rewrite (has_key_optl k k_tags tags H2). reflexivity.
Qed.

(* the children part of _build_lemma / _build_form *)
Lemma form_children_mk : forall pre prons tags v xps xts,
  has_key k_prons pre = false -> has_key k_tags pre = false ->
  mapM _build_pronunciation prons = Ok xps -> mapM _build_tag tags = Ok xts ->
  (ge_1_1 v = true \/ prons = []) ->
  form_children (VDict (pre ++ form_kids prons tags)) v = Ok (xps ++ xts).
Proof.
  intros pre prons tags v xps xts H1 H2 Hp Ht Hg. unfold form_children, form_kids.
  assert (Ep : for_get (VDict (pre ++ optl k_prons prons ++ optl k_tags tags)) k_prons = Ok prons).
  { apply for_get_optl; [exact H1 | apply has_key_optl; reflexivity]. }
  assert (Et : for_get (VDict (pre ++ optl k_prons prons ++ optl k_tags tags)) k_tags = Ok tags).
  { rewrite app_assoc. rewrite <- (app_nil_r (optl k_tags tags)).
    apply for_get_optl; [|reflexivity]. rewrite has_key_app. rewrite H2.
    apply has_key_optl. reflexivity. }
  fold k_prons. fold k_tags. rewrite Et. cbn [bind]. rewrite Ht. cbn [bind].
  destruct (ge_1_1 v) eqn:E.
  - rewrite Ep. cbn [bind]. rewrite Hp. reflexivity.
  - destruct Hg as [Hg|Hg]; [discriminate|]. subst prons. cbn [mapM] in Hp. injection Hp as <-. reflexivity.
Qed.

Lemma in_elems_form : forall version n, supported version = true ->
  str_mem n (map s_ ["Lemma"; "Form"; "Tag"]%string) = true ->
  is_cdata_elem version n = str_mem n cdata_elems /\ in_elems version n = true.
Proof.
  intros version n Hv Hn. assert (H : in_elems version n = true).
  { apply in_elems_10; [exact Hv|]. apply str_mem_In in Hn. apply str_mem_In. simpl in Hn |- *.
    destruct Hn as [<-|[<-|[<-|[]]]]; auto 20. }
  split; [|exact H]. unfold is_cdata_elem. rewrite H. apply andb_true_r.
Qed.

Lemma list_elem_tag : forall version, supported version = true ->
  is_list_elem version (s_ "Tag") = true /\ assoc (s_ "Tag") (elems_of version) = Some k_tags.
Proof. intros version H. unfold supported in H. versions H; split; vm_compute; reflexivity. Qed.
Lemma list_elem_pron : forall version, v11 version = true ->
  is_list_elem version (s_ "Pronunciation") = true
  /\ assoc (s_ "Pronunciation") (elems_of version) = Some k_prons.
Proof.
  intros version H. unfold v11, supported in H. apply andb_true_iff in H. destruct H as [H H0].
  versions H; try discriminate; split; vm_compute; reflexivity.
Qed.

(* the reader on a form-like element: attributes A (giving the dictionary D0),
   then Pronunciation children, then Tag children *)
Lemma parse_formlike : forall version level tag A D0 xprons xtags pps pts,
  supported version = true ->
  start_attrs version tag (expat_attrs version A) = VDict D0 ->
  has_key (s_ "text") D0 = false -> has_key k_prons D0 = false -> has_key k_tags D0 = false ->
  (xprons = [] \/ v11 version = true) ->
  Forall2 (parsed_as version (s_ "Pronunciation")) (map (iview version (S level)) xprons) pps ->
  Forall2 (parsed_as version (s_ "Tag")) (map (iview version (S level)) xtags) pts ->
  parse_elem version (iview version level (Elem tag A VNone (xprons ++ xtags) None))
  = Ok (VDict (D0 ++ form_kids pps pts)).
Proof.
  intros version level tag A D0 xprons xtags pps pts Hv Hs Ht Hkp Hkt Hp11 Hps Hts.
  destruct (iview_node version level tag A VNone (xprons ++ xtags) None) as [T E]. rewrite E.
  rewrite parse_elem_eq. rewrite Hs. rewrite map_app. rewrite parse_kids_app.
  assert (E1 : parse_kids version (map (iview version (S level)) xprons) (VDict D0)
               = Ok (VDict (D0 ++ optl k_prons pps))).
  { destruct Hp11 as [->|H11].
    - inversion Hps. subst. cbn [map parse_kids optl]. rewrite app_nil_r. reflexivity.
    - destruct (list_elem_pron version H11) as [L1 L2].
      apply (parse_kids_group version (s_ "Pronunciation")); assumption. }
  rewrite E1. cbn [bind].
  destruct (list_elem_tag version Hv) as [L1 L2].
  rewrite (parse_kids_group version (s_ "Tag") k_tags _ pts _ L1 L2); [| |exact Hts].
  - cbn [bind]. rewrite <- app_assoc. rewrite finish_notext; [reflexivity|].
    rewrite has_key_app. rewrite Ht. apply has_key_form_kids; reflexivity.
  - rewrite has_key_app. rewrite Hkt. apply has_key_optl. reflexivity.
Qed.

(* _validate_forms on what was read *)
Lemma validate_formlike : forall (extension : bool) D0 pps pts dps dts,
  has_key k_prons D0 = false -> has_key k_tags D0 = false ->
  (if extension then true else negb (vtruthy (vget (VDict D0) (s_ "external")))) = true ->
  (vtruthy (vget (VDict D0) (s_ "external")) || has_key (s_ "writtenForm") D0) = true ->
  Forall2 (fun p d => validate_pron p = Ok d) pps dps ->
  Forall2 (fun p d => validate_tag p = Ok d) pts dts ->
  _validate_form extension (VDict (D0 ++ form_kids pps pts)) = Ok (VDict (D0 ++ form_kids dps dts)).
Proof.
  intros extension D0 pps pts dps dts Hkp Hkt H1 H2 Hps Hts. unfold _validate_form.
  rewrite py_get_dict. cbn [bind].
  rewrite (vget_app_l D0 (form_kids pps pts)) by (apply has_key_form_kids; reflexivity).
  assert (S1 : (if extension then Ok tt else assert (negb (vtruthy (vget (VDict D0) (s_ "external"))))) = Ok tt).
  { destruct extension; [reflexivity|]. rewrite H1. reflexivity. }
  rewrite S1. cbn [bind].
  assert (S2 : (if vtruthy (vget (VDict D0) (s_ "external")) then Ok tt
                else assert_in (s_ "writtenForm") (VDict (D0 ++ form_kids pps pts))) = Ok tt).
  { destruct (vtruthy (vget (VDict D0) (s_ "external"))); [reflexivity|]. cbn [orb] in H2.
    apply assert_in_present. rewrite has_key_app. rewrite H2. reflexivity. }
  rewrite S2. cbn [bind]. unfold form_kids.
  fold k_prons. fold k_tags.
  rewrite (upd_list_optl D0 k_prons pps (optl k_tags pts) _ dps).
  - cbn [bind]. rewrite app_assoc. rewrite <- (app_nil_r (optl k_tags pts)).
    rewrite (upd_list_optl (D0 ++ optl k_prons dps) k_tags pts [] _ dts).
    + rewrite app_nil_r. rewrite <- app_assoc. reflexivity.
    + rewrite has_key_app. rewrite Hkt. apply has_key_optl. reflexivity.
    + reflexivity.
    + unfold each. apply mapM_Forall2. exact Hts.
    + reflexivity.
    + apply (Forall2_length' _ _ _ Hts).
  - exact Hkp.
  - apply has_key_optl. reflexivity.
  - unfold each. apply mapM_Forall2. exact Hps.
  - reflexivity.
  - apply (Forall2_length' _ _ _ Hps).
Qed.

(* ---- accessors on  pre ++ rest  when the key is not in rest ---- *)
Lemma py_get_d_app_l : forall pre rest k dflt, has_key k rest = false ->
  py_get_d (VDict (pre ++ rest)) k dflt = py_get_d (VDict pre) k dflt.
Proof.
  intros pre rest k dflt H. unfold py_get_d. rewrite !vhas_dict. rewrite has_key_app. rewrite H.
  rewrite orb_false_r. rewrite (vget_app_l pre rest k H). reflexivity.
Qed.
Lemma py_get_app_l : forall pre rest k, has_key k rest = false ->
  py_get (VDict (pre ++ rest)) k = py_get (VDict pre) k.
Proof. intros pre rest k H. unfold py_get. rewrite (vget_app_l pre rest k H). reflexivity. Qed.
Lemma py_item_app_l : forall pre rest k, has_key k rest = false ->
  py_item (VDict (pre ++ rest)) k = py_item (VDict pre) k.
Proof.
  intros pre rest k H. unfold py_item. rewrite !vhas_dict. rewrite has_key_app. rewrite H.
  rewrite orb_false_r. rewrite (vget_app_l pre rest k H). reflexivity.
Qed.
Lemma opt_attr_app_l : forall pre rest k a, has_key k rest = false ->
  opt_attr (VDict (pre ++ rest)) k a = opt_attr (VDict pre) k a.
Proof. intros pre rest k a H. unfold opt_attr. rewrite (py_get_app_l pre rest k H). reflexivity. Qed.

(* evaluate the accessors on literal-shaped dictionaries *)
Ltac ev_access :=
  repeat match goal with
         | |- context [py_get_d (VDict ?l) (s_ ?k) ?d] => ev (py_get_d (VDict l) (s_ k) d)
         | |- context [py_get (VDict ?l) (s_ ?k)] => ev (py_get (VDict l) (s_ k))
         | |- context [py_item (VDict ?l) (s_ ?k)] => ev (py_item (VDict l) (s_ k))
         | |- context [opt_attr (VDict ?l) (s_ ?k) ?a] => ev (opt_attr (VDict l) (s_ k) a)
         end.

Definition is_nil {A} (l : list A) : bool := match l with [] => true | _ => false end.

(* the relation between the version string and the builders' version tuple *)
Lemma version_info_ge : forall version v, supported version = true ->
  version_info version = Ok v -> ge_1_1 v = v11 version.
Proof.
  intros version v Hs Hv. unfold supported in Hs. versions Hs; vm_compute in Hv; injection Hv as <-; reflexivity.
Qed.

(* lists of pronunciations and tags that round-trip *)
Lemma prons_pack : forall version level prons, forallb nf_pron prons = true ->
  (v11 version || is_nil prons) = true ->
  Forall (roundtrips version level (s_ "Pronunciation") _build_pronunciation validate_pron) prons.
Proof.
  intros version level prons Hn Hg. destruct (v11 version) eqn:E.
  - apply (forallb_Forall nf_pron); [|exact Hn]. intros d Hd. apply pron_pack; assumption.
  - destruct prons; [constructor | discriminate].
Qed.
Lemma tags_pack : forall version level tags, supported version = true -> forallb nf_tag tags = true ->
  Forall (roundtrips version level (s_ "Tag") _build_tag validate_tag) tags.
Proof.
  intros version level tags Hv Hn. apply (forallb_Forall nf_tag); [|exact Hn].
  intros d Hd. apply tag_pack; assumption.
Qed.
Lemma nil_or_v11 : forall version (prons : list val) (xps : list xml),
  (v11 version || is_nil prons) = true -> length prons = length xps -> xps = [] \/ v11 version = true.
Proof.
  intros version prons xps H Hl. destruct (v11 version); [right; reflexivity|].
  destruct prons; [|discriminate]. destruct xps; [left; reflexivity | discriminate].
Qed.
Lemma mapM_length : forall {T U} (f : T -> result U) l l', mapM f l = Ok l' -> length l = length l'.
Proof.
  intros T U f l. induction l as [|x r IH]; intros l' H.
  - injection H as <-. reflexivity.
  - cbn [mapM] in H. apply bind_ok in H. destruct H as [y [_ H]]. apply bind_ok in H.
    destruct H as [ys [Hys H]]. injection H as <-. simpl. f_equal. apply IH. exact Hys.
Qed.

(* ---------------- Lemma ---------------- *)
Definition lemma_attrs (wf : str) (script : option str) (pos : str) : list (str * val) :=
  [(s_ "writtenForm", VStr wf)] ++ opt_s (s_ "script") script ++ [(s_ "partOfSpeech", VStr pos)].
(* keys writtenForm, script?, partOfSpeech, pronunciations?, tags? *)
Definition mk_lemma (wf : str) (script : option str) (pos : str) (prons tags : list val) : val :=
  VDict (lemma_attrs wf script pos ++ form_kids prons tags).
Definition xml_lemma (wf : str) (script : option str) (pos : str) (xps xts : list xml) : xml :=
  Elem (s_ "Lemma") (lemma_attrs wf script pos) VNone (xps ++ xts) None.
Definition nf_lemma (ge : bool) (d : val) : bool :=
  let wf := val_str (vget d (s_ "writtenForm")) in
  let script := get_opt_str d (s_ "script") in
  let pos := val_str (vget d (s_ "partOfSpeech")) in
  let prons := vlist d k_prons in
  let tags := vlist d k_tags in
  val_eqb d (mk_lemma wf script pos prons tags) && ne_opt script
  && forallb nf_pron prons && forallb nf_tag tags && (ge || is_nil prons).
Example nf_lemma_ex :
  nf_lemma true (mk_lemma (s_ "colour") None (s_ "n")
                   [mk_pron None None true None (s_ "kVl@")] [mk_tag (s_ "c") (s_ "t")]) = true.
Proof. vm_compute. reflexivity. Qed.

Lemma nf_lemma_inv : forall ge d, nf_lemma ge d = true ->
  exists wf script pos prons tags, d = mk_lemma wf script pos prons tags /\ ne_opt script = true
    /\ forallb nf_pron prons = true /\ forallb nf_tag tags = true /\ (ge || is_nil prons) = true.
Proof.
  intros ge d H. unfold nf_lemma in H. cbv zeta in H.
  apply andb_true_iff in H. destruct H as [H H5]. apply andb_true_iff in H. destruct H as [H H4].
  apply andb_true_iff in H. destruct H as [H H3]. apply andb_true_iff in H. destruct H as [H1 H2].
  apply val_eqb_eq in H1. eauto 12.
Qed.

Lemma build_lemma_mk : forall v wf script pos prons tags xps xts, ne_opt script = true ->
  mapM _build_pronunciation prons = Ok xps -> mapM _build_tag tags = Ok xts ->
  (ge_1_1 v = true \/ prons = []) ->
  _build_lemma (mk_lemma wf script pos prons tags) v = Ok (xml_lemma wf script pos xps xts).
Proof.
  intros v wf script pos prons tags xps xts Hs Hp Ht Hg. unfold _build_lemma, mk_lemma, xml_lemma, lemma_attrs.
  rewrite (form_children_mk _ prons tags v xps xts) by (try assumption; destruct script; reflexivity).
  rewrite py_get_d_app_l by (apply has_key_form_kids; reflexivity).
  rewrite !py_item_app_l by (apply has_key_form_kids; reflexivity).
  unfold opt_attr. rewrite !py_get_app_l by (apply has_key_form_kids; reflexivity).
  destruct script as [[|c s]|]; try discriminate; ev_access; reflexivity.
Qed.

Lemma start_attrs_lemma : forall version wf script pos, ne_opt script = true ->
  start_attrs version (s_ "Lemma") (expat_attrs version (lemma_attrs wf script pos))
  = VDict (lemma_attrs wf script pos).
Proof.
  intros version wf script pos Hs. unfold lemma_attrs.
  destruct script as [[|c s]|]; try discriminate;
    (rewrite start_attrs_plain by reflexivity; unfold is_cdata_elem;
     ev (str_mem (s_ "Lemma") cdata_elems); reflexivity).
Qed.

Theorem lemma_roundtrip : forall version v level ext d x,
  supported version = true -> ge_1_1 v = v11 version ->
  nf_lemma (v11 version) d = true -> _build_lemma d v = Ok x ->
  (do p <- parse_elem version (iview version level x); _validate_form ext p) = Ok d.
Proof.
  intros version v level ext d x Hv Hge Hn Hb.
  destruct (nf_lemma_inv _ d Hn) as [wf [script [pos [prons [tags [-> [Hs [Hnp [Hnt Hg]]]]]]]]].
  destruct (pack_list _ _ _ _ _ _ (prons_pack version (S level) prons Hnp Hg)) as [xps [pps [Bp [Pp Vp]]]].
  destruct (pack_list _ _ _ _ _ _ (tags_pack version (S level) tags Hv Hnt)) as [xts [pts [Bt [Pt Vt]]]].
  assert (Hg' : ge_1_1 v = true \/ prons = []).
  { rewrite Hge. destruct (v11 version); [left; reflexivity|]. right. destruct prons; [reflexivity|discriminate]. }
  rewrite (build_lemma_mk v _ _ _ _ _ xps xts Hs Bp Bt Hg') in Hb. injection Hb as <-.
  unfold xml_lemma.
  rewrite (parse_formlike version level _ _ _ xps xts pps pts Hv (start_attrs_lemma version wf script pos Hs));
    try assumption; try (destruct script; reflexivity).
  - cbn [bind]. unfold mk_lemma.
    apply validate_formlike; try assumption; destruct script as [[|c s]|]; try discriminate;
      try reflexivity; destruct ext; reflexivity.
  - apply (nil_or_v11 version prons xps Hg). apply (mapM_length _ _ _ Bp).
Qed.

(* ---------------- ExternalLemma (versions >= 1.1, extensions) ---------------- *)
Definition mk_xlemma (prons tags : list val) : val :=
  VDict ([(s_ "external", VBool true)] ++ form_kids prons tags).
Definition xml_xlemma (xps xts : list xml) : xml := Elem (s_ "ExternalLemma") [] VNone (xps ++ xts) None.
Definition nf_xlemma (d : val) : bool :=
  let prons := vlist d k_prons in
  let tags := vlist d k_tags in
  val_eqb d (mk_xlemma prons tags) && forallb nf_pron prons && forallb nf_tag tags.
Example nf_xlemma_ex : nf_xlemma (mk_xlemma [] [mk_tag (s_ "c") (s_ "t")]) = true.
Proof. vm_compute. reflexivity. Qed.

Lemma nf_xlemma_inv : forall d, nf_xlemma d = true ->
  exists prons tags, d = mk_xlemma prons tags /\ forallb nf_pron prons = true /\ forallb nf_tag tags = true.
Proof.
  intros d H. unfold nf_xlemma in H. cbv zeta in H.
  apply andb_true_iff in H. destruct H as [H H3]. apply andb_true_iff in H. destruct H as [H1 H2].
  apply val_eqb_eq in H1. eauto 10.
Qed.

Lemma build_xlemma_mk : forall v prons tags xps xts,
  mapM _build_pronunciation prons = Ok xps -> mapM _build_tag tags = Ok xts ->
  (ge_1_1 v = true \/ prons = []) ->
  _build_lemma (mk_xlemma prons tags) v = Ok (xml_xlemma xps xts).
Proof.
  intros v prons tags xps xts Hp Ht Hg. unfold _build_lemma, mk_xlemma, xml_xlemma.
  rewrite (form_children_mk _ prons tags v xps xts) by (try assumption; reflexivity).
  rewrite py_get_d_app_l by (apply has_key_form_kids; reflexivity).
  ev_access. reflexivity.
Qed.

Lemma start_attrs_xlemma : forall version,
  start_attrs version (s_ "ExternalLemma") (expat_attrs version [])
  = VDict [(s_ "external", VBool true)].
Proof.
  intro version. rewrite start_attrs_plain by reflexivity. unfold is_cdata_elem.
  ev (str_mem (s_ "ExternalLemma") cdata_elems). reflexivity.
Qed.

Theorem xlemma_roundtrip : forall version v level d x,
  v11 version = true -> ge_1_1 v = true ->
  nf_xlemma d = true -> _build_lemma d v = Ok x ->
  (do p <- parse_elem version (iview version level x); _validate_form true p) = Ok d.
Proof.
  intros version v level d x Hv Hge Hn Hb.
  assert (Hs : supported version = true) by (unfold v11 in Hv; apply andb_true_iff in Hv; apply Hv).
  destruct (nf_xlemma_inv d Hn) as [prons [tags [-> [Hnp Hnt]]]].
  assert (Hg : (v11 version || is_nil prons) = true) by (rewrite Hv; reflexivity).
  destruct (pack_list _ _ _ _ _ _ (prons_pack version (S level) prons Hnp Hg)) as [xps [pps [Bp [Pp Vp]]]].
  destruct (pack_list _ _ _ _ _ _ (tags_pack version (S level) tags Hs Hnt)) as [xts [pts [Bt [Pt Vt]]]].
  rewrite (build_xlemma_mk v _ _ xps xts Bp Bt (or_introl Hge)) in Hb. injection Hb as <-.
  unfold xml_xlemma.
  rewrite (parse_formlike version level _ _ _ xps xts pps pts Hs (start_attrs_xlemma version));
    try assumption; try reflexivity.
  - cbn [bind]. unfold mk_xlemma. apply validate_formlike; try assumption; reflexivity.
  - right. exact Hv.
Qed.

(* ---------------- Form ---------------- *)
Definition form_attrs (id : option str) (wf : str) (script : option str) : list (str * val) :=
  opt_s (s_ "id") id ++ [(s_ "writtenForm", VStr wf)] ++ opt_s (s_ "script") script.
(* keys id? (>= 1.1), writtenForm, script?, pronunciations? (>= 1.1), tags? *)
Definition mk_form (id : option str) (wf : str) (script : option str) (prons tags : list val) : val :=
  VDict (form_attrs id wf script ++ form_kids prons tags).
Definition xml_form (id : option str) (wf : str) (script : option str) (xps xts : list xml) : xml :=
  Elem (s_ "Form") (form_attrs id wf script) VNone (xps ++ xts) None.
Definition is_none_o {A} (o : option A) : bool := match o with None => true | _ => false end.
Definition nf_form (ge : bool) (d : val) : bool :=
  let id := get_opt_str d (s_ "id") in
  let wf := val_str (vget d (s_ "writtenForm")) in
  let script := get_opt_str d (s_ "script") in
  let prons := vlist d k_prons in
  let tags := vlist d k_tags in
  val_eqb d (mk_form id wf script prons tags) && ne_opt id && ne_opt script
  && forallb nf_pron prons && forallb nf_tag tags && (ge || is_nil prons) && (ge || is_none_o id).
Example nf_form_ex :
  nf_form true (mk_form (Some (s_ "f1")) (s_ "colours") None [] [mk_tag (s_ "number") (s_ "pl")]) = true.
Proof. vm_compute. reflexivity. Qed.

Lemma nf_form_inv : forall ge d, nf_form ge d = true ->
  exists id wf script prons tags, d = mk_form id wf script prons tags
    /\ ne_opt id = true /\ ne_opt script = true
    /\ forallb nf_pron prons = true /\ forallb nf_tag tags = true
    /\ (ge || is_nil prons) = true /\ (ge || is_none_o id) = true.
Proof.
  intros ge d H. unfold nf_form in H. cbv zeta in H.
  apply andb_true_iff in H. destruct H as [H H7]. apply andb_true_iff in H. destruct H as [H H6].
  apply andb_true_iff in H. destruct H as [H H5]. apply andb_true_iff in H. destruct H as [H H4].
  apply andb_true_iff in H. destruct H as [H H3]. apply andb_true_iff in H. destruct H as [H1 H2].
  apply val_eqb_eq in H1. eauto 15.
Qed.

Lemma build_form_mk : forall v id wf script prons tags xps xts,
  ne_opt id = true -> ne_opt script = true ->
  mapM _build_pronunciation prons = Ok xps -> mapM _build_tag tags = Ok xts ->
  (ge_1_1 v = true \/ prons = []) -> (ge_1_1 v = true \/ id = None) ->
  _build_form (mk_form id wf script prons tags) v = Ok (xml_form id wf script xps xts).
Proof.
  intros v id wf script prons tags xps xts Hi Hs Hp Ht Hg Hgi.
  unfold _build_form, mk_form, xml_form, form_attrs.
  rewrite (form_children_mk _ prons tags v xps xts) by (try assumption; destruct id; destruct script; reflexivity).
  rewrite py_get_d_app_l by (apply has_key_form_kids; reflexivity).
  rewrite !py_item_app_l by (apply has_key_form_kids; reflexivity).
  unfold opt_attr.
  rewrite (py_get_app_l _ _ (s_ "id")) by (apply has_key_form_kids; reflexivity).
  rewrite (py_get_app_l _ _ (s_ "script")) by (apply has_key_form_kids; reflexivity).
  destruct (ge_1_1 v).
  - destruct id as [[|c1 s1]|]; destruct script as [[|c2 s2]|]; try discriminate; ev_access; reflexivity.
  - destruct Hgi as [Hgi|Hgi]; [discriminate|]. subst id.
    destruct script as [[|c2 s2]|]; try discriminate; ev_access; reflexivity.
Qed.

Lemma start_attrs_form : forall version id wf script, ne_opt id = true -> ne_opt script = true ->
  start_attrs version (s_ "Form") (expat_attrs version (form_attrs id wf script))
  = VDict (form_attrs id wf script).
Proof.
  intros version id wf script Hi Hs. unfold form_attrs.
  destruct id as [[|c1 s1]|]; destruct script as [[|c2 s2]|]; try discriminate;
    (rewrite start_attrs_plain by reflexivity; unfold is_cdata_elem;
     ev (str_mem (s_ "Form") cdata_elems); reflexivity).
Qed.

Theorem form_roundtrip : forall version v level ext d x,
  supported version = true -> ge_1_1 v = v11 version ->
  nf_form (v11 version) d = true -> _build_form d v = Ok x ->
  (do p <- parse_elem version (iview version level x); _validate_form ext p) = Ok d.
Proof.
  intros version v level ext d x Hv Hge Hn Hb.
  destruct (nf_form_inv _ d Hn) as [id [wf [script [prons [tags [-> [Hi [Hs [Hnp [Hnt [Hg Hgi]]]]]]]]]]].
  destruct (pack_list _ _ _ _ _ _ (prons_pack version (S level) prons Hnp Hg)) as [xps [pps [Bp [Pp Vp]]]].
  destruct (pack_list _ _ _ _ _ _ (tags_pack version (S level) tags Hv Hnt)) as [xts [pts [Bt [Pt Vt]]]].
  assert (Hg' : ge_1_1 v = true \/ prons = []).
  { rewrite Hge. destruct (v11 version); [left; reflexivity|]. right. destruct prons; [reflexivity|discriminate]. }
  assert (Hgi' : ge_1_1 v = true \/ id = None).
  { rewrite Hge. destruct (v11 version); [left; reflexivity|]. right. destruct id; [discriminate|reflexivity]. }
  rewrite (build_form_mk v _ _ _ _ _ xps xts Hi Hs Bp Bt Hg' Hgi') in Hb. injection Hb as <-.
  unfold xml_form.
  rewrite (parse_formlike version level _ _ _ xps xts pps pts Hv (start_attrs_form version id wf script Hi Hs));
    try assumption; try (destruct id; destruct script; reflexivity).
  - cbn [bind]. unfold mk_form.
    apply validate_formlike; try assumption;
      destruct id as [[|c1 s1]|]; destruct script as [[|c2 s2]|]; try discriminate;
      try reflexivity; destruct ext; reflexivity.
  - apply (nil_or_v11 version prons xps Hg). apply (mapM_length _ _ _ Bp).
Qed.

(* ---------------- ExternalForm (versions >= 1.1, extensions) ---------------- *)
(* keys id, external, pronunciations?, tags? *)
Definition mk_xform (id : str) (prons tags : list val) : val :=
  VDict ([(s_ "id", VStr id); (s_ "external", VBool true)] ++ form_kids prons tags).
Definition xml_xform (id : str) (xps xts : list xml) : xml :=
  Elem (s_ "ExternalForm") [(s_ "id", VStr id)] VNone (xps ++ xts) None.
Definition nf_xform (d : val) : bool :=
  let id := val_str (vget d (s_ "id")) in
  let prons := vlist d k_prons in
  let tags := vlist d k_tags in
  val_eqb d (mk_xform id prons tags) && negb (is_nil id) && forallb nf_pron prons && forallb nf_tag tags.
Example nf_xform_ex : nf_xform (mk_xform (s_ "f1") [] [mk_tag (s_ "c") (s_ "t")]) = true.
Proof. vm_compute. reflexivity. Qed.

Lemma nf_xform_inv : forall d, nf_xform d = true ->
  exists c s prons tags, d = mk_xform (c :: s) prons tags
    /\ forallb nf_pron prons = true /\ forallb nf_tag tags = true.
Proof.
  intros d H. unfold nf_xform in H. cbv zeta in H.
  apply andb_true_iff in H. destruct H as [H H4]. apply andb_true_iff in H. destruct H as [H H3].
  apply andb_true_iff in H. destruct H as [H1 H2]. apply val_eqb_eq in H1.
  destruct (val_str (vget d (s_ "id"))) as [|c s]; [discriminate|]. eauto 10.
Qed.

Lemma build_xform_mk : forall v c s prons tags xps xts, ge_1_1 v = true ->
  mapM _build_pronunciation prons = Ok xps -> mapM _build_tag tags = Ok xts ->
  _build_form (mk_xform (c :: s) prons tags) v = Ok (xml_xform (c :: s) xps xts).
Proof.
  intros v c s prons tags xps xts Hge Hp Ht. unfold _build_form, mk_xform, xml_xform.
  rewrite (form_children_mk _ prons tags v xps xts) by (try assumption; try reflexivity; left; exact Hge).
  rewrite Hge. rewrite py_get_d_app_l by (apply has_key_form_kids; reflexivity).
  unfold opt_attr. rewrite !py_get_app_l by (apply has_key_form_kids; reflexivity).
  ev_access. reflexivity.
Qed.

Lemma start_attrs_xform : forall version id,
  start_attrs version (s_ "ExternalForm") (expat_attrs version [(s_ "id", VStr id)])
  = VDict [(s_ "id", VStr id); (s_ "external", VBool true)].
Proof.
  intros version id. rewrite start_attrs_plain by reflexivity. unfold is_cdata_elem.
  ev (str_mem (s_ "ExternalForm") cdata_elems). reflexivity.
Qed.

Theorem xform_roundtrip : forall version v level d x,
  v11 version = true -> ge_1_1 v = true ->
  nf_xform d = true -> _build_form d v = Ok x ->
  (do p <- parse_elem version (iview version level x); _validate_form true p) = Ok d.
Proof.
  intros version v level d x Hv Hge Hn Hb.
  assert (Hs : supported version = true) by (unfold v11 in Hv; apply andb_true_iff in Hv; apply Hv).
  destruct (nf_xform_inv d Hn) as [c [s [prons [tags [-> [Hnp Hnt]]]]]].
  assert (Hg : (v11 version || is_nil prons) = true) by (rewrite Hv; reflexivity).
  destruct (pack_list _ _ _ _ _ _ (prons_pack version (S level) prons Hnp Hg)) as [xps [pps [Bp [Pp Vp]]]].
  destruct (pack_list _ _ _ _ _ _ (tags_pack version (S level) tags Hs Hnt)) as [xts [pts [Bt [Pt Vt]]]].
  rewrite (build_xform_mk v c s _ _ xps xts Hge Bp Bt) in Hb. injection Hb as <-.
  unfold xml_xform.
  rewrite (parse_formlike version level _ _ _ xps xts pps pts Hs (start_attrs_xform version (c :: s)));
    try assumption; try reflexivity.
  - cbn [bind]. unfold mk_xform. apply validate_formlike; try assumption; reflexivity.
  - right. exact Hv.
Qed.

(* ====================================================================== *)
(* 10. Groups of children stored under one key (possibly of several tags)  *)
(* ====================================================================== *)
Definition parsed_under (version key : str) (x : xtree) (c : val) : Prop :=
  is_list_elem version (xname x) = true /\ assoc (xname x) (elems_of version) = Some key
  /\ parse_elem version x = Ok c.

Lemma parse_kids_under_acc : forall version k xs cs l acc,
  has_key k l = false -> Forall2 (parsed_under version k) xs cs ->
  parse_kids version xs (VDict (l ++ [(k, VList acc)])) = Ok (VDict (l ++ [(k, VList (acc ++ cs))])).
Proof.
  intros version k xs cs l acc Hh H. revert acc.
  induction H as [|x c xs cs [Hl [Hk Hp]] Hr IH]; intro acc.
  - rewrite app_nil_r. reflexivity.
  - cbn [parse_kids].
    assert (Hg : vget (VDict (l ++ [(k, VList acc)])) k = VList acc).
    { rewrite vget_app. rewrite Hh. rewrite vget_cons. rewrite str_eqb_refl. reflexivity. }
    assert (Hc : attach_check version (VDict (l ++ [(k, VList acc)])) (xname x) = Ok tt).
    { unfold attach_check. rewrite Hl, Hk. rewrite vhas_dict. rewrite has_key_app. rewrite Hh.
      rewrite has_key_cons. rewrite str_eqb_refl. cbn [orb]. rewrite Hg. reflexivity. }
    rewrite Hc. cbn [bind]. rewrite Hp. cbn [bind].
    assert (Ha : attach version (VDict (l ++ [(k, VList acc)])) (xname x) c
                 = VDict (l ++ [(k, VList (acc ++ [c]))])).
    { unfold attach. rewrite Hk, Hl. rewrite Hg. unfold vset. rewrite vset_list_app. rewrite Hh.
      rewrite vset_list_cons. rewrite str_eqb_refl. reflexivity. }
    rewrite Ha. rewrite IH. rewrite <- app_assoc. reflexivity.
Qed.

Lemma parse_kids_under : forall version k xs cs l,
  has_key k l = false -> Forall2 (parsed_under version k) xs cs ->
  parse_kids version xs (VDict l) = Ok (VDict (l ++ optl k cs)).
Proof.
  intros version k xs cs l Hh H. destruct H as [|x c xs cs [Hl [Hk Hp]] Hr].
  - rewrite app_nil_r. reflexivity.
  - cbn [parse_kids].
    assert (Hc : attach_check version (VDict l) (xname x) = Ok tt).
    { unfold attach_check. rewrite Hl, Hk. rewrite vhas_dict. rewrite Hh. reflexivity. }
    rewrite Hc. cbn [bind]. rewrite Hp. cbn [bind].
    assert (Ha : attach version (VDict l) (xname x) c = VDict (l ++ [(k, VList [c])])).
    { unfold attach. rewrite Hk, Hl. rewrite (vget_absent l k Hh). unfold vset.
      rewrite vset_list_new by exact Hh. reflexivity. }
    rewrite Ha. rewrite (parse_kids_under_acc version k xs cs l [c] Hh Hr). reflexivity.
Qed.

Lemma parsed_as_under : forall version tag k x c,
  is_list_elem version tag = true -> assoc tag (elems_of version) = Some k ->
  parsed_as version tag x c -> parsed_under version k x c.
Proof. intros version tag k x c Hl Hk [Hn Hp]. unfold parsed_under. rewrite Hn. auto. Qed.

Definition roundtrips_k (version : str) (level : nat) (key : str)
           (build : val -> result xml) (validate : val -> result val) (d : val) : Prop :=
  exists x p, build d = Ok x /\ parsed_under version key (iview version level x) p /\ validate p = Ok d.

Lemma pack_list_k : forall version level key build validate ds,
  Forall (roundtrips_k version level key build validate) ds ->
  exists xs ps, mapM build ds = Ok xs
                /\ Forall2 (parsed_under version key) (map (iview version level) xs) ps
                /\ Forall2 (fun p d => validate p = Ok d) ps ds.
Proof.
  intros version level key build validate ds H. induction H as [|d ds [x [p [Hb [Hp Hv]]]] Hr IH].
  - exists [], []. repeat split; constructor.
  - destruct IH as [xs [ps [Hm [H1 H2]]]]. exists (x :: xs), (p :: ps). repeat split.
    + cbn [mapM]. rewrite Hb. cbn [bind]. rewrite Hm. reflexivity.
    + constructor; assumption.
    + constructor; assumption.
Qed.

Lemma roundtrips_to_k : forall version level tag key build validate d,
  is_list_elem version tag = true -> assoc tag (elems_of version) = Some key ->
  roundtrips version level tag build validate d -> roundtrips_k version level key build validate d.
Proof.
  intros version level tag key build validate d Hl Hk [x [p [Hb [Hp Hv]]]].
  exists x, p. split; [exact Hb|]. split; [|exact Hv]. apply (parsed_as_under version tag); assumption.
Qed.

(* ---- pure versions of the conversions of _validate, on  pre ++ rest ---- *)
Definition conv_bool_l (l : list (str * val)) (k : str) : list (str * val) :=
  let v := vget (VDict l) k in
  if vtruthy v then vset_list l k (VBool (negb (val_eqb v (VStr (s_ "false"))))) else l.
Lemma vtruthy_has_key : forall l k, vtruthy (vget (VDict l) k) = true -> has_key k l = true.
Proof.
  intros l k H. destruct (has_key k l) eqn:E; [reflexivity|]. rewrite (vget_absent l k E) in H. discriminate.
Qed.
Lemma conv_bool_app : forall pre rest k, has_key k rest = false ->
  conv_bool (VDict (pre ++ rest)) k = Ok (VDict (conv_bool_l pre k ++ rest)).
Proof.
  intros pre rest k H. unfold conv_bool, conv_bool_l. rewrite py_get_dict. cbn [bind].
  rewrite (vget_app_l pre rest k H). cbv zeta. destruct (vtruthy (vget (VDict pre) k)) eqn:E; [|reflexivity].
  unfold vset. rewrite vset_list_app. rewrite (vtruthy_has_key pre k E). reflexivity.
Qed.

Definition conv_split_l (l : list (str * val)) (k : str) (ws : list str) : list (str * val) :=
  match ws with [] => l | _ => vset_list l k (VList (map VStr ws)) end.
(* the attribute written for a list of words *)
Definition words_attr (k : str) (ws : list str) : list (str * val) :=
  match ws with [] => [] | _ => [(k, VStr (join [c_sp] ws))] end.
Definition words_kv (k : str) (ws : list str) : list (str * val) :=
  match ws with [] => [] | _ => [(k, VList (map VStr ws))] end.

Lemma conv_split_app : forall pre rest k ws, has_key k rest = false -> words_ok ws = true ->
  vget (VDict pre) k = match ws with [] => VNone | _ => VStr (join [c_sp] ws) end ->
  conv_split (VDict (pre ++ rest)) k = Ok (VDict (conv_split_l pre k ws ++ rest)).
Proof.
  intros pre rest k ws H Hw Hg. unfold conv_split. rewrite py_get_dict. cbn [bind].
  rewrite (vget_app_l pre rest k H). rewrite Hg. destruct ws as [|w ws].
  - reflexivity.
  - assert (Hw1 : word_ok w = true) by (simpl in Hw; apply andb_true_iff in Hw; apply Hw).
    rewrite (join_nonempty w ws Hw1). rewrite (split_join_words _ Hw).
    unfold conv_split_l, vset. rewrite vset_list_app.
    assert (Hk : has_key k pre = true).
    { apply vtruthy_has_key. rewrite Hg. apply join_nonempty. exact Hw1. }
    rewrite Hk. reflexivity.
Qed.

Lemma setdefault_present : forall l k v, has_key k l = true -> setdefault (VDict l) k v = Ok (VDict l).
Proof. intros l k v H. unfold setdefault. rewrite vhas_dict. rewrite H. reflexivity. Qed.

(* ====================================================================== *)
(* 11. Sense                                                              *)
(* ====================================================================== *)
Definition k_rels : str := s_ "relations".
Definition k_exs : str := s_ "examples".
Definition k_cnts : str := s_ "counts".
Definition sense_kids (rels exs cnts : list val) : list (str * val) :=
  optl k_rels rels ++ optl k_exs exs ++ optl k_cnts cnts.

Lemma has_key_sense_kids : forall k rels exs cnts,
  str_eqb k_rels k = false -> str_eqb k_exs k = false -> str_eqb k_cnts k = false ->
  has_key k (sense_kids rels exs cnts) = false.
Proof.
  intros k rels exs cnts H1 H2 H3. unfold sense_kids. rewrite !has_key_app.
  rewrite (has_key_optl k k_rels rels H1). rewrite (has_key_optl k k_exs exs H2).
  rewrite (has_key_optl k k_cnts cnts H3). reflexivity.
Qed.

Lemma for_get_sense_kids : forall pre rels exs cnts,
  has_key k_rels pre = false -> has_key k_exs pre = false -> has_key k_cnts pre = false ->
  for_get (VDict (pre ++ sense_kids rels exs cnts)) k_rels = Ok rels
  /\ for_get (VDict (pre ++ sense_kids rels exs cnts)) k_exs = Ok exs
  /\ for_get (VDict (pre ++ sense_kids rels exs cnts)) k_cnts = Ok cnts.
Proof.
  intros pre rels exs cnts H1 H2 H3. unfold sense_kids. split; [|split].
  - apply for_get_optl; [exact H1|]. rewrite has_key_app.
    rewrite (has_key_optl k_rels k_exs exs eq_refl). rewrite (has_key_optl k_rels k_cnts cnts eq_refl). reflexivity.
  - rewrite (app_assoc pre). apply for_get_optl.
    + rewrite has_key_app. rewrite H2. apply has_key_optl. reflexivity.
    + apply has_key_optl. reflexivity.
  - rewrite (app_assoc pre). rewrite (app_assoc (pre ++ optl k_rels rels)).
    rewrite <- (app_nil_r (optl k_cnts cnts)). apply for_get_optl; [|reflexivity].
    rewrite !has_key_app. rewrite H3.
    rewrite (has_key_optl k_cnts k_rels rels eq_refl). rewrite (has_key_optl k_cnts k_exs exs eq_refl). reflexivity.
Qed.

Lemma vset_md_post : forall pre m post k v, nf_meta m = true -> has_key k pre = false ->
  str_mem k xml_meta_names = false ->
  vset_list (pre ++ md_of m ++ post) k v = pre ++ md_of m ++ vset_list post k v.
Proof.
  intros pre m post k v Hm Hp Hk. rewrite vset_list_app. rewrite Hp. rewrite vset_list_app.
  rewrite (md_of_has_key m k Hm Hk). reflexivity.
Qed.

(* the attributes of a sense, before (as read) and after validation *)
Definition lex_attr (lex : bool) : list (str * val) :=
  if lex then [] else [(s_ "lexicalized", VStr (s_ "false"))].
Definition lex_kv (lex : bool) : list (str * val) :=
  if lex then [] else [(s_ "lexicalized", VBool false)].
Definition sense_post (lex : bool) (adj : option str) (subcat : list str) : list (str * val) :=
  lex_attr lex ++ opt_s (s_ "adjposition") adj ++ words_attr (s_ "subcat") subcat.
Definition sense_pre (id synset : str) (lex : bool) (adj : option str) (subcat : list str) : list (str * val) :=
  [(s_ "id", VStr id); (s_ "synset", VStr synset)]
  ++ lex_kv lex ++ opt_s (s_ "adjposition") adj ++ words_kv (s_ "subcat") subcat.
(* keys id, synset, lexicalized? (only False), adjposition?, subcat? (>= 1.1), meta,
   relations?, examples?, counts? *)
Definition mk_sense (id synset : str) (lex : bool) (adj : option str) (subcat : list str) (m : val)
           (rels exs cnts : list val) : val :=
  VDict ((sense_pre id synset lex adj subcat ++ [(s_ "meta", m)]) ++ sense_kids rels exs cnts).
Definition xml_sense (id synset : str) (lex : bool) (adj : option str) (subcat : list str) (m : val)
           (xrs xes xcs : list xml) : xml :=
  Elem (s_ "Sense")
       ([(s_ "id", VStr id); (s_ "synset", VStr synset)] ++ md_of m ++ sense_post lex adj subcat)
       VNone (xrs ++ xes ++ xcs) None.
Definition nf_sense (ge : bool) (d : val) : bool :=
  let id := val_str (vget d (s_ "id")) in
  let synset := val_str (vget d (s_ "synset")) in
  let lex := negb (vhas d (s_ "lexicalized")) in
  let adj := get_opt_str d (s_ "adjposition") in
  let subcat := get_words d (s_ "subcat") in
  let m := vget d (s_ "meta") in
  let rels := vlist d k_rels in
  let exs := vlist d k_exs in
  let cnts := vlist d k_cnts in
  val_eqb d (mk_sense id synset lex adj subcat m rels exs cnts)
  && ne_opt adj && words_ok subcat && nf_meta m
  && forallb nf_relation rels && forallb nf_example exs && forallb nf_count cnts
  && (ge || is_nil subcat).
Example nf_sense_ex :
  nf_sense true (mk_sense (s_ "w1-s1") (s_ "ss1") false (Some (s_ "a")) [s_ "f1"; s_ "f2"] VNone
                   [mk_relation (s_ "w2-s1") (s_ "antonym") VNone] [] [mk_count VNone 3]) = true.
Proof. vm_compute. reflexivity. Qed.

Lemma nf_sense_inv : forall ge d, nf_sense ge d = true ->
  exists id synset lex adj subcat m rels exs cnts,
    d = mk_sense id synset lex adj subcat m rels exs cnts
    /\ ne_opt adj = true /\ words_ok subcat = true /\ nf_meta m = true
    /\ forallb nf_relation rels = true /\ forallb nf_example exs = true /\ forallb nf_count cnts = true
    /\ (ge || is_nil subcat) = true.
Proof.
  intros ge d H. unfold nf_sense in H. cbv zeta in H.
  apply andb_true_iff in H. destruct H as [H H8]. apply andb_true_iff in H. destruct H as [H H7].
  apply andb_true_iff in H. destruct H as [H H6]. apply andb_true_iff in H. destruct H as [H H5].
  apply andb_true_iff in H. destruct H as [H H4]. apply andb_true_iff in H. destruct H as [H H3].
  apply andb_true_iff in H. destruct H as [H1 H2]. apply val_eqb_eq in H1.
  do 9 eexists. split; [exact H1|]. auto 10.
Qed.

Lemma build_sense_mk : forall v id synset lex adj subcat m rels exs cnts xrs xes xcs,
  ne_opt adj = true -> words_ok subcat = true -> nf_meta m = true ->
  mapM (fun r => _build_relation r (s_ "SenseRelation")) rels = Ok xrs ->
  mapM _build_example exs = Ok xes -> mapM _build_count cnts = Ok xcs ->
  (ge_1_1 v = true \/ subcat = []) ->
  _build_sense (mk_sense id synset lex adj subcat m rels exs cnts) v
  = Ok (xml_sense id synset lex adj subcat m xrs xes xcs).
Proof.
  intros v id synset lex adj subcat m rels exs cnts xrs xes xcs Ha Hw Hm Hr He Hc Hg.
  unfold _build_sense, mk_sense, xml_sense.
  assert (Hpre : forall k, str_mem k [k_rels; k_exs; k_cnts] = true ->
                 has_key k (sense_pre id synset lex adj subcat ++ [(s_ "meta", m)]) = false).
  { intros k Hk. apply str_mem_In in Hk. simpl in Hk.
    destruct lex; destruct adj; destruct subcat;
      destruct Hk as [<-|[<-|[<-|[]]]]; reflexivity. }
  destruct (for_get_sense_kids _ rels exs cnts (Hpre k_rels eq_refl) (Hpre k_exs eq_refl) (Hpre k_cnts eq_refl))
    as [F1 [F2 F3]].
  fold k_rels. fold k_exs. fold k_cnts. rewrite F1, F2, F3.
  rewrite !py_item_app_l by (apply has_key_sense_kids; reflexivity).
  unfold opt_attr.
  rewrite (py_get_app_l _ _ (s_ "external")) by (apply has_key_sense_kids; reflexivity).
  rewrite (py_get_app_l _ _ (s_ "meta")) by (apply has_key_sense_kids; reflexivity).
  rewrite (py_get_app_l _ _ (s_ "adjposition")) by (apply has_key_sense_kids; reflexivity).
  rewrite (py_get_app_l _ _ (s_ "subcat")) by (apply has_key_sense_kids; reflexivity).
  rewrite py_get_d_app_l by (apply has_key_sense_kids; reflexivity).
  unfold sense_pre, sense_post, lex_kv, lex_attr, words_kv, words_attr.
  destruct (ge_1_1 v) eqn:Eg.
  - destruct lex; destruct adj as [[|c s]|]; try discriminate; destruct subcat as [|w ws];
      try (remember (VList (map VStr (w :: ws))) as sc eqn:Esc);
      ev_access; cbn [bind vtruthy fst snd]; rewrite (meta_dict_nf m Hm); cbn [bind];
      (rewrite dict_update_md by (try exact Hm; reflexivity));
      try (subst sc; cbn [vtruthy map];
           change (VStr w :: map VStr ws) with (map VStr (w :: ws)); rewrite py_join_sp_strs);
      cbn [bind];
      repeat (rewrite vset_md_new by (try exact Hm; reflexivity));
      repeat (rewrite vset_md_post by (try exact Hm; reflexivity));
      rewrite Hr; cbn [bind]; rewrite He; cbn [bind]; rewrite Hc; cbn [bind fst snd];
      cbn [app opt_s]; rewrite ?app_nil_r; reflexivity.
  - destruct Hg as [Hg|Hg]; [discriminate|]. subst subcat.
    destruct lex; destruct adj as [[|c s]|]; try discriminate;
      ev_access; cbn [bind vtruthy fst snd]; rewrite (meta_dict_nf m Hm); cbn [bind];
      (rewrite dict_update_md by (try exact Hm; reflexivity));
      cbn [bind];
      repeat (rewrite vset_md_new by (try exact Hm; reflexivity));
      repeat (rewrite vset_md_post by (try exact Hm; reflexivity));
      rewrite Hr; cbn [bind]; rewrite He; cbn [bind]; rewrite Hc; cbn [bind fst snd];
      cbn [app opt_s]; rewrite ?app_nil_r; reflexivity.
Qed.

(* list elements and their keys *)
Lemma list_elem_10 : forall version tag key, supported version = true ->
  In (tag, key) [(s_ "SenseRelation", k_rels); (s_ "SynsetRelation", k_rels); (s_ "Example", k_exs);
                 (s_ "Count", k_cnts); (s_ "Definition", s_ "definitions"); (s_ "Form", s_ "forms");
                 (s_ "Sense", s_ "senses"); (s_ "LexicalEntry", s_ "entries");
                 (s_ "Synset", s_ "synsets"); (s_ "Lexicon", s_ "lexicons");
                 (s_ "SyntacticBehaviour", s_ "frames")] ->
  is_list_elem version tag = true /\ assoc tag (elems_of version) = Some key.
Proof.
  intros version tag key Hv Hin. unfold supported in Hv. simpl in Hin.
  versions Hv;
    repeat (destruct Hin as [Hin|Hin]; [injection Hin as <- <-; split; vm_compute; reflexivity|]);
    contradiction.
Qed.
Lemma list_elem_11 : forall version tag key, v11 version = true ->
  In (tag, key) [(s_ "ExternalForm", s_ "forms"); (s_ "ExternalSense", s_ "senses");
                 (s_ "ExternalLexicalEntry", s_ "entries"); (s_ "ExternalSynset", s_ "synsets");
                 (s_ "LexiconExtension", s_ "lexicons"); (s_ "Requires", s_ "requires")] ->
  is_list_elem version tag = true /\ assoc tag (elems_of version) = Some key.
Proof.
  intros version tag key Hv Hin. unfold v11, supported in Hv. apply andb_true_iff in Hv.
  destruct Hv as [Hv H0]. simpl in Hin.
  versions Hv; try discriminate;
    repeat (destruct Hin as [Hin|Hin]; [injection Hin as <- <-; split; vm_compute; reflexivity|]);
    contradiction.
Qed.

Lemma parse_senselike : forall version level tag A D0 xrs xes xcs prs pes pcs,
  start_attrs version tag (expat_attrs version A) = VDict D0 ->
  has_key (s_ "text") D0 = false ->
  has_key k_rels D0 = false -> has_key k_exs D0 = false -> has_key k_cnts D0 = false ->
  Forall2 (parsed_under version k_rels) (map (iview version (S level)) xrs) prs ->
  Forall2 (parsed_under version k_exs) (map (iview version (S level)) xes) pes ->
  Forall2 (parsed_under version k_cnts) (map (iview version (S level)) xcs) pcs ->
  parse_elem version (iview version level (Elem tag A VNone (xrs ++ xes ++ xcs) None))
  = Ok (VDict (D0 ++ sense_kids prs pes pcs)).
Proof.
  intros version level tag A D0 xrs xes xcs prs pes pcs Hs Ht H1 H2 H3 P1 P2 P3.
  destruct (iview_node version level tag A VNone (xrs ++ xes ++ xcs) None) as [T E]. rewrite E.
  rewrite parse_elem_eq. rewrite Hs. rewrite !map_app. rewrite parse_kids_app.
  rewrite (parse_kids_under version k_rels _ prs D0 H1 P1). cbn [bind]. rewrite parse_kids_app.
  assert (E2 : has_key k_exs (D0 ++ optl k_rels prs) = false).
  { rewrite has_key_app. rewrite H2. apply has_key_optl. reflexivity. }
  rewrite (parse_kids_under version k_exs _ pes _ E2 P2). cbn [bind].
  assert (E3 : has_key k_cnts ((D0 ++ optl k_rels prs) ++ optl k_exs pes) = false).
  { rewrite !has_key_app. rewrite H3. rewrite (has_key_optl k_cnts k_rels prs eq_refl).
    rewrite (has_key_optl k_cnts k_exs pes eq_refl). reflexivity. }
  rewrite (parse_kids_under version k_cnts _ pcs _ E3 P3). cbn [bind]. unfold sense_kids. rewrite <- !app_assoc. rewrite finish_notext; [reflexivity|].
  rewrite !has_key_app. rewrite Ht.
  rewrite (has_key_optl (s_ "text") k_rels prs eq_refl). rewrite (has_key_optl (s_ "text") k_exs pes eq_refl).
  rewrite (has_key_optl (s_ "text") k_cnts pcs eq_refl). reflexivity.
Qed.

Lemma validate_senselike : forall (extension : bool) P0 ws prs pes pcs drs des dcs,
  has_key k_rels P0 = false -> has_key k_exs P0 = false -> has_key k_cnts P0 = false ->
  has_key (s_ "id") P0 = true ->
  (if extension then true else negb (vtruthy (vget (VDict P0) (s_ "external")))) = true ->
  (vtruthy (vget (VDict P0) (s_ "external")) || (has_key (s_ "synset") P0 && has_key (s_ "meta") P0)) = true ->
  words_ok ws = true ->
  vget (VDict (conv_bool_l P0 (s_ "lexicalized"))) (s_ "subcat")
    = match ws with [] => VNone | _ => VStr (join [c_sp] ws) end ->
  Forall2 (fun p d => validate_relation p = Ok d) prs drs ->
  Forall2 (fun p d => validate_text_meta p = Ok d) pes des ->
  Forall2 (fun p d => validate_count p = Ok d) pcs dcs ->
  _validate_sense extension (VDict (P0 ++ sense_kids prs pes pcs))
  = Ok (VDict (conv_split_l (conv_bool_l P0 (s_ "lexicalized")) (s_ "subcat") ws ++ sense_kids drs des dcs)).
Proof.
  intros extension P0 ws prs pes pcs drs des dcs K1 K2 K3 Hid H1 H2 Hw Hsc V1 V2 V3.
  unfold _validate_sense.
  rewrite assert_in_present by (rewrite has_key_app; rewrite Hid; reflexivity). cbn [bind].
  rewrite py_get_dict. cbn [bind].
  rewrite (vget_app_l P0 (sense_kids prs pes pcs)) by (apply has_key_sense_kids; reflexivity).
  assert (S1 : (if extension then Ok tt else assert (negb (vtruthy (vget (VDict P0) (s_ "external"))))) = Ok tt).
  { destruct extension; [reflexivity|]. rewrite H1. reflexivity. }
  rewrite S1. cbn [bind].
  assert (S2 : (if vtruthy (vget (VDict P0) (s_ "external")) then Ok (VDict (P0 ++ sense_kids prs pes pcs))
                else do_ assert_in (s_ "synset") (VDict (P0 ++ sense_kids prs pes pcs));
                     setdefault (VDict (P0 ++ sense_kids prs pes pcs)) (s_ "meta") VNone)
               = Ok (VDict (P0 ++ sense_kids prs pes pcs))).
  { destruct (vtruthy (vget (VDict P0) (s_ "external"))); [reflexivity|]. cbn [orb] in H2.
    apply andb_true_iff in H2. destruct H2 as [Hs Hm].
    rewrite assert_in_present by (rewrite has_key_app; rewrite Hs; reflexivity). cbn [bind].
    apply setdefault_present. rewrite has_key_app. rewrite Hm. reflexivity. }
  rewrite S2. cbn [bind]. unfold sense_kids. fold k_rels. fold k_exs. fold k_cnts.
  rewrite (upd_list_optl P0 k_rels prs (optl k_exs pes ++ optl k_cnts pcs) _ drs);
    [| exact K1
     | rewrite has_key_app; rewrite (has_key_optl k_rels k_exs pes eq_refl);
       rewrite (has_key_optl k_rels k_cnts pcs eq_refl); reflexivity
     | unfold each; apply mapM_Forall2; exact V1 | reflexivity | apply (Forall2_length' _ _ _ V1)].
  cbn [bind]. rewrite (app_assoc P0).
  rewrite (upd_list_optl (P0 ++ optl k_rels drs) k_exs pes (optl k_cnts pcs) _ des);
    [| rewrite has_key_app; rewrite K2; apply has_key_optl; reflexivity
     | apply has_key_optl; reflexivity
     | unfold each; apply mapM_Forall2; exact V2 | reflexivity | apply (Forall2_length' _ _ _ V2)].
  cbn [bind]. rewrite (app_assoc (P0 ++ optl k_rels drs)). rewrite <- (app_nil_r (optl k_cnts pcs)).
  rewrite (upd_list_optl ((P0 ++ optl k_rels drs) ++ optl k_exs des) k_cnts pcs [] _ dcs);
    [| rewrite !has_key_app; rewrite K3; rewrite (has_key_optl k_cnts k_rels drs eq_refl);
       rewrite (has_key_optl k_cnts k_exs des eq_refl); reflexivity
     | reflexivity
     | unfold each; apply mapM_Forall2; exact V3 | reflexivity | apply (Forall2_length' _ _ _ V3)].
  cbn [bind]. rewrite app_nil_r. rewrite <- !app_assoc.
  fold (sense_kids drs des dcs).
  rewrite conv_bool_app by (apply has_key_sense_kids; reflexivity). cbn [bind].
  apply conv_split_app; [apply has_key_sense_kids; reflexivity | exact Hw | exact Hsc].
Qed.

(* packaged leaf kinds under their keys *)
Lemma relation_pack : forall version level elemtype d, supported version = true ->
  is_rel_tag elemtype = true -> nf_relation d = true ->
  roundtrips_k version level k_rels (fun r => _build_relation r elemtype) validate_relation d.
Proof.
  intros version level elemtype d Hv Ht Hn. destruct (nf_relation_inv d Hn) as [target [relType [m [-> Hm]]]].
  pose proof (load_relation version elemtype target relType m Hv Ht Hm) as HL. apply bind_ok in HL.
  destruct HL as [p [Hp Hval]].
  exists (xml_relation elemtype target relType m), p.
  split; [apply build_relation_mk; exact Hm|]. split; [|exact Hval].
  assert (HL : is_list_elem version elemtype = true /\ assoc elemtype (elems_of version) = Some k_rels).
  { unfold is_rel_tag in Ht. apply orb_true_iff in Ht.
    destruct Ht as [Ht|Ht]; apply str_eqb_true in Ht; subst elemtype;
      apply (list_elem_10 version _ _ Hv); simpl; auto. }
  destruct HL as [L1 L2]. split; [exact L1|]. split; [exact L2 | exact Hp].
Qed.
Lemma example_pack : forall version level d, supported version = true -> nf_example d = true ->
  roundtrips_k version level k_exs _build_example validate_text_meta d.
Proof.
  intros version level d Hv Hn. destruct (nf_example_inv d Hn) as [lang [m [t [-> [Hl [Hm Ht]]]]]].
  pose proof (load_example version lang m t Hv Hl Hm Ht) as HL. apply bind_ok in HL.
  destruct HL as [p [Hp Hval]].
  exists (xml_example lang m t), p. split; [apply build_example_mk; assumption|]. split; [|exact Hval].
  destruct (list_elem_10 version (s_ "Example") k_exs Hv) as [L1 L2]; [simpl; auto|].
  split; [exact L1|]. split; [exact L2 | exact Hp].
Qed.
Lemma count_pack : forall version level d, supported version = true -> nf_count d = true ->
  roundtrips_k version level k_cnts _build_count validate_count d.
Proof.
  intros version level d Hv Hn. destruct (nf_count_inv d Hn) as [m [n [-> Hm]]].
  pose proof (load_count version m n Hv Hm) as HL. apply bind_ok in HL. destruct HL as [p [Hp Hval]].
  exists (xml_count m n), p. split; [apply build_count_mk; assumption|]. split; [|exact Hval].
  destruct (list_elem_10 version (s_ "Count") k_cnts Hv) as [L1 L2]; [simpl; auto 10|].
  split; [exact L1|]. split; [exact L2 | exact Hp].
Qed.

Definition sense_attrs (id synset : str) (lex : bool) (adj : option str) (subcat : list str) (m : val) :=
  [(s_ "id", VStr id); (s_ "synset", VStr synset)] ++ md_of m ++ sense_post lex adj subcat.
(* the attribute dictionary as read (before validation) *)
Definition sense_P0 (id synset : str) (lex : bool) (adj : option str) (subcat : list str) (m : val) :=
  ([(s_ "id", VStr id); (s_ "synset", VStr synset)] ++ sense_post lex adj subcat) ++ [(s_ "meta", m)].

Lemma start_attrs_sense : forall version id synset lex adj subcat m,
  ne_opt adj = true -> nf_meta m = true ->
  start_attrs version (s_ "Sense") (expat_attrs version (sense_attrs id synset lex adj subcat m))
  = VDict (sense_P0 id synset lex adj subcat m).
Proof.
  intros version id synset lex adj subcat m Ha Hm. unfold sense_attrs, sense_P0, sense_post, lex_attr, words_attr.
  destruct lex; destruct adj as [[|c s]|]; try discriminate; destruct subcat as [|w ws];
    (rewrite start_attrs_view; [| reflexivity | reflexivity | exact Hm | not_meta_elem | reflexivity];
     unfold is_cdata_elem; ev (str_mem (s_ "Sense") cdata_elems); reflexivity).
Qed.

Theorem sense_roundtrip : forall version v level ext d x,
  supported version = true -> ge_1_1 v = v11 version ->
  nf_sense (v11 version) d = true -> _build_sense d v = Ok x ->
  (do p <- parse_elem version (iview version level x); _validate_sense ext p) = Ok d.
Proof.
  intros version v level ext d x Hv Hge Hn Hb.
  destruct (nf_sense_inv _ d Hn)
    as [id [synset [lex [adj [subcat [m [rels [exs [cnts [-> [Ha [Hw [Hm [Hnr [Hne [Hnc Hg]]]]]]]]]]]]]]]].
  assert (Fr : Forall (roundtrips_k version (S level) k_rels
                         (fun r => _build_relation r (s_ "SenseRelation")) validate_relation) rels).
  { apply (forallb_Forall nf_relation); [|exact Hnr]. intros r Hr. apply relation_pack; try assumption. reflexivity. }
  assert (Fe : Forall (roundtrips_k version (S level) k_exs _build_example validate_text_meta) exs).
  { apply (forallb_Forall nf_example); [|exact Hne]. intros r Hr. apply example_pack; assumption. }
  assert (Fc : Forall (roundtrips_k version (S level) k_cnts _build_count validate_count) cnts).
  { apply (forallb_Forall nf_count); [|exact Hnc]. intros r Hr. apply count_pack; assumption. }
  destruct (pack_list_k _ _ _ _ _ _ Fr) as [xrs [prs [Br [Pr Vr]]]].
  destruct (pack_list_k _ _ _ _ _ _ Fe) as [xes [pes [Be [Pe Ve]]]].
  destruct (pack_list_k _ _ _ _ _ _ Fc) as [xcs [pcs [Bc [Pc Vc]]]].
  assert (Hg' : ge_1_1 v = true \/ subcat = []).
  { rewrite Hge. destruct (v11 version); [left; reflexivity|]. right. destruct subcat; [reflexivity|discriminate]. }
  rewrite (build_sense_mk v _ _ _ _ _ _ _ _ _ xrs xes xcs Ha Hw Hm Br Be Bc Hg') in Hb. injection Hb as <-.
  unfold xml_sense. fold (sense_attrs id synset lex adj subcat m).
  rewrite (parse_senselike version level _ _ _ xrs xes xcs prs pes pcs
             (start_attrs_sense version id synset lex adj subcat m Ha Hm));
    try assumption; try (destruct lex; destruct adj; destruct subcat; reflexivity).
  cbn [bind].
  rewrite (validate_senselike ext (sense_P0 id synset lex adj subcat m) subcat prs pes pcs rels exs cnts);
    try assumption;
    try (destruct lex; destruct adj as [[|c s]|]; try discriminate; destruct subcat; reflexivity).
  all: destruct lex; destruct adj as [[|c s]|]; try discriminate; destruct subcat; destruct ext; reflexivity.
Qed.

(* ---------------- ExternalSense (versions >= 1.1, extensions) ---------------- *)
(* keys id, external, relations?, examples?, counts? *)
Definition mk_xsense (id : str) (rels exs cnts : list val) : val :=
  VDict ([(s_ "id", VStr id); (s_ "external", VBool true)] ++ sense_kids rels exs cnts).
Definition xml_xsense (id : str) (xrs xes xcs : list xml) : xml :=
  Elem (s_ "ExternalSense") [(s_ "id", VStr id)] VNone (xrs ++ xes ++ xcs) None.
Definition nf_xsense (d : val) : bool :=
  let id := val_str (vget d (s_ "id")) in
  let rels := vlist d k_rels in
  let exs := vlist d k_exs in
  let cnts := vlist d k_cnts in
  val_eqb d (mk_xsense id rels exs cnts)
  && forallb nf_relation rels && forallb nf_example exs && forallb nf_count cnts.
Example nf_xsense_ex : nf_xsense (mk_xsense (s_ "w1-s1") [] [mk_example None VNone (s_ "x")] []) = true.
Proof. vm_compute. reflexivity. Qed.

Lemma nf_xsense_inv : forall d, nf_xsense d = true ->
  exists id rels exs cnts, d = mk_xsense id rels exs cnts
    /\ forallb nf_relation rels = true /\ forallb nf_example exs = true /\ forallb nf_count cnts = true.
Proof.
  intros d H. unfold nf_xsense in H. cbv zeta in H.
  apply andb_true_iff in H. destruct H as [H H4]. apply andb_true_iff in H. destruct H as [H H3].
  apply andb_true_iff in H. destruct H as [H1 H2]. apply val_eqb_eq in H1. eauto 10.
Qed.

Lemma build_xsense_mk : forall v id rels exs cnts xrs xes xcs,
  mapM (fun r => _build_relation r (s_ "SenseRelation")) rels = Ok xrs ->
  mapM _build_example exs = Ok xes -> mapM _build_count cnts = Ok xcs ->
  _build_sense (mk_xsense id rels exs cnts) v = Ok (xml_xsense id xrs xes xcs).
Proof.
  intros v id rels exs cnts xrs xes xcs Hr He Hc. unfold _build_sense, mk_xsense, xml_xsense.
  destruct (for_get_sense_kids [(s_ "id", VStr id); (s_ "external", VBool true)] rels exs cnts
              eq_refl eq_refl eq_refl) as [F1 [F2 F3]].
  fold k_rels. fold k_exs. fold k_cnts. rewrite F1, F2, F3.
  rewrite !py_item_app_l by (apply has_key_sense_kids; reflexivity).
  rewrite (py_get_app_l _ _ (s_ "external")) by (apply has_key_sense_kids; reflexivity).
  ev_access. cbn [bind vtruthy]. rewrite Hr. cbn [bind]. rewrite He. cbn [bind]. rewrite Hc. reflexivity.
Qed.

Lemma start_attrs_xsense : forall version id,
  start_attrs version (s_ "ExternalSense") (expat_attrs version [(s_ "id", VStr id)])
  = VDict [(s_ "id", VStr id); (s_ "external", VBool true)].
Proof.
  intros version id. rewrite start_attrs_plain by reflexivity. unfold is_cdata_elem.
  ev (str_mem (s_ "ExternalSense") cdata_elems). reflexivity.
Qed.

Theorem xsense_roundtrip : forall version v level d x,
  supported version = true -> nf_xsense d = true -> _build_sense d v = Ok x ->
  (do p <- parse_elem version (iview version level x); _validate_sense true p) = Ok d.
Proof.
  intros version v level d x Hv Hn Hb.
  destruct (nf_xsense_inv d Hn) as [id [rels [exs [cnts [-> [Hnr [Hne Hnc]]]]]]].
  assert (Fr : Forall (roundtrips_k version (S level) k_rels
                         (fun r => _build_relation r (s_ "SenseRelation")) validate_relation) rels).
  { apply (forallb_Forall nf_relation); [|exact Hnr]. intros r Hr. apply relation_pack; try assumption. reflexivity. }
  assert (Fe : Forall (roundtrips_k version (S level) k_exs _build_example validate_text_meta) exs).
  { apply (forallb_Forall nf_example); [|exact Hne]. intros r Hr. apply example_pack; assumption. }
  assert (Fc : Forall (roundtrips_k version (S level) k_cnts _build_count validate_count) cnts).
  { apply (forallb_Forall nf_count); [|exact Hnc]. intros r Hr. apply count_pack; assumption. }
  destruct (pack_list_k _ _ _ _ _ _ Fr) as [xrs [prs [Br [Pr Vr]]]].
  destruct (pack_list_k _ _ _ _ _ _ Fe) as [xes [pes [Be [Pe Ve]]]].
  destruct (pack_list_k _ _ _ _ _ _ Fc) as [xcs [pcs [Bc [Pc Vc]]]].
  rewrite (build_xsense_mk v _ _ _ _ xrs xes xcs Br Be Bc) in Hb. injection Hb as <-.
  unfold xml_xsense.
  rewrite (parse_senselike version level _ _ _ xrs xes xcs prs pes pcs (start_attrs_xsense version id));
    try assumption; try reflexivity.
  cbn [bind].
  rewrite (validate_senselike true [(s_ "id", VStr id); (s_ "external", VBool true)] [] prs pes pcs rels exs cnts);
    try assumption; reflexivity.
Qed.

(* ====================================================================== *)
(* 12. Synset / ExternalSynset                                            *)
(* ====================================================================== *)
Ltac peel :=
  repeat match goal with
         | |- bind ?A _ = bind (bind ?A' _) _ => destruct A; cbn [bind]; [|reflexivity]
         end.

(* the xml-returning variant of _dump_synset *)
Definition synset_xml (synset : val) (version : list Z) : result xml :=
  do id <- py_item synset (s_ "id");
  let attrib := [(s_ "id", id)] in
  do ext <- py_get_d synset (s_ "external") (VBool false);
  do head <- (if vtruthy ext then
                do l <- for_get synset (s_ "definitions");
                do defs <- mapM _build_definition l;
                Ok (s_ "ExternalSynset", attrib, defs)
              else
                do ili <- py_item synset (s_ "ili");
                let attrib := vset_list attrib (s_ "ili") ili in
                do attrib <- opt_attr synset (s_ "partOfSpeech") attrib;
                do lexd <- py_get_d synset (s_ "lexicalized") (VBool true);
                let attrib := if vtruthy lexd then attrib
                              else vset_list attrib (s_ "lexicalized") (VStr (s_ "false")) in
                do attrib <- (if ge_1_1 version then
                                do ms <- py_get synset (s_ "members");
                                do attrib <- (if vtruthy ms then
                                                do j <- py_join_sp ms;
                                                Ok (vset_list attrib (s_ "members") (VStr j))
                                              else Ok attrib);
                                opt_attr synset (s_ "lexfile") attrib
                              else Ok attrib);
                do meta <- py_get synset (s_ "meta");
                do md <- _meta_dict meta;
                let attrib := dict_update attrib md in
                do l <- for_get synset (s_ "definitions");
                do defs <- mapM _build_definition l;
                do idef <- py_get synset (s_ "ili_definition");
                do idefs <- (if vtruthy idef
                             then do x <- _build_ili_definition idef; Ok [x]
                             else Ok []);
                Ok (s_ "Synset", attrib, defs ++ idefs));
  do l <- for_get synset (s_ "relations");
  do rels <- mapM (fun r => _build_relation r (s_ "SynsetRelation")) l;
  do l <- for_get synset (s_ "examples");
  do exs <- mapM _build_example l;
  match head with
  | (tag, attrib, kids) => Ok (Elem tag attrib VNone (kids ++ rels ++ exs) None)
  end.

Lemma dump_synset_xml : forall synset version,
  _dump_synset synset version = do x <- synset_xml synset version; print_elem x.
Proof.
  intros synset version. unfold _dump_synset, synset_xml. cbv zeta. peel.
  match goal with |- match ?h with _ => _ end = _ => destruct h as [[tag a] k] end. reflexivity.
Qed.

Definition k_defs : str := s_ "definitions".
Definition k_idef : str := s_ "ili_definition".
Definition synset_kids (defs : list val) (idef : option val) (rels exs : list val) : list (str * val) :=
  optl k_defs defs ++ opt_kv k_idef idef ++ optl k_rels rels ++ optl k_exs exs.

Lemma has_key_synset_kids : forall k defs idef rels exs,
  str_eqb k_defs k = false -> str_eqb k_idef k = false -> str_eqb k_rels k = false ->
  str_eqb k_exs k = false -> has_key k (synset_kids defs idef rels exs) = false.
Proof.
  intros k defs idef rels exs H1 H2 H3 H4. unfold synset_kids. rewrite !has_key_app.
  rewrite (has_key_optl k k_defs defs H1). rewrite has_key_opt. rewrite H2.
  rewrite (has_key_optl k k_rels rels H3). rewrite (has_key_optl k k_exs exs H4).
  destruct idef; reflexivity.
Qed.

Lemma for_get_synset_kids : forall pre defs idef rels exs,
  has_key k_defs pre = false -> has_key k_idef pre = false ->
  has_key k_rels pre = false -> has_key k_exs pre = false ->
  for_get (VDict (pre ++ synset_kids defs idef rels exs)) k_defs = Ok defs
  /\ vget (VDict (pre ++ synset_kids defs idef rels exs)) k_idef
     = match idef with Some d => d | None => VNone end
  /\ for_get (VDict (pre ++ synset_kids defs idef rels exs)) k_rels = Ok rels
  /\ for_get (VDict (pre ++ synset_kids defs idef rels exs)) k_exs = Ok exs.
Proof.
  intros pre defs idef rels exs H1 H2 H3 H4. unfold synset_kids. split; [|split; [|split]].
  - apply for_get_optl; [exact H1|]. rewrite !has_key_app. rewrite has_key_opt.
    rewrite (has_key_optl k_defs k_rels rels eq_refl). rewrite (has_key_optl k_defs k_exs exs eq_refl).
    destruct idef; reflexivity.
  - rewrite vget_app. rewrite H2. rewrite vget_app. rewrite (has_key_optl k_idef k_defs defs eq_refl).
    rewrite vget_app. rewrite has_key_opt. destruct idef as [d|].
    + rewrite str_eqb_refl. cbn [opt_kv]. rewrite vget_cons. rewrite str_eqb_refl. reflexivity.
    + apply vget_absent. rewrite has_key_app.
      rewrite (has_key_optl k_idef k_rels rels eq_refl). rewrite (has_key_optl k_idef k_exs exs eq_refl). reflexivity.
  - rewrite (app_assoc pre). rewrite (app_assoc (pre ++ optl k_defs defs)). apply for_get_optl.
    + rewrite !has_key_app. rewrite H3. rewrite (has_key_optl k_rels k_defs defs eq_refl). rewrite has_key_opt.
      destruct idef; reflexivity.
    + apply has_key_optl. reflexivity.
  - rewrite (app_assoc pre). rewrite (app_assoc (pre ++ optl k_defs defs)).
    rewrite (app_assoc ((pre ++ optl k_defs defs) ++ opt_kv k_idef idef)).
    rewrite <- (app_nil_r (optl k_exs exs)). apply for_get_optl; [|reflexivity].
    rewrite !has_key_app. rewrite H4. rewrite (has_key_optl k_exs k_defs defs eq_refl). rewrite has_key_opt.
    rewrite (has_key_optl k_exs k_rels rels eq_refl). destruct idef; reflexivity.
Qed.

(* the plain attributes of a synset as written / as read, and after validation *)
Definition synset_plain (id ili : str) (pos : option str) (lex : bool) (members : list str)
           (lexfile : option str) : list (str * val) :=
  [(s_ "id", VStr id); (s_ "ili", VStr ili)] ++ opt_s (s_ "partOfSpeech") pos ++ lex_attr lex
  ++ words_attr (s_ "members") members ++ opt_s (s_ "lexfile") lexfile.
Definition synset_pre (id ili : str) (pos : option str) (lex : bool) (members : list str)
           (lexfile : option str) : list (str * val) :=
  [(s_ "id", VStr id); (s_ "ili", VStr ili)] ++ opt_s (s_ "partOfSpeech") pos ++ lex_kv lex
  ++ words_kv (s_ "members") members ++ opt_s (s_ "lexfile") lexfile.
(* keys id, ili, partOfSpeech?, lexicalized? (only False), members? (>= 1.1), lexfile? (>= 1.1),
   meta, definitions?, ili_definition?, relations?, examples? *)
Definition mk_synset (id ili : str) (pos : option str) (lex : bool) (members : list str)
           (lexfile : option str) (m : val) (defs : list val) (idef : option val) (rels exs : list val) : val :=
  VDict ((synset_pre id ili pos lex members lexfile ++ [(s_ "meta", m)]) ++ synset_kids defs idef rels exs).
Definition opt_list {A} (o : option A) : list A := match o with Some x => [x] | None => [] end.
Definition xml_synset (id ili : str) (pos : option str) (lex : bool) (members : list str)
           (lexfile : option str) (m : val) (xds : list xml) (xi : option xml) (xrs xes : list xml) : xml :=
  Elem (s_ "Synset") (synset_plain id ili pos lex members lexfile ++ md_of m) VNone
       ((xds ++ opt_list xi) ++ xrs ++ xes) None.
Definition get_opt_dict (d : val) (k : str) : option val :=
  if vhas d k then Some (vget d k) else None.
Definition nf_opt_ilidef (o : option val) : bool := match o with Some d => nf_ilidef d | None => true end.
Definition nf_synset (ge : bool) (d : val) : bool :=
  let id := val_str (vget d (s_ "id")) in
  let ili := val_str (vget d (s_ "ili")) in
  let pos := get_opt_str d (s_ "partOfSpeech") in
  let lex := negb (vhas d (s_ "lexicalized")) in
  let members := get_words d (s_ "members") in
  let lexfile := get_opt_str d (s_ "lexfile") in
  let m := vget d (s_ "meta") in
  let defs := vlist d k_defs in
  let idef := get_opt_dict d k_idef in
  let rels := vlist d k_rels in
  let exs := vlist d k_exs in
  val_eqb d (mk_synset id ili pos lex members lexfile m defs idef rels exs)
  && ne_opt pos && ne_opt lexfile && words_ok members && nf_meta m
  && forallb nf_definition defs && nf_opt_ilidef idef
  && forallb nf_relation rels && forallb nf_example exs
  && (ge || (is_nil members && is_none_o lexfile)).
Example nf_synset_ex :
  nf_synset true (mk_synset (s_ "ss1") (s_ "i123") (Some (s_ "n")) true [s_ "w1-s1"] None VNone
                    [mk_definition None None VNone (s_ "a thing")] (Some (mk_ilidef VNone (s_ "thing")))
                    [mk_relation (s_ "ss2") (s_ "hypernym") VNone] []) = true.
Proof. vm_compute. reflexivity. Qed.

Lemma nf_synset_inv : forall ge d, nf_synset ge d = true ->
  exists id ili pos lex members lexfile m defs idef rels exs,
    d = mk_synset id ili pos lex members lexfile m defs idef rels exs
    /\ ne_opt pos = true /\ ne_opt lexfile = true /\ words_ok members = true /\ nf_meta m = true
    /\ forallb nf_definition defs = true /\ nf_opt_ilidef idef = true
    /\ forallb nf_relation rels = true /\ forallb nf_example exs = true
    /\ (ge || (is_nil members && is_none_o lexfile)) = true.
Proof.
  intros ge d H. unfold nf_synset in H. cbv zeta in H.
  apply andb_true_iff in H. destruct H as [H H10]. apply andb_true_iff in H. destruct H as [H H9].
  apply andb_true_iff in H. destruct H as [H H8]. apply andb_true_iff in H. destruct H as [H H7].
  apply andb_true_iff in H. destruct H as [H H6]. apply andb_true_iff in H. destruct H as [H H5].
  apply andb_true_iff in H. destruct H as [H H4]. apply andb_true_iff in H. destruct H as [H H3].
  apply andb_true_iff in H. destruct H as [H1 H2]. apply val_eqb_eq in H1.
  do 11 eexists. split; [exact H1|]. auto 12.
Qed.

Definition idef_built (idef : option val) (xi : option xml) : Prop :=
  match idef, xi with
  | Some d, Some x => vtruthy d = true /\ _build_ili_definition d = Ok x
  | None, None => True
  | _, _ => False
  end.

Lemma build_synset_mk : forall v id ili pos lex members lexfile m defs idef rels exs xds xi xrs xes,
  ne_opt pos = true -> ne_opt lexfile = true -> words_ok members = true -> nf_meta m = true ->
  mapM _build_definition defs = Ok xds -> idef_built idef xi ->
  mapM (fun r => _build_relation r (s_ "SynsetRelation")) rels = Ok xrs ->
  mapM _build_example exs = Ok xes ->
  (ge_1_1 v = true \/ (members = [] /\ lexfile = None)) ->
  synset_xml (mk_synset id ili pos lex members lexfile m defs idef rels exs) v
  = Ok (xml_synset id ili pos lex members lexfile m xds xi xrs xes).
Proof.
  intros v id ili pos lex members lexfile m defs idef rels exs xds xi xrs xes Hp Hl Hw Hm Hd Hi Hr He Hg.
  unfold synset_xml, mk_synset, xml_synset.
  assert (Hpre : forall k, str_mem k [k_defs; k_idef; k_rels; k_exs] = true ->
                 has_key k (synset_pre id ili pos lex members lexfile ++ [(s_ "meta", m)]) = false).
  { intros k Hk. apply str_mem_In in Hk. simpl in Hk.
    destruct pos; destruct lex; destruct members; destruct lexfile;
      destruct Hk as [<-|[<-|[<-|[<-|[]]]]]; reflexivity. }
  destruct (for_get_synset_kids _ defs idef rels exs (Hpre k_defs eq_refl) (Hpre k_idef eq_refl)
              (Hpre k_rels eq_refl) (Hpre k_exs eq_refl)) as [F1 [F2 [F3 F4]]].
  fold k_defs. fold k_idef. fold k_rels. fold k_exs. rewrite F1, F3, F4.
  rewrite (py_get_dict _ k_idef). rewrite F2.
  rewrite (py_item_app_l _ _ (s_ "id")) by (apply has_key_synset_kids; reflexivity).
  rewrite (py_item_app_l _ _ (s_ "ili")) by (apply has_key_synset_kids; reflexivity).
  rewrite (py_get_d_app_l _ _ (s_ "external")) by (apply has_key_synset_kids; reflexivity).
  rewrite (py_get_d_app_l _ _ (s_ "lexicalized")) by (apply has_key_synset_kids; reflexivity).
  unfold opt_attr.
  rewrite (py_get_app_l _ _ (s_ "partOfSpeech")) by (apply has_key_synset_kids; reflexivity).
  rewrite (py_get_app_l _ _ (s_ "members")) by (apply has_key_synset_kids; reflexivity).
  rewrite (py_get_app_l _ _ (s_ "lexfile")) by (apply has_key_synset_kids; reflexivity).
  rewrite (py_get_app_l _ _ (s_ "meta")) by (apply has_key_synset_kids; reflexivity).
  unfold synset_pre, synset_plain, lex_kv, lex_attr, words_kv, words_attr.
  assert (Hidef : (if vtruthy match idef with Some d => d | None => VNone end
                   then do x <- _build_ili_definition match idef with Some d => d | None => VNone end; Ok [x]
                   else Ok []) = Ok (opt_list xi)).
  { unfold idef_built in Hi. destruct idef as [d|]; destruct xi as [x|]; try contradiction.
    - destruct Hi as [Ht Hb]. rewrite Ht, Hb. reflexivity.
    - reflexivity. }
  destruct (ge_1_1 v) eqn:Eg.
  - destruct pos as [[|c1 s1]|]; try discriminate; destruct lex; destruct members as [|w ws];
      destruct lexfile as [[|c2 s2]|]; try discriminate;
      try (remember (VList (map VStr (w :: ws))) as sc eqn:Esc);
      ev_access; cbn [bind vtruthy];
      try (subst sc; cbn [vtruthy map];
           change (VStr w :: map VStr ws) with (map VStr (w :: ws)); rewrite py_join_sp_strs);
      cbn [bind vtruthy]; rewrite (meta_dict_nf m Hm); cbn [bind];
      (rewrite dict_update_md by (try exact Hm; reflexivity));
      rewrite Hd; cbn [bind]; rewrite Hidef; cbn [bind]; rewrite Hr; cbn [bind]; rewrite He; cbn [bind];
      reflexivity.
  - destruct Hg as [Hg|[Hg1 Hg2]]; [discriminate|]. subst members lexfile.
    destruct pos as [[|c1 s1]|]; try discriminate; destruct lex;
      ev_access; cbn [bind vtruthy]; rewrite (meta_dict_nf m Hm); cbn [bind];
      (rewrite dict_update_md by (try exact Hm; reflexivity));
      rewrite Hd; cbn [bind]; rewrite Hidef; cbn [bind]; rewrite Hr; cbn [bind]; rewrite He; cbn [bind];
      reflexivity.
Qed.

Lemma single_elem_ilidef : forall version, supported version = true ->
  is_list_elem version (s_ "ILIDefinition") = false
  /\ assoc (s_ "ILIDefinition") (elems_of version) = Some k_idef.
Proof. intros version H. unfold supported in H. versions H; split; vm_compute; reflexivity. Qed.

Definition idef_parsed (version : str) (level : nat) (xi : option xml) (pi : option val) : Prop :=
  match xi, pi with
  | Some x, Some p => parsed_as version (s_ "ILIDefinition") (iview version level x) p
  | None, None => True
  | _, _ => False
  end.

Lemma parse_synsetlike : forall version level tag A D0 xds xi xrs xes pds pi prs pes,
  supported version = true ->
  start_attrs version tag (expat_attrs version A) = VDict D0 ->
  has_key (s_ "text") D0 = false -> has_key k_defs D0 = false -> has_key k_idef D0 = false ->
  has_key k_rels D0 = false -> has_key k_exs D0 = false ->
  Forall2 (parsed_under version k_defs) (map (iview version (S level)) xds) pds ->
  idef_parsed version (S level) xi pi ->
  Forall2 (parsed_under version k_rels) (map (iview version (S level)) xrs) prs ->
  Forall2 (parsed_under version k_exs) (map (iview version (S level)) xes) pes ->
  parse_elem version (iview version level (Elem tag A VNone ((xds ++ opt_list xi) ++ xrs ++ xes) None))
  = Ok (VDict (D0 ++ synset_kids pds pi prs pes)).
Proof.
  intros version level tag A D0 xds xi xrs xes pds pi prs pes Hv Hs Ht H1 H2 H3 H4 P1 Pi P3 P4.
  destruct (iview_node version level tag A VNone ((xds ++ opt_list xi) ++ xrs ++ xes) None) as [T E].
  rewrite E. rewrite parse_elem_eq. rewrite Hs. rewrite !map_app.
  rewrite parse_kids_app. rewrite parse_kids_app.
  rewrite (parse_kids_under version k_defs _ pds D0 H1 P1). cbn [bind].
  assert (Ei : parse_kids version (map (iview version (S level)) (opt_list xi)) (VDict (D0 ++ optl k_defs pds))
               = Ok (VDict ((D0 ++ optl k_defs pds) ++ opt_kv k_idef pi))).
  { unfold idef_parsed in Pi. destruct xi as [x|]; destruct pi as [p|]; try contradiction.
    - destruct (single_elem_ilidef version Hv) as [L1 L2]. cbn [opt_list map opt_kv].
      apply (parse_kids_single version (s_ "ILIDefinition")); try assumption.
      rewrite has_key_app. rewrite H2. apply has_key_optl. reflexivity.
    - cbn [opt_list map parse_kids opt_kv]. rewrite app_nil_r. reflexivity. }
  rewrite Ei. cbn [bind]. rewrite parse_kids_app.
  assert (E3 : has_key k_rels ((D0 ++ optl k_defs pds) ++ opt_kv k_idef pi) = false).
  { rewrite !has_key_app. rewrite H3. rewrite (has_key_optl k_rels k_defs pds eq_refl). rewrite has_key_opt.
    destruct pi; reflexivity. }
  rewrite (parse_kids_under version k_rels _ prs _ E3 P3). cbn [bind].
  assert (E4 : has_key k_exs (((D0 ++ optl k_defs pds) ++ opt_kv k_idef pi) ++ optl k_rels prs) = false).
  { rewrite !has_key_app. rewrite H4. rewrite (has_key_optl k_exs k_defs pds eq_refl). rewrite has_key_opt.
    rewrite (has_key_optl k_exs k_rels prs eq_refl). destruct pi; reflexivity. }
  rewrite (parse_kids_under version k_exs _ pes _ E4 P4). cbn [bind].
  unfold synset_kids. rewrite <- !app_assoc. rewrite finish_notext; [reflexivity|].
  rewrite !has_key_app. rewrite Ht. rewrite (has_key_optl (s_ "text") k_defs pds eq_refl). rewrite has_key_opt.
  rewrite (has_key_optl (s_ "text") k_rels prs eq_refl). rewrite (has_key_optl (s_ "text") k_exs pes eq_refl).
  destruct pi; reflexivity.
Qed.

Lemma validate_synsetlike : forall (extension : bool) P0 ws pds pi prs pes dds drs des,
  has_key k_defs P0 = false -> has_key k_idef P0 = false ->
  has_key k_rels P0 = false -> has_key k_exs P0 = false ->
  has_key (s_ "id") P0 = true ->
  (if extension then true else negb (vtruthy (vget (VDict P0) (s_ "external")))) = true ->
  (vtruthy (vget (VDict P0) (s_ "external")) || (has_key (s_ "ili") P0 && has_key (s_ "meta") P0)) = true ->
  words_ok ws = true ->
  vget (VDict (conv_bool_l P0 (s_ "lexicalized"))) (s_ "members")
    = match ws with [] => VNone | _ => VStr (join [c_sp] ws) end ->
  Forall2 (fun p d => validate_text_meta p = Ok d) pds dds ->
  Forall2 (fun p d => validate_relation p = Ok d) prs drs ->
  Forall2 (fun p d => validate_text_meta p = Ok d) pes des ->
  _validate_synset extension (VDict (P0 ++ synset_kids pds pi prs pes))
  = Ok (VDict (conv_split_l (conv_bool_l P0 (s_ "lexicalized")) (s_ "members") ws
               ++ synset_kids dds pi drs des)).
Proof.
  intros extension P0 ws pds pi prs pes dds drs des K1 K2 K3 K4 Hid H1 H2 Hw Hsc V1 V3 V4.
  unfold _validate_synset.
  rewrite assert_in_present by (rewrite has_key_app; rewrite Hid; reflexivity). cbn [bind].
  rewrite py_get_dict. cbn [bind].
  rewrite (vget_app_l P0 (synset_kids pds pi prs pes)) by (apply has_key_synset_kids; reflexivity).
  assert (S1 : (if extension then Ok tt else assert (negb (vtruthy (vget (VDict P0) (s_ "external"))))) = Ok tt).
  { destruct extension; [reflexivity|]. rewrite H1. reflexivity. }
  rewrite S1. cbn [bind].
  assert (S2 : (if vtruthy (vget (VDict P0) (s_ "external")) then Ok (VDict (P0 ++ synset_kids pds pi prs pes))
                else do_ assert_in (s_ "ili") (VDict (P0 ++ synset_kids pds pi prs pes));
                     setdefault (VDict (P0 ++ synset_kids pds pi prs pes)) (s_ "meta") VNone)
               = Ok (VDict (P0 ++ synset_kids pds pi prs pes))).
  { destruct (vtruthy (vget (VDict P0) (s_ "external"))); [reflexivity|]. cbn [orb] in H2.
    apply andb_true_iff in H2. destruct H2 as [Hs Hm].
    rewrite assert_in_present by (rewrite has_key_app; rewrite Hs; reflexivity). cbn [bind].
    apply setdefault_present. rewrite has_key_app. rewrite Hm. reflexivity. }
  rewrite S2. cbn [bind]. unfold synset_kids. fold k_defs. fold k_rels. fold k_exs.
  rewrite (upd_list_optl P0 k_defs pds (opt_kv k_idef pi ++ optl k_rels prs ++ optl k_exs pes) _ dds);
    [| exact K1
     | rewrite !has_key_app; rewrite has_key_opt; rewrite (has_key_optl k_defs k_rels prs eq_refl);
       rewrite (has_key_optl k_defs k_exs pes eq_refl); destruct pi; reflexivity
     | unfold each; apply mapM_Forall2; exact V1 | reflexivity | apply (Forall2_length' _ _ _ V1)].
  cbn [bind]. rewrite (app_assoc P0). rewrite (app_assoc (P0 ++ optl k_defs dds)).
  rewrite (upd_list_optl ((P0 ++ optl k_defs dds) ++ opt_kv k_idef pi) k_rels prs (optl k_exs pes) _ drs);
    [| rewrite !has_key_app; rewrite K3; rewrite (has_key_optl k_rels k_defs dds eq_refl);
       rewrite has_key_opt; destruct pi; reflexivity
     | apply has_key_optl; reflexivity
     | unfold each; apply mapM_Forall2; exact V3 | reflexivity | apply (Forall2_length' _ _ _ V3)].
  cbn [bind]. rewrite (app_assoc ((P0 ++ optl k_defs dds) ++ opt_kv k_idef pi)).
  rewrite <- (app_nil_r (optl k_exs pes)).
  rewrite (upd_list_optl (((P0 ++ optl k_defs dds) ++ opt_kv k_idef pi) ++ optl k_rels drs) k_exs pes [] _ des);
    [| rewrite !has_key_app; rewrite K4; rewrite (has_key_optl k_exs k_defs dds eq_refl);
       rewrite has_key_opt; rewrite (has_key_optl k_exs k_rels drs eq_refl); destruct pi; reflexivity
     | reflexivity
     | unfold each; apply mapM_Forall2; exact V4 | reflexivity | apply (Forall2_length' _ _ _ V4)].
  cbn [bind]. rewrite app_nil_r. rewrite <- !app_assoc.
  fold (synset_kids dds pi drs des).
  rewrite conv_bool_app by (apply has_key_synset_kids; reflexivity). cbn [bind].
  apply conv_split_app; [apply has_key_synset_kids; reflexivity | exact Hw | exact Hsc].
Qed.

Lemma definition_pack : forall version level d, supported version = true -> nf_definition d = true ->
  roundtrips_k version level k_defs _build_definition validate_text_meta d.
Proof.
  intros version level d Hv Hn.
  destruct (nf_definition_inv d Hn) as [lang [src [m [t [-> [Hl [Hs [Hm Ht]]]]]]]].
  pose proof (load_definition version lang src m t Hv Hl Hs Hm Ht) as HL. apply bind_ok in HL.
  destruct HL as [p [Hp Hval]].
  exists (xml_definition lang src m t), p. split; [apply build_definition_mk; assumption|]. split; [|exact Hval].
  destruct (list_elem_10 version (s_ "Definition") k_defs Hv) as [L1 L2]; [simpl; auto 10|].
  split; [exact L1|]. split; [exact L2 | exact Hp].
Qed.

Lemma ilidef_pack : forall version level idef, supported version = true -> nf_opt_ilidef idef = true ->
  exists xi, idef_built idef xi /\ idef_parsed version level xi idef.
Proof.
  intros version level [d|] Hv Hn.
  - simpl in Hn. destruct (nf_ilidef_inv d Hn) as [m [t [-> [Hm Ht]]]].
    exists (Some (xml_ilidef m t)). split.
    + split; [reflexivity | apply build_ilidef_mk; exact Hm].
    + split; [reflexivity|]. apply load_ilidef; assumption.
  - exists None. split; exact I.
Qed.

Lemma start_attrs_synset : forall version id ili pos lex members lexfile m,
  ne_opt pos = true -> ne_opt lexfile = true -> nf_meta m = true ->
  start_attrs version (s_ "Synset")
    (expat_attrs version (synset_plain id ili pos lex members lexfile ++ md_of m))
  = VDict (synset_plain id ili pos lex members lexfile ++ [(s_ "meta", m)]).
Proof.
  intros version id ili pos lex members lexfile m Hp Hl Hm.
  rewrite <- (app_nil_r (md_of m)). unfold synset_plain, lex_attr, words_attr.
  destruct pos as [[|c1 s1]|]; try discriminate; destruct lex; destruct members as [|w ws];
    destruct lexfile as [[|c2 s2]|]; try discriminate;
    (rewrite start_attrs_view; [| reflexivity | reflexivity | exact Hm | not_meta_elem | reflexivity];
     unfold is_cdata_elem; ev (str_mem (s_ "Synset") cdata_elems); reflexivity).
Qed.

Lemma synset_roundtrip_full : forall version v level ext d,
  supported version = true -> ge_1_1 v = v11 version ->
  nf_synset (v11 version) d = true ->
  exists x, synset_xml d v = Ok x /\ xtag x = s_ "Synset"
  /\ (do p <- parse_elem version (iview version level x); _validate_synset ext p) = Ok d.
Proof.
  intros version v level ext d Hv Hge Hn.
  destruct (nf_synset_inv _ d Hn)
    as [id [ili [pos [lex [members [lexfile [m [defs [idef [rels [exs
        [-> [Hp [Hl [Hw [Hm [Hnd [Hni [Hnr [Hne Hg]]]]]]]]]]]]]]]]]]]].
  assert (Fd : Forall (roundtrips_k version (S level) k_defs _build_definition validate_text_meta) defs).
  { apply (forallb_Forall nf_definition); [|exact Hnd]. intros r Hr. apply definition_pack; assumption. }
  assert (Fr : Forall (roundtrips_k version (S level) k_rels
                         (fun r => _build_relation r (s_ "SynsetRelation")) validate_relation) rels).
  { apply (forallb_Forall nf_relation); [|exact Hnr]. intros r Hr. apply relation_pack; try assumption. reflexivity. }
  assert (Fe : Forall (roundtrips_k version (S level) k_exs _build_example validate_text_meta) exs).
  { apply (forallb_Forall nf_example); [|exact Hne]. intros r Hr. apply example_pack; assumption. }
  destruct (pack_list_k _ _ _ _ _ _ Fd) as [xds [pds [Bd [Pd Vd]]]].
  destruct (pack_list_k _ _ _ _ _ _ Fr) as [xrs [prs [Br [Pr Vr]]]].
  destruct (pack_list_k _ _ _ _ _ _ Fe) as [xes [pes [Be [Pe Ve]]]].
  destruct (ilidef_pack version (S level) idef Hv Hni) as [xi [Bi Pi]].
  assert (Hg' : ge_1_1 v = true \/ (members = [] /\ lexfile = None)).
  { rewrite Hge. destruct (v11 version); [left; reflexivity|]. right. simpl in Hg.
    destruct members; [|discriminate]. destruct lexfile; [discriminate|]. auto. }
  exists (xml_synset id ili pos lex members lexfile m xds xi xrs xes).
  split; [apply (build_synset_mk v _ _ _ _ _ _ _ _ _ _ _ xds xi xrs xes Hp Hl Hw Hm Bd Bi Br Be Hg')|].
  split; [reflexivity|]. unfold xml_synset.
  rewrite (parse_synsetlike version level _ _ _ xds xi xrs xes pds idef prs pes Hv
             (start_attrs_synset version id ili pos lex members lexfile m Hp Hl Hm));
    try assumption; try (destruct pos; destruct lex; destruct members; destruct lexfile; reflexivity).
  cbn [bind].
  rewrite (validate_synsetlike ext (synset_plain id ili pos lex members lexfile ++ [(s_ "meta", m)])
             members pds idef prs pes defs rels exs); try assumption.
  all: destruct pos as [[|c1 s1]|]; try discriminate; destruct lex; destruct members;
    destruct lexfile as [[|c2 s2]|]; try discriminate; destruct ext; reflexivity.
Qed.
Theorem synset_roundtrip : forall version v level ext d x,
  supported version = true -> ge_1_1 v = v11 version ->
  nf_synset (v11 version) d = true -> synset_xml d v = Ok x ->
  (do p <- parse_elem version (iview version level x); _validate_synset ext p) = Ok d.
Proof.
  intros version v level ext d x Hv Hge Hn Hb.
  destruct (synset_roundtrip_full version v level ext d Hv Hge Hn) as [x' [Hb' [_ H]]].
  rewrite Hb in Hb'. injection Hb' as <-. exact H.
Qed.


(* ---------------- ExternalSynset (versions >= 1.1, extensions) ---------------- *)
(* keys id, external, definitions?, relations?, examples? *)
Definition mk_xsynset (id : str) (defs rels exs : list val) : val :=
  VDict ([(s_ "id", VStr id); (s_ "external", VBool true)] ++ synset_kids defs None rels exs).
Definition xml_xsynset (id : str) (xds xrs xes : list xml) : xml :=
  Elem (s_ "ExternalSynset") [(s_ "id", VStr id)] VNone (xds ++ xrs ++ xes) None.
Definition nf_xsynset (d : val) : bool :=
  let id := val_str (vget d (s_ "id")) in
  let defs := vlist d k_defs in
  let rels := vlist d k_rels in
  let exs := vlist d k_exs in
  val_eqb d (mk_xsynset id defs rels exs)
  && forallb nf_definition defs && forallb nf_relation rels && forallb nf_example exs.
Example nf_xsynset_ex : nf_xsynset (mk_xsynset (s_ "ss1") [] [mk_relation (s_ "ss2") (s_ "similar") VNone] []) = true.
Proof. vm_compute. reflexivity. Qed.

Lemma nf_xsynset_inv : forall d, nf_xsynset d = true ->
  exists id defs rels exs, d = mk_xsynset id defs rels exs
    /\ forallb nf_definition defs = true /\ forallb nf_relation rels = true /\ forallb nf_example exs = true.
Proof.
  intros d H. unfold nf_xsynset in H. cbv zeta in H.
  apply andb_true_iff in H. destruct H as [H H4]. apply andb_true_iff in H. destruct H as [H H3].
  apply andb_true_iff in H. destruct H as [H1 H2]. apply val_eqb_eq in H1. eauto 10.
Qed.

Lemma build_xsynset_mk : forall v id defs rels exs xds xrs xes,
  mapM _build_definition defs = Ok xds ->
  mapM (fun r => _build_relation r (s_ "SynsetRelation")) rels = Ok xrs ->
  mapM _build_example exs = Ok xes ->
  synset_xml (mk_xsynset id defs rels exs) v = Ok (xml_xsynset id xds xrs xes).
Proof.
  intros v id defs rels exs xds xrs xes Hd Hr He. unfold synset_xml, mk_xsynset, xml_xsynset.
  destruct (for_get_synset_kids [(s_ "id", VStr id); (s_ "external", VBool true)] defs None rels exs
              eq_refl eq_refl eq_refl eq_refl) as [F1 [F2 [F3 F4]]].
  fold k_defs. fold k_rels. fold k_exs. rewrite F1, F3, F4.
  rewrite (py_item_app_l _ _ (s_ "id")) by (apply has_key_synset_kids; reflexivity).
  rewrite (py_get_d_app_l _ _ (s_ "external")) by (apply has_key_synset_kids; reflexivity).
  ev_access. cbn [bind vtruthy]. rewrite Hd. cbn [bind]. rewrite Hr. cbn [bind]. rewrite He. reflexivity.
Qed.

Lemma start_attrs_xsynset : forall version id,
  start_attrs version (s_ "ExternalSynset") (expat_attrs version [(s_ "id", VStr id)])
  = VDict [(s_ "id", VStr id); (s_ "external", VBool true)].
Proof.
  intros version id. rewrite start_attrs_plain by reflexivity. unfold is_cdata_elem.
  ev (str_mem (s_ "ExternalSynset") cdata_elems). reflexivity.
Qed.

Lemma xsynset_roundtrip_full : forall version v level d,
  supported version = true -> nf_xsynset d = true ->
  exists x, synset_xml d v = Ok x /\ xtag x = s_ "ExternalSynset"
  /\ (do p <- parse_elem version (iview version level x); _validate_synset true p) = Ok d.
Proof.
  intros version v level d Hv Hn.
  destruct (nf_xsynset_inv d Hn) as [id [defs [rels [exs [-> [Hnd [Hnr Hne]]]]]]].
  assert (Fd : Forall (roundtrips_k version (S level) k_defs _build_definition validate_text_meta) defs).
  { apply (forallb_Forall nf_definition); [|exact Hnd]. intros r Hr. apply definition_pack; assumption. }
  assert (Fr : Forall (roundtrips_k version (S level) k_rels
                         (fun r => _build_relation r (s_ "SynsetRelation")) validate_relation) rels).
  { apply (forallb_Forall nf_relation); [|exact Hnr]. intros r Hr. apply relation_pack; try assumption. reflexivity. }
  assert (Fe : Forall (roundtrips_k version (S level) k_exs _build_example validate_text_meta) exs).
  { apply (forallb_Forall nf_example); [|exact Hne]. intros r Hr. apply example_pack; assumption. }
  destruct (pack_list_k _ _ _ _ _ _ Fd) as [xds [pds [Bd [Pd Vd]]]].
  destruct (pack_list_k _ _ _ _ _ _ Fr) as [xrs [prs [Br [Pr Vr]]]].
  destruct (pack_list_k _ _ _ _ _ _ Fe) as [xes [pes [Be [Pe Ve]]]].
  exists (xml_xsynset id xds xrs xes).
  split; [apply (build_xsynset_mk v _ _ _ _ xds xrs xes Bd Br Be)|].
  split; [reflexivity|]. unfold xml_xsynset.
  replace (xds ++ xrs ++ xes) with ((xds ++ opt_list (@None xml)) ++ xrs ++ xes)
    by (cbn [opt_list]; rewrite app_nil_r; reflexivity).
  rewrite (parse_synsetlike version level _ _ _ xds None xrs xes pds None prs pes Hv
             (start_attrs_xsynset version id)); try assumption; try reflexivity; try exact I.
  cbn [bind].
  rewrite (validate_synsetlike true [(s_ "id", VStr id); (s_ "external", VBool true)] [] pds None prs pes defs rels exs);
    try assumption; reflexivity.
Qed.
Theorem xsynset_roundtrip : forall version v level d x,
  supported version = true -> nf_xsynset d = true -> synset_xml d v = Ok x ->
  (do p <- parse_elem version (iview version level x); _validate_synset true p) = Ok d.
Proof.
  intros version v level d x Hv Hn Hb.
  destruct (xsynset_roundtrip_full version v level d Hv Hn) as [x' [Hb' [_ H]]].
  rewrite Hb in Hb'. injection Hb' as <-. exact H.
Qed.


(* ====================================================================== *)
(* 13. LexicalEntry / ExternalLexicalEntry                                *)
(* ====================================================================== *)
Definition k_lemma : str := s_ "lemma".
Definition k_forms : str := s_ "forms".
Definition k_senses : str := s_ "senses".
Definition k_frames : str := s_ "frames".
Definition entry_kids (lem : option val) (forms senses frames : list val) : list (str * val) :=
  opt_kv k_lemma lem ++ optl k_forms forms ++ optl k_senses senses ++ optl k_frames frames.

Lemma has_key_entry_kids : forall k lem forms senses frames,
  str_eqb k_lemma k = false -> str_eqb k_forms k = false -> str_eqb k_senses k = false ->
  str_eqb k_frames k = false -> has_key k (entry_kids lem forms senses frames) = false.
Proof.
  intros k lem forms senses frames H1 H2 H3 H4. unfold entry_kids. rewrite !has_key_app.
  rewrite has_key_opt. rewrite H1. rewrite (has_key_optl k k_forms forms H2).
  rewrite (has_key_optl k k_senses senses H3). rewrite (has_key_optl k k_frames frames H4).
  destruct lem; reflexivity.
Qed.

Lemma py_get_d_optl : forall pre k l post, has_key k pre = false -> has_key k post = false ->
  py_get_d (VDict (pre ++ optl k l ++ post)) k (VList []) = Ok (VList l).
Proof.
  intros pre k l post H1 H2. unfold py_get_d. rewrite vhas_dict. rewrite !has_key_app.
  rewrite H1, H2. rewrite vget_app. rewrite H1. destruct l as [|x l].
  - reflexivity.
  - cbn [optl]. rewrite has_key_cons. rewrite str_eqb_refl. cbn [orb].
    rewrite <- app_comm_cons. rewrite vget_cons. rewrite str_eqb_refl. reflexivity.
Qed.

Lemma entry_kids_access : forall pre lem forms senses frames,
  has_key k_lemma pre = false -> has_key k_forms pre = false ->
  has_key k_senses pre = false -> has_key k_frames pre = false ->
  vget (VDict (pre ++ entry_kids lem forms senses frames)) k_lemma
    = match lem with Some l => l | None => VNone end
  /\ py_get_d (VDict (pre ++ entry_kids lem forms senses frames)) k_forms (VList []) = Ok (VList forms)
  /\ for_get (VDict (pre ++ entry_kids lem forms senses frames)) k_forms = Ok forms
  /\ for_get (VDict (pre ++ entry_kids lem forms senses frames)) k_senses = Ok senses
  /\ for_get (VDict (pre ++ entry_kids lem forms senses frames)) k_frames = Ok frames.
Proof.
  intros pre lem forms senses frames H1 H2 H3 H4. unfold entry_kids.
  assert (Hf : has_key k_forms (pre ++ opt_kv k_lemma lem) = false).
  { rewrite has_key_app. rewrite H2. rewrite has_key_opt. destruct lem; reflexivity. }
  assert (Hfp : has_key k_forms (optl k_senses senses ++ optl k_frames frames) = false).
  { rewrite has_key_app. rewrite (has_key_optl k_forms k_senses senses eq_refl).
    rewrite (has_key_optl k_forms k_frames frames eq_refl). reflexivity. }
  split; [|split; [|split; [|split]]].
  - rewrite vget_app. rewrite H1. rewrite vget_app. rewrite has_key_opt. destruct lem as [l|].
    + rewrite str_eqb_refl. cbn [opt_kv]. rewrite vget_cons. rewrite str_eqb_refl. reflexivity.
    + apply vget_absent. rewrite !has_key_app. rewrite (has_key_optl k_lemma k_forms forms eq_refl).
      rewrite (has_key_optl k_lemma k_senses senses eq_refl).
      rewrite (has_key_optl k_lemma k_frames frames eq_refl). reflexivity.
  - rewrite (app_assoc pre). apply py_get_d_optl; assumption.
  - rewrite (app_assoc pre). apply for_get_optl; assumption.
  - rewrite (app_assoc pre). rewrite (app_assoc (pre ++ opt_kv k_lemma lem)). apply for_get_optl.
    + rewrite !has_key_app. rewrite H3. rewrite has_key_opt.
      rewrite (has_key_optl k_senses k_forms forms eq_refl). destruct lem; reflexivity.
    + apply has_key_optl. reflexivity.
  - rewrite (app_assoc pre). rewrite (app_assoc (pre ++ opt_kv k_lemma lem)).
    rewrite (app_assoc ((pre ++ opt_kv k_lemma lem) ++ optl k_forms forms)).
    rewrite <- (app_nil_r (optl k_frames frames)). apply for_get_optl; [|reflexivity].
    rewrite !has_key_app. rewrite H4. rewrite has_key_opt.
    rewrite (has_key_optl k_frames k_forms forms eq_refl).
    rewrite (has_key_optl k_frames k_senses senses eq_refl). destruct lem; reflexivity.
Qed.

(* a single child under its key *)
Definition parsed_single (version key : str) (x : xtree) (c : val) : Prop :=
  is_list_elem version (xname x) = false /\ assoc (xname x) (elems_of version) = Some key
  /\ parse_elem version x = Ok c.
Definition lemma_parsed (version : str) (level : nat) (xl : option xml) (pl : option val) : Prop :=
  match xl, pl with
  | Some x, Some p => parsed_single version k_lemma (iview version level x) p
  | None, None => True
  | _, _ => False
  end.

Lemma parse_entrylike : forall version level tag A D0 xl xfs xss xfr pl pfs pss pfr,
  start_attrs version tag (expat_attrs version A) = VDict D0 ->
  has_key (s_ "text") D0 = false -> has_key k_lemma D0 = false -> has_key k_forms D0 = false ->
  has_key k_senses D0 = false -> has_key k_frames D0 = false ->
  lemma_parsed version (S level) xl pl ->
  Forall2 (parsed_under version k_forms) (map (iview version (S level)) xfs) pfs ->
  Forall2 (parsed_under version k_senses) (map (iview version (S level)) xss) pss ->
  Forall2 (parsed_under version k_frames) (map (iview version (S level)) xfr) pfr ->
  parse_elem version (iview version level (Elem tag A VNone (opt_list xl ++ xfs ++ xss ++ xfr) None))
  = Ok (VDict (D0 ++ entry_kids pl pfs pss pfr)).
Proof.
  intros version level tag A D0 xl xfs xss xfr pl pfs pss pfr Hs Ht H1 H2 H3 H4 Pl P2 P3 P4.
  destruct (iview_node version level tag A VNone (opt_list xl ++ xfs ++ xss ++ xfr) None) as [T E].
  rewrite E. rewrite parse_elem_eq. rewrite Hs. rewrite !map_app. rewrite parse_kids_app.
  assert (El : parse_kids version (map (iview version (S level)) (opt_list xl)) (VDict D0)
               = Ok (VDict (D0 ++ opt_kv k_lemma pl))).
  { unfold lemma_parsed in Pl. destruct xl as [x|]; destruct pl as [p|]; try contradiction.
    - destruct Pl as [L1 [L2 L3]]. cbn [opt_list map opt_kv parse_kids].
      unfold attach_check. rewrite L1, L2. rewrite vhas_dict. rewrite H1. cbn [bind]. rewrite L3. cbn [bind].
      unfold attach. rewrite L2, L1. unfold vset. rewrite vset_list_new by exact H1. reflexivity.
    - cbn [opt_list map parse_kids opt_kv]. rewrite app_nil_r. reflexivity. }
  rewrite El. cbn [bind]. rewrite parse_kids_app.
  assert (E2 : has_key k_forms (D0 ++ opt_kv k_lemma pl) = false).
  { rewrite has_key_app. rewrite H2. rewrite has_key_opt. destruct pl; reflexivity. }
  rewrite (parse_kids_under version k_forms _ pfs _ E2 P2). cbn [bind]. rewrite parse_kids_app.
  assert (E3 : has_key k_senses ((D0 ++ opt_kv k_lemma pl) ++ optl k_forms pfs) = false).
  { rewrite !has_key_app. rewrite H3. rewrite has_key_opt. rewrite (has_key_optl k_senses k_forms pfs eq_refl).
    destruct pl; reflexivity. }
  rewrite (parse_kids_under version k_senses _ pss _ E3 P3). cbn [bind].
  assert (E4 : has_key k_frames (((D0 ++ opt_kv k_lemma pl) ++ optl k_forms pfs) ++ optl k_senses pss) = false).
  { rewrite !has_key_app. rewrite H4. rewrite has_key_opt. rewrite (has_key_optl k_frames k_forms pfs eq_refl).
    rewrite (has_key_optl k_frames k_senses pss eq_refl). destruct pl; reflexivity. }
  rewrite (parse_kids_under version k_frames _ pfr _ E4 P4). cbn [bind].
  unfold entry_kids. rewrite <- !app_assoc. rewrite finish_notext; [reflexivity|].
  rewrite !has_key_app. rewrite Ht. rewrite has_key_opt.
  rewrite (has_key_optl (s_ "text") k_forms pfs eq_refl). rewrite (has_key_optl (s_ "text") k_senses pss eq_refl).
  rewrite (has_key_optl (s_ "text") k_frames pfr eq_refl). destruct pl; reflexivity.
Qed.

Definition lemma_ok (pl : val) : Prop :=
  is_dict pl = true /\ vtruthy pl = true
  /\ (vtruthy (vget pl (s_ "external")) = true \/ vhas pl (s_ "partOfSpeech") = true).
Definition form_ok (pf : val) : Prop :=
  is_dict pf = true
  /\ (vtruthy (vget pf (s_ "external")) = false \/ vtruthy (vget pf (s_ "id")) = true).
Definition lemma_validated (ext : bool) (pl dl : option val) : Prop :=
  match pl, dl with
  | Some p, Some d => lemma_ok p /\ _validate_form ext p = Ok d
  | None, None => True
  | _, _ => False
  end.

Lemma vset_seg : forall pre k v v' post, has_key k pre = false ->
  vset (VDict (pre ++ (k, v) :: post)) k v' = VDict (pre ++ (k, v') :: post).
Proof.
  intros pre k v v' post H. unfold vset. rewrite vset_list_app. rewrite H. rewrite vset_list_cons.
  rewrite str_eqb_refl. reflexivity.
Qed.
Lemma set_optl : forall pre k ps ds post, has_key k pre = false -> has_key k post = false ->
  length ps = length ds ->
  (if vhas (VDict (pre ++ optl k ps ++ post)) k
   then vset (VDict (pre ++ optl k ps ++ post)) k (VList ds)
   else VDict (pre ++ optl k ps ++ post)) = VDict (pre ++ optl k ds ++ post).
Proof.
  intros pre k ps ds post H1 H2 Hl. rewrite vhas_dict. rewrite !has_key_app. rewrite H1, H2.
  destruct ps as [|p ps]; destruct ds as [|d ds]; try discriminate.
  - reflexivity.
  - cbn [optl]. rewrite has_key_cons. rewrite str_eqb_refl. cbn [orb app]. apply vset_seg. exact H1.
Qed.

Lemma forM_forms_check : forall pfs, Forall form_ok pfs ->
  forM (fun form => do fe <- py_get form (s_ "external");
                    if vtruthy fe then do fid <- py_get form (s_ "id"); assert (vtruthy fid) else Ok tt) pfs
  = Ok tt.
Proof.
  intros pfs H. induction H as [|pf pfs [Hd Hf] Hr IH]; [reflexivity|].
  cbn [forM]. apply is_dict_inv in Hd. destruct Hd as [l ->]. rewrite !py_get_dict. cbn [bind].
  destruct Hf as [Hf|Hf].
  - rewrite Hf. cbn [bind]. exact IH.
  - destruct (vtruthy (vget (VDict l) (s_ "external"))); [|cbn [bind]; exact IH].
    rewrite Hf. cbn [bind assert]. exact IH.
Qed.

Lemma validate_entrylike : forall (extension : bool) P0 pl pfs pss pfr dl dfs dss dfr,
  has_key k_lemma P0 = false -> has_key k_forms P0 = false ->
  has_key k_senses P0 = false -> has_key k_frames P0 = false ->
  has_key (s_ "id") P0 = true ->
  (if extension then true else negb (vtruthy (vget (VDict P0) (s_ "external")))) = true ->
  (vtruthy (vget (VDict P0) (s_ "external")) || (negb (is_none_o pl) && has_key (s_ "meta") P0)) = true ->
  lemma_validated extension pl dl ->
  Forall form_ok pfs ->
  Forall2 (fun p d => _validate_form extension p = Ok d) pfs dfs ->
  Forall2 (fun p d => _validate_sense extension p = Ok d) pss dss ->
  Forall2 (fun p d => _validate_frame p = Ok d) pfr dfr ->
  _validate_entry extension (VDict (P0 ++ entry_kids pl pfs pss pfr))
  = Ok (VDict (P0 ++ entry_kids dl dfs dss dfr)).
Proof.
  intros extension P0 pl pfs pss pfr dl dfs dss dfr K1 K2 K3 K4 Hid H1 H2 Hlem Hfok V2 V3 V4.
  destruct (entry_kids_access P0 pl pfs pss pfr K1 K2 K3 K4) as [A1 [A2 [A3 [A4 A5]]]].
  unfold _validate_entry.
  rewrite assert_in_present by (rewrite has_key_app; rewrite Hid; reflexivity). cbn [bind].
  rewrite (py_get_dict _ (s_ "external")). cbn [bind].
  rewrite (vget_app_l P0 (entry_kids pl pfs pss pfr)) by (apply has_key_entry_kids; reflexivity).
  assert (S1 : (if extension then Ok tt else assert (negb (vtruthy (vget (VDict P0) (s_ "external"))))) = Ok tt).
  { destruct extension; [reflexivity|]. rewrite H1. reflexivity. }
  rewrite S1. cbn [bind].
  rewrite (py_get_dict _ (s_ "lemma")). cbn [bind]. fold k_lemma. rewrite A1.
  set (E := VDict (P0 ++ entry_kids pl pfs pss pfr)) in *.
  set (lemv := match pl with Some l => l | None => VNone end).
  assert (S2 : (if vtruthy (vget (VDict P0) (s_ "external")) then Ok E
                else do_ assert (negb (is_none lemv)); setdefault E (s_ "meta") VNone) = Ok E).
  { destruct (vtruthy (vget (VDict P0) (s_ "external"))); [reflexivity|]. cbn [orb] in H2.
    apply andb_true_iff in H2. destruct H2 as [Hs Hm].
    destruct pl as [p|]; [|discriminate]. destruct dl as [d|]; [|contradiction].
    destruct Hlem as [[Hd _] _]. apply is_dict_inv in Hd. destruct Hd as [l Hl]. subst lemv. rewrite Hl.
    cbn [is_none negb assert bind]. apply setdefault_present. rewrite has_key_app. rewrite Hm. reflexivity. }
  rewrite S2. cbn [bind].
  assert (S3 : (if is_none lemv then Ok tt
                else do le <- py_get lemv (s_ "external");
                     if vtruthy le then Ok tt else assert_in (s_ "partOfSpeech") lemv) = Ok tt).
  { subst lemv. destruct pl as [p|]; [|reflexivity]. destruct dl as [d|]; [|contradiction].
    destruct Hlem as [[Hd [_ Hp]] _]. apply is_dict_inv in Hd. destruct Hd as [l ->].
    cbn [is_none]. rewrite py_get_dict. cbn [bind]. destruct Hp as [Hp|Hp].
    - rewrite Hp. reflexivity.
    - destruct (vtruthy (vget (VDict l) (s_ "external"))); [reflexivity|].
      apply assert_in_present. exact Hp. }
  rewrite S3. cbn [bind]. fold k_forms. rewrite A2. cbn [bind py_iter].
  rewrite (forM_forms_check pfs Hfok). cbn [bind].
  (* the lemma and the forms *)
  assert (S4 : exists dll, opt_kv k_lemma dl = opt_kv k_lemma dl /\
               (if vtruthy lemv then [lemv] else []) = opt_list pl /\
               _validate_forms (opt_list pl ++ pfs) extension = Ok (dll ++ dfs) /\
               dll = opt_list dl /\ length (opt_list pl) = length dll).
  { subst lemv. destruct pl as [p|]; destruct dl as [d|]; try contradiction.
    - destruct Hlem as [[_ [Ht _]] Hv]. exists [d]. rewrite Ht. repeat split.
      unfold _validate_forms. cbn [opt_list app mapM]. rewrite Hv. cbn [bind].
      rewrite (mapM_Forall2 _ _ _ V2). reflexivity.
    - exists []. repeat split. unfold _validate_forms. cbn [opt_list app]. apply mapM_Forall2. exact V2. }
  destruct S4 as [dll [_ [S4a [S4b [S4c S4d]]]]]. rewrite S4a. rewrite S4b. cbn [bind]. cbv zeta.
  assert (S5 : match opt_list pl, dll ++ dfs with
               | _ :: _, lemma' :: _ => vset E k_lemma lemma'
               | _, _ => E
               end = VDict (P0 ++ opt_kv k_lemma dl ++ optl k_forms pfs ++ optl k_senses pss ++ optl k_frames pfr)).
  { subst dll. unfold E, entry_kids. destruct pl as [p|]; destruct dl as [d|]; try discriminate.
    - cbn [opt_list app opt_kv]. apply vset_seg. exact K1.
    - reflexivity. }
  rewrite S5.
  assert (S6 : skipn (length (opt_list pl)) (dll ++ dfs) = dfs).
  { rewrite S4d. rewrite skipn_app. rewrite skipn_all. rewrite Nat.sub_diag. reflexivity. }
  rewrite S6. fold k_forms. rewrite (app_assoc P0).
  rewrite (set_optl (P0 ++ opt_kv k_lemma dl) k_forms pfs dfs (optl k_senses pss ++ optl k_frames pfr));
    [| rewrite has_key_app; rewrite K2; rewrite has_key_opt; destruct dl; reflexivity
     | rewrite has_key_app; rewrite (has_key_optl k_forms k_senses pss eq_refl);
       rewrite (has_key_optl k_forms k_frames pfr eq_refl); reflexivity
     | apply (Forall2_length' _ _ _ V2)].
  fold k_senses. rewrite (app_assoc (P0 ++ opt_kv k_lemma dl)).
  rewrite (upd_list_optl ((P0 ++ opt_kv k_lemma dl) ++ optl k_forms dfs) k_senses pss (optl k_frames pfr) _ dss);
    [| rewrite !has_key_app; rewrite K3; rewrite has_key_opt; rewrite (has_key_optl k_senses k_forms dfs eq_refl);
       destruct dl; reflexivity
     | apply has_key_optl; reflexivity
     | unfold _validate_senses; apply mapM_Forall2; exact V3 | reflexivity | apply (Forall2_length' _ _ _ V3)].
  cbn [bind]. fold k_frames. rewrite (app_assoc ((P0 ++ opt_kv k_lemma dl) ++ optl k_forms dfs)).
  rewrite <- (app_nil_r (optl k_frames pfr)).
  rewrite (upd_list_optl (((P0 ++ opt_kv k_lemma dl) ++ optl k_forms dfs) ++ optl k_senses dss) k_frames pfr [] _ dfr);
    [| rewrite !has_key_app; rewrite K4; rewrite has_key_opt; rewrite (has_key_optl k_frames k_forms dfs eq_refl);
       rewrite (has_key_optl k_frames k_senses dss eq_refl); destruct dl; reflexivity
     | reflexivity
     | unfold _validate_frames; apply mapM_Forall2; exact V4 | reflexivity | apply (Forall2_length' _ _ _ V4)].
  rewrite app_nil_r. unfold entry_kids. rewrite <- !app_assoc. reflexivity.
Qed.

(* ---- what validation leaves untouched, and what it tells about the parsed value ---- *)
Lemma validate_form_same : forall ext p d k, _validate_form ext p = Ok d ->
  str_eqb k_prons k = false -> str_eqb k_tags k = false ->
  is_dict p = true /\ vget p k = vget d k.
Proof.
  intros ext p d k H Hk1 Hk2. unfold _validate_form in H.
  apply bind_ok in H. destruct H as [e [He H]].
  assert (Hd : is_dict p = true) by (destruct p; try discriminate; reflexivity).
  split; [exact Hd|].
  apply bind_ok in H. destruct H as [u1 [_ H]]. apply bind_ok in H. destruct H as [u2 [_ H]].
  apply bind_ok in H. destruct H as [p1 [H1 H]].
  pose proof (same_at_upd_list k p p p1 _ _ H1 (same_at_refl k p Hd) Hk1) as S1.
  pose proof (same_at_upd_list k p p1 d _ _ H S1 Hk2) as S2. destruct S2 as [_ S2]. symmetry. exact S2.
Qed.

Lemma vget_not_none_truthy : forall p k, is_dict p = true -> vget p k <> VNone ->
  vtruthy p = true /\ vhas p k = true.
Proof.
  intros p k Hd Hg. apply is_dict_inv in Hd. destruct Hd as [l ->]. split.
  - destruct l; [contradiction Hg; reflexivity | reflexivity].
  - destruct (vhas (VDict l) k) eqn:E; [reflexivity|]. rewrite (vhas_false_vget _ _ E) in Hg. contradiction.
Qed.

Lemma mk_pack_k : forall version level key (build : val -> result xml) validate d x tag,
  build d = Ok x -> xtag x = tag ->
  is_list_elem version tag = true -> assoc tag (elems_of version) = Some key ->
  (do p <- parse_elem version (iview version level x); validate p) = Ok d ->
  roundtrips_k version level key build validate d.
Proof.
  intros version level key build validate d x tag Hb Ht Hl Hk H. apply bind_ok in H.
  destruct H as [p [Hp Hv]]. exists x, p. split; [exact Hb|]. split; [|exact Hv].
  unfold parsed_under. rewrite iview_name. rewrite Ht. auto.
Qed.

(* the element each builder produces *)
Lemma lemma_built : forall version v d x, supported version = true -> ge_1_1 v = v11 version ->
  nf_lemma (v11 version) d = true -> _build_lemma d v = Ok x -> xtag x = s_ "Lemma".
Proof.
  intros version v d x Hv Hge Hn Hb.
  destruct (nf_lemma_inv _ d Hn) as [wf [script [pos [prons [tags [-> [Hs [Hnp [Hnt Hg]]]]]]]]].
  destruct (pack_list _ _ _ _ _ _ (prons_pack version O prons Hnp Hg)) as [xps [pps [Bp _]]].
  destruct (pack_list _ _ _ _ _ _ (tags_pack version O tags Hv Hnt)) as [xts [pts [Bt _]]].
  assert (Hg' : ge_1_1 v = true \/ prons = []).
  { rewrite Hge. destruct (v11 version); [left; reflexivity|]. right. destruct prons; [reflexivity|discriminate]. }
  rewrite (build_lemma_mk v _ _ _ _ _ xps xts Hs Bp Bt Hg') in Hb. injection Hb as <-. reflexivity.
Qed.
Lemma xlemma_built : forall version v d x, v11 version = true -> ge_1_1 v = true ->
  nf_xlemma d = true -> _build_lemma d v = Ok x -> xtag x = s_ "ExternalLemma".
Proof.
  intros version v d x Hv Hge Hn Hb.
  assert (Hs : supported version = true) by (unfold v11 in Hv; apply andb_true_iff in Hv; apply Hv).
  destruct (nf_xlemma_inv d Hn) as [prons [tags [-> [Hnp Hnt]]]].
  assert (Hg : (v11 version || is_nil prons) = true) by (rewrite Hv; reflexivity).
  destruct (pack_list _ _ _ _ _ _ (prons_pack version O prons Hnp Hg)) as [xps [pps [Bp _]]].
  destruct (pack_list _ _ _ _ _ _ (tags_pack version O tags Hs Hnt)) as [xts [pts [Bt _]]].
  rewrite (build_xlemma_mk v _ _ xps xts Bp Bt (or_introl Hge)) in Hb. injection Hb as <-. reflexivity.
Qed.
Lemma form_built : forall version v d x, supported version = true -> ge_1_1 v = v11 version ->
  nf_form (v11 version) d = true -> _build_form d v = Ok x -> xtag x = s_ "Form".
Proof.
  intros version v d x Hv Hge Hn Hb.
  destruct (nf_form_inv _ d Hn) as [id [wf [script [prons [tags [-> [Hi [Hs [Hnp [Hnt [Hg Hgi]]]]]]]]]]].
  destruct (pack_list _ _ _ _ _ _ (prons_pack version O prons Hnp Hg)) as [xps [pps [Bp _]]].
  destruct (pack_list _ _ _ _ _ _ (tags_pack version O tags Hv Hnt)) as [xts [pts [Bt _]]].
  assert (Hg' : ge_1_1 v = true \/ prons = []).
  { rewrite Hge. destruct (v11 version); [left; reflexivity|]. right. destruct prons; [reflexivity|discriminate]. }
  assert (Hgi' : ge_1_1 v = true \/ id = None).
  { rewrite Hge. destruct (v11 version); [left; reflexivity|]. right. destruct id; [discriminate|reflexivity]. }
  rewrite (build_form_mk v _ _ _ _ _ xps xts Hi Hs Bp Bt Hg' Hgi') in Hb. injection Hb as <-. reflexivity.
Qed.
Lemma xform_built : forall version v d x, v11 version = true -> ge_1_1 v = true ->
  nf_xform d = true -> _build_form d v = Ok x -> xtag x = s_ "ExternalForm".
Proof.
  intros version v d x Hv Hge Hn Hb.
  assert (Hs : supported version = true) by (unfold v11 in Hv; apply andb_true_iff in Hv; apply Hv).
  destruct (nf_xform_inv d Hn) as [c [s [prons [tags [-> [Hnp Hnt]]]]]].
  assert (Hg : (v11 version || is_nil prons) = true) by (rewrite Hv; reflexivity).
  destruct (pack_list _ _ _ _ _ _ (prons_pack version O prons Hnp Hg)) as [xps [pps [Bp _]]].
  destruct (pack_list _ _ _ _ _ _ (tags_pack version O tags Hs Hnt)) as [xts [pts [Bt _]]].
  rewrite (build_xform_mk v c s _ _ xps xts Hge Bp Bt) in Hb. injection Hb as <-. reflexivity.
Qed.

Lemma sense_kids_built : forall version elemtype rels exs cnts, supported version = true ->
  is_rel_tag elemtype = true ->
  forallb nf_relation rels = true -> forallb nf_example exs = true -> forallb nf_count cnts = true ->
  exists xrs xes xcs, mapM (fun r => _build_relation r elemtype) rels = Ok xrs
                      /\ mapM _build_example exs = Ok xes /\ mapM _build_count cnts = Ok xcs.
Proof.
  intros version elemtype rels exs cnts Hv Ht Hnr Hne Hnc.
  assert (Fr : Forall (roundtrips_k version O k_rels (fun r => _build_relation r elemtype) validate_relation) rels).
  { apply (forallb_Forall nf_relation); [|exact Hnr]. intros r Hr. apply relation_pack; assumption. }
  assert (Fe : Forall (roundtrips_k version O k_exs _build_example validate_text_meta) exs).
  { apply (forallb_Forall nf_example); [|exact Hne]. intros r Hr. apply example_pack; assumption. }
  assert (Fc : Forall (roundtrips_k version O k_cnts _build_count validate_count) cnts).
  { apply (forallb_Forall nf_count); [|exact Hnc]. intros r Hr. apply count_pack; assumption. }
  destruct (pack_list_k _ _ _ _ _ _ Fr) as [xrs [prs [Br _]]].
  destruct (pack_list_k _ _ _ _ _ _ Fe) as [xes [pes [Be _]]].
  destruct (pack_list_k _ _ _ _ _ _ Fc) as [xcs [pcs [Bc _]]].
  eauto 10.
Qed.

Lemma sense_built : forall version v d x, supported version = true -> ge_1_1 v = v11 version ->
  nf_sense (v11 version) d = true -> _build_sense d v = Ok x -> xtag x = s_ "Sense".
Proof.
  intros version v d x Hv Hge Hn Hb.
  destruct (nf_sense_inv _ d Hn)
    as [id [synset [lex [adj [subcat [m [rels [exs [cnts [-> [Ha [Hw [Hm [Hnr [Hne [Hnc Hg]]]]]]]]]]]]]]]].
  destruct (sense_kids_built version (s_ "SenseRelation") rels exs cnts Hv eq_refl Hnr Hne Hnc)
    as [xrs [xes [xcs [Br [Be Bc]]]]].
  assert (Hg' : ge_1_1 v = true \/ subcat = []).
  { rewrite Hge. destruct (v11 version); [left; reflexivity|]. right. destruct subcat; [reflexivity|discriminate]. }
  rewrite (build_sense_mk v _ _ _ _ _ _ _ _ _ xrs xes xcs Ha Hw Hm Br Be Bc Hg') in Hb. injection Hb as <-.
  reflexivity.
Qed.
Lemma xsense_built : forall version v d x, supported version = true ->
  nf_xsense d = true -> _build_sense d v = Ok x -> xtag x = s_ "ExternalSense".
Proof.
  intros version v d x Hv Hn Hb.
  destruct (nf_xsense_inv d Hn) as [id [rels [exs [cnts [-> [Hnr [Hne Hnc]]]]]]].
  destruct (sense_kids_built version (s_ "SenseRelation") rels exs cnts Hv eq_refl Hnr Hne Hnc)
    as [xrs [xes [xcs [Br [Be Bc]]]]].
  rewrite (build_xsense_mk v _ _ _ _ xrs xes xcs Br Be Bc) in Hb. injection Hb as <-. reflexivity.
Qed.
Lemma sb10_built : forall v d x, ge_1_1 v = false -> nf_sb10 d = true ->
  _build_syntactic_behaviour d v = Ok x -> xtag x = s_ "SyntacticBehaviour".
Proof.
  intros v d x Hv Hn Hb. destruct (nf_sb10_inv d Hn) as [frame [ws [-> Hw]]].
  rewrite (build_sb10_mk v _ _ Hv Hw) in Hb. injection Hb as <-. reflexivity.
Qed.
Lemma sb11_built : forall v d x, ge_1_1 v = true -> nf_sb11 d = true ->
  _build_syntactic_behaviour d v = Ok x -> xtag x = s_ "SyntacticBehaviour".
Proof.
  intros v d x Hv Hn Hb. destruct (nf_sb11_inv d Hn) as [frame [id [-> Hi]]].
  rewrite (build_sb11_mk v _ _ Hv Hi) in Hb. injection Hb as <-. reflexivity.
Qed.

(* the xml-returning variant of _dump_lexical_entry *)
Definition entry_xml (entry : val) (version : list Z) : result xml :=
  do id <- py_item entry (s_ "id");
  let attrib := [(s_ "id", id)] in
  do ext <- py_get_d entry (s_ "external") (VBool false);
  do head <- (if vtruthy ext then
                do lemma <- py_get entry (s_ "lemma");
                do lem <- (if vtruthy lemma then
                             do le <- py_get_d lemma (s_ "external") (VBool false);
                             do_ assert (vtruthy le);
                             do x <- _build_lemma lemma version; Ok [x]
                           else Ok []);
                Ok (s_ "ExternalLexicalEntry", attrib, lem, [])
              else
                do meta <- py_get entry (s_ "meta");
                do md <- _meta_dict meta;
                let attrib := dict_update attrib md in
                do lemma <- py_item entry (s_ "lemma");
                do lem <- _build_lemma lemma version;
                do frames <- (if lt_1_1 version then
                                do l <- for_get entry (s_ "frames");
                                mapM (fun sb => _build_syntactic_behaviour sb version) l
                              else Ok []);
                Ok (s_ "LexicalEntry", attrib, [lem], frames));
  do l <- for_get entry (s_ "forms");
  do forms <- mapM (fun f => _build_form f version) l;
  do l <- for_get entry (s_ "senses");
  do senses <- mapM (fun s => _build_sense s version) l;
  match head with
  | (tag, attrib, lem, frames) => Ok (Elem tag attrib VNone (lem ++ forms ++ senses ++ frames) None)
  end.

Lemma dump_lexical_entry_xml : forall entry version,
  _dump_lexical_entry entry version = do x <- entry_xml entry version; print_elem x.
Proof.
  intros entry version. unfold _dump_lexical_entry, entry_xml. cbv zeta. peel.
  match goal with |- match ?h with _ => _ end = _ => destruct h as [[[tag a] l] f] end. reflexivity.
Qed.

(* keys id, meta, lemma, forms?, senses?, frames? (1.0 only) *)
Definition mk_entry (id : str) (m lemma : val) (forms senses frames : list val) : val :=
  VDict ([(s_ "id", VStr id); (s_ "meta", m)] ++ entry_kids (Some lemma) forms senses frames).
Definition xml_entry (id : str) (m : val) (xl : xml) (xfs xss xfr : list xml) : xml :=
  Elem (s_ "LexicalEntry") ([(s_ "id", VStr id)] ++ md_of m) VNone
       (opt_list (Some xl) ++ xfs ++ xss ++ xfr) None.
Definition nf_entry (ge : bool) (d : val) : bool :=
  let id := val_str (vget d (s_ "id")) in
  let m := vget d (s_ "meta") in
  let lemma := vget d k_lemma in
  let forms := vlist d k_forms in
  let senses := vlist d k_senses in
  let frames := vlist d k_frames in
  val_eqb d (mk_entry id m lemma forms senses frames) && nf_meta m && nf_lemma ge lemma
  && forallb (nf_form ge) forms && forallb (nf_sense ge) senses && forallb nf_sb10 frames
  && (negb ge || is_nil frames).
Example nf_entry_ex :
  nf_entry true (mk_entry (s_ "w1") VNone (mk_lemma (s_ "colour") None (s_ "n") [] [])
                   [mk_form None (s_ "colours") None [] []]
                   [mk_sense (s_ "w1-s1") (s_ "ss1") true None [] VNone [] [] []] []) = true.
Proof. vm_compute. reflexivity. Qed.

Lemma nf_entry_inv : forall ge d, nf_entry ge d = true ->
  exists id m lemma forms senses frames, d = mk_entry id m lemma forms senses frames
    /\ nf_meta m = true /\ nf_lemma ge lemma = true /\ forallb (nf_form ge) forms = true
    /\ forallb (nf_sense ge) senses = true /\ forallb nf_sb10 frames = true
    /\ (negb ge || is_nil frames) = true.
Proof.
  intros ge d H. unfold nf_entry in H. cbv zeta in H.
  apply andb_true_iff in H. destruct H as [H H7]. apply andb_true_iff in H. destruct H as [H H6].
  apply andb_true_iff in H. destruct H as [H H5]. apply andb_true_iff in H. destruct H as [H H4].
  apply andb_true_iff in H. destruct H as [H H3]. apply andb_true_iff in H. destruct H as [H1 H2].
  apply val_eqb_eq in H1. do 6 eexists. split; [exact H1|]. auto 10.
Qed.

Lemma build_entry_mk : forall v id m lemma forms senses frames xl xfs xss xfr,
  nf_meta m = true -> _build_lemma lemma v = Ok xl ->
  mapM (fun f => _build_form f v) forms = Ok xfs ->
  mapM (fun s => _build_sense s v) senses = Ok xss ->
  mapM (fun sb => _build_syntactic_behaviour sb v) frames = Ok xfr ->
  (ge_1_1 v = false \/ frames = []) ->
  entry_xml (mk_entry id m lemma forms senses frames) v = Ok (xml_entry id m xl xfs xss xfr).
Proof.
  intros v id m lemma forms senses frames xl xfs xss xfr Hm Hl Hf Hs Hfr Hg.
  unfold entry_xml, mk_entry, xml_entry.
  destruct (entry_kids_access [(s_ "id", VStr id); (s_ "meta", m)] (Some lemma) forms senses frames
              eq_refl eq_refl eq_refl eq_refl) as [A1 [A2 [A3 [A4 A5]]]].
  fold k_forms. fold k_senses. fold k_frames. rewrite A3, A4, A5.
  rewrite (py_item_app_l _ _ (s_ "id")) by (apply has_key_entry_kids; reflexivity).
  rewrite (py_get_d_app_l _ _ (s_ "external")) by (apply has_key_entry_kids; reflexivity).
  rewrite (py_get_app_l _ _ (s_ "meta")) by (apply has_key_entry_kids; reflexivity).
  assert (Hli : py_item (VDict ([(s_ "id", VStr id); (s_ "meta", m)] ++ entry_kids (Some lemma) forms senses frames))
                        (s_ "lemma") = Ok lemma).
  { unfold py_item. fold k_lemma. rewrite A1. rewrite vhas_dict.
    unfold entry_kids, k_lemma. cbn [opt_kv app]. rewrite !has_key_cons. keys. cbn [orb]. reflexivity. }
  rewrite Hli. ev_access. cbn [bind vtruthy]. rewrite (meta_dict_nf m Hm). cbn [bind].
  rewrite dict_update_md by (try exact Hm; reflexivity). rewrite Hl. cbn [bind].
  rewrite lt_ge. destruct (ge_1_1 v) eqn:Eg; cbn [negb].
  - destruct Hg as [Hg|Hg]; [discriminate|]. subst frames. cbn [mapM] in Hfr. injection Hfr as <-.
    cbn [bind]. rewrite Hf. cbn [bind]. rewrite Hs. cbn [bind]. reflexivity.
  - rewrite Hfr. cbn [bind]. rewrite Hf. cbn [bind]. rewrite Hs. cbn [bind]. reflexivity.
Qed.

Definition roundtrips_kq (version : str) (level : nat) (key : str)
           (build : val -> result xml) (validate : val -> result val) (Q : val -> Prop) (d : val) : Prop :=
  exists x p, build d = Ok x /\ parsed_under version key (iview version level x) p
              /\ validate p = Ok d /\ Q p.

Lemma pack_list_kq : forall version level key build validate Q ds,
  Forall (roundtrips_kq version level key build validate Q) ds ->
  exists xs ps, mapM build ds = Ok xs
                /\ Forall2 (parsed_under version key) (map (iview version level) xs) ps
                /\ Forall2 (fun p d => validate p = Ok d) ps ds /\ Forall Q ps.
Proof.
  intros version level key build validate Q ds H. induction H as [|d ds [x [p [Hb [Hp [Hv Hq]]]]] Hr IH].
  - exists [], []. repeat split; constructor.
  - destruct IH as [xs [ps [Hm [H1 [H2 H3]]]]]. exists (x :: xs), (p :: ps). repeat split.
    + cbn [mapM]. rewrite Hb. cbn [bind]. rewrite Hm. reflexivity.
    + constructor; assumption.
    + constructor; assumption.
    + constructor; assumption.
Qed.

Lemma single_elem_lemma : forall version, supported version = true ->
  is_list_elem version (s_ "Lemma") = false /\ assoc (s_ "Lemma") (elems_of version) = Some k_lemma.
Proof. intros version H. unfold supported in H. versions H; split; vm_compute; reflexivity. Qed.
Lemma single_elem_xlemma : forall version, v11 version = true ->
  is_list_elem version (s_ "ExternalLemma") = false
  /\ assoc (s_ "ExternalLemma") (elems_of version) = Some k_lemma.
Proof.
  intros version H. unfold v11, supported in H. apply andb_true_iff in H. destruct H as [H H0].
  versions H; try discriminate; split; vm_compute; reflexivity.
Qed.

Lemma form_pack_q : forall version v level ext d, supported version = true -> ge_1_1 v = v11 version ->
  nf_form (v11 version) d = true ->
  roundtrips_kq version level k_forms (fun f => _build_form f v) (_validate_form ext) form_ok d.
Proof.
  intros version v level ext d Hv Hge Hn.
  assert (Hext : vget d (s_ "external") = VNone).
  { destruct (nf_form_inv _ d Hn) as [id [wf [script [prons [tags [-> _]]]]]]. unfold mk_form.
    rewrite vget_app_l by (apply has_key_form_kids; reflexivity).
    destruct id; destruct script; reflexivity. }
  assert (Hb : exists x, _build_form d v = Ok x).
  { destruct (nf_form_inv _ d Hn) as [id [wf [script [prons [tags [-> [Hi [Hs [Hnp [Hnt [Hg Hgi]]]]]]]]]]].
    destruct (pack_list _ _ _ _ _ _ (prons_pack version O prons Hnp Hg)) as [xps [pps [Bp _]]].
    destruct (pack_list _ _ _ _ _ _ (tags_pack version O tags Hv Hnt)) as [xts [pts [Bt _]]].
    eexists. apply (build_form_mk v _ _ _ _ _ xps xts Hi Hs Bp Bt).
    - rewrite Hge. destruct (v11 version); [left; reflexivity|]. right. destruct prons; [reflexivity|discriminate].
    - rewrite Hge. destruct (v11 version); [left; reflexivity|]. right. destruct id; [discriminate|reflexivity]. }
  destruct Hb as [x Hb].
  pose proof (form_roundtrip version v level ext d x Hv Hge Hn Hb) as HR. apply bind_ok in HR.
  destruct HR as [p [Hp Hval]]. exists x, p. split; [exact Hb|].
  destruct (list_elem_10 version (s_ "Form") k_forms Hv) as [L1 L2]; [simpl; auto 10|].
  split; [|split; [exact Hval|]].
  - unfold parsed_under. rewrite iview_name. rewrite (form_built version v d x Hv Hge Hn Hb). auto.
  - destruct (validate_form_same ext p d (s_ "external") Hval eq_refl eq_refl) as [Hd Hg].
    split; [exact Hd|]. left. rewrite Hg. rewrite Hext. reflexivity.
Qed.

Lemma sense_pack : forall version v level ext d, supported version = true -> ge_1_1 v = v11 version ->
  nf_sense (v11 version) d = true ->
  roundtrips_k version level k_senses (fun s => _build_sense s v) (_validate_sense ext) d.
Proof.
  intros version v level ext d Hv Hge Hn.
  assert (Hb : exists x, _build_sense d v = Ok x).
  { destruct (nf_sense_inv _ d Hn)
      as [id [synset [lex [adj [subcat [m [rels [exs [cnts [-> [Ha [Hw [Hm [Hnr [Hne [Hnc Hg]]]]]]]]]]]]]]]].
    destruct (sense_kids_built version (s_ "SenseRelation") rels exs cnts Hv eq_refl Hnr Hne Hnc)
      as [xrs [xes [xcs [Br [Be Bc]]]]].
    eexists. apply (build_sense_mk v _ _ _ _ _ _ _ _ _ xrs xes xcs Ha Hw Hm Br Be Bc).
    rewrite Hge. destruct (v11 version); [left; reflexivity|]. right. destruct subcat; [reflexivity|discriminate]. }
  destruct Hb as [x Hb].
  destruct (list_elem_10 version (s_ "Sense") k_senses Hv) as [L1 L2]; [simpl; auto 10|].
  apply (mk_pack_k version level k_senses _ _ d x (s_ "Sense") Hb (sense_built version v d x Hv Hge Hn Hb) L1 L2).
  apply (sense_roundtrip version v level ext d x); assumption.
Qed.

Lemma sb10_pack : forall version v level d, supported version = true -> ge_1_1 v = false ->
  nf_sb10 d = true ->
  roundtrips_k version level k_frames (fun sb => _build_syntactic_behaviour sb v) _validate_frame d.
Proof.
  intros version v level d Hv Hge Hn. destruct (nf_sb10_inv d Hn) as [frame [ws [-> Hw]]].
  destruct (list_elem_10 version (s_ "SyntacticBehaviour") k_frames Hv) as [L1 L2]; [simpl; auto 20|].
  apply (mk_pack_k version level k_frames (fun sb => _build_syntactic_behaviour sb v) _validate_frame
           (mk_sb10 frame ws) (xml_sb10 frame ws) (s_ "SyntacticBehaviour")
           (build_sb10_mk v frame ws Hge Hw) eq_refl L1 L2).
  unfold xml_sb10. rewrite iview_leaf. apply load_sb10; assumption.
Qed.

Lemma lemma_facts : forall ext p wf script pos prons tags,
  _validate_form ext p = Ok (mk_lemma wf script pos prons tags) -> lemma_ok p.
Proof.
  intros ext p wf script pos prons tags Hval.
  destruct (validate_form_same ext p _ (s_ "partOfSpeech") Hval eq_refl eq_refl) as [Hd Hg].
  assert (Hpos : vget (mk_lemma wf script pos prons tags) (s_ "partOfSpeech") = VStr pos).
  { unfold mk_lemma. rewrite vget_app_l by (apply has_key_form_kids; reflexivity).
    unfold lemma_attrs. destruct script; reflexivity. }
  rewrite Hpos in Hg. destruct (vget_not_none_truthy p (s_ "partOfSpeech") Hd) as [T1 T2].
  { rewrite Hg. discriminate. }
  split; [exact Hd|]. split; [exact T1|]. right. exact T2.
Qed.

Lemma start_attrs_entry : forall version id m, nf_meta m = true ->
  start_attrs version (s_ "LexicalEntry") (expat_attrs version ([(s_ "id", VStr id)] ++ md_of m))
  = VDict [(s_ "id", VStr id); (s_ "meta", m)].
Proof.
  intros version id m Hm. rewrite <- (app_nil_r (md_of m)).
  rewrite start_attrs_view; [| reflexivity | reflexivity | exact Hm | not_meta_elem | reflexivity].
  unfold is_cdata_elem. ev (str_mem (s_ "LexicalEntry") cdata_elems). reflexivity.
Qed.

Lemma entry_roundtrip_full : forall version v level ext d,
  supported version = true -> ge_1_1 v = v11 version ->
  nf_entry (v11 version) d = true ->
  exists x, entry_xml d v = Ok x /\ xtag x = s_ "LexicalEntry"
  /\ (do p <- parse_elem version (iview version level x); _validate_entry ext p) = Ok d.
Proof.
  intros version v level ext d Hv Hge Hn.
  destruct (nf_entry_inv _ d Hn) as [id [m [lemma [forms [senses [frames
      [-> [Hm [Hnl [Hnf [Hns [Hnfr Hg]]]]]]]]]]]].
  (* the lemma *)
  assert (HL : exists xl pl, _build_lemma lemma v = Ok xl
               /\ parsed_single version k_lemma (iview version (S level) xl) pl
               /\ lemma_ok pl /\ _validate_form ext pl = Ok lemma).
  { assert (Hbl : exists xl, _build_lemma lemma v = Ok xl).
    { destruct (nf_lemma_inv _ lemma Hnl) as [wf [script [pos [prons [tags [-> [Hs [Hnp [Hnt Hgp]]]]]]]]].
      destruct (pack_list _ _ _ _ _ _ (prons_pack version O prons Hnp Hgp)) as [xps [pps [Bp _]]].
      destruct (pack_list _ _ _ _ _ _ (tags_pack version O tags Hv Hnt)) as [xts [pts [Bt _]]].
      eexists. apply (build_lemma_mk v _ _ _ _ _ xps xts Hs Bp Bt).
      rewrite Hge. destruct (v11 version); [left; reflexivity|]. right. destruct prons; [reflexivity|discriminate]. }
    destruct Hbl as [xl Hbl].
    pose proof (lemma_roundtrip version v (S level) ext lemma xl Hv Hge Hnl Hbl) as HR. apply bind_ok in HR.
    destruct HR as [pl [Hp Hval]]. exists xl, pl. split; [exact Hbl|].
    destruct (single_elem_lemma version Hv) as [L1 L2].
    split; [|split; [|exact Hval]].
    - unfold parsed_single. rewrite iview_name. rewrite (lemma_built version v lemma xl Hv Hge Hnl Hbl). auto.
    - destruct (nf_lemma_inv _ lemma Hnl) as [wf [script [pos [prons [tags [E _]]]]]]. subst lemma.
      apply (lemma_facts ext pl _ _ _ _ _ Hval). }
  destruct HL as [xl [pl [Bl [Pl [Okl Vl]]]]].
  (* the forms, senses and frames *)
  assert (Ff : Forall (roundtrips_kq version (S level) k_forms (fun f => _build_form f v)
                          (_validate_form ext) form_ok) forms).
  { apply (forallb_Forall (nf_form (v11 version))); [|exact Hnf]. intros f Hf. apply form_pack_q; assumption. }
  assert (Fs : Forall (roundtrips_k version (S level) k_senses (fun s => _build_sense s v)
                         (_validate_sense ext)) senses).
  { apply (forallb_Forall (nf_sense (v11 version))); [|exact Hns]. intros s Hs. apply sense_pack; assumption. }
  assert (Ffr : Forall (roundtrips_k version (S level) k_frames
                          (fun sb => _build_syntactic_behaviour sb v) _validate_frame) frames).
  { destruct (v11 version) eqn:E11.
    - simpl in Hg. destruct frames; [constructor | discriminate].
    - apply (forallb_Forall nf_sb10); [|exact Hnfr]. intros s Hs. apply sb10_pack; assumption. }
  destruct (pack_list_kq _ _ _ _ _ _ _ Ff) as [xfs [pfs [Bf [Pf [Vf Qf]]]]].
  destruct (pack_list_k _ _ _ _ _ _ Fs) as [xss [pss [Bs [Ps Vs]]]].
  destruct (pack_list_k _ _ _ _ _ _ Ffr) as [xfr [pfr [Bfr [Pfr Vfr]]]].
  assert (Hg' : ge_1_1 v = false \/ frames = []).
  { rewrite Hge. destruct (v11 version); [|left; reflexivity]. right. simpl in Hg.
    destruct frames; [reflexivity|discriminate]. }
  exists (xml_entry id m xl xfs xss xfr).
  split; [apply (build_entry_mk v id m lemma forms senses frames xl xfs xss xfr Hm Bl Bf Bs Bfr Hg')|].
  split; [reflexivity|]. unfold xml_entry.
  rewrite (parse_entrylike version level _ _ _ (Some xl) xfs xss xfr (Some pl) pfs pss pfr
             (start_attrs_entry version id m Hm)); try assumption; try reflexivity.
  cbn [bind]. unfold mk_entry.
  apply validate_entrylike; try assumption; try reflexivity.
  - destruct ext; reflexivity.
  - split; assumption.
Qed.
Theorem entry_roundtrip : forall version v level ext d x,
  supported version = true -> ge_1_1 v = v11 version ->
  nf_entry (v11 version) d = true -> entry_xml d v = Ok x ->
  (do p <- parse_elem version (iview version level x); _validate_entry ext p) = Ok d.
Proof.
  intros version v level ext d x Hv Hge Hn Hb.
  destruct (entry_roundtrip_full version v level ext d Hv Hge Hn) as [x' [Hb' [_ H]]].
  rewrite Hb in Hb'. injection Hb' as <-. exact H.
Qed.


(* ---------------- ExternalLexicalEntry (versions >= 1.1, extensions) ---------------- *)
(* keys id, external, lemma? (an ExternalLemma), forms? (Form | ExternalForm), senses? (Sense | ExternalSense) *)
Definition mk_xentry (id : str) (lemma : option val) (forms senses : list val) : val :=
  VDict ([(s_ "id", VStr id); (s_ "external", VBool true)] ++ entry_kids lemma forms senses []).
Definition xml_xentry (id : str) (xl : option xml) (xfs xss : list xml) : xml :=
  Elem (s_ "ExternalLexicalEntry") [(s_ "id", VStr id)] VNone (opt_list xl ++ xfs ++ xss ++ []) None.
Definition nf_anyform (d : val) : bool := nf_form true d || nf_xform d.
Definition nf_anysense (d : val) : bool := nf_sense true d || nf_xsense d.
Definition nf_opt_xlemma (o : option val) : bool := match o with Some l => nf_xlemma l | None => true end.
Definition nf_xentry (d : val) : bool :=
  let id := val_str (vget d (s_ "id")) in
  let lemma := get_opt_dict d k_lemma in
  let forms := vlist d k_forms in
  let senses := vlist d k_senses in
  val_eqb d (mk_xentry id lemma forms senses) && nf_opt_xlemma lemma
  && forallb nf_anyform forms && forallb nf_anysense senses.
Example nf_xentry_ex :
  nf_xentry (mk_xentry (s_ "w1") (Some (mk_xlemma [] [mk_tag (s_ "c") (s_ "t")]))
               [mk_xform (s_ "f1") [] []; mk_form (Some (s_ "f2")) (s_ "new") None [] []]
               [mk_xsense (s_ "w1-s1") [] [] []]) = true.
Proof. vm_compute. reflexivity. Qed.

Lemma nf_xentry_inv : forall d, nf_xentry d = true ->
  exists id lemma forms senses, d = mk_xentry id lemma forms senses
    /\ nf_opt_xlemma lemma = true /\ forallb nf_anyform forms = true /\ forallb nf_anysense senses = true.
Proof.
  intros d H. unfold nf_xentry in H. cbv zeta in H.
  apply andb_true_iff in H. destruct H as [H H4]. apply andb_true_iff in H. destruct H as [H H3].
  apply andb_true_iff in H. destruct H as [H1 H2]. apply val_eqb_eq in H1. eauto 10.
Qed.

Definition xlemma_built_opt (v : list Z) (lemma : option val) (xl : option xml) : Prop :=
  match lemma, xl with
  | Some l, Some x => vtruthy l = true /\ py_get_d l (s_ "external") (VBool false) = Ok (VBool true)
                      /\ _build_lemma l v = Ok x
  | None, None => True
  | _, _ => False
  end.

Lemma build_xentry_mk : forall v id lemma forms senses xl xfs xss,
  xlemma_built_opt v lemma xl ->
  mapM (fun f => _build_form f v) forms = Ok xfs ->
  mapM (fun s => _build_sense s v) senses = Ok xss ->
  entry_xml (mk_xentry id lemma forms senses) v = Ok (xml_xentry id xl xfs xss).
Proof.
  intros v id lemma forms senses xl xfs xss Hl Hf Hs. unfold entry_xml, mk_xentry, xml_xentry.
  destruct (entry_kids_access [(s_ "id", VStr id); (s_ "external", VBool true)] lemma forms senses []
              eq_refl eq_refl eq_refl eq_refl) as [A1 [A2 [A3 [A4 A5]]]].
  fold k_forms. fold k_senses. rewrite A3, A4.
  rewrite (py_item_app_l _ _ (s_ "id")) by (apply has_key_entry_kids; reflexivity).
  rewrite (py_get_d_app_l _ _ (s_ "external")) by (apply has_key_entry_kids; reflexivity).
  rewrite (py_get_dict _ (s_ "lemma")). fold k_lemma. rewrite A1.
  ev_access. cbn [bind vtruthy].
  assert (Hlem : (if vtruthy match lemma with Some l => l | None => VNone end
                  then do le <- py_get_d match lemma with Some l => l | None => VNone end (s_ "external") (VBool false);
                       do_ assert (vtruthy le);
                       do x <- _build_lemma match lemma with Some l => l | None => VNone end v; Ok [x]
                  else Ok []) = Ok (opt_list xl)).
  { unfold xlemma_built_opt in Hl. destruct lemma as [l|]; destruct xl as [x|]; try contradiction.
    - destruct Hl as [Ht [He Hb]]. rewrite Ht, He. cbn [bind vtruthy assert]. rewrite Hb. reflexivity.
    - reflexivity. }
  rewrite Hlem. cbn [bind]. rewrite Hf. cbn [bind]. rewrite Hs. cbn [bind]. reflexivity.
Qed.

Lemma start_attrs_xentry : forall version id,
  start_attrs version (s_ "ExternalLexicalEntry") (expat_attrs version [(s_ "id", VStr id)])
  = VDict [(s_ "id", VStr id); (s_ "external", VBool true)].
Proof.
  intros version id. rewrite start_attrs_plain by reflexivity. unfold is_cdata_elem.
  ev (str_mem (s_ "ExternalLexicalEntry") cdata_elems). reflexivity.
Qed.

Lemma anyform_pack_q : forall version v level d, v11 version = true -> ge_1_1 v = true ->
  nf_anyform d = true ->
  roundtrips_kq version level k_forms (fun f => _build_form f v) (_validate_form true) form_ok d.
Proof.
  intros version v level d Hv Hge Hn.
  assert (Hs : supported version = true) by (unfold v11 in Hv; apply andb_true_iff in Hv; apply Hv).
  assert (Hge' : ge_1_1 v = v11 version) by (rewrite Hv; exact Hge).
  unfold nf_anyform in Hn. apply orb_true_iff in Hn. destruct Hn as [Hn|Hn].
  - apply form_pack_q; try assumption. rewrite Hv. exact Hn.
  - assert (Hb : exists x, _build_form d v = Ok x).
    { destruct (nf_xform_inv d Hn) as [c [s [prons [tags [-> [Hnp Hnt]]]]]].
      assert (Hg : (v11 version || is_nil prons) = true) by (rewrite Hv; reflexivity).
      destruct (pack_list _ _ _ _ _ _ (prons_pack version O prons Hnp Hg)) as [xps [pps [Bp _]]].
      destruct (pack_list _ _ _ _ _ _ (tags_pack version O tags Hs Hnt)) as [xts [pts [Bt _]]].
      eexists. apply (build_xform_mk v c s _ _ xps xts Hge Bp Bt). }
    destruct Hb as [x Hb].
    pose proof (xform_roundtrip version v level d x Hv Hge Hn Hb) as HR. apply bind_ok in HR.
    destruct HR as [p [Hp Hval]]. exists x, p. split; [exact Hb|].
    destruct (list_elem_11 version (s_ "ExternalForm") k_forms Hv) as [L1 L2]; [simpl; auto 10|].
    split; [|split; [exact Hval|]].
    + unfold parsed_under. rewrite iview_name. rewrite (xform_built version v d x Hv Hge Hn Hb). auto.
    + destruct (validate_form_same true p d (s_ "id") Hval eq_refl eq_refl) as [Hd Hg].
      split; [exact Hd|]. right. rewrite Hg.
      destruct (nf_xform_inv d Hn) as [c [s [prons [tags [-> _]]]]]. reflexivity.
Qed.

Lemma anysense_pack : forall version v level d, v11 version = true -> ge_1_1 v = true ->
  nf_anysense d = true ->
  roundtrips_k version level k_senses (fun s => _build_sense s v) (_validate_sense true) d.
Proof.
  intros version v level d Hv Hge Hn.
  assert (Hs : supported version = true) by (unfold v11 in Hv; apply andb_true_iff in Hv; apply Hv).
  assert (Hge' : ge_1_1 v = v11 version) by (rewrite Hv; exact Hge).
  unfold nf_anysense in Hn. apply orb_true_iff in Hn. destruct Hn as [Hn|Hn].
  - apply sense_pack; try assumption. rewrite Hv. exact Hn.
  - assert (Hb : exists x, _build_sense d v = Ok x).
    { destruct (nf_xsense_inv d Hn) as [id [rels [exs [cnts [-> [Hnr [Hne Hnc]]]]]]].
      destruct (sense_kids_built version (s_ "SenseRelation") rels exs cnts Hs eq_refl Hnr Hne Hnc)
        as [xrs [xes [xcs [Br [Be Bc]]]]].
      eexists. apply (build_xsense_mk v _ _ _ _ xrs xes xcs Br Be Bc). }
    destruct Hb as [x Hb].
    destruct (list_elem_11 version (s_ "ExternalSense") k_senses Hv) as [L1 L2]; [simpl; auto 10|].
    apply (mk_pack_k version level k_senses (fun s => _build_sense s v) (_validate_sense true) d x
             (s_ "ExternalSense") Hb (xsense_built version v d x Hs Hn Hb) L1 L2).
    apply (xsense_roundtrip version v level d x); assumption.
Qed.

Lemma xentry_roundtrip_full : forall version v level d,
  v11 version = true -> ge_1_1 v = true -> nf_xentry d = true ->
  exists x, entry_xml d v = Ok x /\ xtag x = s_ "ExternalLexicalEntry"
  /\ (do p <- parse_elem version (iview version level x); _validate_entry true p) = Ok d.
Proof.
  intros version v level d Hv Hge Hn.
  assert (Hs : supported version = true) by (unfold v11 in Hv; apply andb_true_iff in Hv; apply Hv).
  destruct (nf_xentry_inv d Hn) as [id [lemma [forms [senses [-> [Hnl [Hnf Hns]]]]]]].
  (* the optional ExternalLemma *)
  assert (HL : exists xl pl, xlemma_built_opt v lemma xl /\ lemma_parsed version (S level) xl pl
                             /\ lemma_validated true pl lemma).
  { destruct lemma as [l|]; [|exists None, None; repeat split].
    simpl in Hnl.
    assert (Hbl : exists xl, _build_lemma l v = Ok xl).
    { destruct (nf_xlemma_inv l Hnl) as [prons [tags [-> [Hnp Hnt]]]].
      assert (Hg : (v11 version || is_nil prons) = true) by (rewrite Hv; reflexivity).
      destruct (pack_list _ _ _ _ _ _ (prons_pack version O prons Hnp Hg)) as [xps [pps [Bp _]]].
      destruct (pack_list _ _ _ _ _ _ (tags_pack version O tags Hs Hnt)) as [xts [pts [Bt _]]].
      eexists. apply (build_xlemma_mk v _ _ xps xts Bp Bt (or_introl Hge)). }
    destruct Hbl as [xl Hbl].
    pose proof (xlemma_roundtrip version v (S level) l xl Hv Hge Hnl Hbl) as HR. apply bind_ok in HR.
    destruct HR as [pl [Hp Hval]]. exists (Some xl), (Some pl).
    destruct (nf_xlemma_inv l Hnl) as [prons [tags [E _]]].
    split; [|split].
    - subst l. split; [reflexivity|]. split; [|exact Hbl]. unfold mk_xlemma.
      rewrite py_get_d_app_l by (apply has_key_form_kids; reflexivity). reflexivity.
    - destruct (single_elem_xlemma version Hv) as [L1 L2]. unfold lemma_parsed, parsed_single.
      rewrite iview_name. rewrite (xlemma_built version v l xl Hv Hge Hnl Hbl). auto.
    - split; [|exact Hval].
      destruct (validate_form_same true pl l (s_ "external") Hval eq_refl eq_refl) as [Hd Hg].
      assert (Hext : vget l (s_ "external") = VBool true).
      { subst l. unfold mk_xlemma. rewrite vget_app_l by (apply has_key_form_kids; reflexivity). reflexivity. }
      rewrite Hext in Hg. destruct (vget_not_none_truthy pl (s_ "external") Hd) as [T1 T2].
      { rewrite Hg. discriminate. }
      split; [exact Hd|]. split; [exact T1|]. left. rewrite Hg. reflexivity. }
  destruct HL as [xl [pl [Bl [Pl Vl]]]].
  assert (Ff : Forall (roundtrips_kq version (S level) k_forms (fun f => _build_form f v)
                          (_validate_form true) form_ok) forms).
  { apply (forallb_Forall nf_anyform); [|exact Hnf]. intros f Hf. apply anyform_pack_q; assumption. }
  assert (Fs : Forall (roundtrips_k version (S level) k_senses (fun s => _build_sense s v)
                         (_validate_sense true)) senses).
  { apply (forallb_Forall nf_anysense); [|exact Hns]. intros s Hss. apply anysense_pack; assumption. }
  destruct (pack_list_kq _ _ _ _ _ _ _ Ff) as [xfs [pfs [Bf [Pf [Vf Qf]]]]].
  destruct (pack_list_k _ _ _ _ _ _ Fs) as [xss [pss [Bs [Ps Vs]]]].
  exists (xml_xentry id xl xfs xss).
  split; [apply (build_xentry_mk v id lemma forms senses xl xfs xss Bl Bf Bs)|].
  split; [reflexivity|]. unfold xml_xentry.
  rewrite (parse_entrylike version level _ _ _ xl xfs xss [] pl pfs pss []
             (start_attrs_xentry version id)); try assumption; try reflexivity; try constructor.
  cbn [bind]. unfold mk_xentry.
  apply validate_entrylike; try assumption; try reflexivity; constructor.
Qed.
Theorem xentry_roundtrip : forall version v level d x,
  v11 version = true -> ge_1_1 v = true -> nf_xentry d = true -> entry_xml d v = Ok x ->
  (do p <- parse_elem version (iview version level x); _validate_entry true p) = Ok d.
Proof.
  intros version v level d x Hv Hge Hn Hb.
  destruct (xentry_roundtrip_full version v level d Hv Hge Hn) as [x' [Hb' [_ H]]].
  rewrite Hb in Hb'. injection Hb' as <-. exact H.
Qed.


(* ====================================================================== *)
(* 14. Lexicon / LexiconExtension                                         *)
(* ====================================================================== *)
(* the xml-returning variant of _dump_lexicon (the start tag is written by hand in
   the source; lexicon_text below reproduces the text from this element) *)
Definition lexicon_xml (lexicon : val) (version : list Z) : result xml :=
  do ext <- py_get lexicon (s_ "extends");
  let is_ext := vtruthy ext in
  let lexicontype := if is_ext then s_ "LexiconExtension" else s_ "Lexicon" in
  do attrib <- _build_lexicon_attrib lexicon version;
  do deps <- (if ge_1_1 version then
                do e <- (if is_ext then
                           do_ assert (vtruthy ext);
                           do x <- py_item lexicon (s_ "extends");
                           do y <- dep_xml x (s_ "Extends"); Ok [y]
                         else Ok []);
                do l <- for_get lexicon (s_ "requires");
                do reqs <- mapM (fun r => dep_xml r (s_ "Requires")) l;
                Ok (e ++ reqs)
              else Ok []);
  do l <- for_get lexicon (s_ "entries");
  do entries <- mapM (fun e => entry_xml e version) l;
  do l <- for_get lexicon (s_ "synsets");
  do synsets <- mapM (fun s => synset_xml s version) l;
  do frames <- (if ge_1_1 version then
                  do l <- for_get lexicon (s_ "frames");
                  mapM (fun sb => _build_syntactic_behaviour sb version) l
                else Ok []);
  Ok (Elem lexicontype attrib VNone (deps ++ entries ++ synsets ++ frames) None).

Definition k_extends : str := s_ "extends".
Definition k_requires : str := s_ "requires".
Definition k_entries : str := s_ "entries".
Definition k_synsets : str := s_ "synsets".
Definition lex_kids (extends : option val) (requires entries synsets frames : list val) : list (str * val) :=
  opt_kv k_extends extends ++ optl k_requires requires ++ optl k_entries entries
  ++ optl k_synsets synsets ++ optl k_frames frames.

Lemma has_key_lex_kids : forall k extends requires entries synsets frames,
  str_eqb k_extends k = false -> str_eqb k_requires k = false -> str_eqb k_entries k = false ->
  str_eqb k_synsets k = false -> str_eqb k_frames k = false ->
  has_key k (lex_kids extends requires entries synsets frames) = false.
Proof.
  intros k extends requires entries synsets frames H1 H2 H3 H4 H5. unfold lex_kids. rewrite !has_key_app.
  rewrite has_key_opt. rewrite H1. rewrite (has_key_optl k k_requires requires H2).
  rewrite (has_key_optl k k_entries entries H3). rewrite (has_key_optl k k_synsets synsets H4).
  rewrite (has_key_optl k k_frames frames H5). destruct extends; reflexivity.
Qed.

Lemma lex_kids_access : forall pre extends requires entries synsets frames,
  has_key k_extends pre = false -> has_key k_requires pre = false -> has_key k_entries pre = false ->
  has_key k_synsets pre = false -> has_key k_frames pre = false ->
  vget (VDict (pre ++ lex_kids extends requires entries synsets frames)) k_extends
    = match extends with Some e => e | None => VNone end
  /\ vhas (VDict (pre ++ lex_kids extends requires entries synsets frames)) k_extends
     = match extends with Some _ => true | None => false end
  /\ for_get (VDict (pre ++ lex_kids extends requires entries synsets frames)) k_requires = Ok requires
  /\ for_get (VDict (pre ++ lex_kids extends requires entries synsets frames)) k_entries = Ok entries
  /\ for_get (VDict (pre ++ lex_kids extends requires entries synsets frames)) k_synsets = Ok synsets
  /\ for_get (VDict (pre ++ lex_kids extends requires entries synsets frames)) k_frames = Ok frames.
Proof.
  intros pre extends requires entries synsets frames H1 H2 H3 H4 H5. unfold lex_kids.
  assert (Hx : forall k, str_eqb k_extends k = false -> has_key k pre = false ->
               has_key k (pre ++ opt_kv k_extends extends) = false).
  { intros k Hk Hp. rewrite has_key_app. rewrite Hp. rewrite has_key_opt. rewrite Hk. destruct extends; reflexivity. }
  split; [|split; [|split; [|split; [|split]]]].
  - rewrite vget_app. rewrite H1. rewrite vget_app. rewrite has_key_opt. destruct extends as [e|].
    + rewrite str_eqb_refl. cbn [opt_kv]. rewrite vget_cons. rewrite str_eqb_refl. reflexivity.
    + apply vget_absent. rewrite !has_key_app. rewrite (has_key_optl k_extends k_requires requires eq_refl).
      rewrite (has_key_optl k_extends k_entries entries eq_refl).
      rewrite (has_key_optl k_extends k_synsets synsets eq_refl).
      rewrite (has_key_optl k_extends k_frames frames eq_refl). reflexivity.
  - rewrite vhas_dict. rewrite !has_key_app. rewrite H1. rewrite has_key_opt.
    rewrite (has_key_optl k_extends k_requires requires eq_refl).
    rewrite (has_key_optl k_extends k_entries entries eq_refl).
    rewrite (has_key_optl k_extends k_synsets synsets eq_refl).
    rewrite (has_key_optl k_extends k_frames frames eq_refl).
    destruct extends; [rewrite str_eqb_refl|]; reflexivity.
  - rewrite (app_assoc pre). apply for_get_optl; [apply Hx; [reflexivity | exact H2]|].
    rewrite !has_key_app. rewrite (has_key_optl k_requires k_entries entries eq_refl).
    rewrite (has_key_optl k_requires k_synsets synsets eq_refl).
    rewrite (has_key_optl k_requires k_frames frames eq_refl). reflexivity.
  - rewrite (app_assoc pre). rewrite (app_assoc (pre ++ opt_kv k_extends extends)). apply for_get_optl.
    + rewrite has_key_app. rewrite (Hx k_entries eq_refl H3). apply has_key_optl. reflexivity.
    + rewrite !has_key_app. rewrite (has_key_optl k_entries k_synsets synsets eq_refl).
      rewrite (has_key_optl k_entries k_frames frames eq_refl). reflexivity.
  - rewrite (app_assoc pre). rewrite (app_assoc (pre ++ opt_kv k_extends extends)).
    rewrite (app_assoc ((pre ++ opt_kv k_extends extends) ++ optl k_requires requires)). apply for_get_optl.
    + do 2 rewrite has_key_app. rewrite (Hx k_synsets eq_refl H4).
      rewrite (has_key_optl k_synsets k_requires requires eq_refl).
      rewrite (has_key_optl k_synsets k_entries entries eq_refl). reflexivity.
    + apply has_key_optl. reflexivity.
  - rewrite (app_assoc pre). rewrite (app_assoc (pre ++ opt_kv k_extends extends)).
    rewrite (app_assoc ((pre ++ opt_kv k_extends extends) ++ optl k_requires requires)).
    rewrite (app_assoc (((pre ++ opt_kv k_extends extends) ++ optl k_requires requires) ++ optl k_entries entries)).
    rewrite <- (app_nil_r (optl k_frames frames)). apply for_get_optl; [|reflexivity].
    do 3 rewrite has_key_app. rewrite (Hx k_frames eq_refl H5).
    rewrite (has_key_optl k_frames k_requires requires eq_refl).
    rewrite (has_key_optl k_frames k_entries entries eq_refl).
    rewrite (has_key_optl k_frames k_synsets synsets eq_refl). reflexivity.
Qed.

(* the plain attributes *)
Definition lex_attrs (id label language email license ver : str) (url citation logo : option str)
  : list (str * val) :=
  [(s_ "id", VStr id); (s_ "label", VStr label); (s_ "language", VStr language);
   (s_ "email", VStr email); (s_ "license", VStr license); (s_ "version", VStr ver)]
  ++ opt_s (s_ "url") url ++ opt_s (s_ "citation") citation ++ opt_s (s_ "logo") logo.
(* keys id, label, language, email, license, version, url?, citation?, logo? (>= 1.1), meta,
   extends? (>= 1.1), requires? (>= 1.1), entries?, synsets?, frames? (>= 1.1) *)
Definition mk_lexicon (id label language email license ver : str) (url citation logo : option str)
           (m : val) (extends : option val) (requires entries synsets frames : list val) : val :=
  VDict ((lex_attrs id label language email license ver url citation logo ++ [(s_ "meta", m)])
         ++ lex_kids extends requires entries synsets frames).
Definition lex_tag (extends : option val) : str :=
  match extends with Some _ => s_ "LexiconExtension" | None => s_ "Lexicon" end.
Definition xml_lexicon (id label language email license ver : str) (url citation logo : option str)
           (m : val) (extends : option val) (xe : option xml) (xrq xen xsy xfr : list xml) : xml :=
  Elem (lex_tag extends)
       (lex_attrs id label language email license ver url citation logo ++ md_of m) VNone
       ((opt_list xe ++ xrq) ++ xen ++ xsy ++ xfr) None.

(* ---- the children of a lexicon, packaged ---- *)
Definition nf_entry_b (ge b : bool) (d : val) : bool := nf_entry ge d || (b && nf_xentry d).
Definition nf_synset_b (ge b : bool) (d : val) : bool := nf_synset ge d || (b && nf_xsynset d).

Lemma entry_pack_b : forall version v level (b : bool) d,
  supported version = true -> ge_1_1 v = v11 version -> (b = true -> v11 version = true) ->
  nf_entry_b (v11 version) b d = true ->
  roundtrips_k version level k_entries (fun e => entry_xml e v) (_validate_entry b) d.
Proof.
  intros version v level b d Hv Hge Hb Hn. unfold nf_entry_b in Hn. apply orb_true_iff in Hn.
  destruct Hn as [Hn|Hn].
  - destruct (entry_roundtrip_full version v level b d Hv Hge Hn) as [x [Bx [Tx Rx]]].
    destruct (list_elem_10 version (s_ "LexicalEntry") k_entries Hv) as [L1 L2]; [simpl; auto 10|].
    apply (mk_pack_k version level k_entries (fun e => entry_xml e v) (_validate_entry b) d x _ Bx Tx L1 L2 Rx).
  - apply andb_true_iff in Hn. destruct Hn as [Eb Hn]. subst b. pose proof (Hb eq_refl) as H11.
    assert (Hge' : ge_1_1 v = true) by (rewrite Hge; exact H11).
    destruct (xentry_roundtrip_full version v level d H11 Hge' Hn) as [x [Bx [Tx Rx]]].
    destruct (list_elem_11 version (s_ "ExternalLexicalEntry") k_entries H11) as [L1 L2]; [simpl; auto 10|].
    apply (mk_pack_k version level k_entries (fun e => entry_xml e v) (_validate_entry true) d x _ Bx Tx L1 L2 Rx).
Qed.

Lemma synset_pack_b : forall version v level (b : bool) d,
  supported version = true -> ge_1_1 v = v11 version -> (b = true -> v11 version = true) ->
  nf_synset_b (v11 version) b d = true ->
  roundtrips_k version level k_synsets (fun s => synset_xml s v) (_validate_synset b) d.
Proof.
  intros version v level b d Hv Hge Hb Hn. unfold nf_synset_b in Hn. apply orb_true_iff in Hn.
  destruct Hn as [Hn|Hn].
  - destruct (synset_roundtrip_full version v level b d Hv Hge Hn) as [x [Bx [Tx Rx]]].
    destruct (list_elem_10 version (s_ "Synset") k_synsets Hv) as [L1 L2]; [simpl; auto 10|].
    apply (mk_pack_k version level k_synsets (fun s => synset_xml s v) (_validate_synset b) d x _ Bx Tx L1 L2 Rx).
  - apply andb_true_iff in Hn. destruct Hn as [Eb Hn]. subst b. pose proof (Hb eq_refl) as H11.
    destruct (xsynset_roundtrip_full version v level d Hv Hn) as [x [Bx [Tx Rx]]].
    destruct (list_elem_11 version (s_ "ExternalSynset") k_synsets H11) as [L1 L2]; [simpl; auto 10|].
    apply (mk_pack_k version level k_synsets (fun s => synset_xml s v) (_validate_synset true) d x _ Bx Tx L1 L2 Rx).
Qed.

Lemma sb11_pack : forall version v level d, supported version = true -> ge_1_1 v = true ->
  nf_sb11 d = true ->
  roundtrips_k version level k_frames (fun sb => _build_syntactic_behaviour sb v) _validate_frame d.
Proof.
  intros version v level d Hv Hge Hn. destruct (nf_sb11_inv d Hn) as [frame [id [-> Hi]]].
  destruct (list_elem_10 version (s_ "SyntacticBehaviour") k_frames Hv) as [L1 L2]; [simpl; auto 20|].
  apply (mk_pack_k version level k_frames (fun sb => _build_syntactic_behaviour sb v) _validate_frame
           (mk_sb11 frame id) (xml_sb11 frame id) (s_ "SyntacticBehaviour")
           (build_sb11_mk v frame id Hge Hi) eq_refl L1 L2).
  unfold xml_sb11. rewrite iview_leaf. apply load_sb11; assumption.
Qed.

(* Requires: nothing is validated away, the parsed dictionary is the original one *)
Lemma requires_pack : forall version level d, v11 version = true -> nf_dep d = true ->
  roundtrips_k version level k_requires (fun r => dep_xml r (s_ "Requires")) (fun p => Ok p) d.
Proof.
  intros version level d Hv Hn. destruct (nf_dep_inv d Hn) as [id [ver [url [-> Hu]]]].
  destruct (list_elem_11 version (s_ "Requires") k_requires Hv) as [L1 L2]; [simpl; auto 10|].
  apply (mk_pack_k version level k_requires (fun r => dep_xml r (s_ "Requires")) (fun p => Ok p)
           (mk_dep id ver url) (xml_dep (s_ "Requires") id ver url) (s_ "Requires")
           (build_dep_mk _ id ver url Hu) eq_refl L1 L2).
  unfold xml_dep. rewrite iview_leaf. fold (xml_dep (s_ "Requires") id ver url).
  rewrite (load_dep version (s_ "Requires") id ver url Hv eq_refl Hu). reflexivity.
Qed.

Lemma Forall2_ok_eq : forall (ps ds : list val), Forall2 (fun p d => Ok p = Ok d) ps ds -> ps = ds.
Proof.
  intros ps ds H. induction H as [|p d ps ds Hp Hr IH]; [reflexivity|]. injection Hp as ->. f_equal. exact IH.
Qed.

(* ---- the attributes ---- *)
Lemma build_lexicon_attrib_mk : forall v id label language email license ver url citation logo m kids,
  ne_opt url = true -> ne_opt citation = true -> ne_opt logo = true -> nf_meta m = true ->
  (ge_1_1 v = true \/ logo = None) ->
  (forall k, str_mem k (map s_ ["id"; "label"; "language"; "email"; "license"; "version";
                                "url"; "citation"; "logo"; "meta"]%string) = true ->
             has_key k kids = false) ->
  _build_lexicon_attrib
    (VDict ((lex_attrs id label language email license ver url citation logo ++ [(s_ "meta", m)]) ++ kids)) v
  = Ok (lex_attrs id label language email license ver url citation logo ++ md_of m).
Proof.
  intros v id label language email license ver url citation logo m kids Hu Hc Hl Hm Hg Hk.
  unfold _build_lexicon_attrib. cbn [map mapM].
  rewrite (py_item_app_l _ _ (s_ "id")) by (apply Hk; reflexivity).
  rewrite (py_item_app_l _ _ (s_ "label")) by (apply Hk; reflexivity).
  rewrite (py_item_app_l _ _ (s_ "language")) by (apply Hk; reflexivity).
  rewrite (py_item_app_l _ _ (s_ "email")) by (apply Hk; reflexivity).
  rewrite (py_item_app_l _ _ (s_ "license")) by (apply Hk; reflexivity).
  rewrite (py_item_app_l _ _ (s_ "version")) by (apply Hk; reflexivity).
  unfold opt_attr.
  rewrite (py_get_app_l _ _ (s_ "url")) by (apply Hk; reflexivity).
  rewrite (py_get_app_l _ _ (s_ "citation")) by (apply Hk; reflexivity).
  rewrite (py_get_app_l _ _ (s_ "logo")) by (apply Hk; reflexivity).
  rewrite (py_get_app_l _ _ (s_ "meta")) by (apply Hk; reflexivity).
  unfold lex_attrs.
  destruct (ge_1_1 v).
  - destruct url as [[|c1 s1]|]; try discriminate; destruct citation as [[|c2 s2]|]; try discriminate;
      destruct logo as [[|c3 s3]|]; try discriminate;
      ev_access; cbn [bind vtruthy]; rewrite (meta_dict_nf m Hm); cbn [bind];
      (rewrite dict_update_md by (try exact Hm; reflexivity)); reflexivity.
  - destruct Hg as [Hg|Hg]; [discriminate|]. subst logo.
    destruct url as [[|c1 s1]|]; try discriminate; destruct citation as [[|c2 s2]|]; try discriminate;
      ev_access; cbn [bind vtruthy]; rewrite (meta_dict_nf m Hm); cbn [bind];
      (rewrite dict_update_md by (try exact Hm; reflexivity)); reflexivity.
Qed.

Definition extends_built (extends : option val) (xe : option xml) : Prop :=
  match extends, xe with
  | Some e, Some x => vtruthy e = true /\ dep_xml e (s_ "Extends") = Ok x
  | None, None => True
  | _, _ => False
  end.

Lemma lex_pre_keys : forall id label language email license ver url citation logo m k,
  str_mem k [k_extends; k_requires; k_entries; k_synsets; k_frames] = true ->
  has_key k (lex_attrs id label language email license ver url citation logo ++ [(s_ "meta", m)]) = false.
Proof.
  intros id label language email license ver url citation logo m k Hk. apply str_mem_In in Hk. simpl in Hk.
  destruct url; destruct citation; destruct logo; destruct Hk as [<-|[<-|[<-|[<-|[<-|[]]]]]]; reflexivity.
Qed.

Lemma lex_kids_plain_keys : forall extends requires entries synsets frames k,
  str_mem k (map s_ ["id"; "label"; "language"; "email"; "license"; "version";
                     "url"; "citation"; "logo"; "meta"]%string) = true ->
  has_key k (lex_kids extends requires entries synsets frames) = false.
Proof.
  intros extends requires entries synsets frames k Hk. apply str_mem_In in Hk. simpl in Hk.
  repeat (destruct Hk as [<-|Hk]; [apply has_key_lex_kids; reflexivity|]). contradiction.
Qed.

Lemma build_lexicon_mk : forall v id label language email license ver url citation logo m
                                extends requires entries synsets frames xe xrq xen xsy xfr,
  ne_opt url = true -> ne_opt citation = true -> ne_opt logo = true -> nf_meta m = true ->
  extends_built extends xe ->
  mapM (fun r => dep_xml r (s_ "Requires")) requires = Ok xrq ->
  mapM (fun e => entry_xml e v) entries = Ok xen ->
  mapM (fun s => synset_xml s v) synsets = Ok xsy ->
  mapM (fun sb => _build_syntactic_behaviour sb v) frames = Ok xfr ->
  (ge_1_1 v = true \/ (logo = None /\ extends = None /\ requires = [] /\ frames = [])) ->
  lexicon_xml (mk_lexicon id label language email license ver url citation logo m
                 extends requires entries synsets frames) v
  = Ok (xml_lexicon id label language email license ver url citation logo m extends xe xrq xen xsy xfr).
Proof.
  intros v id label language email license ver url citation logo m extends requires entries synsets frames
         xe xrq xen xsy xfr Hu Hc Hl Hm He Hrq Hen Hsy Hfr Hg.
  unfold lexicon_xml, mk_lexicon, xml_lexicon.
  pose proof (lex_pre_keys id label language email license ver url citation logo m) as Hpre.
  destruct (lex_kids_access _ extends requires entries synsets frames
              (Hpre k_extends eq_refl) (Hpre k_requires eq_refl) (Hpre k_entries eq_refl)
              (Hpre k_synsets eq_refl) (Hpre k_frames eq_refl)) as [A1 [A2 [A3 [A4 [A5 A6]]]]].
  rewrite (py_get_dict _ (s_ "extends")). fold k_extends. rewrite A1. cbn [bind]. cbv zeta.
  rewrite build_lexicon_attrib_mk; try assumption;
    [| destruct Hg as [Hg|[Hg _]]; [left; exact Hg | right; exact Hg]
     | apply lex_kids_plain_keys].
  cbn [bind]. fold k_requires. fold k_entries. fold k_synsets. fold k_frames.
  rewrite A3, A4, A5, A6. unfold py_item. rewrite A2, A1.
  destruct (ge_1_1 v) eqn:Eg.
  - unfold extends_built in He. destruct extends as [e|]; destruct xe as [x|]; try contradiction.
    + destruct He as [Ht Hd]. rewrite Ht. cbn [bind assert]. rewrite Hd. cbn [bind]. rewrite Hrq. cbn [bind].
      rewrite Hen. cbn [bind]. rewrite Hsy. cbn [bind]. rewrite Hfr. cbn [bind]. reflexivity.
    + cbn [vtruthy bind]. rewrite Hrq. cbn [bind].
      rewrite Hen. cbn [bind]. rewrite Hsy. cbn [bind]. rewrite Hfr. cbn [bind]. reflexivity.
  - destruct Hg as [Hg|[_ [Hg1 [Hg2 Hg3]]]]; [discriminate|]. subst extends requires frames.
    destruct xe; [contradiction|]. cbn [mapM] in Hrq, Hfr. injection Hrq as <-. injection Hfr as <-.
    cbn [vtruthy bind]. rewrite Hen. cbn [bind]. rewrite Hsy. cbn [bind]. reflexivity.
Qed.

Lemma single_elem_extends : forall version, v11 version = true ->
  is_list_elem version (s_ "Extends") = false /\ assoc (s_ "Extends") (elems_of version) = Some k_extends.
Proof.
  intros version H. unfold v11, supported in H. apply andb_true_iff in H. destruct H as [H H0].
  versions H; try discriminate; split; vm_compute; reflexivity.
Qed.

Definition extends_parsed (version : str) (level : nat) (xe : option xml) (pe : option val) : Prop :=
  match xe, pe with
  | Some x, Some p => parsed_single version k_extends (iview version level x) p
  | None, None => True
  | _, _ => False
  end.

(* the reader on a lexicon: the children are at indentation level 2 in the file *)
Lemma parse_lexlike : forall version tag A D0 T xe xrq xen xsy xfr pe prq pen psy pfr,
  start_attrs version tag (expat_attrs version A) = VDict D0 ->
  has_key (s_ "text") D0 = false -> has_key k_extends D0 = false -> has_key k_requires D0 = false ->
  has_key k_entries D0 = false -> has_key k_synsets D0 = false -> has_key k_frames D0 = false ->
  extends_parsed version 2 xe pe ->
  Forall2 (parsed_under version k_requires) (map (iview version 2) xrq) prq ->
  Forall2 (parsed_under version k_entries) (map (iview version 2) xen) pen ->
  Forall2 (parsed_under version k_synsets) (map (iview version 2) xsy) psy ->
  Forall2 (parsed_under version k_frames) (map (iview version 2) xfr) pfr ->
  parse_elem version
    (XNode tag (expat_attrs version A) T (map (iview version 2) ((opt_list xe ++ xrq) ++ xen ++ xsy ++ xfr)))
  = Ok (VDict (D0 ++ lex_kids pe prq pen psy pfr)).
Proof.
  intros version tag A D0 T xe xrq xen xsy xfr pe prq pen psy pfr Hs Ht H1 H2 H3 H4 H5 Pe P2 P3 P4 P5.
  rewrite parse_elem_eq. rewrite Hs. rewrite !map_app. rewrite parse_kids_app. rewrite parse_kids_app.
  assert (Ee : parse_kids version (map (iview version 2) (opt_list xe)) (VDict D0)
               = Ok (VDict (D0 ++ opt_kv k_extends pe))).
  { unfold extends_parsed in Pe. destruct xe as [x|]; destruct pe as [p|]; try contradiction.
    - destruct Pe as [L1 [L2 L3]]. cbn [opt_list map opt_kv parse_kids].
      unfold attach_check. rewrite L1, L2. rewrite vhas_dict. rewrite H1. cbn [bind]. rewrite L3. cbn [bind].
      unfold attach. rewrite L2, L1. unfold vset. rewrite vset_list_new by exact H1. reflexivity.
    - cbn [opt_list map parse_kids opt_kv]. rewrite app_nil_r. reflexivity. }
  rewrite Ee. cbn [bind].
  assert (Hx : forall k, str_eqb k_extends k = false -> has_key k D0 = false ->
               has_key k (D0 ++ opt_kv k_extends pe) = false).
  { intros k Hk Hp. rewrite has_key_app. rewrite Hp. rewrite has_key_opt. rewrite Hk. destruct pe; reflexivity. }
  rewrite (parse_kids_under version k_requires _ prq _ (Hx k_requires eq_refl H2) P2). cbn [bind].
  rewrite parse_kids_app.
  assert (E3 : has_key k_entries ((D0 ++ opt_kv k_extends pe) ++ optl k_requires prq) = false).
  { rewrite has_key_app. rewrite (Hx k_entries eq_refl H3). apply has_key_optl. reflexivity. }
  rewrite (parse_kids_under version k_entries _ pen _ E3 P3). cbn [bind]. rewrite parse_kids_app.
  assert (E4 : has_key k_synsets (((D0 ++ opt_kv k_extends pe) ++ optl k_requires prq) ++ optl k_entries pen) = false).
  { do 2 rewrite has_key_app. rewrite (Hx k_synsets eq_refl H4).
    rewrite (has_key_optl k_synsets k_requires prq eq_refl). apply has_key_optl. reflexivity. }
  rewrite (parse_kids_under version k_synsets _ psy _ E4 P4). cbn [bind].
  assert (E5 : has_key k_frames ((((D0 ++ opt_kv k_extends pe) ++ optl k_requires prq) ++ optl k_entries pen)
                                 ++ optl k_synsets psy) = false).
  { do 3 rewrite has_key_app. rewrite (Hx k_frames eq_refl H5).
    rewrite (has_key_optl k_frames k_requires prq eq_refl). rewrite (has_key_optl k_frames k_entries pen eq_refl).
    apply has_key_optl. reflexivity. }
  rewrite (parse_kids_under version k_frames _ pfr _ E5 P5). cbn [bind].
  unfold lex_kids. rewrite <- !app_assoc. rewrite finish_notext; [reflexivity|].
  rewrite !has_key_app. rewrite Ht. rewrite has_key_opt.
  rewrite (has_key_optl (s_ "text") k_requires prq eq_refl). rewrite (has_key_optl (s_ "text") k_entries pen eq_refl).
  rewrite (has_key_optl (s_ "text") k_synsets psy eq_refl). rewrite (has_key_optl (s_ "text") k_frames pfr eq_refl).
  destruct pe; reflexivity.
Qed.

Definition dep_ok (r : val) : Prop :=
  is_dict r = true /\ vhas r (s_ "id") = true /\ vhas r (s_ "version") = true.
Definition extends_ok (pe : option val) : Prop :=
  match pe with Some e => vtruthy e = true /\ dep_ok e | None => True end.
Definition is_some_o {A} (o : option A) : bool := match o with Some _ => true | None => false end.

Lemma forM_requires_check : forall prq, Forall dep_ok prq ->
  forM (fun dep => do_ assert_in (s_ "id") dep; assert_in (s_ "version") dep) prq = Ok tt.
Proof.
  intros prq H. induction H as [|r prq [Hd [H1 H2]] Hr IH]; [reflexivity|].
  cbn [forM]. apply is_dict_inv in Hd. destruct Hd as [l ->].
  rewrite (assert_in_present _ l H1). cbn [bind]. rewrite (assert_in_present _ l H2). cbn [bind]. exact IH.
Qed.

Lemma validate_lexlike : forall P0 pe prq pen psy pfr den dsy dfr,
  has_key k_extends P0 = false -> has_key k_requires P0 = false -> has_key k_entries P0 = false ->
  has_key k_synsets P0 = false -> has_key k_frames P0 = false ->
  (forall k, str_mem k (map s_ ["id"; "version"; "label"; "language"; "email"; "license"]%string) = true ->
             has_key k P0 = true) ->
  extends_ok pe -> Forall dep_ok prq ->
  Forall2 (fun p d => _validate_entry (is_some_o pe) p = Ok d) pen den ->
  Forall2 (fun p d => _validate_synset (is_some_o pe) p = Ok d) psy dsy ->
  Forall2 (fun p d => _validate_frame p = Ok d) pfr dfr ->
  _validate (VDict (P0 ++ lex_kids pe prq pen psy pfr)) = Ok (VDict (P0 ++ lex_kids pe prq den dsy dfr)).
Proof.
  intros P0 pe prq pen psy pfr den dsy dfr K1 K2 K3 K4 K5 Hreq He Hrq V3 V4 V5.
  destruct (lex_kids_access P0 pe prq pen psy pfr K1 K2 K3 K4 K5) as [A1 [A2 [A3 [A4 [A5 A6]]]]].
  assert (HL : forall b, b = is_some_o pe ->
               _validate_lexicon (VDict (P0 ++ lex_kids pe prq pen psy pfr)) b
               = Ok (VDict (P0 ++ lex_kids pe prq den dsy dfr))).
  { intros b Hb. unfold _validate_lexicon. cbn [map forM].
    rewrite (assert_in_present (s_ "id")) by (rewrite has_key_app; rewrite Hreq by reflexivity; reflexivity).
    rewrite (assert_in_present (s_ "version")) by (rewrite has_key_app; rewrite Hreq by reflexivity; reflexivity).
    rewrite (assert_in_present (s_ "label")) by (rewrite has_key_app; rewrite Hreq by reflexivity; reflexivity).
    rewrite (assert_in_present (s_ "language")) by (rewrite has_key_app; rewrite Hreq by reflexivity; reflexivity).
    rewrite (assert_in_present (s_ "email")) by (rewrite has_key_app; rewrite Hreq by reflexivity; reflexivity).
    rewrite (assert_in_present (s_ "license")) by (rewrite has_key_app; rewrite Hreq by reflexivity; reflexivity).
    cbn [bind]. fold k_requires. rewrite A3. cbn [bind]. rewrite (forM_requires_check prq Hrq). cbn [bind].
    unfold lex_kids. fold k_entries. rewrite (app_assoc P0). rewrite (app_assoc (P0 ++ opt_kv k_extends pe)).
    assert (Hx : forall k, str_eqb k_extends k = false -> has_key k P0 = false ->
                 has_key k (P0 ++ opt_kv k_extends pe) = false).
    { intros k Hk Hp. rewrite has_key_app. rewrite Hp. rewrite has_key_opt. rewrite Hk. destruct pe; reflexivity. }
    rewrite (upd_list_optl ((P0 ++ opt_kv k_extends pe) ++ optl k_requires prq) k_entries pen
               (optl k_synsets psy ++ optl k_frames pfr) _ den);
      [| rewrite has_key_app; rewrite (Hx k_entries eq_refl K3); apply has_key_optl; reflexivity
       | rewrite has_key_app; rewrite (has_key_optl k_entries k_synsets psy eq_refl);
         rewrite (has_key_optl k_entries k_frames pfr eq_refl); reflexivity
       | unfold _validate_entries; apply mapM_Forall2; rewrite Hb; exact V3 | reflexivity
       | apply (Forall2_length' _ _ _ V3)].
    cbn [bind]. fold k_synsets.
    rewrite (app_assoc ((P0 ++ opt_kv k_extends pe) ++ optl k_requires prq)).
    rewrite (upd_list_optl (((P0 ++ opt_kv k_extends pe) ++ optl k_requires prq) ++ optl k_entries den)
               k_synsets psy (optl k_frames pfr) _ dsy);
      [| do 2 rewrite has_key_app; rewrite (Hx k_synsets eq_refl K4);
         rewrite (has_key_optl k_synsets k_requires prq eq_refl); apply has_key_optl; reflexivity
       | apply has_key_optl; reflexivity
       | unfold _validate_synsets; apply mapM_Forall2; rewrite Hb; exact V4 | reflexivity
       | apply (Forall2_length' _ _ _ V4)].
    cbn [bind]. fold k_frames.
    rewrite (app_assoc (((P0 ++ opt_kv k_extends pe) ++ optl k_requires prq) ++ optl k_entries den)).
    rewrite <- (app_nil_r (optl k_frames pfr)).
    rewrite (upd_list_optl ((((P0 ++ opt_kv k_extends pe) ++ optl k_requires prq) ++ optl k_entries den)
                            ++ optl k_synsets dsy) k_frames pfr [] _ dfr);
      [| do 3 rewrite has_key_app; rewrite (Hx k_frames eq_refl K5);
         rewrite (has_key_optl k_frames k_requires prq eq_refl);
         rewrite (has_key_optl k_frames k_entries den eq_refl); apply has_key_optl; reflexivity
       | reflexivity
       | unfold _validate_frames; apply mapM_Forall2; exact V5 | reflexivity
       | apply (Forall2_length' _ _ _ V5)].
    rewrite app_nil_r. rewrite <- !app_assoc. reflexivity. }
  unfold _validate. rewrite (py_get_dict _ (s_ "extends")). fold k_extends. rewrite A1. cbn [bind].
  unfold extends_ok in He. destruct pe as [e|].
  - destruct He as [Ht [Hd [H1 H2]]]. rewrite Ht. apply is_dict_inv in Hd. destruct Hd as [l El]. rewrite El.
    rewrite El in H1, H2.
    rewrite (assert_in_present _ l H1). cbn [bind]. rewrite (assert_in_present _ l H2). cbn [bind].
    rewrite <- El. apply HL. reflexivity.
  - cbn [vtruthy]. apply HL. reflexivity.
Qed.

(* what expat reports for the Lexicon element written by _dump_lexicon: its children
   are printed with _tostring(elem, 2); T is the whitespace between them *)
Definition lexicon_view (version : str) (T : str) (x : xml) : xtree :=
  match x with
  | Elem tag attrib _ children _ =>
      XNode tag (expat_attrs version attrib) T (map (iview version 2) children)
  end.

Definition nf_opt_dep (o : option val) : bool := match o with Some e => nf_dep e | None => true end.
Definition nf_lexicon (ge : bool) (d : val) : bool :=
  let id := val_str (vget d (s_ "id")) in
  let label := val_str (vget d (s_ "label")) in
  let language := val_str (vget d (s_ "language")) in
  let email := val_str (vget d (s_ "email")) in
  let license := val_str (vget d (s_ "license")) in
  let ver := val_str (vget d (s_ "version")) in
  let url := get_opt_str d (s_ "url") in
  let citation := get_opt_str d (s_ "citation") in
  let logo := get_opt_str d (s_ "logo") in
  let m := vget d (s_ "meta") in
  let extends := get_opt_dict d k_extends in
  let requires := vlist d k_requires in
  let entries := vlist d k_entries in
  let synsets := vlist d k_synsets in
  let frames := vlist d k_frames in
  let b := is_some_o extends in
  val_eqb d (mk_lexicon id label language email license ver url citation logo m
               extends requires entries synsets frames)
  && ne_opt url && ne_opt citation && ne_opt logo && nf_meta m
  && nf_opt_dep extends && forallb nf_dep requires
  && forallb (nf_entry_b ge b) entries && forallb (nf_synset_b ge b) synsets && forallb nf_sb11 frames
  && (ge || (is_none_o logo && is_none_o extends && is_nil requires && is_nil frames)).

Example nf_lexicon_ex :
  nf_lexicon true
    (mk_lexicon (s_ "ewn") (s_ "English WordNet") (s_ "en") (s_ "a@b.c") (s_ "CC-BY") (s_ "2020")
       (Some (s_ "http://x")) None None (VDict [(s_ "publisher", VStr (s_ "GWA"))]) None
       [mk_dep (s_ "omw") (s_ "1") None]
       [mk_entry (s_ "w1") VNone (mk_lemma (s_ "colour") None (s_ "n") [] []) []
          [mk_sense (s_ "w1-s1") (s_ "ss1") true None [] VNone [] [] []] []]
       [mk_synset (s_ "ss1") (s_ "i1") (Some (s_ "n")) true [s_ "w1-s1"] None VNone [] None [] []]
       [mk_sb11 (s_ "NP V") (Some (s_ "f1"))]) = true.
Proof. vm_compute. reflexivity. Qed.

Lemma nf_lexicon_inv : forall ge d, nf_lexicon ge d = true ->
  exists id label language email license ver url citation logo m extends requires entries synsets frames,
    d = mk_lexicon id label language email license ver url citation logo m extends requires entries synsets frames
    /\ ne_opt url = true /\ ne_opt citation = true /\ ne_opt logo = true /\ nf_meta m = true
    /\ nf_opt_dep extends = true /\ forallb nf_dep requires = true
    /\ forallb (nf_entry_b ge (is_some_o extends)) entries = true
    /\ forallb (nf_synset_b ge (is_some_o extends)) synsets = true
    /\ forallb nf_sb11 frames = true
    /\ (ge || (is_none_o logo && is_none_o extends && is_nil requires && is_nil frames)) = true.
Proof.
  intros ge d H. unfold nf_lexicon in H. cbv zeta in H.
  apply andb_true_iff in H. destruct H as [H H11]. apply andb_true_iff in H. destruct H as [H H10].
  apply andb_true_iff in H. destruct H as [H H9]. apply andb_true_iff in H. destruct H as [H H8].
  apply andb_true_iff in H. destruct H as [H H7]. apply andb_true_iff in H. destruct H as [H H6].
  apply andb_true_iff in H. destruct H as [H H5]. apply andb_true_iff in H. destruct H as [H H4].
  apply andb_true_iff in H. destruct H as [H H3]. apply andb_true_iff in H. destruct H as [H1 H2].
  apply val_eqb_eq in H1.
  (* is_some_o (get_opt_dict d k_extends) occurs in H8, H9: it is is_some_o of the extends field *)
  do 15 eexists. split; [exact H1|]. repeat split; assumption.
Qed.

Lemma start_attrs_lexicon : forall version tag id label language email license ver url citation logo m,
  tag = s_ "Lexicon" \/ tag = s_ "LexiconExtension" ->
  ne_opt url = true -> ne_opt citation = true -> ne_opt logo = true -> nf_meta m = true ->
  start_attrs version tag
    (expat_attrs version (lex_attrs id label language email license ver url citation logo ++ md_of m))
  = VDict (lex_attrs id label language email license ver url citation logo ++ [(s_ "meta", m)]).
Proof.
  intros version tag id label language email license ver url citation logo m Ht Hu Hc Hl Hm.
  rewrite <- (app_nil_r (md_of m)). unfold lex_attrs.
  destruct Ht as [-> | ->];
    destruct url as [[|c1 s1]|]; try discriminate; destruct citation as [[|c2 s2]|]; try discriminate;
    destruct logo as [[|c3 s3]|]; try discriminate;
    (rewrite start_attrs_view; [| reflexivity | reflexivity | exact Hm | not_meta_elem | reflexivity];
     unfold is_cdata_elem;
     match goal with |- context [str_mem ?t cdata_elems] => ev (str_mem t cdata_elems) end; reflexivity).
Qed.

Lemma dep_facts : forall d, nf_dep d = true -> vtruthy d = true /\ dep_ok d.
Proof.
  intros d H. destruct (nf_dep_inv d H) as [id [ver [url [-> _]]]]. destruct url; repeat split; reflexivity.
Qed.

(* the lexicon element: written, read back at its place in the document, validated *)
Theorem lexicon_roundtrip : forall version v T d,
  supported version = true -> ge_1_1 v = v11 version -> nf_lexicon (v11 version) d = true ->
  exists x, lexicon_xml d v = Ok x
            /\ (xtag x = s_ "Lexicon" \/ (xtag x = s_ "LexiconExtension" /\ v11 version = true))
            /\ (do p <- parse_elem version (lexicon_view version T x); _validate p) = Ok d.
Proof.
  intros version v T d Hv Hge Hn.
  destruct (nf_lexicon_inv _ d Hn)
    as [id [label [language [email [license [ver [url [citation [logo [m [extends [requires
        [entries [synsets [frames [-> [Hu [Hc [Hl [Hm [Hne [Hnr [Hnen [Hnsy [Hnfr Hg]]]]]]]]]]]]]]]]]]]]]]]]].
  (* versions: everything extension-like needs >= 1.1 *)
  assert (H11 : v11 version = true \/ (logo = None /\ extends = None /\ requires = [] /\ frames = [])).
  { destruct (v11 version); [left; reflexivity|]. right. simpl in Hg.
    destruct logo; [discriminate|]. destruct extends; [discriminate|]. destruct requires; [|discriminate].
    destruct frames; [|discriminate]. auto. }
  assert (Hb11 : is_some_o extends = true -> v11 version = true).
  { intro Hs. destruct H11 as [H|[_ [H _]]]; [exact H|]. subst extends. discriminate. }
  (* Extends *)
  assert (HE : exists xe, extends_built extends xe /\ extends_parsed version 2 xe extends /\ extends_ok extends).
  { destruct extends as [e|]; [|exists None; repeat split].
    simpl in Hne. pose proof (Hb11 eq_refl) as Hv11.
    destruct (nf_dep_inv e Hne) as [eid [ever [eurl [Ee Heu]]]].
    destruct (dep_facts e Hne) as [Tr Ok'].
    exists (Some (xml_dep (s_ "Extends") eid ever eurl)). subst e. split; [|split].
    - split; [exact Tr | apply build_dep_mk; exact Heu].
    - destruct (single_elem_extends version Hv11) as [L1 L2]. unfold extends_parsed, parsed_single.
      rewrite iview_name. cbn [xtag xml_dep]. split; [exact L1|]. split; [exact L2|].
      unfold xml_dep. rewrite iview_leaf. apply (load_dep version (s_ "Extends")); try assumption; reflexivity.
    - split; assumption. }
  destruct HE as [xe [Be [Pe Oe]]].
  (* Requires *)
  assert (Frq : Forall (roundtrips_k version 2 k_requires (fun r => dep_xml r (s_ "Requires")) (fun p => Ok p)) requires).
  { destruct H11 as [Hv11|[_ [_ [Hr _]]]].
    - apply (forallb_Forall nf_dep); [|exact Hnr]. intros r Hr. apply requires_pack; assumption.
    - subst requires. constructor. }
  destruct (pack_list_k _ _ _ _ _ _ Frq) as [xrq [prq [Brq [Prq Vrq]]]].
  apply Forall2_ok_eq in Vrq. subst prq.
  assert (Orq : Forall dep_ok requires).
  { apply (forallb_Forall nf_dep); [|exact Hnr]. intros r Hr. apply (dep_facts r Hr). }
  (* entries, synsets, frames *)
  assert (Fen : Forall (roundtrips_k version 2 k_entries (fun e => entry_xml e v)
                          (_validate_entry (is_some_o extends))) entries).
  { apply (forallb_Forall (nf_entry_b (v11 version) (is_some_o extends))); [|exact Hnen].
    intros e He. apply entry_pack_b; assumption. }
  assert (Fsy : Forall (roundtrips_k version 2 k_synsets (fun s => synset_xml s v)
                          (_validate_synset (is_some_o extends))) synsets).
  { apply (forallb_Forall (nf_synset_b (v11 version) (is_some_o extends))); [|exact Hnsy].
    intros s Hs. apply synset_pack_b; assumption. }
  assert (Ffr : Forall (roundtrips_k version 2 k_frames (fun sb => _build_syntactic_behaviour sb v)
                          _validate_frame) frames).
  { destruct H11 as [Hv11|[_ [_ [_ Hf]]]].
    - apply (forallb_Forall nf_sb11); [|exact Hnfr]. intros s Hs. apply sb11_pack; try assumption.
      rewrite Hge. exact Hv11.
    - subst frames. constructor. }
  destruct (pack_list_k _ _ _ _ _ _ Fen) as [xen [pen [Ben [Pen Ven]]]].
  destruct (pack_list_k _ _ _ _ _ _ Fsy) as [xsy [psy [Bsy [Psy Vsy]]]].
  destruct (pack_list_k _ _ _ _ _ _ Ffr) as [xfr [pfr [Bfr [Pfr Vfr]]]].
  exists (xml_lexicon id label language email license ver url citation logo m extends xe xrq xen xsy xfr).
  split; [|split].
  - apply build_lexicon_mk; try assumption. rewrite Hge. exact H11.
  - unfold xml_lexicon, lex_tag. cbn [xtag]. destruct extends; [right; split; [reflexivity | apply Hb11; reflexivity] | left; reflexivity].
  - unfold xml_lexicon, lexicon_view.
    rewrite (parse_lexlike version (lex_tag extends) _ _ T xe xrq xen xsy xfr extends requires pen psy pfr
               (start_attrs_lexicon version (lex_tag extends) id label language email license ver url citation logo m
                  ltac:(unfold lex_tag; destruct extends; auto) Hu Hc Hl Hm));
      try assumption; try (destruct url; destruct citation; destruct logo; reflexivity).
    cbn [bind]. unfold mk_lexicon.
    apply validate_lexlike; try assumption;
      try (destruct url; destruct citation; destruct logo; reflexivity).
    intros k Hk. apply str_mem_In in Hk. simpl in Hk.
    destruct url; destruct citation; destruct logo;
      repeat (destruct Hk as [<-|Hk]; [reflexivity|]); contradiction.
Qed.

(* ====================================================================== *)
(* 15. The whole document                                                 *)
(* ====================================================================== *)
Definition k_lexicons : str := s_ "lexicons".
(* what expat reports for the dumped file: the root element (its xmlns:dc attribute
   is consumed by the namespace processing) with one child per lexicon; T stands for
   the whitespace between elements *)
Definition doc_view (version : str) (T : str) (xs : list xml) : xtree :=
  XNode (s_ "LexicalResource") [] T (map (lexicon_view version T) xs).

Definition mk_resource (version : str) (lexs : list val) : val :=
  VDict [(s_ "lmf_version", VStr version); (s_ "lexicons", VList lexs)].
Definition nf_resource (version : str) (r : val) : bool :=
  let lexs := vlist r k_lexicons in
  val_eqb r (mk_resource version lexs) && forallb (nf_lexicon (v11 version)) lexs.

Lemma nf_resource_inv : forall version r, nf_resource version r = true ->
  exists lexs, r = mk_resource version lexs /\ forallb (nf_lexicon (v11 version)) lexs = true.
Proof.
  intros version r H. unfold nf_resource in H. cbv zeta in H. apply andb_true_iff in H.
  destruct H as [H1 H2]. apply val_eqb_eq in H1. eauto.
Qed.

Lemma lexicon_view_name : forall version T x, xname (lexicon_view version T x) = xtag x.
Proof. intros version T [tag a tx cs tl]. reflexivity. Qed.

Lemma lexicons_pack : forall version v T lexs,
  supported version = true -> ge_1_1 v = v11 version ->
  forallb (nf_lexicon (v11 version)) lexs = true ->
  exists xs ps, mapM (fun l => lexicon_xml l v) lexs = Ok xs
                /\ Forall2 (parsed_under version k_lexicons) (map (lexicon_view version T) xs) ps
                /\ Forall2 (fun p d => _validate p = Ok d) ps lexs.
Proof.
  intros version v T lexs Hv Hge H. induction lexs as [|d lexs IH].
  - exists [], []. repeat split; constructor.
  - cbn [forallb] in H. apply andb_true_iff in H. destruct H as [Hd Hr].
    destruct (IH Hr) as [xs [ps [Hm [H1 H2]]]].
    destruct (lexicon_roundtrip version v T d Hv Hge Hd) as [x [Bx [Tx Rx]]].
    apply bind_ok in Rx. destruct Rx as [p [Hp Hval]].
    exists (x :: xs), (p :: ps). repeat split.
    + cbn [mapM]. rewrite Bx. cbn [bind]. rewrite Hm. reflexivity.
    + cbn [map]. constructor; [|exact H1]. unfold parsed_under. rewrite lexicon_view_name.
      destruct Tx as [Tx|[Tx H11]]; rewrite Tx.
      * destruct (list_elem_10 version (s_ "Lexicon") k_lexicons Hv) as [L1 L2]; [simpl; auto 20|]. auto.
      * destruct (list_elem_11 version (s_ "LexiconExtension") k_lexicons H11) as [L1 L2]; [simpl; auto 20|]. auto.
    + constructor; assumption.
Qed.

Lemma root_elem : forall version, supported version = true ->
  is_list_elem version (s_ "LexicalResource") = false
  /\ assoc (s_ "LexicalResource") (elems_of version) = Some (s_ "lexical-resource").
Proof. intros version H. unfold supported in H. versions H; split; vm_compute; reflexivity. Qed.

Theorem document_roundtrip : forall version v T r,
  supported version = true -> version_info version = Ok v -> nf_resource version r = true ->
  exists xs, mapM (fun l => lexicon_xml l v) (vlist r k_lexicons) = Ok xs
             /\ load_tree version (doc_view version T xs) = Ok r.
Proof.
  intros version v T r Hv Hvi Hn. pose proof (version_info_ge version v Hv Hvi) as Hge.
  destruct (nf_resource_inv version r Hn) as [lexs [-> Hl]].
  destruct (lexicons_pack version v T lexs Hv Hge Hl) as [xs [ps [Bm [Pp Vp]]]].
  exists xs. split; [exact Bm|].
  destruct (root_elem version Hv) as [R1 R2].
  unfold load_tree, doc_view. rewrite parse_doc_eq. cbn [xname].
  unfold attach_check. rewrite R1, R2. cbn [vhas existsb bind].
  rewrite parse_elem_eq.
  assert (Hs : start_attrs version (s_ "LexicalResource") [] = VDict []).
  { change (@nil (str * str)) with (expat_attrs version []). rewrite start_attrs_plain by reflexivity.
    unfold is_cdata_elem. ev (str_mem (s_ "LexicalResource") cdata_elems). reflexivity. }
  rewrite Hs. rewrite (parse_kids_under version k_lexicons _ ps [] eq_refl Pp). cbn [bind app].
  rewrite finish_notext by (apply has_key_optl; reflexivity). cbn [bind].
  unfold attach. rewrite R2, R1. cbn [vset vset_list].
  rewrite (py_item_dict [(s_ "lexical-resource", VDict (optl k_lexicons ps))]) by reflexivity.
  rewrite vget_cons. rewrite str_eqb_refl. cbn [bind].
  rewrite <- (app_nil_l (optl k_lexicons ps)). rewrite <- (app_nil_r (optl k_lexicons ps)).
  fold k_lexicons. rewrite (for_get_optl [] k_lexicons ps [] eq_refl eq_refl). cbn [bind].
  rewrite (mapM_Forall2 _ _ _ Vp). reflexivity.
Qed.

(* dump followed by load: the header written by dump is accepted (stage 2e) and the
   document, as the parser reports it, loads back into the resource *)
Theorem dump_load_roundtrip : forall version r text T,
  nf_resource version r = true -> dump version r = Ok text ->
  exists line1 line2 rest v xs,
    text = line1 ++ [c_nl] ++ line2 ++ [c_nl] ++ rest
    /\ version_info version = Ok v
    /\ mapM (fun l => lexicon_xml l v) (vlist r k_lexicons) = Ok xs
    /\ load (line1 ++ [c_nl]) (line2 ++ [c_nl]) (doc_view version T xs) = Ok r.
Proof.
  intros version r text T Hn Hd.
  destruct (dump_header_accepted version r text Hd) as [line1 [line2 [rest [Ht Hh]]]].
  assert (Hv : supported version = true).
  { apply supported_iff. exists (line1 ++ [c_nl]), (line2 ++ [c_nl]). exact Hh. }
  assert (Hvi : exists v, version_info version = Ok v).
  { unfold supported in Hv. versions Hv; eexists; vm_compute; reflexivity. }
  destruct Hvi as [v Hvi].
  destruct (document_roundtrip version v T r Hv Hvi Hn) as [xs [Bm Hl]].
  exists line1, line2, rest, v, xs. repeat split; try assumption.
  unfold load. rewrite Hh. cbn [bind]. exact Hl.
Qed.

(* ====================================================================== *)
(* 16. The text dump writes is the text of these elements                 *)
(* ====================================================================== *)
(* the text _dump_lexicon writes for a lexicon element: the hand-written start tag
   (quoteattr), each child through _tostring(elem, 2), the end tag *)
Definition lexicon_text (x : xml) : result str :=
  match x with
  | Elem tag attrib _ children _ =>
      let opening := s_ "  <" ++ tag ++ [c_sp] in
      let attrdelim := c_nl :: spaces (length opening) in
      do parts <- mapM (fun kv => do s <- py_str (snd kv); Ok (fst kv ++ [61] ++ quoteattr s)) attrib;
      do kids <- mapM print_elem children;
      Ok (opening ++ join attrdelim parts ++ [c_gt; c_nl] ++ concat kids
          ++ s_ "  </" ++ tag ++ [c_gt; c_nl])
  end.

Lemma mapM_bind_ok : forall {A B C} (f : A -> result B) (g : B -> result C) l ts,
  mapM (fun d => do x <- f d; g x) l = Ok ts ->
  exists xs, mapM f l = Ok xs /\ mapM g xs = Ok ts.
Proof.
  intros A B C f g l. induction l as [|d l IH]; intros ts H.
  - cbn [mapM] in H. injection H as <-. exists []. split; reflexivity.
  - cbn [mapM] in H. apply bind_ok in H. destruct H as [t [Ht H]]. apply bind_ok in H.
    destruct H as [ts' [Hts H]]. injection H as <-. apply bind_ok in Ht. destruct Ht as [x [Hx Hg]].
    destruct (IH ts' Hts) as [xs [H1 H2]]. exists (x :: xs). split.
    + cbn [mapM]. rewrite Hx. cbn [bind]. rewrite H1. reflexivity.
    + cbn [mapM]. rewrite Hg. cbn [bind]. rewrite H2. reflexivity.
Qed.
Lemma mapM_ext : forall {A B} (f f' : A -> result B) l, (forall d, f d = f' d) -> mapM f l = mapM f' l.
Proof.
  intros A B f f' l H. induction l as [|d l IH]; [reflexivity|]. cbn [mapM]. rewrite H. rewrite IH. reflexivity.
Qed.
Lemma mapM_app_ok : forall {A B} (g : A -> result B) a b xa xb,
  mapM g a = Ok xa -> mapM g b = Ok xb -> mapM g (a ++ b) = Ok (xa ++ xb).
Proof.
  intros A B g a. induction a as [|x a IH]; intros b xa xb Ha Hb.
  - cbn [mapM] in Ha. injection Ha as <-. exact Hb.
  - cbn [mapM] in Ha. apply bind_ok in Ha. destruct Ha as [y [Hy Ha]]. apply bind_ok in Ha.
    destruct Ha as [ys [Hys Ha]]. injection Ha as <-. cbn [app mapM]. rewrite Hy. cbn [bind].
    rewrite (IH b ys xb Hys Hb). reflexivity.
Qed.

Lemma dump_lexicon_xml : forall lexicon v text, _dump_lexicon lexicon v = Ok text ->
  exists x, lexicon_xml lexicon v = Ok x /\ lexicon_text x = Ok text.
Proof.
  intros lexicon v text H. unfold _dump_lexicon in H.
  apply bind_ok in H. destruct H as [ext [Hext H]]. cbv zeta in H.
  apply bind_ok in H. destruct H as [attrib [Hattr H]].
  apply bind_ok in H. destruct H as [parts [Hparts H]].
  apply bind_ok in H. destruct H as [deps [Hdeps H]].
  apply bind_ok in H. destruct H as [l1 [Hl1 H]].
  apply bind_ok in H. destruct H as [entries [Hen H]].
  apply bind_ok in H. destruct H as [l2 [Hl2 H]].
  apply bind_ok in H. destruct H as [synsets [Hsy H]].
  apply bind_ok in H. destruct H as [frames [Hfr H]]. injection H as <-.
  (* the children as elements *)
  rewrite (mapM_ext _ (fun e => do x <- entry_xml e v; print_elem x) l1
             (fun e => dump_lexical_entry_xml e v)) in Hen.
  destruct (mapM_bind_ok _ _ _ _ Hen) as [xen [Xen Pen]].
  rewrite (mapM_ext _ (fun s => do x <- synset_xml s v; print_elem x) l2
             (fun s => dump_synset_xml s v)) in Hsy.
  destruct (mapM_bind_ok _ _ _ _ Hsy) as [xsy [Xsy Psy]].
  assert (HF : exists xfr, (if ge_1_1 v then do l <- for_get lexicon (s_ "frames");
                                            mapM (fun sb => _build_syntactic_behaviour sb v) l
                            else Ok []) = Ok xfr /\ mapM print_elem xfr = Ok frames).
  { destruct (ge_1_1 v).
    - apply bind_ok in Hfr. destruct Hfr as [l3 [Hl3 Hfr]]. unfold _dump_syntactic_behaviour in Hfr.
      destruct (mapM_bind_ok _ _ _ _ Hfr) as [xfr [X P]]. exists xfr. rewrite Hl3. cbn [bind]. auto.
    - injection Hfr as <-. exists []. split; reflexivity. }
  destruct HF as [xfr [Xfr Pfr]].
  assert (HD : exists xdeps sdeps,
             (if ge_1_1 v then
                do e <- (if vtruthy ext then
                           do_ assert (vtruthy ext);
                           do x <- py_item lexicon (s_ "extends");
                           do y <- dep_xml x (s_ "Extends"); Ok [y]
                         else Ok []);
                do l <- for_get lexicon (s_ "requires");
                do reqs <- mapM (fun r => dep_xml r (s_ "Requires")) l;
                Ok (e ++ reqs)
              else Ok []) = Ok xdeps
             /\ mapM print_elem xdeps = Ok sdeps /\ concat sdeps = deps).
  { destruct (ge_1_1 v).
    - apply bind_ok in Hdeps. destruct Hdeps as [e [He Hdeps]].
      apply bind_ok in Hdeps. destruct Hdeps as [l0 [Hl0 Hdeps]].
      apply bind_ok in Hdeps. destruct Hdeps as [reqs [Hreqs Hdeps]]. injection Hdeps as <-.
      rewrite (mapM_ext _ (fun r => do x <- dep_xml r (s_ "Requires"); print_elem x) l0
                 (fun r => dump_dependency_xml r (s_ "Requires"))) in Hreqs.
      destruct (mapM_bind_ok _ _ _ _ Hreqs) as [xrq [Xrq Prq]].
      destruct (vtruthy ext).
      + apply bind_ok in He. destruct He as [u [Hu He]]. apply bind_ok in He. destruct He as [x [Hx He]].
        rewrite dump_dependency_xml in He. apply bind_ok in He. destruct He as [y [Hy Hp]].
        exists (y :: xrq), (e :: reqs). rewrite Hu. cbn [bind]. rewrite Hx. cbn [bind]. rewrite Hy. cbn [bind].
        rewrite Hl0. cbn [bind]. rewrite Xrq. cbn [bind app]. split; [reflexivity|]. split; [|reflexivity].
        cbn [mapM]. rewrite Hp. cbn [bind]. rewrite Prq. reflexivity.
      + injection He as <-. exists xrq, reqs. cbn [bind]. rewrite Hl0. cbn [bind]. rewrite Xrq. cbn [bind app].
        auto.
    - injection Hdeps as <-. exists [], []. repeat split; reflexivity. }
  destruct HD as [xdeps [sdeps [Xd [Pd Cd]]]].
  exists (Elem (if vtruthy ext then s_ "LexiconExtension" else s_ "Lexicon") attrib VNone
               (xdeps ++ xen ++ xsy ++ xfr) None).
  split.
  - unfold lexicon_xml. rewrite Hext. cbn [bind]. cbv zeta. rewrite Hattr. cbn [bind]. rewrite Xd. cbn [bind].
    rewrite Hl1. cbn [bind]. rewrite Xen. cbn [bind]. rewrite Hl2. cbn [bind]. rewrite Xsy. cbn [bind].
    rewrite Xfr. cbn [bind]. reflexivity.
  - unfold lexicon_text. cbv zeta. rewrite Hparts. cbn [bind].
    rewrite (mapM_app_ok print_elem xdeps (xen ++ xsy ++ xfr) sdeps (entries ++ synsets ++ frames) Pd).
    + cbn [bind]. rewrite !concat_app. rewrite Cd. rewrite <- !app_assoc. reflexivity.
    + apply mapM_app_ok; [exact Pen|]. apply mapM_app_ok; assumption.
Qed.

(* the whole file *)
Theorem dump_text : forall version r text, dump version r = Ok text ->
  exists v dc_uri schema lexs xs texts,
    supported version = true /\ assoc version schemas = Some schema
    /\ version_info version = Ok v /\ py_item r (s_ "lexicons") = Ok lexs
    /\ (exists l, py_iter lexs = Ok l /\ mapM (fun d => lexicon_xml d v) l = Ok xs)
    /\ mapM lexicon_text xs = Ok texts
    /\ text = xmldecl ++ [c_nl] ++ doctype_of schema ++ [c_nl]
              ++ s_ "<LexicalResource xmlns:dc=""" ++ dc_uri ++ [c_quot; c_gt; c_nl]
              ++ concat texts ++ s_ "</LexicalResource>" ++ [c_nl].
Proof.
  intros version r text H. unfold dump in H.
  destruct (str_mem version supported_versions) eqn:Hs; cbv beta iota zeta delta [negb] in H; [|discriminate].
  apply bind_ok in H. destruct H as [schema [Hsch H]].
  assert (Hsch' : assoc version schemas = Some schema).
  { destruct (assoc version schemas); [injection Hsch as ->; reflexivity | discriminate]. }
  apply bind_ok in H. destruct H as [dc_uri [_ H]].
  apply bind_ok in H. destruct H as [v [Hv H]].
  apply bind_ok in H. destruct H as [lexv [Hlexv H]].
  apply bind_ok in H. destruct H as [l [Hl H]].
  apply bind_ok in H. destruct H as [parts [Hparts H]]. injection H as <-.
  assert (HP : exists xs, mapM (fun d => lexicon_xml d v) l = Ok xs /\ mapM lexicon_text xs = Ok parts).
  { clear Hl. revert parts Hparts. induction l as [|d l IH]; intros parts Hparts.
    - cbn [mapM] in Hparts. injection Hparts as <-. exists []. split; reflexivity.
    - cbn [mapM] in Hparts. apply bind_ok in Hparts. destruct Hparts as [t [Ht Hparts]].
      apply bind_ok in Hparts. destruct Hparts as [ts [Hts Hparts]]. injection Hparts as <-.
      destruct (dump_lexicon_xml d v t Ht) as [x [Hx Hxt]]. destruct (IH ts Hts) as [xs [H1 H2]].
      exists (x :: xs). split; cbn [mapM].
      + rewrite Hx. cbn [bind]. rewrite H1. reflexivity.
      + rewrite Hxt. cbn [bind]. rewrite H2. reflexivity. }
  destruct HP as [xs [Hxs Hts]].
  exists v, dc_uri, schema, lexv, xs, parts. repeat split; try assumption.
  exists l. split; assumption.
Qed.

(* Everything together: for a resource in normal form, the text written by dump is
   the header, the root start tag, the texts of the lexicon elements xs, the root
   end tag; the header is accepted by load; and the document as the parser reports
   it (doc_view ... xs) loads back into exactly the resource. *)
Theorem dump_load_roundtrip_text : forall version r text T,
  nf_resource version r = true -> dump version r = Ok text ->
  exists v dc_uri schema xs texts,
    version_info version = Ok v
    /\ mapM (fun d => lexicon_xml d v) (vlist r k_lexicons) = Ok xs
    /\ mapM lexicon_text xs = Ok texts
    /\ text = (xmldecl ++ [c_nl]) ++ (doctype_of schema ++ [c_nl])
              ++ s_ "<LexicalResource xmlns:dc=""" ++ dc_uri ++ [c_quot; c_gt; c_nl]
              ++ concat texts ++ s_ "</LexicalResource>" ++ [c_nl]
    /\ load (xmldecl ++ [c_nl]) (doctype_of schema ++ [c_nl]) (doc_view version T xs) = Ok r.
Proof.
  intros version r text T Hn Hd.
  destruct (dump_text version r text Hd)
    as [v [dc_uri [schema [lexv [xs [texts [Hs [Hsch [Hv [Hi [[l [Hl Hx]] [Ht E]]]]]]]]]]]].
  destruct (nf_resource_inv version r Hn) as [lexs [Er Hl']]. subst r.
  assert (Hlex : l = lexs).
  { unfold mk_resource in Hi. rewrite (py_item_dict _ (s_ "lexicons")) in Hi by reflexivity.
    rewrite !vget_cons in Hi. keys_in Hi. cbv iota in Hi. injection Hi as <-.
    cbn [py_iter] in Hl. injection Hl as <-. reflexivity. }
  subst l.
  assert (Hvl : vlist (mk_resource version lexs) k_lexicons = lexs) by reflexivity.
  destruct (document_roundtrip version v T (mk_resource version lexs) Hs Hv Hn) as [xs' [Hx' HL]].
  rewrite Hvl in Hx'. rewrite Hx in Hx'. injection Hx' as <-.
  exists v, dc_uri, schema, xs, texts. rewrite Hvl. repeat split; try assumption.
  - rewrite E. rewrite <- !app_assoc. reflexivity.
  - assert (Hh : read_header (xmldecl ++ [c_nl]) (doctype_of schema ++ [c_nl]) = Ok version).
    { unfold supported in Hs. versions Hs; vm_compute in Hsch; injection Hsch as <-; vm_compute; reflexivity. }
    unfold load. rewrite Hh. cbn [bind]. exact HL.
Qed.

(* ---------------------------------------------------------------------- *)
Print Assumptions tag_roundtrip.
Print Assumptions pron_roundtrip.
Print Assumptions dep_roundtrip.
Print Assumptions sb10_roundtrip.
Print Assumptions sb11_roundtrip.
Print Assumptions example_roundtrip.
Print Assumptions definition_roundtrip.
Print Assumptions ilidef_roundtrip.
Print Assumptions relation_roundtrip.
Print Assumptions count_roundtrip.
Print Assumptions lemma_roundtrip.
Print Assumptions xlemma_roundtrip.
Print Assumptions form_roundtrip.
Print Assumptions xform_roundtrip.
Print Assumptions sense_roundtrip.
Print Assumptions xsense_roundtrip.
Print Assumptions synset_roundtrip.
Print Assumptions xsynset_roundtrip.
Print Assumptions entry_roundtrip.
Print Assumptions xentry_roundtrip.
Print Assumptions lexicon_roundtrip.
Print Assumptions document_roundtrip.
Print Assumptions dump_load_roundtrip.
Print Assumptions dump_lexicon_xml.
Print Assumptions dump_text.
Print Assumptions dump_load_roundtrip_text.
Print Assumptions meta_dict_nf.
Print Assumptions parse_int_dec.
