(* Proofs/Txn.v — atomicity of `with conn:` blocks (Model/Txn.v). *)
From Coq Require Import List Bool Lia.
Import ListNotations.
Require Import WnV.Model.Txn.

Section TxnProofs.
  Variable db : Type.
  Notation conn := (conn db).
  Notation event := (event db).

  Lemma run_body_committed : forall (evs : list event) (c : conn),
      committed (fst (run_body c evs)) = committed c.
  Proof.
    induction evs as [|e evs IH]; intro c; simpl; [reflexivity|].
    destruct e as [f| |]; simpl.
    - destruct (f (working c)) as [d'|]; simpl; [rewrite IH; reflexivity | reflexivity].
    - apply IH.
    - reflexivity.
  Qed.

  (* an exception anywhere in the block: nothing is committed, the working copy is
     the committed one again, and no transaction stays open *)
  Theorem with_conn_raise_atomic : forall (c : conn) evs,
      snd (with_conn c evs) = true ->
      committed (fst (with_conn c evs)) = committed c
      /\ working (fst (with_conn c evs)) = committed c
      /\ in_txn (fst (with_conn c evs)) = false.
  Proof.
    intros c evs H. unfold with_conn in *.
    pose proof (run_body_committed evs c) as Hc.
    destruct (run_body c evs) as [c' r]. simpl in *.
    destruct r; simpl in *; [auto | discriminate].
  Qed.

  Theorem with_conn_idle_after : forall (c : conn) evs,
      in_txn (fst (with_conn c evs)) = false
      /\ working (fst (with_conn c evs)) = committed (fst (with_conn c evs)).
  Proof.
    intros c evs. unfold with_conn. destruct (run_body c evs) as [c' r].
    destruct r; simpl; auto.
  Qed.

  (* failing at any point k of any statement sequence leaves the committed database untouched *)
  Lemma body_ending_with_raise : forall (l : list event) (c : conn),
      snd (run_body c (l ++ [PyRaise])) = true.
  Proof.
    induction l as [|e l IH]; intro c0; simpl; [reflexivity|].
    destruct e as [f| |]; simpl; auto.
    destruct (f (working c0)); simpl; auto.
  Qed.

  Theorem fail_at_k_unchanged : forall (d : db) evs k,
      committed (fst (with_conn (idle d) (firstn k evs ++ [PyRaise]))) = d.
  Proof.
    intros d evs k. unfold with_conn.
    pose proof (run_body_committed (firstn k evs ++ [PyRaise]) (idle d)) as Hc.
    pose proof (body_ending_with_raise (firstn k evs) (idle d)) as Hr.
    destruct (run_body (idle d) (firstn k evs ++ [PyRaise])) as [c' r]. simpl in *.
    subst r. simpl. exact Hc.
  Qed.

  (* a statement that fails (integrity error) has the same effect *)
  Theorem failing_statement_unchanged : forall (d : db) pre post,
      committed (fst (with_conn (idle d) (pre ++ Dml (fun _ => None) :: post))) = d
      /\ snd (with_conn (idle d) (pre ++ Dml (fun _ => None) :: post)) = true
      \/ snd (run_body (idle d) pre) = true.
  Proof.
    intros d pre post.
    destruct (snd (run_body (idle d) pre)) eqn:Hp; [right; reflexivity|left].
    assert (H : forall (l : list event) (c : conn), snd (run_body c l) = false ->
              snd (run_body c (l ++ Dml (fun _ => None) :: post)) = true
              /\ committed (fst (run_body c (l ++ Dml (fun _ => None) :: post))) = committed c).
    { induction l as [|e l IH]; intros c0 Hl; simpl in *.
      - auto.
      - destruct e as [f| |]; simpl in *.
        + destruct (f (working c0)) as [d'|]; simpl in *; [|discriminate].
          destruct (IH _ Hl) as [A B]. split; [exact A | rewrite B; reflexivity].
        + apply IH. exact Hl.
        + discriminate. }
    destruct (H pre (idle d) Hp) as [A B].
    unfold with_conn. destruct (run_body (idle d) (pre ++ Dml (fun _ => None) :: post)) as [c' r].
    simpl in *. subst r. simpl. auto.
  Qed.

  (* success commits exactly the working database the statements produced *)
  Theorem with_conn_ok_commits : forall (c : conn) evs,
      snd (with_conn c evs) = false ->
      committed (fst (with_conn c evs)) = working (fst (run_body c evs)).
  Proof.
    intros c evs H. unfold with_conn in *. destruct (run_body c evs) as [c' r].
    destruct r; simpl in *; [discriminate | reflexivity].
  Qed.

  (* remove(): what is committed after an interruption is the result of a prefix of the
     per-lexicon blocks, each applied completely *)
  Theorem with_each_prefix : forall blocks (c : conn),
      in_txn c = false -> working c = committed c ->
      exists m, m <= length blocks
                /\ committed (fst (with_each c blocks)) = committed (fst (with_each c (firstn m blocks)))
                /\ snd (with_each c (firstn m blocks)) = false.
  Proof.
    induction blocks as [|b bs IH]; intros c Hi Hw; simpl.
    - exists 0. simpl. auto.
    - destruct (with_conn c b) as [c' r] eqn:E.
      destruct r.
      + exists 0. simpl. split; [lia|]. split; [|reflexivity].
        pose proof (with_conn_raise_atomic c b) as H. rewrite E in H. simpl in H.
        destruct (H eq_refl) as [H1 _]. exact H1.
      + pose proof (with_conn_idle_after c b) as H. rewrite E in H. simpl in H.
        destruct H as [H1 H2].
        destruct (IH c' H1 H2) as [m [Hm [Hc Hs]]].
        exists (S m). simpl. rewrite E. split; [lia|]. split; assumption.
  Qed.
End TxnProofs.
