(* QueryFacts.v — declarative characterisations (soundness and completeness, as In / exists
   over table rows) of the query functions of Model/Query.v, and the well-formedness predicate
   [db_ok] on databases.  Used by ScopeProofs, SearchProofs, NavProofs, RelProofs, ExpandProofs. *)
From Coq Require Import ZArith List Bool Lia.
Import ListNotations.
Require Import WnV.Base.Sx WnV.Model.Spec WnV.Model.Tables WnV.Model.Query WnV.Model.Core.
Require Import WnV.Proofs.CoreLemmas.
Local Open Scope Z_scope.

(* ================================================================== well-formed databases *)
Fixpoint nodup_zb (l : list Z) : bool :=
  match l with
  | [] => true
  | x :: l' => negb (z_in x l') && nodup_zb l'
  end.
Lemma nodup_zb_NoDup : forall l, nodup_zb l = true -> NoDup l.
Proof.
  induction l as [|x l IH]; intro H; simpl in H.
  - constructor.
  - apply andb_true_iff in H. destruct H as [H1 H2]. constructor.
    + intro Hin. apply z_in_In in Hin. rewrite Hin in H1. discriminate.
    + apply IH. exact H2.
Qed.

(* rowids are unique in the tables that are looked up by rowid; lexicon rowid 0 (NON_ROWID) is
   not used by entries and synsets; every sense's entry_rowid and synset_rowid resolve *)
Definition db_ok (d : db) : bool :=
  nodup_zb (map lex_rowid (t_lexicons d))
  && nodup_zb (map en_rowid (t_entries d))
  && nodup_zb (map fm_rowid (t_forms d))
  && nodup_zb (map sy_rowid (t_synsets d))
  && nodup_zb (map se_rowid (t_senses d))
  && nodup_zb (map il_rowid (t_ilis d))
  && nodup_zb (map rt_rowid (t_relation_types d))
  && forallb (fun e => negb (Z.eqb (en_lexicon_rowid e) NON_ROWID)) (t_entries d)
  && forallb (fun ss => negb (Z.eqb (sy_lexicon_rowid ss) NON_ROWID)) (t_synsets d)
  && forallb (fun s => match find_by en_rowid (se_entry_rowid s) (t_entries d),
                             find_by sy_rowid (se_synset_rowid s) (t_synsets d) with
                       | Some _, Some _ => true | _, _ => false end) (t_senses d).

Ltac split_ok H := unfold db_ok in H; repeat (apply andb_true_iff in H; destruct H as [H ?]).

Lemma ok_lexicons : forall d, db_ok d = true -> unique_keys lex_rowid (t_lexicons d).
Proof. intros d Hok. split_ok Hok. apply nodup_zb_NoDup. assumption. Qed.
Lemma ok_entries : forall d, db_ok d = true -> unique_keys en_rowid (t_entries d).
Proof. intros d Hok. split_ok Hok. apply nodup_zb_NoDup. assumption. Qed.
Lemma ok_forms : forall d, db_ok d = true -> unique_keys fm_rowid (t_forms d).
Proof. intros d Hok. split_ok Hok. apply nodup_zb_NoDup. assumption. Qed.
Lemma ok_synsets : forall d, db_ok d = true -> unique_keys sy_rowid (t_synsets d).
Proof. intros d Hok. split_ok Hok. apply nodup_zb_NoDup. assumption. Qed.
Lemma ok_senses : forall d, db_ok d = true -> unique_keys se_rowid (t_senses d).
Proof. intros d Hok. split_ok Hok. apply nodup_zb_NoDup. assumption. Qed.
Lemma ok_ilis : forall d, db_ok d = true -> unique_keys il_rowid (t_ilis d).
Proof. intros d Hok. split_ok Hok. apply nodup_zb_NoDup. assumption. Qed.
Lemma ok_relation_types : forall d, db_ok d = true -> unique_keys rt_rowid (t_relation_types d).
Proof. intros d Hok. split_ok Hok. apply nodup_zb_NoDup. assumption. Qed.
Lemma ok_entry_lexid : forall d, db_ok d = true ->
  forall e, In e (t_entries d) -> en_lexicon_rowid e <> NON_ROWID.
Proof.
  intros d Hok e He E. split_ok Hok.
  match goal with H : forallb _ (t_entries d) = true |- _ => rewrite forallb_forall in H; specialize (H e He); rename H into Hx end.
  rewrite E in Hx. rewrite Z.eqb_refl in Hx. discriminate.
Qed.
Lemma ok_synset_lexid : forall d, db_ok d = true ->
  forall ss, In ss (t_synsets d) -> sy_lexicon_rowid ss <> NON_ROWID.
Proof.
  intros d Hok e He E. split_ok Hok.
  match goal with H : forallb _ (t_synsets d) = true |- _ => rewrite forallb_forall in H; specialize (H e He); rename H into Hx end.
  rewrite E in Hx. rewrite Z.eqb_refl in Hx. discriminate.
Qed.
Lemma ok_sense_resolves : forall d, db_ok d = true -> forall s, In s (t_senses d) ->
  exists e ss, find_by en_rowid (se_entry_rowid s) (t_entries d) = Some e
            /\ find_by sy_rowid (se_synset_rowid s) (t_synsets d) = Some ss.
Proof.
  intros d Hok s Hs. split_ok Hok.
  match goal with H : forallb _ (t_senses d) = true |- _ => rewrite forallb_forall in H; specialize (H s Hs); rename H into Hx end.
  destruct (find_by en_rowid (se_entry_rowid s) (t_entries d)) as [e|]; [|discriminate].
  destruct (find_by sy_rowid (se_synset_rowid s) (t_synsets d)) as [ss|]; [|discriminate].
  exists e, ss. split; reflexivity.
Qed.

(* ================================================================== row equalities *)
Lemma q_synset_eqb_eq : forall a b, q_synset_eqb a b = true <-> a = b.
Proof.
  intros [i1 p1 l1 x1 r1] [i2 p2 l2 x2 r2]. unfold q_synset_eqb. simpl. split.
  - intro H. repeat (apply andb_true_iff in H; destruct H as [H ?]).
    apply str_eqb_eq in H. apply ostr_eqb_eq in H3. apply ostr_eqb_eq in H2.
    apply Z.eqb_eq in H1. apply Z.eqb_eq in H0. subst. reflexivity.
  - intro E. injection E as -> -> -> -> ->.
    rewrite str_eqb_refl, !Z.eqb_refl.
    rewrite (proj2 (ostr_eqb_eq p2 p2) eq_refl), (proj2 (ostr_eqb_eq l2 l2) eq_refl). reflexivity.
Qed.

Lemma q_sense_eqb_eq : forall a b, q_sense_eqb a b = true <-> a = b.
Proof.
  intros [i1 e1 y1 x1 r1] [i2 e2 y2 x2 r2]. unfold q_sense_eqb. simpl. split.
  - intro H. repeat (apply andb_true_iff in H; destruct H as [H ?]).
    apply str_eqb_eq in H. apply str_eqb_eq in H3. apply str_eqb_eq in H2.
    apply Z.eqb_eq in H1. apply Z.eqb_eq in H0. subst. reflexivity.
  - intro E. injection E as -> -> -> -> ->. rewrite !str_eqb_refl, !Z.eqb_refl. reflexivity.
Qed.

Lemma q_synset_relation_eqb_eq : forall a b, q_synset_relation_eqb a b = true <-> a = b.
Proof.
  intros [n1 l1 m1 s1 y1] [n2 l2 m2 s2 y2]. unfold q_synset_relation_eqb. simpl. split.
  - intro H. repeat (apply andb_true_iff in H; destruct H as [H ?]).
    apply str_eqb_eq in H. apply str_eqb_eq in H3. apply ostr_eqb_eq in H2.
    apply Z.eqb_eq in H1. apply q_synset_eqb_eq in H0. subst. reflexivity.
  - intro E. injection E as -> -> -> -> ->. rewrite !str_eqb_refl, Z.eqb_refl.
    rewrite (proj2 (ostr_eqb_eq m2 m2) eq_refl), (proj2 (q_synset_eqb_eq y2 y2) eq_refl). reflexivity.
Qed.

Lemma q_sense_relation_eqb_eq : forall a b, q_sense_relation_eqb a b = true <-> a = b.
Proof.
  intros [n1 l1 m1 y1] [n2 l2 m2 y2]. unfold q_sense_relation_eqb. simpl. split.
  - intro H. repeat (apply andb_true_iff in H; destruct H as [H ?]).
    apply str_eqb_eq in H. apply str_eqb_eq in H2. apply ostr_eqb_eq in H1.
    apply q_sense_eqb_eq in H0. subst. reflexivity.
  - intro E. injection E as -> -> -> ->. rewrite !str_eqb_refl.
    rewrite (proj2 (ostr_eqb_eq m2 m2) eq_refl), (proj2 (q_sense_eqb_eq y2 y2) eq_refl). reflexivity.
Qed.

(* DISTINCT with an equality that is Leibniz: same members *)
Lemma dedup_In_iff : forall T (eqb : T -> T -> bool),
  (forall a b, eqb a b = true <-> a = b) ->
  forall l x, In x (dedup eqb l) <-> In x l.
Proof.
  intros T eqb Heq l x. split.
  - apply dedup_In.
  - intro Hin. destruct (dedup_complete T eqb (fun a => proj2 (Heq a a) eq_refl) l x Hin) as [y [Hy He]].
    apply Heq in He. subst. exact Hy.
Qed.

Lemma sorted_values_In : forall l x, In x (sorted_values l) <-> In x l.
Proof.
  intros l x. unfold sorted_values. rewrite stable_sort_In.
  apply dedup_In_iff. intros a b. apply str_eqb_eq.
Qed.

(* ================================================================== matching_forms *)
(* the WHERE clause  (form IN wordforms [OR normalized_form IN wordforms]) [AND rank = 0] *)
Definition form_matches (wordforms : list str) (normalized search_all_forms : bool) (f : form_row) : Prop :=
  (In (fm_form f) wordforms
   \/ (normalized = true /\ exists n, fm_normalized_form f = Some n /\ In n wordforms))
  /\ (search_all_forms = true \/ fm_rank f = Some 0).

Lemma matching_forms_sound : forall d wf norm saf f,
  In f (matching_forms d wf norm saf) -> In f (t_forms d) /\ form_matches wf norm saf f.
Proof.
  intros d wf norm saf f H. unfold matching_forms in H.
  apply filter_In in H. destruct H as [H Hrank].
  apply dedup_In in H. apply in_app_or in H.
  assert (Hr : saf = true \/ fm_rank f = Some 0).
  { apply orb_true_iff in Hrank. destruct Hrank as [Hs|Hr]; [left; exact Hs | right; apply oz_is_eq; exact Hr]. }
  destruct H as [H|H].
  - apply in_flat_map in H. destruct H as [w [Hw H]]. apply filter_In in H. destruct H as [Hf He].
    apply str_eqb_eq in He. apply (proj1 (sorted_values_In _ _)) in Hw.
    split; [exact Hf | split; [left; rewrite He; exact Hw | exact Hr]].
  - destruct norm; [|destruct H].
    apply in_flat_map in H. destruct H as [w [Hw H]]. apply filter_In in H. destruct H as [Hf He].
    apply ostr_is_eq in He. apply (proj1 (sorted_values_In _ _)) in Hw.
    split; [exact Hf | split; [right; split; [reflexivity | exists w; split; assumption] | exact Hr]].
Qed.

Lemma matching_forms_complete : forall d wf norm saf f,
  unique_keys fm_rowid (t_forms d) ->
  In f (t_forms d) -> form_matches wf norm saf f -> In f (matching_forms d wf norm saf).
Proof.
  intros d wf norm saf f Hu Hf [Hm Hr]. unfold matching_forms.
  apply filter_In. split.
  - set (by_form := flat_map (fun w => filter (fun f0 => str_eqb (fm_form f0) w) (t_forms d)) (sorted_values wf)).
    set (by_norm := if norm then flat_map (fun w => filter (fun f0 => ostr_is (fm_normalized_form f0) w) (t_forms d)) (sorted_values wf) else []).
    assert (Hall : forall g, In g (by_form ++ by_norm) -> In g (t_forms d)).
    { intros g Hg. apply in_app_or in Hg. destruct Hg as [Hg|Hg].
      - unfold by_form in Hg. apply in_flat_map in Hg. destruct Hg as [w [_ Hg]].
        apply filter_In in Hg. tauto.
      - unfold by_norm in Hg. destruct norm; [|destruct Hg].
        apply in_flat_map in Hg. destruct Hg as [w [_ Hg]]. apply filter_In in Hg. tauto. }
    assert (Hin : In f (by_form ++ by_norm)).
    { destruct Hm as [Hm|[Hn [n [Hfn Hnin]]]].
      - apply in_or_app. left. unfold by_form. apply in_flat_map. exists (fm_form f).
        split; [apply sorted_values_In; exact Hm | apply filter_In; split; [exact Hf | apply str_eqb_refl]].
      - apply in_or_app. right. unfold by_norm. rewrite Hn. apply in_flat_map. exists n.
        split; [apply sorted_values_In; exact Hnin | apply filter_In; split; [exact Hf | apply ostr_is_eq; exact Hfn]]. }
    destruct (dedup_complete _ (fun a b => Z.eqb (fm_rowid a) (fm_rowid b)) (fun a => Z.eqb_refl _) _ f Hin) as [g [Hg He]].
    apply Z.eqb_eq in He.
    assert (g = f).
    { apply (unique_keys_inj _ fm_rowid (t_forms d)); [exact Hu | apply Hall; apply dedup_In in Hg; exact Hg | exact Hf | symmetry; exact He]. }
    subst g. exact Hg.
  - apply orb_true_iff. destruct Hr as [Hr|Hr]; [left; exact Hr | right; apply oz_is_eq; exact Hr].
Qed.

Lemma matching_entry_rowids_In : forall d wf norm saf r,
  In r (matching_entry_rowids d wf norm saf) ->
  exists f, In f (t_forms d) /\ fm_entry_rowid f = r /\ form_matches wf norm saf f.
Proof.
  intros d wf norm saf r H. unfold matching_entry_rowids in H. apply in_map_iff in H.
  destruct H as [f [E Hf]]. apply matching_forms_sound in Hf. exists f. tauto.
Qed.

(* ================================================================== find_entries *)
Definition word_of_entry (e : entry_row) (w : q_word) : Prop :=
  qw_id w = en_id e /\ qw_pos w = en_pos e /\ qw_lexid w = en_lexicon_rowid e /\ qw_rowid w = en_rowid e.

(* the WHERE clause of find_entries *)
Definition entry_cond (d : db) (id : option str) (forms : list str) (pos : option str)
           (lexicon_rowids : list Z) (normalized search_all_forms : bool) (e : entry_row) : bool :=
  (if truthy id then ostr_eqb (Some (en_id e)) id else true)
  && (if nonempty forms then z_in (en_rowid e) (matching_entry_rowids d forms normalized search_all_forms) else true)
  && (if truthy pos then ostr_eqb (Some (en_pos e)) pos else true)
  && (if nonempty lexicon_rowids then z_in (en_lexicon_rowid e) lexicon_rowids else true).

Lemma entry_key_eqb_eq : forall a b, entry_key_eqb a b = true ->
  en_lexicon_rowid a = en_lexicon_rowid b /\ en_rowid a = en_rowid b
  /\ en_id a = en_id b /\ en_pos a = en_pos b.
Proof.
  intros a b H. unfold entry_key_eqb in H.
  repeat (apply andb_true_iff in H; destruct H as [H ?]).
  apply Z.eqb_eq in H. apply Z.eqb_eq in H2. apply str_eqb_eq in H1. apply str_eqb_eq in H0. tauto.
Qed.

Lemma group_entries_cons : forall e f rest,
  group_entries ((e, f) :: rest) =
  match hd_opt rest, group_entries rest with
  | Some (e', _), w :: ws =>
      if entry_key_eqb e e'
      then {| qw_id := qw_id w; qw_pos := qw_pos w; qw_forms := form_columns f :: qw_forms w;
              qw_lexid := qw_lexid w; qw_rowid := qw_rowid w |} :: ws
      else new_group e f :: w :: ws
  | _, _ => new_group e f :: group_entries rest
  end.
Proof. reflexivity. Qed.

Lemma word_of_new_group : forall e f, word_of_entry e (new_group e f).
Proof. intros. unfold word_of_entry, new_group. simpl. tauto. Qed.

Lemma group_entries_head : forall rows,
  match rows with
  | [] => group_entries rows = []
  | (e, f) :: _ => exists w ws, group_entries rows = w :: ws /\ word_of_entry e w
                                /\ In (form_columns f) (qw_forms w)
  end.
Proof.
  induction rows as [|[e f] rest IH].
  - reflexivity.
  - rewrite group_entries_cons. destruct rest as [|[e' f'] rest'].
    + simpl. exists (new_group e f), []. split; [reflexivity | split; [apply word_of_new_group | left; reflexivity]].
    + destruct IH as [w0 [ws [Hg [Hw0 _]]]]. rewrite Hg. simpl hd_opt. cbv iota beta.
      destruct (entry_key_eqb e e') eqn:Ek.
      * eexists. eexists. split; [reflexivity|]. split; [|left; reflexivity].
        apply entry_key_eqb_eq in Ek. destruct Ek as [E1 [E2 [E3 E4]]].
        destruct Hw0 as [W1 [W2 [W3 W4]]]. unfold word_of_entry. simpl.
        rewrite E1, E2, E3, E4. tauto.
      * eexists. eexists. split; [reflexivity|]. split; [apply word_of_new_group | left; reflexivity].
Qed.

(* every group comes from a row, and all its forms come from rows with the same key *)
Definition group_ok (rows : list (entry_row * form_row)) (w : q_word) : Prop :=
  (exists e f, In (e, f) rows /\ word_of_entry e w)
  /\ qw_forms w <> []
  /\ (forall qf, In qf (qw_forms w) ->
        exists e f, In (e, f) rows /\ word_of_entry e w /\ qf = form_columns f).

Lemma group_ok_weaken : forall r rows w, group_ok rows w -> group_ok (r :: rows) w.
Proof.
  intros r rows w [[e0 [f0 [H0 W0]]] [Hne Hf]]. split; [exists e0, f0; split; [right; exact H0 | exact W0]|].
  split; [exact Hne|]. intros qf Hqf. destruct (Hf qf Hqf) as [e1 [f1 [H1 [W1 E1]]]].
  exists e1, f1. split; [right; exact H1 | split; assumption].
Qed.

Lemma group_ok_new : forall e f rest, group_ok ((e, f) :: rest) (new_group e f).
Proof.
  intros e f rest. split; [exists e, f; split; [left; reflexivity | apply word_of_new_group]|].
  split; [simpl; discriminate|]. intros qf [<-|[]]. exists e, f.
  split; [left; reflexivity | split; [apply word_of_new_group | reflexivity]].
Qed.

Lemma word_of_entry_same_key : forall w0 w1 e1,
  qw_id w1 = qw_id w0 -> qw_pos w1 = qw_pos w0 -> qw_lexid w1 = qw_lexid w0 -> qw_rowid w1 = qw_rowid w0 ->
  word_of_entry e1 w0 -> word_of_entry e1 w1.
Proof. intros w0 w1 e1 A1 A2 A3 A4 [B1 [B2 [B3 B4]]]. unfold word_of_entry. rewrite A1, A2, A3, A4. tauto. Qed.

(* every group comes from a row, and all its forms come from rows with the same key *)
Lemma group_entries_sound : forall rows w, In w (group_entries rows) -> group_ok rows w.
Proof.
  induction rows as [|[e f] rest IH]; intros w Hin.
  - destruct Hin.
  - rewrite group_entries_cons in Hin.
    pose proof (group_entries_head rest) as Hhead.
    destruct rest as [|[e' f'] rest'].
    + simpl in Hin. destruct Hin as [<-|[]]. apply group_ok_new.
    + destruct Hhead as [w0 [ws [Hg [Hw0 _]]]]. rewrite Hg in Hin. rewrite Hg in IH.
      simpl hd_opt in Hin. cbv iota beta in Hin.
      destruct (entry_key_eqb e e') eqn:Ek.
      * destruct Hin as [<-|Hin]; [|apply group_ok_weaken; apply IH; right; exact Hin].
        apply entry_key_eqb_eq in Ek. destruct Ek as [E1 [E2 [E3 E4]]].
        destruct (group_ok_weaken (e, f) _ _ (IH w0 (or_introl eq_refl))) as [[e0 [f0 [H0 W0]]] [Hne Hf]].
        split; [exists e0, f0; split; [exact H0 | apply (word_of_entry_same_key w0); auto]|].
        split; [simpl; discriminate|].
        intros qf Hqf. simpl in Hqf. destruct Hqf as [<-|Hqf].
        -- exists e, f. split; [left; reflexivity|]. split; [|reflexivity].
           destruct Hw0 as [W1 [W2 [W3 W4]]]. unfold word_of_entry. simpl. rewrite E1, E2, E3, E4. tauto.
        -- destruct (Hf qf Hqf) as [e1 [f1 [H1 [W1 Eq]]]]. exists e1, f1.
           split; [exact H1 | split; [apply (word_of_entry_same_key w0); auto | exact Eq]].
      * destruct Hin as [<-|Hin]; [apply group_ok_new | apply group_ok_weaken; apply IH; exact Hin].
Qed.

(* every row is represented in some group *)
Lemma group_entries_complete : forall rows e f, In (e, f) rows ->
  exists w, In w (group_entries rows) /\ word_of_entry e w /\ In (form_columns f) (qw_forms w).
Proof.
  induction rows as [|[e0 f0] rest IH]; intros e f Hin.
  - destruct Hin.
  - destruct Hin as [E|Hin].
    + injection E as -> ->. pose proof (group_entries_head ((e, f) :: rest)) as H.
      destruct H as [w [ws [Hg [Hw Hf]]]]. exists w. rewrite Hg. split; [left; reflexivity | tauto].
    + destruct (IH e f Hin) as [w [Hw [We Hf]]]. rewrite group_entries_cons.
      destruct (hd_opt rest) as [[e' f']|]; [|exists w; split; [right; exact Hw | tauto]].
      destruct (group_entries rest) as [|w0 ws]; [destruct Hw|].
      destruct (entry_key_eqb e0 e').
      * destruct Hw as [<-|Hw].
        -- eexists. split; [left; reflexivity|]. split; [exact We | right; exact Hf].
        -- exists w. split; [right; exact Hw | tauto].
      * exists w. split; [right; exact Hw | tauto].
Qed.

Lemma find_entries_rows : forall d id forms pos ids norm saf e f,
  In (e, f) (stable_sort entry_form_le
     (flat_map (fun e0 => map (fun f0 => (e0, f0))
                              (filter (fun f0 => Z.eqb (fm_entry_rowid f0) (en_rowid e0)) (t_forms d)))
               (filter (entry_cond d id forms pos ids norm saf) (t_entries d))))
  <-> In e (t_entries d) /\ entry_cond d id forms pos ids norm saf e = true
      /\ In f (t_forms d) /\ fm_entry_rowid f = en_rowid e.
Proof.
  intros. rewrite stable_sort_In, in_flat_map. split.
  - intros [e0 [He0 H]]. apply filter_In in He0. apply in_map_iff in H. destruct H as [f0 [E Hf0]].
    injection E as -> ->. apply filter_In in Hf0. destruct Hf0 as [Hf0 Ef]. apply Z.eqb_eq in Ef. tauto.
  - intros [He [Hc [Hf Ef]]]. exists e. split; [apply filter_In; tauto|].
    apply in_map_iff. exists f. split; [reflexivity|]. apply filter_In. split; [exact Hf | apply Z.eqb_eq; exact Ef].
Qed.

Lemma find_entries_unfold : forall d id forms pos ids norm saf,
  find_entries d id forms pos ids norm saf =
  group_entries (stable_sort entry_form_le
     (flat_map (fun e0 => map (fun f0 => (e0, f0))
                              (filter (fun f0 => Z.eqb (fm_entry_rowid f0) (en_rowid e0)) (t_forms d)))
               (filter (entry_cond d id forms pos ids norm saf) (t_entries d)))).
Proof. reflexivity. Qed.

(* soundness: a result is an entry satisfying the WHERE clause, with at least one form, and all
   its forms are form rows of an entry with the same (lexicon, rowid, id, pos) *)
Theorem find_entries_sound : forall d id forms pos ids norm saf w,
  In w (find_entries d id forms pos ids norm saf) ->
  (exists e, In e (t_entries d) /\ word_of_entry e w /\ entry_cond d id forms pos ids norm saf e = true)
  /\ qw_forms w <> []
  /\ (forall qf, In qf (qw_forms w) ->
        exists f, In f (t_forms d) /\ fm_entry_rowid f = qw_rowid w /\ qf = form_columns f).
Proof.
  intros d id forms pos ids norm saf w H. rewrite find_entries_unfold in H.
  apply group_entries_sound in H. destruct H as [[e [f [Hr We]]] [Hne Hf]].
  apply find_entries_rows in Hr. split; [exists e; tauto|]. split; [exact Hne|].
  intros qf Hqf. destruct (Hf qf Hqf) as [e1 [f1 [H1 [W1 E1]]]].
  apply find_entries_rows in H1. exists f1. destruct W1 as [_ [_ [_ W4]]]. rewrite W4. tauto.
Qed.

(* completeness: an entry satisfying the WHERE clause and having a form row is returned *)
Theorem find_entries_complete : forall d id forms pos ids norm saf e f,
  In e (t_entries d) -> entry_cond d id forms pos ids norm saf e = true ->
  In f (t_forms d) -> fm_entry_rowid f = en_rowid e ->
  exists w, In w (find_entries d id forms pos ids norm saf) /\ word_of_entry e w
            /\ In (form_columns f) (qw_forms w).
Proof.
  intros d id forms pos ids norm saf e f He Hc Hf Ef. rewrite find_entries_unfold.
  apply group_entries_complete. apply find_entries_rows. tauto.
Qed.

(* ================================================================== find_senses *)
Definition sense_cond (d : db) (id : option str) (forms : list str) (pos : option str)
           (lexicon_rowids : list Z) (normalized search_all_forms : bool)
           (s : sense_row) (e : entry_row) : bool :=
  (if truthy id then ostr_eqb (Some (se_id s)) id else true)
  && (if nonempty forms then z_in (se_entry_rowid s) (matching_entry_rowids d forms normalized search_all_forms) else true)
  && (if truthy pos then ostr_eqb (Some (en_pos e)) pos else true)
  && (if nonempty lexicon_rowids then z_in (se_lexicon_rowid s) lexicon_rowids else true).

Lemma sense_columns_Some : forall d s q e ss, sense_columns d s = Some (q, e, ss) ->
  find_by en_rowid (se_entry_rowid s) (t_entries d) = Some e
  /\ find_by sy_rowid (se_synset_rowid s) (t_synsets d) = Some ss
  /\ q = {| qs_id := se_id s; qs_entry_id := en_id e; qs_synset_id := sy_id ss;
            qs_lexid := se_lexicon_rowid s; qs_rowid := se_rowid s |}.
Proof.
  intros d s q e ss H. unfold sense_columns in H.
  destruct (find_by en_rowid (se_entry_rowid s) (t_entries d)) as [e0|]; [|discriminate].
  destruct (find_by sy_rowid (se_synset_rowid s) (t_synsets d)) as [ss0|]; [|discriminate].
  injection H as <- <- <-. tauto.
Qed.

Theorem find_senses_iff : forall d id forms pos ids norm saf q,
  In q (find_senses d id forms pos ids norm saf) <->
  exists s e ss, In s (t_senses d) /\ sense_columns d s = Some (q, e, ss)
                 /\ sense_cond d id forms pos ids norm saf s e = true.
Proof.
  intros d id forms pos ids norm saf q. unfold find_senses.
  rewrite (dedup_In_iff _ q_sense_eqb q_sense_eqb_eq). rewrite in_flat_map. split.
  - intros [s [Hs H]].
    assert (Hs' : In s (t_senses d)).
    { destruct (nonempty forms); [apply sort_by_z_In in Hs; exact Hs | exact Hs]. }
    destruct (sense_columns d s) as [[[q0 e] ss]|] eqn:Esc; [|destruct H].
    match type of H with In _ (if ?c then _ else _) => destruct c eqn:Ec end; [|destruct H].
    destruct H as [<-|[]]. exists s, e, ss. split; [exact Hs' | split; [exact Esc | exact Ec]].
  - intros [s [e [ss [Hs [Esc Hc]]]]]. exists s. split.
    + destruct (nonempty forms); [apply sort_by_z_In; exact Hs | exact Hs].
    + rewrite Esc. unfold sense_cond in Hc. rewrite Hc. left. reflexivity.
Qed.

(* ================================================================== find_synsets *)
Lemma synset_columns_fields : forall d ss,
  qy_id (synset_columns d ss) = sy_id ss /\ qy_pos (synset_columns d ss) = sy_pos ss
  /\ qy_lexid (synset_columns d ss) = sy_lexicon_rowid ss /\ qy_rowid (synset_columns d ss) = sy_rowid ss
  /\ qy_ili (synset_columns d ss) = ili_id_of d (sy_ili_rowid ss).
Proof. intros. unfold synset_columns. simpl. tauto. Qed.

Theorem find_synsets_iff : forall d id forms pos ili ids norm saf q,
  In q (find_synsets d id forms pos ili ids norm saf) <->
  exists ss, In ss (t_synsets d) /\ q = synset_columns d ss
             /\ synset_conditions d id pos ili ids ss = true
             /\ (forms <> [] ->
                 exists f _s, In f (matching_forms d forms norm saf) /\ In _s (t_senses d)
                              /\ se_entry_rowid _s = fm_entry_rowid f
                              /\ (if nonempty ids then z_in (se_lexicon_rowid _s) ids else true) = true
                              /\ find_by sy_rowid (se_synset_rowid _s) (t_synsets d) = Some ss).
Proof.
  intros d id forms pos ili ids norm saf q. unfold find_synsets.
  destruct (nonempty forms) eqn:Ene.
  - assert (Hne : forms <> []) by (apply nonempty_true; exact Ene).
    rewrite in_map_iff. split.
    + intros [[k q0] [E H]]. simpl in E. subst q0. apply stable_sort_In in H. apply dedup_In in H.
      apply in_flat_map in H. destruct H as [f [Hf H]]. apply in_flat_map in H. destruct H as [_s [Hs H]].
      apply filter_In in Hs. destruct Hs as [Hs Es]. apply andb_true_iff in Es. destruct Es as [Es El].
      apply Z.eqb_eq in Es.
      destruct (find_by sy_rowid (se_synset_rowid _s) (t_synsets d)) as [ss|] eqn:Ess; [|destruct H].
      destruct (synset_conditions d id pos ili ids ss) eqn:Ec; [|destruct H].
      destruct H as [E|[]]. injection E as _ <-.
      exists ss. split; [apply find_by_Some in Ess; tauto|]. split; [reflexivity|]. split; [exact Ec|].
      intros _. exists f, _s. tauto.
    + intros [ss [Hss [-> [Hc Hf]]]]. destruct (Hf Hne) as [f [_s [Hfm [Hs [Es [El Ess]]]]]].
      set (visited := flat_map _ (matching_forms d forms norm saf)).
      assert (Hv : In ((se_entry_rowid _s, se_entry_rank _s), synset_columns d ss) visited).
      { unfold visited. apply in_flat_map. exists f. split; [exact Hfm|]. apply in_flat_map. exists _s.
        split; [apply filter_In; split; [exact Hs | apply andb_true_iff; split; [apply Z.eqb_eq; exact Es | exact El]]|].
        rewrite Ess, Hc. left. reflexivity. }
      destruct (dedup_complete _ (fun a b : (Z * option Z) * q_synset => q_synset_eqb (snd a) (snd b))
                  (fun a => proj2 (q_synset_eqb_eq _ _) eq_refl) visited _ Hv) as [[k q1] [Hq1 E1]].
      simpl in E1. apply q_synset_eqb_eq in E1. subst q1.
      exists (k, synset_columns d ss). split; [reflexivity | apply stable_sort_In; exact Hq1].
  - assert (Hnil : forms = []) by (destruct forms; [reflexivity | discriminate]).
    rewrite (dedup_In_iff _ q_synset_eqb q_synset_eqb_eq). rewrite in_map_iff. split.
    + intros [ss [<- H]]. apply filter_In in H. destruct H as [Hss Hc].
      exists ss. split; [exact Hss|]. split; [reflexivity|]. split; [exact Hc | intro C; contradiction].
    + intros [ss [Hss [-> [Hc _]]]]. exists ss. split; [reflexivity | apply filter_In; tauto].
Qed.

(* ================================================================== _get_senses *)
Theorem get_senses_iff : forall d rowid st ids q,
  In q (_get_senses d rowid st ids) <->
  exists s e ss, In s (t_senses d) /\ sense_columns d s = Some (q, e, ss)
                 /\ (match st with by_entry => se_entry_rowid s | by_synset => se_synset_rowid s end) = rowid
                 /\ In (se_lexicon_rowid s) ids.
Proof.
  intros d rowid st ids q. unfold _get_senses. rewrite in_flat_map. split.
  - intros [s [Hs H]]. apply sort_by_oz_In in Hs. apply filter_In in Hs. destruct Hs as [Hs Hc].
    apply andb_true_iff in Hc. destruct Hc as [Hc1 Hc2]. apply Z.eqb_eq in Hc1. apply z_in_In in Hc2.
    destruct (sense_columns d s) as [[[q0 e] ss]|] eqn:Esc; [|destruct H].
    destruct H as [<-|[]]. exists s, e, ss. tauto.
  - intros [s [e [ss [Hs [Esc [Hr Hl]]]]]]. exists s. split.
    + apply sort_by_oz_In. apply filter_In. split; [exact Hs|].
      apply andb_true_iff. split; [apply Z.eqb_eq; exact Hr | apply z_in_In; exact Hl].
    + rewrite Esc. left. reflexivity.
Qed.

(* ================================================================== relation queries *)
Lemma rt_In : forall d types t, In t (rt d types) <->
  In t (t_relation_types d) /\ (types = [] \/ In c_star_s types \/ In (rt_type t) types).
Proof.
  intros d types t. unfold rt.
  destruct (nonempty types) eqn:Ene; simpl.
  - destruct (str_in c_star_s types) eqn:Es; simpl.
    + apply str_in_In in Es. tauto.
    + rewrite filter_In, str_in_In. split; [tauto|].
      intros [Ht [E|[Hs|Hin]]]; [subst; discriminate | apply str_in_In in Hs; congruence | tauto].
  - assert (types = []) by (destruct types; [reflexivity | discriminate]). tauto.
Qed.

(* a row of the inner SELECT: the relation row, its type row and the defining lexicon *)
Lemma rel_subquery_In : forall d table srcs types ids name lexicon meta src tgt,
  In (name, lexicon, meta, src, tgt) (rel_subquery d table srcs types ids) <->
  exists srel t lex, In srel table /\ In (rl_source_rowid srel) srcs /\ In (rl_lexicon_rowid srel) ids
    /\ find_by rt_rowid (rl_type_rowid srel) (rt d types) = Some t
    /\ find_by lex_rowid (rl_lexicon_rowid srel) (t_lexicons d) = Some lex
    /\ name = rt_type t /\ lexicon = lexicon_specifier lex /\ meta = rl_metadata srel
    /\ src = rl_source_rowid srel /\ tgt = rl_target_rowid srel.
Proof.
  intros. unfold rel_subquery. rewrite in_flat_map. split.
  - intros [srel [Hs H]]. apply sort_by_z_In in Hs. apply filter_In in Hs. destruct Hs as [Hs Hc].
    apply andb_true_iff in Hc. destruct Hc as [Hc1 Hc2]. apply z_in_In in Hc1. apply z_in_In in Hc2.
    destruct (find_by rt_rowid (rl_type_rowid srel) (rt d types)) as [t|] eqn:Et; [|destruct H].
    destruct (find_by lex_rowid (rl_lexicon_rowid srel) (t_lexicons d)) as [lex|] eqn:El; [|destruct H].
    destruct H as [E|[]]. injection E as <- <- <- <- <-. exists srel, t, lex. tauto.
  - intros [srel [t [lex [Hs [H1 [H2 [Et [El [-> [-> [-> [-> ->]]]]]]]]]]]]. exists srel. split.
    + apply sort_by_z_In. apply filter_In. split; [exact Hs|].
      apply andb_true_iff. split; apply z_in_In; assumption.
    + rewrite Et, El. left. reflexivity.
Qed.

Theorem synset_target_query_iff : forall d table srcs types ids rows r,
  synset_target_query d table srcs types ids = Ok rows ->
  (In r rows <->
   exists srel t lex tgt, In srel table /\ In (rl_source_rowid srel) srcs /\ In (rl_lexicon_rowid srel) ids
     /\ find_by rt_rowid (rl_type_rowid srel) (rt d types) = Some t
     /\ find_by lex_rowid (rl_lexicon_rowid srel) (t_lexicons d) = Some lex
     /\ find_by sy_rowid (rl_target_rowid srel) (t_synsets d) = Some tgt
     /\ In (sy_lexicon_rowid tgt) ids
     /\ r = {| qyr_name := rt_type t; qyr_lexicon := lexicon_specifier lex; qyr_metadata := rl_metadata srel;
               qyr_src_rowid := rl_source_rowid srel; qyr_synset := synset_columns d tgt |}).
Proof.
  intros d table srcs types ids rows r H. unfold synset_target_query in H.
  destruct (nonempty ids); simpl in H; [|discriminate]. injection H as <-.
  rewrite (dedup_In_iff _ q_synset_relation_eqb q_synset_relation_eqb_eq). rewrite in_flat_map. split.
  - intros [[[[[name lexicon] meta] src] tg] [Hsub H]].
    apply rel_subquery_In in Hsub.
    destruct Hsub as [srel [t [lex [Hs [H1 [H2 [Et [El [-> [-> [-> [-> ->]]]]]]]]]]]].
    destruct (find_by sy_rowid (rl_target_rowid srel) (t_synsets d)) as [tgt|] eqn:Etg; [|destruct H].
    destruct (z_in (sy_lexicon_rowid tgt) ids) eqn:Ez; [|destruct H].
    destruct H as [<-|[]]. apply z_in_In in Ez. exists srel, t, lex, tgt. tauto.
  - intros [srel [t [lex [tgt [Hs [H1 [H2 [Et [El [Etg [Hz ->]]]]]]]]]]].
    exists (rt_type t, lexicon_specifier lex, rl_metadata srel, rl_source_rowid srel, rl_target_rowid srel).
    split.
    + apply rel_subquery_In. exists srel, t, lex. tauto.
    + rewrite Etg. apply z_in_In in Hz. rewrite Hz. left. reflexivity.
Qed.

Lemma synset_target_query_Ok : forall d table srcs types ids,
  ids <> [] -> exists rows, synset_target_query d table srcs types ids = Ok rows.
Proof.
  intros d table srcs types ids H. unfold synset_target_query.
  apply nonempty_true in H. rewrite H. simpl. eexists. reflexivity.
Qed.

Theorem get_sense_relations_iff : forall d src types ids rows r,
  get_sense_relations d src types ids = Ok rows ->
  (In r rows <->
   exists srel t lex s q e ss, In srel (t_sense_relations d) /\ rl_source_rowid srel = src
     /\ In (rl_lexicon_rowid srel) ids
     /\ find_by rt_rowid (rl_type_rowid srel) (rt d types) = Some t
     /\ find_by lex_rowid (rl_lexicon_rowid srel) (t_lexicons d) = Some lex
     /\ find_by se_rowid (rl_target_rowid srel) (t_senses d) = Some s
     /\ In (se_lexicon_rowid s) ids
     /\ sense_columns d s = Some (q, e, ss)
     /\ r = {| qsr_name := rt_type t; qsr_lexicon := lexicon_specifier lex;
               qsr_metadata := rl_metadata srel; qsr_sense := q |}).
Proof.
  intros d src types ids rows r H. unfold get_sense_relations in H.
  destruct (nonempty ids); simpl in H; [|discriminate]. injection H as <-.
  rewrite (dedup_In_iff _ q_sense_relation_eqb q_sense_relation_eqb_eq). rewrite in_flat_map. split.
  - intros [[[[[name lexicon] meta] src0] tg] [Hsub H]].
    apply rel_subquery_In in Hsub.
    destruct Hsub as [srel [t [lex [Hs [H1 [H2 [Et [El [-> [-> [-> [-> ->]]]]]]]]]]]].
    destruct H1 as [H1|[]].
    destruct (find_by se_rowid (rl_target_rowid srel) (t_senses d)) as [s|] eqn:Etg; [|destruct H].
    destruct (z_in (se_lexicon_rowid s) ids) eqn:Ez; [|destruct H].
    destruct (sense_columns d s) as [[[q e] ss]|] eqn:Esc; [|destruct H].
    destruct H as [<-|[]]. apply z_in_In in Ez. exists srel, t, lex, s, q, e, ss.
    repeat split; try assumption; try reflexivity. symmetry. exact H1.
  - intros [srel [t [lex [s [q [e [ss [Hs [H1 [H2 [Et [El [Etg [Hz [Esc ->]]]]]]]]]]]]]]].
    exists (rt_type t, lexicon_specifier lex, rl_metadata srel, rl_source_rowid srel, rl_target_rowid srel).
    split.
    + apply rel_subquery_In. exists srel, t, lex. repeat split; try assumption; try reflexivity.
      left. symmetry. exact H1.
    + rewrite Etg. apply z_in_In in Hz. rewrite Hz, Esc. left. reflexivity.
Qed.

(* ================================================================== get_synsets_for_ilis *)
Theorem get_synsets_for_ilis_iff : forall d ilis ids q,
  In q (get_synsets_for_ilis d ilis ids) <->
  exists ss ili, In ss (t_synsets d) /\ In ili (t_ilis d) /\ In (il_id ili) ilis
                 /\ sy_ili_rowid ss = Some (il_rowid ili) /\ In (sy_lexicon_rowid ss) ids
                 /\ q = {| qy_id := sy_id ss; qy_pos := sy_pos ss; qy_ili := Some (il_id ili);
                           qy_lexid := sy_lexicon_rowid ss; qy_rowid := sy_rowid ss |}.
Proof.
  intros d ilis ids q. unfold get_synsets_for_ilis.
  rewrite (dedup_In_iff _ q_synset_eqb q_synset_eqb_eq). rewrite in_flat_map. split.
  - intros [v [Hv H]]. apply (proj1 (sorted_values_In _ _)) in Hv. apply in_flat_map in H.
    destruct H as [ili [Hi H]]. apply filter_In in Hi. destruct Hi as [Hi Ei]. apply str_eqb_eq in Ei.
    apply in_map_iff in H. destruct H as [ss [<- Hss]]. apply filter_In in Hss. destruct Hss as [Hss Hc].
    apply andb_true_iff in Hc. destruct Hc as [Hc1 Hc2]. apply oz_is_eq in Hc1. apply z_in_In in Hc2.
    exists ss, ili. subst v. tauto.
  - intros [ss [ili [Hss [Hi [Hin [Eili [Hl ->]]]]]]]. exists (il_id ili). split; [apply sorted_values_In; exact Hin|].
    apply in_flat_map. exists ili. split; [apply filter_In; split; [exact Hi | apply str_eqb_refl]|].
    apply in_map_iff. exists ss. split; [reflexivity|]. apply filter_In. split; [exact Hss|].
    apply andb_true_iff. split; [apply oz_is_eq; exact Eili | apply z_in_In; exact Hl].
Qed.
